#!/bin/sh
# Build the harness from files on disk only (offline).
set -e
cd "$(dirname "$0")"
export GOFLAGS=-mod=mod GOPROXY=off
mkdir -p .work/bin evidence replays
cd harness && go build -tags verif -o ../.work/bin/verif ./cmd/verif
