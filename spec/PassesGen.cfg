SPECIFICATION PSpec
CONSTANT MaxLen = 3
INVARIANTS EmitSeq SeqOK
CHECK_DEADLOCK FALSE
