------------------------------ MODULE Overrides ------------------------------
(***************************************************************************)
(* Pipeline-overridable constants (property C14).                          *)
(*                                                                         *)
(* A module declares   [@id(n)] override name : T [= init];   with T one   *)
(* of bool / i32 / u32 / f32 and  init  an override-expression over        *)
(* literals, module constants and other overrides.  A pipeline is created  *)
(* with a value map K : key -> number; the API number is an IEEE double.   *)
(* This module states what the module *means* under K:                     *)
(*                                                                         *)
(*   Meaning(p, K) = WgslSem.Run(Subst(p, Resolve(p.overrides, K)))        *)
(*                   or a pipeline-creation ERROR.                         *)
(*                                                                         *)
(* Rules and their sources (transcribed from memory of the WebGPU and WGSL *)
(* specifications; where the text was not certain the rule is left open -  *)
(* status "und" / "valq" - so that this specification is never stronger    *)
(* than the standards):                                                    *)
(*                                                                         *)
(* R1 (WebGPU, "pipeline-overridable constant identifier string"): an      *)
(*    override WITH @id is addressed by the decimal string of its id and   *)
(*    only by it; an override WITHOUT @id is addressed by its name.        *)
(*    A key of K that is the identifier string of no override makes        *)
(*    pipeline creation invalid (WebGPU "validating GPUProgrammableStage");*)
(*    a compiler below that validation layer may never see such a key, so  *)
(*    here such a K may either be rejected or be resolved as if the        *)
(*    invalid keys were absent (ErrOk) - but an invalid key never          *)
(*    influences a resolved value.                                         *)
(* R2 (WebGPU "to WGSL type"): the supplied double is converted to T:      *)
(*      bool : IDL boolean: 0 and -0 -> false, other finite -> true;       *)
(*             NaN: undecided here (JS ToBoolean gives false, but an IDL   *)
(*             `double` cannot carry NaN); +-inf: true or ERROR.           *)
(*      i32  : IDL [EnforceRange] long: NaN / +-inf -> ERROR; truncate     *)
(*             toward zero; outside -2^31 .. 2^31-1 -> ERROR.              *)
(*      u32  : IDL [EnforceRange] unsigned long: likewise, 0 .. 2^32-1.    *)
(*      f32  : IDL float: NaN / +-inf -> ERROR; round to nearest, ties to  *)
(*             even; a result of magnitude 2^128 -> ERROR.  Results in the *)
(*             subnormal range are undecided (WGSL may flush).             *)
(* R3 (WGSL override declarations): without a supplied value the override  *)
(*    has the value of its initialiser, an override-expression evaluated   *)
(*    in type T at pipeline creation; neither value nor initialiser ->     *)
(*    pipeline-creation ERROR.  Module-scope declarations may be used      *)
(*    before their declaration: resolution follows the dependency order.   *)
(* R4 (WGSL expressions in override-expressions): integer / and % by zero  *)
(*    and INT_MIN / -1, shift counts >= 32 are pipeline-creation ERRORs.   *)
(*    Left open ("und"): integer overflow of + - * << and unary - (WGSL    *)
(*    wraps concrete integers, but overflow rules for << in constant       *)
(*    evaluation differ), every f32 operation whose exact result is not    *)
(*    representable or not a normal number (WGSL allows extra precision,   *)
(*    fusing and flushing), f32 division by zero, comparisons on NaN.      *)
(* R6 (WebGPU "validating GPUProgrammableStage": a value is demanded for   *)
(*    every *statically used* override without default; WGSL static       *)
(*    access reaches an override through function bodies, through the      *)
(*    initialisers of the module-scope variables and overrides they use,   *)
(*    and through @workgroup_size): pipeline creation must fail when an    *)
(*    error (missing value, unconvertible number, erroneous operator) is   *)
(*    reached by evaluating something the pipeline uses.  For an override  *)
(*    nothing uses - WebGPU demands no value, the pinned naga reports the  *)
(*    missing value anyway - both behaviours are accepted; likewise for    *)
(*    a default that is not evaluated because its override is supplied.    *)
(* R5 A supplied value replaces the initialiser for the override itself    *)
(*    and for everything derived from it (other overrides, global          *)
(*    variable initialisers, workgroup sizes, expressions in functions).   *)
(*                                                                         *)
(* The API number is modelled as                                           *)
(*     [c |-> "fin", s, m, e]  =  (-1)^s * U(m) * 2^e                      *)
(* (U(m) = the 32-bit word m read as unsigned; every such number with      *)
(* |e| <= 900 is an IEEE double, and the harness builds exactly that       *)
(* double with Ldexp), or c = "nan" | "pinf" | "ninf".  The field cls is   *)
(* a label used only to describe cases.                                    *)
(*                                                                         *)
(* A resolved value is [st, v, tg]:  st = "val" (must be the word v),      *)
(* "valq" (v, but an ERROR is acceptable too), "und" (the standards as     *)
(* transcribed leave it open: nothing is compared), "err" (pipeline        *)
(* creation must fail).  tg is the set of descriptive tags of everything   *)
(* the value depended on (operator classes, reference kinds, value-map     *)
(* classes); tags never influence st or v.                                 *)
(*                                                                         *)
(* Faults (empty in every real check) seeds mistakes into Resolve; the     *)
(* lemmas at the end are what TLC checks on every generated (decls, K)     *)
(* and each fault must make one of them fail (self-test).                  *)
(***************************************************************************)
EXTENDS WgslSem

CONSTANT Faults   \* subset of {"index_order", "name_shadows_id", "default_for_dep", "u32_wrap"}

(***************************************************************************)
(* Statuses                                                                *)
(***************************************************************************)
Rank(st) == CASE st = "val" -> 0 [] st = "valq" -> 1 [] st = "und" -> 2 [] OTHER -> 3
Join(a, b) == IF Rank(a) >= Rank(b) THEN a ELSE b
MkR(st, v, tg) == [st |-> st, v |-> v, tg |-> tg]
V(v) == MkR("val", v, {})
VT(v, tg) == MkR("val", v, tg)
U(tg) == MkR("und", 0, tg)
E(tg) == MkR("err", 0, tg)
Usable(r) == r.st \in {"val", "valq"}
Core(r) == <<r.st, IF Usable(r) THEN r.v ELSE 0>>
\* result of an operation on operands with statuses: the operation's own outcome r joined with the operands'
With(r, sts, tgs) == LET st == Join(r.st, sts) IN MkR(st, IF st \in {"val", "valq"} THEN r.v ELSE 0, r.tg \cup tgs)

(***************************************************************************)
(* R2: the API number -> WGSL type                                         *)
(***************************************************************************)
\* magnitude U(m) * 2^e truncated toward zero, as an unsigned 32-bit word: <<fits in 32 bits, word>>
TruncMag(m, e) ==
  IF m = 0 THEN <<TRUE, 0>>
  ELSE IF e >= 0 THEN (IF e <= 31 /\ ShrUK(ShlK(m, e), e) = m THEN <<TRUE, ShlK(m, e)>> ELSE <<FALSE, 0>>)
  ELSE IF e <= -32 THEN <<TRUE, 0>>
  ELSE <<TRUE, ShrUK(m, 0 - e)>>

ConvI32(x) ==
  IF x.c # "fin" THEN E({}) ELSE
  LET t == TruncMag(x.m, x.e) IN
  IF ~t[1] THEN E({})
  ELSE IF x.s = 0 THEN (IF t[2] >= 0 THEN V(t[2]) ELSE E({}))                 \* <= 2^31 - 1
  ELSE IF t[2] >= 0 \/ t[2] = MinI THEN V(Neg32(t[2])) ELSE E({})              \* >= -2^31

ConvU32(x) ==
  IF x.c # "fin" THEN E({}) ELSE
  LET t == TruncMag(x.m, x.e) IN
  IF ~t[1] THEN E({})
  ELSE IF x.s = 0 THEN V(t[2])
  ELSE IF t[2] = 0 THEN V(0)                                                      \* -0.5 truncates to -0
  ELSE IF "u32_wrap" \in Faults THEN V(Neg32(t[2])) ELSE E({})

ConvF32(x) ==
  IF x.c # "fin" THEN E({})
  ELSE IF x.m = 0 THEN V(IF x.s = 1 THEN NegZero ELSE PosZero)
  ELSE IF x.m < 0 \/ x.m >= 1073741824 THEN U({})                                  \* outside what RoundNE handles: silent
  ELSE LET r == RoundNE(x.m, x.e) IN
       IF r[2] + 150 > 254 THEN E({})                                               \* rounds to 2^128 or beyond
       ELSE IF r[2] + 150 < 1 THEN U({})                                            \* subnormal range
       ELSE V(Pack(x.s, r[1], r[2]))

ConvBool(x) ==
  IF x.c = "nan" THEN U({})
  ELSE IF x.c # "fin" THEN MkR("valq", 1, {})
  ELSE V(IF x.m = 0 THEN 0 ELSE 1)

Conv(T, x) ==
  LET r == CASE T = "i32" -> ConvI32(x) [] T = "u32" -> ConvU32(x) [] T = "f32" -> ConvF32(x) [] OTHER -> ConvBool(x)
  IN  [r EXCEPT !.tg = {"k:" \o T \o ":" \o x.cls}]

(***************************************************************************)
(* R1: keys                                                                *)
(***************************************************************************)
Key(d) == IF d.id >= 0 THEN ToString(d.id) ELSE d.name
HasKey(K, k) == \E i \in 1 .. Len(K) : K[i].key = k
KGet(K, k) == K[CHOOSE i \in 1 .. Len(K) : K[i].key = k].v
KeysOf(ds) == {Key(ds[i]) : i \in 1 .. Len(ds)}
InvalidKeys(ds, K) == {K[i].key : i \in 1 .. Len(K)} \ KeysOf(ds)
RECURSIVE ValidPart(_, _)
ValidPart(ds, K) == IF K = <<>> THEN <<>>
                    ELSE (IF Head(K).key \in KeysOf(ds) THEN <<Head(K)>> ELSE <<>>) \o ValidPart(ds, Tail(K))
RECURSIVE Without(_, _)
Without(K, k) == IF K = <<>> THEN <<>> ELSE (IF Head(K).key = k THEN <<>> ELSE <<Head(K)>>) \o Without(Tail(K), k)

\* the value K supplies for declaration d, if any: <<supplied, API number>>
Supplied(d, K) ==
  IF "name_shadows_id" \in Faults /\ HasKey(K, d.name) THEN <<TRUE, KGet(K, d.name)>>
  ELSE IF HasKey(K, Key(d)) THEN <<TRUE, KGet(K, Key(d))>>
  ELSE <<FALSE, 0>>

(***************************************************************************)
(* R4: operators in override-expressions                                   *)
(***************************************************************************)
MulSmallS(a, b) == a > -32768 /\ a < 32768 /\ b > -32768 /\ b < 32768
MulSmallU(a, b) == a >= 0 /\ a < 65536 /\ b >= 0 /\ b < 65536
IntOvf(op, sk, a, b) ==
  IF sk = "i32" THEN (CASE op = "+" -> AddOvfS(a, b) [] op = "-" -> SubOvfS(a, b) [] OTHER -> ~MulSmallS(a, b))
  ELSE (CASE op = "+" -> LtU(Add32(a, b), a) [] op = "-" -> LtU(a, b) [] OTHER -> ~MulSmallU(a, b))
ShlLoses(sk, a, n) == IF sk = "u32" THEN ShrUK(ShlK(a, n), n) # a ELSE ShrSK(ShlK(a, n), n) # a

IntOp2(op, sk, a, b) ==
  CASE op \in {"/", "%"} ->
         IF b = 0 \/ (sk = "i32" /\ a = MinI /\ b = -1) THEN E({"div0"})
         ELSE VT(BinS(op, sk, a, b), IF op = "/" /\ BinS("%", sk, a, b) # 0 THEN {"idivfrac"} ELSE {})
    [] op \in {"<<", ">>"} ->
         IF ~LtU(b, 32) THEN E({"shift32"})
         ELSE IF op = "<<" /\ ShlLoses(sk, a, b) THEN U({"ovf"})
         ELSE V(BinS(op, sk, a, b))
    [] op \in {"+", "-", "*"} -> IF IntOvf(op, sk, a, b) THEN U({"ovf"}) ELSE V(BinS(op, sk, a, b))
    [] OTHER -> V(BinS(op, sk, a, b))                    \* & | ^ and comparisons

\* a + b is exactly representable (Knuth's TwoSum: the rounding error, computed in f32, is zero)
FAddExact(a, b) ==
  /\ FAddOk(a, b)
  /\ LET s == FAdd(a, b) IN
     /\ FSubOk(s, a)
     /\ LET bb == FSub(s, a) IN
        /\ FSubOk(s, bb)
        /\ LET aa == FSub(s, bb) IN
           /\ FSubOk(a, aa) /\ FSubOk(b, bb)
           /\ LET da == FSub(a, aa)  db == FSub(b, bb) IN FAddOk(da, db) /\ FIsZero(FAdd(da, db))

FloatOp2(op, a, b) ==
  CASE op = "+" -> IF FAddExact(a, b) THEN V(FAdd(a, b)) ELSE U({"inexact"})
    [] op = "-" -> IF FAddExact(a, FNeg(b)) THEN V(FSub(a, b)) ELSE U({"inexact"})
    [] op = "*" -> IF FMulOk(a, b) /\ FMulExact(a, b) THEN V(FMul(a, b)) ELSE U({"inexact"})
    [] op = "/" -> IF FOk(b) /\ FIsZero(b) THEN U({"fdiv0"})
                   ELSE IF FDivOk(a, b) /\ FMulOk(FDiv(a, b), b) /\ FMulExact(FDiv(a, b), b) /\ FEq(FMul(FDiv(a, b), b), a)
                        THEN V(FDiv(a, b)) ELSE U({"inexact"})
    [] op = "%" -> IF FRemOk(a, b) THEN V(FRem(a, b)) ELSE U({"inexact"})
    [] OTHER    -> IF FOk(a) /\ FOk(b) THEN V(BinS(op, "f32", a, b)) ELSE U({"nonfinite"})

Op2(op, sk, a, b) == IF sk = "f32" THEN FloatOp2(op, a, b) ELSE IF sk = "bool" THEN V(BinS(op, sk, a, b)) ELSE IntOp2(op, sk, a, b)

Op1(op, sk, a) ==
  IF op = "-" /\ sk = "i32" /\ a = MinI THEN U({"ovf"}) ELSE V(UnS(op, sk, a))

Fin(r) == IF r[1] THEN V(r[2]) ELSE U({"undecided"})
Call1(f, sk, a) == IF f = "abs" /\ sk = "i32" /\ a = MinI THEN U({"ovf"}) ELSE Fin(Bi1(f, sk, a))

CastOp(from, to, a) ==
  IF from = "f32" /\ to \in {"i32", "u32"} /\ ~(FIsZero(a) \/ (FIsNormal(a) /\ FExp(a) < 7 /\ (to = "i32" \/ a > 0)))
  THEN U({"convrange"})
  ELSE Fin(ConvS(from, to, a))

\* descriptive classes
BinClass(op, sk) ==
  CASE op \in {"+", "-", "*"} -> "arith"
    [] op = "/" -> "div"
    [] op = "%" -> "rem"
    [] op \in {"&", "|", "^"} -> IF sk = "bool" THEN "logic" ELSE "bit"
    [] op \in {"<<", ">>"} -> "shift"
    [] op \in {"&&", "||"} -> "logic"
    [] OTHER -> "cmp"
UnClass(op) == CASE op = "-" -> "neg" [] op = "!" -> "not" [] OTHER -> "bnot"
IsOperator(e) == e.k \in {"bin", "un", "bi", "cast"}

(***************************************************************************)
(* R3, R5: resolution.  ds: the override declarations in declaration       *)
(* order; ce: module constants (name -> word); from: index of the          *)
(* declaration whose initialiser is being evaluated (0: the expression is  *)
(* not an initialiser).                                                    *)
(***************************************************************************)
IndexOfDecl(ds, name) == CHOOSE i \in 1 .. Len(ds) : ds[i].name = name

RECURSIVE EvalOX(_, _, _, _, _, _), Res(_, _, _, _, _)

EvalOX(ds, ce, K, e, from, fuel) ==
  CASE e.k = "lit" -> VT(e.v, (IF "sfx" \in DOMAIN e THEN {"litf"} ELSE {})
                               \* WGSL has no negative literals: -3 is the negation operator applied to 3
                               \cup (IF e.t.k \in {"i32", "f32"} /\ e.v < 0 THEN {"neglit"} ELSE {}))
    [] e.k = "id" ->
         IF e.n \in DOMAIN ce THEN VT(ce[e.n], {"constref"})
         ELSE LET j == IndexOfDecl(ds, e.n)
                  tag == IF from # 0 /\ j > from THEN "fwdref" ELSE "ref"
              IN  IF "index_order" \in Faults /\ from # 0 /\ j > from THEN VT(0, {tag})
                  ELSE LET r == Res(ds, ce, IF "default_for_dep" \in Faults THEN <<>> ELSE K, j, fuel - 1)
                       IN  [r EXCEPT !.tg = @ \cup {tag}]
    [] e.k = "un" ->
         LET a == EvalOX(ds, ce, K, e.a, from, fuel)
             tg == {UnClass(e.op)} \cup (IF IsOperator(e.a) THEN {"deep"} ELSE {})
         IN  IF ~Usable(a) THEN [a EXCEPT !.tg = @ \cup tg]
             ELSE With(Op1(e.op, e.t.k, a.v), a.st, a.tg \cup tg)
    [] e.k = "bin" ->
         LET a == EvalOX(ds, ce, K, e.a, from, fuel)
             tg == {BinClass(e.op, e.a.t.k)} \cup (IF IsOperator(e.a) \/ IsOperator(e.b) THEN {"deep"} ELSE {})
         IN  IF ~Usable(a) THEN [a EXCEPT !.tg = @ \cup tg]
             ELSE IF (e.op = "&&" /\ a.v = 0) \/ (e.op = "||" /\ a.v = 1) THEN [a EXCEPT !.tg = @ \cup tg]   \* short circuit
             ELSE LET b == EvalOX(ds, ce, K, e.b, from, fuel) IN
                  IF ~Usable(b) THEN MkR(Join(a.st, b.st), 0, a.tg \cup b.tg \cup tg)
                  ELSE IF e.op \in {"&&", "||"} THEN With(V(b.v), Join(a.st, b.st), a.tg \cup b.tg \cup tg)
                  ELSE With(Op2(e.op, e.a.t.k, a.v, b.v), Join(a.st, b.st), a.tg \cup b.tg \cup tg)
    [] e.k = "cast" ->
         LET a == EvalOX(ds, ce, K, e.a, from, fuel)
             tg == {"cast"} \cup (IF IsOperator(e.a) THEN {"deep"} ELSE {})
         IN  IF ~Usable(a) THEN [a EXCEPT !.tg = @ \cup tg]
             ELSE With(CastOp(e.a.t.k, e.t.k, a.v), a.st, a.tg \cup tg)
    [] e.k = "bi" ->
         LET n == Len(e.args)
             as == [i \in 1 .. n |-> EvalOX(ds, ce, K, e.args[i], from, fuel)]
             RECURSIVE JoinAll(_)
             JoinAll(i) == IF i = 0 THEN "val" ELSE Join(as[i].st, JoinAll(i - 1))
             st == JoinAll(n)
             tg == UNION {as[i].tg : i \in 1 .. n} \cup {"call"}
             sk == e.args[1].t.k
         IN  IF st \in {"und", "err"} THEN MkR(st, 0, tg)
             ELSE With(CASE e.f = "abs" -> Call1("abs", sk, as[1].v)
                         [] e.f \in {"min", "max"} -> Fin(Bi2(e.f, sk, as[1].v, as[2].v))
                         [] e.f = "clamp" -> Fin(Bi3("clamp", sk, as[1].v, as[2].v, as[3].v))
                         [] OTHER -> V(IF as[3].v = 1 THEN as[2].v ELSE as[1].v),      \* select(f, t, cond)
                       st, tg)

Res(ds, ce, K, i, fuel) ==
  LET d == ds[i]
      s == Supplied(d, K)
      \* descriptive: K addresses this override (also) by a key that is not its identifier string
      kt == IF d.id >= 0 /\ HasKey(K, d.name) THEN {IF HasKey(K, Key(d)) THEN "key:both" ELSE "key:name_on_id"} ELSE {}
      r == IF fuel <= 0 THEN E({"cycle"})
           ELSE IF s[1] THEN Conv(d.ty.k, s[2])
           ELSE IF d.init.k = "none" THEN E({"missing"})
           ELSE EvalOX(ds, ce, K, d.init, i, fuel)
  IN  [r EXCEPT !.tg = @ \cup kt]

Fuel0(ds) == Len(ds) + 1
\* (keys that are no identifier string are never looked up: Resolve(ds, ce, K) = Resolve(ds, ce, ValidPart(ds, K)), lemma L2)
Resolve(ds, ce, K) == [i \in 1 .. Len(ds) |-> Res(ds, ce, K, i, Fuel0(ds))]
\* an expression outside the declarations (global initialiser, workgroup size, expression in a function body)
Derived(ds, ce, K, e) == EvalOX(ds, ce, K, e, 0, Fuel0(ds))

\* R6: pipeline creation must fail / may fail.  roots: the resolved values of what the pipeline uses (overrides named by a
\* function the entry point runs, initialisers of the module-scope variables it uses, the workgroup size); the defaults they
\* are derived from are reached by evaluating them.  An error confined to overrides nothing uses may be reported or not.
ErrRequiredOf(roots) == \E x \in roots : x.st = "err"
ErrAcceptableOf(all) == \E x \in all : x.st # "val"

(***************************************************************************)
(* Meaning of the module under K: the WGSL program in which every override *)
(* is a constant with its resolved value.                                  *)
(***************************************************************************)
ConstEnv(p) == [n \in {p.consts[i].name : i \in 1 .. Len(p.consts)} |->
                  (CHOOSE c \in {p.consts[i] : i \in 1 .. Len(p.consts)} : c.name = n).e.v]      \* module constants are literals here

Subst(p, R) ==
  [p EXCEPT !.consts = @ \o [i \in 1 .. Len(p.overrides) |->
        [name |-> p.overrides[i].name, ty |-> p.overrides[i].ty,
         e |-> [k |-> "lit", t |-> p.overrides[i].ty, v |-> IF Usable(R[i]) THEN R[i].v ELSE 0]]]]

Meaning(p, K, input) ==
  LET R == Resolve(p.overrides, ConstEnv(p), K) IN
  [res |-> R, run |-> Run(Subst(p, R), input)]

(***************************************************************************)
(* Lemmas on the specification itself, checked by TLC on every generated   *)
(* (ds, K) (OverridesGen.tla) - and violated by the seeded faults.         *)
(***************************************************************************)
PermsOf(n) == {p \in [1 .. n -> 1 .. n] : \A i, j \in 1 .. n : i # j => p[i] # p[j]}

\* L1: resolution does not depend on the order of the declarations.  Checked for the adjacent transpositions and the
\*     reversal: they generate every permutation, and the generator produces every declaration order as a case of its own.
SwapPerms(n) == {[i \in 1 .. n |-> IF i = k THEN k + 1 ELSE IF i = k + 1 THEN k ELSE i] : k \in 1 .. n - 1}
                \cup {[i \in 1 .. n |-> n + 1 - i]}
OrderIndependent(ds, ce, K) ==
  \A p \in SwapPerms(Len(ds)) :
     LET ps == [i \in 1 .. Len(ds) |-> ds[p[i]]]
         R1 == Resolve(ps, ce, K)
         R0 == Resolve(ds, ce, K)
     IN  \A i \in 1 .. Len(ds) : Core(R1[i]) = Core(R0[p[i]])

\* L2: identifier strings are unique, addressing by id and by name never both apply to one override, and a key that
\*     is no identifier string never influences a value
ByIdApplies(d, K)   == d.id >= 0 /\ HasKey(K, ToString(d.id))
ByNameApplies(d, K) == d.id < 0 /\ HasKey(K, d.name)
OneAddress(ds, ce, K) ==
  /\ \A i, j \in 1 .. Len(ds) : i # j => Key(ds[i]) # Key(ds[j])
  /\ \A i \in 1 .. Len(ds) : ~(ByIdApplies(ds[i], K) /\ ByNameApplies(ds[i], K))
  /\ \A i \in 1 .. Len(ds) :
        Core(Res(ds, ce, K, i, Fuel0(ds))) = Core(Res(ds, ce, ValidPart(ds, K), i, Fuel0(ds)))

\* L3: a supplied value wins over the default for the override and for every override depending on it: resolving with
\*     the value supplied equals resolving the declarations in which the initialiser IS that value
SuppliedWins(ds, ce, K) ==
  \A j \in 1 .. Len(ds) :
     LET kv == ValidPart(ds, K) IN
     (HasKey(kv, Key(ds[j])) /\ Conv(ds[j].ty.k, KGet(kv, Key(ds[j]))).st = "val") =>
        LET v == Conv(ds[j].ty.k, KGet(kv, Key(ds[j]))).v
            ds2 == [ds EXCEPT ![j].init = [k |-> "lit", t |-> ds[j].ty, v |-> v]]
            K2 == Without(kv, Key(ds[j]))
        IN  \A i \in 1 .. Len(ds) : Core(Res(ds, ce, kv, i, Fuel0(ds))) = Core(Res(ds2, ce, K2, i, Fuel0(ds)))

\* L4: a converted integer has the sign of the number supplied (nothing wraps)
ConvSound(ds, ce, K) ==
  \A i \in 1 .. Len(ds) :
     LET kv == ValidPart(ds, K) IN
     (HasKey(kv, Key(ds[i])) /\ ds[i].ty.k \in {"i32", "u32"} /\ KGet(kv, Key(ds[i])).c = "fin") =>
        LET x == KGet(kv, Key(ds[i]))
            r == Res(ds, ce, kv, i, Fuel0(ds))
        IN  r.st = "val" =>
              IF ds[i].ty.k = "u32" THEN (x.s = 1 => r.v = 0)
              ELSE (x.s = 1 => r.v <= 0) /\ (x.s = 0 => r.v >= 0)

=============================================================================
