---------------------------- MODULE Word32Test ----------------------------
(* Self-test of Word32: TLC prints a table over a boundary grid; the harness *)
(* recomputes every row with Go's native uint32/int32 arithmetic.            *)
EXTENDS Word32, Json, SequencesExt, TLC

Grid == { 0, 1, -1, 2, -2, 3, 7, 5, 16, 31, 32, 33, 255, 256, 65535, 65536, 65537, -65536, 46340, 46341, -46341,
          MaxI, MaxI - 1, MinI, MinI + 1, 1073741824, -1073741824, 305419896, -19088744, 123456789 }

Row(a, b) ==
  [ a |-> a, b |-> b,
    add |-> Add32(a, b), sub |-> Sub32(a, b), mul |-> Mul32(a, b), neg |-> Neg32(a),
    notw |-> Not32(a), andw |-> And32(a, b), orw |-> Or32(a, b), xorw |-> Xor32(a, b),
    ltu |-> IF LtU(a, b) THEN 1 ELSE 0,
    shl |-> Shl32(a, b), shrs |-> ShrS32(a, b), shru |-> ShrU32(a, b),
    divu |-> DivU32(a, b), remu |-> RemU32(a, b), divs |-> DivS32(a, b), rems |-> RemS32(a, b),
    pop |-> Popcount(a), clz |-> Clz(a), ctz |-> Ctz(a), rev |-> ReverseBits(a),
    flbu |-> FirstLeadingBitU(a), flbs |-> FirstLeadingBitS(a), ftb |-> FirstTrailingBit(a),
    exu |-> ExtractBitsU(a, Lo(b) % 40, (Lo(b) \div 64) % 40), exs |-> ExtractBitsS(a, Lo(b) % 40, (Lo(b) \div 64) % 40),
    ins |-> InsertBits(a, b, Lo(b) % 40, (Lo(a) \div 4) % 40),
    bytes |-> FromBytes(Byte(a, 0), Byte(a, 1), Byte(a, 2), Byte(a, 3)) ]

Table == SetToSeq({ Row(a, b) : a \in Grid, b \in Grid })

ASSUME ndJsonSerialize("word32_table.ndjson", Table)

VARIABLE x
Init == x = 0
Next == UNCHANGED x
=============================================================================
