------------------------------- MODULE CtlGen -------------------------------
(***************************************************************************)
(* The control-flow family: every statement skeleton with at most K nodes  *)
(* over {trace step, if/else, loop+continuing, for, while, switch (multi-  *)
(* selector clause, default in the middle), break, continue, return,       *)
(* nested block}.  A trace variable makes each executed path observable:   *)
(* the n-th trace step does  t = t * 3 + n.                                *)
(*                                                                         *)
(* Each initial state of the state machine is one program.  TLC checks on  *)
(* every one that the specification's evaluator terminates normally on     *)
(* every input row (progress: a well-formed program never gets stuck or    *)
(* runs out of fuel) and that the rows drive it along more than one path,  *)
(* then prints the program with the results WGSL prescribes; the harness   *)
(* replays each into naga and the executors.                               *)
(***************************************************************************)
EXTENDS WgslSem, Json, SequencesExt, FiniteSets

CONSTANTS K,          \* maximum number of skeleton nodes
          Shard, NShards   \* this TLC process handles the skeletons whose index mod NShards = Shard

\* ---- AST construction helpers (the records WgslSem evaluates) -------------
LitI(v) == [k |-> "lit", t |-> TI32, v |-> v]
RV(n)   == [k |-> "rvar", n |-> n, t |-> TI32]
LV(n)   == [k |-> "load", r |-> RV(n), t |-> TI32]
ArrT(n) == [k |-> "arr", e |-> TI32, n |-> n]
InpAt(i) == [k |-> "load", t |-> TI32, r |-> [k |-> "ridx", t |-> TI32, b |-> [k |-> "rvar", n |-> "inp", t |-> ArrT(4)], i |-> LitI(i)]]
OutRef(i) == [k |-> "ridx", t |-> TI32, b |-> [k |-> "rvar", n |-> "out", t |-> ArrT(4)], i |-> LitI(i)]
BinI(op, a, b) == [k |-> "bin", op |-> op, t |-> TI32, a |-> a, b |-> b]
Cmp(op, a, b)  == [k |-> "bin", op |-> op, t |-> TBool, a |-> a, b |-> b]
Asg(r, e) == [k |-> "asg", r |-> r, e |-> e]
Cond(c) == Cmp(">", InpAt(c), LitI(0))

\* skeleton nodes (abstract): <<"T">>, <<"if", c, A, B>>, <<"loop", B>>, <<"for", B>>, <<"while", B>>,
\* <<"switch", A, B, C>>, <<"break">>, <<"continue">>, <<"return">>, <<"block", B>>
Terminators == {<<"break">>, <<"continue">>, <<"return">>}

RECURSIVE Stmts(_, _, _, _), Blocks(_, _, _, _)
\* statements with at most k nodes; lp: inside a loop body (continue allowed), br: break allowed (loop or switch), d: loop depth
Stmts(k, lp, br, d) ==
  IF k <= 0 THEN {}
  ELSE {<<"T">>, <<"return">>}
       \cup (IF br THEN {<<"break">>} ELSE {})
       \cup (IF lp THEN {<<"continue">>} ELSE {})
       \cup {<<"if", c, a, b>> : c \in {0, 1}, a \in Blocks(k - 1, lp, br, d), b \in Blocks(k - 1, lp, br, d)}
       \cup (IF d < 2 THEN {<<kind, b>> : kind \in {"loop", "for", "while"}, b \in Blocks(k - 1, TRUE, TRUE, d + 1)} ELSE {})
       \cup {<<"switch", a, b>> : a \in Blocks(k - 1, lp, TRUE, d), b \in Blocks(k - 1, lp, TRUE, d)}
       \cup {<<"block", b>> : b \in Blocks(k - 1, lp, br, d) \ {<<>>}}

RECURSIVE Size(_), BSize(_)
BSize(b) == IF b = <<>> THEN 0 ELSE Size(Head(b)) + BSize(Tail(b))
Size(s) == CASE s[1] = "if" -> 1 + BSize(s[3]) + BSize(s[4])
             [] s[1] \in {"loop", "for", "while", "block"} -> 1 + BSize(s[2])
             [] s[1] = "switch" -> 1 + BSize(s[2]) + BSize(s[3])
             [] OTHER -> 1

\* blocks: at most two statements, a terminator only in last position, total size <= k
Blocks(k, lp, br, d) ==
  IF k <= 0 THEN {<<>>} ELSE
  {<<>>}
  \cup {<<s>> : s \in {x \in Stmts(k, lp, br, d) : Size(x) <= k}}
  \cup {<<s1, s2>> : s1 \in {x \in Stmts(k - 1, lp, br, d) : x \notin Terminators},
                     s2 \in Stmts(k - 1, lp, br, d)}

AllSkeletons == {b \in Blocks(K, FALSE, FALSE, 0) : BSize(b) <= K /\ BSize(b) >= 1}

\* ---- skeleton -> statements; n threads the trace-step counter -----------------
Ctr(d) == IF d = 0 THEN "i" ELSE "j"
TraceStep(n) == Asg(RV("t"), BinI("+", BinI("*", LV("t"), LitI(3)), LitI(n)))

RECURSIVE Conc(_, _, _), ConcB(_, _, _)
\* result <<statement sequence, next n>>
ConcB(b, n, d) ==
  IF b = <<>> THEN <<<<>>, n>>
  ELSE LET h == Conc(Head(b), n, d)  t == ConcB(Tail(b), h[2], d) IN <<h[1] \o t[1], t[2]>>
Conc(s, n, d) ==
  CASE s[1] = "T" -> <<<<TraceStep(n)>>, n + 1>>
    [] s[1] = "break" -> <<<<[k |-> "break"]>>, n>>
    [] s[1] = "continue" -> <<<<[k |-> "continue"]>>, n>>
    [] s[1] = "return" -> <<<<Asg(OutRef(3), BinI("+", LV("t"), LitI(1000))), [k |-> "ret", e |-> None]>>, n>>
    [] s[1] = "block" -> LET b == ConcB(s[2], n, d) IN <<<<[k |-> "block", body |-> b[1]]>>, b[2]>>
    [] s[1] = "if" -> LET a == ConcB(s[3], n, d)  b == ConcB(s[4], a[2], d)
                      IN  <<<<[k |-> "if", c |-> Cond(s[2]), a |-> a[1], b |-> b[1]]>>, b[2]>>
    [] s[1] = "loop" -> LET b == ConcB(s[2], n + 1, d + 1) IN
         <<<<Asg(RV(Ctr(d)), LitI(0)),
             [k |-> "loop",
              body |-> <<[k |-> "if", c |-> Cmp(">=", LV(Ctr(d)), LitI(3)), a |-> <<[k |-> "break"]>>, b |-> <<>>]>> \o b[1],
              cont |-> <<[k |-> "inc", r |-> RV(Ctr(d))], TraceStep(n)>>,
              brkif |-> None]>>, b[2]>>
    [] s[1] = "for" -> LET b == ConcB(s[2], n + 1, d + 1)  v == IF d = 0 THEN "a" ELSE "b" IN
         <<<<[k |-> "for",
              init |-> [k |-> "var", n |-> v, t |-> TI32, init |-> LitI(0)],
              c |-> Cmp("<", LV(v), LitI(3)),
              upd |-> [k |-> "inc", r |-> RV(v)],
              body |-> <<TraceStep(n)>> \o b[1]]>>, b[2]>>
    [] s[1] = "while" -> LET b == ConcB(s[2], n, d + 1) IN
         <<<<Asg(RV(Ctr(d)), LitI(0)),
             [k |-> "while", c |-> Cmp("<", LV(Ctr(d)), LitI(3)),
              body |-> <<[k |-> "inc", r |-> RV(Ctr(d))]>> \o b[1]]>>, b[2]>>
    [] s[1] = "switch" -> LET a == ConcB(s[2], n, d)  b == ConcB(s[3], a[2], d) IN
         <<<<[k |-> "switch", e |-> InpAt(2),
              cases |-> <<[sel |-> <<1>>, def |-> 0, body |-> a[1]],
                          [sel |-> <<>>, def |-> 1, body |-> b[1]],
                          [sel |-> <<2, 5>>, def |-> 0, body |-> <<TraceStep(b[2])>>]>>]>>, b[2] + 1>>

VarI(n, v) == [k |-> "var", n |-> n, t |-> TI32, init |-> LitI(v)]

Program(skel) ==
  LET body == ConcB(skel, 1, 0)[1] IN
  [structs |-> <<>>, consts |-> <<>>,
   globals |-> <<[name |-> "inp", space |-> "storage", access |-> "r", ty |-> ArrT(4), group |-> 0, binding |-> 0, init |-> None],
                 [name |-> "out", space |-> "storage", access |-> "rw", ty |-> ArrT(4), group |-> 0, binding |-> 1, init |-> None]>>,
   fns |-> <<[name |-> "main", params |-> <<>>, ret |-> [k |-> "void"], entry |-> 1, wg |-> <<1, 1, 1>>,
              body |-> <<VarI("t", 1), VarI("i", 0), VarI("j", 0)>> \o body
                        \o <<Asg(OutRef(0), LV("t")), Asg(OutRef(1), LV("i")), Asg(OutRef(2), LV("j"))>>]>>]

\* input rows: signs of the two condition operands x the switch selector
Rows == {<<<<a, b, c, 0>>, <<0, 0, 0, 0>>>> : a \in {-1, 1}, b \in {0, 7}, c \in {0, 1, 2, 5}}
RowSeq == SetToSeq(Rows)

SkelSeq == SetToSeq(AllSkeletons)
VARIABLES skel
Init == \E i \in 1 .. Len(SkelSeq) : i % NShards = Shard /\ skel = SkelSeq[i]
Next == UNCHANGED skel
Spec == Init /\ [][Next]_skel

Results(s) == LET P == Program(s) IN [r \in 1 .. Len(RowSeq) |-> Run(P, RowSeq[r])]

\* progress: the evaluator never abandons a well-formed control-flow program (no fuel exhaustion, nothing undecided)
Progress == \A r \in 1 .. Len(RowSeq) : Results(skel)[r].ok

Emit == PrintT("@@" \o ToJson([prog |-> Program(skel), inputs |-> RowSeq, rows |-> Results(skel)]))
EmitInv == Emit
=============================================================================
