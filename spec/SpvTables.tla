----------------------------- MODULE SpvTables -----------------------------
(***************************************************************************)
(* Constant tables of SpvValid.tla, transcribed from the SPIR-V            *)
(* specification (unified 1.6, sections 2.4, 3.x "Capability", "Storage    *)
(* Class", "Decoration", "BuiltIn", "Image Format", "Dim") and the         *)
(* extension specifications named below.  Only opcodes / enumerants that   *)
(* gogpu/naga can emit are classified; anything else is class              *)
(* "unmodelled" (the harness counts it as a skip, never as a violation).   *)
(***************************************************************************)
EXTENDS Naturals, Sequences, FiniteSets

\* ---- instruction classes (one action of SpvValid per class) -------------
ClassTable == [
  OpCapability |-> "capability", OpExtension |-> "extension", OpExtInstImport |-> "extimport",
  OpMemoryModel |-> "memmodel", OpEntryPoint |-> "entrypoint", OpExecutionMode |-> "execmode",
  OpString |-> "debug", OpSource |-> "debug", OpSourceExtension |-> "debug", OpSourceContinued |-> "debug",
  OpName |-> "debug", OpMemberName |-> "debug", OpModuleProcessed |-> "debug",
  OpDecorate |-> "decorate", OpMemberDecorate |-> "decorate",
  OpTypeVoid |-> "type", OpTypeBool |-> "type", OpTypeInt |-> "type", OpTypeFloat |-> "type", OpTypeVector |-> "type",
  OpTypeMatrix |-> "type", OpTypeImage |-> "type", OpTypeSampler |-> "type", OpTypeSampledImage |-> "type",
  OpTypeArray |-> "type", OpTypeRuntimeArray |-> "type", OpTypeStruct |-> "type", OpTypePointer |-> "type",
  OpTypeFunction |-> "type", OpTypeAccelerationStructureKHR |-> "type", OpTypeRayQueryKHR |-> "type",
  OpConstantTrue |-> "constant", OpConstantFalse |-> "constant", OpConstant |-> "constant",
  OpConstantComposite |-> "constant", OpConstantNull |-> "constant", OpUndef |-> "constant",
  OpSpecConstantTrue |-> "constant", OpSpecConstantFalse |-> "constant", OpSpecConstant |-> "constant",
  OpSpecConstantComposite |-> "constant",
  OpVariable |-> "variable", OpFunction |-> "function", OpFunctionParameter |-> "param", OpFunctionEnd |-> "fend",
  OpLabel |-> "label", OpSelectionMerge |-> "merge", OpLoopMerge |-> "merge",
  OpBranch |-> "term", OpBranchConditional |-> "term", OpSwitch |-> "term", OpReturn |-> "term",
  OpReturnValue |-> "term", OpKill |-> "term", OpUnreachable |-> "term", OpTerminateInvocation |-> "term",
  OpPhi |-> "phi", OpFunctionCall |-> "call",
  OpLoad |-> "memory", OpStore |-> "memory", OpAccessChain |-> "memory", OpInBoundsAccessChain |-> "memory",
  OpArrayLength |-> "memory", OpCopyMemory |-> "memory",
  OpImageTexelPointer |-> "image",
  OpAtomicLoad |-> "atomic", OpAtomicStore |-> "atomic", OpAtomicExchange |-> "atomic", OpAtomicCompareExchange |-> "atomic",
  OpAtomicIIncrement |-> "atomic", OpAtomicIDecrement |-> "atomic", OpAtomicIAdd |-> "atomic", OpAtomicISub |-> "atomic",
  OpAtomicSMin |-> "atomic", OpAtomicUMin |-> "atomic", OpAtomicSMax |-> "atomic", OpAtomicUMax |-> "atomic",
  OpAtomicAnd |-> "atomic", OpAtomicOr |-> "atomic", OpAtomicXor |-> "atomic", OpAtomicFAddEXT |-> "atomic",
  OpControlBarrier |-> "barrier", OpMemoryBarrier |-> "barrier",
  OpVectorExtractDynamic |-> "composite", OpVectorInsertDynamic |-> "composite", OpVectorShuffle |-> "composite",
  OpCompositeConstruct |-> "composite", OpCompositeExtract |-> "composite", OpCompositeInsert |-> "composite",
  OpCopyObject |-> "composite", OpCopyLogical |-> "composite", OpTranspose |-> "arith",
  OpSNegate |-> "arith", OpFNegate |-> "arith", OpIAdd |-> "arith", OpFAdd |-> "arith", OpISub |-> "arith", OpFSub |-> "arith",
  OpIMul |-> "arith", OpFMul |-> "arith", OpUDiv |-> "arith", OpSDiv |-> "arith", OpFDiv |-> "arith", OpUMod |-> "arith",
  OpSRem |-> "arith", OpSMod |-> "arith", OpFRem |-> "arith", OpFMod |-> "arith", OpVectorTimesScalar |-> "arith",
  OpMatrixTimesScalar |-> "arith", OpVectorTimesMatrix |-> "arith", OpMatrixTimesVector |-> "arith",
  OpMatrixTimesMatrix |-> "arith", OpOuterProduct |-> "arith", OpDot |-> "arith",
  OpSDot |-> "arith", OpUDot |-> "arith", OpSUDot |-> "arith",
  OpShiftRightLogical |-> "bit", OpShiftRightArithmetic |-> "bit", OpShiftLeftLogical |-> "bit", OpBitwiseOr |-> "bit",
  OpBitwiseXor |-> "bit", OpBitwiseAnd |-> "bit", OpNot |-> "bit", OpBitFieldInsert |-> "bit", OpBitFieldSExtract |-> "bit",
  OpBitFieldUExtract |-> "bit", OpBitReverse |-> "bit", OpBitCount |-> "bit",
  OpAny |-> "relational", OpAll |-> "relational", OpIsNan |-> "relational", OpIsInf |-> "relational",
  OpLogicalEqual |-> "relational", OpLogicalNotEqual |-> "relational", OpLogicalOr |-> "relational",
  OpLogicalAnd |-> "relational", OpLogicalNot |-> "relational", OpSelect |-> "relational",
  OpIEqual |-> "relational", OpINotEqual |-> "relational", OpUGreaterThan |-> "relational", OpSGreaterThan |-> "relational",
  OpUGreaterThanEqual |-> "relational", OpSGreaterThanEqual |-> "relational", OpULessThan |-> "relational",
  OpSLessThan |-> "relational", OpULessThanEqual |-> "relational", OpSLessThanEqual |-> "relational",
  OpFOrdEqual |-> "relational", OpFUnordEqual |-> "relational", OpFOrdNotEqual |-> "relational",
  OpFUnordNotEqual |-> "relational", OpFOrdLessThan |-> "relational", OpFUnordLessThan |-> "relational",
  OpFOrdGreaterThan |-> "relational", OpFUnordGreaterThan |-> "relational", OpFOrdLessThanEqual |-> "relational",
  OpFUnordLessThanEqual |-> "relational", OpFOrdGreaterThanEqual |-> "relational", OpFUnordGreaterThanEqual |-> "relational",
  OpConvertFToU |-> "conversion", OpConvertFToS |-> "conversion", OpConvertSToF |-> "conversion",
  OpConvertUToF |-> "conversion", OpUConvert |-> "conversion", OpSConvert |-> "conversion", OpFConvert |-> "conversion",
  OpQuantizeToF16 |-> "conversion", OpBitcast |-> "conversion",
  OpDPdx |-> "derivative", OpDPdy |-> "derivative", OpFwidth |-> "derivative", OpDPdxFine |-> "derivative",
  OpDPdyFine |-> "derivative", OpFwidthFine |-> "derivative", OpDPdxCoarse |-> "derivative",
  OpDPdyCoarse |-> "derivative", OpFwidthCoarse |-> "derivative",
  OpSampledImage |-> "image", OpImageSampleImplicitLod |-> "image", OpImageSampleExplicitLod |-> "image",
  OpImageSampleDrefImplicitLod |-> "image", OpImageSampleDrefExplicitLod |-> "image",
  OpImageSampleProjImplicitLod |-> "image", OpImageSampleProjExplicitLod |-> "image",
  OpImageSampleProjDrefImplicitLod |-> "image", OpImageSampleProjDrefExplicitLod |-> "image",
  OpImageFetch |-> "image", OpImageGather |-> "image", OpImageDrefGather |-> "image", OpImageRead |-> "image",
  OpImageWrite |-> "image", OpImage |-> "image", OpImageQuerySizeLod |-> "image", OpImageQuerySize |-> "image",
  OpImageQueryLod |-> "image", OpImageQueryLevels |-> "image", OpImageQuerySamples |-> "image",
  OpExtInst |-> "extinst",
  OpGroupNonUniformElect |-> "group", OpGroupNonUniformAll |-> "group", OpGroupNonUniformAny |-> "group",
  OpGroupNonUniformAllEqual |-> "group", OpGroupNonUniformBroadcast |-> "group", OpGroupNonUniformBroadcastFirst |-> "group",
  OpGroupNonUniformBallot |-> "group", OpGroupNonUniformInverseBallot |-> "group",
  OpGroupNonUniformBallotBitExtract |-> "group", OpGroupNonUniformBallotBitCount |-> "group",
  OpGroupNonUniformBallotFindLSB |-> "group", OpGroupNonUniformBallotFindMSB |-> "group",
  OpGroupNonUniformShuffle |-> "group", OpGroupNonUniformShuffleXor |-> "group", OpGroupNonUniformShuffleUp |-> "group",
  OpGroupNonUniformShuffleDown |-> "group", OpGroupNonUniformIAdd |-> "group", OpGroupNonUniformFAdd |-> "group",
  OpGroupNonUniformIMul |-> "group", OpGroupNonUniformFMul |-> "group", OpGroupNonUniformSMin |-> "group",
  OpGroupNonUniformUMin |-> "group", OpGroupNonUniformFMin |-> "group", OpGroupNonUniformSMax |-> "group",
  OpGroupNonUniformUMax |-> "group", OpGroupNonUniformFMax |-> "group", OpGroupNonUniformBitwiseAnd |-> "group",
  OpGroupNonUniformBitwiseOr |-> "group", OpGroupNonUniformBitwiseXor |-> "group", OpGroupNonUniformLogicalAnd |-> "group",
  OpGroupNonUniformLogicalOr |-> "group", OpGroupNonUniformLogicalXor |-> "group",
  OpGroupNonUniformQuadBroadcast |-> "group", OpGroupNonUniformQuadSwap |-> "group",
  OpRayQueryInitializeKHR |-> "rayquery", OpRayQueryTerminateKHR |-> "rayquery",
  OpRayQueryGenerateIntersectionKHR |-> "rayquery", OpRayQueryConfirmIntersectionKHR |-> "rayquery",
  OpRayQueryProceedKHR |-> "rayquery", OpRayQueryGetIntersectionTypeKHR |-> "rayquery",
  OpRayQueryGetRayTMinKHR |-> "rayquery", OpRayQueryGetRayFlagsKHR |-> "rayquery",
  OpRayQueryGetIntersectionTKHR |-> "rayquery", OpRayQueryGetIntersectionInstanceCustomIndexKHR |-> "rayquery",
  OpRayQueryGetIntersectionInstanceIdKHR |-> "rayquery",
  OpRayQueryGetIntersectionInstanceShaderBindingTableRecordOffsetKHR |-> "rayquery",
  OpRayQueryGetIntersectionGeometryIndexKHR |-> "rayquery", OpRayQueryGetIntersectionPrimitiveIndexKHR |-> "rayquery",
  OpRayQueryGetIntersectionBarycentricsKHR |-> "rayquery", OpRayQueryGetIntersectionFrontFaceKHR |-> "rayquery",
  OpRayQueryGetIntersectionObjectToWorldKHR |-> "rayquery", OpRayQueryGetIntersectionWorldToObjectKHR |-> "rayquery",
  OpNop |-> "nop", OpLine |-> "nop", OpNoLine |-> "nop" ]

ClassDomain == DOMAIN ClassTable      \* a constant-level definition: evaluated once
ClassOf(op) == IF op \in ClassDomain THEN ClassTable[op] ELSE "unmodelled"

\* classes whose instructions live inside a block of a function body
BodyClasses == {"phi", "call", "memory", "atomic", "barrier", "composite", "arith", "bit", "relational", "conversion",
                "derivative", "image", "extinst", "group", "rayquery"}

\* ---- logical layout (SPIR-V 2.4): section number of each module-level class ----
\* 1 capabilities, 2 extensions, 3 ext-inst imports, 4 memory model, 5 entry points, 6 execution modes,
\* 7 debug (7a strings/source, 7b names, 7c module processed - kept as one section with a sub-order),
\* 8 annotations, 9 types/constants/global variables, 10 function declarations/definitions
SectionOf(cls, op) ==
  CASE cls = "capability" -> 1 [] cls = "extension" -> 2 [] cls = "extimport" -> 3 [] cls = "memmodel" -> 4
    [] cls = "entrypoint" -> 5 [] cls = "execmode" -> 6
    [] cls = "debug" -> (IF op \in {"OpString", "OpSource", "OpSourceExtension", "OpSourceContinued"} THEN 7
                         ELSE IF op \in {"OpName", "OpMemberName"} THEN 8 ELSE 9)
    [] cls = "decorate" -> 10
    [] cls \in {"type", "constant", "variable"} -> 11
    [] cls = "function" -> 12
    [] OTHER -> 0

\* ---- capabilities ---------------------------------------------------------
\* direct implications ("Implicitly Declares" column of the Capability table)
CapImplies == [
  Shader |-> {"Matrix"}, Geometry |-> {"Shader"}, Tessellation |-> {"Shader"}, Int64Atomics |-> {"Int64"},
  ImageCubeArray |-> {"SampledCubeArray"}, SampledCubeArray |-> {"Shader"}, Image1D |-> {"Sampled1D"},
  SampleRateShading |-> {"Shader"}, ImageQuery |-> {"Shader"}, DerivativeControl |-> {"Shader"},
  StorageImageExtendedFormats |-> {"Shader"}, ClipDistance |-> {"Shader"}, CullDistance |-> {"Shader"},
  ImageGatherExtended |-> {"Shader"}, StorageImageMultisample |-> {"Shader"},
  StorageImageReadWithoutFormat |-> {"Shader"}, StorageImageWriteWithoutFormat |-> {"Shader"},
  MultiView |-> {"Shader"}, UniformAndStorageBuffer16BitAccess |-> {"StorageBuffer16BitAccess"},
  GroupNonUniformVote |-> {"GroupNonUniform"}, GroupNonUniformArithmetic |-> {"GroupNonUniform"},
  GroupNonUniformBallot |-> {"GroupNonUniform"}, GroupNonUniformShuffle |-> {"GroupNonUniform"},
  GroupNonUniformShuffleRelative |-> {"GroupNonUniform"}, GroupNonUniformClustered |-> {"GroupNonUniform"},
  GroupNonUniformQuad |-> {"GroupNonUniform"}, ShaderNonUniform |-> {"Shader"}, RayQueryKHR |-> {"Shader"},
  Int64ImageEXT |-> {"Shader"}, AtomicFloat32AddEXT |-> {"Shader"}, DotProductInput4x8Bit |-> {"Int8"},
  VariablePointers |-> {"VariablePointersStorageBuffer"}, VariablePointersStorageBuffer |-> {"Shader"},
  InputAttachment |-> {"Shader"}, MinLod |-> {"Shader"}, SampledRect |-> {"Shader"}, ImageRect |-> {"SampledRect"},
  SampledBuffer |-> {"Shader"}, ImageBuffer |-> {"SampledBuffer"}, ImageMSArray |-> {"Shader"},
  InterpolationFunction |-> {"Shader"}, TransformFeedback |-> {"Shader"}, DrawParameters |-> {"Shader"},
  RuntimeDescriptorArray |-> {"Shader"}, FragmentBarycentricKHR |-> {}, DemoteToHelperInvocation |-> {"Shader"} ]

CapImpliesDomain == DOMAIN CapImplies
RECURSIVE CapClosure(_)
CapClosure(S) ==
  LET N == S \cup UNION {IF c \in CapImpliesDomain THEN CapImplies[c] ELSE {} : c \in S}
  IN IF N = S THEN S ELSE CapClosure(N)

\* requirement of an OpCapability operand: minimum version (minor of 1.x) unless one of the extensions is declared
\* (Capability table, "Missing before version" / "Enabled by extension" columns).  99 = extension always required.
CapNeeds == [
  GroupNonUniform |-> [v |-> 3, exts |-> {}], GroupNonUniformVote |-> [v |-> 3, exts |-> {}],
  GroupNonUniformArithmetic |-> [v |-> 3, exts |-> {}], GroupNonUniformBallot |-> [v |-> 3, exts |-> {}],
  GroupNonUniformShuffle |-> [v |-> 3, exts |-> {}], GroupNonUniformShuffleRelative |-> [v |-> 3, exts |-> {}],
  GroupNonUniformClustered |-> [v |-> 3, exts |-> {}], GroupNonUniformQuad |-> [v |-> 3, exts |-> {}],
  StorageBuffer16BitAccess |-> [v |-> 3, exts |-> {"SPV_KHR_16bit_storage"}],
  UniformAndStorageBuffer16BitAccess |-> [v |-> 3, exts |-> {"SPV_KHR_16bit_storage"}],
  StoragePushConstant16 |-> [v |-> 3, exts |-> {"SPV_KHR_16bit_storage"}],
  StorageInputOutput16 |-> [v |-> 3, exts |-> {"SPV_KHR_16bit_storage"}],
  MultiView |-> [v |-> 3, exts |-> {"SPV_KHR_multiview"}],
  ShaderNonUniform |-> [v |-> 5, exts |-> {"SPV_EXT_descriptor_indexing"}],
  RuntimeDescriptorArray |-> [v |-> 5, exts |-> {"SPV_EXT_descriptor_indexing"}],
  DotProduct |-> [v |-> 6, exts |-> {"SPV_KHR_integer_dot_product"}],
  DotProductInput4x8BitPacked |-> [v |-> 6, exts |-> {"SPV_KHR_integer_dot_product"}],
  DotProductInput4x8Bit |-> [v |-> 6, exts |-> {"SPV_KHR_integer_dot_product"}],
  DotProductInputAll |-> [v |-> 6, exts |-> {"SPV_KHR_integer_dot_product"}],
  RayQueryKHR |-> [v |-> 99, exts |-> {"SPV_KHR_ray_query"}],
  Int64ImageEXT |-> [v |-> 99, exts |-> {"SPV_EXT_shader_image_int64"}],
  AtomicFloat32AddEXT |-> [v |-> 99, exts |-> {"SPV_EXT_shader_atomic_float_add"}],
  FragmentBarycentricKHR |-> [v |-> 99, exts |-> {"SPV_KHR_fragment_shader_barycentric", "SPV_NV_fragment_shader_barycentric"}],
  SubgroupBallotKHR |-> [v |-> 99, exts |-> {"SPV_KHR_shader_ballot"}],
  DemoteToHelperInvocation |-> [v |-> 6, exts |-> {"SPV_EXT_demote_to_helper_invocation"}],
  VariablePointers |-> [v |-> 3, exts |-> {"SPV_KHR_variable_pointers"}],
  VariablePointersStorageBuffer |-> [v |-> 3, exts |-> {"SPV_KHR_variable_pointers"}] ]

CapNeedsDomain == DOMAIN CapNeeds
CapNeed(c) == IF c \in CapNeedsDomain THEN CapNeeds[c] ELSE [v |-> 0, exts |-> {}]

\* capabilities Vulkan shader modules may not declare / a shader module must declare (Vulkan A. "Capabilities")
KernelOnlyCaps == {"Kernel", "Addresses", "Vector16", "Float16Buffer", "ImageBasic", "Pipes", "Groups", "DeviceEnqueue", "LiteralSampler", "GenericPointer"}

\* ---- per-opcode requirements: any of `caps` (after closure), and version >= v unless one of exts declared ----
Req(caps, v, exts) == [caps |-> caps, v |-> v, exts |-> exts]
NoReq == Req({}, 0, {})

GroupArith == {"OpGroupNonUniformIAdd", "OpGroupNonUniformFAdd", "OpGroupNonUniformIMul", "OpGroupNonUniformFMul",
  "OpGroupNonUniformSMin", "OpGroupNonUniformUMin", "OpGroupNonUniformFMin", "OpGroupNonUniformSMax",
  "OpGroupNonUniformUMax", "OpGroupNonUniformFMax", "OpGroupNonUniformBitwiseAnd", "OpGroupNonUniformBitwiseOr",
  "OpGroupNonUniformBitwiseXor", "OpGroupNonUniformLogicalAnd", "OpGroupNonUniformLogicalOr", "OpGroupNonUniformLogicalXor"}

OpReq(op) ==
  CASE op \in {"OpDPdxFine", "OpDPdyFine", "OpFwidthFine", "OpDPdxCoarse", "OpDPdyCoarse", "OpFwidthCoarse"} -> Req({"DerivativeControl"}, 0, {})
    [] op \in {"OpDPdx", "OpDPdy", "OpFwidth", "OpKill", "OpQuantizeToF16", "OpArrayLength", "OpImageQueryLod"} -> Req({"Shader"}, 0, {})
    [] op \in {"OpImageSampleImplicitLod", "OpImageSampleExplicitLod", "OpImageSampleDrefImplicitLod",
               "OpImageSampleDrefExplicitLod", "OpImageSampleProjImplicitLod", "OpImageSampleProjExplicitLod",
               "OpImageSampleProjDrefImplicitLod", "OpImageSampleProjDrefExplicitLod", "OpImageGather",
               "OpImageDrefGather", "OpBitFieldInsert", "OpBitFieldSExtract", "OpBitFieldUExtract", "OpBitReverse"} ->
               Req({"Shader"}, 0, {})
    [] op \in {"OpImageQuerySizeLod", "OpImageQuerySize", "OpImageQueryLevels", "OpImageQuerySamples"} -> Req({"ImageQuery", "Kernel"}, 0, {})
    [] op \in {"OpTypeMatrix", "OpTranspose", "OpMatrixTimesScalar", "OpVectorTimesMatrix", "OpMatrixTimesVector",
               "OpMatrixTimesMatrix", "OpOuterProduct"} -> Req({"Matrix"}, 0, {})
    [] op = "OpTypeRuntimeArray" -> Req({"Shader"}, 0, {})
    [] op \in {"OpSDot", "OpUDot", "OpSUDot"} -> Req({"DotProduct"}, 6, {"SPV_KHR_integer_dot_product"})
    [] op = "OpCopyLogical" -> Req({}, 4, {})
    [] op = "OpTerminateInvocation" -> Req({"Shader"}, 6, {"SPV_KHR_terminate_invocation"})
    [] op = "OpAtomicFAddEXT" -> Req({"AtomicFloat16AddEXT", "AtomicFloat32AddEXT", "AtomicFloat64AddEXT"}, 99, {"SPV_EXT_shader_atomic_float_add"})
    [] op \in {"OpTypeRayQueryKHR", "OpTypeAccelerationStructureKHR"} -> Req({"RayQueryKHR", "RayTracingKHR", "RayTracingNV"}, 99, {"SPV_KHR_ray_query", "SPV_KHR_ray_tracing", "SPV_NV_ray_tracing"})
    [] ClassOf(op) = "rayquery" -> Req({"RayQueryKHR"}, 99, {"SPV_KHR_ray_query"})
    [] op = "OpGroupNonUniformElect" -> Req({"GroupNonUniform"}, 3, {})
    [] op \in {"OpGroupNonUniformAll", "OpGroupNonUniformAny", "OpGroupNonUniformAllEqual"} -> Req({"GroupNonUniformVote"}, 3, {})
    [] op \in {"OpGroupNonUniformBroadcast", "OpGroupNonUniformBroadcastFirst", "OpGroupNonUniformBallot",
               "OpGroupNonUniformInverseBallot", "OpGroupNonUniformBallotBitExtract", "OpGroupNonUniformBallotBitCount",
               "OpGroupNonUniformBallotFindLSB", "OpGroupNonUniformBallotFindMSB"} -> Req({"GroupNonUniformBallot"}, 3, {})
    [] op \in {"OpGroupNonUniformShuffle", "OpGroupNonUniformShuffleXor"} -> Req({"GroupNonUniformShuffle"}, 3, {})
    [] op \in {"OpGroupNonUniformShuffleUp", "OpGroupNonUniformShuffleDown"} -> Req({"GroupNonUniformShuffleRelative"}, 3, {})
    [] op \in GroupArith -> Req({"GroupNonUniformArithmetic", "GroupNonUniformClustered", "GroupNonUniformPartitionedNV"}, 3, {})
    [] op \in {"OpGroupNonUniformQuadBroadcast", "OpGroupNonUniformQuadSwap"} -> Req({"GroupNonUniformQuad"}, 3, {})
    [] OTHER -> NoReq

\* ---- storage classes (names as the extractor prints them) ------------------
StorageReq(sc) ==
  CASE sc \in {"Uniform", "Output", "Private", "PushConstant"} -> Req({"Shader"}, 0, {})
    [] sc = "StorageBuffer" -> Req({"Shader"}, 3, {"SPV_KHR_storage_buffer_storage_class", "SPV_KHR_variable_pointers"})
    [] sc = "AtomicCounter" -> Req({"AtomicStorage"}, 0, {})
    [] sc = "Generic" -> Req({"GenericPointer"}, 0, {})
    [] OTHER -> NoReq
KnownStorage == {"UniformConstant", "Input", "Uniform", "Output", "Workgroup", "CrossWorkgroup", "Private", "Function",
                 "PushConstant", "Image", "StorageBuffer"}

\* ---- decorations --------------------------------------------------------------
DecoReq(d) ==
  CASE d \in {"RelaxedPrecision", "Block", "BufferBlock", "RowMajor", "ColMajor", "ArrayStride", "MatrixStride",
              "NoPerspective", "Flat", "Centroid", "Invariant", "Location", "Component", "Index", "Binding",
              "DescriptorSet", "Offset", "NoContraction", "Uniform", "SpecId"} ->
              Req({"Shader", "Matrix", "Kernel"} \cap (IF d \in {"RowMajor", "ColMajor", "MatrixStride"} THEN {"Matrix"}
                                                        ELSE IF d = "SpecId" THEN {"Shader", "Kernel"} ELSE {"Shader"}), 0, {})
    [] d = "Sample" -> Req({"SampleRateShading"}, 0, {})
    [] d = "NonUniform" -> Req({"ShaderNonUniform"}, 5, {"SPV_EXT_descriptor_indexing"})
    [] d = "Patch" -> Req({"Tessellation"}, 0, {})
    [] OTHER -> NoReq

\* ---- built-ins: capability, and the shape spirv-val's builtin pass demands (Vulkan) -----------------
\* shape: <<component kind, number of components (0 = array of scalars), storage classes>>
BuiltInReq(b) ==
  CASE b \in {"Position", "PointSize", "VertexIndex", "InstanceIndex", "FragCoord", "PointCoord", "FrontFacing",
              "SampleMask", "FragDepth", "HelperInvocation", "VertexId", "InstanceId"} -> Req({"Shader"}, 0, {})
    [] b \in {"ClipDistance"} -> Req({"ClipDistance"}, 0, {})
    [] b \in {"CullDistance"} -> Req({"CullDistance"}, 0, {})
    [] b \in {"SampleId", "SamplePosition"} -> Req({"SampleRateShading"}, 0, {})
    [] b = "PrimitiveId" -> Req({"Geometry", "Tessellation", "RayTracingNV", "RayTracingKHR", "MeshShadingNV", "MeshShadingEXT"}, 0, {})
    [] b = "ViewIndex" -> Req({"MultiView"}, 3, {"SPV_KHR_multiview"})
    [] b \in {"BaryCoordKHR", "BaryCoordNoPerspKHR"} -> Req({"FragmentBarycentricKHR", "FragmentBarycentricNV"}, 99, {"SPV_KHR_fragment_shader_barycentric", "SPV_NV_fragment_shader_barycentric"})
    [] b \in {"SubgroupSize", "SubgroupLocalInvocationId"} -> Req({"GroupNonUniform", "Kernel", "SubgroupBallotKHR"}, 0, {})
    [] b \in {"NumSubgroups", "SubgroupId"} -> Req({"GroupNonUniform", "Kernel"}, 0, {})
    [] OTHER -> NoReq

BuiltInShape == [
  Position |-> <<"f32", 4, {"Output", "Input"}>>, PointSize |-> <<"f32", 1, {"Output", "Input"}>>,
  FragCoord |-> <<"f32", 4, {"Input"}>>, FragDepth |-> <<"f32", 1, {"Output"}>>,
  FrontFacing |-> <<"bool", 1, {"Input"}>>, SampleId |-> <<"i32", 1, {"Input"}>>,
  SampleMask |-> <<"i32", 0, {"Input", "Output"}>>, ClipDistance |-> <<"f32", 0, {"Input", "Output"}>>,
  PrimitiveId |-> <<"i32", 1, {"Input", "Output"}>>, VertexIndex |-> <<"i32", 1, {"Input"}>>,
  InstanceIndex |-> <<"i32", 1, {"Input"}>>, ViewIndex |-> <<"i32", 1, {"Input"}>>,
  GlobalInvocationId |-> <<"i32", 3, {"Input"}>>, LocalInvocationId |-> <<"i32", 3, {"Input"}>>,
  WorkgroupId |-> <<"i32", 3, {"Input"}>>, NumWorkgroups |-> <<"i32", 3, {"Input"}>>,
  LocalInvocationIndex |-> <<"i32", 1, {"Input"}>>, SubgroupSize |-> <<"i32", 1, {"Input"}>>,
  SubgroupLocalInvocationId |-> <<"i32", 1, {"Input"}>>, NumSubgroups |-> <<"i32", 1, {"Input"}>>,
  SubgroupId |-> <<"i32", 1, {"Input"}>>, BaryCoordKHR |-> <<"f32", 3, {"Input"}>>,
  BaryCoordNoPerspKHR |-> <<"f32", 3, {"Input"}>> ]
BuiltInShapeDomain == DOMAIN BuiltInShape

\* ---- execution modes / models ---------------------------------------------------
ModeReq(x) ==
  CASE x \in {"OriginUpperLeft", "OriginLowerLeft", "PixelCenterInteger", "EarlyFragmentTests", "DepthReplacing",
              "DepthGreater", "DepthLess", "DepthUnchanged"} -> Req({"Shader"}, 0, {})
    [] OTHER -> NoReq
ModelReq(x) == IF x \in {"Vertex", "Fragment", "GLCompute"} THEN Req({"Shader"}, 0, {}) ELSE NoReq
FragmentOnlyModes == {"OriginUpperLeft", "OriginLowerLeft", "PixelCenterInteger", "EarlyFragmentTests", "DepthReplacing",
                      "DepthGreater", "DepthLess", "DepthUnchanged"}

\* ---- image formats ("Image Format" table): capability per format number -----------
FormatReq(f) ==
  IF f = 0 THEN NoReq
  ELSE IF f \in {1, 2, 3, 4, 5, 21, 22, 23, 24, 30, 31, 32, 33} THEN Req({"Shader"}, 0, {})
  ELSE IF f \in {40, 41} THEN Req({"Int64ImageEXT"}, 99, {"SPV_EXT_shader_image_int64"})
  ELSE IF f \in 6..39 THEN Req({"StorageImageExtendedFormats"}, 0, {})
  ELSE NoReq

\* Dim: 0 1D, 1 2D, 2 3D, 3 Cube, 4 Rect, 5 Buffer, 6 SubpassData; number of coordinate components
DimCoords(d) == CASE d = 0 -> 1 [] d = 1 -> 2 [] d = 2 -> 3 [] d = 3 -> 3 [] d = 4 -> 2 [] d = 5 -> 1 [] OTHER -> 2

\* ---- GLSL.std.450: operand / result shape classes ---------------------------------
\* "f": all float scalar/vector of the result type; "i": all int with result's dimension and width (spirv-val:
\* operands int scalar/vector, same dimension and bit width as the result); others are specific (see SpvValid!ExtInstRules)
GlslKind == [
  Round |-> "f", RoundEven |-> "f", Trunc |-> "f", FAbs |-> "f", FSign |-> "f", Floor |-> "f", Ceil |-> "f",
  Fract |-> "f", Radians |-> "f32", Degrees |-> "f32", Sin |-> "f32", Cos |-> "f32", Tan |-> "f32", Asin |-> "f32",
  Acos |-> "f32", Atan |-> "f32", Sinh |-> "f32", Cosh |-> "f32", Tanh |-> "f32", Asinh |-> "f32", Acosh |-> "f32",
  Atanh |-> "f32", Atan2 |-> "f32", Pow |-> "f32", Exp |-> "f32", Log |-> "f32", Exp2 |-> "f32", Log2 |-> "f32",
  Sqrt |-> "f", InverseSqrt |-> "f", FMin |-> "f", FMax |-> "f", FClamp |-> "f", FMix |-> "f", Step |-> "f",
  SmoothStep |-> "f", Fma |-> "f", NMin |-> "f", NMax |-> "f", NClamp |-> "f", Normalize |-> "f", FaceForward |-> "f",
  Reflect |-> "f",
  SAbs |-> "i", SSign |-> "i", UMin |-> "i", SMin |-> "i", UMax |-> "i", SMax |-> "i", UClamp |-> "i", SClamp |-> "i",
  FindILsb |-> "i", FindSMsb |-> "i", FindUMsb |-> "i",
  Length |-> "length", Distance |-> "length", Cross |-> "cross", Refract |-> "refract", Determinant |-> "det",
  MatrixInverse |-> "matinv", ModfStruct |-> "structf", FrexpStruct |-> "structfi", Ldexp |-> "ldexp",
  PackSnorm4x8 |-> "pack4", PackUnorm4x8 |-> "pack4", PackSnorm2x16 |-> "pack2", PackUnorm2x16 |-> "pack2",
  PackHalf2x16 |-> "pack2", UnpackSnorm2x16 |-> "unpack2", UnpackUnorm2x16 |-> "unpack2", UnpackHalf2x16 |-> "unpack2",
  UnpackSnorm4x8 |-> "unpack4", UnpackUnorm4x8 |-> "unpack4" ]
GlslArity == [
  Round |-> 1, RoundEven |-> 1, Trunc |-> 1, FAbs |-> 1, FSign |-> 1, Floor |-> 1, Ceil |-> 1, Fract |-> 1,
  Radians |-> 1, Degrees |-> 1, Sin |-> 1, Cos |-> 1, Tan |-> 1, Asin |-> 1, Acos |-> 1, Atan |-> 1, Sinh |-> 1,
  Cosh |-> 1, Tanh |-> 1, Asinh |-> 1, Acosh |-> 1, Atanh |-> 1, Atan2 |-> 2, Pow |-> 2, Exp |-> 1, Log |-> 1,
  Exp2 |-> 1, Log2 |-> 1, Sqrt |-> 1, InverseSqrt |-> 1, FMin |-> 2, FMax |-> 2, FClamp |-> 3, FMix |-> 3,
  Step |-> 2, SmoothStep |-> 3, Fma |-> 3, NMin |-> 2, NMax |-> 2, NClamp |-> 3, Normalize |-> 1, FaceForward |-> 3,
  Reflect |-> 2, SAbs |-> 1, SSign |-> 1, UMin |-> 2, SMin |-> 2, UMax |-> 2, SMax |-> 2, UClamp |-> 3, SClamp |-> 3,
  FindILsb |-> 1, FindSMsb |-> 1, FindUMsb |-> 1, Length |-> 1, Distance |-> 2, Cross |-> 2, Refract |-> 3,
  Determinant |-> 1, MatrixInverse |-> 1, ModfStruct |-> 1, FrexpStruct |-> 1, Ldexp |-> 2, PackSnorm4x8 |-> 1,
  PackUnorm4x8 |-> 1, PackSnorm2x16 |-> 1, PackUnorm2x16 |-> 1, PackHalf2x16 |-> 1, UnpackSnorm2x16 |-> 1,
  UnpackUnorm2x16 |-> 1, UnpackHalf2x16 |-> 1, UnpackSnorm4x8 |-> 1, UnpackUnorm4x8 |-> 1 ]
GlslDomain == DOMAIN GlslKind
=============================================================================
