------------------------------ MODULE SpvState ------------------------------
(***************************************************************************)
(* State of the SPIR-V rule automaton (SpvValid.tla) and the total helper  *)
(* operators every rule uses.  All helpers are TOTAL: an id that is not    *)
(* defined, an operand index past the end, a type of the wrong kind yield  *)
(* a neutral value (NoDef, 0, "none") instead of a TLC evaluation error,   *)
(* because rule lists are evaluated eagerly.                               *)
(*                                                                         *)
(* An event (one instruction) is a record                                  *)
(*   [op: name, t: result type id or 0, r: result id or 0,                 *)
(*    ids: id operands in order, lits: literal words (signed 32-bit) in    *)
(*    order, en: enumerant names in order, s: literal string, nw: word     *)
(*    count, minw: smallest word count the operand grammar allows]         *)
(***************************************************************************)
EXTENDS Integers, Sequences, FiniteSets, TLC, SpvTables

VARIABLES m,    \* the module state (record, fields below)
          bad,  \* verdicts: sequence of [l, rule, op] - one per rejected module
          notes \* set of strings: constructs met that the specification does not model (reported as skips)

\* ---- definitions table -------------------------------------------------------
\* k: none | type | const | gvar | lvar | param | val | fn | label | extset | string
NoDef == [k |-> "none", op |-> "", ty |-> 0, fn |-> 0, blk |-> 0, tk |-> "none", w |-> 0, sg |-> 0, el |-> 0, n |-> 0,
          sc |-> "", ms |-> <<>>, cv |-> 0, im |-> <<>>]
MkDef(k, op) == [NoDef EXCEPT !.k = k, !.op = op]
ValueKinds == {"const", "gvar", "lvar", "param", "val"}
LocalKinds == {"lvar", "param", "val"}

NoFn == [id |-> 0, ty |-> 0, ret |-> 0, np |-> 0, blocks |-> <<>>, cur |-> 0, top |-> FALSE, pend |-> "", pendIds |-> <<>>,
         terms |-> <<>>, merges |-> <<>>, uses |-> {}, phis |-> <<>>, calls |-> {}, globals |-> {}, frag |-> FALSE,
         phiok |-> FALSE]

InitM == [phase |-> 0, dead |-> FALSE, version |-> 0, bound |-> 0, nd |-> 0, defs |-> <<>>, typeKeys |-> {}, caps |-> {}, capsC |-> {},
          exts |-> {}, nmem |-> 0, eps |-> <<>>, modes |-> {}, decos |-> {}, fwd |-> {}, fn |-> NoFn, fns |-> <<>>,
          pcalls |-> {}, ninst |-> 0, waive |-> {}]

\* ---- event access --------------------------------------------------------------
Id(e, i)  == IF i >= 1 /\ i <= Len(e.ids) THEN e.ids[i] ELSE 0
Lit(e, i) == IF i >= 1 /\ i <= Len(e.lits) THEN e.lits[i] ELSE 0
En(e, i)  == IF i >= 1 /\ i <= Len(e.en) THEN e.en[i] ELSE ""
NIds(e)  == Len(e.ids)
NLits(e) == Len(e.lits)
Range(s) == {s[i] : i \in DOMAIN s}
SubSeqFrom(s, i) == IF i > Len(s) THEN <<>> ELSE SubSeq(s, i, Len(s))
Max(a, b) == IF a > b THEN a ELSE b

\* ---- definitions ---------------------------------------------------------------
\* m.defs is a total function on 0..(m.nd - 1), nd = min(bound, MaxIds); entries start as NoDef
MaxIds == 200000
D(id) == IF id >= 0 /\ id < m.nd THEN m.defs[id] ELSE NoDef
Defined(id) == D(id).k # "none"
IsType(id) == D(id).k = "type"
TK(id) == IF IsType(id) THEN D(id).tk ELSE "none"
IsValue(id) == D(id).k \in ValueKinds
ValTy(id) == IF IsValue(id) THEN D(id).ty ELSE 0          \* type id of a value operand (0: not a value)

\* ---- type shapes -----------------------------------------------------------------
IsBoolS(t)  == TK(t) = "bool"
IsIntS(t)   == TK(t) = "int"
IsFloatS(t) == TK(t) = "float"
IsScalar(t) == TK(t) \in {"bool", "int", "float"}
IsVec(t)    == TK(t) = "vec"
IsMat(t)    == TK(t) = "mat"
IsPtr(t)    == TK(t) = "ptr"
Elem(t)     == IF IsType(t) THEN D(t).el ELSE 0
Count(t)    == IF IsType(t) THEN D(t).n ELSE 0
Comp(t)     == IF IsVec(t) THEN Elem(t) ELSE IF IsMat(t) THEN Elem(Elem(t)) ELSE t    \* scalar component type
Dim(t)      == IF IsVec(t) THEN Count(t) ELSE 1
Width(t)    == D(Comp(t)).w
Signed(t)   == D(Comp(t)).sg
IsIntSV(t)   == IsIntS(t) \/ (IsVec(t) /\ IsIntS(Elem(t)))
IsFloatSV(t) == IsFloatS(t) \/ (IsVec(t) /\ IsFloatS(Elem(t)))
IsBoolSV(t)  == IsBoolS(t) \/ (IsVec(t) /\ IsBoolS(Elem(t)))
IsUIntSV(t)  == IsIntSV(t) /\ Signed(t) = 0
IsFloatMat(t) == IsMat(t) /\ IsFloatS(Comp(t))
Rows(t)     == IF IsMat(t) THEN Count(Elem(t)) ELSE 0
Pointee(t)  == IF IsPtr(t) THEN Elem(t) ELSE 0
PtrSC(t)    == IF IsPtr(t) THEN D(t).sc ELSE ""
Members(t)  == IF TK(t) = "struct" THEN D(t).ms ELSE <<>>
Img(t)      == IF TK(t) = "image" THEN D(t).im ELSE <<0, 0, 0, 0, 0, 0>>       \* <<dim, depth, arrayed, ms, sampled, format>>
IsInt32S(t) == IsIntS(t) /\ D(t).w = 32
IsConstInt32(id) == D(id).k = "const" /\ IsInt32S(D(id).ty)

\* total number of scalar bits of a numeric scalar / vector (Bitcast)
Bits(t) == Dim(t) * Width(t)

\* ---- requirement checks (capabilities are closed under implication in m.capsC) ----
CapOK(r) == r.caps = {} \/ (r.caps \cap m.capsC) # {}
VerOK(r) == (r.v # 99 /\ m.version >= r.v) \/ (r.exts \cap m.exts) # {}

\* ---- decorations: m.decos is a set of <<target id, member (-1: the id itself), decoration, literal operands>> ----
HasDeco(id, mem, d) == \E x \in m.decos : x[1] = id /\ x[2] = mem /\ x[3] = d
DecoVals(id, mem, d) == {x[4] : x \in {y \in m.decos : y[1] = id /\ y[2] = mem /\ y[3] = d}}

\* ---- rule lists ------------------------------------------------------------------
\* rs: sequence of <<condition, rule name>>; the verdict is the name of the first rule whose condition is false
FirstFail(rs) ==
  IF \A i \in DOMAIN rs : rs[i][1] THEN ""
  ELSE rs[CHOOSE i \in DOMAIN rs : ~rs[i][1] /\ \A j \in 1..(i - 1) : rs[j][1]][2]
=============================================================================
