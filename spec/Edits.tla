------------------------------- MODULE Edits -------------------------------
(***************************************************************************)
(* The edit-script machine over WGSL token sequences, BreakRule part       *)
(* (property C11: "diagnosed classes of invalid programs are always        *)
(* rejected, at the right place").  NeutralEdit (C19) and Hostile (C10)    *)
(* actions are not part of this module.                                    *)
(*                                                                         *)
(* A PROGRAM is a valid WGSL module given as a token sequence with layout  *)
(* and roles (file c11_progs.ndjson, one program per line):                *)
(*   toks[i] = [k, x, nl, sp, w, xl, xt, d]                                 *)
(*      k  lexical class: id | kw | tkw (type keyword) | int | float | p   *)
(*         (punctuation/operator) | cmt (comment: trivia that occupies     *)
(*         columns) | eof                                                   *)
(*      x  lexeme (ASCII; a lexeme with non-ASCII code points travels as   *)
(*         the placeholder $n$ and only its width w is known here)          *)
(*      nl, sp  line breaks / blanks before the token; w width in code     *)
(*         points; xl, xt line breaks inside the lexeme and code points    *)
(*         after the last one (multi-line block comments)                   *)
(*      d  index of the module-scope declaration the token belongs to      *)
(*   roles[r] = [r, i, a, b, c, s, wh, l]: token i plays role r             *)
(*      var   use of a variable/constant/parameter (s: expr|lhs|const|ptr) *)
(*      ty    type name; s = user:<pos> or builtin:<pos>[/vec-elem|/arr-elem] *)
(*            with pos one of let var param ret member global alias const   *)
(*            ptr ctor conv (/..-elem: template argument of vecN / array)   *)
(*      fn    callee of a user-function call: a/b = index of ( and ),      *)
(*            c = 1 iff @must_use, l = <<first, last, paramtype>> per arg  *)
(*      bi    callee of a builtin call (a/b as for fn)                      *)
(*      mem   struct member name after `.`                                  *)
(*      swz   swizzle after `.` on a vector of width a                      *)
(*      semi  `;` ending a statement (s=stmt), a module-scope declaration  *)
(*            (decl) or a for-header clause (for1, for2)                    *)
(*      open / close   delimiter and the index a of its partner; s = the   *)
(*            construct: call, ctor, bi, paren, index, block, struct,      *)
(*            attr, params, for, cassert, tmpl-type, tmpl-var, tmpl-ctor   *)
(*      mustuse   `_` of  `_ = f(..);` with f @must_use; a = tokens of     *)
(*            `_ =`                                                         *)
(*      cassert   `const_assert`; a..b = the condition (true in p);        *)
(*            s = int | float | bool | mixed (operand class; mixed = integer *)
(*            comparisons between operands of different kinds: u32 -        *)
(*            u-suffixed literal, `const WG = 8u`, `: u32` constant,        *)
(*            u32(..), arithmetic on those - against AbstractInt -          *)
(*            unsuffixed literal, untyped constant - or i32, possibly under *)
(*            ! && ||); l = <<>> or <<first, last, lexeme>>: a literal      *)
(*            operand and a literal that makes the condition false in its   *)
(*            place (`WG == 8` -> `WG == 9`)                                 *)
(*      attr_group / attr_binding / attr_wgsize   `@` of the attribute of  *)
(*            one global / compute entry point; a = its last token          *)
(*      arrsize   first token of an array element count; a = last token;   *)
(*            s = position of the array type (as for ty)                    *)
(*      divop  integer `/` or `%`; a..b = right operand (a non-zero        *)
(*            constant in p); c = 1 iff the left operand is a              *)
(*            const-expression too                                          *)
(*   wh = where the site is (helper/entry/const-init/..., innermost        *)
(*   enclosing statement, kind of argument list) - descriptive only.       *)
(*                                                                         *)
(* BreakRule(rule, site, variant) applies one rule-breaking edit; every    *)
(* edit is the replacement of one window a..b of the token sequence by a   *)
(* (possibly empty) sequence of tokens.  Rule classes (source: the         *)
(* statement of C11; WGSL rules as cited):                                  *)
(*   undecl_var undecl_type undecl_fn undecl_member   (WGSL 5: a name must *)
(*        resolve to a declaration in scope)  - the use is renamed to a    *)
(*        fresh name that is neither declared in p nor predeclared         *)
(*   args_few args_many args_type  (WGSL 11.1 function call: one argument  *)
(*        per parameter, of the parameter's type; no implicit conversion   *)
(*        between concrete types, none from bool, none from AbstractFloat  *)
(*        to an integer type)                                               *)
(*   must_use  (WGSL 12.3: a call to a @must_use function is not a         *)
(*        statement)                                                        *)
(*   const_assert  (WGSL 9.5: shader-creation error if false): the          *)
(*        condition is negated, replaced by `false`, or one literal        *)
(*        operand is replaced by a falsifying literal of the same kind     *)
(*   group_only binding_only  (WGSL 12: @group and @binding come together) *)
(*   array_size  (WGSL 6.2.9: the element count must be > 0)                *)
(*   swizzle_mix swizzle_width  (WGSL 8.5.1: one of the two letter sets,   *)
(*        components inside the vector)                                     *)
(*   semicolon del_close extra_open  (WGSL grammar)                         *)
(*   no_wgsize  (WGSL 12: compute entry points need @workgroup_size)        *)
(*   div_zero  (WGSL 8.7: integer division/remainder whose operands are    *)
(*        const-expressions and whose divisor is zero is a shader-creation *)
(*        error).  Only sites with a constant LEFT operand are used: for a *)
(*        run-time dividend the specification leaves the verdict open.     *)
(*                                                                         *)
(* EXPECTATION attached to every mutant (what the real compiler must do):  *)
(*   rejected = TRUE, no backend output;                                    *)
(*   stage in `stages`: {parse} for the syntax rules, {parse, lower} for   *)
(*   the others (a deleted `>` of a constructor template is semantic in    *)
(*   WGSL - template-list discovery fails and `<` is less-than - hence     *)
(*   {parse, lower});                                                       *)
(*   position: semantic rules - `within` [first token, last token] of the  *)
(*   module-scope declaration of the mutated text; syntax rules - `exact`  *)
(*   (FirstBadToken) where that is unambiguous, else `from` the first      *)
(*   token at the mutated position up to end of file.                       *)
(* FirstBadToken is exact in precisely two situations:                      *)
(*   E1  a deleted `;` of a statement or declaration whose preceding code  *)
(*       token ends an expression/type (identifier, literal, `)`, `]`,     *)
(*       true/false, `++`, `--`, type keyword) and whose following code    *)
(*       token t is in StopTokens (identifier, `}`, `{`, `@`, `_`, end of  *)
(*       file, a keyword that starts a statement or declaration): no WGSL  *)
(*       production continues <expr> t, so t is the first bad token;       *)
(*   E2  a deleted `)` or `]` whose following code token t is `;` `{` `=`  *)
(*       a compound-assignment operator, `->`, `@`, end of file or a       *)
(*       keyword that starts a statement or declaration: t cannot extend   *)
(*       the expression / parameter list inside the unclosed delimiter.    *)
(* Everything else (`}`, `>`, extra openers, for-header `;`, a closer      *)
(* followed by `,` `)` `.` an operator ...) only has the lower bound.      *)
(*                                                                         *)
(* Positions follow naga's convention: lines are split at line feeds,      *)
(* columns count code points from 1.                                        *)
(***************************************************************************)
EXTENDS Integers, Sequences, FiniteSets, TLC, Json, SequencesExt

CONSTANTS Faults,      \* seeded faults for the self-test ({} in real runs)
          CheckFast    \* BOOLEAN: also check the incremental text / position computation against the plain definitions

Progs == ndJsonDeserialize("c11_progs.ndjson")

None == [rule |-> "none"]

\* ---- names --------------------------------------------------------------
FreshVar == "undeclared_v"   FreshType == "Undeclared_T"   FreshFn == "undeclared_f"   FreshMember == "undeclared_m"
FreshNames == {FreshVar, FreshType, FreshFn, FreshMember}
\* predeclared / reserved names a renamed use must not hit (types, builtin functions and values used by the generator,
\* keywords); the fresh names above are checked against it and against every identifier of the program
Predeclared ==
  {"bool", "i32", "u32", "f32", "f16", "vec2", "vec3", "vec4", "vec2f", "vec3f", "vec4f", "vec2i", "vec3i", "vec4i",
   "vec2u", "vec3u", "vec4u", "mat2x2", "mat3x3", "mat4x4", "array", "atomic", "ptr", "sampler", "texture_2d",
   "abs", "acos", "all", "any", "asin", "atan", "ceil", "clamp", "cos", "cross", "distance", "dot", "exp", "floor",
   "fract", "length", "log", "max", "min", "mix", "normalize", "pow", "round", "select", "sign", "sin", "sqrt", "step",
   "tan", "trunc", "arrayLength", "bitcast", "countOneBits", "storageBarrier", "workgroupBarrier",
   "position", "vertex_index", "instance_index", "global_invocation_id", "local_invocation_id", "frag_depth",
   "read", "write", "read_write", "function", "private", "workgroup", "uniform", "storage",
   "alias", "break", "case", "const", "const_assert", "continue", "continuing", "default", "diagnostic", "discard",
   "else", "enable", "false", "fn", "for", "if", "let", "loop", "override", "requires", "return", "struct", "switch",
   "true", "var", "while", "_"}

Names(p) == {p.toks[i].x : i \in {j \in 1 .. Len(p.toks) : p.toks[j].k = "id"}}   \* (tabulated per program below)

\* ---- tokens, layout, positions ---------------------------------------------
IsCode(t) == t.k # "cmt"
WordLike(t) == t.k \in {"id", "kw", "tkw", "int", "float"}
NewTok(k, x, sp, d) == [k |-> k, x |-> x, nl |-> 0, sp |-> sp, w |-> Len(x), xl |-> 0, xt |-> 0, d |-> d]

RECURSIVE Rep(_, _)
Rep(s, n) == IF n <= 0 THEN "" ELSE s \o Rep(s, n - 1)

\* (FoldLeft, SelectInSeq, SelectLastInSeq of SequencesExt are evaluated by TLC's Java overrides: one pass, no
\* re-evaluation of lazily bound arguments)

\* the source text of a token sequence
Text(toks) == FoldLeft(LAMBDA acc, t : acc \o Rep("\n", t.nl) \o Rep(" ", t.sp) \o t.x, "", toks)

\* <<line, column>> where a token starts, given where the previous one ended; where it ends
StartFrom(p, t) == IF t.nl > 0 THEN <<p[1] + t.nl, 1 + t.sp>> ELSE <<p[1], p[2] + t.sp>>
EndFrom(p, t) == IF t.xl > 0 THEN <<StartFrom(p, t)[1] + t.xl, t.xt + 1>> ELSE <<StartFrom(p, t)[1], StartFrom(p, t)[2] + t.w>>
PosOf(toks, i) == StartFrom(FoldLeft(EndFrom, <<1, 1>>, SubSeq(toks, 1, i - 1)), toks[i])
EofPos(toks) == PosOf(toks, Len(toks))
PosLE(p, q) == p[1] < q[1] \/ (p[1] = q[1] /\ p[2] <= q[2])

\* next / previous code token (comments are trivia) at or after / at or before i
NextCode(toks, i) == LET k == SelectInSeq(SubSeq(toks, i, Len(toks)), IsCode) IN IF k = 0 THEN Len(toks) ELSE i + k - 1
PrevCode(toks, i) == LET k == SelectLastInSeq(SubSeq(toks, 1, i), IsCode) IN IF k = 0 THEN 1 ELSE k

\* first / last code token of module-scope declaration d
InDecl(t, d) == t.d = d /\ IsCode(t) /\ t.k # "eof"
FirstOfDecl(toks, d) == SelectInSeq(toks, LAMBDA t : InDecl(t, d))
LastOfDecl(toks, d) == SelectLastInSeq(toks, LAMBDA t : InDecl(t, d))

\* ---- per-program tables and the incremental forms --------------------------------
\* Text, PosOf, FirstOfDecl and LastOfDecl above are the definitions.  Evaluating them on every mutant costs a pass over
\* the whole program each; a mutant differs from its original in one window only, so the specification also states
\* the same quantities incrementally from tables of the original (computed once per program) and the invariant
\* FastOK checks, where CheckFast is set, that both forms agree on every mutant.
Piece(t) == Rep("\n", t.nl) \o Rep(" ", t.sp) \o t.x
TableOf(toks) ==
  LET ends == FoldLeft(LAMBDA acc, t : Append(acc, EndFrom(acc[Len(acc)], t)), <<<<1, 1>>>>, toks)  \* ends[j+1]: where token j ends
      last == toks[PrevCode(toks, Len(toks) - 1)].d
  IN  [ends |-> ends,
       pos  |-> [i \in 1 .. Len(toks) |-> StartFrom(ends[i], toks[i])],
       pres |-> FoldLeft(LAMBDA acc, t : Append(acc, acc[Len(acc)] \o Piece(t)), <<"">>, toks),          \* pres[j+1]: text of tokens 1..j
       sufs |-> FoldRight(LAMBDA t, acc : <<Piece(t) \o acc[1]>> \o acc, toks, <<"">>),                  \* sufs[j]: text of tokens j..n
       decl |-> [d \in 1 .. last |-> <<FirstOfDecl(toks, d), LastOfDecl(toks, d)>>],
       names |-> {toks[i].x : i \in {j \in 1 .. Len(toks) : toks[j].k = "id"}}]
Tab == [p \in 1 .. Len(Progs) |-> TableOf(Progs[p].toks)]

\* m is the mutant of program number p by replacing the window a..b with nn tokens
FastText(p, m, a, b, nn) == Tab[p].pres[a] \o Text(SubSeq(m, a, a + nn)) \o Tab[p].sufs[b + 2]
NearPos(p, m, a, i) == StartFrom(FoldLeft(EndFrom, Tab[p].ends[a], SubSeq(m, a, i - 1)), m[i])   \* a <= i: walk from the window
FastPos(p, m, a, b, nn, i) ==
  IF i < a THEN Tab[p].pos[i]
  ELSE IF i <= a + nn THEN NearPos(p, m, a, i)
  ELSE \* a token behind the window moves with the first token behind the window (q): by q's line shift, and by q's
       \* column shift if it started on q's line
       LET mq == NearPos(p, m, a, a + nn)
           oq == Tab[p].pos[b + 1]
           oj == Tab[p].pos[i - nn + (b - a + 1)]
       IN  IF oj[1] = oq[1] THEN <<oj[1] + (mq[1] - oq[1]), oj[2] + (mq[2] - oq[2])>> ELSE <<oj[1] + (mq[1] - oq[1]), oj[2]>>
\* first / last code token of declaration d in the mutant (the window lies inside d, replacement tokens belong to d)
FastFirstOfDecl(p, d, a) == IF Tab[p].decl[d][1] >= a THEN a ELSE Tab[p].decl[d][1]
FastLastOfDecl(p, d, a, b, nn) == IF Tab[p].decl[d][2] > b THEN Tab[p].decl[d][2] - (b - a + 1) + nn ELSE a + nn - 1

\* ---- the one edit primitive: replace the window a..b by `new` ----------------
\* The first new token takes over the blanks of the first replaced one; with an empty replacement the token after the
\* window takes over the blanks in front of the window (and one blank is kept between two word-like tokens).
Splice(toks, a, b, new) ==
  LET pre  == SubSeq(toks, 1, a - 1)
      post == SubSeq(toks, b + 1, Len(toks))
  IN  IF new # <<>>
      THEN pre \o <<[new[1] EXCEPT !.nl = toks[a].nl, !.sp = toks[a].sp]>> \o Tail(new) \o post
      ELSE LET n   == post[1]
               nl2 == toks[a].nl + n.nl
               sp0 == IF n.nl > 0 THEN n.sp ELSE toks[a].sp + n.sp
               sp2 == IF nl2 = 0 /\ sp0 = 0 /\ a > 1 /\ WordLike(toks[a - 1]) /\ WordLike(n) THEN 1 ELSE sp0
           IN  pre \o <<[n EXCEPT !.nl = nl2, !.sp = sp2]>> \o Tail(post)

\* ---- rules --------------------------------------------------------------------
SyntaxRules == {"semicolon", "del_close", "extra_open"}
SemanticRules == {"undecl_var", "undecl_type", "undecl_fn", "undecl_member", "args_few", "args_many", "args_type",
                  "must_use", "const_assert", "group_only", "binding_only", "array_size", "swizzle_mix",
                  "swizzle_width", "no_wgsize", "div_zero"}
Rules == SyntaxRules \cup SemanticRules

TemplateCtx == {"tmpl-type", "tmpl-var", "tmpl-ctor"}

\* Sites(p, rule): the roles of p at which the rule can be broken so that the result is certainly invalid WGSL
Applicable(p, rule, r) ==
  LET t == p.toks[r.i] IN
  CASE rule = "undecl_var"    -> r.r = "var"
    [] rule = "undecl_type"   -> r.r = "ty"
    [] rule = "undecl_fn"     -> r.r \in {"fn", "bi"}
    [] rule = "undecl_member" -> r.r = "mem"
    [] rule = "args_few"      -> r.r = "fn" /\ Len(r.l) >= 1
    [] rule = "args_many"     -> r.r = "fn"
    [] rule = "args_type"     -> r.r = "fn" /\ Len(r.l) >= 1
    [] rule = "must_use"      -> r.r = "mustuse"
    [] rule = "const_assert"  -> r.r = "cassert"
    [] rule = "group_only"    -> r.r = "attr_binding"
    [] rule = "binding_only"  -> r.r = "attr_group"
    [] rule = "array_size"    -> r.r = "arrsize"
    [] rule = "swizzle_mix"   -> r.r = "swz" /\ r.a >= 2
    [] rule = "swizzle_width" -> r.r = "swz" /\ r.a \in {2, 3}
    [] rule = "semicolon"     -> r.r = "semi"
    \* a missing ) ] } always unbalances the program; a missing > only where the `<` cannot be an operator of a valid
    \* expression (type position, var<..>) or compares a type with a value (constructor)
    [] rule = "del_close"     -> r.r = "close" /\ (t.x \in {")", "]", "}"} \/ (t.x = ">" /\ r.s \in TemplateCtx))
    [] rule = "extra_open"    -> r.r = "open" /\ t.x \in {"(", "[", "{"}
    [] rule = "no_wgsize"     -> r.r = "attr_wgsize"
    \* only const-expression dividends (see header)
    [] rule = "div_zero"      -> r.r = "divop" /\ r.c = 1
    [] OTHER -> FALSE

Sites(p, rule) == {ri \in 1 .. Len(p.roles) : Applicable(p, rule, p.roles[ri])}

\* wrong-typed replacement arguments per parameter type: <<variant name, tokens>>
VecCtor(n, e, lit, d) == <<NewTok("tkw", n, 0, d), NewTok("p", "<", 0, d), NewTok("tkw", e, 0, d), NewTok("p", ">", 0, d),
                           NewTok("p", "(", 0, d), NewTok(IF e = "f32" THEN "float" ELSE "int", lit, 0, d), NewTok("p", ")", 0, d)>>
WrongArgs(pt, d) ==
  LET T == <<"bool", <<NewTok("kw", "true", 0, d)>>>>
      Fl == <<"absfloat", <<NewTok("float", "1.5", 0, d)>>>>
  IN  CASE pt = "i32"  -> {T, Fl, <<"u32lit", <<NewTok("int", "1u", 0, d)>>>>}
        [] pt = "u32"  -> {T, Fl, <<"i32lit", <<NewTok("int", "1i", 0, d)>>>>}
        [] pt = "f32"  -> {T, <<"i32lit", <<NewTok("int", "1i", 0, d)>>>>}
        [] pt = "bool" -> {<<"int", <<NewTok("int", "1", 0, d)>>>>, Fl}
        [] pt \in {"vec2f", "vec3f", "vec4f"} ->
             {T, <<"vecelem", VecCtor(IF pt = "vec2f" THEN "vec2" ELSE IF pt = "vec3f" THEN "vec3" ELSE "vec4", "i32", "1", d)>>}
        [] pt \in {"vec2i", "vec3i", "vec4i", "vec2u", "vec3u", "vec4u"} ->
             {T, <<"vecelem", VecCtor(IF pt \in {"vec2i", "vec2u"} THEN "vec2" ELSE IF pt \in {"vec3i", "vec3u"} THEN "vec3" ELSE "vec4", "f32", "1.0", d)>>}
        [] OTHER -> {T}   \* struct, array, pointer parameters

Variants(p, rule, ri) ==
  LET r == p.roles[ri] IN
  CASE rule = "args_type"     -> UNION {{<<j, w[1]>> : w \in WrongArgs(r.l[j][3], 0)} : j \in 1 .. Len(r.l)}
    [] rule = "const_assert"  -> {"negate", "false"} \cup (IF Len(r.l) >= 1 THEN {"operand"} ELSE {})
    [] rule = "array_size"    -> {"zero", "negative"}
    [] rule = "swizzle_mix"   -> {"xg", "rx"}
    [] rule = "swizzle_width" -> IF r.a = 2 THEN {"z", "xz", "b"} ELSE {"w", "xw", "a"}
    [] rule = "div_zero"      -> {"0"}
    [] OTHER -> {"-"}

\* the edit [a, b, new] of BreakRule(rule, site, variant) on program p
EditOf(p, rule, ri, v) ==
  LET r == p.roles[ri]
      toks == p.toks
      t == toks[r.i]
      d == t.d
      One(k, x) == [a |-> r.i, b |-> r.i, new |-> <<NewTok(k, x, 0, d)>>]
      Del(a, b) == [a |-> a, b |-> b, new |-> <<>>]
      n == Len(r.l)
  IN
  CASE rule = "undecl_var"    -> IF "noop" \in Faults THEN One(t.k, t.x)
                                 ELSE IF "collide" \in Faults THEN One("id", CHOOSE nm \in Names(p) : nm # t.x)
                                 ELSE One("id", FreshVar)
    [] rule = "undecl_type"   -> One("id", FreshType)
    [] rule = "undecl_fn"     -> One("id", FreshFn)
    [] rule = "undecl_member" -> One("id", FreshMember)
    [] rule = "args_few"      -> IF n >= 2 THEN Del(r.l[n - 1][2] + 1, r.l[n][2]) ELSE Del(r.l[1][1], r.l[1][2])
    [] rule = "args_many"     -> IF n >= 1
                                 THEN [a |-> r.l[n][2], b |-> r.l[n][2],
                                       new |-> <<toks[r.l[n][2]], NewTok("p", ",", 0, d), NewTok("int", "1", 1, d)>>]
                                 ELSE [a |-> r.a, b |-> r.a, new |-> <<toks[r.a], NewTok("int", "1", 0, d)>>]
    [] rule = "args_type"     -> LET w == CHOOSE w \in WrongArgs(r.l[v[1]][3], d) : w[1] = v[2]
                                 IN  [a |-> r.l[v[1]][1], b |-> r.l[v[1]][2], new |-> w[2]]
    [] rule = "must_use"      -> Del(r.i, r.i + r.a - 1)
    [] rule = "const_assert"  -> IF v = "false" THEN [a |-> r.a, b |-> r.b, new |-> <<NewTok("kw", "false", 0, d)>>]
                                 ELSE IF v = "operand" THEN [a |-> r.l[1][1], b |-> r.l[1][2], new |-> <<NewTok("int", r.l[1][3], 0, d)>>]
                                 ELSE [a |-> r.a, b |-> r.b,
                                       new |-> <<NewTok("p", "!", 0, d), NewTok("p", "(", 0, d), [toks[r.a] EXCEPT !.nl = 0, !.sp = 0]>>
                                               \o SubSeq(toks, r.a + 1, r.b) \o <<NewTok("p", ")", 0, d)>>]
    [] rule \in {"group_only", "binding_only", "no_wgsize"} -> Del(r.i, r.a)
    [] rule = "array_size"    -> IF v = "zero" THEN [a |-> r.i, b |-> r.a, new |-> <<NewTok("int", "0", 0, d)>>]
                                 ELSE [a |-> r.i, b |-> r.a, new |-> <<NewTok("p", "-", 0, d), NewTok("int", "1", 0, d)>>]
    [] rule \in {"swizzle_mix", "swizzle_width"} -> One("id", v)
    [] rule = "semicolon"     -> Del(r.i, r.i)
    [] rule = "del_close"     -> IF "outside" \in Faults THEN Del(r.i - 1, r.i) ELSE Del(r.i, r.i)
    [] rule = "extra_open"    -> [a |-> r.i, b |-> r.i, new |-> <<t, NewTok("p", t.x, 0, d)>>]
    [] rule = "div_zero"      -> [a |-> r.a, b |-> r.b, new |-> <<NewTok("int", "0", 0, d)>>]

\* the window the rule is allowed to touch (for the frame condition); equals the edit's window
WindowOf(p, rule, ri, v) ==
  LET e == EditOf(p, rule, ri, v) IN
  IF "outside" \in Faults /\ rule = "del_close" THEN [a |-> p.roles[ri].i, b |-> p.roles[ri].i] ELSE [a |-> e.a, b |-> e.b]

\* ---- FirstBadToken ---------------------------------------------------------------
StartKeywords == {"let", "var", "const", "if", "for", "while", "loop", "switch", "return", "break", "continue", "discard",
                  "const_assert", "fn", "struct", "alias", "override", "continuing", "else", "case", "default"}
EndsExpr(t) == t.k \in {"id", "int", "float", "tkw"} \/ t.x \in {")", "]", "true", "false", "++", "--"}
StopAfterStmt(t) == t.k \in {"id", "eof"} \/ t.x \in {"}", "{", "@"} \/ (t.k = "kw" /\ t.x \in StartKeywords)
StopAfterClose(t) == t.k = "eof" \/ t.x \in {";", "{", "=", "+=", "-=", "*=", "/=", "%=", "&=", "|=", "^=", "->", "@"}
                     \/ (t.k = "kw" /\ t.x \in StartKeywords)

\* index (in the ORIGINAL sequence) of the first bad token of the mutant, or 0 where only the lower bound is stated
FirstBadToken(p, rule, ri) ==
  LET r == p.roles[ri]
      toks == p.toks
      nx == NextCode(toks, r.i + 1)
      pv == PrevCode(toks, r.i - 1)
  IN  IF rule = "semicolon" /\ r.s \in {"stmt", "decl"} /\ r.i > 1 /\ EndsExpr(toks[pv]) /\ StopAfterStmt(toks[nx]) THEN nx
      ELSE IF rule = "del_close" /\ toks[r.i].x \in {")", "]"} /\ StopAfterClose(toks[nx]) THEN nx
      ELSE 0

\* ---- expectation -------------------------------------------------------------------
Stages(p, rule, ri) ==
  IF rule \in SyntaxRules /\ ~(rule = "del_close" /\ p.roles[ri].s = "tmpl-ctor") THEN <<"parse">> ELSE <<"parse", "lower">>

\* index in the mutant of original index j (j outside the window)
Shift(e, j) == IF j < e.a THEN j ELSE j - (e.b - e.a + 1) + Len(e.new)

\* pn = number of the program p in Progs; positions are stated through the incremental forms (FastOK ties them to PosOf)
Expectation(pn, p, rule, ri, v, e, m) ==
  LET r == p.roles[ri]
      d == p.toks[r.i].d
      nn == Len(e.new)
      fb == FirstBadToken(p, rule, ri)
      base == [rule |-> rule, rejected |-> ("accept" \notin Faults), output |-> FALSE, stages |-> Stages(p, rule, ri),
               eof |-> FastPos(pn, m, e.a, e.b, nn, Len(m))]
  IN  IF rule \in SemanticRules
      THEN LET lo == FastPos(pn, m, e.a, e.b, nn, FastFirstOfDecl(pn, d, e.a))
               hi == FastPos(pn, m, e.a, e.b, nn, FastLastOfDecl(pn, d, e.a, e.b, nn))
           IN  base @@ [mode |-> "within", lo |-> IF "posflip" \in Faults THEN hi ELSE lo, hi |-> IF "posflip" \in Faults THEN lo ELSE hi]
      ELSE IF fb # 0
           THEN base @@ [mode |-> "exact", lo |-> FastPos(pn, m, e.a, e.b, nn, Shift(e, fb)), hi |-> FastPos(pn, m, e.a, e.b, nn, Shift(e, fb))]
           ELSE base @@ [mode |-> "from", lo |-> FastPos(pn, m, e.a, e.b, nn, e.a), hi |-> base.eof]

\* ---- the machine ---------------------------------------------------------------------
VARIABLES pi,    \* the program
          cur,   \* its current token sequence
          exp,   \* None, or the expectation attached to the mutant `cur`
          win    \* the window of the applied edit, in original coordinates, and the length of the replacement
vars == <<pi, cur, exp, win>>

P == Progs[pi]

Init == /\ pi \in 1 .. Len(Progs)
        /\ cur = Progs[pi].toks
        /\ exp = None
        /\ win = [a |-> 0, b |-> 0, n |-> 0]

\* (the nested \E over singleton sets make TLC evaluate the edit, the mutant and the expectation once)
BreakRule(rule, ri, v) ==
  /\ exp = None
  /\ \E e \in {EditOf(P, rule, ri, v)} :
     \E w \in {WindowOf(P, rule, ri, v)} :
     \E m \in {Splice(P.toks, e.a, e.b, e.new)} :
     \E x \in {Expectation(pi, P, rule, ri, v, e, m)} :
     \E r \in {P.roles[ri]} :
         /\ cur' = m
         /\ exp' = x
         /\ win' = [a |-> w.a, b |-> w.b, n |-> Len(e.new)]
         /\ PrintT("@@" \o ToJson([kind |-> "mut", p |-> P.id, rule |-> rule, var |-> v, ri |-> ri, role |-> r.r, s |-> r.s,
                                   wh |-> r.wh, x |-> P.toks[r.i].x, a |-> e.a, b |-> e.b, n |-> Len(e.new), ntok |-> Len(m),
                                   src |-> FastText(pi, m, e.a, e.b, Len(e.new)), rejected |-> x.rejected, output |-> x.output, stages |-> x.stages,
                                   mode |-> x.mode, lo |-> x.lo, hi |-> x.hi, eof |-> x.eof]))
  /\ UNCHANGED pi

\* the original is printed once per program, so that the harness can check that both sides render the same text
EmitOrig == PrintT("@@" \o ToJson([kind |-> "orig", p |-> P.id, src |-> Text(P.toks), eof |-> EofPos(P.toks), ntok |-> Len(P.toks)]))

Next == exp = None /\ \E rule \in Rules : \E ri \in Sites(P, rule) : \E v \in Variants(P, rule, ri) : BreakRule(rule, ri, v)

Spec == Init /\ [][Next]_vars

\* ---- invariants (sanity of the mutants; checked by TLC on every one) ---------------------
Lexemes(toks) == [i \in 1 .. Len(toks) |-> toks[i].x]
Orig == P.toks

\* the original is unchanged outside the window: same tokens before it, same tokens (up to the blanks in front of the
\* first one) after it
Frame ==
  exp # None =>
    LET tail == Len(Orig) - win.b
        c == cur[win.a + win.n]
        o == Orig[win.b + 1]
    IN  /\ Len(cur) = win.a - 1 + win.n + tail
        /\ SubSeq(cur, 1, win.a - 1) = SubSeq(Orig, 1, win.a - 1)
        /\ c.x = o.x /\ c.k = o.k /\ c.d = o.d /\ c.w = o.w
        /\ SubSeq(cur, win.a + win.n + 1, Len(cur)) = SubSeq(Orig, win.b + 2, Len(Orig))

\* every mutant differs from the original as a sequence of lexemes (given Frame: inside the window)
Differs == exp # None => Lexemes(SubSeq(cur, win.a, win.a + win.n - 1)) # Lexemes(SubSeq(Orig, win.a, win.b))

\* fresh names hit nothing, and renamed uses carry one
FreshOK == FreshNames \cap (Tab[pi].names \cup Predeclared) = {}
FreshUsed == exp # None /\ exp.rule \in {"undecl_var", "undecl_type", "undecl_fn", "undecl_member"} => cur[win.a].x \in FreshNames

\* the expectation is well formed: always rejected, never output, a stage, positions ordered and inside the source
ExpectOK ==
  exp # None =>
    /\ exp.rejected = TRUE /\ exp.output = FALSE
    /\ Len(exp.stages) >= 1
    /\ PosLE(<<1, 1>>, exp.lo) /\ PosLE(exp.lo, exp.hi) /\ PosLE(exp.hi, exp.eof)

\* the incremental forms agree with the definitions (every token position, the text, the declaration extents)
FastOK ==
  exp # None /\ CheckFast =>
    LET d == cur[win.a].d
        all == FoldLeft(LAMBDA acc, t : Append(acc, EndFrom(acc[Len(acc)], t)), <<<<1, 1>>>>, cur)
    IN  /\ Text(cur) = FastText(pi, cur, win.a, win.b, win.n)
        /\ \A i \in 1 .. Len(cur) : StartFrom(all[i], cur[i]) = FastPos(pi, cur, win.a, win.b, win.n, i)
        /\ PosOf(cur, Len(cur)) = exp.eof
        /\ exp.mode = "within" =>
              /\ exp.lo = PosOf(cur, FirstOfDecl(cur, d)) /\ exp.hi = PosOf(cur, LastOfDecl(cur, d))
              /\ FirstOfDecl(cur, d) = FastFirstOfDecl(pi, d, win.a)
              /\ LastOfDecl(cur, d) = FastLastOfDecl(pi, d, win.a, win.b, win.n)

OrigPrinted == exp = None => EmitOrig
=============================================================================
