------------------------------- MODULE Passes -------------------------------
(***************************************************************************)
(* The contract of naga's IR-to-IR passes (property C13), as a state       *)
(* machine over (module version, applied pass sequence).                   *)
(*                                                                         *)
(* Passes (the actions Apply(p)):                                          *)
(*   exported by package ir (ir/compact.go, ir/inline.go), applicable to   *)
(*   any valid module, in any order, up to MaxLen in a row:                *)
(*     CompactUnused  InlineAll (InlineUserFunctions, every callee)        *)
(*     InlineSome (InlineUserFunctions with a policy that inlines some     *)
(*     callees)  CompactConstants  CompactExpressions  CompactTypes        *)
(*     ReorderTypes  DeduplicateEmits                                      *)
(*   the pre-emission pipeline of dxil.Compile (dxil/dxil.go               *)
(*   prepareModule, runOptPasses), only in its fixed order, from the       *)
(*   lowered module, every prefix:  prepareModule sroa mem2reg dce         *)
(*   the compaction stages inside lowering, in their fixed order, from the *)
(*   module as it is after per-declaration lowering ("lower:" names)       *)
(*                                                                         *)
(* Contract of one application  m --p--> m2  (the statement of C13):       *)
(*   Preserves       every input row on which running m is decided gives   *)
(*                   exactly the same final buffer contents on m2          *)
(*   StaysWellFormed m2 has no ill-formed spot that m did not have         *)
(*   Idempotent      p(m2) = m2  (canonical dump equality)                 *)
(* What "running" and "ill-formed" mean is IrSem.tla; PassTrace.tla        *)
(* evaluates the contract on recorded applications of the real passes.     *)
(*                                                                         *)
(* Run on its own (PassesGen.cfg) TLC enumerates every pass sequence the   *)
(* machine admits and prints it: the harness replays each into naga.       *)
(***************************************************************************)
EXTENDS Naturals, Sequences, TLC, Json

CONSTANT MaxLen

IrPasses == {"CompactUnused", "InlineAll", "InlineSome", "CompactConstants", "CompactExpressions", "CompactTypes",
             "ReorderTypes", "DeduplicateEmits"}
DxilPipeline == <<"prepareModule", "sroa", "mem2reg", "dce">>
DxilPasses == {DxilPipeline[i] : i \in 1 .. Len(DxilPipeline)}
\* the compaction stages at the end of lowering (wgsl/internal/lower/lower.go), observed where naga itself applies them:
\* fixed order, from the module as it is after per-declaration lowering
LowerPipeline == <<"lower:CompactConstants", "lower:CompactExpressions", "lower:CompactTypes", "lower:ReorderTypes", "lower:DeduplicateEmits">>
LowerPasses == {LowerPipeline[i] : i \in 1 .. Len(LowerPipeline)}
AllPasses == IrPasses \cup DxilPasses \cup LowerPasses

\* may p be applied to a module reached by the sequence s ?
MayApply(s, p) ==
  \/ p \in IrPasses /\ Len(s) < MaxLen /\ \A i \in 1 .. Len(s) : s[i] \in IrPasses
  \/ \E k \in 1 .. Len(DxilPipeline) : p = DxilPipeline[k] /\ Len(s) = k - 1 /\ \A i \in 1 .. k - 1 : s[i] = DxilPipeline[i]
  \/ \E k \in 1 .. Len(LowerPipeline) : p = LowerPipeline[k] /\ Len(s) = k - 1 /\ \A i \in 1 .. k - 1 : s[i] = LowerPipeline[i]

VARIABLES ver, seq
pvars == <<ver, seq>>
PInit == ver = 0 /\ seq = <<>>
Apply(p) == MayApply(seq, p) /\ seq' = Append(seq, p) /\ ver' = ver + 1
PNext == \E p \in AllPasses : Apply(p)
PSpec == PInit /\ [][PNext]_pvars

\* ---- the contract, over what was observed for m (before) and m2 (after) ----
\* resB, resA: row -> [ok, why, out, mask]
Preserves(resB, resA) == \A r \in DOMAIN resB : resB[r].ok => (resA[r].ok /\ resA[r].out = resB[r].out)
StaysWellFormed(errsB, errsA) == errsA \subseteq errsB
Idempotent(dumpOnce, dumpTwice) == dumpOnce = dumpTwice

\* ---- enumeration of the sequences (PassesGen.cfg: INVARIANT EmitSeq) ----
EmitSeq == seq = <<>> \/ PrintT("@@" \o ToJson([seq |-> seq]))
SeqOK == Len(seq) <= MaxLen + Len(DxilPipeline) + Len(LowerPipeline) /\ ver = Len(seq)
=============================================================================
