SPECIFICATION Spec
CONSTANTS
  MaxMembers = 2
  MaxPool = 1
  LeafSel = "all"
  AlignAttrs = {0, 8, 16, 32}
  SizeDeltas = {999, 0, 12}
  ArrayCounts = {3}
  WithRuntime = TRUE
INVARIANTS LayoutInv BuilderInv
CHECK_DEADLOCK FALSE
