enable dual_source_blending;
struct VOut { @builtin(position) pos: vec4<f32>, @location(0) uv: vec2<f32>, @location(1) @interpolate(flat) id: u32 }
struct Buf { counter: atomic<u32>, data: array<u32> }
@group(0) @binding(0) var<storage, read_write> buf: Buf;
@group(0) @binding(1) var<uniform> scale: vec4<f32>;
var<private> pv: i32 = 3;
fn helper(a: i32, b: f32) -> i32 { if b > 1.0 { return a * 2; } return a + i32(b); }
fn work(n: u32) -> u32 {
  var acc = 0u;
  var i = 0u;
  loop {
    if i >= n { break; }
    switch i { case 1u: { acc += 2u; } case 2u, 3u: { acc = acc * 3u; } default: { acc += i; } }
    continuing { i += 1u; }
  }
  return acc;
}
@vertex fn vs(@builtin(vertex_index) vi: u32, @location(0) p: vec3<f32>) -> VOut {
  var o: VOut; o.pos = vec4<f32>(p, 1.0) * scale; o.uv = p.xy; o.id = work(vi); return o; }
@compute @workgroup_size(4) fn cs(@builtin(global_invocation_id) gid: vec3<u32>) {
  let old = atomicAdd(&buf.counter, 1u);
  let h = helper(i32(gid.x), f32(old));
  if h > pv { let t = u32(h) + old; buf.data[gid.x] = t; }
  pv = h;
}
struct FsOut { @location(0) @blend_src(0) color: vec4<f32>, @blend_src(1) @location(0) weight: vec4<f32> }
@fragment fn fs(@location(0) uv: vec2<f32>, @interpolate(flat) @location(1) id: u32) -> FsOut { return FsOut(vec4<f32>(uv, f32(id), 1.0), vec4<f32>(0.5)); }
