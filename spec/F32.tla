-------------------------------- MODULE F32 --------------------------------
(***************************************************************************)
(* IEEE-754 binary32 on bit patterns (32-bit words as in Word32), decided  *)
(* with integer arithmetic that stays inside TLC's int range.              *)
(*                                                                         *)
(* + - * / are correctly rounded (round-to-nearest-even), which is what    *)
(* WGSL requires of them.  WGSL lets an implementation flush subnormals    *)
(* and treat NaN / infinity as indeterminate, so every operation has a     *)
(* companion predicate  ...Ok  saying that the result is *decided*:        *)
(* operands and result finite, normal or zero, no overflow.  The program   *)
(* evaluator abandons an input row (it is not compared) as soon as an      *)
(* undecided operation is met - the specification is then silent, never    *)
(* stronger than WGSL.                                                     *)
(***************************************************************************)
EXTENDS Word32

P23 == 8388608          \* 2^23
P24 == 16777216         \* 2^24
P12 == 4096

FSign(w) == IF w < 0 THEN 1 ELSE 0
FMag(w)  == And32(w, MaxI)                 \* 0 .. 2^31-1
FExpF(w) == FMag(w) \div P23               \* exponent field 0 .. 255
FFrac(w) == FMag(w) % P23

FIsNaN(w)  == FExpF(w) = 255 /\ FFrac(w) # 0
FIsInf(w)  == FExpF(w) = 255 /\ FFrac(w) = 0
FIsZero(w) == FMag(w) = 0
FIsSub(w)  == FExpF(w) = 0 /\ FFrac(w) # 0
FIsNormal(w) == FExpF(w) > 0 /\ FExpF(w) < 255
\* the domain on which results are decided
FOk(w) == FIsZero(w) \/ FIsNormal(w)

\* a normal number is  FMant * 2^FExp
FMant(w) == P23 + FFrac(w)
FExp(w)  == FExpF(w) - 150

PosZero == 0
NegZero == MinI
FOne == 1065353216          \* 0x3F800000
FNegOne == FOne + MinI

RECURSIVE BitLenFrom(_, _)
BitLenFrom(n, k) == IF n = 0 THEN k ELSE BitLenFrom(n \div 2, k + 1)
BitLen(n) == BitLenFrom(n, 0)                \* n >= 0

\* pack sign, 24-bit mantissa m in [2^23, 2^24), exponent e (value m * 2^e); exponent field must be 1 .. 254
PackOk(e) == e + 150 >= 1 /\ e + 150 <= 254
Pack(s, m, e) == LET u == (e + 150) * P23 + (m - P23) IN IF s = 1 THEN u + MinI ELSE u

(***************************************************************************)
(* Round an exact positive integer  n < 2^30  times 2^e to binary32 (RNE). *)
(* Returns <<m, e'>> with m in [2^23, 2^24).                               *)
(***************************************************************************)
RoundNE(n, e) ==
  LET nb == BitLen(n) IN
  IF nb <= 24 THEN <<n * Pow2(24 - nb), e - (24 - nb)>>
  ELSE LET sh == nb - 24
           q  == n \div Pow2(sh)
           r  == n % Pow2(sh)
           half == Pow2(sh - 1)
           up == r > half \/ (r = half /\ q % 2 = 1)
           q2 == IF up THEN q + 1 ELSE q
       IN  IF q2 = P24 THEN <<P23, e + sh + 1>> ELSE <<q2, e + sh>>

\* result word of an exact value  s * n * 2^e  (n > 0);  RoundedOk says it is a normal number
RoundedOk(n, e) == PackOk(RoundNE(n, e)[2])
Rounded(s, n, e) == LET r == RoundNE(n, e) IN Pack(s, r[1], r[2])

(***************************************************************************)
(* Addition / subtraction with guard, round and sticky bits.               *)
(***************************************************************************)
ShrSticky(n, d) == IF d = 0 THEN n
                   ELSE IF d >= 30 THEN (IF n # 0 THEN 1 ELSE 0)
                   ELSE LET q == n \div Pow2(d) IN IF n % Pow2(d) # 0 THEN (IF q % 2 = 0 THEN q + 1 ELSE q) ELSE q

\* signed sum of two normal numbers as <<sign, n, e>> (n = 0: exact zero)
AddParts(a, b) ==
  LET big   == IF FExp(a) > FExp(b) \/ (FExp(a) = FExp(b) /\ FMant(a) >= FMant(b)) THEN a ELSE b
      small == IF big = a THEN b ELSE a
      d  == FExp(big) - FExp(small)
      A  == FMant(big) * 8
      B  == ShrSticky(FMant(small) * 8, d)
      S  == IF FSign(big) = FSign(small) THEN A + B ELSE A - B
  IN  <<FSign(big), S, FExp(big) - 3>>

FAddOk(a, b) ==
  /\ FOk(a) /\ FOk(b)
  /\ (FIsZero(a) \/ FIsZero(b) \/ LET p == AddParts(a, b) IN p[2] = 0 \/ RoundedOk(p[2], p[3]))
FAdd(a, b) ==
  IF FIsZero(a) /\ FIsZero(b) THEN (IF a = NegZero /\ b = NegZero THEN NegZero ELSE PosZero)
  ELSE IF FIsZero(a) THEN b
  ELSE IF FIsZero(b) THEN a
  ELSE LET p == AddParts(a, b) IN IF p[2] = 0 THEN PosZero ELSE Rounded(p[1], p[2], p[3])

FNeg(a) == Xor32(a, MinI)
FAbs(a) == FMag(a)
FSubOk(a, b) == FAddOk(a, FNeg(b))
FSub(a, b)   == FAdd(a, FNeg(b))

(***************************************************************************)
(* Multiplication: 24 x 24 -> 48 bit product kept as two 24-bit halves.    *)
(***************************************************************************)
MulParts(a, b) ==
  LET ma == FMant(a)  mb == FMant(b)
      a1 == ma \div P12  a0 == ma % P12  b1 == mb \div P12  b0 == mb % P12
      mid == a1 * b0 + a0 * b1
      los == a0 * b0 + (mid % P12) * P12
      plo == los % P24
      phi == a1 * b1 + (mid \div P12) + (los \div P24)
      \* product = phi * 2^24 + plo, phi in [2^22, 2^24)
      top == IF phi >= P23 THEN phi ELSE phi * 2 + (plo \div P23)
      rem == IF phi >= P23 THEN plo ELSE (plo % P23) * 2      \* remainder scaled to 24 bits
      e0  == FExp(a) + FExp(b) + (IF phi >= P23 THEN 24 ELSE 23)
      up  == rem > P23 \/ (rem = P23 /\ top % 2 = 1)
      t2  == IF up THEN top + 1 ELSE top
  IN  IF t2 = P24 THEN <<P23, e0 + 1, rem = 0>> ELSE <<t2, e0, rem = 0>>

FMulOk(a, b) == /\ FOk(a) /\ FOk(b)
                /\ (FIsZero(a) \/ FIsZero(b) \/ PackOk(MulParts(a, b)[2]))
FMul(a, b) ==
  LET s == IF FSign(a) = FSign(b) THEN 0 ELSE 1 IN
  IF FIsZero(a) \/ FIsZero(b) THEN (IF s = 1 THEN NegZero ELSE PosZero)
  ELSE LET p == MulParts(a, b) IN Pack(s, p[1], p[2])
\* the product is exact (no rounding happened)
FMulExact(a, b) == FIsZero(a) \/ FIsZero(b) \/ MulParts(a, b)[3]

(***************************************************************************)
(* Division by long division (26 quotient bits + sticky).                  *)
(***************************************************************************)
RECURSIVE DivBits(_, _, _, _)
DivBits(r, m, q, k) == IF k = 0 THEN <<q, r>>
                       ELSE LET r2 == r * 2 IN
                            IF r2 >= m THEN DivBits(r2 - m, m, q * 2 + 1, k - 1) ELSE DivBits(r2, m, q * 2, k - 1)
DivParts(a, b) ==
  LET ma == FMant(a)  mb == FMant(b)
      q0 == IF ma >= mb THEN 1 ELSE 0
      d  == DivBits(ma - q0 * mb, mb, q0, 26)
      n  == d[1] * 2 + (IF d[2] # 0 THEN 1 ELSE 0)
  IN  <<n, FExp(a) - FExp(b) - 27>>
FDivOk(a, b) == /\ FOk(a) /\ FOk(b) /\ ~FIsZero(b)
                /\ (FIsZero(a) \/ LET p == DivParts(a, b) IN RoundedOk(p[1], p[2]))
FDiv(a, b) ==
  LET s == IF FSign(a) = FSign(b) THEN 0 ELSE 1 IN
  IF FIsZero(a) THEN (IF s = 1 THEN NegZero ELSE PosZero)
  ELSE LET p == DivParts(a, b) IN Rounded(s, p[1], p[2])

(***************************************************************************)
(* Ordering (finite values; -0 = +0).                                      *)
(***************************************************************************)
FKey(w) == IF w >= 0 THEN w ELSE 0 - FMag(w)
FCmpOk(a, b) == ~FIsNaN(a) /\ ~FIsNaN(b)
FLt(a, b) == FKey(a) < FKey(b)
FLe(a, b) == FKey(a) <= FKey(b)
FEq(a, b) == FKey(a) = FKey(b)
FMin(a, b) == IF FLt(b, a) THEN b ELSE a
FMax(a, b) == IF FLt(a, b) THEN b ELSE a

(***************************************************************************)
(* Rounding to integral values.                                            *)
(***************************************************************************)
\* for a normal number with negative exponent: integer part n and whether a fraction remains
IntPart(w) == IF FExp(w) >= 0 THEN <<0, FALSE>>   \* unused in that case
              ELSE IF FExp(w) <= -25 THEN <<0, TRUE>>
              ELSE <<FMant(w) \div Pow2(0 - FExp(w)), FMant(w) % Pow2(0 - FExp(w)) # 0>>
\* s * n as a float (n < 2^24, exact)
FromSmallInt(s, n) == IF n = 0 THEN (IF s = 1 THEN NegZero ELSE PosZero) ELSE Rounded(s, n, 0)

FTrunc(w) == IF FIsZero(w) \/ FExp(w) >= 0 THEN w ELSE FromSmallInt(FSign(w), IntPart(w)[1])
FFloor(w) == IF FIsZero(w) \/ FExp(w) >= 0 THEN w
             ELSE LET p == IntPart(w) IN
                  IF FSign(w) = 1 /\ p[2] THEN FromSmallInt(1, p[1] + 1) ELSE FromSmallInt(FSign(w), p[1])
FCeil(w)  == IF FIsZero(w) \/ FExp(w) >= 0 THEN w
             ELSE LET p == IntPart(w) IN
                  IF FSign(w) = 0 /\ p[2] THEN FromSmallInt(0, p[1] + 1) ELSE FromSmallInt(FSign(w), p[1])
\* round half to even
FRound(w) == IF FIsZero(w) \/ FExp(w) >= 0 THEN w
             ELSE IF FExp(w) <= -25 THEN FromSmallInt(FSign(w), 0)
             ELSE LET d == Pow2(0 - FExp(w))  q == FMant(w) \div d  r == FMant(w) % d
                      up == r * 2 > d \/ (r * 2 = d /\ q % 2 = 1)
                  IN  FromSmallInt(FSign(w), IF up THEN q + 1 ELSE q)
FFract(w) == FSub(w, FFloor(w))
FSignum(w) == IF FIsZero(w) THEN w ELSE IF w < 0 THEN FNegOne ELSE FOne

(***************************************************************************)
(* Conversions.                                                            *)
(***************************************************************************)
\* i32 / u32 -> f32: decided when exact
AbsU(n) == IF n < 0 THEN Neg32(n) ELSE n        \* magnitude as a u32 bit pattern (INT_MIN stays INT_MIN = 2^31)
\* a u32 bit pattern u # 0 is exactly representable iff its significant bits (highest to lowest set bit) span <= 24
UToFOk(u) == u = 0 \/ 32 - Clz(u) - Ctz(u) <= 24
UToF(u)   == IF u = 0 THEN PosZero ELSE Rounded(0, ShrUK(u, Ctz(u)), Ctz(u))
SToFOk(n) == UToFOk(AbsU(n))
SToF(n)   == IF n = 0 THEN PosZero ELSE Rounded(IF n < 0 THEN 1 ELSE 0, ShrUK(AbsU(n), Ctz(n)), Ctz(n))

\* f32 -> i32 / u32: truncate toward zero, saturating; NaN undecided
FToSOk(w) == ~FIsNaN(w)
FToS(w) == IF FIsZero(w) \/ FIsSub(w) THEN 0
           ELSE IF FIsInf(w) \/ FExp(w) >= 8 THEN (IF w < 0 THEN MinI ELSE MaxI)      \* |x| >= 2^31
           ELSE LET n == IF FExp(w) >= 0 THEN FMant(w) * Pow2(FExp(w)) ELSE IntPart(w)[1]
                IN  IF w < 0 THEN 0 - n ELSE n
FToU(w) == IF FIsZero(w) \/ FIsSub(w) \/ w < 0 THEN 0
           ELSE IF FIsInf(w) \/ FExp(w) >= 9 THEN -1                                    \* >= 2^32 -> 0xFFFFFFFF
           ELSE IF FExp(w) = 8 THEN ShlK(FMant(w), 8)
           ELSE IF FExp(w) >= 0 THEN FMant(w) * Pow2(FExp(w)) ELSE IntPart(w)[1]

\* exact square root of a normal positive number, when it is one
RECURSIVE ISqrt(_, _, _)
ISqrt(n, lo, hi) == IF lo >= hi THEN lo
                    ELSE LET mid == (lo + hi + 1) \div 2 IN
                         IF mid <= 46340 /\ mid * mid <= n THEN ISqrt(n, mid, hi) ELSE ISqrt(n, lo, mid - 1)
\* trim mantissa to odd form m * 2^e
RECURSIVE OddForm(_, _)
OddForm(m, e) == IF m % 2 = 0 THEN OddForm(m \div 2, e + 1) ELSE <<m, e>>
FSqrtOk(w) == FIsZero(w) \/ (FIsNormal(w) /\ w > 0 /\
               LET o == OddForm(FMant(w), FExp(w))
                   m == IF o[2] % 2 = 0 THEN o[1] ELSE o[1] * 2
                   r == ISqrt(m, 0, 46340)
               IN  m < 2147395600 /\ r * r = m)
FSqrt(w) == IF FIsZero(w) THEN w
            ELSE LET o == OddForm(FMant(w), FExp(w))
                     ev == IF o[2] % 2 = 0 THEN o[2] ELSE o[2] - 1
                     m == IF o[2] % 2 = 0 THEN o[1] ELSE o[1] * 2
                 IN  Rounded(0, ISqrt(m, 0, 46340), ev \div 2)

=============================================================================
