SPECIFICATION Spec
CONSTANT Faults = {}
CHECK_DEADLOCK FALSE
