---------------------------- MODULE NeutralEdits ----------------------------
(***************************************************************************)
(* The NeutralEdit part of the edit-script machine (DESIGN.md 4.2, C19):   *)
(* edits of a WGSL text that cannot change its meaning.                    *)
(*                                                                         *)
(* A text is held as a TOKEN SEQUENCE `toks` and TRIVIA SLOTS `triv`:      *)
(* slot j (0..n) sits after token j (slot 0 before the first token) and is *)
(* a sequence of pieces, each a sequence of code points; the text itself   *)
(* is Render(toks, triv) = slot 0, token 1, slot 1, ..., token n, slot n.  *)
(* A token is [k, lex, ts, te, tag]: kind and lexeme as in Lexer.tla;      *)
(* ts / te = 1 if the token is the `<` / `>` that starts / ends a template *)
(* list (WGSL 3.9; supplied with the program); tag = "orig", or "paren" /  *)
(* "comma" for tokens that an edit inserted.                               *)
(*                                                                         *)
(* Actions (each appends a record to `log`):                               *)
(*   InsertTrivia(j, p, q)  put piece p at position q of slot j            *)
(*   RemovePiece(j, q)      delete piece q of slot j                       *)
(*   RemoveTrivia(j)        empty slot j                                   *)
(*   Parenthesize(a, b)     `(` before token a, `)` after token b, for a    *)
(*                          supplied full sub-expression a..b              *)
(*   TrailingComma(c)       `,` after token c-1, for a supplied closing    *)
(*                          token c of a list where the grammar allows it  *)
(*   RenameAll(x, y)        every identifier token spelled x becomes y, y  *)
(*                          fresh (lexes as one identifier, not a keyword, *)
(*                          reserved word or predeclared name, spelled by  *)
(*                          no token of the text, no `__` prefix), x a     *)
(*                          supplied user-declared name that is not        *)
(*                          predeclared                                    *)
(* GUARD of every action: each slot whose surroundings changed still       *)
(* separates its two neighbours - decided by RE-LEXING the window          *)
(* "previous token, slot text, next token" with Lexer.tla (WindowOK): `a`  *)
(* `b` need a separator, `-` `-` would fuse, `/` `*` would open a comment, *)
(* `/` followed by a block comment would become `//`, `>` `>` / `>` `=` /  *)
(* `<` `<` fuse unless the first is a template delimiter, a line comment   *)
(* swallows whatever follows it up to the next line break, ...             *)
(*                                                                         *)
(* LEMMA (TLC-checked invariant, on the specification):                    *)
(*   LexLemma     Lexer!TokensT(Render(toks, triv)) = toks  (kinds and     *)
(*                lexemes) - the guard, which looks at one window, is      *)
(*                enough for the whole text;                               *)
(*   StructLemma  toks without the inserted parentheses / commas = the     *)
(*                original tokens under the renaming.                      *)
(* Together: for every reachable edited text, Tokens(text') = Tokens(text) *)
(* modulo inserted parentheses / commas and the renaming.                  *)
(*                                                                         *)
(* NAMED FACTS (ASSUME, evaluated by TLC): every WGSL line break ends a    *)
(* line comment; inserting a line break inside a line comment and removing *)
(* the line break that ends one are NOT neutral.                           *)
(*                                                                         *)
(* Faults (self-test; {} in real runs): each drops one guard, and TLC must *)
(* then report LexLemma violated.                                          *)
(*   "lb_in_line_comment"  a line break may be inserted INSIDE a line      *)
(*                         comment piece                                   *)
(*   "remove_unguarded"    RemoveTrivia / RemovePiece without WindowOK     *)
(*   "insert_unguarded"    InsertTrivia without WindowOK                   *)
(*   "rename_unchecked"    RenameAll without the freshness test and guard  *)
(***************************************************************************)
EXTENDS Lexer, WgslNames, SequencesExt, FiniteSets, TLC, Json

CONSTANTS Faults,        \* set of seeded faults
          MaxEdits,      \* length bound of edit scripts
          AlphabetSel,   \* "pairs" | "two" | "twice" | "micro" | "microtriples" | "mini" | "core" | "full" | "triples"  (initial states of the lemma configuration)
          PosSel         \* "ends" | "all": positions inside a slot at which pieces are inserted

VARIABLES toks, triv, orig, ren, spans, commas, renames, log, pid
vars == <<toks, triv, orig, ren, spans, commas, renames, log, pid>>

\* ---- the trivia vocabulary --------------------------------------------------------
PieceCatalogue ==
  << [name |-> "sp", text |-> <<32>>],
     [name |-> "tab", text |-> <<9>>],
     [name |-> "lf", text |-> <<10>>],
     [name |-> "crlf", text |-> <<13, 10>>],
     [name |-> "cr", text |-> <<13>>],
     [name |-> "vt", text |-> <<11>>],
     [name |-> "ff", text |-> <<12>>],
     [name |-> "nel", text |-> <<133>>],
     [name |-> "ls", text |-> <<8232>>],
     [name |-> "ps", text |-> <<8233>>],
     [name |-> "lrm", text |-> <<8206>>],
     [name |-> "rlm", text |-> <<8207>>],
     [name |-> "bc", text |-> <<47, 42, 32, 99, 32, 42, 47>>],                                   \* /* c */
     [name |-> "bc_nested", text |-> <<47, 42, 32, 97, 32, 47, 42, 32, 98, 32, 42, 47, 32, 99, 32, 42, 47>>],   \* /* a /* b */ c */
     [name |-> "bc_quote", text |-> <<47, 42, 32, 34, 113, 39, 32, 42, 47>>],                    \* /* "q' */
     [name |-> "bc_lookalike", text |-> <<47, 42, 32, 42, 32, 47, 32, 42, 47>>],                 \* /* * / */
     [name |-> "bc_stars", text |-> <<47, 42, 42, 42, 47>>],                                     \* /***/
     [name |-> "bc_nonascii", text |-> <<47, 42, 32, 233, 21517, 32, 42, 47>>],                  \* /* e-acute, CJK */
     [name |-> "bc_multiline", text |-> <<47, 42, 32, 97, 10, 32, 98, 32, 42, 47>>],             \* /* a LF b */
     [name |-> "bc_code", text |-> <<47, 42, 32, 120, 32, 61, 32, 49, 59, 32, 42, 47>>],         \* /* x = 1; */
     [name |-> "lc_lf", text |-> <<47, 47, 32, 99, 10>>],                                        \* // c LF
     [name |-> "lc_crlf", text |-> <<47, 47, 32, 99, 13, 10>>],
     [name |-> "lc_cr", text |-> <<47, 47, 32, 99, 13>>],
     [name |-> "lc_vt", text |-> <<47, 47, 32, 99, 11>>],
     [name |-> "lc_ff", text |-> <<47, 47, 32, 99, 12>>],
     [name |-> "lc_nel", text |-> <<47, 47, 32, 99, 133>>],
     [name |-> "lc_ls", text |-> <<47, 47, 32, 99, 8232>>],
     [name |-> "lc_ps", text |-> <<47, 47, 32, 99, 8233>>],
     [name |-> "lc_quote", text |-> <<47, 47, 32, 34, 113, 39, 32, 47, 42, 32, 99, 10>>],        \* // "q' /* c LF
     [name |-> "lc_nonascii", text |-> <<47, 47, 32, 233, 21517, 10>>],
     [name |-> "lc_code", text |-> <<47, 47, 32, 120, 32, 61, 32, 49, 59, 10>>] >>               \* // x = 1; LF
PieceIds == 1 .. Len(PieceCatalogue)

\* ---- rendering ----------------------------------------------------------------------
Flat(ps) == FlattenSeq(ps)

\* text and the positions of template delimiters in it (a fold over the token indexes; no RECURSIVE operator:
\* see the note in Lexer.tla)
Render(tk, tv) ==
  FoldLeft(LAMBDA acc, i : [text |-> acc.text \o tk[i].lex \o Flat(tv[i + 1]),
                            single |-> IF tk[i].ts = 1 \/ tk[i].te = 1 THEN acc.single \cup {Len(acc.text) + 1} ELSE acc.single],
           [text |-> Flat(tv[1]), single |-> {}],
           [i \in 1 .. Len(tk) |-> i])

Plain(tk) == [i \in 1 .. Len(tk) |-> [k |-> tk[i].k, lex |-> tk[i].lex]]

\* ---- the guard: a slot separates its neighbours ------------------------------------------
\* tokens tk, slot j (0..Len(tk)), the slot's text `mid`
WindowOK(tk, j, mid) ==
  LET n == Len(tk)
      prev == IF j = 0 THEN <<>> ELSE tk[j].lex
      next == IF j = n THEN <<>> ELSE tk[j + 1].lex
      single == (IF j > 0 /\ (tk[j].ts = 1 \/ tk[j].te = 1) THEN {1} ELSE {})
                \cup (IF j < n /\ (tk[j + 1].ts = 1 \/ tk[j + 1].te = 1) THEN {Len(prev) + Len(mid) + 1} ELSE {})
      want == (IF j = 0 THEN <<>> ELSE <<[k |-> tk[j].k, lex |-> prev]>>)
              \o (IF j = n THEN <<>> ELSE <<[k |-> tk[j + 1].k, lex |-> next]>>)
  IN  TokensT(prev \o mid \o next, single) = want

SlotsOK(tk, tv, js) == \A j \in js : WindowOK(tk, j, Flat(tv[j + 1]))

\* a fresh name for tokens tk
Fresh(y, tk) ==
  /\ Tokens(y) = <<[k |-> "ident", lex |-> y]>>
  /\ y \notin ReservedWords /\ y \notin PredeclaredNames
  /\ ~(Len(y) >= 2 /\ y[1] = 95 /\ y[2] = 95)
  /\ \A i \in 1 .. Len(tk) : tk[i].lex # y

Renamable(x) == x \notin PredeclaredNames /\ x \notin ReservedWords /\ x \notin Keywords

\* ---- sequence surgery ----------------------------------------------------------------------
InsAt(s, i, x) == SubSeq(s, 1, i - 1) \o <<x>> \o SubSeq(s, i, Len(s))          \* x becomes element i
DelAt(s, i)    == SubSeq(s, 1, i - 1) \o SubSeq(s, i + 1, Len(s))
Tok(k, lex, tag) == [k |-> k, lex |-> lex, ts |-> 0, te |-> 0, tag |-> tag]

Positions(len) == IF PosSel = "all" THEN 0 .. len ELSE {0, len} \cup (IF len >= 2 THEN {1} ELSE {})

\* ---- actions ---------------------------------------------------------------------------------
Logged(e) == log' = Append(log, e)
More == Len(log) < MaxEdits
Frame == UNCHANGED <<orig, pid>>

InsertTrivia(j, p, q) ==
  /\ More
  /\ LET slot == InsAt(triv[j + 1], q + 1, PieceCatalogue[p].text)
     IN  /\ ("insert_unguarded" \in Faults \/ WindowOK(toks, j, Flat(slot)))
         /\ triv' = [triv EXCEPT ![j + 1] = slot]
  /\ Logged([kind |-> "insert", slot |-> j, piece |-> PieceCatalogue[p].name, pos |-> q])
  /\ UNCHANGED <<toks, ren, spans, commas, renames>> /\ Frame

RemovePiece(j, q) ==
  /\ More
  /\ LET slot == DelAt(triv[j + 1], q)
     IN  /\ ("remove_unguarded" \in Faults \/ WindowOK(toks, j, Flat(slot)))
         /\ triv' = [triv EXCEPT ![j + 1] = slot]
  /\ Logged([kind |-> "removepiece", slot |-> j, piece |-> "", pos |-> q])
  /\ UNCHANGED <<toks, ren, spans, commas, renames>> /\ Frame

RemoveTrivia(j) ==
  /\ More
  /\ triv[j + 1] # <<>>
  /\ ("remove_unguarded" \in Faults \/ WindowOK(toks, j, <<>>))
  /\ triv' = [triv EXCEPT ![j + 1] = <<>>]
  /\ Logged([kind |-> "remove", slot |-> j, piece |-> "", pos |-> 0])
  /\ UNCHANGED <<toks, ren, spans, commas, renames>> /\ Frame

\* fault only: a line break dropped into the body of a line-comment piece
SplitLineComment(j, q, off, p) ==
  /\ "lb_in_line_comment" \in Faults
  /\ More
  /\ LET pc == triv[j + 1][q] IN
     /\ Len(pc) >= 3 /\ pc[1] = 47 /\ pc[2] = 47 /\ off >= 2 /\ off < Len(pc)
     /\ triv' = [triv EXCEPT ![j + 1][q] = SubSeq(pc, 1, off) \o PieceCatalogue[p].text \o SubSeq(pc, off + 1, Len(pc))]
  /\ Logged([kind |-> "splitcomment", slot |-> j, piece |-> PieceCatalogue[p].name, pos |-> off])
  /\ UNCHANGED <<toks, ren, spans, commas, renames>> /\ Frame

\* index shifts caused by inserted tokens
ShiftP(i, a, b) == i + (IF i >= a THEN 1 ELSE 0) + (IF i > b THEN 1 ELSE 0)
SpanAfterParen(s, a, b) ==
  IF s[1] >= a /\ s[2] <= b THEN <<s[1] + 1, s[2] + 1>>          \* inside (or the span itself)
  ELSE IF s[1] <= a /\ s[2] >= b THEN <<s[1], s[2] + 2>>         \* around
  ELSE IF s[2] < a THEN s ELSE <<s[1] + 2, s[2] + 2>>
ShiftC(i, c) == IF i >= c THEN i + 1 ELSE i

Parenthesize(a, b) ==
  /\ More
  /\ <<a, b>> \in spans
  /\ LET tk1 == InsAt(toks, a, Tok("op", <<40>>, "paren"))                 \* `(` is token a, old a..b are a+1..b+1
         tk2 == InsAt(tk1, b + 2, Tok("op", <<41>>, "paren"))               \* `)` is token b+2
         tv1 == InsAt(triv, a + 1, <<>>)                                    \* empty slot after `(`
         tv2 == InsAt(tv1, b + 2, <<>>)                                     \* empty slot before `)` : slot b+1
     IN  /\ SlotsOK(tk2, tv2, {a - 1, a, b + 1, b + 2})
         /\ toks' = tk2 /\ triv' = tv2
  /\ spans' = {SpanAfterParen(s, a, b) : s \in spans} \cup {<<a, b + 2>>}
  /\ commas' = {ShiftP(c, a, b) : c \in commas}
  /\ Logged([kind |-> "paren", slot |-> a, piece |-> "", pos |-> b])
  /\ UNCHANGED <<ren, renames>> /\ Frame

TrailingComma(c) ==
  /\ More
  /\ c \in commas
  /\ LET tk1 == InsAt(toks, c, Tok("op", <<44>>, "comma"))                  \* `,` is token c, the closer c+1
         tv1 == InsAt(triv, c, <<>>)                                        \* empty slot c-1 between last element and `,`
     IN  /\ SlotsOK(tk1, tv1, {c - 1, c})
         /\ toks' = tk1 /\ triv' = tv1
  /\ spans' = {<<ShiftC(s[1], c), ShiftC(s[2], c)>> : s \in spans}
  /\ commas' = {ShiftC(d, c) : d \in commas \ {c}}
  /\ Logged([kind |-> "comma", slot |-> c, piece |-> "", pos |-> 0])
  /\ UNCHANGED <<ren, renames>> /\ Frame

RenameAll(r) ==
  /\ More
  /\ r \in renames
  /\ LET x == r[1]
         y == r[2]
         hit(i) == toks[i].k = "ident" /\ toks[i].lex = x
         tk1 == [i \in 1 .. Len(toks) |-> IF hit(i) THEN [toks[i] EXCEPT !.lex = y] ELSE toks[i]]
     IN  /\ \E i \in 1 .. Len(toks) : hit(i)
         /\ \/ "rename_unchecked" \in Faults
            \/ /\ Renamable(x) /\ Fresh(y, toks)
               /\ SlotsOK(tk1, triv, UNION {{i - 1, i} : i \in {h \in 1 .. Len(toks) : hit(h)}})
         /\ toks' = tk1
         /\ ren' = Append(ren, r)
  /\ renames' = {s \in renames : s[1] # r[1] /\ s[2] # r[2]}
  /\ Logged([kind |-> "rename", slot |-> 0, piece |-> "", pos |-> 0, from |-> r[1], to |-> r[2]])
  /\ UNCHANGED <<triv, spans, commas>> /\ Frame

Edit ==
  \/ \E j \in 0 .. Len(toks) : \E p \in PieceIds : \E q \in Positions(Len(triv[j + 1])) : InsertTrivia(j, p, q)
  \/ \E j \in 0 .. Len(toks) : \E q \in 1 .. Len(triv[j + 1]) : RemovePiece(j, q)
  \/ \E j \in 0 .. Len(toks) : RemoveTrivia(j)
  \/ \E j \in 0 .. Len(toks) : \E q \in 1 .. Len(triv[j + 1]) : \E off \in 2 .. 6 : \E p \in {3, 5, 7} : SplitLineComment(j, q, off, p)
  \/ \E s \in spans : Parenthesize(s[1], s[2])
  \/ \E c \in commas : TrailingComma(c)
  \/ \E r \in renames : RenameAll(r)

\* ---- the lemma ---------------------------------------------------------------------------------
LexLemma ==
  LET r == Render(toks, triv) IN TokensT(r.text, r.single) = Plain(toks)

ApplyRen(lex, rs) == FoldLeft(LAMBDA x, r : IF x = r[1] THEN r[2] ELSE x, lex, rs)

StructLemma ==
  LET kept == SelectSeq(toks, LAMBDA t : t.tag = "orig")
  IN  /\ Len(kept) = Len(orig)
      /\ \A i \in 1 .. Len(orig) :
           /\ kept[i].k = orig[i].k
           /\ kept[i].lex = (IF orig[i].k = "ident" THEN ApplyRen(orig[i].lex, ren) ELSE orig[i].lex)
      /\ \A i \in 1 .. Len(toks) : toks[i].tag # "orig" => toks[i].lex \in {<<40>>, <<41>>, <<44>>}
      /\ Len(triv) = Len(toks) + 1

\* ---- named facts about line comments (R2, R3 of Lexer.tla) -----------------------------------
LBs == {<<10>>, <<11>>, <<12>>, <<13>>, <<13, 10>>, <<133>>, <<8232>>, <<8233>>}
A1 == <<97>>  B1 == <<98>>  LC == <<47, 47, 99>>  SP == <<32>>
IdA == [k |-> "ident", lex |-> A1]  IdB == [k |-> "ident", lex |-> B1]  IdC == [k |-> "ident", lex |-> <<99>>]

\* every WGSL line break ends a line comment: a //c LB b  has tokens a b
ASSUME EveryLineBreakEndsALineComment ==
  \A lb \in LBs : Tokens(A1 \o LC \o lb \o B1) = <<IdA, IdB>>
\* without a line break the comment swallows what follows
ASSUME RemovingTheTerminatorIsNotNeutral ==
  \A lb \in LBs : Tokens(A1 \o LC \o SP \o B1) # Tokens(A1 \o LC \o lb \o B1)
\* a line break put inside a line comment frees the rest of the comment
ASSUME LineBreakInsideALineCommentIsNotNeutral ==
  \A lb \in LBs : Tokens(A1 \o <<47, 47>> \o lb \o <<99>> \o <<10>> \o B1) = <<IdA, IdC, IdB>>
\* blankspace that is not a line break does not end it
ASSUME OtherBlankspaceDoesNotEndALineComment ==
  \A c \in {32, 9, 8206, 8207} : Tokens(A1 \o LC \o <<c>> \o B1) = <<IdA>>
\* block comments nest and a `*/` look-alike does not close
ASSUME BlockCommentsNest ==
  /\ Tokens(A1 \o <<47, 42, 47, 42, 42, 47, 98, 42, 47>> \o B1) = <<IdA, IdB>>       \* a/*/**/b*/b
  /\ Tokens(A1 \o <<47, 42, 32, 42, 32, 47, 32, 42, 47>> \o B1) = <<IdA, IdB>>       \* a/* * / */b
  /\ Tokens(<<47, 42, 47, 42, 42, 47>>) = <<[k |-> "unterminated", lex |-> <<>>]>>     \* /*/**/

\* ---- initial states of the lemma configuration: small token sequences with the tricky adjacencies ----
T(k, lex) == [k |-> k, lex |-> lex, ts |-> 0, te |-> 0, tag |-> "orig"]
CoreAlphabet ==
  {T("op", <<62>>) (* > *),
   T("op", <<62, 62>>) (* >> *),
   T("op", <<62, 61>>) (* >= *),
   T("op", <<62, 62, 61>>) (* >>= *),
   T("op", <<61>>) (* = *),
   T("op", <<60>>) (* < *),
   T("op", <<60, 60>>) (* << *),
   T("op", <<45>>) (* - *),
   T("op", <<45, 45>>) (* -- *),
   T("op", <<45, 62>>) (* -> *),
   T("op", <<47>>) (* / *),
   T("op", <<42>>) (* * *),
   T("op", <<38>>) (* & *),
   T("ident", <<97>>) (* a *),
   T("ident", <<98, 49>>) (* b1 *),
   T("keyword", <<105, 102>>) (* if *),
   T("int", <<49>>) (* 1 *),
   T("int", <<49, 117>>) (* 1u *),
   T("float", <<49, 46, 53>>) (* 1.5 *),
   T("op", <<46>>) (* . *),
   T("ident", <<120>>) (* x *),
   [T("op", <<62>>) EXCEPT !.te = 1] (* > closing a template list *),
   [T("op", <<60>>) EXCEPT !.ts = 1] (* < opening a template list *)}
ExtraAlphabet ==
  {T("op", <<61, 61>>) (* == *),
   T("op", <<60, 61>>) (* <= *),
   T("op", <<60, 60, 61>>) (* <<= *),
   T("op", <<45, 61>>) (* -= *),
   T("op", <<43>>) (* + *),
   T("op", <<43, 43>>) (* ++ *),
   T("op", <<43, 61>>) (* += *),
   T("op", <<47, 61>>) (* /= *),
   T("op", <<42, 61>>) (* *= *),
   T("op", <<38, 38>>) (* && *),
   T("op", <<124>>) (* | *),
   T("op", <<124, 124>>) (* || *),
   T("op", <<33>>) (* ! *),
   T("op", <<33, 61>>) (* != *),
   T("op", <<95>>) (* _ *),
   T("int", <<48, 120, 49, 70>>) (* 0x1F *),
   T("float", <<49, 46>>) (* 1. *),
   T("float", <<46, 53>>) (* .5 *),
   T("float", <<49, 101, 51>>) (* 1e3 *),
   T("float", <<49, 102>>) (* 1f *),
   T("ident", <<101, 51>>) (* e3 *),
   T("ident", <<233, 49>>) (* e-acute 1 *),
   T("op", <<40>>) (* ( *),
   T("op", <<41>>) (* ) *),
   T("op", <<44>>) (* , *),
   T("op", <<59>>) (* ; *),
   T("op", <<37>>) (* % *),
   T("op", <<94>>) (* ^ *),
   T("ident", <<102>>) (* f *),
   T("ident", <<112, 49>>) (* p1 *),
   T("int", <<48>>) (* 0 *)}

MiniAlphabet == {t \in CoreAlphabet : t.ts = 0 /\ t.lex \in {<<97>>, <<98, 49>>, <<45>>, <<47>>, <<42>>, <<62>>, <<61>>, <<60>>, <<49>>, <<46>>}}
MicroAlphabet == {t \in CoreAlphabet : t.ts = 0 /\ t.te = 0 /\ t.lex \in {<<97>>, <<45>>, <<47>>, <<42>>, <<49>>}}
Alphabet == IF AlphabetSel = "full" THEN CoreAlphabet \cup ExtraAlphabet
            ELSE IF AlphabetSel = "mini" THEN MiniAlphabet
            ELSE IF AlphabetSel = "micro" THEN MicroAlphabet ELSE CoreAlphabet

\* the adjacencies the property names, as an explicit list (initial states of the quick configuration)
TrickyPairs ==
  {
   <<T("op", <<62>>), T("op", <<62>>)>> (* > > *),
   <<T("op", <<62>>), T("op", <<61>>)>> (* > = *),
   <<T("op", <<62>>), T("op", <<62, 61>>)>> (* > >= *),
   <<T("op", <<62, 62>>), T("op", <<61>>)>> (* >> = *),
   <<[T("op", <<62>>) EXCEPT !.te = 1], T("op", <<62>>)>> (* >te > *),
   <<[T("op", <<62>>) EXCEPT !.te = 1], T("op", <<61>>)>> (* >te = *),
   <<[T("op", <<62>>) EXCEPT !.te = 1], T("op", <<62, 61>>)>> (* >te >= *),
   <<[T("op", <<62>>) EXCEPT !.te = 1], [T("op", <<62>>) EXCEPT !.te = 1]>> (* >te >te *),
   <<[T("op", <<62>>) EXCEPT !.te = 1], T("op", <<62, 62, 61>>)>> (* >te >>= *),
   <<T("op", <<60>>), T("op", <<60>>)>> (* < < *),
   <<T("op", <<60>>), T("op", <<61>>)>> (* < = *),
   <<T("op", <<60, 60>>), T("op", <<61>>)>> (* << = *),
   <<T("ident", <<97>>), [T("op", <<60>>) EXCEPT !.ts = 1]>> (* a <ts *),
   <<[T("op", <<60>>) EXCEPT !.ts = 1], T("op", <<60>>)>> (* <ts < *),
   <<T("op", <<45>>), T("op", <<45>>)>> (* - - *),
   <<T("op", <<45>>), T("op", <<62>>)>> (* - > *),
   <<T("op", <<45>>), T("op", <<61>>)>> (* - = *),
   <<T("op", <<45>>), T("op", <<45, 45>>)>> (* - -- *),
   <<T("op", <<45, 45>>), T("op", <<45>>)>> (* -- - *),
   <<T("op", <<47>>), T("op", <<42>>)>> (* / * *),
   <<T("op", <<47>>), T("op", <<47>>)>> (* / / *),
   <<T("op", <<42>>), T("op", <<47>>)>> (* * / *),
   <<T("op", <<47>>), T("op", <<61>>)>> (* / = *),
   <<T("op", <<38>>), T("op", <<38>>)>> (* & & *),
   <<T("op", <<61>>), T("op", <<61>>)>> (* = = *),
   <<T("ident", <<97>>), T("ident", <<98, 49>>)>> (* a b1 *),
   <<T("ident", <<97>>), T("int", <<49>>)>> (* a 1 *),
   <<T("int", <<49>>), T("ident", <<97>>)>> (* 1 a *),
   <<T("int", <<49>>), T("op", <<46>>)>> (* 1 . *),
   <<T("op", <<46>>), T("int", <<49>>)>> (* . 1 *),
   <<T("int", <<49>>), T("int", <<49, 117>>)>> (* 1 1u *),
   <<T("float", <<49, 46, 53>>), T("ident", <<120>>)>> (* 1.5 x *),
   <<T("int", <<49, 117>>), T("ident", <<120>>)>> (* 1u x *),
   <<T("ident", <<120>>), T("op", <<46>>)>> (* x . *),
   <<T("op", <<46>>), T("ident", <<120>>)>> (* . x *),
   <<T("keyword", <<105, 102>>), T("ident", <<97>>)>> (* if a *),
   <<T("ident", <<97>>), T("keyword", <<105, 102>>)>> (* a if *),
   <<T("float", <<49, 46, 53>>), T("op", <<46>>)>> (* 1.5 . *),
   <<T("int", <<49>>), T("float", <<49, 46, 53>>)>> (* 1 1.5 *)
  }

InitSeqs ==
  IF AlphabetSel = "pairs" THEN TrickyPairs ELSE
  IF AlphabetSel = "two" THEN {<<a, b>> : a \in {T("op", <<45>>), T("op", <<47>>), T("ident", <<97>>)}, b \in {T("op", <<45>>), T("op", <<42>>), T("int", <<49>>)}} ELSE
  IF AlphabetSel = "twice" THEN {<<a, b>> : a \in {T("op", <<45>>), T("op", <<47>>)}, b \in {T("op", <<45>>), T("op", <<42>>)}} ELSE
  IF AlphabetSel = "microtriples" THEN {<<a, b, c>> : a \in MicroAlphabet, b \in MicroAlphabet, c \in MicroAlphabet} ELSE
  IF AlphabetSel = "triples"
  THEN {<<a, b, c>> : a \in CoreAlphabet, b \in CoreAlphabet, c \in CoreAlphabet}
  ELSE {<<a, b>> : a \in Alphabet, b \in Alphabet}

\* separators: a space, a line comment with its line break, a space and a block comment (a sequence is an
\* initial state only if it re-lexes to itself with the separator: `/` followed by `// c` does not)
InitSeps == {<< <<32>> >>, << <<47, 47, 32, 99, 32, 100, 10>> >>, << <<32>>, <<47, 42, 32, 99, 32, 42, 47>> >>}

QuickSeps == {<< <<32>> >>, << <<47, 47, 32, 99, 32, 100, 10>> >>}

FreshCandidates == {<<122, 113, 55>> (* zq7 *), <<105, 102>> (* if: not fresh *), <<233, 768>> (* e-acute + combining grave *)}

Init ==
  /\ \E s \in InitSeqs : \E sep \in (IF AlphabetSel = "pairs" THEN QuickSeps ELSE IF AlphabetSel = "twice" THEN {<< <<32>> >>} ELSE InitSeps) :
       /\ toks = s
       /\ triv = (IF Len(s) = 2 THEN <<<<>>, sep, <<>>>> ELSE <<<<>>, sep, sep, <<>>>>)
       /\ orig = s
       /\ spans = {<<1, 1>>, <<1, Len(s)>>, <<Len(s), Len(s)>>}
       /\ commas = {Len(s)}
       /\ renames = {<<s[i].lex, y>> : i \in {h \in 1 .. Len(s) : s[h].k = "ident"}, y \in FreshCandidates}
       /\ LET r == Render(toks, triv) IN TokensT(r.text, r.single) = Plain(toks)
  /\ ren = <<>> /\ log = <<>> /\ pid = 0

Next == Edit
Spec == Init /\ [][Next]_vars
=============================================================================
