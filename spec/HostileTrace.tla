---------------------------- MODULE HostileTrace ----------------------------
(***************************************************************************)
(* Trace validation for HostileProto.tla.  The harness runs every input of *)
(* the Hostile.tla input-space model through the public entry points in an *)
(* isolated worker process and records one event per call:                 *)
(*   {"ev":"input","id":n,"size":bytes}                                    *)
(*   {"ev":"call","id":n,"stage":s,"out":o,"cpu":ms,"rss":MiB,"outb":b,    *)
(*    "alloc":MiB}                                                         *)
(*   {"ev":"end","id":n}                                                   *)
(* Each event is checked against the guards of the protocol (Outcome,      *)
(* Order, Cost, Complete); a failed rule does not stop the run: it is      *)
(* recorded in `bad` with the line number, and the whole file is consumed. *)
(* Rules whose text starts with "harness:" are about the monitor itself    *)
(* (a machinery failure, never a verdict about naga).                      *)
(***************************************************************************)
EXTENDS HostileProto, Json, SequencesExt

Trace == ndJsonDeserialize("trace.ndjson")

VARIABLES l, bad, cur, died
tvars == <<pvars, l, bad, cur, died>>

TInit == l = 1 /\ bad = <<>> /\ cur = -1 /\ cls = 0 /\ okset = {} /\ ran = {} /\ calls = <<>> /\ died = FALSE

Ev == Trace[l]
IsEvent(e) == l <= Len(Trace) /\ Ev.ev = e /\ l' = l + 1
B(cond, rule) == IF cond THEN <<[l |-> l, rule |-> rule]>> ELSE <<>>

TraceInput ==
  /\ IsEvent("input")
  /\ cur' = Ev.id /\ cls' = SizeClass(Ev.size) /\ okset' = {} /\ ran' = {} /\ died' = FALSE /\ UNCHANGED calls
  /\ bad' = bad \o B(cur # -1, "harness: input started before the previous one ended")
                \o B(Ev.size > MaxBytes, "harness: input larger than 64 KiB")

TraceCall ==
  /\ IsEvent("call")
  /\ LET st == Ev.stage
         known == st \in Stages /\ Ev.out \in Outcomes
         cost == [cpu |-> Ev.cpu, rss |-> Ev.rss, out |-> Ev.outb, alloc |-> Ev.alloc]
         e == Env(cls)
     IN /\ ran' = ran \cup {st}
        /\ okset' = IF Ev.out = "ok" THEN okset \cup {st} ELSE okset
        /\ died' = (died \/ Ev.out \in Died)
        /\ bad' = bad \o B(Ev.id # cur, "harness: call outside its input")
                      \o B(~known, "harness: unknown stage or outcome")
                      \o B(known /\ ~(Requires(st) \subseteq okset), "harness: Order: stage called although a prerequisite did not return ok")
                      \o B(known /\ st \in ran /\ st \notin Backends, "harness: stage called twice")
                      \o B(known /\ Ev.out \notin Good, "Outcome: the call ended in " \o Ev.out)
                      \o B(cost.cpu > e.cpu, "Cost: cpu time above the envelope")
                      \o B(cost.rss > e.rss, "Cost: peak resident set above the envelope")
                      \o B(cost.out > e.out, "Cost: output size above the envelope")
                      \o B(cost.alloc > e.alloc, "Cost: heap allocation above the envelope")
  /\ UNCHANGED <<cur, cls, calls>>

TraceEndInput ==
  /\ IsEvent("end")
  /\ bad' = bad \o B(Ev.id # cur, "harness: end outside its input")
                \o B(~died /\ \E st \in Stages : Requires(st) \subseteq okset /\ st \notin ran,
                     "harness: Complete: an enabled stage was not called")
  /\ cur' = -1
  /\ UNCHANGED <<pvars, died>>

\* after the last line: print the verdicts
TraceEnd ==
  /\ l = Len(Trace) + 1
  /\ l' = l + 1
  /\ PrintT("@@" \o ToJson([consumed |-> Len(Trace), bad |-> bad, env |-> <<Env(0), Env(1), Env(2)>>, maxbytes |-> MaxBytes]))
  /\ UNCHANGED <<pvars, bad, cur, died>>

TNext == TraceInput \/ TraceCall \/ TraceEndInput \/ TraceEnd
TSpec == TInit /\ [][TNext]_tvars

\* the machinery's own sanity condition: the whole file was consumed
Consumed == TLCGet("stats").diameter >= Len(Trace) + 2

=============================================================================
