-------------------------------- MODULE Naga --------------------------------
(***************************************************************************)
(* The compilation pipeline of gogpu/naga as a protocol (property C08:     *)
(* "valid programs are accepted by every stage and every backend").        *)
(*                                                                         *)
(* One behaviour of this machine is everything that is done to ONE         *)
(* program through the public API (DESIGN.md section 1):                   *)
(*                                                                         *)
(*   Tokenize  wgsl.NewLexer(src).Tokenize                                 *)
(*   Parse     wgsl.NewParser(tokens).Parse                                *)
(*   Lower     naga.LowerWithSource(ast, src)                              *)
(*   Validate  naga.Validate(m)            (ir.Validate)                   *)
(*   OneCall   naga.CompileWithOptions(src, {SPIRVVersion 1.3, Validate})  *)
(*   Backend   spirv.Backend.Compile / hlsl.Compile / msl.Compile(With-    *)
(*             Pipeline) / glsl.Compile  for one (backend, option set,     *)
(*             entry point or "*" = whole module)                          *)
(*                                                                         *)
(* Every action has an outcome "ok" or "err".  A later stage of the front  *)
(* end runs only when the earlier one returned ok; backends and Validate   *)
(* need a lowered module; OneCall starts from the source text again.       *)
(*                                                                         *)
(* THE PROPERTY (Accepted): for a program the generator marks WellTyped    *)
(* (valid by construction: AcceptGen.tla states the validity conditions    *)
(* its builder maintains), every action the program's `claim` covers has   *)
(* outcome ok - for every entry point and every option set that is         *)
(* Expressible for the features the program (the entry point) uses.        *)
(* Composed: the one-call API agrees with the composition of its stages.   *)
(*                                                                         *)
(* `claim` is the set of action groups for which acceptance is claimed:    *)
(* generated programs claim everything; a corpus shader claims "front",    *)
(* "validate" when the Rust-naga reference contains any output for it and  *)
(* a backend only when snapshot/testdata/reference/<backend>/ has output   *)
(* for it (independent evidence that the reference implementation accepts  *)
(* the shader for that target).                                            *)
(*                                                                         *)
(* Faults is the set of seeded faults ({} in every real check): each makes *)
(* the modelled implementation reject something valid, and the self-test   *)
(* configuration shows TLC reports Accepted violated for each.             *)
(***************************************************************************)
EXTENDS Integers, Sequences, FiniteSets, TLC

CONSTANTS Faults,           \* seeded faults ({} in every real check)
          MaxBackendCalls   \* design-level bound on the number of backend calls per program

FrontStages == <<"tokenize", "parse", "lower">>
Outcomes == {"ok", "err"}
BackendNames == {"spv", "hlsl", "msl", "glsl"}
StageNames == {"vertex", "fragment", "compute"}

(***************************************************************************)
(* Feature vocabulary.  A program (and each entry point: the features it   *)
(* statically uses, through calls too) carries a set of these strings.     *)
(*   uniform_buffer storage_buffer storage_rw atomics workgroup barrier    *)
(*   private texture depth_texture sampler storage_texture image_query     *)
(*   sample_implicit derivative derivative_control discard array_length    *)
(*   f16 f64 i64 override sample_rate invariant group_nonzero              *)
(*   exotic   = anything outside this vocabulary (ray queries, subgroups,   *)
(*              binding arrays, mesh stages, push constants, 1D/cube-array *)
(*              /multisampled/external textures, dual-source blending,     *)
(*              barycentrics, clip distances, 64-bit atomics ...): only    *)
(*              the shader's own reference option set is claimed.          *)
(***************************************************************************)

(***************************************************************************)
(* Option-set catalogue (DESIGN.md appendix C).  Only the properties that  *)
(* decide expressibility are modelled:                                     *)
(*   v    language / binary version as an integer (SPIR-V 1.3 = 13, SM 5.1 *)
(*        = 51, MSL 2.1 = 21, GLSL 4.30 = 430, ES 3.10 = 310)              *)
(*   es   GLSL ES profile                                                  *)
(*   pc   pipeline constants are supplied with the call (overrides can be  *)
(*        resolved by the backend)                                         *)
(*   caps "all" | "basic": spirv.Options.CapabilitiesAvailable restricted  *)
(*        to the capabilities every Vulkan 1.0 device has                  *)
(* The remaining fields of an option set (debug info, loop bounding, zero  *)
(* initialisation, bounds-check policies, binding maps, writer flags ...)  *)
(* never make a program inexpressible.                                     *)
(***************************************************************************)
O(n, v) == [name |-> n, v |-> v, es |-> FALSE, pc |-> FALSE, caps |-> "all"]
Catalogue ==
  [spv  |-> {O("default", 11), O("v1.0", 10), O("v1.2", 12), O("v1.3", 13), O("v1.4", 14), O("v1.6", 16), O("debug", 11),
             O("noloopbound", 11), O("v1.5debug", 15), O("onecall", 13), O("caps", 11), O("nostorage16", 11),
             O("bounds_restrict", 11), O("bounds_rzsw", 13), O("pointsize_adjust", 11),
             [O("capsavail", 13) EXCEPT !.caps = "basic"]},
   hlsl |-> {O("default", 51), O("sm50", 50), O("sm60", 60), O("sm62", 62), O("sm66", 66), O("norestrict", 51),
             O("noloopbound", 51), O("nozero", 51), O("bindmap", 51)},
   msl  |-> {O("default", 21), O("v1.2", 12), O("v2.0", 20), O("v2.3", 23), O("v2.4", 24), O("v3.0", 30), O("v3.1", 31),
             O("restrict", 21), O("rzsw", 21), O("unchecked", 21), O("nozero", 21), O("noloopbound", 21), O("fake", 21),
             O("pointsize", 21), [O("pc", 21) EXCEPT !.pc = TRUE]},
   glsl |-> {O("330", 330), O("400", 400), O("420", 420), O("430", 430), O("450", 450), O("460", 460),
             [O("es300", 300) EXCEPT !.es = TRUE], [O("es310", 310) EXCEPT !.es = TRUE], [O("es320", 320) EXCEPT !.es = TRUE],
             O("bindmap", 430), O("bases", 450), O("flags", 430), [O("lowp", 310) EXCEPT !.es = TRUE], O("bounds", 430),
             [O("pc", 430) EXCEPT !.pc = TRUE]}]

\* the option set of the shader's own reference configuration (corpus): its properties travel with the event
IsRef(o) == o.name = "ref"

(***************************************************************************)
(* Expressible(F, stages, b, o): the option set o of backend b is able to  *)
(* express a program (entry point) of the given stages that uses features  *)
(* F.  Conservative on purpose: when it is not certain that the target     *)
(* language version has the feature the clause says NOT expressible, so    *)
(* no false alarm is raised; each clause names its source.                 *)
(***************************************************************************)
GlslCompute(o)   == IF o.es THEN o.v >= 310 ELSE o.v >= 430   \* compute stage, SSBOs, atomics, shared, barrier, image load/store
                                                               \* GLSL 4.30 (ARB_compute_shader, ARB_shader_storage_buffer_object core), ES 3.10
GlslSampleRate(o) == IF o.es THEN o.v >= 320 ELSE o.v >= 400  \* gl_SampleID / gl_SampleMask / `sample` qualifier: GLSL 4.00, ES 3.20

Expressible(F, stages, b, o) ==
  /\ ("exotic" \in F => IsRef(o))
  /\ CASE b = "glsl" ->
            /\ F \cap {"f16", "f64", "i64"} = {}                 \* no 16/64-bit scalar types in the GLSL versions targeted
            /\ ("compute" \in stages => GlslCompute(o))
            /\ (F \cap {"storage_buffer", "storage_rw", "atomics", "workgroup", "barrier", "array_length", "storage_texture"} # {}
                  => GlslCompute(o))                              \* image load/store is 4.20 on desktop; 4.30 is required here (imageSize)
            /\ ("derivative_control" \in F => (~o.es /\ o.v >= 450)) \* dFdxFine/Coarse: GLSL 4.50 (ARB_derivative_control), absent from ES
            /\ ("sample_rate" \in F => GlslSampleRate(o))
            /\ ("override" \in F => o.pc)                        \* glsl.Options.PipelineConstants resolves overrides
       [] b = "hlsl" ->
            /\ ("f16" \in F => o.v >= 62)                        \* native 16-bit types: SM 6.2
            /\ ("i64" \in F => o.v >= 60)                        \* int64_t: SM 6.0
            /\ ("group_nonzero" \in F => o.v >= 51)              \* register spaces: SM 5.1
            /\ "override" \notin F                               \* hlsl.Options has no pipeline constants: caller resolves first
       [] b = "msl" ->
            /\ "f64" \notin F                                    \* MSL has no double
            /\ ("i64" \in F => o.v >= 23)                        \* 64-bit integers: conservative (MSL 2.2+)
            /\ ("invariant" \in F => o.v >= 21)                  \* [[invariant]]: MSL 2.1
            /\ ("override" \in F => o.pc)                        \* msl.Options.PipelineConstants
       [] b = "spv" ->
            /\ "override" \notin F                               \* spirv.Options has no pipeline constants: caller resolves first
            /\ (o.caps = "basic" => F \cap {"f16", "f64", "i64"} = {})  \* Float16/Float64/Int64 are optional capabilities
       [] OTHER -> FALSE

(***************************************************************************)
(* Programs.  eps: sequence of [n: name, st: stage, f: features used].     *)
(***************************************************************************)
StagesOf(p) == {p.eps[i].st : i \in 1 .. Len(p.eps)}
EntryNames(p) == {p.eps[i].n : i \in 1 .. Len(p.eps)}
EntryRec(p, n) == CHOOSE e \in {p.eps[i] : i \in 1 .. Len(p.eps)} : e.n = n
\* what a call on entry `ep` ("*" = whole module) has to express.  Whole-module backends translate every global of the
\* module whichever entry point is selected, so only GLSL (which emits what the entry point reaches) is judged per entry.
NeedF(p, b, ep) == IF ep = "*" \/ b # "glsl" THEN p.feats ELSE p.feats \cap (EntryRec(p, ep).f \cup {"exotic", "override"})
NeedStages(p, b, ep) == IF ep = "*" THEN StagesOf(p) ELSE {EntryRec(p, ep).st}
CallExpressible(p, b, o, ep) == Expressible(NeedF(p, b, ep), NeedStages(p, b, ep), b, o)
\* entry points a backend is called with: GLSL translates one entry point per call; the others the whole module ("*")
\* and, for hlsl / msl, each entry point selected on its own
EntriesFor(p, b) == CASE b = "glsl" -> EntryNames(p)
                      [] b = "spv" -> {"*"}
                      [] OTHER -> {"*"} \cup EntryNames(p)

(***************************************************************************)
(* The protocol state of one program.                                      *)
(***************************************************************************)
VARIABLES prog,    \* the program under compilation
          fe,      \* outcome of the front-end stages and Validate: "none" | "ok" | "err"
          one,     \* outcome of the one-call API
          calls    \* backend calls done: set of <<backend, option-set name, entry point, outcome>>
vars == <<prog, fe, one, calls>>

NoFe == [tokenize |-> "none", parse |-> "none", lower |-> "none", validate |-> "none"]
Start(p) == prog = p /\ fe = NoFe /\ one = "none" /\ calls = {}

Prev(s) == CASE s = "tokenize" -> "ok" [] s = "parse" -> fe.tokenize [] s = "lower" -> fe.parse [] s = "validate" -> fe.lower
MayStage(s) == fe[s] = "none" /\ Prev(s) = "ok"
DoStage(s, o) == MayStage(s) /\ fe' = [fe EXCEPT ![s] = o] /\ UNCHANGED <<prog, one, calls>>
MayOneCall == one = "none"
DoOneCall(o) == MayOneCall /\ one' = o /\ UNCHANGED <<prog, fe, calls>>
Called(b, n, ep) == <<b, n, ep, "ok">> \in calls \/ <<b, n, ep, "err">> \in calls
MayBackend(b, o, ep) == fe.lower = "ok" /\ ~Called(b, o.name, ep)
DoBackend(b, o, ep, out) == MayBackend(b, o, ep) /\ calls' = calls \cup {<<b, o.name, ep, out>>}
                            /\ UNCHANGED <<prog, fe, one>>

(***************************************************************************)
(* The property.                                                           *)
(***************************************************************************)
Claimed(g) == prog.wt /\ g \in prog.claim
GroupOf(s) == IF s = "validate" THEN "validate" ELSE "front"
\* an outcome that contradicts the property
StageViolates(s, out) == Claimed(GroupOf(s)) /\ out = "err"
\* a backend may be claimed as a whole ("glsl") or for single entry points ("glsl:main": the reference has output for that one)
ClaimedCall(b, ep) == prog.wt /\ (b \in prog.claim \/ (b \o ":" \o ep) \in prog.claim)
BackendViolates(b, o, ep, out) == ClaimedCall(b, ep) /\ CallExpressible(prog, b, o, ep) /\ out = "err"
StageAccepted(s) == ~StageViolates(s, fe[s])
\* a recorded call is judged through the catalogue entry of its option set (the corpus shaders' own "ref" sets are
\* judged when the call is observed: their properties travel with the event)
Named(b, n) == {o \in Catalogue[b] : o.name = n}
BackendAccepted(c) == \A o \in Named(c[1], c[2]) : ~BackendViolates(c[1], o, c[3], c[4])
\* the one-call API compiles with SPIR-V 1.3, no extra options (catalogue entry "onecall")
OneCallOpt == CHOOSE o \in Catalogue.spv : o.name = "onecall"
OneCallViolates(out) == /\ Claimed("front") /\ Claimed("validate") /\ Claimed("spv")
                        /\ CallExpressible(prog, "spv", OneCallOpt, "*") /\ out = "err"
OneCallAccepted == ~OneCallViolates(one)
Accepted == /\ \A s \in {"tokenize", "parse", "lower", "validate"} : StageAccepted(s)
            /\ \A c \in calls : BackendAccepted(c)
            /\ OneCallAccepted
\* the one-call API is the composition of its stages (naga.go): once everything it is made of has been observed, it
\* succeeded exactly if all of them did
FeStages == {"tokenize", "parse", "lower", "validate"}
FeOK == \A s \in FeStages : fe[s] = "ok"
FeDone == FeOK \/ \E s \in FeStages : fe[s] = "err"
OneCallSpv == {c \in calls : c[1] = "spv" /\ c[2] = "onecall" /\ c[3] = "*"}
\* everything the one-call API is made of has been observed
PartsObserved == FeDone /\ (FeOK => OneCallSpv # {})
Composed == (one # "none" /\ PartsObserved) => ((one = "ok") = (FeOK /\ \A c \in OneCallSpv : c[4] = "ok"))

(***************************************************************************)
(* Design level: a (possibly faulty) implementation chooses the outcomes.  *)
(* A correct implementation accepts what the property covers and may do    *)
(* anything elsewhere; each seeded fault makes it reject something valid.  *)
(***************************************************************************)
FaultHits(kind, b, o, ep) ==
  \/ "validator_rejects_switch_break" \in Faults /\ kind = "validate" /\ "switch_break_noloop" \in prog.feats
  \/ "validator_bindings_module_wide" \in Faults /\ kind = "validate" /\ "binding_reused_across_entries" \in prog.feats
  \/ "lowerer_rejects_shadowing" \in Faults /\ kind = "lower" /\ "shadowing" \in prog.feats
  \/ "glsl_rejects_storage_texture" \in Faults /\ kind = "backend" /\ b = "glsl" /\ "storage_texture" \in NeedF(prog, b, ep)
  \/ "backend_rejects_second_entry" \in Faults /\ kind = "backend" /\ ep # "*" /\ Len(prog.eps) > 1 /\ ep = prog.eps[2].n
  \/ "onecall_fails" \in Faults /\ kind = "onecall"
ImplStage(s) == IF FaultHits(s, "", OneCallOpt, "*") THEN {"err"}
                ELSE IF Claimed(GroupOf(s)) THEN {"ok"} ELSE Outcomes
ImplBackend(b, o, ep) == IF FaultHits("backend", b, o, ep) THEN {"err"}
                         ELSE IF ClaimedCall(b, ep) /\ CallExpressible(prog, b, o, ep) THEN {"ok"} ELSE Outcomes
\* the real one-call API is the composition of the stages; the modelled one too (plus its own fault)
ImplOneCall == IF FaultHits("onecall", "", OneCallOpt, "*") THEN {"err"}
               ELSE IF FeOK /\ \A c \in OneCallSpv : c[4] = "ok" THEN {"ok"} ELSE {"err"}

\* sample programs for the design-level check (feature sets that exercise every clause of Expressible)
E(n, st, f) == [n |-> n, st |-> st, f |-> f]
AllClaims == {"front", "validate", "spv", "hlsl", "msl", "glsl"}
P(f, eps) == [wt |-> TRUE, claim |-> AllClaims, feats |-> f, eps |-> eps, sel |-> {}]
MCProgs ==
  {P({"storage_buffer", "storage_rw", "switch_break_noloop", "shadowing"}, <<E("main", "compute", {"storage_buffer", "storage_rw"})>>),
   P({"uniform_buffer", "texture", "sampler", "sample_implicit", "storage_texture", "binding_reused_across_entries"},
     <<E("vs", "vertex", {"uniform_buffer"}), E("fs", "fragment", {"texture", "sampler", "sample_implicit", "storage_texture"})>>),
   P({"f16", "override", "exotic", "invariant", "derivative_control", "sample_rate"},
     <<E("fs", "fragment", {"f16", "derivative_control", "sample_rate"})>>),
   [P({"storage_buffer"}, <<E("main", "compute", {"storage_buffer"})>>) EXCEPT !.wt = FALSE],
   [P({"texture"}, <<E("fs", "fragment", {"texture"})>>) EXCEPT !.claim = {"front", "msl", "glsl:fs"}]}
\* a few option sets per backend are enough for the protocol (the clauses of Expressible are exercised by the trace spec)
MCOpts(b) == {o \in Catalogue[b] : o.name \in {"onecall", "capsavail", "sm50", "pc", "330", "es310", "450"}}

Init == \E p \in MCProgs : Start(p)
Next ==
  \/ \E s \in {"tokenize", "parse", "lower", "validate"} : \E o \in ImplStage(s) : DoStage(s, o)
  \/ (PartsObserved /\ \E o \in ImplOneCall : DoOneCall(o))
  \/ \E b \in BackendNames : \E o \in MCOpts(b) : \E ep \in EntriesFor(prog, b) : \E out \in ImplBackend(b, o, ep) :
       (Cardinality(calls) < MaxBackendCalls /\ DoBackend(b, o, ep, out))
Spec == Init /\ [][Next]_vars

TypeOK == /\ \A s \in DOMAIN fe : fe[s] \in Outcomes \cup {"none"}
          /\ one \in Outcomes \cup {"none"}
          /\ \A c \in calls : c[1] \in BackendNames /\ c[4] \in Outcomes
\* protocol: a stage has an outcome only if the stage before it succeeded; backends ran on a lowered module
Ordered == /\ \A s \in {"parse", "lower", "validate"} : fe[s] # "none" => Prev(s) = "ok"
           /\ calls # {} => fe.lower = "ok"
\* Expressible is monotone in the feature set: using fewer features never makes a program inexpressible
\* (checked on the sample programs; it is what makes over-approximated feature sets conservative)
Monotone == \A p \in MCProgs : \A b \in BackendNames : \A o \in Catalogue[b] : \A F \in SUBSET p.feats :
              Expressible(p.feats, StagesOf(p), b, o) => Expressible(F, StagesOf(p), b, o)
ASSUME Monotone
=============================================================================
