------------------------------- MODULE IrSem -------------------------------
(***************************************************************************)
(* An executable abstract machine for naga IR (one invocation of a compute *)
(* entry point), consuming the JSON transcription of a real *ir.Module     *)
(* (harness/irjson).  It is the oracle of C13: a pass p preserves          *)
(* behaviour iff  Run(p(m), ep, input) = Run(m, ep, input)  on every input *)
(* row for which Run(m) is decided.                                        *)
(*                                                                         *)
(* Sources of the rules: the doc comments of /repo/ir/{ir,expression,      *)
(* statement}.go (naga IR = Rust naga's IR: expression arena in SSA form,  *)
(* values become available at Emit statements, structured statements),     *)
(* WGSL for the value layer (Word32.tla / F32.tla, the same run-time rules *)
(* WgslSem.tla uses), and the documentation of the DXIL-internal kinds     *)
(* ExprAlias / ExprPhi in ir/expression.go.                                *)
(*                                                                         *)
(* Module M (JSON): types consts globals gexprs fns eps.  Handles are      *)
(* 0-based in the JSON; sequences here are 1-based (handle + 1).           *)
(*                                                                         *)
(* Part 1  static layer: type table, expression typing.  An expression has *)
(*         a type record, or [k |-> "unk"] (outside the covered fragment:  *)
(*         the row is undecided when it is evaluated) or [k |-> "bad"]     *)
(*         (ill-formed: a handle out of range, an operand of the wrong     *)
(*         shape).  WFErrors(P) lists every ill-formed spot: this is the   *)
(*         structural well-formedness statement of C13.                    *)
(* Part 2  value layer: scalar / vector / matrix operations.               *)
(* Part 3  the evaluator.                                                  *)
(*                                                                         *)
(* Evaluation discipline (ir/statement.go StmtEmit, ir/compact.go          *)
(* isPreEmitExpression):                                                   *)
(*  - Literal Constant Override ZeroValue GlobalVariable LocalVariable     *)
(*    FunctionArgument need no Emit: evaluated where used.                 *)
(*  - Alias is transparent (the DXIL emitter returns the source's value).  *)
(*  - every other expression covered by some Emit of the function is       *)
(*    evaluated when that Emit executes, in handle order, and its value is *)
(*    kept; using it before that is "stuck:use-before-emit".               *)
(*  - an expression covered by NO Emit (the inliner leaves the load of its *)
(*    return slot like that; the consumers evaluate on demand) is          *)
(*    evaluated at each use.                                               *)
(*  - CallResult / AtomicResult become available when their statement      *)
(*    executes.                                                            *)
(*  - Phi takes the incoming value keyed by the structured edge along      *)
(*    which control reached the Emit that covers it (the branch of the     *)
(*    preceding If, the last executed case of the preceding Switch, loop   *)
(*    entry / back edge).                                                  *)
(***************************************************************************)
EXTENDS F32, Layout, TLC

Bad == [k |-> "bad"]
Unk == [k |-> "unk"]
TBoolI == [k |-> "bool"]
TU32I  == [k |-> "u32"]

ScalarKs == {"i32", "u32", "f32", "bool"}
IsSc(t)  == t.k \in ScalarKs
IsVec(t) == t.k = "vec"
IsMat(t) == t.k = "mat"
IsUnk(t) == t.k = "unk"
IsBad(t) == t.k = "bad"
IsPtr(t) == t.k = "ptr"
IsNum(t) == IsSc(t) \/ IsVec(t) \/ IsMat(t)
SKI(t) == IF t.k \in {"vec", "mat", "atomic"} THEN t.e.k ELSE t.k
VecTy(n, sk) == [k |-> "vec", n |-> n, e |-> [k |-> sk]]
InR(h, n) == h >= 0 /\ h < n

(***************************************************************************)
(* Part 1a: the type table.  Arena types refer to other arena types by     *)
(* handle; a chain deeper than 12 (or cyclic) is "bad".                    *)
(***************************************************************************)
KnownSk(sk) == IF sk \in ScalarKs THEN [k |-> sk] ELSE Unk

RECURSIVE TyOf(_, _, _)
TyOf(M, th, d) ==
  IF ~InR(th, Len(M.types)) \/ d > 12 THEN Bad
  ELSE LET t == M.types[th + 1] IN
    CASE t.k = "scalar" -> KnownSk(t.sk)
      [] t.k = "vec"    -> IF t.sk \in ScalarKs /\ t.n \in 2 .. 4 THEN VecTy(t.n, t.sk) ELSE Unk
      [] t.k = "mat"    -> IF t.sk = "f32" /\ t.c \in 2 .. 4 /\ t.r \in 2 .. 4
                           THEN [k |-> "mat", c |-> t.c, r |-> t.r, e |-> [k |-> "f32"]] ELSE Unk
      [] t.k = "atomic" -> IF t.sk \in {"i32", "u32"} THEN [k |-> "atomic", e |-> [k |-> t.sk]] ELSE Unk
      [] t.k = "arr"    -> LET e == TyOf(M, t.base, d + 1) IN
                           IF IsBad(e) THEN Bad ELSE IF IsUnk(e) THEN Unk
                           ELSE [k |-> "arr", e |-> e, n |-> t.n, stride |-> t.stride]
      [] t.k = "struct" -> LET ms == [i \in 1 .. Len(t.ms) |-> [name |-> t.ms[i].name, ty |-> TyOf(M, t.ms[i].ty, d + 1), off |-> t.ms[i].off]] IN
                           IF \E i \in 1 .. Len(ms) : IsBad(ms[i].ty) THEN Bad
                           ELSE IF \E i \in 1 .. Len(ms) : IsUnk(ms[i].ty) THEN Unk
                           ELSE [k |-> "struct", name |-> t.name, ms |-> ms, span |-> t.span]
      [] t.k = "ptr"    -> LET e == TyOf(M, t.base, d + 1) IN
                           IF IsBad(e) THEN Bad ELSE IF IsUnk(e) THEN Unk ELSE [k |-> "ptr", space |-> t.space, e |-> e]
      [] OTHER          -> Unk

\* TLC keeps a function constructor as a closure and re-evaluates its body at every application: Force turns a
\* sequence-valued constructor into a tuple (each element evaluated once)
Force(s) == s \o <<>>
TypeTable(M) == Force([i \in 1 .. Len(M.types) |-> TyOf(M, i - 1, 0)])
\* P: the prepared module (M plus the tables computed once per module)
TT(P, th) == IF InR(th, Len(P.T)) THEN P.T[th + 1] ELSE Bad

\* value types may be compared structurally; "unk" is compatible with everything
Compat(a, b) == IsUnk(a) \/ IsUnk(b) \/ a = b
\* what a Load through a pointer to t yields / what a Store accepts
Pointee(t) == IF t.k = "atomic" THEN t.e ELSE t

\* element type and static size of a composite (size 0: runtime-sized array)
ElemTy(t, i) == CASE t.k = "vec" -> t.e
                  [] t.k = "mat" -> VecTy(t.r, "f32")
                  [] t.k = "arr" -> t.e
                  [] t.k = "struct" -> t.ms[i + 1].ty
StaticLen(t) == CASE t.k = "vec" -> t.n [] t.k = "mat" -> t.c [] t.k = "arr" -> t.n [] t.k = "struct" -> Len(t.ms)
IsComposite(t) == t.k \in {"vec", "mat", "arr", "struct"}

(***************************************************************************)
(* Part 1b: expression typing.  types: the types found so far (a sequence  *)
(* parallel to the arena, "pend" where not yet known - mem2reg and sroa    *)
(* append expressions that earlier ones refer to, so typing iterates).     *)
(***************************************************************************)
Pend == [k |-> "pend"]
OT(types, h) == IF InR(h, Len(types)) THEN types[h + 1] ELSE Bad

Math1 == {"Abs", "Saturate", "Ceil", "Floor", "Round", "Fract", "Trunc", "Sign", "Sqrt", "Transpose",
          "CountTrailingZeros", "CountLeadingZeros", "CountOneBits", "ReverseBits", "FirstTrailingBit", "FirstLeadingBit"}
Math2 == {"Min", "Max", "Step", "Dot", "Cross"}
Math3 == {"Clamp", "Fma", "ExtractBits"}
Math4 == {"InsertBits"}
MathArity(f) == IF f \in Math1 THEN 1 ELSE IF f \in Math2 THEN 2 ELSE IF f \in Math3 THEN 3 ELSE IF f \in Math4 THEN 4 ELSE 0

ArithOps == {"Add", "Subtract", "Multiply", "Divide", "Modulo"}
CmpOps   == {"Equal", "NotEqual", "Less", "LessEqual", "Greater", "GreaterEqual"}
BitOps   == {"And", "ExclusiveOr", "InclusiveOr"}
LogicOps == {"LogicalAnd", "LogicalOr"}
ShiftOps == {"ShiftLeft", "ShiftRight"}

\* shape of a numeric type: 0 scalar, n vector
Lanes(t) == IF IsVec(t) THEN t.n ELSE 0
BinType(op, a, b) ==
  IF IsBad(a) \/ IsBad(b) THEN Bad
  ELSE IF a.k = "pend" \/ b.k = "pend" THEN Pend
  ELSE IF IsUnk(a) \/ IsUnk(b) THEN Unk
  ELSE IF ~IsNum(a) \/ ~IsNum(b) THEN Bad
  ELSE IF op \in ShiftOps THEN
         IF SKI(a) \in {"i32", "u32"} /\ SKI(b) = "u32" /\ ~IsMat(a) /\ Lanes(a) = Lanes(b) THEN a ELSE Bad
  ELSE IF SKI(a) # SKI(b) THEN Bad
  ELSE IF op = "Multiply" /\ (IsMat(a) \/ IsMat(b)) THEN
         CASE IsMat(a) /\ IsMat(b) -> IF a.c = b.r THEN [k |-> "mat", c |-> b.c, r |-> a.r, e |-> a.e] ELSE Bad
           [] IsMat(a) /\ IsVec(b) -> IF a.c = b.n THEN VecTy(a.r, "f32") ELSE Bad
           [] IsVec(a) /\ IsMat(b) -> IF a.n = b.r THEN VecTy(b.c, "f32") ELSE Bad
           [] IsMat(a) -> a
           [] OTHER -> b
  ELSE IF IsMat(a) \/ IsMat(b) THEN (IF op \in {"Add", "Subtract"} /\ a = b THEN a ELSE Bad)
  ELSE IF IsVec(a) /\ IsVec(b) /\ a.n # b.n THEN Bad
  ELSE LET shape == IF IsVec(a) THEN a ELSE b IN       \* the vector operand decides (scalar-vector mixing)
       CASE op \in ArithOps -> IF SKI(a) = "bool" THEN Bad ELSE shape
         [] op \in CmpOps   -> IF IsVec(shape) THEN VecTy(shape.n, "bool") ELSE TBoolI
         [] op \in BitOps   -> IF SKI(a) = "f32" THEN Bad ELSE shape
         [] op \in LogicOps -> IF SKI(a) = "bool" THEN shape ELSE Bad
         [] OTHER -> Bad

\* type of the thing an access yields: base type bt (value or pointer), constant index i (or -1: dynamic)
AccessType(bt, i) ==
  IF IsBad(bt) THEN Bad ELSE IF bt.k = "pend" THEN Pend ELSE IF IsUnk(bt) THEN Unk
  ELSE LET c == IF IsPtr(bt) THEN bt.e ELSE bt IN
       IF ~IsComposite(c) THEN Bad
       ELSE IF i < 0 /\ c.k = "struct" THEN Bad                      \* a struct is indexed by constants only
       ELSE IF i >= 0 /\ ~(c.k = "arr" /\ c.n = 0) /\ i >= StaticLen(c) THEN Bad
       ELSE LET e == ElemTy(c, IF i < 0 THEN 0 ELSE i) IN
            IF IsPtr(bt) THEN [k |-> "ptr", space |-> bt.space, e |-> e] ELSE e

ComposeOK(t, cts) ==     \* component types cts against the composed type t
  LET n == Len(cts) IN
  CASE t.k = "struct" -> n = Len(t.ms) /\ \A i \in 1 .. n : Compat(cts[i], t.ms[i].ty)
    [] t.k = "arr"    -> n = t.n /\ \A i \in 1 .. n : Compat(cts[i], t.e)
    [] t.k = "mat"    -> \/ (n = t.c /\ \A i \in 1 .. n : Compat(cts[i], VecTy(t.r, "f32")))
                         \/ (n = t.c * t.r /\ \A i \in 1 .. n : Compat(cts[i], t.e))
    [] t.k = "vec"    -> /\ \A i \in 1 .. n : IsUnk(cts[i]) \/ ((IsSc(cts[i]) \/ IsVec(cts[i])) /\ SKI(cts[i]) = t.e.k)
                         /\ ((\E i \in 1 .. n : IsUnk(cts[i])) \/
                             LET RECURSIVE Sum(_)
                                 Sum(i) == IF i = 0 THEN 0 ELSE Sum(i - 1) + (IF IsVec(cts[i]) THEN cts[i].n ELSE 1)
                             IN Sum(n) = t.n)
    [] OTHER -> FALSE

AnyIs(ts, kind) == \E i \in 1 .. Len(ts) : ts[i].k = kind

MathType(f, ats) ==
  IF AnyIs(ats, "bad") THEN Bad ELSE IF AnyIs(ats, "pend") THEN Pend
  ELSE IF MathArity(f) = 0 THEN Unk                                   \* a function outside the covered set
  ELSE IF Len(ats) # MathArity(f) THEN Bad
  ELSE IF AnyIs(ats, "unk") THEN Unk
  ELSE IF \E i \in 1 .. Len(ats) : ~IsNum(ats[i]) THEN Bad
  ELSE LET a == ats[1] IN
       CASE f = "Dot" -> IF IsVec(a) /\ a = ats[2] THEN a.e ELSE Bad
         [] f = "Cross" -> IF a = VecTy(3, "f32") /\ a = ats[2] THEN a ELSE Bad
         [] f = "Transpose" -> IF IsMat(a) THEN [k |-> "mat", c |-> a.r, r |-> a.c, e |-> a.e] ELSE Bad
         [] f \in {"ExtractBits"} -> IF SKI(a) \in {"i32", "u32"} /\ ats[2] = TU32I /\ ats[3] = TU32I THEN a ELSE Bad
         [] f = "InsertBits" -> IF SKI(a) \in {"i32", "u32"} /\ ats[2] = a /\ ats[3] = TU32I /\ ats[4] = TU32I THEN a ELSE Bad
         [] OTHER -> IF \A i \in 1 .. Len(ats) : ats[i] = a THEN a ELSE Bad

\* the type of expression e of function F; `types` gives the operand types
EType(P, F, e, types) ==
  LET O(h) == OT(types, h)
      Pass(t, r) == IF IsBad(t) THEN Bad ELSE IF t.k = "pend" THEN Pend ELSE IF IsUnk(t) THEN Unk ELSE r
  IN
  CASE e.k = "Literal"  -> KnownSk(e.sk)
    [] e.k = "Constant" -> IF InR(e.c, Len(P.consts)) THEN TT(P, P.consts[e.c + 1].ty) ELSE Bad
    [] e.k = "Override" -> IF InR(e.o, P.noverrides) THEN Unk ELSE Bad
    [] e.k = "ZeroValue" -> LET t == TT(P, e.ty) IN IF IsPtr(t) THEN Bad ELSE t
    [] e.k = "Compose" ->
         LET t == TT(P, e.ty)
             cts == [i \in 1 .. Len(e.cs) |-> O(e.cs[i])] IN
         IF IsBad(t) \/ AnyIs(cts, "bad") THEN Bad
         ELSE IF AnyIs(cts, "pend") THEN Pend
         ELSE IF IsUnk(t) THEN Unk
         ELSE IF ~IsComposite(t) \/ Len(cts) = 0 THEN Bad
         ELSE IF ComposeOK(t, cts) THEN t ELSE Bad
    [] e.k = "Access" ->
         LET it == O(e.index) IN
         IF IsBad(it) THEN Bad
         ELSE IF it.k = "pend" THEN Pend
         ELSE IF ~IsUnk(it) /\ it.k \notin {"i32", "u32"} THEN Bad
         ELSE AccessType(O(e.base), -1)
    [] e.k = "AccessIndex" -> AccessType(O(e.base), e.index)
    [] e.k = "Splat" -> LET t == O(e.v) IN Pass(t, IF IsSc(t) /\ e.n \in 2 .. 4 THEN VecTy(e.n, t.k) ELSE Bad)
    [] e.k = "Swizzle" -> LET t == O(e.v) IN
         Pass(t, IF IsVec(t) /\ e.n \in 1 .. 4 /\ Len(e.pat) = e.n /\ (\A i \in 1 .. Len(e.pat) : e.pat[i] < t.n)
                 THEN (IF e.n = 1 THEN t.e ELSE VecTy(e.n, t.e.k)) ELSE Bad)
    [] e.k = "FunctionArgument" -> IF InR(e.i, Len(F.args)) THEN TT(P, F.args[e.i + 1].ty) ELSE Bad
    [] e.k = "GlobalVariable" ->
         IF ~InR(e.g, Len(P.globals)) THEN Bad
         ELSE LET g == P.globals[e.g + 1]  t == TT(P, g.ty) IN
              IF g.space \notin {"private", "workgroup", "uniform", "storage"} THEN Pass(t, Unk)
              ELSE Pass(t, [k |-> "ptr", space |-> g.space, e |-> t])
    [] e.k = "LocalVariable" ->
         IF ~InR(e.l, Len(F.locals)) THEN Bad
         ELSE LET t == TT(P, F.locals[e.l + 1].ty) IN Pass(t, [k |-> "ptr", space |-> "function", e |-> t])
    [] e.k = "Load" -> LET t == O(e.p) IN Pass(t, IF IsPtr(t) THEN Pointee(t.e) ELSE Bad)
    [] e.k = "Alias" -> O(e.src)
    [] e.k = "Phi" ->
         IF Len(e.inc) = 0 THEN Bad
         ELSE LET ts == [i \in 1 .. Len(e.inc) |-> O(e.inc[i].v)] IN
              IF AnyIs(ts, "bad") THEN Bad ELSE IF AnyIs(ts, "pend") THEN Pend
              ELSE IF \A i \in 1 .. Len(ts) : Compat(ts[i], ts[1]) THEN ts[1] ELSE Bad
    [] e.k = "Unary" -> LET t == O(e.e) IN
         Pass(t, IF ~IsNum(t) THEN Bad
                 ELSE IF e.op = "LogicalNot" THEN (IF SKI(t) = "bool" THEN t ELSE Bad)
                 ELSE IF e.op = "BitwiseNot" THEN (IF SKI(t) \in {"i32", "u32"} THEN t ELSE Bad)
                 ELSE IF SKI(t) = "bool" THEN Bad ELSE t)
    [] e.k = "Binary" -> BinType(e.op, O(e.l), O(e.r))
    [] e.k = "Select" ->
         LET c == O(e.c)  a == O(e.a)  r == O(e.r) IN
         IF IsBad(c) \/ IsBad(a) \/ IsBad(r) THEN Bad
         ELSE IF c.k = "pend" \/ a.k = "pend" \/ r.k = "pend" THEN Pend
         ELSE IF IsUnk(c) \/ IsUnk(a) \/ IsUnk(r) THEN Unk
         ELSE IF a # r \/ SKI(c) # "bool" \/ ~(IsSc(c) \/ (IsVec(c) /\ IsVec(a) /\ c.n = a.n)) THEN Bad
         ELSE a
    [] e.k = "Relational" -> LET t == O(e.a) IN
         Pass(t, IF e.f \in {"All", "Any"} THEN (IF SKI(t) = "bool" /\ ~IsMat(t) /\ IsNum(t) THEN TBoolI ELSE Bad)
                 ELSE IF SKI(t) = "f32" /\ IsNum(t) /\ ~IsMat(t) THEN (IF IsVec(t) THEN VecTy(t.n, "bool") ELSE TBoolI)
                 ELSE Bad)
    [] e.k = "Math" -> MathType(e.f, [i \in 1 .. Len(e.args) |-> O(e.args[i])])
    [] e.k = "As" -> LET t == O(e.e) IN
         Pass(t, IF ~IsNum(t) THEN Bad
                 ELSE IF e.sk \notin ScalarKs \/ e.conv \notin {0, 4} \/ IsMat(t) THEN Unk
                 ELSE IF e.conv = 0 /\ (e.sk = "bool" \/ SKI(t) = "bool") /\ e.sk # SKI(t) THEN Bad    \* no bitcast from/to bool
                 ELSE IF IsVec(t) THEN VecTy(t.n, e.sk) ELSE [k |-> e.sk])
    [] e.k = "CallResult" ->
         IF ~InR(e.f, Len(P.fns)) THEN Bad
         ELSE IF P.fns[e.f + 1].result < 0 THEN Bad ELSE TT(P, P.fns[e.f + 1].result)
    [] e.k = "ArrayLength" -> LET t == O(e.a) IN Pass(t, IF IsPtr(t) /\ t.e.k = "arr" /\ t.e.n = 0 THEN TU32I ELSE Bad)
    [] e.k = "AtomicResult" -> LET t == TT(P, e.ty) IN IF IsPtr(t) THEN Bad ELSE t
    [] OTHER -> Unk                                                      \* image, derivative, ray query, subgroup ... kinds

RECURSIVE TypeRound(_, _, _, _, _, _)
\* one left-to-right round over the expressions lo .. hi: operands before the current position come from this round
\* (done), later ones from the previous round.  The recursion halves the range (TLC's evaluation cost grows with the
\* depth of nested operator applications, so every fold over an arena or a block in this module is balanced).
TypeRound(P, F, prev, lo, hi, done) ==
  IF lo > hi THEN done
  ELSE IF lo = hi THEN Append(done, EType(P, F, F.exprs[lo], done \o SubSeq(prev, lo, Len(prev))))
  ELSE LET mid == (lo + hi) \div 2 IN TypeRound(P, F, prev, mid + 1, hi, TypeRound(P, F, prev, lo, mid, done))

RECURSIVE TypeFix(_, _, _, _)
TypeFix(P, F, prev, k) ==
  LET cur == TypeRound(P, F, prev, 1, Len(F.exprs), <<>>) IN
  IF cur = prev \/ k = 0 \/ ~AnyIs(cur, "pend") THEN Force([i \in 1 .. Len(cur) |-> IF cur[i].k = "pend" THEN Bad ELSE cur[i]])   \* a cycle never resolves
  ELSE TypeFix(P, F, cur, k - 1)

ExprTypes(P, F) == TypeFix(P, F, [i \in 1 .. Len(F.exprs) |-> Pend], 6)

(***************************************************************************)
(* Part 1c: which expressions are covered by an Emit of the function, and  *)
(* the statement-level well-formedness conditions.                         *)
(***************************************************************************)
RECURSIVE EmitRanges(_)
EmitRanges(b) ==
  UNION {LET s == b[i] IN
         CASE s.k = "Emit"   -> {<<s.s, s.e>>}
           [] s.k = "Block"  -> EmitRanges(s.b)
           [] s.k = "If"     -> EmitRanges(s.a) \cup EmitRanges(s.r)
           [] s.k = "Loop"   -> EmitRanges(s.b) \cup EmitRanges(s.c)
           [] s.k = "Switch" -> UNION {EmitRanges(s.cases[j].b) : j \in 1 .. Len(s.cases)}
           [] OTHER -> {} : i \in 1 .. Len(b)}
Emitted(F) == LET rs == EmitRanges(F.body) IN Force([i \in 1 .. Len(F.exprs) |-> \E r \in rs : r[1] <= i - 1 /\ i - 1 < r[2]])

RECURSIVE StmtErrs(_, _, _, _)
\* et: expression types of F; returns a set of strings
StmtErrs(P, F, et, b) ==
  UNION {
       LET s == b[si]
           n == Len(F.exprs)
           H(h) == InR(h, n)
           Ty(h) == et[h + 1]
           here ==
             CASE s.k = "Emit" -> IF s.s >= 0 /\ s.s <= s.e /\ s.e <= n THEN {} ELSE {"Emit: range outside the expression arena"}
               [] s.k = "Block" -> StmtErrs(P, F, et, s.b)
               [] s.k = "If" -> (IF ~H(s.c) THEN {"If: condition handle out of range"}
                                 ELSE IF Ty(s.c) \notin {TBoolI, Unk} THEN {"If: condition is not a bool"} ELSE {})
                                \cup StmtErrs(P, F, et, s.a) \cup StmtErrs(P, F, et, s.r)
               [] s.k = "Switch" -> (IF ~H(s.sel) THEN {"Switch: selector handle out of range"}
                                     ELSE IF Ty(s.sel).k \notin {"i32", "u32", "unk"} THEN {"Switch: selector is not an integer"} ELSE {})
                                    \cup (IF Cardinality({i \in 1 .. Len(s.cases) : s.cases[i].def = 1}) # 1 THEN {"Switch: not exactly one default"} ELSE {})
                                    \cup UNION {StmtErrs(P, F, et, s.cases[i].b) : i \in 1 .. Len(s.cases)}
               [] s.k = "Loop" -> (IF s.bi >= 0 /\ ~H(s.bi) THEN {"Loop: break-if handle out of range"}
                                   ELSE IF s.bi >= 0 /\ Ty(s.bi) \notin {TBoolI, Unk} THEN {"Loop: break-if is not a bool"} ELSE {})
                                  \cup StmtErrs(P, F, et, s.b) \cup StmtErrs(P, F, et, s.c)
               [] s.k = "Return" -> IF s.v >= 0 /\ ~H(s.v) THEN {"Return: value handle out of range"}
                                    ELSE IF s.v >= 0 /\ F.result < 0 THEN {"Return: value in a function without result"}
                                    ELSE IF s.v < 0 /\ F.result >= 0 THEN {"Return: no value in a function with result"}
                                    ELSE IF s.v >= 0 /\ ~Compat(Ty(s.v), TT(P, F.result)) THEN {"Return: value type differs from the result type"}
                                    ELSE {}
               [] s.k = "Store" -> IF ~H(s.p) \/ ~H(s.v) THEN {"Store: handle out of range"}
                                   ELSE IF IsUnk(Ty(s.p)) THEN {}
                                   ELSE IF ~IsPtr(Ty(s.p)) THEN {"Store: pointer operand is not a pointer"}
                                   ELSE IF ~Compat(Ty(s.v), Pointee(Ty(s.p).e)) THEN {"Store: value type differs from the pointee type"}
                                   ELSE {}
               [] s.k = "Call" -> IF ~InR(s.f, Len(P.fns)) THEN {"Call: call target out of range (function handle)"}
                                  ELSE LET callee == P.fns[s.f + 1] IN
                                       (IF Len(s.args) # Len(callee.args) THEN {"Call: argument count differs from the callee's parameter count"} ELSE {})
                                       \cup (IF \E i \in 1 .. Len(s.args) : ~H(s.args[i]) THEN {"Call: argument handle out of range"}
                                             ELSE IF Len(s.args) = Len(callee.args) /\ \E i \in 1 .. Len(s.args) : ~Compat(Ty(s.args[i]), TT(P, callee.args[i].ty))
                                                  THEN {"Call: argument type differs from the parameter type"} ELSE {})
                                       \cup (IF s.res >= 0 /\ (~H(s.res) \/ callee.result < 0) THEN {"Call: result handle"}
                                             ELSE IF s.res >= 0 /\ F.exprs[s.res + 1].k # "CallResult" THEN {"Call: result is not a CallResult expression"}
                                             ELSE {})
               [] s.k = "Atomic" -> IF ~H(s.p) \/ (s.f # "Load" /\ ~H(s.v)) \/ (s.res >= 0 /\ ~H(s.res)) \/ (s.cmp >= 0 /\ ~H(s.cmp))
                                    THEN {"Atomic: handle out of range"}
                                    ELSE IF ~IsUnk(Ty(s.p)) /\ ~(IsPtr(Ty(s.p)) /\ Ty(s.p).e.k = "atomic") THEN {"Atomic: pointer operand is not a pointer to an atomic"}
                                    ELSE IF ~IsUnk(Ty(s.p)) /\ s.f # "Load" /\ ~Compat(Ty(s.v), Ty(s.p).e.e) THEN {"Atomic: value type differs from the atomic's scalar type"}
                                    ELSE IF ~IsUnk(Ty(s.p)) /\ s.cmp >= 0 /\ ~Compat(Ty(s.cmp), Ty(s.p).e.e) THEN {"Atomic: comparand type differs from the atomic's scalar type"}
                                    ELSE {}
               [] OTHER -> {}
       IN  here : si \in 1 .. Len(b)}

FnErrs(P, F, et, name) ==
  LET tag(S) == {name \o ": " \o x : x \in S} IN
  tag((IF \E i \in 1 .. Len(F.args) : IsBad(TT(P, F.args[i].ty)) THEN {"argument type handle"} ELSE {})
      \cup (IF F.result >= 0 /\ IsBad(TT(P, F.result)) THEN {"result type handle"} ELSE {})
      \cup (IF \E i \in 1 .. Len(F.locals) : IsBad(TT(P, F.locals[i].ty)) THEN {"local variable type handle"} ELSE {})
      \cup (IF \E i \in 1 .. Len(F.locals) : F.locals[i].init >= 0 /\ ~InR(F.locals[i].init, Len(F.exprs)) THEN {"local variable init handle"}
            ELSE IF \E i \in 1 .. Len(F.locals) : F.locals[i].init >= 0 /\ ~Compat(et[F.locals[i].init + 1], TT(P, F.locals[i].ty))
                 THEN {"local variable init type differs from the variable type"} ELSE {})
      \cup {"expression " \o ToString(i - 1) \o " (" \o F.exprs[i].k \o ") is ill-typed or has a handle out of range" : i \in {j \in 1 .. Len(et) : IsBad(et[j])}}
      \cup StmtErrs(P, F, et, F.body))

(***************************************************************************)
(* Part 2: the value layer.  Scalars are 32-bit words (bool 0/1, f32 bit   *)
(* patterns), vectors / arrays / structs sequences, matrices sequences of  *)
(* columns, pointers records [root, path] (root: index into mem).          *)
(* Operations return <<decided, value>>; an undecided operation abandons   *)
(* the input row (exactly the discipline of WgslSem.tla: the specification *)
(* is silent where WGSL does not pin the result).                          *)
(***************************************************************************)
B(x) == IF x THEN 1 ELSE 0

\* small-integer floats (|v| <= 2048): sums of products are exact in any order
FIsSmallInt(w) == FIsZero(w) \/ (FIsNormal(w) /\ FExp(w) >= -23 /\ FExp(w) <= -12 /\ FMant(w) % Pow2(0 - FExp(w)) = 0)
                  \/ (FIsNormal(w) /\ FMag(w) = 1157627904)
FSmallVal(w) == LET n == IF FIsZero(w) THEN 0 ELSE FMant(w) \div Pow2(0 - FExp(w)) IN IF w < 0 THEN 0 - n ELSE n
FFromInt(n)  == IF n = 0 THEN PosZero ELSE Rounded(IF n < 0 THEN 1 ELSE 0, IF n < 0 THEN 0 - n ELSE n, 0)
IntOkF(n) == n > -16777216 /\ n < 16777216
FRemOk(a, b) == FIsSmallInt(a) /\ FIsSmallInt(b) /\ ~FIsZero(b)
FRem(a, b) == LET x == FSmallVal(a)  y == FSmallVal(b)
                  ax == IF x < 0 THEN 0 - x ELSE x  ay == IF y < 0 THEN 0 - y ELSE y
                  r == ax % ay
              IN  IF r = 0 THEN (IF a < 0 THEN NegZero ELSE PosZero) ELSE FFromInt(IF x < 0 THEN 0 - r ELSE r)
AllSmall(v, n) == \A i \in 1 .. n : FIsSmallInt(v[i])
MatSmall(m, c, r) == \A i \in 1 .. c : AllSmall(m[i], r)
RECURSIVE SumTo(_, _)
SumTo(f, n) == IF n = 0 THEN 0 ELSE f[n] + SumTo(f, n - 1)
IDot(a, b, n) == SumTo([i \in 1 .. n |-> FSmallVal(a[i]) * FSmallVal(b[i])], n)

BinOkS(op, sk, a, b) ==
  IF sk # "f32" THEN TRUE
  ELSE CASE op = "Add" -> FAddOk(a, b)
         [] op = "Subtract" -> FSubOk(a, b)
         [] op = "Multiply" -> FMulOk(a, b)
         [] op = "Divide" -> FDivOk(a, b)
         [] op = "Modulo" -> FRemOk(a, b)
         [] OTHER -> FOk(a) /\ FOk(b)

BinS(op, sk, a, b) ==
  CASE op = "Add" -> IF sk = "f32" THEN FAdd(a, b) ELSE Add32(a, b)
    [] op = "Subtract" -> IF sk = "f32" THEN FSub(a, b) ELSE Sub32(a, b)
    [] op = "Multiply" -> IF sk = "f32" THEN FMul(a, b) ELSE Mul32(a, b)
    [] op = "Divide" -> IF sk = "f32" THEN FDiv(a, b) ELSE IF sk = "i32" THEN DivS32(a, b) ELSE DivU32(a, b)
    [] op = "Modulo" -> IF sk = "f32" THEN FRem(a, b) ELSE IF sk = "i32" THEN RemS32(a, b) ELSE RemU32(a, b)
    [] op = "And" -> And32(a, b)
    [] op = "InclusiveOr" -> Or32(a, b)
    [] op = "ExclusiveOr" -> Xor32(a, b)
    [] op = "LogicalAnd" -> B(a = 1 /\ b = 1)
    [] op = "LogicalOr" -> B(a = 1 \/ b = 1)
    [] op = "ShiftLeft" -> Shl32(a, b)
    [] op = "ShiftRight" -> IF sk = "i32" THEN ShrS32(a, b) ELSE ShrU32(a, b)
    [] op = "Equal" -> IF sk = "f32" THEN B(FEq(a, b)) ELSE B(a = b)
    [] op = "NotEqual" -> IF sk = "f32" THEN B(~FEq(a, b)) ELSE B(a # b)
    [] op = "Less" -> IF sk = "f32" THEN B(FLt(a, b)) ELSE IF sk = "u32" THEN B(LtU(a, b)) ELSE B(a < b)
    [] op = "LessEqual" -> IF sk = "f32" THEN B(FLe(a, b)) ELSE IF sk = "u32" THEN B(LeU(a, b)) ELSE B(a <= b)
    [] op = "Greater" -> IF sk = "f32" THEN B(FLt(b, a)) ELSE IF sk = "u32" THEN B(LtU(b, a)) ELSE B(a > b)
    [] op = "GreaterEqual" -> IF sk = "f32" THEN B(FLe(b, a)) ELSE IF sk = "u32" THEN B(LeU(b, a)) ELSE B(a >= b)

Zip2(op, sk, n, a, b, sa, sb) ==
  LET A(i) == IF sa THEN a ELSE a[i]  Bv(i) == IF sb THEN b ELSE b[i]
      ok == \A i \in 1 .. n : BinOkS(op, sk, A(i), Bv(i))
  IN  <<ok, IF ok THEN [i \in 1 .. n |-> BinS(op, sk, A(i), Bv(i))] ELSE 0>>

BinV(op, ta, tb, a, b) ==
  CASE IsMat(ta) /\ IsMat(tb) /\ op \in {"Add", "Subtract"} ->
         IF \A c \in 1 .. ta.c : \A r \in 1 .. ta.r : BinOkS(op, "f32", a[c][r], b[c][r])
         THEN <<TRUE, [c \in 1 .. ta.c |-> [r \in 1 .. ta.r |-> BinS(op, "f32", a[c][r], b[c][r])]]>> ELSE <<FALSE, 0>>
    [] IsMat(ta) /\ IsSc(tb) ->
         IF \A c \in 1 .. ta.c : \A r \in 1 .. ta.r : BinOkS(op, "f32", a[c][r], b)
         THEN <<TRUE, [c \in 1 .. ta.c |-> [r \in 1 .. ta.r |-> BinS(op, "f32", a[c][r], b)]]>> ELSE <<FALSE, 0>>
    [] IsSc(ta) /\ IsMat(tb) ->
         IF \A c \in 1 .. tb.c : \A r \in 1 .. tb.r : BinOkS(op, "f32", a, b[c][r])
         THEN <<TRUE, [c \in 1 .. tb.c |-> [r \in 1 .. tb.r |-> BinS(op, "f32", a, b[c][r])]]>> ELSE <<FALSE, 0>>
    [] IsMat(ta) /\ IsVec(tb) ->
         IF ~(MatSmall(a, ta.c, ta.r) /\ AllSmall(b, ta.c)) THEN <<FALSE, 0>>
         ELSE LET res == [r \in 1 .. ta.r |-> SumTo([c \in 1 .. ta.c |-> FSmallVal(a[c][r]) * FSmallVal(b[c])], ta.c)]
              IN  <<\A r \in 1 .. ta.r : IntOkF(res[r]), [r \in 1 .. ta.r |-> FFromInt(res[r])]>>
    [] IsVec(ta) /\ IsMat(tb) ->
         IF ~(AllSmall(a, tb.r) /\ MatSmall(b, tb.c, tb.r)) THEN <<FALSE, 0>>
         ELSE LET res == [c \in 1 .. tb.c |-> IDot(a, b[c], tb.r)]
              IN  <<\A c \in 1 .. tb.c : IntOkF(res[c]), [c \in 1 .. tb.c |-> FFromInt(res[c])]>>
    [] IsMat(ta) /\ IsMat(tb) ->
         IF ~(MatSmall(a, ta.c, ta.r) /\ MatSmall(b, tb.c, tb.r)) THEN <<FALSE, 0>>
         ELSE LET res == [c \in 1 .. tb.c |-> [r \in 1 .. ta.r |->
                            SumTo([k \in 1 .. ta.c |-> FSmallVal(a[k][r]) * FSmallVal(b[c][k])], ta.c)]]
              IN  <<\A c \in 1 .. tb.c : \A r \in 1 .. ta.r : IntOkF(res[c][r]),
                    [c \in 1 .. tb.c |-> [r \in 1 .. ta.r |-> FFromInt(res[c][r])]]>>
    [] IsVec(ta) /\ IsVec(tb) -> Zip2(op, ta.e.k, ta.n, a, b, FALSE, FALSE)
    [] IsVec(ta) -> Zip2(op, ta.e.k, ta.n, a, b, FALSE, TRUE)
    [] IsVec(tb) -> Zip2(op, tb.e.k, tb.n, a, b, TRUE, FALSE)
    [] OTHER -> IF BinOkS(op, ta.k, a, b) THEN <<TRUE, BinS(op, ta.k, a, b)>> ELSE <<FALSE, 0>>

UnS(op, sk, a) ==
  CASE op = "Negate" -> IF sk = "f32" THEN FNeg(a) ELSE Neg32(a)
    [] op = "LogicalNot" -> 1 - a
    [] op = "BitwiseNot" -> Not32(a)

\* value conversions between scalar kinds (ExprAs with Convert = 4)
ConvS(from, to, a) ==
  CASE from = to -> <<TRUE, a>>
    [] to = "bool" -> IF from = "f32" THEN <<~FIsNaN(a), B(~FIsZero(a))>> ELSE <<TRUE, B(a # 0)>>
    [] from = "bool" -> <<TRUE, IF to = "f32" THEN (IF a = 1 THEN FOne ELSE PosZero) ELSE a>>
    [] from = "f32" /\ to = "i32" -> <<FOk(a) /\ ~(a > 0 /\ FExp(a) >= 8), IF FOk(a) THEN FToS(a) ELSE 0>>
    [] from = "f32" /\ to = "u32" -> <<FOk(a) /\ ~(a > 0 /\ FExp(a) >= 9), IF FOk(a) THEN FToU(a) ELSE 0>>
    [] from = "i32" /\ to = "f32" -> <<SToFOk(a), IF SToFOk(a) THEN SToF(a) ELSE 0>>
    [] from = "u32" /\ to = "f32" -> <<UToFOk(a), IF UToFOk(a) THEN UToF(a) ELSE 0>>
    [] OTHER -> <<TRUE, a>>

M1(f, sk, a) ==
  CASE f = "Abs"   -> IF sk = "f32" THEN <<TRUE, FAbs(a)>> ELSE IF sk = "i32" THEN <<TRUE, Abs32(a)>> ELSE <<TRUE, a>>
    [] f = "Sign"  -> IF sk = "f32" THEN <<FOk(a), FSignum(a)>> ELSE <<TRUE, Sign32(a)>>
    [] f = "Floor" -> <<FOk(a), FFloor(a)>>
    [] f = "Ceil"  -> <<FOk(a), FCeil(a)>>
    [] f = "Trunc" -> <<FOk(a), FTrunc(a)>>
    [] f = "Round" -> <<FOk(a), FRound(a)>>
    [] f = "Fract" -> <<FOk(a) /\ FSubOk(a, FFloor(a)), IF FOk(a) THEN FFract(a) ELSE 0>>
    [] f = "Sqrt"  -> <<FSqrtOk(a), IF FSqrtOk(a) THEN FSqrt(a) ELSE 0>>
    [] f = "Saturate" -> <<FOk(a), FMin(FMax(a, PosZero), FOne)>>
    [] f = "CountOneBits" -> <<TRUE, Popcount(a)>>
    [] f = "CountLeadingZeros" -> <<TRUE, Clz(a)>>
    [] f = "CountTrailingZeros" -> <<TRUE, Ctz(a)>>
    [] f = "ReverseBits" -> <<TRUE, ReverseBits(a)>>
    [] f = "FirstLeadingBit" -> <<TRUE, IF sk = "i32" THEN FirstLeadingBitS(a) ELSE FirstLeadingBitU(a)>>
    [] f = "FirstTrailingBit" -> <<TRUE, FirstTrailingBit(a)>>
M2(f, sk, a, b) ==
  CASE f = "Min" -> IF sk = "f32" THEN <<FOk(a) /\ FOk(b) /\ ~(FIsZero(a) /\ FIsZero(b) /\ a # b), FMin(a, b)>>
                    ELSE IF sk = "i32" THEN <<TRUE, MinS(a, b)>> ELSE <<TRUE, MinU(a, b)>>
    [] f = "Max" -> IF sk = "f32" THEN <<FOk(a) /\ FOk(b) /\ ~(FIsZero(a) /\ FIsZero(b) /\ a # b), FMax(a, b)>>
                    ELSE IF sk = "i32" THEN <<TRUE, MaxS(a, b)>> ELSE <<TRUE, MaxU(a, b)>>
    [] f = "Step" -> <<FOk(a) /\ FOk(b), IF FLe(a, b) THEN FOne ELSE PosZero>>
M3(f, sk, a, b, c) ==
  CASE f = "Clamp" -> IF sk = "f32" THEN <<FOk(a) /\ FOk(b) /\ FOk(c) /\ FLe(b, c) /\ ~(FIsZero(a) /\ (FIsZero(b) \/ FIsZero(c))),
                                           FMin(FMax(a, b), c)>>
                      ELSE IF sk = "i32" THEN <<b <= c, Clamp32S(a, b, c)>> ELSE <<LeU(b, c), Clamp32U(a, b, c)>>
    [] f = "ExtractBits" -> <<TRUE, IF sk = "i32" THEN ExtractBitsS(a, b, c) ELSE ExtractBitsU(a, b, c)>>
    [] f = "Fma" -> LET ok == FIsSmallInt(a) /\ FIsSmallInt(b) /\ FIsSmallInt(c)
                        n == IF ok THEN FSmallVal(a) * FSmallVal(b) + FSmallVal(c) ELSE 0
                    IN  <<ok /\ IntOkF(n), FFromInt(n)>>

Lift(n, g(_)) == <<\A i \in 1 .. n : g(i)[1], [i \in 1 .. n |-> g(i)[2]]>>

\* t: type of the first argument; as: argument values
MathV(f, t, as) ==
  LET n == Lanes(t)  sk == SKI(t) IN
  CASE f \in Math1 \ {"Transpose"} -> IF sk = "f32" /\ f \in {"CountOneBits", "CountLeadingZeros", "CountTrailingZeros", "ReverseBits", "FirstLeadingBit", "FirstTrailingBit"}
                                      THEN <<FALSE, 0>>
                                      ELSE IF sk # "f32" /\ f \in {"Floor", "Ceil", "Trunc", "Round", "Fract", "Sqrt", "Saturate"} THEN <<FALSE, 0>>
                                      ELSE IF IsMat(t) THEN <<FALSE, 0>>
                                      ELSE IF n = 0 THEN M1(f, sk, as[1]) ELSE Lift(n, LAMBDA i : M1(f, sk, as[1][i]))
    [] f = "Transpose" -> <<TRUE, [r \in 1 .. t.r |-> [c \in 1 .. t.c |-> as[1][c][r]]]>>
    [] f \in {"Min", "Max", "Step"} -> IF IsMat(t) \/ (f = "Step" /\ sk # "f32") THEN <<FALSE, 0>>
                                       ELSE IF n = 0 THEN M2(f, sk, as[1], as[2]) ELSE Lift(n, LAMBDA i : M2(f, sk, as[1][i], as[2][i]))
    [] f \in {"Clamp", "Fma"} -> IF IsMat(t) \/ (f = "Fma" /\ sk # "f32") THEN <<FALSE, 0>>
                                 ELSE IF n = 0 THEN M3(f, sk, as[1], as[2], as[3]) ELSE Lift(n, LAMBDA i : M3(f, sk, as[1][i], as[2][i], as[3][i]))
    [] f = "ExtractBits" -> IF n = 0 THEN M3(f, sk, as[1], as[2], as[3]) ELSE Lift(n, LAMBDA i : M3(f, sk, as[1][i], as[2], as[3]))
    [] f = "InsertBits" -> IF n = 0 THEN <<TRUE, InsertBits(as[1], as[2], as[3], as[4])>>
                           ELSE Lift(n, LAMBDA i : <<TRUE, InsertBits(as[1][i], as[2][i], as[3], as[4])>>)
    [] f = "Dot" -> IF sk = "f32"
                    THEN LET ok == AllSmall(as[1], n) /\ AllSmall(as[2], n)
                             d == IF ok THEN IDot(as[1], as[2], n) ELSE 0
                         IN  <<ok /\ IntOkF(d), FFromInt(d)>>
                    ELSE IF sk = "bool" THEN <<FALSE, 0>>
                    ELSE LET RECURSIVE D(_)
                             D(i) == IF i = 0 THEN 0 ELSE Add32(D(i - 1), Mul32(as[1][i], as[2][i]))
                         IN  <<TRUE, D(n)>>
    [] f = "Cross" -> LET a == as[1]  b == as[2]
                          ok == AllSmall(a, 3) /\ AllSmall(b, 3)
                          x(i) == FSmallVal(a[i])  y(i) == FSmallVal(b[i])
                      IN  <<ok, IF ok THEN <<FFromInt(x(2) * y(3) - x(3) * y(2)), FFromInt(x(3) * y(1) - x(1) * y(3)),
                                             FFromInt(x(1) * y(2) - x(2) * y(1))>> ELSE <<0, 0, 0>>>>
    [] OTHER -> <<FALSE, 0>>

RECURSIVE ZeroOfT(_)
ZeroOfT(t) ==
  CASE t.k = "vec"    -> [i \in 1 .. t.n |-> 0]
    [] t.k = "mat"    -> [i \in 1 .. t.c |-> [j \in 1 .. t.r |-> 0]]
    [] t.k = "arr"    -> [i \in 1 .. t.n |-> ZeroOfT(t.e)]
    [] t.k = "struct" -> [i \in 1 .. Len(t.ms) |-> ZeroOfT(t.ms[i].ty)]
    [] OTHER          -> 0
\* a type all of whose leaves are covered scalars of a fixed-size shape
RECURSIVE Sized(_)
Sized(t) == CASE t.k \in ScalarKs \cup {"vec", "mat", "atomic"} -> TRUE
              [] t.k = "arr" -> t.n > 0 /\ t.n <= 4096 /\ Sized(t.e)
              [] t.k = "struct" -> \A i \in 1 .. Len(t.ms) : Sized(t.ms[i].ty)
              [] OTHER -> FALSE

RECURSIVE GetPath(_, _), SetPath(_, _, _)
GetPath(v, p) == IF p = <<>> THEN v ELSE GetPath(v[Head(p) + 1], Tail(p))
SetPath(v, p, x) == IF p = <<>> THEN x ELSE [v EXCEPT ![Head(p) + 1] = SetPath(@, Tail(p), x)]

(***************************************************************************)
(* Buffers: value tree <-> words using the layout the IR records (struct   *)
(* member offsets, array strides; matrix columns by Layout.tla's           *)
(* ColStride).  Mask: 0 = not a leaf (padding), 1 = integer word, 2 = f32. *)
(***************************************************************************)
MatCS(t) == ColStride([k |-> "mat", c |-> t.c, r |-> t.r, e |-> t.e])
\* host-shareable and laid out on word boundaries
RECURSIVE BufOK(_)
BufOK(t) == CASE t.k \in {"i32", "u32", "f32", "atomic", "vec", "mat"} -> t.k # "vec" \/ t.e.k # "bool"
              [] t.k = "arr" -> t.stride > 0 /\ t.stride % 4 = 0 /\ BufOK(t.e)
              [] t.k = "struct" -> \A i \in 1 .. Len(t.ms) : t.ms[i].off % 4 = 0 /\ BufOK(t.ms[i].ty)
              [] OTHER -> FALSE
\* bytes needed (a runtime-sized array needs one element)
RECURSIVE NeedBytes(_)
NeedBytes(t) == CASE t.k = "vec" -> 4 * t.n
                  [] t.k = "mat" -> t.c * MatCS(t)
                  [] t.k = "arr" -> (IF t.n = 0 THEN 1 ELSE t.n) * t.stride
                  [] t.k = "struct" -> LET n == Len(t.ms) IN t.ms[n].off + NeedBytes(t.ms[n].ty)
                  [] OTHER -> 4
RECURSIVE UnflatI(_, _, _)
UnflatI(t, words, off) ==
  CASE t.k = "vec"    -> [i \in 1 .. t.n |-> words[(off \div 4) + i]]
    [] t.k = "mat"    -> [c \in 1 .. t.c |-> [r \in 1 .. t.r |-> words[((off + (c - 1) * MatCS(t)) \div 4) + r]]]
    [] t.k = "arr"    -> LET n == IF t.n = 0 THEN (Len(words) * 4 - off) \div t.stride ELSE t.n
                         IN  [i \in 1 .. n |-> UnflatI(t.e, words, off + (i - 1) * t.stride)]
    [] t.k = "struct" -> [i \in 1 .. Len(t.ms) |-> UnflatI(t.ms[i].ty, words, off + t.ms[i].off)]
    [] OTHER          -> words[(off \div 4) + 1]
RECURSIVE FlatSetI(_, _, _)
FKI(e) == IF e.k = "f32" THEN 2 ELSE 1
FlatSetI(t, v, off) ==
  CASE t.k = "vec"    -> {<<(off \div 4) + i, v[i], FKI(t.e)>> : i \in 1 .. t.n}
    [] t.k = "mat"    -> UNION {{<<((off + (c - 1) * MatCS(t)) \div 4) + r, v[c][r], 2>> : r \in 1 .. t.r} : c \in 1 .. t.c}
    [] t.k = "arr"    -> UNION {FlatSetI(t.e, v[i], off + (i - 1) * t.stride) : i \in 1 .. Len(v)}
    [] t.k = "struct" -> UNION {FlatSetI(t.ms[i].ty, v[i], off + t.ms[i].off) : i \in 1 .. Len(t.ms)}
    [] t.k = "atomic" -> {<<(off \div 4) + 1, v, 1>>}
    [] OTHER          -> {<<(off \div 4) + 1, v, FKI(t)>>}
FlatWordsI(t, v, init) ==
  LET fs == FlatSetI(t, v, 0)
      idx == {p[1] : p \in fs}
  IN  Force([i \in 1 .. Len(init) |-> IF i \in idx THEN (CHOOSE p \in fs : p[1] = i)[2] ELSE init[i]])
FlatMaskI(t, v, n) ==
  LET fs == FlatSetI(t, v, 0)
      idx == {p[1] : p \in fs}
  IN  Force([i \in 1 .. n |-> IF i \in idx THEN (CHOOSE p \in fs : p[1] = i)[3] ELSE 0])

(***************************************************************************)
(* Part 3: the evaluator.                                                  *)
(*   st = [mem, fuel, sig, rv, vals, pred]                                 *)
(*     mem   sequence of variable contents: globals, then the locals of    *)
(*           the active calls                                              *)
(*     sig   "n" running | "brk" | "cont" | "ret" | an abandon reason:     *)
(*           "undecided:.." / "oob" / "fuel" (the row is not compared) or  *)
(*           "stuck:.." (the module cannot be executed as it stands)       *)
(*     vals  values of the current function's expressions: <<>> or <<v>>   *)
(*     tmp   values of expressions no Emit covers, kept while one statement *)
(*           executes (memory does not change inside a statement, so this  *)
(*           is "evaluated at each use" without re-evaluation)             *)
(*     pred  the structured edge control arrived by (for Phi)              *)
(*   C  = [F, et, em, args, lbase]: the active function, its expression    *)
(*        types, its Emit-covered set, argument values, index of local 0.  *)
(***************************************************************************)
Normal == {"n", "brk", "cont", "ret", "ldone"}
Running(st) == st.sig = "n"
Abandon(st, why) == IF st.sig \in Normal THEN [st EXCEPT !.sig = why] ELSE st
Abandoned(st) == st.sig \notin Normal

LazyKinds == {"Literal", "Constant", "Override", "ZeroValue", "GlobalVariable", "LocalVariable", "FunctionArgument", "Alias"}
ResultKinds == {"CallResult", "AtomicResult"}
NoPred == [k |-> "none"]

GC(P) == [F |-> P.GF, et |-> P.get, em |-> P.gem, args |-> <<>>, lbase |-> 0, nv |-> P.gnv]
NoVals(F) == Force([i \in 1 .. Len(F.exprs) |-> <<>>])

RECURSIVE Use(_, _, _, _), Ev(_, _, _, _), UseAll(_, _, _, _, _), ExecB(_, _, _, _), ExecR(_, _, _, _, _, _), ExecS(_, _, _, _),
          LoopIter(_, _, _, _, _), LoopPow(_, _, _, _, _), CallFn(_, _, _, _), EmitRange(_, _, _, _, _), InitLocals(_, _, _, _), RunCases(_, _, _, _, _)

\* the value of expression h where it is used
Use(P, C, h, st) ==
  IF ~Running(st) THEN <<0, st>>
  ELSE IF ~InR(h, Len(C.F.exprs)) THEN <<0, Abandon(st, "stuck:expression handle out of range")>>
  ELSE LET k == C.F.exprs[h + 1].k IN
       IF k \in LazyKinds THEN Ev(P, C, h, st)
       ELSE IF Len(st.vals[h + 1]) = 1 THEN <<st.vals[h + 1][1], st>>
       ELSE IF k \in ResultKinds THEN <<0, Abandon(st, "stuck:result used before its statement executed")>>
       ELSE IF C.em[h + 1] THEN <<0, Abandon(st, "stuck:expression used before the Emit that covers it executed")>>
       ELSE IF Len(st.tmp[h + 1]) = 1 THEN <<st.tmp[h + 1][1], st>>         \* already evaluated for this statement
       ELSE LET r == Ev(P, C, h, st) IN <<r[1], IF Running(r[2]) THEN [r[2] EXCEPT !.tmp[h + 1] = <<r[1]>>] ELSE r[2]>>

UseAll(P, C, hs, i, acc) ==
  IF i > Len(hs) THEN acc
  ELSE LET r == Use(P, C, hs[i], acc[2]) IN UseAll(P, C, hs, i + 1, <<Append(acc[1], r[1]), r[2]>>)

\* index a value or a pointer; bt: static type of the base
Index(P, C, bt, bv, i, st) ==
  IF IsPtr(bt)
  THEN LET cont == GetPath(st.mem[bv.root], bv.path) IN
       IF i < 0 \/ i >= Len(cont) THEN <<0, Abandon(st, "oob")>> ELSE <<[bv EXCEPT !.path = Append(@, i)], st>>
  ELSE IF i < 0 \/ i >= Len(bv) THEN <<0, Abandon(st, "oob")>> ELSE <<bv[i + 1], st>>

Ev(P, C, h, st) ==
  LET e == C.F.exprs[h + 1]
      t == C.et[h + 1]
      TyH(x) == IF InR(x, Len(C.et)) THEN C.et[x + 1] ELSE Bad
  IN
  IF IsUnk(t) THEN <<0, Abandon(st, "undecided:outside the covered fragment:" \o e.k)>>
  ELSE IF IsBad(t) THEN <<0, Abandon(st, "stuck:ill-typed expression evaluated")>>
  ELSE
  CASE e.k = "Literal" -> <<e.v, st>>
    [] e.k = "Constant" ->
         IF ~InR(e.c, Len(P.consts)) THEN <<0, Abandon(st, "stuck:constant handle out of range")>> ELSE
         LET r == Use(P, GC(P), P.consts[e.c + 1].init, [st EXCEPT !.vals = P.gnv, !.tmp = P.gnv]) IN
         <<r[1], IF Running(r[2]) THEN st ELSE Abandon(st, r[2].sig)>>
    [] e.k = "ZeroValue" -> IF Sized(t) THEN <<ZeroOfT(t), st>> ELSE <<0, Abandon(st, "undecided:zero value of an unsized type")>>
    [] e.k = "Compose" ->
         LET as == UseAll(P, C, e.cs, 1, <<<<>>, st>>) IN
         IF ~Running(as[2]) THEN <<0, as[2]>>
         ELSE IF t.k = "vec"
              THEN LET RECURSIVE Flat(_)
                       Flat(i) == IF i > Len(e.cs) THEN <<>>
                                  ELSE (IF IsVec(TyH(e.cs[i])) THEN as[1][i] ELSE <<as[1][i]>>) \o Flat(i + 1)
                   IN  <<Flat(1), as[2]>>
              ELSE IF t.k = "mat" /\ IsSc(TyH(e.cs[1]))
                   THEN <<[c \in 1 .. t.c |-> [r \in 1 .. t.r |-> as[1][(c - 1) * t.r + r]]], as[2]>>
              ELSE <<as[1], as[2]>>
    [] e.k = "Access" ->
         LET b == Use(P, C, e.base, st)
             i == Use(P, C, e.index, b[2])
         IN  IF ~Running(i[2]) THEN <<0, i[2]>> ELSE Index(P, C, TyH(e.base), b[1], i[1], i[2])
    [] e.k = "AccessIndex" ->
         LET b == Use(P, C, e.base, st) IN
         IF ~Running(b[2]) THEN <<0, b[2]>> ELSE Index(P, C, TyH(e.base), b[1], e.index, b[2])
    [] e.k = "Splat" -> LET v == Use(P, C, e.v, st) IN <<[i \in 1 .. e.n |-> v[1]], v[2]>>
    [] e.k = "Swizzle" -> LET v == Use(P, C, e.v, st) IN
         IF ~Running(v[2]) THEN <<0, v[2]>>
         ELSE IF e.n = 1 THEN <<v[1][e.pat[1] + 1], v[2]>>
         ELSE <<[i \in 1 .. e.n |-> v[1][e.pat[i] + 1]], v[2]>>
    [] e.k = "FunctionArgument" -> IF InR(e.i, Len(C.args)) THEN <<C.args[e.i + 1], st>> ELSE <<0, Abandon(st, "stuck:function argument index out of range")>>
    [] e.k = "GlobalVariable" -> IF InR(e.g, Len(P.globals)) THEN <<[root |-> e.g + 1, path |-> <<>>], st>>
                                 ELSE <<0, Abandon(st, "stuck:global variable handle out of range")>>
    [] e.k = "LocalVariable" -> IF InR(e.l, Len(C.F.locals)) THEN <<[root |-> C.lbase + e.l + 1, path |-> <<>>], st>>
                                ELSE <<0, Abandon(st, "stuck:local variable index out of range")>>
    [] e.k = "Load" -> LET p == Use(P, C, e.p, st) IN
         IF ~Running(p[2]) THEN <<0, p[2]>> ELSE <<GetPath(p[2].mem[p[1].root], p[1].path), p[2]>>
    [] e.k = "Alias" -> Use(P, C, e.src, st)
    [] e.k = "Phi" ->
         LET Match(inc) == CASE inc.pk = "IfAccept" -> st.pred.k = "if" /\ st.pred.a
                             [] inc.pk = "IfReject" -> st.pred.k = "if" /\ ~st.pred.a
                             [] inc.pk = "SwitchCase" -> st.pred.k = "switch" /\ st.pred.ci = inc.ci
                             [] inc.pk = "LoopInit" -> st.pred.k = "loop" /\ ~st.pred.back
                             [] inc.pk = "LoopBackEdge" -> st.pred.k = "loop" /\ st.pred.back
                             [] OTHER -> FALSE
             ms == {i \in 1 .. Len(e.inc) : Match(e.inc[i])}
         IN  IF Cardinality(ms) # 1 THEN <<0, Abandon(st, "stuck:phi has no unique incoming value for the edge control arrived by")>>
             ELSE Use(P, C, e.inc[CHOOSE i \in ms : TRUE].v, st)
    [] e.k = "Unary" -> LET a == Use(P, C, e.e, st) IN
         IF ~Running(a[2]) THEN <<0, a[2]>>
         ELSE IF IsVec(t) THEN <<[i \in 1 .. t.n |-> UnS(e.op, t.e.k, a[1][i])], a[2]>>
         ELSE IF IsMat(t) THEN <<[c \in 1 .. t.c |-> [r \in 1 .. t.r |-> UnS(e.op, "f32", a[1][c][r])]], a[2]>>
         ELSE <<UnS(e.op, t.k, a[1]), a[2]>>
    [] e.k = "Binary" ->
         LET a == Use(P, C, e.l, st)
             b == Use(P, C, e.r, a[2])
         IN  IF ~Running(b[2]) THEN <<0, b[2]>>
             ELSE LET r == BinV(e.op, TyH(e.l), TyH(e.r), a[1], b[1])
                  IN  IF r[1] THEN <<r[2], b[2]>> ELSE <<0, Abandon(b[2], "undecided:" \o e.op)>>
    [] e.k = "Select" ->
         LET c == Use(P, C, e.c, st)
             a == Use(P, C, e.a, c[2])
             r == Use(P, C, e.r, a[2])
             tc == TyH(e.c)
         IN  IF ~Running(r[2]) THEN <<0, r[2]>>
             ELSE <<IF IsVec(tc) THEN [i \in 1 .. tc.n |-> IF c[1][i] = 1 THEN a[1][i] ELSE r[1][i]]
                    ELSE IF c[1] = 1 THEN a[1] ELSE r[1], r[2]>>
    [] e.k = "Relational" ->
         LET a == Use(P, C, e.a, st)
             ta == TyH(e.a)
             n == Lanes(ta)
         IN  IF ~Running(a[2]) THEN <<0, a[2]>>
             ELSE CASE e.f = "All" -> <<IF n = 0 THEN a[1] ELSE B(\A i \in 1 .. n : a[1][i] = 1), a[2]>>
                    [] e.f = "Any" -> <<IF n = 0 THEN a[1] ELSE B(\E i \in 1 .. n : a[1][i] = 1), a[2]>>
                    [] e.f = "IsNan" -> <<IF n = 0 THEN B(FIsNaN(a[1])) ELSE [i \in 1 .. n |-> B(FIsNaN(a[1][i]))], a[2]>>
                    [] OTHER -> <<IF n = 0 THEN B(FIsInf(a[1])) ELSE [i \in 1 .. n |-> B(FIsInf(a[1][i]))], a[2]>>
    [] e.k = "Math" ->
         LET as == UseAll(P, C, e.args, 1, <<<<>>, st>>) IN
         IF ~Running(as[2]) THEN <<0, as[2]>>
         ELSE LET r == MathV(e.f, TyH(e.args[1]), as[1])
              IN  IF r[1] THEN <<r[2], as[2]>> ELSE <<0, Abandon(as[2], "undecided:" \o e.f)>>
    [] e.k = "As" ->
         LET a == Use(P, C, e.e, st)
             ta == TyH(e.e)
         IN  IF ~Running(a[2]) THEN <<0, a[2]>>
             ELSE IF e.conv = 0 THEN a                                   \* bitcast: the same bits
             ELSE LET r == IF IsVec(ta) THEN Lift(ta.n, LAMBDA i : ConvS(ta.e.k, e.sk, a[1][i])) ELSE ConvS(ta.k, e.sk, a[1])
                  IN  IF r[1] THEN <<r[2], a[2]>> ELSE <<0, Abandon(a[2], "undecided:conversion")>>
    [] e.k = "ArrayLength" -> LET p == Use(P, C, e.a, st) IN
         IF ~Running(p[2]) THEN <<0, p[2]>> ELSE <<Len(GetPath(p[2].mem[p[1].root], p[1].path)), p[2]>>
    [] OTHER -> <<0, Abandon(st, "stuck:expression kind cannot be evaluated here:" \o e.k)>>

\* an Emit evaluates the covered expressions h .. end - 1 in handle order and keeps their values
EmitRange(P, C, h, end, st) ==
  IF h >= end \/ ~Running(st) THEN st
  ELSE IF h + 1 = end
       THEN LET k == C.F.exprs[h + 1].k IN
            IF k \in LazyKinds \cup ResultKinds THEN st
            ELSE LET r == Ev(P, C, h, st) IN IF Running(r[2]) THEN [r[2] EXCEPT !.vals[h + 1] = <<r[1]>>] ELSE r[2]
       ELSE LET mid == (h + end) \div 2 IN EmitRange(P, C, mid, end, EmitRange(P, C, h, mid, st))

\* the statements lo .. hi of block b in order (a statement is skipped once the state stopped running)
ExecR(P, C, b, lo, hi, st) ==
  IF lo > hi \/ ~Running(st) THEN st
  ELSE IF lo = hi THEN ExecS(P, C, b[lo], st)
  ELSE LET mid == (lo + hi) \div 2 IN ExecR(P, C, b, mid + 1, hi, ExecR(P, C, b, lo, mid, st))
ExecB(P, C, b, st) == ExecR(P, C, b, 1, Len(b), st)

\* one iteration of loop s (body, continuing, break-if); sig "ldone" = the loop has been left normally
LoopIter(P, C, s, st, first) ==
  IF ~Running(st) THEN st
  ELSE IF st.fuel = 0 THEN Abandon(st, "fuel")
  ELSE LET r == ExecB(P, C, s.b, [st EXCEPT !.fuel = @ - 1, !.pred = [k |-> "loop", back |-> ~first]]) IN
       IF r.sig = "brk" THEN [r EXCEPT !.sig = "ldone"]
       ELSE IF r.sig \notin {"n", "cont"} THEN r
       ELSE LET c == ExecB(P, C, s.c, [r EXCEPT !.sig = "n"]) IN
            IF ~Running(c) THEN (IF c.sig \in {"brk", "cont"} THEN Abandon([c EXCEPT !.sig = "n"], "stuck:break or continue in a continuing block") ELSE c)
            ELSE IF s.bi < 0 THEN c
            ELSE LET bi == Use(P, C, s.bi, c) IN
                 IF ~Running(bi[2]) THEN bi[2] ELSE IF bi[1] = 1 THEN [bi[2] EXCEPT !.sig = "ldone"] ELSE bi[2]
\* up to 2^k further iterations (none of them the first)
LoopPow(P, C, s, st, k) ==
  IF ~Running(st) THEN st
  ELSE IF k = 0 THEN LoopIter(P, C, s, st, FALSE)
  ELSE LoopPow(P, C, s, LoopPow(P, C, s, st, k - 1), k - 1)
\* the whole loop: the fuel (at most FuelI iterations) stops it before 2^9 iterations are used up
LoopRun(P, C, s, st) ==
  LET r == LoopPow(P, C, s, LoopIter(P, C, s, st, TRUE), 9) IN
  IF r.sig = "ldone" THEN [r EXCEPT !.sig = "n"] ELSE IF Running(r) THEN Abandon(r, "fuel") ELSE r

\* executes case i and, while it falls through, the following ones; returns <<st, index of the last executed case>>
RunCases(P, C, cases, i, st) ==
  LET r == ExecB(P, C, cases[i].b, st) IN
  IF Running(r) /\ cases[i].ft = 1 /\ i < Len(cases) THEN RunCases(P, C, cases, i + 1, r) ELSE <<r, i>>

InitLocals(P, C, i, st) ==
  IF i > Len(C.F.locals) \/ ~Running(st) THEN st
  ELSE LET l == C.F.locals[i]
           t == TT(P, l.ty)
       IN  IF l.init >= 0
           THEN LET v == Use(P, C, l.init, st) IN
                InitLocals(P, C, i + 1, IF Running(v[2]) THEN [v[2] EXCEPT !.mem[C.lbase + i] = v[1]] ELSE v[2])
           ELSE IF ~Sized(t) THEN Abandon(st, "undecided:local variable of a type outside the covered fragment")
           ELSE InitLocals(P, C, i + 1, [st EXCEPT !.mem[C.lbase + i] = ZeroOfT(t)])

\* call of function F with argument values; returns the state of the caller after the call (rv = the result)
CallFn(P, fi, args, st) ==
  IF st.fuel = 0 THEN Abandon(st, "fuel")
  ELSE IF ~InR(fi, Len(P.fns)) THEN Abandon(st, "stuck:call target out of range")
  ELSE IF P.fes[fi + 1] # {} THEN Abandon(st, "stuck:call of a function that is not well-formed")
  ELSE IF Len(args) # Len(P.fns[fi + 1].args) THEN Abandon(st, "stuck:call with the wrong number of arguments")
  ELSE LET F == P.fns[fi + 1]
           C == [F |-> F, et |-> P.fet[fi + 1], em |-> P.fem[fi + 1], args |-> args, lbase |-> Len(st.mem), nv |-> NoVals(F)]
           st0 == [st EXCEPT !.fuel = @ - 1, !.vals = NoVals(F), !.tmp = NoVals(F), !.pred = NoPred,
                             !.mem = @ \o [i \in 1 .. Len(F.locals) |-> 0]]
           st1 == InitLocals(P, C, 1, st0)
           r == ExecB(P, C, F.body, st1)
       IN  IF Abandoned(r) THEN Abandon(st, r.sig)
           ELSE IF r.sig \in {"brk", "cont"} THEN Abandon(st, "stuck:break or continue outside a loop")
           ELSE [r EXCEPT !.sig = "n", !.vals = st.vals, !.tmp = st.tmp, !.pred = st.pred, !.mem = SubSeq(@, 1, Len(st.mem))]

AtomicNew(f, sk, old, v) ==
  CASE f = "Add" -> Add32(old, v)
    [] f = "Subtract" -> Sub32(old, v)
    [] f = "And" -> And32(old, v)
    [] f = "ExclusiveOr" -> Xor32(old, v)
    [] f = "InclusiveOr" -> Or32(old, v)
    [] f = "Min" -> IF sk = "i32" THEN MinS(old, v) ELSE MinU(old, v)
    [] f = "Max" -> IF sk = "i32" THEN MaxS(old, v) ELSE MaxU(old, v)
    [] OTHER -> v                                                        \* Exchange, Store

ExecS(P, C, s, st0) ==
  IF ~Running(st0) THEN st0
  ELSE
  LET TyH(x) == IF InR(x, Len(C.et)) THEN C.et[x + 1] ELSE Bad
      st == [st0 EXCEPT !.tmp = C.nv]          \* values of un-emitted expressions are kept for one statement only
  IN
  CASE s.k = "Emit" -> IF s.s >= 0 /\ s.s <= s.e /\ s.e <= Len(C.F.exprs) THEN EmitRange(P, C, s.s, s.e, st)
                       ELSE Abandon(st, "stuck:Emit range outside the expression arena")
    [] s.k = "Block" -> ExecB(P, C, s.b, st)
    [] s.k = "If" -> LET c == Use(P, C, s.c, st) IN
                     IF ~Running(c[2]) THEN c[2]
                     ELSE LET r == ExecB(P, C, IF c[1] = 1 THEN s.a ELSE s.r, c[2]) IN
                          [r EXCEPT !.pred = [k |-> "if", a |-> (c[1] = 1)]]
    [] s.k = "Switch" ->
         LET v == Use(P, C, s.sel, st) IN
         IF ~Running(v[2]) THEN v[2]
         ELSE LET hit == {i \in 1 .. Len(s.cases) : s.cases[i].def = 0 /\ s.cases[i].v = v[1]}
                  def == {i \in 1 .. Len(s.cases) : s.cases[i].def = 1}
                  pick == IF hit # {} THEN CHOOSE i \in hit : \A j \in hit : i <= j
                          ELSE IF def # {} THEN CHOOSE i \in def : \A j \in def : i <= j ELSE 0
              IN  IF pick = 0 THEN [v[2] EXCEPT !.pred = NoPred]
                  ELSE LET r == RunCases(P, C, s.cases, pick, v[2]) IN
                       [r[1] EXCEPT !.sig = IF @ = "brk" THEN "n" ELSE @, !.pred = [k |-> "switch", ci |-> r[2] - 1]]
    [] s.k = "Loop" -> LET r == LoopRun(P, C, s, st) IN [r EXCEPT !.pred = NoPred]
    [] s.k = "Break" -> [st EXCEPT !.sig = "brk"]
    [] s.k = "Continue" -> [st EXCEPT !.sig = "cont"]
    [] s.k = "Return" -> IF s.v < 0 THEN [st EXCEPT !.sig = "ret"]
                         ELSE LET v == Use(P, C, s.v, st) IN
                              IF Running(v[2]) THEN [v[2] EXCEPT !.sig = "ret", !.rv = v[1]] ELSE v[2]
    [] s.k = "Kill" -> Abandon(st, "undecided:kill")
    [] s.k = "Barrier" -> st
    [] s.k = "Store" ->
         LET p == Use(P, C, s.p, st)
             v == Use(P, C, s.v, p[2])
         IN  IF ~Running(v[2]) THEN v[2]
             ELSE IF ~IsPtr(TyH(s.p)) THEN Abandon(v[2], "stuck:store through something that is not a pointer")
             ELSE [v[2] EXCEPT !.mem[p[1].root] = SetPath(@, p[1].path, v[1])]
    [] s.k = "Call" ->
         LET as == UseAll(P, C, s.args, 1, <<<<>>, st>>) IN
         IF ~Running(as[2]) THEN as[2]
         ELSE IF ~InR(s.f, Len(P.fns)) THEN Abandon(as[2], "stuck:call of a function handle out of range")
         ELSE LET r == CallFn(P, s.f, as[1], as[2]) IN
              IF ~Running(r) \/ s.res < 0 THEN r
              ELSE IF ~InR(s.res, Len(C.F.exprs)) THEN Abandon(r, "stuck:call result handle out of range")
              ELSE [r EXCEPT !.vals[s.res + 1] = <<r.rv>>]
    [] s.k = "Atomic" ->
         LET p == Use(P, C, s.p, st)
             v == IF s.f = "Load" THEN <<0, p[2]>> ELSE Use(P, C, s.v, p[2])
             c == IF s.cmp >= 0 THEN Use(P, C, s.cmp, v[2]) ELSE <<0, v[2]>>
             tp == TyH(s.p)
         IN  IF ~Running(c[2]) THEN c[2]
             ELSE IF ~(IsPtr(tp) /\ tp.e.k = "atomic") THEN Abandon(c[2], "stuck:atomic on something that is not a pointer to an atomic")
             ELSE IF s.f = "Other" THEN Abandon(c[2], "undecided:atomic function")
             ELSE LET old == GetPath(c[2].mem[p[1].root], p[1].path)
                      doit == s.f # "Load" /\ (s.cmp < 0 \/ old = c[1])
                      new == IF doit THEN AtomicNew(s.f, tp.e.e.k, old, v[1]) ELSE old
                      st2 == [c[2] EXCEPT !.mem[p[1].root] = SetPath(@, p[1].path, new)]
                      res == IF s.cmp >= 0 THEN <<old, B(old = c[1])>> ELSE old
                  IN  IF s.res < 0 THEN st2
                      ELSE IF ~InR(s.res, Len(C.F.exprs)) THEN Abandon(st2, "stuck:atomic result handle out of range")
                      ELSE [st2 EXCEPT !.vals[s.res + 1] = <<res>>]
    [] OTHER -> Abandon(st, "undecided:statement outside the covered fragment:" \o s.k)

(***************************************************************************)
(* Preparing a module and running an entry point.                          *)
(***************************************************************************)
Prep(M) ==
  LET P0 == [types |-> M.types, consts |-> M.consts, globals |-> M.globals, fns |-> M.fns, eps |-> M.eps,
             noverrides |-> M.noverrides, T |-> TypeTable(M),
             GF |-> [name |-> "<global expressions>", args |-> <<>>, result |-> -1, locals |-> <<>>, exprs |-> M.gexprs, body |-> <<>>]]
      fet == Force([i \in 1 .. Len(M.fns) |-> ExprTypes(P0, M.fns[i])])
      eet == Force([i \in 1 .. Len(M.eps) |-> ExprTypes(P0, M.eps[i].fn)])
  IN  [types |-> P0.types, consts |-> P0.consts, globals |-> P0.globals, fns |-> P0.fns, eps |-> P0.eps, noverrides |-> P0.noverrides,
       T |-> P0.T, GF |-> P0.GF, get |-> ExprTypes(P0, P0.GF),
       gem |-> Force([i \in 1 .. Len(M.gexprs) |-> FALSE]), gnv |-> Force([i \in 1 .. Len(M.gexprs) |-> <<>>]),
       fet |-> fet, fem |-> Force([i \in 1 .. Len(M.fns) |-> Emitted(M.fns[i])]),
       eet |-> eet, eem |-> Force([i \in 1 .. Len(M.eps) |-> Emitted(M.eps[i].fn)]),
       \* the ill-formed spots of every function (FnErrs uses guarded dereferences only); the evaluator never enters a
       \* function that has one, so that running a module is total whatever a pass left behind
       fes |-> Force([i \in 1 .. Len(M.fns) |-> FnErrs(P0, M.fns[i], fet[i], "function " \o M.fns[i].name)]),
       ees |-> Force([i \in 1 .. Len(M.eps) |-> FnErrs(P0, M.eps[i].fn, eet[i], "entry point " \o M.eps[i].name)])]

\* every ill-formed spot of the module (the empty set: well-formed)
WFErrors(P) ==
  (IF \E i \in 1 .. Len(P.T) : IsBad(P.T[i]) THEN {"types: a type refers to a handle out of range (or cyclically)"} ELSE {})
  \cup (IF \E i \in 1 .. Len(P.consts) : IsBad(TT(P, P.consts[i].ty)) \/ ~InR(P.consts[i].init, Len(P.GF.exprs))
        THEN {"constants: type or init handle out of range"} ELSE {})
  \cup (IF \E i \in 1 .. Len(P.globals) : IsBad(TT(P, P.globals[i].ty)) \/ (P.globals[i].init >= 0 /\ ~InR(P.globals[i].init, Len(P.GF.exprs)))
        THEN {"global variables: type or init handle out of range"} ELSE {})
  \cup FnErrs(P, P.GF, P.get, "global expressions")
  \cup UNION {P.fes[i] : i \in 1 .. Len(P.fns)}
  \cup UNION {P.ees[i] : i \in 1 .. Len(P.eps)}

IsBufferG(g) == g.space \in {"storage", "uniform"}
BufIndex(bufs, g) == LET s == {b \in 1 .. Len(bufs) : bufs[b][1] = g.group /\ bufs[b][2] = g.binding} IN
                     IF s = {} THEN 0 ELSE CHOOSE b \in s : TRUE

BuiltinValI(b, t) == IF b = "num_workgroups" THEN <<1, 1, 1>> ELSE ZeroOfT(t)

RECURSIVE InitGlobalsI(_, _, _, _, _)
\* returns <<mem, why>> (why = "" when every global could be set up)
InitGlobalsI(P, bufs, row, i, acc) ==
  IF i > Len(P.globals) \/ acc[2] # "" THEN acc
  ELSE LET g == P.globals[i]
           t == TT(P, g.ty)
           b == BufIndex(bufs, g)
       IN  IF IsBufferG(g)
           THEN IF IsUnk(t) \/ IsBad(t) \/ ~BufOK(t) THEN InitGlobalsI(P, bufs, row, i + 1, <<Append(acc[1], 0), "undecided:buffer type outside the covered fragment">>)
                ELSE IF b = 0 THEN InitGlobalsI(P, bufs, row, i + 1, <<Append(acc[1], 0), "undecided:no input buffer for a bound global">>)
                ELSE IF NeedBytes(t) > 4 * Len(row[b]) THEN InitGlobalsI(P, bufs, row, i + 1, <<Append(acc[1], 0), "undecided:input buffer smaller than the variable">>)
                ELSE InitGlobalsI(P, bufs, row, i + 1, <<Append(acc[1], UnflatI(t, row[b], 0)), "">>)
           ELSE IF g.space \in {"private", "workgroup"} /\ ~IsUnk(t) /\ ~IsBad(t) /\ Sized(t)
                THEN IF g.init >= 0
                     THEN LET r == Use(P, GC(P), g.init, [mem |-> acc[1], fuel |-> 100, sig |-> "n", rv |-> 0, vals |-> P.gnv, tmp |-> P.gnv, pred |-> NoPred])
                          IN  InitGlobalsI(P, bufs, row, i + 1, <<Append(acc[1], r[1]), IF Running(r[2]) THEN "" ELSE r[2].sig>>)
                     ELSE InitGlobalsI(P, bufs, row, i + 1, <<Append(acc[1], ZeroOfT(t)), "">>)
           ELSE InitGlobalsI(P, bufs, row, i + 1, <<Append(acc[1], 0), "">>)      \* never read: its GlobalVariable expression is typed unk

FuelI == 160

\* final state of running entry point number epi (1-based) on one input row
RunStateI(P, epi, bufs, row) ==
  LET g == InitGlobalsI(P, bufs, row, 1, <<<<>>, "">>)
      F == P.eps[epi].fn
      base == [mem |-> g[1], fuel |-> FuelI, sig |-> "n", rv |-> 0, vals |-> NoVals(F), tmp |-> NoVals(F), pred |-> NoPred]
  IN  IF P.ees[epi] # {} THEN [base EXCEPT !.sig = "stuck:the entry point is not well-formed"]
      ELSE IF g[2] # "" THEN [base EXCEPT !.sig = g[2]]
      ELSE IF \E i \in 1 .. Len(F.args) : ~(LET t == TT(P, F.args[i].ty) IN ~IsUnk(t) /\ ~IsBad(t) /\ Sized(t))
           THEN [base EXCEPT !.sig = "undecided:entry point argument outside the covered fragment"]
      ELSE LET C == [F |-> F, et |-> P.eet[epi], em |-> P.eem[epi],
                     args |-> [i \in 1 .. Len(F.args) |-> BuiltinValI(F.args[i].builtin, TT(P, F.args[i].ty))], lbase |-> Len(g[1]), nv |-> NoVals(F)]
               st0 == [base EXCEPT !.mem = @ \o [i \in 1 .. Len(F.locals) |-> 0]]
               r == ExecB(P, C, F.body, InitLocals(P, C, 1, st0))
           IN  IF r.sig \in {"brk", "cont"} THEN Abandon([r EXCEPT !.sig = "n"], "stuck:break or continue outside a loop") ELSE r

EpIndex(P, name) == LET s == {i \in 1 .. Len(P.eps) : P.eps[i].name = name} IN IF s = {} THEN 0 ELSE CHOOSE i \in s : TRUE

\* what is compared: per input buffer (in the order of bufs) the final words and the mask of decided words
RunI(P, ep, bufs, row) ==
  LET epi == EpIndex(P, ep) IN
  IF epi = 0 THEN [ok |-> FALSE, why |-> "stuck:entry point missing", out |-> <<>>, mask |-> <<>>]
  ELSE
  LET st == RunStateI(P, epi, bufs, row)
      ok == ~Abandoned(st)
      GOf(b) == {i \in 1 .. Len(P.globals) : IsBufferG(P.globals[i]) /\ BufIndex(bufs, P.globals[i]) = b}
  IN  [ ok |-> ok, why |-> IF ok THEN "" ELSE st.sig,
        out |-> IF ok THEN Force([b \in 1 .. Len(bufs) |->
                              IF GOf(b) = {} THEN row[b]
                              ELSE LET i == CHOOSE i \in GOf(b) : TRUE IN FlatWordsI(TT(P, P.globals[i].ty), st.mem[i], row[b])])
                ELSE <<>>,
        mask |-> IF ok THEN Force([b \in 1 .. Len(bufs) |->
                              IF GOf(b) = {} THEN Force([w \in 1 .. Len(row[b]) |-> 0])
                              ELSE LET i == CHOOSE i \in GOf(b) : TRUE IN FlatMaskI(TT(P, P.globals[i].ty), st.mem[i], Len(row[b]))])
                 ELSE <<>> ]

=============================================================================
