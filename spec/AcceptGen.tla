------------------------------ MODULE AcceptGen ------------------------------
(***************************************************************************)
(* The Accept family of property C08: a module builder as a state machine. *)
(*                                                                         *)
(* A state is the description of one WGSL module: resources, helper        *)
(* functions, entry points (stage, stage interface, body operations with   *)
(* the control-flow context each one sits in), syntax variations and the   *)
(* declaration order.  TLC enumerates the reachable descriptions           *)
(* (exhaustively at small bounds, by seeded simulation beyond), checks on  *)
(* every one the WGSL validity conditions the builder is meant to maintain *)
(* (the invariants below, stated independently of the action guards), and  *)
(* prints every description that has an entry point as one JSON line       *)
(* together with the features each entry point statically uses.  The       *)
(* harness renders WGSL text from the line and replays it into naga; the   *)
(* recorded calls are validated against Naga.tla / NagaTrace.tla.          *)
(*                                                                         *)
(* Validity conditions (WGSL, W3C): sections "Resource interface"          *)
(* (two resources statically used by ONE entry point must differ in        *)
(* (group, binding); different entry points may reuse a pair), "Built-in    *)
(* values" (stage and direction of each built-in), "User-defined inputs    *)
(* and outputs" (locations unique per direction, integer IO is flat),      *)
(* "Uniformity" (implicit-derivative sampling, derivatives and barriers    *)
(* only in uniform control flow), "Address spaces" (workgroup: compute     *)
(* only; storage read_write and atomics: not in vertex shaders (WebGPU)),  *)
(* "Declaration and scope" (module-scope declarations may be used before   *)
(* their declaration; a local may shadow an outer let / var / parameter /  *)
(* module-scope name / predeclared function), "break" (allowed in loop and *)
(* in switch), "continue" (loop only, not needed to leave a switch).       *)
(***************************************************************************)
EXTENDS Integers, Sequences, FiniteSets, TLC, Json, SequencesExt

CONSTANTS ResKinds,      \* resource kinds the builder may declare
          Groups, Bindings,
          Formats,       \* texel formats of storage textures (indices into the renderer's table; 0 for every other kind)
          MaxRes, MaxHelpers, MaxEntries, MaxOps, MaxIO, MaxSyn,
          HelperShapes,  \* helper shapes the builder may add
          StagesC,       \* stages of entry points
          OpKinds,       \* body operations
          CtlKinds,      \* control-flow contexts of an operation
          IOKinds,       \* subset of {"builtin", "loc"}
          IOLocs, IOTypes, IOInterps,   \* locations, types and interpolation attributes of user-defined IO
          SynForms,      \* syntax variations
          Orders         \* declaration orders: "decl_first", "use_first"

VARIABLES res,      \* sequence of [k, g, b, f]                       (strictly increasing in (k, g, b): a set)
          helpers,  \* sequence of [shape, r]                         (r: resource index for "uses_res", else 0)
          entries,  \* sequence of [stage, ops, ins, outs, inForm, outForm]
          syn,      \* set of syntax variations
          order     \* declaration order
vars == <<res, helpers, entries, syn, order>>

\* ---------------------------------------------------------------- vocabulary
AllResKinds == <<"uniform", "storage_ro", "storage_rw", "atomic", "tex2d", "texdepth", "texstorage", "sampler", "sampler_cmp",
                 "workgroup", "private">>
AllShapes == <<"value_params", "ptr_function", "ptr_private", "ptr_compound_assign", "early_return", "switch_break_in_loop", "switch_break_noloop",
               "switch_continue_in_loop", "switch_nested_break_after", "switch_nested_break_direct", "switch_in_continuing",
               "switch_in_continuing_nested_break", "shadow_let", "shadow_var", "shadow_param", "shadow_global", "shadow_builtin_fn",
               "user_fn_named_builtin", "fwd_fn", "fwd_const", "fwd_struct", "fwd_alias", "alias_chain",
               "const_composite_index_member", "const_matrix_elem",
               "shadow_fwd_let_const", "shadow_fwd_const_const", "shadow_fwd_const_abstract", "shadow_fwd_var_private", "shadow_fwd_let_override",
               "shadow_fwd_block", "shadow_fwd_loop", "shadow_fwd_for_init", "shadow_block_leak", "uses_res">>
\* shadow_fwd_*: a local let / var / const spelled like a module-scope const / var<private> / override and initialised FROM
\* that module-scope declaration (the scope of a local starts after its declaration statement, so the initialiser denotes
\* the module-scope one), at function top level, in a nested block, in a loop body, in a for initialiser; the module-scope
\* declaration stands before the function (order "decl_first") or after it ("use_first": shadowing and forward reference
\* together).  shadow_block_leak: a block-scoped local of that spelling, and the module-scope one used after the block.
\* module-scope declarations a helper shape brings with it (features of Naga.tla)
ShapeFeats(s) == CASE s \in {"ptr_private", "shadow_fwd_var_private", "shadow_fwd_loop"} -> {"private"}
                   [] s = "shadow_fwd_let_override" -> {"override"}
                   [] OTHER -> {}
AllOps == <<"read", "write", "atomic", "array_length", "sample", "sample_level", "sample_cmp", "sample_cmp_level", "tex_load",
            "tex_dims", "tex_store", "barrier", "derivative", "derivative_ctl", "discard", "call">>
AllCtl == <<"top", "if_uniform", "if_nonuniform", "loop", "switch", "switch_nested">>
\* "switch_nested": the operation follows, in an outer switch clause, a complete nested switch and a conditional break of the
\* outer switch (non-uniform selector).  switch_nested_* / switch_in_continuing* helper shapes: the same patterns in helper
\* functions (the only function bodies ir.Validate walks), incl. a switch inside a loop's continuing block - a `break` there
\* leaves the switch, not the continuing block, and is valid.
IdxIn(seq, x) == CHOOSE i \in 1 .. Len(seq) : seq[i] = x

Bound(k) == k \notin {"workgroup", "private"}
\* the second resource an operation needs (a sampler), by kind; "" = none
SamplerKindOf(op) == CASE op \in {"sample", "sample_level"} -> "sampler"
                       [] op \in {"sample_cmp", "sample_cmp_level"} -> "sampler_cmp"
                       [] OTHER -> ""
\* kinds of the first resource of an operation ({} = the operation has no resource)
ResKindsOf(op) == CASE op = "read" -> {"uniform", "storage_ro", "storage_rw", "private", "workgroup"}
                    [] op = "write" -> {"storage_rw", "private", "workgroup"}
                    [] op = "atomic" -> {"atomic"}
                    [] op = "array_length" -> {"storage_ro", "storage_rw"}
                    [] op \in {"sample", "sample_level"} -> {"tex2d"}
                    [] op \in {"sample_cmp", "sample_cmp_level"} -> {"texdepth"}
                    [] op = "tex_load" -> {"tex2d", "texdepth"}
                    [] op = "tex_dims" -> {"tex2d", "texdepth", "texstorage"}
                    [] op = "tex_store" -> {"texstorage"}
                    [] OTHER -> {}
\* operations that need uniform control flow (WGSL "Uniformity": implicit derivatives, barriers)
UniformOnly(op) == op \in {"sample", "sample_cmp", "derivative", "derivative_ctl", "barrier"}
UniformCtl(c) == c \in {"top", "if_uniform"}
\* stage restrictions of operations and of resource kinds
OpStageOK(op, st) == CASE op \in {"sample", "sample_cmp", "derivative", "derivative_ctl", "discard"} -> st = "fragment"
                       [] op = "barrier" -> st = "compute"
                       [] op \in {"tex_store", "atomic"} -> st \in {"fragment", "compute"}
                       [] OTHER -> TRUE
KindStageOK(k, st) == CASE k = "workgroup" -> st = "compute"
                        [] k \in {"storage_rw", "atomic", "texstorage"} -> st \in {"fragment", "compute"}
                        [] OTHER -> TRUE

\* ---------------------------------------------------------------- stage interface
Builtins == <<"position", "vertex_index", "instance_index", "front_facing", "frag_depth", "sample_index", "sample_mask",
              "local_invocation_id", "local_invocation_index", "global_invocation_id", "workgroup_id", "num_workgroups">>
BuiltinType(b) == CASE b = "position" -> "vec4f"
                    [] b \in {"vertex_index", "instance_index", "sample_index", "sample_mask", "local_invocation_index"} -> "u32"
                    [] b = "front_facing" -> "bool"
                    [] b = "frag_depth" -> "f32"
                    [] OTHER -> "vec3u"
\* WGSL "Built-in values" table: stage and direction
BuiltinOK(st, dir, b) ==
  CASE st = "vertex" /\ dir = "in" -> b \in {"vertex_index", "instance_index"}
    [] st = "vertex" /\ dir = "out" -> b = "position"
    [] st = "fragment" /\ dir = "in" -> b \in {"position", "front_facing", "sample_index", "sample_mask"}
    [] st = "fragment" /\ dir = "out" -> b \in {"frag_depth", "sample_mask"}
    [] st = "compute" /\ dir = "in" -> b \in {"local_invocation_id", "local_invocation_index", "global_invocation_id", "workgroup_id",
                                              "num_workgroups"}
    [] OTHER -> FALSE
\* types of user-defined IO: "f32", "vec2f", "vec3f", "vec4f", "i32", "u32", "vec2i", "vec4u"
IsIntType(t) == t \in {"i32", "u32", "vec2i", "vec4u"}
\* interpolation attributes: "" (none), "flat", "linear", "perspective", "linear_centroid", "perspective_sample",
\* "perspective_center", "linear_sample"
\* interpolation attributes matter (and integer IO has to be flat) between the vertex and the fragment stage
Interpolated(st, dir) == (st = "vertex" /\ dir = "out") \/ (st = "fragment" /\ dir = "in")
\* an IO item: [b: builtin name or "", loc, ty, interp, inv]
BuiltinItem(b, inv) == [b |-> b, loc |-> 0, ty |-> BuiltinType(b), interp |-> "", inv |-> inv]
LocItem(n, ty, ip) == [b |-> "", loc |-> n, ty |-> ty, interp |-> ip, inv |-> FALSE]
ItemOK(st, dir, it) ==
  IF it.b # "" THEN BuiltinOK(st, dir, it.b) /\ (it.inv => it.b = "position") /\ it.interp = ""
  ELSE /\ st # "compute"
       /\ ~it.inv
       /\ (it.interp # "" => Interpolated(st, dir))
       /\ ((IsIntType(it.ty) /\ Interpolated(st, dir)) => it.interp = "flat")
ItemsOK(st, dir, items) ==
  /\ \A i \in 1 .. Len(items) : ItemOK(st, dir, items[i])
  /\ \A i, j \in 1 .. Len(items) : (i # j /\ items[i].b = "" /\ items[j].b = "") => items[i].loc # items[j].loc   \* locations unique per direction
  /\ \A i, j \in 1 .. Len(items) : (i # j /\ items[i].b # "") => items[i].b # items[j].b                      \* a built-in at most once

\* ---------------------------------------------------------------- static use
HelperRes(h) == IF helpers[h].shape = "uses_res" THEN {helpers[h].r} ELSE {}
OpRes(o) == (IF o.r > 0 THEN {o.r} ELSE {}) \cup (IF o.r2 > 0 THEN {o.r2} ELSE {}) \cup (IF o.op = "call" THEN HelperRes(o.h) ELSE {})
StaticUse(e) == UNION {OpRes(e.ops[i]) : i \in 1 .. Len(e.ops)}

\* ---------------------------------------------------------------- the builder
Init == /\ res = <<>> /\ helpers = <<>> /\ entries = <<>> /\ syn = {}
        /\ order \in Orders

ResKey(r) == <<IdxIn(AllResKinds, r.k), r.g, r.b>>
Less3(a, b) == a[1] < b[1] \/ (a[1] = b[1] /\ (a[2] < b[2] \/ (a[2] = b[2] /\ a[3] < b[3])))
AddResource(k, g, b, f) ==
  /\ entries = <<>> /\ helpers = <<>>
  /\ Len(res) < MaxRes
  /\ (k # "texstorage" => f = 0)
  /\ LET r == [k |-> k, g |-> IF Bound(k) THEN g ELSE 0, b |-> IF Bound(k) THEN b ELSE 0, f |-> f] IN
     /\ (~Bound(k) => g = 0 /\ b = 0)
     /\ (res # <<>> => Less3(ResKey(res[Len(res)]), ResKey(r)))
     /\ res' = Append(res, r)
  /\ UNCHANGED <<helpers, entries, syn, order>>

HelperKey(h) == <<IdxIn(AllShapes, h.shape), h.r, 0>>
AddHelper(shape, r) ==
  /\ entries = <<>>
  /\ Len(helpers) < MaxHelpers
  /\ IF shape = "uses_res"
     THEN r \in 1 .. Len(res) /\ res[r].k \in {"uniform", "storage_ro", "storage_rw", "private", "tex2d"}
     ELSE r = 0
  /\ LET h == [shape |-> shape, r |-> r] IN
     /\ (helpers # <<>> => Less3(HelperKey(helpers[Len(helpers)]), HelperKey(h)))
     /\ helpers' = Append(helpers, h)
  /\ UNCHANGED <<res, entries, syn, order>>

\* a vertex shader returns @builtin(position); everything else starts empty
AddEntryPoint(st, inv) ==
  /\ Len(entries) < MaxEntries
  /\ (inv => st = "vertex")
  /\ entries' = Append(entries, [stage |-> st, ops |-> <<>>, ins |-> <<>>,
                                 outs |-> IF st = "vertex" THEN <<BuiltinItem("position", inv)>> ELSE <<>>,
                                 inForm |-> "params", outForm |-> IF st = "vertex" THEN "direct" ELSE "none"])
  /\ UNCHANGED <<res, helpers, syn, order>>

CurE == entries[Len(entries)]
SetLast(e) == entries' = [entries EXCEPT ![Len(entries)] = e]

OpKey(o) == <<IdxIn(AllOps, o.op) * 8 + IdxIn(AllCtl, o.cf), o.r * 16 + o.r2, o.h>>
AddOp(op, r, r2, h, cf) ==
  /\ entries # <<>>
  /\ Len(CurE.ops) < MaxOps
  /\ OpStageOK(op, CurE.stage)
  /\ (UniformOnly(op) => UniformCtl(cf))
  /\ IF ResKindsOf(op) = {} THEN r = 0
     ELSE r \in 1 .. Len(res) /\ res[r].k \in ResKindsOf(op) /\ KindStageOK(res[r].k, CurE.stage)
  /\ IF SamplerKindOf(op) = "" THEN r2 = 0 ELSE r2 \in 1 .. Len(res) /\ res[r2].k = SamplerKindOf(op)
  /\ IF op = "call"
     THEN h \in 1 .. Len(helpers) /\ \A x \in HelperRes(h) : KindStageOK(res[x].k, CurE.stage)
     ELSE h = 0
  /\ LET o == [op |-> op, r |-> r, r2 |-> r2, h |-> h, cf |-> cf]
         used == StaticUse(CurE) \cup OpRes(o) IN
     /\ (CurE.ops # <<>> => Less3(OpKey(CurE.ops[Len(CurE.ops)]), OpKey(o)))
     \* resource interface: the resources one entry point statically uses differ in (group, binding)
     /\ \A x, y \in used : (x # y /\ Bound(res[x].k) /\ Bound(res[y].k)) => <<res[x].g, res[x].b>> # <<res[y].g, res[y].b>>
     /\ SetLast([CurE EXCEPT !.ops = Append(@, o)])
  /\ UNCHANGED <<res, helpers, syn, order>>

AddIO(dir, it, form) ==
  /\ entries # <<>>
  /\ CurE.ops = <<>>                                  \* interface first, then the body (canonical order of construction)
  /\ Len(CurE.ins) + Len(CurE.outs) < MaxIO
  /\ IF dir = "in"
     THEN /\ CurE.outs = (IF CurE.stage = "vertex" THEN <<CurE.outs[1]>> ELSE <<>>)   \* inputs before further outputs
          /\ ItemsOK(CurE.stage, "in", Append(CurE.ins, it))
          /\ form \in {"params", "struct", "mixed"}
          /\ (form = "mixed" => Len(CurE.ins) >= 1)
          /\ SetLast([CurE EXCEPT !.ins = Append(@, it), !.inForm = form])
     ELSE /\ ItemsOK(CurE.stage, "out", Append(CurE.outs, it))
          /\ form = (IF Len(CurE.outs) = 0 THEN "direct" ELSE "struct")
          /\ SetLast([CurE EXCEPT !.outs = Append(@, it), !.outForm = form])
  /\ UNCHANGED <<res, helpers, syn, order>>

\* a syntax variation needs a site in the module it can be applied to
HasKind(ks) == \E i \in 1 .. Len(res) : res[i].k \in ks
HasBound == \E i \in 1 .. Len(res) : Bound(res[i].k)
HasStage(st) == \E i \in 1 .. Len(entries) : entries[i].stage = st
HasLoc == \E i \in 1 .. Len(entries) : (\E j \in 1 .. Len(entries[i].ins) : entries[i].ins[j].b = "")
                                       \/ (\E j \in 1 .. Len(entries[i].outs) : entries[i].outs[j].b = "")
HasBuiltin == \E i \in 1 .. Len(entries) : (\E j \in 1 .. Len(entries[i].ins) : entries[i].ins[j].b # "")
                                           \/ (\E j \in 1 .. Len(entries[i].outs) : entries[i].outs[j].b # "")
HasInterp == \E i \in 1 .. Len(entries) : (\E j \in 1 .. Len(entries[i].ins) : entries[i].ins[j].interp # "")
                                          \/ (\E j \in 1 .. Len(entries[i].outs) : entries[i].outs[j].interp # "")
SynSite(f) ==
  CASE f \in {"cattr_binding", "cattr_group", "attr_lit_u", "attr_lit_hex", "tc_attr_binding", "tc_tmpl_var"} -> HasBound
    [] f \in {"cattr_wgsize", "tc_attr_wg"} -> HasStage("compute")
    [] f \in {"cattr_location", "tc_attr_loc"} -> HasLoc
    [] f = "tc_attr_interp" -> HasInterp
    [] f = "tc_attr_builtin" -> HasBuiltin
    [] f = "tc_tmpl_tex" -> HasKind({"tex2d", "texstorage"})
    [] f = "tc_tmpl_atomic" -> HasKind({"atomic"})
    [] OTHER -> TRUE      \* the renderer adds a syntax helper function that carries the form
AddSyn(f) ==
  /\ entries # <<>>
  /\ Cardinality(syn) < MaxSyn
  /\ f \notin syn
  /\ SynSite(f)
  /\ syn' = syn \cup {f}
  /\ UNCHANGED <<res, helpers, entries, order>>

IOChoices(st, dir) ==
  {BuiltinItem(b, FALSE) : b \in {Builtins[i] : i \in 1 .. Len(Builtins)}}
  \cup {LocItem(n, t, ip) : n \in IOLocs, t \in IOTypes, ip \in IOInterps}

Next ==
  \/ \E k \in ResKinds, g \in Groups, b \in Bindings, f \in Formats \cup {0} : AddResource(k, g, b, f)
  \/ \E s \in HelperShapes : \E r \in 0 .. Len(res) : AddHelper(s, r)
  \/ \E st \in StagesC : \E inv \in BOOLEAN : AddEntryPoint(st, inv)
  \/ \E op \in OpKinds : \E r, r2 \in 0 .. Len(res) : \E h \in 0 .. Len(helpers) : \E cf \in CtlKinds : AddOp(op, r, r2, h, cf)
  \/ IOKinds # {} /\ entries # <<>> /\
       \E dir \in {"in", "out"} : \E it \in {x \in IOChoices(CurE.stage, dir) : (x.b # "" /\ "builtin" \in IOKinds) \/ (x.b = "" /\ "loc" \in IOKinds)} :
         \E form \in {"params", "struct", "mixed", "direct"} : AddIO(dir, it, form)
  \/ \E f \in SynForms : AddSyn(f)
Spec == Init /\ [][Next]_vars

\* ---------------------------------------------------------------- validity conditions (invariants)
\* W1 resource interface: per entry point, statically used resources (through helper calls too) differ in (group, binding)
BindingsDistinctPerEntry ==
  \A i \in 1 .. Len(entries) : \A x, y \in StaticUse(entries[i]) :
    (x # y /\ Bound(res[x].k) /\ Bound(res[y].k)) => <<res[x].g, res[x].b>> # <<res[y].g, res[y].b>>
\* W2 stage interface
InterfaceValid ==
  \A i \in 1 .. Len(entries) : LET e == entries[i] IN
    /\ ItemsOK(e.stage, "in", e.ins) /\ ItemsOK(e.stage, "out", e.outs)
    /\ (e.stage = "vertex" => \E j \in 1 .. Len(e.outs) : e.outs[j].b = "position")
    /\ (e.stage = "compute" => e.outs = <<>>)
    /\ (e.outForm = "direct" <=> Len(e.outs) = 1) /\ (e.outForm = "none" <=> e.outs = <<>>)
\* W3 uniformity
UniformityRespected ==
  \A i \in 1 .. Len(entries) : \A j \in 1 .. Len(entries[i].ops) :
    UniformOnly(entries[i].ops[j].op) => entries[i].ops[j].cf \in {"top", "if_uniform"}
\* W4 stages of operations and address spaces
StagesRespected ==
  \A i \in 1 .. Len(entries) : LET e == entries[i] IN
    /\ \A j \in 1 .. Len(e.ops) : OpStageOK(e.ops[j].op, e.stage)
    /\ \A x \in StaticUse(e) : KindStageOK(res[x].k, e.stage)
\* W5 operations are applied to resources of the right kind
OperandsTyped ==
  \A i \in 1 .. Len(entries) : \A j \in 1 .. Len(entries[i].ops) : LET o == entries[i].ops[j] IN
    /\ (o.r > 0 => res[o.r].k \in ResKindsOf(o.op))
    /\ (o.r2 > 0 => res[o.r2].k = SamplerKindOf(o.op))
    /\ (ResKindsOf(o.op) # {} => o.r > 0) /\ (SamplerKindOf(o.op) # "" => o.r2 > 0)
\* W6 declarations are unique: one resource per (kind, group, binding) key, unbound kinds once
DeclsUnique == \A i, j \in 1 .. Len(res) : i # j => <<res[i].k, res[i].g, res[i].b>> # <<res[j].k, res[j].g, res[j].b>>
WellTyped == BindingsDistinctPerEntry /\ InterfaceValid /\ UniformityRespected /\ StagesRespected /\ OperandsTyped /\ DeclsUnique

\* ---------------------------------------------------------------- features (the vocabulary of Naga.tla)
KindFeats(k) == CASE k = "uniform" -> {"uniform_buffer"}
                  [] k = "storage_ro" -> {"storage_buffer"}
                  [] k = "storage_rw" -> {"storage_buffer", "storage_rw"}
                  [] k = "atomic" -> {"storage_buffer", "storage_rw", "atomics"}
                  [] k = "tex2d" -> {"texture"}
                  [] k = "texdepth" -> {"texture", "depth_texture"}
                  [] k = "texstorage" -> {"storage_texture"}
                  [] k \in {"sampler", "sampler_cmp"} -> {"sampler"}
                  [] k = "workgroup" -> {"workgroup"}
                  [] OTHER -> {"private"}
ResFeats(i) == KindFeats(res[i].k) \cup (IF Bound(res[i].k) /\ res[i].g > 0 THEN {"group_nonzero"} ELSE {})
OpFeats(o) == CASE o.op \in {"sample", "sample_cmp"} -> {"sample_implicit"}
                [] o.op = "tex_dims" -> {"image_query"}
                [] o.op = "array_length" -> {"array_length"}
                [] o.op = "barrier" -> {"barrier"}
                [] o.op = "derivative" -> {"derivative"}
                [] o.op = "derivative_ctl" -> {"derivative", "derivative_control"}
                [] o.op = "discard" -> {"discard"}
                [] o.op = "call" -> ShapeFeats(helpers[o.h].shape)
                [] OTHER -> {}
CtlFeats(o) == IF o.cf \in {"if_nonuniform", "switch", "switch_nested"} THEN {"private"} ELSE {}   \* the non-uniform condition reads a private variable
ItemFeats(it) == (IF it.b \in {"sample_index", "sample_mask"} \/ it.interp \in {"perspective_sample", "linear_sample"} THEN {"sample_rate"} ELSE {})
                 \cup (IF it.inv THEN {"invariant"} ELSE {})
EntryFeats(e) == UNION ({ResFeats(x) : x \in StaticUse(e)}
                        \cup {OpFeats(e.ops[j]) \cup CtlFeats(e.ops[j]) : j \in 1 .. Len(e.ops)}
                        \cup {ItemFeats(e.ins[j]) : j \in 1 .. Len(e.ins)} \cup {ItemFeats(e.outs[j]) : j \in 1 .. Len(e.outs)})
\* whole-module translation sees every declaration
ModuleFeats == UNION ({ResFeats(i) : i \in 1 .. Len(res)} \cup {EntryFeats(entries[i]) : i \in 1 .. Len(entries)}
                      \cup {ShapeFeats(helpers[i].shape) : i \in 1 .. Len(helpers)})
\* does some pair of entry points reuse a (group, binding) for different resources / share a resource?
Reuses == \E i, j \in 1 .. Len(entries) : i # j /\ \E x \in StaticUse(entries[i]), y \in StaticUse(entries[j]) :
             x # y /\ Bound(res[x].k) /\ Bound(res[y].k) /\ <<res[x].g, res[x].b>> = <<res[y].g, res[y].b>>
Shares == \E i, j \in 1 .. Len(entries) : i # j /\ StaticUse(entries[i]) \cap StaticUse(entries[j]) # {}

\* ---------------------------------------------------------------- emission
SetSeq(S) == SetToSeq(S)
Description ==
  [res |-> res, helpers |-> helpers, syn |-> SetSeq(syn), order |-> order,
   entries |-> [i \in 1 .. Len(entries) |-> [stage |-> entries[i].stage, ops |-> entries[i].ops, ins |-> entries[i].ins,
                                             outs |-> entries[i].outs, inForm |-> entries[i].inForm, outForm |-> entries[i].outForm,
                                             uses |-> SetSeq(StaticUse(entries[i])), f |-> SetSeq(EntryFeats(entries[i]))]],
   feats |-> SetSeq(ModuleFeats), wt |-> WellTyped, reuses |-> Reuses, shares |-> Shares]
Emit == entries # <<>> => PrintT("@@" \o ToJson(Description))
=============================================================================
