------------------------------- MODULE Lexer -------------------------------
(***************************************************************************)
(* The WGSL lexer as a function of a text.  A text is a SEQUENCE OF CODE   *)
(* POINTS (TLA+ strings cannot be indexed, so no string ever reaches this  *)
(* module); indexes are 1-based positions in that sequence.                *)
(*                                                                         *)
(* Source of every rule: W3C "WebGPU Shading Language", sections           *)
(*   3.2 Blankspace and line breaks   (Pattern_White_Space; line breaks)   *)
(*   3.3 Comments                     (line-ending and nestable block)     *)
(*   3.4 Tokens, 3.5 Literals, 3.6 Keywords, 3.7 Identifiers,              *)
(*   3.9 Template lists (only the consequence for the lexer: a code point  *)
(*       that template-list discovery marked as the start/end of a         *)
(*       template list is a token on its own; which code points those are  *)
(*       is a parser matter and enters here as the parameter `single`).    *)
(*                                                                         *)
(* R1  blankspace = U+0020 U+0009 U+000A U+000B U+000C U+000D U+0085       *)
(*                  U+200E U+200F U+2028 U+2029                            *)
(* R2  line break = U+000A U+000B U+000C U+000D (also CR LF) U+0085 U+2028 *)
(*                  U+2029                                                 *)
(* R3  `//` starts a comment that ends BEFORE the next line break (any of  *)
(*     R2) or at the end of the text; the line break itself is blankspace. *)
(* R4  `/*` starts a comment that ends after the matching `*/`; `/*`       *)
(*     inside it opens a nested comment.  Not closed at the end of the     *)
(*     text: the text has no token sequence (pseudo token "unterminated"). *)
(* R5  a token is the LONGEST prefix of the remaining text that matches a  *)
(*     literal, keyword, identifier or syntactic-token pattern (maximal    *)
(*     munch): `>>=` `<<=`; `&& -> == != >= >> <= << -- ++ || += -= *= /=  *)
(*     %= &= |= ^=`; `& @ / ! [ ] { } : , = > < % - . + | ( ) ; * ~ ^ _`.  *)
(* R6  literals:                                                           *)
(*       decimal int   0[iu]? | [1-9][0-9]*[iu]?                           *)
(*       hex int       0[xX][0-9a-fA-F]+[iu]?                              *)
(*       decimal float 0[fh] | [1-9][0-9]*[fh]                             *)
(*                     | [0-9]*\.[0-9]+([eE][+-]?[0-9]+)?[fh]?             *)
(*                     | [0-9]+\.[0-9]*([eE][+-]?[0-9]+)?[fh]?             *)
(*                     | [0-9]+[eE][+-]?[0-9]+[fh]?                        *)
(*       hex float     0[xX][0-9a-fA-F]*\.[0-9a-fA-F]+([pP][+-]?[0-9]+[fh]?)? *)
(*                     | 0[xX][0-9a-fA-F]+\.[0-9a-fA-F]*([pP][+-]?[0-9]+[fh]?)? *)
(*                     | 0[xX][0-9a-fA-F]+[pP][+-]?[0-9]+[fh]?             *)
(* R7  identifier = ([_ XID_Start][XID_Continue]+) | XID_Start ; `_` alone *)
(*     is a syntactic token; a keyword (3.6) is not an identifier.  ASCII  *)
(*     is modelled exactly; non-ASCII letters are modelled as a CLASS: the *)
(*     XID_Start ranges of Latin, Greek, Cyrillic, Hebrew, Arabic, kana,   *)
(*     CJK and Hangul listed in LetterRanges, and the XID_Continue-only    *)
(*     code points U+00B7 and U+0300..U+036F.  A non-ASCII code point      *)
(*     outside these ranges and outside R1 is NOT MODELLED outside         *)
(*     comments (Modelled(text) is false; the harness never produces one). *)
(* R8  any other code point outside comments is not the start of a token:  *)
(*     pseudo token "invalid" of that one code point.                      *)
(*                                                                         *)
(* Kinds: "ident" "keyword" "int" "float" "op" "invalid" "unterminated".   *)
(***************************************************************************)
EXTENDS Naturals, Sequences

\* ---- code point classes ---------------------------------------------------
Blank      == {32, 9, 10, 11, 12, 13, 133, 8206, 8207, 8232, 8233}        \* R1
LineBreaks == {10, 11, 12, 13, 133, 8232, 8233}                            \* R2
IsBlank(c) == c \in Blank
IsLineBreak(c) == c \in LineBreaks
IsDigit(c) == c >= 48 /\ c <= 57
IsHex(c)   == IsDigit(c) \/ (c >= 65 /\ c <= 70) \/ (c >= 97 /\ c <= 102)
IsAsciiLetter(c) == (c >= 65 /\ c <= 90) \/ (c >= 97 /\ c <= 122)

\* XID_Start, non-ASCII part, as a class (R7)
LetterRanges ==
  << <<170, 170>>, <<181, 181>>, <<186, 186>>, <<192, 214>>, <<216, 246>>, <<248, 705>>,   \* Latin-1, Latin Extended
     <<902, 902>>, <<904, 906>>, <<908, 908>>, <<910, 929>>, <<931, 1013>>, <<1015, 1023>>, \* Greek
     <<1024, 1153>>, <<1162, 1327>>,                                                        \* Cyrillic
     <<1488, 1514>>, <<1568, 1610>>,                                                        \* Hebrew, Arabic letters
     <<12353, 12438>>, <<12449, 12538>>,                                                    \* Hiragana, Katakana
     <<19968, 40956>>, <<44032, 55203>> >>                                                  \* CJK unified, Hangul syllables
IsNonAsciiLetter(c) == c >= 128 /\ \E r \in 1 .. Len(LetterRanges) : c >= LetterRanges[r][1] /\ c <= LetterRanges[r][2]
IsContinueOnly(c)   == c = 183 \/ (c >= 768 /\ c <= 879)
IsIdStart(c) == IsAsciiLetter(c) \/ c = 95 \/ IsNonAsciiLetter(c)
IsIdCont(c)  == IsAsciiLetter(c) \/ c = 95 \/ IsDigit(c) \/ (c >= 128 /\ (IsNonAsciiLetter(c) \/ IsContinueOnly(c)))
ModelledCp(c) == c < 128 \/ IsBlank(c) \/ IsNonAsciiLetter(c) \/ IsContinueOnly(c)

InClass(cls, c) ==
  CASE cls = "digit"  -> IsDigit(c)
    [] cls = "hex"    -> IsHex(c)
    [] cls = "idcont" -> IsIdCont(c)
    [] cls = "notlb"  -> ~IsLineBreak(c)

At(text, i) == IF i >= 1 /\ i <= Len(text) THEN text[i] ELSE 0      \* 0 = "no code point"

\* NOTE on the shape of the recursive definitions: TLC re-evaluates the (lazy) arguments of RECURSIVE operators
\* at every use, which makes a scan quadratic; recursive FUNCTIONS take their argument as a value.  Every scan
\* below is therefore a recursive function over positions, local to an ordinary operator.

\* first index j >= i with text[j] outside the class (Len+1 if none)
RunEnd(text, i, cls) ==
  LET n == Len(text)
      f[j \in 1 .. n + 1] == IF j <= n /\ InClass(cls, text[j]) THEN f[j + 1] ELSE j
  IN  f[i]

\* ---- keywords (3.6) -------------------------------------------------------
Keywords ==
  {<<97, 108, 105, 97, 115>> (* alias *),
   <<98, 114, 101, 97, 107>> (* break *),
   <<99, 97, 115, 101>> (* case *),
   <<99, 111, 110, 115, 116>> (* const *),
   <<99, 111, 110, 115, 116, 95, 97, 115, 115, 101, 114, 116>> (* const_assert *),
   <<99, 111, 110, 116, 105, 110, 117, 101>> (* continue *),
   <<99, 111, 110, 116, 105, 110, 117, 105, 110, 103>> (* continuing *),
   <<100, 101, 102, 97, 117, 108, 116>> (* default *),
   <<100, 105, 97, 103, 110, 111, 115, 116, 105, 99>> (* diagnostic *),
   <<100, 105, 115, 99, 97, 114, 100>> (* discard *),
   <<101, 108, 115, 101>> (* else *),
   <<101, 110, 97, 98, 108, 101>> (* enable *),
   <<102, 97, 108, 115, 101>> (* false *),
   <<102, 110>> (* fn *),
   <<102, 111, 114>> (* for *),
   <<105, 102>> (* if *),
   <<108, 101, 116>> (* let *),
   <<108, 111, 111, 112>> (* loop *),
   <<111, 118, 101, 114, 114, 105, 100, 101>> (* override *),
   <<114, 101, 113, 117, 105, 114, 101, 115>> (* requires *),
   <<114, 101, 116, 117, 114, 110>> (* return *),
   <<115, 116, 114, 117, 99, 116>> (* struct *),
   <<115, 119, 105, 116, 99, 104>> (* switch *),
   <<116, 114, 117, 101>> (* true *),
   <<118, 97, 114>> (* var *),
   <<119, 104, 105, 108, 101>> (* while *)}

WordKind(lex) == IF lex = <<95>> THEN "op" ELSE IF lex \in Keywords THEN "keyword" ELSE "ident"

\* ---- syntactic tokens (3.4), maximal munch (R5) -------------------------------
Ops3 == {<<60, 60, 61>> (* <<= *), <<62, 62, 61>> (* >>= *)}
Ops2 == {<<38, 38>> (* && *), <<45, 62>> (* -> *), <<61, 61>> (* == *), <<33, 61>> (* != *), <<62, 61>> (* >= *),
         <<62, 62>> (* >> *), <<60, 61>> (* <= *), <<60, 60>> (* << *), <<45, 45>> (* -- *), <<43, 43>> (* ++ *),
         <<124, 124>> (* || *), <<43, 61>> (* += *), <<45, 61>> (* -= *), <<42, 61>> (* *= *), <<47, 61>> (* /= *),
         <<37, 61>> (* %= *), <<38, 61>> (* &= *), <<124, 61>> (* |= *), <<94, 61>> (* ^= *)}
Ops1 == {38, 64, 47, 33, 91, 93, 123, 125, 58, 44, 61, 62, 60, 37, 45, 46, 43, 124, 40, 41, 59, 42, 126, 94}
        \*  &   @   /   !   [   ]   {    }    :   ,   =   >   <   %   -   .   +   |    (   )   ;   *   ~    ^

\* ---- literals (R6) ----------------------------------------------------------
\* end of an exponent part starting at j (marks = e/E or p/P); j itself if there is none
ExpEnd(text, j, marks) ==
  IF At(text, j) \in marks
  THEN LET s == IF At(text, j + 1) \in {43, 45} THEN j + 2 ELSE j + 1
           d == RunEnd(text, s, "digit")
       IN  IF d > s THEN d ELSE j
  ELSE j

FloatSuffix(text, j) == IF At(text, j) \in {102, 104} THEN j + 1 ELSE j      \* f h
IntSuffix(text, j)   == IF At(text, j) \in {105, 117} THEN j + 1 ELSE j      \* i u

\* text[i] is a digit, or `.` followed by a digit
DecimalTok(text, i) ==
  LET d1 == RunEnd(text, i, "digit")
  IN  IF At(text, d1) = 46 /\ (d1 > i \/ IsDigit(At(text, d1 + 1)))
      THEN LET d2 == RunEnd(text, d1 + 1, "digit")
               x  == ExpEnd(text, d2, {101, 69})
           IN  [k |-> "float", e |-> FloatSuffix(text, x)]
      ELSE LET x == ExpEnd(text, d1, {101, 69})
           IN  IF x > d1 THEN [k |-> "float", e |-> FloatSuffix(text, x)]
               ELSE IF text[i] = 48 /\ d1 > i + 1
                    THEN [k |-> "int", e |-> i + 1]                 \* 0 followed by digits: only `0` matches
               ELSE IF At(text, d1) \in {102, 104} THEN [k |-> "float", e |-> d1 + 1]
               ELSE [k |-> "int", e |-> IntSuffix(text, d1)]

\* text[i] = `0`, text[i+1] in {x, X}
HexTok(text, i) ==
  LET h1 == RunEnd(text, i + 2, "hex")
  IN  IF At(text, h1) = 46 /\ (h1 > i + 2 \/ IsHex(At(text, h1 + 1)))
      THEN LET h2 == RunEnd(text, h1 + 1, "hex")
               x  == ExpEnd(text, h2, {112, 80})
           IN  [k |-> "float", e |-> IF x > h2 THEN FloatSuffix(text, x) ELSE x]
      ELSE IF h1 > i + 2
           THEN LET x == ExpEnd(text, h1, {112, 80})
                IN  IF x > h1 THEN [k |-> "float", e |-> FloatSuffix(text, x)]
                    ELSE [k |-> "int", e |-> IntSuffix(text, h1)]
           ELSE [k |-> "int", e |-> i + 1]                          \* `0x` without digits: `0`, then a word

\* ---- one token ------------------------------------------------------------
\* text[i] exists, is not blankspace and does not start a comment.  `single` is the set of
\* positions that template-list discovery made tokens of their own (3.9); {} = plain maximal munch.
TokAt(text, i, single) ==
  LET c == text[i]
      n == At(text, i + 1)
  IN  IF IsDigit(c) THEN (IF c = 48 /\ n \in {120, 88} THEN HexTok(text, i) ELSE DecimalTok(text, i))
      ELSE IF c = 46 /\ IsDigit(n) THEN DecimalTok(text, i)
      ELSE IF IsIdStart(c)
           THEN LET e == RunEnd(text, i + 1, "idcont") IN [k |-> WordKind(SubSeq(text, i, e - 1)), e |-> e]
      ELSE IF i \in single THEN [k |-> "op", e |-> i + 1]
      ELSE IF <<c, n, At(text, i + 2)>> \in Ops3 /\ (i + 1) \notin single /\ (i + 2) \notin single THEN [k |-> "op", e |-> i + 3]
      ELSE IF <<c, n>> \in Ops2 /\ (i + 1) \notin single THEN [k |-> "op", e |-> i + 2]
      ELSE IF c \in Ops1 THEN [k |-> "op", e |-> i + 1]
      ELSE [k |-> "invalid", e |-> i + 1]

\* ---- blankspace and comments (R1-R4) ---------------------------------------------
\* end (index after `*/`) of the block comment whose body starts at i with nesting `depth`; 0 = unterminated
BlockEnd(text, i, depth) ==
  LET n == Len(text)
      f[j \in 1 .. n + 2, d \in 1 .. n + 1] ==
        IF j > n THEN 0
        ELSE IF text[j] = 47 /\ At(text, j + 1) = 42 THEN f[j + 2, d + 1]
        ELSE IF text[j] = 42 /\ At(text, j + 1) = 47 THEN (IF d = 1 THEN j + 2 ELSE f[j + 2, d - 1])
        ELSE f[j + 1, d]
  IN  f[i, depth]

\* index of the line break that ends the line comment whose body starts at i (Len+1 at the end of the text)
LineCommentEnd(text, i) == RunEnd(text, i, "notlb")

\* first index >= i that is outside blankspace and comments; Len+1 = end of text; 0 = unterminated comment
SkipTrivia(text, i) ==
  LET n == Len(text)
      f[j \in 1 .. n + 2] ==
        IF j > n THEN n + 1
        ELSE IF IsBlank(text[j]) THEN f[j + 1]
        ELSE IF text[j] = 47 /\ At(text, j + 1) = 47 THEN f[LineCommentEnd(text, j + 2)]
        ELSE IF text[j] = 47 /\ At(text, j + 1) = 42
             THEN (IF BlockEnd(text, j + 2, 1) = 0 THEN 0 ELSE f[BlockEnd(text, j + 2, 1)])
        ELSE j
  IN  f[i]

\* ---- the lexer as a state machine: one step = skip trivia, take one token --------------------
\* state = position `pos`; Step gives the token found and the next position ("eof" at the end).
Step(text, pos, single) ==
  LET s == SkipTrivia(text, pos)
  IN  IF s = 0 THEN [k |-> "unterminated", a |-> Len(text) + 1, e |-> Len(text) + 1]
      ELSE IF s > Len(text) THEN [k |-> "eof", a |-> s, e |-> s]
      ELSE LET t == TokAt(text, s, single) IN [k |-> t.k, a |-> s, e |-> t.e]

\* the token sequence of a text: sequence of [k |-> kind, lex |-> lexeme (code points)]
TokensT(text, single) ==
  LET n == Len(text)
      toks[pos \in 1 .. n + 1] ==
        LET t == Step(text, pos, single)
        IN  IF t.k = "eof" THEN <<>>
            ELSE IF t.k = "unterminated" THEN <<[k |-> "unterminated", lex |-> <<>>]>>
            ELSE <<[k |-> t.k, lex |-> SubSeq(text, t.a, t.e - 1)]>> \o toks[t.e]
  IN  toks[1]
Tokens(text) == TokensT(text, {})

\* every code point outside comments is one the module models (R7)
Modelled(text) ==
  LET n == Len(text)
      ok[pos \in 1 .. n + 1] ==
        LET t == Step(text, pos, {})
        IN  IF t.k \in {"eof", "unterminated"} THEN TRUE
            ELSE (\A j \in t.a .. t.e - 1 : ModelledCp(text[j])) /\ ok[t.e]
  IN  ok[1]
=============================================================================
