------------------------------ MODULE SpvTrace ------------------------------
(***************************************************************************)
(* Trace validation for SpvValid.tla (property C02).                       *)
(* trace.ndjson holds many emitted modules, each as                        *)
(*   {"ev":"reset","mod":k,"waive":[[rule,op],..]}  {"ev":"header",...}    *)
(*   {"ev":"inst",...}*                                                    *)
(*   {"ev":"end"}                                                          *)
(* decoded from the bytes naga returned by the harness's own decoder.      *)
(* Every line is one step: "reset" re-initialises the automaton, every     *)
(* other line is SpvValid!Step - all rules of the event's class are        *)
(* evaluated against the state accumulated so far.  A module that breaks   *)
(* a rule is recorded in `bad` ([l = line, rule, op]) and the run goes on  *)
(* with the next module; after the last line the verdicts are printed.     *)
(* Consumed is the machinery's own sanity condition (POSTCONDITION).       *)
(***************************************************************************)
EXTENDS SpvValid, Json

Trace == ndJsonDeserialize("trace.ndjson")

VARIABLE l
tvars == <<vars, l>>

TInit == Init /\ l = 1

TraceReset == /\ l <= Len(Trace) /\ Trace[l].ev = "reset" /\ l' = l + 1
              /\ m' = [InitM EXCEPT !.waive = {<<x[1], x[2]>> : x \in Range(Trace[l].waive)}]
              /\ UNCHANGED <<bad, notes>>
TraceInst  == /\ l <= Len(Trace) /\ Trace[l].ev # "reset" /\ l' = l + 1
              /\ Step(Trace[l], l)
TraceEnd   == /\ l = Len(Trace) + 1 /\ l' = l + 1
              /\ PrintT("@@" \o ToJson([consumed |-> Len(Trace), bad |-> bad, notes |-> notes]))
              /\ UNCHANGED vars

TNext == TraceReset \/ TraceInst \/ TraceEnd
TSpec == TInit /\ [][TNext]_tvars

Consumed == TLCGet("stats").diameter >= Len(Trace) + 2
=============================================================================
