------------------------------ MODULE WgslSem ------------------------------
(***************************************************************************)
(* An executable abstract machine for WGSL (one invocation of a compute    *)
(* entry point), written as a big-step evaluator with explicit state       *)
(* threading.  It is the oracle for every property that speaks about what  *)
(* a program *means* (C01, C03-C06, C13-C15): the harness prints the same  *)
(* program as WGSL text, compiles it with the real naga, executes what     *)
(* naga emitted and compares the buffers with  Run(P, input).              *)
(*                                                                         *)
(* Programs are records (the JSON schema of DESIGN.md appendix B):         *)
(*   P = [structs, consts, globals, fns]                                   *)
(*   type  = [k |-> "i32"|"u32"|"f32"|"bool"|"void"] | [k |-> "vec", n, e] *)
(*         | [k |-> "mat", c, r, e] | [k |-> "arr", e, n] (n = 0 runtime)  *)
(*         | [k |-> "struct", name] | [k |-> "atomic", e]                 *)
(*         | [k |-> "ptr", space, e]                                      *)
(* Every expression node carries its static type  t.                       *)
(*                                                                         *)
(* Values: scalars are 32-bit words (Word32; bool = 0/1; f32 = bit         *)
(* pattern), vectors/arrays/structs are sequences, matrices sequences of   *)
(* columns, pointers records [root, path].                                 *)
(*                                                                         *)
(* State  st = [mem, fuel, sig, rv]:  mem is the sequence of variable      *)
(* contents (globals first), sig is "n" (running) | "brk" | "cont" | "ret" *)
(* or an *abandon* reason ("fuel", "oob", "undecided:...") meaning that    *)
(* WGSL (as transcribed here) does not pin the result for this input row,  *)
(* which is then excluded from comparison: the specification may be        *)
(* weaker than WGSL, never stronger.                                       *)
(***************************************************************************)
EXTENDS F32, Layout, TLC

None == [k |-> "none"]

Running(st)  == st.sig = "n"
Abandon(st, why) == IF st.sig \in {"n", "brk", "cont", "ret"} THEN [st EXCEPT !.sig = why] ELSE st
Abandoned(st) == st.sig \notin {"n", "brk", "cont", "ret"}

(***************************************************************************)
(* Types                                                                   *)
(***************************************************************************)
TI32 == [k |-> "i32"]  TU32 == [k |-> "u32"]  TF32 == [k |-> "f32"]  TBool == [k |-> "bool"]
IsScalarT(t) == t.k \in {"i32", "u32", "f32", "bool"}
SK(t) == IF t.k \in {"vec", "mat", "atomic"} THEN t.e.k ELSE t.k       \* scalar kind

RECURSIVE FindByName(_, _, _)
FindByName(seq, name, i) == IF seq[i].name = name THEN seq[i] ELSE FindByName(seq, name, i + 1)
StructDef(P, name) == FindByName(P.structs, name, 1)
FnDef(P, name) == FindByName(P.fns, name, 1)

\* program type -> Layout.tla type (struct members inline)
RECURSIVE LT(_, _)
LT(P, t) ==
  CASE t.k = "struct" -> LET d == StructDef(P, t.name) IN
                         [k |-> "struct", name |-> t.name,
                          ms |-> [i \in 1 .. Len(d.ms) |-> [name |-> d.ms[i].name, ty |-> LT(P, d.ms[i].ty),
                                                            align |-> d.ms[i].align, size |-> d.ms[i].size]]]
    [] t.k = "arr"    -> [k |-> "arr", e |-> LT(P, t.e), n |-> t.n]
    [] OTHER          -> t

RECURSIVE ZeroOf(_, _)
ZeroOf(P, t) ==
  CASE t.k = "vec"    -> [i \in 1 .. t.n |-> 0]
    [] t.k = "mat"    -> [i \in 1 .. t.c |-> [j \in 1 .. t.r |-> 0]]
    [] t.k = "arr"    -> [i \in 1 .. t.n |-> ZeroOf(P, t.e)]
    [] t.k = "struct" -> LET d == StructDef(P, t.name) IN [i \in 1 .. Len(d.ms) |-> ZeroOf(P, d.ms[i].ty)]
    [] OTHER          -> 0

(***************************************************************************)
(* Buffers: value tree <-> words, by the WGSL layout                       *)
(***************************************************************************)
RECURSIVE Unflat(_, _, _, _)
\* lt: Layout type; words: sequence of words; off: byte offset (multiple of 4)
Unflat(lt, t, words, off) ==
  CASE t.k = "vec"    -> [i \in 1 .. t.n |-> words[(off \div 4) + i]]
    [] t.k = "mat"    -> [c \in 1 .. t.c |-> [r \in 1 .. t.r |-> words[((off + (c - 1) * ColStride(lt)) \div 4) + r]]]
    [] t.k = "arr"    -> LET n == IF t.n = 0 THEN (Len(words) * 4 - off) \div StrideOf(lt) ELSE t.n
                         IN  [i \in 1 .. n |-> Unflat(lt.e, t.e, words, off + (i - 1) * StrideOf(lt))]
    [] t.k = "struct" -> LET offs == Offsets(lt.ms)
                         IN  [i \in 1 .. Len(lt.ms) |-> Unflat(lt.ms[i].ty, lt.ms[i].ty, words, off + offs[i])]
    [] OTHER          -> words[(off \div 4) + 1]

\* set of <<word index (1-based), word, kind>> for every scalar leaf; kind 1 = integer word, 2 = f32 word
RECURSIVE FlatSet(_, _, _)
FK(e) == IF e.k = "f32" THEN 2 ELSE 1
FlatSet(lt, v, off) ==
  CASE lt.k = "vec"    -> {<<(off \div 4) + i, v[i], FK(lt.e)>> : i \in 1 .. lt.n}
    [] lt.k = "mat"    -> UNION {{<<((off + (c - 1) * ColStride(lt)) \div 4) + r, v[c][r], 2>> : r \in 1 .. lt.r} : c \in 1 .. lt.c}
    [] lt.k = "arr"    -> UNION {FlatSet(lt.e, v[i], off + (i - 1) * StrideOf(lt)) : i \in 1 .. Len(v)}
    [] lt.k = "struct" -> LET offs == Offsets(lt.ms)
                          IN  UNION {FlatSet(lt.ms[i].ty, v[i], off + offs[i]) : i \in 1 .. Len(lt.ms)}
    [] lt.k = "atomic" -> {<<(off \div 4) + 1, v, 1>>}
    [] OTHER           -> {<<(off \div 4) + 1, v, FK(lt)>>}

\* final words of a buffer: leaves overwritten, padding keeps its initial content; and the mask of compared words
\* (0 = padding, not compared; 1 = integer word, bit-exact; 2 = f32 word, bit-exact except that +0 and -0 are not
\* distinguished: WGSL does not pin the sign of a zero result)
FlatWords(lt, v, init) ==
  LET fs == FlatSet(lt, v, 0)
  IN  [i \in 1 .. Len(init) |-> IF \E p \in fs : p[1] = i THEN (CHOOSE p \in fs : p[1] = i)[2] ELSE init[i]]
FlatMask(lt, v, n) ==
  LET fs == FlatSet(lt, v, 0) IN [i \in 1 .. n |-> IF \E p \in fs : p[1] = i THEN (CHOOSE p \in fs : p[1] = i)[3] ELSE 0]

(***************************************************************************)
(* Bounds-check policy and access log (C15, spec/Policy.tla).  Both are     *)
(* OPTIONAL fields of the state, so that states built without them behave  *)
(* exactly as before (policy "Unchecked": an out-of-range index abandons    *)
(* the row with "oob", nothing is logged).                                  *)
(*   st.pol = [storage, uniform, workgroup, private, function, value |->    *)
(*             mode, neg |-> "hi" | "lo"]   mode (per address space of the   *)
(*             root variable; `value` for indexing a value):               *)
(*     "Unchecked"  out of range -> outside the compared domain ("oob")     *)
(*     "Restrict"   the index is clamped into 0 .. len-1 (a negative i32    *)
(*                  index goes to len-1 for neg = "hi", i.e. clamping of    *)
(*                  the unsigned reinterpretation, or to 0 for neg = "lo")  *)
(*     "RZSW"       the pointer becomes `oob`: loads yield the zero value,  *)
(*                  stores and atomics are skipped                          *)
(*     "Binding"    WGSL's minimum guarantee only (the access stays inside  *)
(*                  the originating variable or is dropped): the result is  *)
(*                  not pinned, the row is abandoned "unconstrained:oob"    *)
(*   st.acc = sequence of [root, path, dyn, w, done]: every load (w = 0)    *)
(*            and store / atomic (w = 1) through a reference; dyn = length  *)
(*            of the path prefix naming the outermost dynamically indexed   *)
(*            object (-1: no dynamic index); done = FALSE when skipped.     *)
(* Pointers are [root, path, oob, dyn].                                     *)
(***************************************************************************)
PolModeOf(P, st, root) ==
  IF "pol" \notin DOMAIN st THEN "Unchecked"
  ELSE IF root = 0 THEN st.pol.value
  ELSE IF root <= Len(P.globals) THEN st.pol[P.globals[root].space] ELSE st.pol.function
PolNeg(st) == IF "pol" \in DOMAIN st THEN st.pol.neg ELSE "hi"
PtrOob(p) == IF "oob" \in DOMAIN p THEN p.oob ELSE FALSE
PtrDyn(p) == IF "dyn" \in DOMAIN p THEN p.dyn ELSE -1
MkPtr(root) == [root |-> root, path |-> <<>>, oob |-> FALSE, dyn |-> -1]
\* the in-range index an out-of-range one is clamped to; it: type of the index expression
ClampIdx(i, len, it, neg) == IF it.k = "i32" /\ i < 0 /\ neg = "lo" THEN 0 ELSE len - 1
\* remembers (optional field negc) that a negative i32 index was clamped: the only place where `neg` matters
MarkNeg(st, i, it) == IF it.k = "i32" /\ i < 0 /\ "negc" \in DOMAIN st THEN [st EXCEPT !.negc = TRUE] ELSE st
LogAcc(st, p, w, done) ==
  IF "acc" \in DOMAIN st /\ st.sig \in {"n", "brk", "cont", "ret"}
  THEN [st EXCEPT !.acc = Append(@, [root |-> p.root, path |-> p.path, dyn |-> PtrDyn(p), w |-> w, done |-> done])]
  ELSE st

(***************************************************************************)
(* Value trees                                                             *)
(***************************************************************************)
RECURSIVE GetPath(_, _), SetPath(_, _, _), PathOk(_, _)
PathOk(v, p)  == p = <<>> \/ (Head(p) >= 0 /\ Head(p) < Len(v) /\ PathOk(v[Head(p) + 1], Tail(p)))
GetPath(v, p) == IF p = <<>> THEN v ELSE GetPath(v[Head(p) + 1], Tail(p))
SetPath(v, p, x) == IF p = <<>> THEN x ELSE [v EXCEPT ![Head(p) + 1] = SetPath(@, Tail(p), x)]

(***************************************************************************)
(* Scalar operations                                                       *)
(***************************************************************************)
B(x) == IF x THEN 1 ELSE 0

\* small-integer floats: |v| <= 2048, an integer - sums of products of these are exact in any order
FIsSmallInt(w) == FIsZero(w) \/ (FIsNormal(w) /\ FExp(w) >= -23 /\ FExp(w) <= -12
                                  /\ FMant(w) % Pow2(0 - FExp(w)) = 0) \/ (FIsNormal(w) /\ FMag(w) = 1157627904) \* 2048.0
FSmallVal(w) == LET n == IF FIsZero(w) THEN 0 ELSE FMant(w) \div Pow2(0 - FExp(w)) IN IF w < 0 THEN 0 - n ELSE n
FFromInt(n)  == IF n = 0 THEN PosZero ELSE Rounded(IF n < 0 THEN 1 ELSE 0, IF n < 0 THEN 0 - n ELSE n, 0)   \* |n| < 2^30, exact if < 2^24

FRemOk(a, b) == FIsSmallInt(a) /\ FIsSmallInt(b) /\ ~FIsZero(b)
FRem(a, b) == LET x == FSmallVal(a)  y == FSmallVal(b)
                  ax == IF x < 0 THEN 0 - x ELSE x  ay == IF y < 0 THEN 0 - y ELSE y
                  r == ax % ay
              IN  IF r = 0 THEN (IF a < 0 THEN NegZero ELSE PosZero) ELSE FFromInt(IF x < 0 THEN 0 - r ELSE r)

BinOkS(op, sk, a, b) ==
  IF sk # "f32" THEN TRUE
  ELSE CASE op = "+" -> FAddOk(a, b)
         [] op = "-" -> FSubOk(a, b)
         [] op = "*" -> FMulOk(a, b)
         [] op = "/" -> FDivOk(a, b)
         [] op = "%" -> FRemOk(a, b)
         [] OTHER    -> FOk(a) /\ FOk(b)              \* comparisons

BinS(op, sk, a, b) ==
  CASE op = "+" -> IF sk = "f32" THEN FAdd(a, b) ELSE Add32(a, b)
    [] op = "-" -> IF sk = "f32" THEN FSub(a, b) ELSE Sub32(a, b)
    [] op = "*" -> IF sk = "f32" THEN FMul(a, b) ELSE Mul32(a, b)
    [] op = "/" -> IF sk = "f32" THEN FDiv(a, b) ELSE IF sk = "i32" THEN DivS32(a, b) ELSE DivU32(a, b)
    [] op = "%" -> IF sk = "f32" THEN FRem(a, b) ELSE IF sk = "i32" THEN RemS32(a, b) ELSE RemU32(a, b)
    [] op = "&" -> And32(a, b)
    [] op = "|" -> Or32(a, b)
    [] op = "^" -> Xor32(a, b)
    [] op = "<<" -> Shl32(a, b)
    [] op = ">>" -> IF sk = "i32" THEN ShrS32(a, b) ELSE ShrU32(a, b)
    [] op = "==" -> IF sk = "f32" THEN B(FEq(a, b)) ELSE B(a = b)
    [] op = "!=" -> IF sk = "f32" THEN B(~FEq(a, b)) ELSE B(a # b)
    [] op = "<"  -> IF sk = "f32" THEN B(FLt(a, b)) ELSE IF sk = "u32" THEN B(LtU(a, b)) ELSE B(a < b)
    [] op = "<=" -> IF sk = "f32" THEN B(FLe(a, b)) ELSE IF sk = "u32" THEN B(LeU(a, b)) ELSE B(a <= b)
    [] op = ">"  -> IF sk = "f32" THEN B(FLt(b, a)) ELSE IF sk = "u32" THEN B(LtU(b, a)) ELSE B(a > b)
    [] op = ">=" -> IF sk = "f32" THEN B(FLe(b, a)) ELSE IF sk = "u32" THEN B(LeU(b, a)) ELSE B(a >= b)

\* component-wise lifting; result <<ok, value>>
Zip2(op, sk, n, a, b, sa, sb) ==     \* sa / sb: operand is a scalar to broadcast
  LET A(i) == IF sa THEN a ELSE a[i]  Bv(i) == IF sb THEN b ELSE b[i]
      ok == \A i \in 1 .. n : BinOkS(op, sk, A(i), Bv(i))
  IN  <<ok, IF ok THEN [i \in 1 .. n |-> BinS(op, sk, A(i), Bv(i))] ELSE 0>>

\* float matrices on small integers (exact in any summation order)
AllSmall(v, n) == \A i \in 1 .. n : FIsSmallInt(v[i])
MatSmall(m, c, r) == \A i \in 1 .. c : AllSmall(m[i], r)
RECURSIVE SumTo(_, _)
SumTo(f, n) == IF n = 0 THEN 0 ELSE f[n] + SumTo(f, n - 1)
\* bounds: entries <= 2048 in magnitude would overflow the exact range when multiplied twice; generators keep them < 64
IDot(a, b, n) == SumTo([i \in 1 .. n |-> FSmallVal(a[i]) * FSmallVal(b[i])], n)
IntOkF(n) == n > -16777216 /\ n < 16777216

BinV(op, ta, tb, a, b) ==
  CASE ta.k = "mat" /\ tb.k = "mat" /\ op \in {"+", "-"} ->
         IF \A c \in 1 .. ta.c : \A r \in 1 .. ta.r : BinOkS(op, "f32", a[c][r], b[c][r])
         THEN <<TRUE, [c \in 1 .. ta.c |-> [r \in 1 .. ta.r |-> BinS(op, "f32", a[c][r], b[c][r])]]>> ELSE <<FALSE, 0>>
    [] ta.k = "mat" /\ IsScalarT(tb) ->     \* mat * scalar
         IF \A c \in 1 .. ta.c : \A r \in 1 .. ta.r : BinOkS(op, "f32", a[c][r], b)
         THEN <<TRUE, [c \in 1 .. ta.c |-> [r \in 1 .. ta.r |-> BinS(op, "f32", a[c][r], b)]]>> ELSE <<FALSE, 0>>
    [] IsScalarT(ta) /\ tb.k = "mat" ->     \* scalar * mat
         IF \A c \in 1 .. tb.c : \A r \in 1 .. tb.r : BinOkS(op, "f32", a, b[c][r])
         THEN <<TRUE, [c \in 1 .. tb.c |-> [r \in 1 .. tb.r |-> BinS(op, "f32", a, b[c][r])]]>> ELSE <<FALSE, 0>>
    [] ta.k = "mat" /\ tb.k = "vec" ->      \* mat(c x r) * vec(c) -> vec(r):  sum_c m[c][r] * v[c]
         IF ~(MatSmall(a, ta.c, ta.r) /\ AllSmall(b, ta.c)) THEN <<FALSE, 0>>
         ELSE LET res == [r \in 1 .. ta.r |-> SumTo([c \in 1 .. ta.c |-> FSmallVal(a[c][r]) * FSmallVal(b[c])], ta.c)]
              IN  <<\A r \in 1 .. ta.r : IntOkF(res[r]), [r \in 1 .. ta.r |-> FFromInt(res[r])]>>
    [] ta.k = "vec" /\ tb.k = "mat" ->      \* vec(r) * mat(c x r) -> vec(c):  dot(v, m[c])
         IF ~(AllSmall(a, tb.r) /\ MatSmall(b, tb.c, tb.r)) THEN <<FALSE, 0>>
         ELSE LET res == [c \in 1 .. tb.c |-> IDot(a, b[c], tb.r)]
              IN  <<\A c \in 1 .. tb.c : IntOkF(res[c]), [c \in 1 .. tb.c |-> FFromInt(res[c])]>>
    [] ta.k = "mat" /\ tb.k = "mat" ->      \* (K x R) * (C x K) -> C x R : res[c][r] = sum_k a[k][r] * b[c][k]
         IF ~(MatSmall(a, ta.c, ta.r) /\ MatSmall(b, tb.c, tb.r)) THEN <<FALSE, 0>>
         ELSE LET res == [c \in 1 .. tb.c |-> [r \in 1 .. ta.r |->
                            SumTo([k \in 1 .. ta.c |-> FSmallVal(a[k][r]) * FSmallVal(b[c][k])], ta.c)]]
              IN  <<\A c \in 1 .. tb.c : \A r \in 1 .. ta.r : IntOkF(res[c][r]),
                    [c \in 1 .. tb.c |-> [r \in 1 .. ta.r |-> FFromInt(res[c][r])]]>>
    [] ta.k = "vec" /\ tb.k = "vec" -> Zip2(op, ta.e.k, ta.n, a, b, FALSE, FALSE)
    [] ta.k = "vec" -> Zip2(op, ta.e.k, ta.n, a, b, FALSE, TRUE)
    [] tb.k = "vec" -> Zip2(op, tb.e.k, tb.n, a, b, TRUE, FALSE)
    [] OTHER -> IF BinOkS(op, ta.k, a, b) THEN <<TRUE, BinS(op, ta.k, a, b)>> ELSE <<FALSE, 0>>

UnS(op, sk, a) ==
  CASE op = "-" -> IF sk = "f32" THEN FNeg(a) ELSE Neg32(a)
    [] op = "!" -> 1 - a
    [] op = "~" -> Not32(a)

\* conversions T(x) between scalar kinds; <<ok, value>>
ConvS(from, to, a) ==
  CASE from = to -> <<TRUE, a>>
    [] to = "bool" -> IF from = "f32" THEN <<~FIsNaN(a), B(~FIsZero(a))>> ELSE <<TRUE, B(a # 0)>>
    [] from = "bool" -> <<TRUE, IF to = "f32" THEN (IF a = 1 THEN FOne ELSE PosZero) ELSE a>>
    \* f32 -> integer: truncation toward zero, saturating.  At the upper end implementations differ between the type's
    \* maximum (2147483647 / 4294967295) and the largest f32 below it (2147483520 / 4294967040): left undecided.
    [] from = "f32" /\ to = "i32" -> <<FOk(a) /\ ~(a > 0 /\ FExp(a) >= 8), IF FOk(a) THEN FToS(a) ELSE 0>>
    [] from = "f32" /\ to = "u32" -> <<FOk(a) /\ ~(a > 0 /\ FExp(a) >= 9), IF FOk(a) THEN FToU(a) ELSE 0>>
    [] from = "i32" /\ to = "f32" -> <<SToFOk(a), IF SToFOk(a) THEN SToF(a) ELSE 0>>
    [] from = "u32" /\ to = "f32" -> <<UToFOk(a), IF UToFOk(a) THEN UToF(a) ELSE 0>>
    [] OTHER -> <<TRUE, a>>                        \* i32 <-> u32: same bits

(***************************************************************************)
(* Built-in functions on scalars (component-wise ones are lifted below).   *)
(* Result <<ok, value>>.                                                   *)
(***************************************************************************)
Bi1(f, sk, a) ==
  CASE f = "abs"   -> IF sk = "f32" THEN <<TRUE, FAbs(a)>> ELSE IF sk = "i32" THEN <<TRUE, Abs32(a)>> ELSE <<TRUE, a>>
    [] f = "sign"  -> IF sk = "f32" THEN <<FOk(a), FSignum(a)>> ELSE <<TRUE, Sign32(a)>>
    [] f = "floor" -> <<FOk(a), FFloor(a)>>
    [] f = "ceil"  -> <<FOk(a), FCeil(a)>>
    [] f = "trunc" -> <<FOk(a), FTrunc(a)>>
    [] f = "round" -> <<FOk(a), FRound(a)>>
    [] f = "fract" -> <<FOk(a) /\ FSubOk(a, FFloor(a)), IF FOk(a) THEN FFract(a) ELSE 0>>
    [] f = "sqrt"  -> <<FSqrtOk(a), IF FSqrtOk(a) THEN FSqrt(a) ELSE 0>>
    [] f = "saturate" -> <<FOk(a), FMin(FMax(a, PosZero), FOne)>>
    [] f = "countOneBits" -> <<TRUE, Popcount(a)>>
    [] f = "countLeadingZeros" -> <<TRUE, Clz(a)>>
    [] f = "countTrailingZeros" -> <<TRUE, Ctz(a)>>
    [] f = "reverseBits" -> <<TRUE, ReverseBits(a)>>
    [] f = "firstLeadingBit" -> <<TRUE, IF sk = "i32" THEN FirstLeadingBitS(a) ELSE FirstLeadingBitU(a)>>
    [] f = "firstTrailingBit" -> <<TRUE, FirstTrailingBit(a)>>
Bi2(f, sk, a, b) ==
  CASE f = "min" -> IF sk = "f32" THEN <<FOk(a) /\ FOk(b) /\ ~(FIsZero(a) /\ FIsZero(b) /\ a # b), FMin(a, b)>>
                    ELSE IF sk = "i32" THEN <<TRUE, MinS(a, b)>> ELSE <<TRUE, MinU(a, b)>>
    [] f = "max" -> IF sk = "f32" THEN <<FOk(a) /\ FOk(b) /\ ~(FIsZero(a) /\ FIsZero(b) /\ a # b), FMax(a, b)>>
                    ELSE IF sk = "i32" THEN <<TRUE, MaxS(a, b)>> ELSE <<TRUE, MaxU(a, b)>>
    [] f = "step" -> <<FOk(a) /\ FOk(b), IF FLe(a, b) THEN FOne ELSE PosZero>>
Bi3(f, sk, a, b, c) ==
  CASE f = "clamp" -> IF sk = "f32" THEN <<FOk(a) /\ FOk(b) /\ FOk(c) /\ FLe(b, c) /\ ~(FIsZero(a) /\ (FIsZero(b) \/ FIsZero(c))),
                                           FMin(FMax(a, b), c)>>
                      ELSE IF sk = "i32" THEN <<b <= c, Clamp32S(a, b, c)>> ELSE <<LeU(b, c), Clamp32U(a, b, c)>>
    [] f = "extractBits" -> <<TRUE, IF sk = "i32" THEN ExtractBitsS(a, b, c) ELSE ExtractBitsU(a, b, c)>>
    [] f = "fma" -> LET ok == FIsSmallInt(a) /\ FIsSmallInt(b) /\ FIsSmallInt(c)
                        n == IF ok THEN FSmallVal(a) * FSmallVal(b) + FSmallVal(c) ELSE 0
                    IN  <<ok /\ IntOkF(n), FFromInt(n)>>

\* lift over vectors: args is a sequence of values, vec says which are vectors (scalars are broadcast)
Lift(n, g(_)) == <<\A i \in 1 .. n : g(i)[1], [i \in 1 .. n |-> g(i)[2]]>>

(***************************************************************************)
(* The evaluator                                                           *)
(***************************************************************************)
RECURSIVE EvalE(_, _, _, _), EvalRef(_, _, _, _), EvalArgs(_, _, _, _, _), ExecS(_, _, _, _), ExecB(_, _, _, _),
          LoopRun(_, _, _, _), CallF(_, _, _, _), EvalBuiltin(_, _, _, _, _), SwitchPick(_, _, _, _)

Bind(env, n, b) == (n :> b) @@ env
ValB(v) == [kind |-> "val", v |-> v]
VarB(id) == [kind |-> "var", id |-> id]

NewVar(st, v) == [st EXCEPT !.mem = Append(@, v)]

\* evaluate a sequence of expressions left to right: <<values, st>>
EvalArgs(P, env, es, i, stv) ==
  IF i > Len(es) THEN stv
  ELSE LET r == EvalE(P, env, es[i], stv[2]) IN EvalArgs(P, env, es, i + 1, <<Append(stv[1], r[1]), r[2]>>)

\* a reference expression evaluates to a pointer [root, path, oob, dyn]
EvalRef(P, env, r, st) ==
  IF ~Running(st) THEN <<MkPtr(0), st>>
  ELSE CASE r.k = "rvar"   -> <<MkPtr(env[r.n].id), st>>
         [] r.k = "rmem"   -> LET b == EvalRef(P, env, r.b, st) IN <<[b[1] EXCEPT !.path = Append(@, r.m)], b[2]>>
         [] r.k = "ridx"   -> LET b == EvalRef(P, env, r.b, st)
                                  i == EvalE(P, env, r.i, b[2])
                                  boob == PtrOob(b[1])
                                  len == IF Running(i[2]) /\ ~boob THEN Len(GetPath(i[2].mem[b[1].root], b[1].path)) ELSE 0
                                  \* the outermost dynamically indexed object (a literal index is static)
                                  b1 == IF r.i.k # "lit" /\ PtrDyn(b[1]) = -1 /\ "dyn" \in DOMAIN b[1]
                                        THEN [b[1] EXCEPT !.dyn = Len(b[1].path)] ELSE b[1]
                                  mode == IF Running(i[2]) THEN PolModeOf(P, i[2], b[1].root) ELSE "Unchecked"
                                  \* an i32 index is out of range when negative, a u32 one when >= 2^31 (negative word) too
                              IN  IF ~Running(i[2]) THEN <<b[1], i[2]>>
                                  ELSE IF boob THEN <<b1, i[2]>>                     \* already out of range: stays so
                                  ELSE IF i[1] >= 0 /\ i[1] < len THEN <<[b1 EXCEPT !.path = Append(@, i[1])], i[2]>>
                                  ELSE CASE mode = "Restrict" /\ len > 0 ->
                                              <<[b1 EXCEPT !.path = Append(@, ClampIdx(i[1], len, r.i.t, PolNeg(i[2])))],
                                                MarkNeg(i[2], i[1], r.i.t)>>
                                         [] mode = "RZSW"    -> <<[b1 EXCEPT !.oob = TRUE], i[2]>>
                                         [] mode = "Binding" -> <<b[1], Abandon(i[2], "unconstrained:oob")>>
                                         [] OTHER            -> <<b[1], Abandon(i[2], "oob")>>
         [] r.k = "rderef" -> EvalE(P, env, r.p, st)

\* Load / Store through a pointer; an `oob` pointer (RZSW) loads the zero value of the type and skips the store
Load(st, p)     == GetPath(st.mem[p.root], p.path)
LoadT(P, st, p, t) == IF PtrOob(p) THEN ZeroOf(P, t) ELSE Load(st, p)
Store(st, p, v) == IF PtrOob(p) THEN LogAcc(st, p, 1, FALSE)
                   ELSE LogAcc([st EXCEPT !.mem[p.root] = SetPath(@, p.path, v)], p, 1, TRUE)
LogLoad(st, p)  == LogAcc(st, p, 0, ~PtrOob(p))

EvalE(P, env, e, st) ==
  IF ~Running(st) THEN <<0, st>>
  ELSE
  CASE e.k = "lit"  -> <<e.v, st>>
    [] e.k = "id"   -> <<env[e.n].v, st>>
    [] e.k = "load" -> LET p == EvalRef(P, env, e.r, st) IN
                       IF Running(p[2]) THEN <<LoadT(P, p[2], p[1], e.t), LogLoad(p[2], p[1])>> ELSE <<0, p[2]>>
    [] e.k = "addr" -> EvalRef(P, env, e.r, st)
    [] e.k = "un"   -> LET a == EvalE(P, env, e.a, st) IN
                       IF ~Running(a[2]) THEN a
                       ELSE IF e.t.k = "vec" THEN <<[i \in 1 .. e.t.n |-> UnS(e.op, e.t.e.k, a[1][i])], a[2]>>
                       ELSE IF e.t.k = "mat" THEN <<[c \in 1 .. e.t.c |-> [r \in 1 .. e.t.r |-> UnS(e.op, "f32", a[1][c][r])]], a[2]>>
                       ELSE <<UnS(e.op, e.t.k, a[1]), a[2]>>
    [] e.k = "bin" ->
         IF e.op = "&&" \/ e.op = "||"
         THEN LET a == EvalE(P, env, e.a, st) IN
              IF ~Running(a[2]) THEN a
              ELSE IF (e.op = "&&" /\ a[1] = 0) \/ (e.op = "||" /\ a[1] = 1) THEN a
              ELSE EvalE(P, env, e.b, a[2])
         ELSE LET a == EvalE(P, env, e.a, st)
                  b == EvalE(P, env, e.b, a[2])
              IN  IF ~Running(b[2]) THEN <<0, b[2]>>
                  ELSE LET r == BinV(e.op, e.a.t, e.b.t, a[1], b[1])
                       IN  IF r[1] THEN <<r[2], b[2]>> ELSE <<0, Abandon(b[2], "undecided:" \o e.op)>>
    [] e.k = "cast" -> LET a == EvalE(P, env, e.a, st) IN
                       IF ~Running(a[2]) THEN a
                       ELSE IF e.t.k = "vec"
                            THEN LET r == Lift(e.t.n, LAMBDA i : ConvS(e.a.t.e.k, e.t.e.k, a[1][i]))
                                 IN  IF r[1] THEN <<r[2], a[2]>> ELSE <<0, Abandon(a[2], "undecided:conv")>>
                            ELSE LET r == ConvS(e.a.t.k, e.t.k, a[1])
                                 IN  IF r[1] THEN <<r[2], a[2]>> ELSE <<0, Abandon(a[2], "undecided:conv")>>
    [] e.k = "bitcast" -> EvalE(P, env, e.a, st)
    [] e.k = "ctor" -> LET as == EvalArgs(P, env, e.args, 1, <<<<>>, st>>) IN
                       IF ~Running(as[2]) THEN <<0, as[2]>>
                       ELSE IF e.args = <<>> THEN <<ZeroOf(P, e.t), as[2]>>
                       ELSE IF e.t.k = "vec" /\ Len(e.args) = 1 /\ IsScalarT(e.args[1].t)
                            THEN <<[i \in 1 .. e.t.n |-> as[1][1]], as[2]>>                      \* splat
                       ELSE IF e.t.k = "vec"                                                      \* scalars and smaller vectors, flattened
                            THEN LET RECURSIVE Flat(_)
                                     Flat(i) == IF i > Len(e.args) THEN <<>>
                                                ELSE (IF e.args[i].t.k = "vec" THEN as[1][i] ELSE <<as[1][i]>>) \o Flat(i + 1)
                                 IN  <<Flat(1), as[2]>>
                       ELSE IF e.t.k = "mat" /\ IsScalarT(e.args[1].t)                            \* matrix from scalars, column major
                            THEN <<[c \in 1 .. e.t.c |-> [r \in 1 .. e.t.r |-> as[1][(c - 1) * e.t.r + r]]], as[2]>>
                       ELSE <<as[1], as[2]>>                                                       \* columns / elements / members
    [] e.k = "swz" -> LET a == EvalE(P, env, e.a, st) IN
                      IF ~Running(a[2]) THEN a
                      ELSE IF Len(e.s) = 1 THEN <<a[1][e.s[1] + 1], a[2]>>
                      ELSE <<[i \in 1 .. Len(e.s) |-> a[1][e.s[i] + 1]], a[2]>>
    [] e.k = "mem" -> LET a == EvalE(P, env, e.a, st) IN IF Running(a[2]) THEN <<a[1][e.m + 1], a[2]>> ELSE a
    [] e.k = "idx" -> LET a == EvalE(P, env, e.a, st)
                          i == EvalE(P, env, e.i, a[2])
                      IN  IF ~Running(i[2]) THEN <<0, i[2]>>
                          ELSE IF i[1] >= 0 /\ i[1] < Len(a[1]) THEN <<a[1][i[1] + 1], i[2]>>
                          ELSE LET mode == PolModeOf(P, i[2], 0) IN
                               CASE mode = "Restrict" -> <<a[1][ClampIdx(i[1], Len(a[1]), e.i.t, PolNeg(i[2])) + 1],
                                                           MarkNeg(i[2], i[1], e.i.t)>>
                                 [] mode = "RZSW"     -> <<ZeroOf(P, e.t), i[2]>>
                                 [] mode = "Binding"  -> <<0, Abandon(i[2], "unconstrained:oob")>>
                                 [] OTHER             -> <<0, Abandon(i[2], "oob")>>
    [] e.k = "call" -> LET as == EvalArgs(P, env, e.args, 1, <<<<>>, st>>) IN
                       IF ~Running(as[2]) THEN <<0, as[2]>> ELSE CallF(P, e.f, as[1], as[2])
    [] e.k = "bi" -> LET as == EvalArgs(P, env, e.args, 1, <<<<>>, st>>) IN
                     IF ~Running(as[2]) THEN <<0, as[2]>> ELSE EvalBuiltin(P, env, e, as[1], as[2])

EvalBuiltin(P, env, e, as, st) ==
  LET f == e.f
      t1 == e.args[1].t
      n == IF t1.k = "vec" THEN t1.n ELSE 0
      sk == SK(t1)
      fin(r) == IF r[1] THEN <<r[2], st>> ELSE <<0, Abandon(st, "undecided:" \o f)>>
  IN
  CASE f \in {"abs", "sign", "floor", "ceil", "trunc", "round", "fract", "sqrt", "saturate", "countOneBits",
              "countLeadingZeros", "countTrailingZeros", "reverseBits", "firstLeadingBit", "firstTrailingBit"} ->
         fin(IF n = 0 THEN Bi1(f, sk, as[1]) ELSE Lift(n, LAMBDA i : Bi1(f, sk, as[1][i])))
    [] f \in {"min", "max", "step"} ->
         fin(IF n = 0 THEN Bi2(f, sk, as[1], as[2]) ELSE Lift(n, LAMBDA i : Bi2(f, sk, as[1][i], as[2][i])))
    [] f \in {"clamp", "fma"} ->
         fin(IF n = 0 THEN Bi3(f, sk, as[1], as[2], as[3]) ELSE Lift(n, LAMBDA i : Bi3(f, sk, as[1][i], as[2][i], as[3][i])))
    [] f = "extractBits" ->
         fin(IF n = 0 THEN Bi3(f, sk, as[1], as[2], as[3]) ELSE Lift(n, LAMBDA i : Bi3(f, sk, as[1][i], as[2], as[3])))
    [] f = "insertBits" ->
         fin(IF n = 0 THEN <<TRUE, InsertBits(as[1], as[2], as[3], as[4])>>
             ELSE Lift(n, LAMBDA i : <<TRUE, InsertBits(as[1][i], as[2][i], as[3], as[4])>>))
    [] f = "select" ->      \* select(f, t, cond): cond ? t : f, component-wise for a vector condition
         LET tc == e.args[3].t IN
         <<IF tc.k = "vec" THEN [i \in 1 .. tc.n |-> IF as[3][i] = 1 THEN as[2][i] ELSE as[1][i]]
           ELSE IF as[3] = 1 THEN as[2] ELSE as[1], st>>
    [] f = "all" -> <<IF n = 0 THEN as[1] ELSE B(\A i \in 1 .. n : as[1][i] = 1), st>>
    [] f = "any" -> <<IF n = 0 THEN as[1] ELSE B(\E i \in 1 .. n : as[1][i] = 1), st>>
    [] f = "dot" -> IF sk = "f32"
                    THEN LET ok == AllSmall(as[1], n) /\ AllSmall(as[2], n)
                             d == IF ok THEN IDot(as[1], as[2], n) ELSE 0
                         IN  fin(<<ok /\ IntOkF(d), FFromInt(d)>>)
                    ELSE LET RECURSIVE D(_)
                             D(i) == IF i = 0 THEN 0 ELSE Add32(D(i - 1), Mul32(as[1][i], as[2][i]))
                         IN  <<D(n), st>>
    [] f = "cross" -> LET a == as[1]  b == as[2]
                          ok == AllSmall(a, 3) /\ AllSmall(b, 3)
                          x(i) == FSmallVal(a[i])  y(i) == FSmallVal(b[i])
                      IN  fin(<<ok, IF ok THEN <<FFromInt(x(2) * y(3) - x(3) * y(2)), FFromInt(x(3) * y(1) - x(1) * y(3)),
                                                 FFromInt(x(1) * y(2) - x(2) * y(1))>> ELSE <<0, 0, 0>>>>)
    [] f = "transpose" -> <<[r \in 1 .. t1.r |-> [c \in 1 .. t1.c |-> as[1][c][r]]], st>>
    [] f = "arrayLength" -> <<Len(Load(st, as[1])), st>>
    [] f = "atomicLoad" -> <<LoadT(P, st, as[1], e.t), LogLoad(st, as[1])>>
    [] f \in {"atomicAdd", "atomicSub", "atomicMax", "atomicMin", "atomicAnd", "atomicOr", "atomicXor", "atomicExchange"} ->
         LET old == LoadT(P, st, as[1], e.t)        \* an out-of-range atomic (RZSW) is skipped and returns zero
             k == e.t.k
             new == CASE f = "atomicAdd" -> Add32(old, as[2])
                      [] f = "atomicSub" -> Sub32(old, as[2])
                      [] f = "atomicMax" -> IF k = "i32" THEN MaxS(old, as[2]) ELSE MaxU(old, as[2])
                      [] f = "atomicMin" -> IF k = "i32" THEN MinS(old, as[2]) ELSE MinU(old, as[2])
                      [] f = "atomicAnd" -> And32(old, as[2])
                      [] f = "atomicOr"  -> Or32(old, as[2])
                      [] f = "atomicXor" -> Xor32(old, as[2])
                      [] OTHER -> as[2]
         IN  <<old, Store(st, as[1], new)>>

\* call of a user function: fresh variables for nothing (parameters are values); locals are created by `var`
CallF(P, fname, args, st) ==
  IF st.fuel = 0 THEN <<0, Abandon(st, "fuel")>>
  ELSE LET f == FnDef(P, fname)
           env0 == st.genv
           RECURSIVE BindParams(_, _)
           BindParams(i, env) == IF i > Len(f.params) THEN env ELSE BindParams(i + 1, Bind(env, f.params[i].name, ValB(args[i])))
           r == ExecB(P, BindParams(1, env0), f.body, [st EXCEPT !.fuel = @ - 1])
       IN  IF Abandoned(r) THEN <<0, r>> ELSE <<r.rv, [r EXCEPT !.sig = "n"]>>

\* statements: result <<env', st'>>
ExecB(P, env, b, st) ==
  IF b = <<>> \/ ~Running(st) THEN st
  ELSE LET r == ExecS(P, env, Head(b), st) IN ExecB(P, r[1], Tail(b), r[2])

SwitchPick(cases, v, i, def) ==
  IF i > Len(cases) THEN def
  ELSE IF \E j \in 1 .. Len(cases[i].sel) : cases[i].sel[j] = v THEN i
  ELSE SwitchPick(cases, v, i + 1, IF cases[i].def = 1 THEN i ELSE def)

\* s = [body, cont, brkif]; one call = the whole loop
LoopRun(P, env, s, st) ==
  IF st.fuel = 0 THEN Abandon(st, "fuel")
  ELSE LET r == ExecB(P, env, s.body, [st EXCEPT !.fuel = @ - 1]) IN
       IF r.sig = "brk" THEN [r EXCEPT !.sig = "n"]
       ELSE IF r.sig \notin {"n", "cont"} THEN r
       ELSE LET c == ExecB(P, env, s.cont, [r EXCEPT !.sig = "n"]) IN
            IF ~Running(c) THEN c
            ELSE IF s.brkif.k = "none" THEN LoopRun(P, env, s, c)
            ELSE LET bi == EvalE(P, env, s.brkif, c) IN
                 IF ~Running(bi[2]) THEN bi[2]
                 ELSE IF bi[1] = 1 THEN bi[2] ELSE LoopRun(P, env, s, bi[2])

ExecS(P, env, s, st) ==
  IF ~Running(st) THEN <<env, st>>
  ELSE
  CASE s.k = "let" -> LET v == EvalE(P, env, s.e, st) IN <<Bind(env, s.n, ValB(v[1])), v[2]>>
    [] s.k = "var" -> LET v == IF s.init.k = "none" THEN <<ZeroOf(P, s.t), st>> ELSE EvalE(P, env, s.init, st)
                          st2 == NewVar(v[2], v[1])
                      IN  <<Bind(env, s.n, VarB(Len(st2.mem))), st2>>
    [] s.k = "asg" -> LET p == EvalRef(P, env, s.r, st)
                          v == EvalE(P, env, s.e, p[2])
                      IN  <<env, IF Running(v[2]) THEN Store(v[2], p[1], v[1]) ELSE v[2]>>
    [] s.k = "casg" -> LET p == EvalRef(P, env, s.r, st)              \* e1 op= e2 is e1 = e1 op e2 with e1 evaluated once:
                           old == IF Running(p[2]) THEN LoadT(P, p[2], p[1], s.r.t) ELSE 0   \* the old value is read before e2 is evaluated
                           v == EvalE(P, env, s.e, LogLoad(p[2], p[1]))
                       IN  IF ~Running(v[2]) THEN <<env, v[2]>>
                           ELSE LET r == BinV(s.op, s.r.t, s.e.t, old, v[1])
                                IN  <<env, IF r[1] THEN Store(v[2], p[1], r[2]) ELSE Abandon(v[2], "undecided:" \o s.op)>>
    [] s.k \in {"inc", "dec"} ->
                       LET p == EvalRef(P, env, s.r, st) IN
                       IF ~Running(p[2]) THEN <<env, p[2]>>
                       ELSE LET old == LoadT(P, p[2], p[1], s.r.t) IN
                            <<env, Store(LogLoad(p[2], p[1]), p[1], IF s.k = "inc" THEN Add32(old, 1) ELSE Sub32(old, 1))>>
    [] s.k = "phony" -> <<env, EvalE(P, env, s.e, st)[2]>>
    [] s.k = "if" -> LET c == EvalE(P, env, s.c, st) IN
                     IF ~Running(c[2]) THEN <<env, c[2]>>
                     ELSE <<env, ExecB(P, env, IF c[1] = 1 THEN s.a ELSE s.b, c[2])>>
    [] s.k = "block" -> <<env, ExecB(P, env, s.body, st)>>
    [] s.k = "loop" -> <<env, LoopRun(P, env, s, st)>>
    [] s.k = "while" ->    \* loop { if !c { break; } body }
         <<env, LoopRun(P, env, [body |-> <<[k |-> "if", c |-> s.c, a |-> <<>>, b |-> <<[k |-> "break"]>>]>> \o s.body,
                                 cont |-> <<>>, brkif |-> None], st)>>
    [] s.k = "for" ->      \* { init; loop { if !c { break; } body; continuing { upd } } }
         LET i == IF s.init.k = "none" THEN <<env, st>> ELSE ExecS(P, env, s.init, st)
             guard == IF s.c.k = "none" THEN <<>> ELSE <<[k |-> "if", c |-> s.c, a |-> <<>>, b |-> <<[k |-> "break"]>>]>>
             upd == IF s.upd.k = "none" THEN <<>> ELSE <<s.upd>>
         IN  <<env, LoopRun(P, i[1], [body |-> guard \o <<[k |-> "block", body |-> s.body]>>, cont |-> upd, brkif |-> None], i[2])>>
    [] s.k = "switch" -> LET v == EvalE(P, env, s.e, st) IN
                         IF ~Running(v[2]) THEN <<env, v[2]>>
                         ELSE LET i == SwitchPick(s.cases, v[1], 1, 0)
                                  r == IF i = 0 THEN v[2] ELSE ExecB(P, env, s.cases[i].body, v[2])
                              IN  <<env, IF r.sig = "brk" THEN [r EXCEPT !.sig = "n"] ELSE r>>
    [] s.k = "break" -> <<env, [st EXCEPT !.sig = "brk"]>>
    [] s.k = "continue" -> <<env, [st EXCEPT !.sig = "cont"]>>
    [] s.k = "ret" -> IF s.e.k = "none" THEN <<env, [st EXCEPT !.sig = "ret"]>>
                      ELSE LET v == EvalE(P, env, s.e, st) IN
                           <<env, IF Running(v[2]) THEN [v[2] EXCEPT !.sig = "ret", !.rv = v[1]] ELSE v[2]>>
    [] s.k = "call" -> LET as == EvalArgs(P, env, s.args, 1, <<<<>>, st>>) IN
                       IF ~Running(as[2]) THEN <<env, as[2]>> ELSE <<env, CallF(P, s.f, as[1], as[2])[2]>>
    [] s.k = "bistmt" -> LET as == EvalArgs(P, env, s.e.args, 1, <<<<>>, st>>) IN     \* atomicStore and barriers
                         IF ~Running(as[2]) THEN <<env, as[2]>>
                         ELSE IF s.e.f = "atomicStore" THEN <<env, Store(as[2], as[1][1], as[1][2])>>
                         ELSE IF s.e.f \in {"workgroupBarrier", "storageBarrier"} THEN <<env, as[2]>>
                         ELSE <<env, EvalBuiltin(P, env, s.e, as[1], as[2])[2]>>

(***************************************************************************)
(* Running an entry point.  input: sequence (one per global, same order)   *)
(* of word sequences (<<>> for non-buffer globals).                        *)
(***************************************************************************)
IsBuffer(g) == g.space \in {"storage", "uniform"}

RECURSIVE InitGlobals(_, _, _, _, _)
\* evaluates initialisers in order; returns <<mem, genv>>
InitGlobals(P, input, i, mem, genv) ==
  IF i > Len(P.globals) THEN <<mem, genv>>
  ELSE LET g == P.globals[i]
           v == IF IsBuffer(g) THEN Unflat(LT(P, g.ty), LT(P, g.ty), input[i], 0)
                ELSE IF g.init.k = "none" THEN ZeroOf(P, g.ty)
                ELSE EvalE(P, genv, g.init, [mem |-> mem, fuel |-> 100, sig |-> "n", rv |-> 0, genv |-> genv])[1]
       IN  InitGlobals(P, input, i + 1, Append(mem, v), Bind(genv, g.name, VarB(i)))

RECURSIVE InitConsts(_, _, _)
InitConsts(P, i, genv) ==
  IF i > Len(P.consts) THEN genv
  ELSE LET c == P.consts[i]
           v == EvalE(P, genv, c.e, [mem |-> <<>>, fuel |-> 100, sig |-> "n", rv |-> 0, genv |-> genv])[1]
       IN  InitConsts(P, i + 1, Bind(genv, c.name, ValB(v)))

EntryOf(P) == CHOOSE i \in 1 .. Len(P.fns) : P.fns[i].entry = 1

BuiltinVal(b) == IF b = "num_workgroups" THEN <<1, 1, 1>> ELSE IF b \in {"local_invocation_index"} THEN 0 ELSE <<0, 0, 0>>

Fuel == 2000

\* final state of the run
RunState(P, input) ==
  LET genv0 == InitConsts(P, 1, <<>>)
      g == InitGlobals(P, input, 1, <<>>, genv0)
      f == P.fns[EntryOf(P)]
      RECURSIVE BindParams(_, _)
      BindParams(i, env) == IF i > Len(f.params) THEN env
                            ELSE BindParams(i + 1, Bind(env, f.params[i].name, ValB(BuiltinVal(f.params[i].builtin))))
      st0 == [mem |-> g[1], fuel |-> Fuel, sig |-> "n", rv |-> 0, genv |-> g[2]]
  IN  ExecB(P, BindParams(1, g[2]), f.body, st0)

\* the same run under a bounds-check policy, with the access log (see "Bounds-check policy" above)
RunStateP(P, input, pol) ==
  LET genv0 == InitConsts(P, 1, <<>>)
      g == InitGlobals(P, input, 1, <<>>, genv0)
      f == P.fns[EntryOf(P)]
      RECURSIVE BindParams(_, _)
      BindParams(i, env) == IF i > Len(f.params) THEN env
                            ELSE BindParams(i + 1, Bind(env, f.params[i].name, ValB(BuiltinVal(f.params[i].builtin))))
      st0 == [mem |-> g[1], fuel |-> Fuel, sig |-> "n", rv |-> 0, genv |-> g[2], pol |-> pol, acc |-> <<>>, negc |-> FALSE]
  IN  ExecB(P, BindParams(1, g[2]), f.body, st0)

\* what the harness compares: per global buffer the final words and the mask of compared words
Run(P, input) ==
  LET st == RunState(P, input)
      ok == ~Abandoned(st)
  IN  [ ok |-> ok, why |-> IF ok THEN "" ELSE st.sig,
        out |-> IF ok THEN [i \in 1 .. Len(P.globals) |->
                              IF IsBuffer(P.globals[i]) THEN FlatWords(LT(P, P.globals[i].ty), st.mem[i], input[i]) ELSE <<>>]
                ELSE <<>>,
        mask |-> IF ok THEN [i \in 1 .. Len(P.globals) |->
                              IF IsBuffer(P.globals[i]) THEN FlatMask(LT(P, P.globals[i].ty), st.mem[i], Len(input[i])) ELSE <<>>]
                 ELSE <<>> ]

=============================================================================
