----------------------------- MODULE ConstEval -----------------------------
(***************************************************************************)
(* C06 - what WGSL's *const-expression* evaluation gives for an expression *)
(* tree over literals:                                                     *)
(*                                                                         *)
(*   ConstValue(e)   the value (CV below; for concrete types it applies,   *)
(*                   by definition, the very operators WgslSem applies at  *)
(*                   run time: BinS, UnS, ConvS, EvalBuiltin)              *)
(*   ConstErr(e)     WGSL makes the expression a shader-creation error     *)
(*                   (CV(e).s = "err", CV(e).why names the rule)           *)
(*   ConcreteType    the type abstract-numeric values acquire              *)
(*   RunValue(e)     the value the same tree has when its leaves arrive at *)
(*                   run time (WgslSem!EvalE on the concretised tree)      *)
(*   Lemma           ConstValue = RunValue on non-error, decided inputs    *)
(*   Judge           verdict for what the real naga did with e             *)
(*                                                                         *)
(* Trees use the JSON schema of WgslSem (every node carries its static     *)
(* type t) extended with the abstract scalar kinds "ai" (AbstractInt,      *)
(* 64-bit signed, value <<hi, lo>> of two 32-bit words) and "af"           *)
(* (AbstractFloat; only values exactly representable in binary32 are       *)
(* modelled, as their f32 word, and an operation on them is decided only   *)
(* where the binary32 result is exact - then binary64 gives the same).     *)
(*                                                                         *)
(* Results are records [s, why, m, v]:                                     *)
(*   s = "ok"   value v;  m # "" : WGSL *may* make this an error (rule m),  *)
(*              the spec then accepts an error as well as v                 *)
(*   s = "err"  shader-creation error, rule `why`                          *)
(*   s = "und"  not decided by this spec (never compared)                  *)
(*                                                                         *)
(* Rules (WGSL, as transcribed in DESIGN.md appendix A):                   *)
(*  E1 integer / and % by zero ("div0"); most-negative / or % -1           *)
(*     ("minint/-1")                                                       *)
(*  E2 shift count >= bit width ("shift>=width"; 32 concrete, 64 abstract) *)
(*  E3 << losing significant bits ("shl-overflow")                         *)
(*  E4 AbstractInt + - * unary- abs overflow ("ai-overflow")               *)
(*  E5 value not representable in the target type of an (implicit or       *)
(*     explicit) conversion or as a literal ("notrepr:<kind>")             *)
(*  E6 float operation overflowing / dividing by zero ("foverflow",        *)
(*     "fdiv0")                                                            *)
(*  M1 concrete i32/u32 + - * overflow: wraps, or error ("ovf")            *)
(*  M2 -INT_MIN, abs(INT_MIN): INT_MIN, or error ("neg-min")               *)
(*  M3 f32 -> i32/u32 out of range: saturates, or error ("f2i-range")      *)
(*  M4 extractBits / insertBits with offset+count > 32: clamped, or error  *)
(*     ("bits-range")                                                      *)
(***************************************************************************)
EXTENDS WgslSem, Json

CONSTANT Faults      \* seeded faults of the *specification* (self-test): {} in real runs

R(s, why, m, v) == [s |-> s, why |-> why, m |-> m, v |-> v]
Ok(v)       == R("ok", "", "", v)
Maybe(m, v) == R("ok", "", m, v)
Err(why)    == R("err", why, "", 0)
Und(why)    == R("und", why, "", 0)

IsAbsK(k)  == k \in {"ai", "af"}
KindOf(t)  == IF t.k = "vec" THEN t.e.k ELSE t.k
LanesOf(t) == IF t.k = "vec" THEN t.n ELSE 0
WithKind(t, k) == IF t.k = "vec" THEN [k |-> "vec", n |-> t.n, e |-> [k |-> k]] ELSE [k |-> k]

Min2(a, b) == IF a < b THEN a ELSE b

\* first index satisfying P (must exist)
FirstIdx(rs, P(_)) == CHOOSE i \in DOMAIN rs : P(rs[i]) /\ \A j \in DOMAIN rs : P(rs[j]) => i <= j

\* combine the results of children / lanes: an error anywhere is an error; else undecided anywhere is undecided
Join(rs) ==
  IF \E i \in DOMAIN rs : rs[i].s = "err" THEN Err(rs[FirstIdx(rs, LAMBDA r : r.s = "err")].why)
  ELSE IF \E i \in DOMAIN rs : rs[i].s = "und" THEN Und(rs[FirstIdx(rs, LAMBDA r : r.s = "und")].why)
  ELSE Maybe(IF \E i \in DOMAIN rs : rs[i].m # "" THEN rs[FirstIdx(rs, LAMBDA r : r.m # "")].m ELSE "",
             [i \in DOMAIN rs |-> rs[i].v])
\* keep the status of r, replace the value (only meaningful when r.s = "ok")
WithV(r, v) == IF r.s = "ok" THEN [r EXCEPT !.v = v] ELSE r
\* add a maybe-reason
AddM(r, m) == IF r.s = "ok" /\ r.m = "" THEN [r EXCEPT !.m = m] ELSE r

(***************************************************************************)
(* AbstractInt: 64-bit two's complement as <<hi, lo>>                      *)
(***************************************************************************)
I64OfS(w) == <<IF w < 0 THEN -1 ELSE 0, w>>
I64OfU(w) == <<0, w>>
FitsS(x)  == x[1] = (IF x[2] < 0 THEN -1 ELSE 0)
FitsU(x)  == x[1] = 0
Zero64    == <<0, 0>>
Min64     == <<MinI, 0>>
Add64(a, b) == LET lo == Add32(a[2], b[2])  c == IF LtU(lo, a[2]) THEN 1 ELSE 0 IN <<Add32(Add32(a[1], b[1]), c), lo>>
Sub64(a, b) == LET lo == Sub32(a[2], b[2])  c == IF LtU(a[2], b[2]) THEN 1 ELSE 0 IN <<Sub32(Sub32(a[1], b[1]), c), lo>>
AddOvf64(a, b) == (a[1] >= 0) = (b[1] >= 0) /\ (Add64(a, b)[1] >= 0) # (a[1] >= 0)
SubOvf64(a, b) == (a[1] >= 0) # (b[1] >= 0) /\ (Sub64(a, b)[1] >= 0) # (a[1] >= 0)
Neg64(a) == Sub64(Zero64, a)
Abs64(a) == IF a[1] < 0 THEN Neg64(a) ELSE a          \* magnitude as an unsigned 64-bit pattern
Lt64(a, b) == a[1] < b[1] \/ (a[1] = b[1] /\ LtU(a[2], b[2]))
Le64(a, b) == a = b \/ Lt64(a, b)
Min64Of(a, b) == IF Lt64(b, a) THEN b ELSE a
Max64Of(a, b) == IF Lt64(a, b) THEN b ELSE a

\* 16 x 16 -> <<hi16, lo16>> without leaving TLC's int range
Mul16(x, y) == LET p1 == x * (y \div 256)  p0 == x * (y % 256)
                   t  == p0 + (p1 % 256) * 256
               IN  <<(t \div K16) + (p1 \div 256), t % K16>>
\* unsigned 32 x 32 -> 64
MulU64(a, b) ==
  LET a0 == Lo(a)  a1 == UHi(a)  b0 == Lo(b)  b1 == UHi(b)
      p00 == Mul16(a0, b0)  p01 == Mul16(a0, b1)  p10 == Mul16(a1, b0)  p11 == Mul16(a1, b1)
      s1 == p00[1] + p01[2] + p10[2]
      s2 == p01[1] + p10[1] + p11[2] + (s1 \div K16)
      r3 == p11[1] + (s2 \div K16)
  IN  <<Mk(r3 % K16, s2 % K16), Mk(s1 % K16, p00[2])>>
\* products / quotients are decided when both magnitudes fit in 32 bits (then |a*b| < 2^64)
MagFits(a)     == FitsU(Abs64(a))
MulDecided(a, b) == MagFits(a) /\ MagFits(b)
MulNeg(a, b)   == ((a[1] < 0) # (b[1] < 0)) /\ a # Zero64 /\ b # Zero64
MulMag(a, b)   == MulU64(Abs64(a)[2], Abs64(b)[2])
MulOvf64(a, b) == LET m == MulMag(a, b) IN m[1] < 0 /\ ~(MulNeg(a, b) /\ m = Min64)
Mul64(a, b)    == LET m == MulMag(a, b) IN IF MulNeg(a, b) THEN Neg64(m) ELSE m
DivMag(a, b)   == DivU0(Abs64(a)[2], Abs64(b)[2])
Div64(a, b)    == LET q == <<0, DivMag(a, b)>> IN IF MulNeg(a, b) THEN Neg64(q) ELSE q
Rem64(a, b)    == LET r == <<0, Sub32(Abs64(a)[2], Mul32(DivMag(a, b), Abs64(b)[2]))>> IN IF a[1] < 0 THEN Neg64(r) ELSE r
RECURSIVE ShlIter(_, _)
ShlIter(x, n)  == IF n = 0 THEN <<x, FALSE>>
                  ELSE LET r == ShlIter(x, n - 1) IN <<Add64(r[1], r[1]), r[2] \/ AddOvf64(r[1], r[1])>>
Shr64(a, n)    == IF n = 0 THEN a
                  ELSE IF n >= 32 THEN <<IF a[1] < 0 THEN -1 ELSE 0, ShrSK(a[1], n - 32)>>
                  ELSE <<ShrSK(a[1], n), Or32(ShrUK(a[2], n), ShlK(a[1], 32 - n))>>

AiBinS(op, a, b) ==
  CASE op = "+" -> IF AddOvf64(a, b) THEN Err("ai-overflow") ELSE Ok(Add64(a, b))
    [] op = "-" -> IF SubOvf64(a, b) THEN Err("ai-overflow") ELSE Ok(Sub64(a, b))
    [] op = "*" -> IF ~MulDecided(a, b) THEN Und("ai-mul-wide") ELSE IF MulOvf64(a, b) THEN Err("ai-overflow") ELSE Ok(Mul64(a, b))
    [] op = "/" -> IF b = Zero64 THEN Err("div0") ELSE IF ~MulDecided(a, b) THEN Und("ai-div-wide") ELSE Ok(Div64(a, b))
    [] op = "%" -> IF b = Zero64 THEN Err("div0") ELSE IF ~MulDecided(a, b) THEN Und("ai-div-wide") ELSE Ok(Rem64(a, b))
    [] op = "&" -> Ok(<<And32(a[1], b[1]), And32(a[2], b[2])>>)
    [] op = "|" -> Ok(<<Or32(a[1], b[1]), Or32(a[2], b[2])>>)
    [] op = "^" -> Ok(<<Xor32(a[1], b[1]), Xor32(a[2], b[2])>>)
    [] op = "==" -> Ok(B(a = b))
    [] op = "!=" -> Ok(B(a # b))
    [] op = "<"  -> Ok(B(Lt64(a, b)))
    [] op = "<=" -> Ok(B(Le64(a, b)))
    [] op = ">"  -> Ok(B(Lt64(b, a)))
    [] op = ">=" -> Ok(B(Le64(b, a)))
\* shifts of an AbstractInt by a u32 count n (E2 with width 64, E3)
AiShiftS(op, a, n) ==
  IF ~LtU(n, 64) THEN Err("shift>=width")
  ELSE IF op = ">>" THEN Ok(Shr64(a, n))
  ELSE LET r == ShlIter(a, n) IN IF r[2] THEN Err("shl-overflow") ELSE Ok(r[1])

(***************************************************************************)
(* binary32: overflow (E6) and exactness (AbstractFloat) predicates        *)
(***************************************************************************)
RoundExact(n) == LET nb == BitLen(n) IN nb <= 24 \/ n % Pow2(nb - 24) = 0
ExpOvf(e) == e + 150 > 254
FAddOvf(a, b) == FOk(a) /\ FOk(b) /\ ~FIsZero(a) /\ ~FIsZero(b) /\
                 LET p == AddParts(a, b) IN p[2] # 0 /\ ExpOvf(RoundNE(p[2], p[3])[2])
FMulOvf(a, b) == FOk(a) /\ FOk(b) /\ ~FIsZero(a) /\ ~FIsZero(b) /\ ExpOvf(MulParts(a, b)[2])
FDivOvf(a, b) == FOk(a) /\ FOk(b) /\ ~FIsZero(a) /\ ~FIsZero(b) /\
                 LET p == DivParts(a, b) IN ExpOvf(RoundNE(p[1], p[2])[2])
FAddExact(a, b) ==
  FIsZero(a) \/ FIsZero(b) \/
  LET big   == IF FExp(a) > FExp(b) \/ (FExp(a) = FExp(b) /\ FMant(a) >= FMant(b)) THEN a ELSE b
      small == IF big = a THEN b ELSE a
      d  == FExp(big) - FExp(small)
      m8 == FMant(small) * 8
      p  == AddParts(a, b)
  IN  (d = 0 \/ (d < 27 /\ m8 % Pow2(d) = 0)) /\ (p[2] = 0 \/ RoundExact(p[2]))
FDivExact(a, b) == FIsZero(a) \/ LET n == DivParts(a, b)[1] IN n % 2 = 0 /\ RoundExact(n)

\* E6 for one f32 operation
FErrBinS(op, a, b) ==
  IF ~(FOk(a) /\ FOk(b)) THEN ""
  ELSE CASE op = "+" -> IF FAddOvf(a, b) THEN "foverflow" ELSE ""
         [] op = "-" -> IF FAddOvf(a, FNeg(b)) THEN "foverflow" ELSE ""
         [] op = "*" -> IF FMulOvf(a, b) THEN "foverflow" ELSE ""
         [] op = "/" -> IF FIsZero(b) THEN "fdiv0" ELSE IF FDivOvf(a, b) THEN "foverflow" ELSE ""
         [] op = "%" -> IF FIsZero(b) THEN "fdiv0" ELSE ""
         [] OTHER -> ""

\* AbstractFloat operation on f32-representable operands: decided where binary32 is exact
AfBinS(op, a, b) ==
  IF ~(FOk(a) /\ FOk(b)) THEN Und("af-operand")
  ELSE CASE op = "+" -> IF FAddOk(a, b) /\ FAddExact(a, b) THEN Ok(FAdd(a, b)) ELSE Und("af-inexact")
         [] op = "-" -> IF FSubOk(a, b) /\ FAddExact(a, FNeg(b)) THEN Ok(FSub(a, b)) ELSE Und("af-inexact")
         [] op = "*" -> IF FMulOk(a, b) /\ FMulExact(a, b) THEN Ok(FMul(a, b)) ELSE Und("af-inexact")
         [] op = "/" -> IF FIsZero(b) THEN Err("fdiv0")
                        ELSE IF FDivOk(a, b) /\ FDivExact(a, b) THEN Ok(FDiv(a, b)) ELSE Und("af-inexact")
         [] op = "%" -> IF FIsZero(b) THEN Err("fdiv0") ELSE IF FRemOk(a, b) THEN Ok(FRem(a, b)) ELSE Und("af-rem")
         [] OTHER -> Ok(BinS(op, "f32", a, b))            \* comparisons

(***************************************************************************)
(* Concrete scalar operations: errors (E1-E3, E6), maybes (M1), value      *)
(***************************************************************************)
MulOvfS(a, b) == ~FitsS(Mul64(I64OfS(a), I64OfS(b)))
MulOvfU(a, b) == MulU64(a, b)[1] # 0
ShlLoses(k, a, n) == IF k = "i32" THEN ShrSK(ShlK(a, n), n) # a ELSE ShrUK(ShlK(a, n), n) # a

ErrBinS(op, k, a, b) ==
  CASE k = "f32" -> FErrBinS(op, a, b)
    [] k \in {"i32", "u32"} /\ op \in {"/", "%"} ->
         IF b = 0 /\ "div0_noerr" \notin Faults THEN "div0" ELSE IF k = "i32" /\ a = MinI /\ b = -1 THEN "minint/-1" ELSE ""
    [] k \in {"i32", "u32"} /\ op \in {"<<", ">>"} ->
         IF ~LtU(b, 32) THEN "shift>=width" ELSE IF op = "<<" /\ ShlLoses(k, a, b) THEN "shl-overflow" ELSE ""
    [] OTHER -> ""
MaybeBinS(op, k, a, b) ==
  CASE k = "i32" /\ op = "+" -> IF AddOvfS(a, b) THEN "ovf" ELSE ""
    [] k = "i32" /\ op = "-" -> IF SubOvfS(a, b) THEN "ovf" ELSE ""
    [] k = "i32" /\ op = "*" -> IF MulOvfS(a, b) THEN "ovf" ELSE ""
    [] k = "u32" /\ op = "+" -> IF LtU(Add32(a, b), a) THEN "ovf" ELSE ""
    [] k = "u32" /\ op = "-" -> IF LtU(a, b) THEN "ovf" ELSE ""
    [] k = "u32" /\ op = "*" -> IF MulOvfU(a, b) THEN "ovf" ELSE ""
    [] OTHER -> ""
\* the value is WgslSem's run-time operator, by definition (seeded faults replace it in the self-test only)
ValBinS(op, k, a, b) ==
  IF "shr_logical" \in Faults /\ op = ">>" /\ k = "i32" THEN ShrU32(a, b)
  ELSE IF "u32_cmp_signed" \in Faults /\ op = "<" /\ k = "u32" THEN B(a < b)
  ELSE BinS(op, k, a, b)
ConcBinS(op, k, a, b) ==
  LET why == ErrBinS(op, k, a, b) IN
  IF why # "" THEN Err(why)
  ELSE IF ~BinOkS(op, k, a, b) THEN Und("undecided:" \o op)
  ELSE Maybe(MaybeBinS(op, k, a, b), ValBinS(op, k, a, b))

BinAny(op, k, a, b) ==         \* k: operand kind (for shifts: kind of the left operand, b is a u32 count)
  IF k = "ai" THEN (IF op \in {"<<", ">>"} THEN AiShiftS(op, a, b) ELSE AiBinS(op, a, b))
  ELSE IF k = "af" THEN AfBinS(op, a, b)
  ELSE ConcBinS(op, k, a, b)

UnAny(op, k, a) ==
  CASE k = "ai" /\ op = "-" -> IF a = Min64 THEN Err("ai-overflow") ELSE Ok(Neg64(a))
    [] k = "ai" /\ op = "~" -> Ok(<<Not32(a[1]), Not32(a[2])>>)
    [] k = "af" -> Ok(FNeg(a))
    [] k = "i32" /\ op = "-" -> Maybe(IF a = MinI THEN "neg-min" ELSE "", UnS(op, k, a))
    [] OTHER -> Ok(UnS(op, k, a))

(***************************************************************************)
(* Conversions.  ConvTo: the *implicit* conversion of an abstract value to *)
(* the kind its context demands (E5); CastS: the value constructor T(x).   *)
(***************************************************************************)
I64ToF(x) == IF FitsS(x) THEN (IF SToFOk(x[2]) THEN Ok(SToF(x[2])) ELSE Und("int->float inexact"))
             ELSE IF FitsU(x) THEN (IF UToFOk(x[2]) THEN Ok(UToF(x[2])) ELSE Und("int->float inexact"))
             ELSE Und("int->float wide")
ConvToS(v, from, to) ==
  CASE from = to -> Ok(v)
    [] from = "ai" /\ to = "i32" -> IF FitsS(v) THEN Ok(v[2]) ELSE Err("notrepr:i32")
    [] from = "ai" /\ to = "u32" -> IF FitsU(v) THEN Ok(v[2]) ELSE Err("notrepr:u32")
    [] from = "ai" /\ to \in {"f32", "af"} -> I64ToF(v)
    [] from = "af" /\ to = "f32" -> Ok(v)
    [] OTHER -> Und("conversion " \o from \o "->" \o to)

F2IRange(to, a) == IF to = "i32" THEN a < 0 /\ FExp(a) >= 8 /\ a # -822083584     \* below -2^31 (0xCF000000)
                   ELSE a < 0 /\ FIsNormal(a) /\ FExp(a) >= -23                     \* <= -1.0
ValConvS(from, to, a) ==
  IF "f2i_round" \in Faults /\ from = "f32" /\ to = "i32" /\ FOk(a) THEN <<TRUE, FToS(FRound(a))>> ELSE ConvS(from, to, a)
CastS(from, to, v) ==
  CASE from = "ai" /\ to \in {"i32", "u32", "f32"} -> ConvToS(v, "ai", to)
    [] from = "ai" /\ to = "bool" -> IF FitsS(v) THEN Ok(B(v # Zero64)) ELSE Und("bool(ai) outside i32")
    [] from = "af" /\ to = "f32" -> Ok(v)
    [] from = "af" -> LET r == ValConvS("f32", to, v) IN
                      IF ~r[1] THEN Und("undecided:conv") ELSE Maybe(IF to # "bool" /\ F2IRange(to, v) THEN "f2i-range" ELSE "", r[2])
    [] OTHER -> LET r == ValConvS(from, to, v) IN
                IF ~r[1] THEN Und("undecided:conv")
                ELSE Maybe(IF from = "f32" /\ to \in {"i32", "u32"} /\ F2IRange(to, v) THEN "f2i-range" ELSE "", r[2])

(***************************************************************************)
(* ConcreteType: the type an expression of type t acquires where the       *)
(* context demands kind `want` ("" = nothing demanded: i32 / f32)          *)
(***************************************************************************)
ConcreteKind(k, want) ==
  CASE k = "ai" -> IF want \in {"i32", "u32", "f32"} THEN want ELSE "i32"
    [] k = "af" -> "f32"
    [] OTHER -> k
ConcreteType(t, want) == WithKind(t, ConcreteKind(KindOf(t), want))

Unify(k1, k2) ==
  CASE k1 = k2 -> k1
    [] k1 = "ai" /\ k2 \in {"af", "i32", "u32", "f32"} -> k2
    [] k2 = "ai" /\ k1 \in {"af", "i32", "u32", "f32"} -> k1
    [] k1 = "af" /\ k2 = "f32" -> "f32"
    [] k2 = "af" /\ k1 = "f32" -> "f32"
    [] OTHER -> "bad"
RECURSIVE UnifyAll(_, _)
UnifyAll(ks, i) == IF i = Len(ks) THEN ks[i] ELSE Unify(ks[i], UnifyAll(ks, i + 1))

(***************************************************************************)
(* Builtins                                                                *)
(***************************************************************************)
FloatOnly == {"floor", "ceil", "trunc", "round", "fract", "sqrt", "saturate", "step", "fma", "cross", "exp2", "log2", "pow", "mix"}
BitBi == {"countOneBits", "countLeadingZeros", "countTrailingZeros", "reverseBits", "firstLeadingBit", "firstTrailingBit"}
SameKindBi == {"abs", "sign", "min", "max", "clamp", "dot", "countOneBits", "countLeadingZeros", "countTrailingZeros",
               "reverseBits", "firstLeadingBit", "firstTrailingBit"} \cup FloatOnly
\* the kind argument i of builtin node e is converted to
ArgKind(e, i) ==
  LET K == KindOf(e.t) IN
  CASE e.f \in SameKindBi -> K
    [] e.f = "select" -> IF i = 3 THEN "bool" ELSE K
    [] e.f = "extractBits" -> IF i = 1 THEN K ELSE "u32"
    [] e.f = "insertBits" -> IF i <= 2 THEN K ELSE "u32"
    [] e.f \in {"all", "any"} -> "bool"
    [] e.f \in {"pack4xI8", "pack4xI8Clamp"} -> "i32"
    [] e.f \in {"pack4xU8", "pack4xU8Clamp", "unpack4xI8", "unpack4xU8"} -> "u32"
    [] OTHER -> K

SExt8(b) == IF b >= 128 THEN b - 256 ELSE b
RECURSIVE PowInt(_, _)
PowInt(x, y) == IF y = 0 THEN 1 ELSE LET p == PowInt(x, y - 1) IN IF p > 4096 THEN 16777216 ELSE x * p
\* builtins WgslSem does not have: integer packing (exact) and exact points of exp2 / log2 / pow / mix
XBi(f, as) ==
  CASE f = "pack4xI8" -> Ok(FromBytes(Byte(as[1][1], 0), Byte(as[1][2], 0), Byte(as[1][3], 0), Byte(as[1][4], 0)))
    [] f = "pack4xU8" -> Ok(FromBytes(Byte(as[1][1], 0), Byte(as[1][2], 0), Byte(as[1][3], 0), Byte(as[1][4], 0)))
    [] f = "pack4xI8Clamp" -> LET c(x) == Byte(Clamp32S(x, -128, 127), 0) IN Ok(FromBytes(c(as[1][1]), c(as[1][2]), c(as[1][3]), c(as[1][4])))
    [] f = "pack4xU8Clamp" -> LET c(x) == MinU(x, 255) IN Ok(FromBytes(c(as[1][1]), c(as[1][2]), c(as[1][3]), c(as[1][4])))
    [] f = "unpack4xI8" -> Ok([i \in 1 .. 4 |-> SExt8(Byte(as[1], i - 1))])
    [] f = "unpack4xU8" -> Ok([i \in 1 .. 4 |-> Byte(as[1], i - 1)])
    [] f = "exp2" -> IF FIsSmallInt(as[1]) /\ FSmallVal(as[1]) >= -126 /\ FSmallVal(as[1]) <= 127
                     THEN Ok(Pack(0, P23, FSmallVal(as[1]) - 23)) ELSE Und("exp2 off the exact points")
    [] f = "log2" -> IF FIsNormal(as[1]) /\ as[1] > 0 /\ FFrac(as[1]) = 0 THEN Ok(FFromInt(FExpF(as[1]) - 127)) ELSE Und("log2 off the exact points")
    [] f = "pow"  -> IF FIsSmallInt(as[1]) /\ FIsSmallInt(as[2]) /\ FSmallVal(as[1]) >= 1 /\ FSmallVal(as[2]) >= 0 /\ FSmallVal(as[2]) <= 24
                     THEN LET p == PowInt(FSmallVal(as[1]), FSmallVal(as[2])) IN IF p < 16777216 THEN Ok(FFromInt(p)) ELSE Und("pow large")
                     ELSE Und("pow off the exact points")
    [] f = "mix"  -> IF FIsSmallInt(as[1]) /\ FIsSmallInt(as[2]) /\ FIsSmallInt(as[3]) /\ FSmallVal(as[3]) \in {0, 1, 2, -1}
                     THEN LET a == FSmallVal(as[1])  b == FSmallVal(as[2])  t == FSmallVal(as[3]) IN Ok(FFromInt(a * (1 - t) + b * t))
                     ELSE Und("mix off the exact points")
XBiSet == {"pack4xI8", "pack4xU8", "pack4xI8Clamp", "pack4xU8Clamp", "unpack4xI8", "unpack4xU8", "exp2", "log2", "pow", "mix"}

P0  == [structs |-> <<>>, consts |-> <<>>, globals |-> <<>>, fns |-> <<>>]
St0 == [mem |-> <<>>, fuel |-> 10, sig |-> "n", rv |-> 0, genv |-> <<>>]

\* AbstractInt builtins
AiBi(f, as) ==
  CASE f = "abs"  -> IF as[1] = Min64 THEN Err("ai-overflow") ELSE Ok(Abs64(as[1]))
    [] f = "sign" -> Ok(IF as[1] = Zero64 THEN Zero64 ELSE IF as[1][1] < 0 THEN <<-1, -1>> ELSE <<0, 1>>)
    [] f = "min"  -> Ok(Min64Of(as[1], as[2]))
    [] f = "max"  -> Ok(Max64Of(as[1], as[2]))
    [] f = "clamp" -> IF Lt64(as[3], as[2]) THEN Und("clamp lo>hi") ELSE Ok(Min64Of(Max64Of(as[1], as[2]), as[3]))
    [] f = "select" -> Ok(IF as[3] = 1 THEN as[2] ELSE as[1])
    [] OTHER -> Und("abstract builtin " \o f)

\* maybe-rules of concrete builtins (scalars or lane values)
BiMaybeS(f, k, as) ==
  CASE f = "abs" /\ k = "i32" -> IF as[1] = MinI THEN "neg-min" ELSE ""
    [] f = "extractBits" -> IF ~LtU(as[2], 33) \/ ~LtU(as[3], 33) \/ as[2] + as[3] > 32 THEN "bits-range" ELSE ""
    [] f = "insertBits"  -> IF ~LtU(as[3], 33) \/ ~LtU(as[4], 33) \/ as[3] + as[4] > 32 THEN "bits-range" ELSE ""
    [] OTHER -> ""

(***************************************************************************)
(* The const-expression evaluator                                          *)
(***************************************************************************)
RECURSIVE CV(_)

\* value of child c converted (implicitly) to kind k, lane-wise
Conv(c, k) ==
  LET r == CV(c)  fk == KindOf(c.t)  n == LanesOf(c.t) IN
  IF r.s # "ok" \/ fk = k THEN r
  ELSE IF n = 0 THEN LET x == ConvToS(r.v, fk, k) IN IF x.s = "ok" THEN AddM(x, r.m) ELSE x
  ELSE LET x == Join([i \in 1 .. n |-> ConvToS(r.v[i], fk, k)]) IN IF x.s = "ok" THEN AddM(x, r.m) ELSE x

\* literal nodes: x = 1 marks a literal whose text denotes a value outside its type (E5)
LitV(e) ==
  IF e.x = 1 THEN (IF e.t.k = "af" THEN Und("af-big") ELSE Err("notrepr:" \o e.t.k))
  ELSE IF e.t.k = "ai" THEN Ok(<<e.hi, e.lo>>) ELSE Ok(e.v)

OpKind(e) == IF e.op \in {"<<", ">>"} THEN KindOf(e.a.t) ELSE Unify(KindOf(e.a.t), KindOf(e.b.t))

CV(e) ==
  CASE e.k = "lit" -> LitV(e)
    [] e.k = "sink" ->       \* the place that fixes the concrete type; an af literal too large for f32 is E5
         IF e.a.k = "lit" /\ e.a.x = 1 /\ e.a.t.k = "af" THEN Err("notrepr:f32") ELSE Conv(e.a, KindOf(e.t))
    [] e.k = "un" ->
         LET k == KindOf(e.t)  a == Conv(e.a, k)  n == LanesOf(e.t) IN
         IF a.s # "ok" THEN a
         ELSE IF n = 0 THEN AddM(UnAny(e.op, k, a.v), a.m)
         ELSE AddM(Join([i \in 1 .. n |-> UnAny(e.op, k, a.v[i])]), a.m)
    [] e.k = "bin" ->
         IF e.op \in {"&&", "||"} THEN
           LET a == CV(e.a) IN
           IF a.s # "ok" THEN a
           ELSE IF (e.op = "&&" /\ a.v = 0) \/ (e.op = "||" /\ a.v = 1) THEN a ELSE CV(e.b)
         ELSE
           LET k  == OpKind(e)
               a  == Conv(e.a, k)
               b  == Conv(e.b, IF e.op \in {"<<", ">>"} THEN "u32" ELSE k)
               j  == Join(<<a, b>>)
               n  == LanesOf(e.t)
               A(i) == IF LanesOf(e.a.t) = 0 THEN a.v ELSE a.v[i]
               Bv(i) == IF LanesOf(e.b.t) = 0 THEN b.v ELSE b.v[i]
           IN  IF j.s # "ok" THEN j
               ELSE IF n = 0 THEN AddM(BinAny(e.op, k, a.v, b.v), j.m)
               ELSE AddM(Join([i \in 1 .. n |-> BinAny(e.op, k, A(i), Bv(i))]), j.m)
    [] e.k = "cast" ->
         LET a == CV(e.a)  fk == KindOf(e.a.t)  tk == KindOf(e.t)  n == LanesOf(e.t) IN
         IF a.s # "ok" THEN a
         ELSE IF n = 0 THEN AddM(CastS(fk, tk, a.v), a.m)
         ELSE AddM(Join([i \in 1 .. n |-> CastS(fk, tk, a.v[i])]), a.m)
    [] e.k = "bitcast" -> CV(e.a)                          \* concrete operands only (generator)
    [] e.k = "ctor" ->
         LET k == KindOf(e.t)
             j == Join([i \in 1 .. Len(e.args) |-> Conv(e.args[i], k)])
             RECURSIVE Flat(_)
             Flat(i) == IF i > Len(e.args) THEN <<>>
                        ELSE (IF e.args[i].t.k = "vec" THEN j.v[i] ELSE <<j.v[i]>>) \o Flat(i + 1)
         IN  IF j.s # "ok" THEN j
             ELSE IF Len(e.args) = 1 /\ e.args[1].t.k # "vec" THEN WithV(j, [i \in 1 .. e.t.n |-> j.v[1]])
             ELSE WithV(j, Flat(1))
    [] e.k = "swz" ->
         LET a == CV(e.a) IN
         IF a.s # "ok" THEN a
         ELSE IF Len(e.s) = 1 THEN WithV(a, a.v[e.s[1] + 1]) ELSE WithV(a, [i \in 1 .. Len(e.s) |-> a.v[e.s[i] + 1]])
    [] e.k = "bi" ->
         LET j  == Join([i \in 1 .. Len(e.args) |-> Conv(e.args[i], ArgKind(e, i))])
             K  == KindOf(e.t)
             ak == ArgKind(e, 1)
             n  == LanesOf(e.args[1].t)
             \* node as WgslSem sees it: argument types concretised (af evaluates as f32)
             ck(x) == IF x = "af" THEN "f32" ELSE x
             node == [f |-> e.f, t |-> WithKind(e.t, ck(K)),
                      args |-> [i \in 1 .. Len(e.args) |-> [t |-> WithKind(e.args[i].t, ck(ArgKind(e, i)))]]]
             lane(i) == [a \in 1 .. Len(e.args) |-> IF LanesOf(e.args[a].t) = 0 THEN j.v[a] ELSE j.v[a][i]]
         IN
         IF j.s # "ok" THEN j
         ELSE IF ak = "ai" THEN
              (IF n = 0 THEN AddM(AiBi(e.f, j.v), j.m) ELSE AddM(Join([i \in 1 .. n |-> AiBi(e.f, lane(i))]), j.m))
         ELSE IF e.f \in {"pack4xI8", "pack4xU8", "pack4xI8Clamp", "pack4xU8Clamp", "unpack4xI8", "unpack4xU8"} THEN AddM(XBi(e.f, j.v), j.m)
         ELSE IF e.f \in XBiSet THEN
              (IF n = 0 THEN AddM(XBi(e.f, j.v), j.m) ELSE AddM(Join([i \in 1 .. n |-> XBi(e.f, lane(i))]), j.m))
         ELSE LET r  == EvalBuiltin(P0, <<>>, node, j.v, St0)
                  mb == IF n = 0 \/ e.f \in {"dot", "cross", "all", "any"} THEN BiMaybeS(e.f, ak, j.v)
                        ELSE LET ms == {BiMaybeS(e.f, ak, lane(i)) : i \in 1 .. n} \ {""} IN IF ms = {} THEN "" ELSE CHOOSE m \in ms : TRUE
                  \* AbstractFloat fract is decided only where the subtraction is exact
                  afx == ak # "af" \/ e.f # "fract" \/
                         (IF n = 0 THEN FAddExact(j.v[1], FNeg(FFloor(j.v[1]))) ELSE \A i \in 1 .. n : FAddExact(j.v[1][i], FNeg(FFloor(j.v[1][i]))))
                  v  == IF "min_lane" \in Faults /\ e.f = "min" /\ n > 1 /\ Running(r[2]) THEN [r[1] EXCEPT ![n] = r[1][1]] ELSE r[1]
              IN  IF Abandoned(r[2]) \/ ~afx THEN Und(IF afx THEN r[2].sig ELSE "af-inexact")
                  ELSE AddM(Maybe(mb, v), j.m)

ConstValue(e) == CV(e)
ConstErr(e)   == CV(e).s = "err"

(***************************************************************************)
(* Typing rules (one level: the node's type from its children's types).    *)
(* The generator annotates; TypeOK re-derives every annotation.            *)
(***************************************************************************)
Shape(n, k) == IF n = 0 THEN [k |-> k] ELSE [k |-> "vec", n |-> n, e |-> [k |-> k]]
BinLanes(a, b) == IF LanesOf(a) = 0 THEN LanesOf(b) ELSE LanesOf(a)
CmpOps == {"==", "!=", "<", "<=", ">", ">="}
TypeRule(e) ==
  CASE e.k = "lit" -> e.t.k \in {"i32", "u32", "f32", "bool", "ai", "af"}
    [] e.k = "sink" -> e.t = ConcreteType(e.a.t, e.want)
    [] e.k = "un" -> e.t = e.a.t /\ KindOf(e.t) \in (CASE e.op = "-" -> {"i32", "f32", "ai", "af"} [] e.op = "~" -> {"i32", "u32", "ai"} [] OTHER -> {"bool"})
    [] e.k = "bin" ->
         LET ka == KindOf(e.a.t)  kb == KindOf(e.b.t)  n == BinLanes(e.a.t, e.b.t) IN
         /\ (LanesOf(e.a.t) = 0 \/ LanesOf(e.b.t) = 0 \/ LanesOf(e.a.t) = LanesOf(e.b.t))
         /\ CASE e.op \in {"&&", "||"} -> e.t = [k |-> "bool"] /\ e.a.t = e.t /\ e.b.t = e.t
              [] e.op \in {"<<", ">>"} -> e.t = e.a.t /\ ka \in {"i32", "u32", "ai"} /\ kb \in {"u32", "ai"} /\ LanesOf(e.a.t) = LanesOf(e.b.t)
              [] e.op \in CmpOps -> Unify(ka, kb) # "bad" /\ e.t = Shape(n, "bool")
              [] OTHER -> Unify(ka, kb) # "bad" /\ e.t = Shape(n, Unify(ka, kb))
    [] e.k = "cast" -> ~IsAbsK(KindOf(e.t)) /\ LanesOf(e.t) = LanesOf(e.a.t)
    [] e.k = "bitcast" -> ~IsAbsK(KindOf(e.t)) /\ ~IsAbsK(KindOf(e.a.t)) /\ LanesOf(e.t) = LanesOf(e.a.t)
    [] e.k = "ctor" -> e.t.k = "vec" /\ (e.ex = 1 \/ KindOf(e.t) = UnifyAll([i \in 1 .. Len(e.args) |-> KindOf(e.args[i].t)], 1))
    [] e.k = "swz" -> KindOf(e.t) = KindOf(e.a.t) /\ LanesOf(e.t) = (IF Len(e.s) = 1 THEN 0 ELSE Len(e.s))
    [] e.k = "bi" ->
         IF e.f \in SameKindBi \ {"dot"} THEN
           LET u == UnifyAll([i \in 1 .. Len(e.args) |-> KindOf(e.args[i].t)], 1) IN
           KindOf(e.t) = (IF e.f \in FloatOnly /\ u = "ai" THEN "af"
                          ELSE IF e.f \in BitBi /\ u = "ai" THEN "i32" ELSE u)   \* the bit builtins have no abstract overload
         ELSE TRUE
RECURSIVE TypeOK(_)
Kids(e) == CASE e.k \in {"un", "cast", "bitcast", "swz", "sink"} -> <<e.a>>
             [] e.k = "bin" -> <<e.a, e.b>>
             [] e.k \in {"ctor", "bi"} -> e.args
             [] OTHER -> <<>>
TypeOK(e) == TypeRule(e) /\ \A i \in DOMAIN Kids(e) : TypeOK(Kids(e)[i])

(***************************************************************************)
(* Run-time form: abstract leaves take the concrete kind their context     *)
(* demands; the tree is then WgslSem's and EvalE gives its value.          *)
(* Defined for trees in which every operator works on a concrete kind.     *)
(***************************************************************************)
RECURSIVE HasAbsOp(_), Conc(_, _)
HasAbsOp(e) ==
  \/ e.k = "un" /\ IsAbsK(KindOf(e.t))
  \/ e.k = "bin" /\ e.op \notin {"&&", "||"} /\ IsAbsK(OpKind(e))
  \/ e.k = "bi" /\ IsAbsK(ArgKind(e, 1))
  \/ \E i \in DOMAIN Kids(e) : HasAbsOp(Kids(e)[i])
ConcLit(e, dk) ==
  IF ~IsAbsK(e.t.k) THEN [k |-> "lit", t |-> e.t, v |-> e.v, bad |-> e.x]
  ELSE LET r == ConvToS(IF e.t.k = "ai" THEN <<e.hi, e.lo>> ELSE e.v, e.t.k, dk) IN
       [k |-> "lit", t |-> [k |-> dk], v |-> IF r.s = "ok" THEN r.v ELSE 0, bad |-> IF r.s = "ok" /\ e.x = 0 THEN 0 ELSE 1]
\* dk: the kind demanded from above (used only where the node's own kind is abstract)
Conc(e, dk) ==
  LET own == KindOf(e.t)  k == IF IsAbsK(own) THEN dk ELSE own IN
  CASE e.k = "lit"  -> ConcLit(e, k)
    [] e.k = "sink" -> Conc(e.a, KindOf(e.t))
    [] e.k = "un"   -> [k |-> "un", op |-> e.op, t |-> WithKind(e.t, k), a |-> Conc(e.a, k)]
    [] e.k = "bin"  -> IF e.op \in {"&&", "||"} THEN [k |-> "bin", op |-> e.op, t |-> e.t, a |-> Conc(e.a, "bool"), b |-> Conc(e.b, "bool")]
                       ELSE LET ok == OpKind(e) IN
                            [k |-> "bin", op |-> e.op, t |-> WithKind(e.t, k), a |-> Conc(e.a, ok),
                             b |-> Conc(e.b, IF e.op \in {"<<", ">>"} THEN "u32" ELSE ok)]
    [] e.k = "cast" -> LET fk == KindOf(e.a.t)  tk == KindOf(e.t) IN
                       [k |-> "cast", t |-> e.t, a |-> Conc(e.a, IF fk = "ai" THEN (IF tk = "bool" THEN "i32" ELSE tk) ELSE "f32")]
    [] e.k = "bitcast" -> [k |-> "bitcast", t |-> e.t, a |-> Conc(e.a, "")]
    [] e.k = "ctor" -> [k |-> "ctor", t |-> WithKind(e.t, k), args |-> [i \in 1 .. Len(e.args) |-> Conc(e.args[i], k)]]
    [] e.k = "swz"  -> [k |-> "swz", t |-> WithKind(e.t, k), s |-> e.s, a |-> Conc(e.a, k)]
    [] e.k = "bi"   -> [k |-> "bi", f |-> e.f, t |-> WithKind(e.t, k), args |-> [i \in 1 .. Len(e.args) |-> Conc(e.args[i], ArgKind(e, i))]]

HasX(e) == e.k \in {"bi"} /\ e.f \in XBiSet
RECURSIVE AnyX(_)
AnyX(e) == HasX(e) \/ \E i \in DOMAIN Kids(e) : AnyX(Kids(e)[i])

\* a leaf of the concretised tree has no value of the demanded kind: the tree has no run-time form
RECURSIVE ConcBad(_)
ConcBad(c) == (c.k = "lit" /\ c.bad = 1) \/ \E i \in DOMAIN Kids(c) : ConcBad(Kids(c)[i])

\* run-time value: [s |-> "ok" | "und" | "na", v]
RunValue(e) ==
  IF HasAbsOp(e) \/ AnyX(e) THEN [s |-> "na", v |-> 0]
  ELSE LET c == Conc(e, "") IN
       IF ConcBad(c) THEN [s |-> "na", v |-> 0]
       ELSE LET r == EvalE(P0, <<>>, c, St0) IN
            IF Running(r[2]) THEN [s |-> "ok", v |-> r[1]] ELSE [s |-> "und", v |-> 0]

\* words equal, f32 words up to the sign of zero (as in the run-time comparison of C01)
SameW(k, a, b) == a = b \/ (k = "f32" /\ FIsZero(a) /\ FIsZero(b))
SameV(t, a, b) == IF t.k = "vec" THEN \A i \in 1 .. t.n : SameW(t.e.k, a[i], b[i]) ELSE SameW(t.k, a, b)

\* Lemma: 1 holds, 0 violated, 2 not applicable (error / undecided / abstract operators)
Lemma2(e, c, r) == IF c.s # "ok" \/ r.s # "ok" THEN 2 ELSE IF SameV(e.t, c.v, r.v) THEN 1 ELSE 0
Lemma(e) == Lemma2(e, CV(e), RunValue(e))

Flat(t, v) == IF t.k = "vec" THEN v ELSE <<v>>

(***************************************************************************)
(* Judge: the verdict on what naga did with the compile-time form of e.    *)
(* obs = [acc, folded, trap, v]: accepted by the front end; the stored      *)
(* value is a constant tree in the IR; executing the emitted code trapped;  *)
(* the observed words.                                                      *)
(***************************************************************************)
Judge2(e, c, obs) ==
  CASE c.s = "und" -> "skip"
    [] c.s = "err" -> IF obs.acc = 0 THEN "ok" ELSE IF obs.folded = 1 THEN "noerror" ELSE "deferred"
    [] OTHER -> IF obs.acc = 0 THEN (IF c.m # "" THEN "ok" ELSE "rejects-valid")
                ELSE IF obs.trap = 1 THEN (IF obs.folded = 1 THEN "trap" ELSE "skip")   \* left for run time and undefined there: C01's matter
                ELSE IF Len(obs.v) = Len(Flat(e.t, c.v)) /\ SameV(e.t, c.v, IF e.t.k = "vec" THEN obs.v ELSE obs.v[1]) THEN "ok"
                ELSE "value"
Judge(e, obs) == Judge2(e, CV(e), obs)

=============================================================================
