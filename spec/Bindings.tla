------------------------------ MODULE Bindings ------------------------------
(***************************************************************************)
(* C17 - resource bindings and stage interfaces survive translation.       *)
(*                                                                         *)
(* From a MODULE INTERFACE DESCRIPTION M and a backend option record o,    *)
(* this module defines the artefacts the emitted code must carry:          *)
(*                                                                         *)
(*    Exp(M, o) = [allowed |-> set of artefact records that may appear,    *)
(*                 keys    |-> identities that must appear exactly once,   *)
(*                 ok      |-> whether the backend call must succeed]      *)
(*                                                                         *)
(* and the judgement  Judge(Exp(M, o), ok, obs)  of a sequence of OBSERVED *)
(* artefact records (extracted by the harness from the SPIR-V binary, the  *)
(* HLSL / MSL / GLSL text and the reflection structs with decoders that    *)
(* share no code with naga): every observed record must be allowed, every  *)
(* key must be observed, no key twice.                                     *)
(*                                                                         *)
(* M = [globals |-> << [name, kind, group, binding, gform, bform, rev] >>, *)
(*      helpers |-> << [name, uses, pairs, calls] >>,                      *)
(*      eps     |-> << [name, stage, wg, wgn, wgforms, params, result,     *)
(*                      uses, pairs, calls] >>]                            *)
(*   kind  : uniform storage_ro storage_rw tex2d tex2du texdepth texms     *)
(*           stexw sampler sampler_cmp workgroup private                   *)
(*   uses  : indices of globals used directly; pairs: <<texture, sampler>> *)
(*           used together; calls: indices of helpers called               *)
(*   param / result = [kind |-> "bare" | "struct" | "none", sname, ios]    *)
(*   io = [name, ty, b |-> "builtin" | "location", builtin, loc, lform,    *)
(*         interp, sampling, invariant, blend, blform, rev]                *)
(*   *form fields are the SPELLING of the attribute argument in the WGSL   *)
(*   text (plain 3, usuffix 3u, isuffix 3i, hex 0x3, const K, expr 2+1);   *)
(*   WGSL gives all of them the same value, so no rule below looks at them *)
(*   rev (globals and ios) is the ORDER in which the attributes are written *)
(*   (@binding before @group, @interpolate before @location, @invariant     *)
(*   before @builtin ...): WGSL gives it no meaning; no rule looks at it    *)
(*                                                                         *)
(* Sources of the rules.                                                   *)
(*  WGSL (W3C) 13.3 / 12.3: @group/@binding, @location, @builtin,          *)
(*   @interpolate defaults (perspective, center; integer IO is flat),      *)
(*   @invariant, @blend_src, @workgroup_size (missing y, z are 1); static  *)
(*   use of a resource by an entry point = use anywhere in its call tree.  *)
(*  SPIR-V 1.6 2.16.1, 3.x + Vulkan 15.x "Shader Interfaces": storage      *)
(*   classes; DescriptorSet/Binding; BuiltIn / Location / Index / Flat /   *)
(*   NoPerspective / Centroid / Sample / Invariant; execution model and    *)
(*   modes; OpEntryPoint interface = the Input/Output variables (all       *)
(*   referenced global variables from version 1.4).                        *)
(*  naga's DOCUMENTED mapping rules where the target leaves a choice:      *)
(*   hlsl.Options.BindingMap / FakeMissingBindings (backend.go), register  *)
(*   class per resource type and sampler heap indirection (types.go,       *)
(*   writeResourceHandle), semantic naming LOCn / SV_Targetn / SV_*        *)
(*   (types.go writeSemantic, conv.go); msl.Options.PerEntryPointMap /     *)
(*   FakeMissingBindings, automatic slot assignment (functions.go          *)
(*   computeResourceMap), attribute spelling (functions.go); glsl          *)
(*   Options.BindingMap, block / instance / varying naming and the version *)
(*   predicates (writer.go), TranslationInfo (glsl.go).                    *)
(***************************************************************************)
EXTENDS Naturals, Integers, Sequences, FiniteSets, TLC

Range(s) == {s[i] : i \in DOMAIN s}

RECURSIVE Cat(_)
Cat(ss) == IF ss = <<>> THEN <<>> ELSE Head(ss) \o Cat(Tail(ss))

\* ---------------------------------------------------------------- the module description
IsRes(g) == g.kind \notin {"workgroup", "private"}

Class(kind) == CASE kind \in {"uniform", "storage_ro", "storage_rw"} -> "buffer"
                 [] kind \in {"sampler", "sampler_cmp"}              -> "sampler"
                 [] kind \in {"workgroup", "private"}                -> "none"
                 [] OTHER                                            -> "texture"

\* helpers reachable through the call graph
RECURSIVE HClose(_, _, _)
HClose(M, hs, fuel) ==
  LET nx == hs \cup UNION {Range(M.helpers[h].calls) : h \in hs}
  IN  IF fuel = 0 \/ nx = hs THEN hs ELSE HClose(M, nx, fuel - 1)

FnGlobals(f) == Range(f.uses) \cup UNION {{p[1], p[2]} : p \in Range(f.pairs)}
Callees(M, e) == HClose(M, Range(e.calls), Len(M.helpers))

\* STATIC USE: indices of the globals an entry point (or helper) reaches through its call tree
Reach(M, e) == FnGlobals(e) \cup UNION {FnGlobals(M.helpers[h]) : h \in Callees(M, e)}
ReachPairs(M, e) == Range(e.pairs) \cup UNION {Range(M.helpers[h].pairs) : h \in Callees(M, e)}

ParamIOs(p) == IF p.kind = "none" THEN <<>> ELSE p.ios
InIOs(e)  == Cat([i \in DOMAIN e.params |-> ParamIOs(e.params[i])])
OutIOs(e) == ParamIOs(e.result)

ScalarKind(ty) == CASE ty \in {"f32", "vec2f", "vec4f"} -> "float"
                    [] ty \in {"i32", "vec2i"}          -> "sint"
                    [] ty \in {"u32", "vec4u", "vec3u"} -> "uint"
                    [] OTHER                            -> "bool"

\* WGSL 13.3.1.4: default interpolation is (perspective, center); integer user IO is flat
\* (naga applies the default when the attribute is absent: lower.go applyDefaultInterpolation).
EffInterp(io) ==
  IF io.interp # "none"
  THEN [kind |-> io.interp,
        sampling |-> IF io.interp = "flat" THEN "none" ELSE IF io.sampling = "none" THEN "center" ELSE io.sampling]
  ELSE IF ScalarKind(io.ty) = "float" THEN [kind |-> "perspective", sampling |-> "center"]
       ELSE [kind |-> "flat", sampling |-> "none"]

\* interpolation is meaningful on vertex outputs and fragment inputs only
Interpolated(stage, dir) == (stage = "vertex" /\ dir = "out") \/ (stage = "fragment" /\ dir = "in")

\* @workgroup_size(x [, y [, z]]): missing arguments are 1
WgSize(e) == [i \in 1 .. 3 |-> IF i <= e.wgn THEN e.wg[i] ELSE 1]

EP(M)  == Range(M.eps)
GL(M)  == Range(M.globals)
Res(M) == {g \in GL(M) : IsRes(g)}
UsedRes(M, e) == {M.globals[i] : i \in {j \in Reach(M, e) : IsRes(M.globals[j])}}

\* well-formedness of a description (what makes the WGSL text valid): used by the generator as an invariant
WellFormed(M) ==
  /\ \A e \in EP(M) :
       /\ \A a, b \in UsedRes(M, e) : (a.group = b.group /\ a.binding = b.binding) => a = b
       /\ \A i \in Reach(M, e) : (M.globals[i].kind = "workgroup" => e.stage = "compute")
       /\ (e.stage = "vertex" => \E io \in Range(OutIOs(e)) : io.b = "builtin" /\ io.builtin = "position")
       /\ (e.stage = "compute" => e.result.kind = "none")
       /\ \A d \in {"in", "out"} :
            LET ios == IF d = "in" THEN InIOs(e) ELSE OutIOs(e) IN
            \A i, j \in DOMAIN ios : i # j =>
               \/ ios[i].b # ios[j].b
               \/ (ios[i].b = "builtin" /\ ios[i].builtin # ios[j].builtin)
               \/ (ios[i].b = "location" /\ (ios[i].loc # ios[j].loc \/ ios[i].blend # ios[j].blend))
  /\ \A i, j \in DOMAIN M.globals : i # j => M.globals[i].name # M.globals[j].name

\* ---------------------------------------------------------------- identity of an artefact record
S(n) == ToString(n)

KeyOf(r) ==
  CASE r.k = "var"     -> "var " \o r.sig \o (IF r.uniq THEN "" ELSE " " \o S(r.set) \o "." \o S(r.binding) \o " #" \o S(r.dup))
    [] r.k = "entry"   -> "entry " \o r.ep
    [] r.k = "mode"    -> "mode " \o r.ep \o " " \o r.mode
    [] r.k = "io"      -> "io " \o r.ep \o " " \o r.dir \o " " \o r.key
    [] r.k = "iface"   -> "iface " \o r.ep \o " " \o r.sig \o " " \o r.class \o " " \o S(r.set) \o "." \o S(r.binding) \o " #" \o S(r.dup)
    [] r.k = "res"     -> "res " \o r.g
    [] r.k = "samp"    -> "samp " \o r.g
    [] r.k = "heap"    -> "heap " \o r.name
    [] r.k = "sampidx" -> "sampidx " \o S(r.group)
    [] r.k = "threads" -> "threads " \o r.ep
    [] r.k = "epname"  -> "epname " \o r.ep
    [] r.k = "regbind" -> "regbind " \o r.g
    [] r.k = "arg"     -> "arg " \o r.ep \o " " \o r.g
    [] r.k = "block"   -> "block " \o r.ty
    [] r.k = "tex"     -> "tex " \o r.name
    [] r.k = "vary"    -> "vary " \o r.dir \o " " \o S(r.loc) \o " " \o S(r.index)
    [] r.k = "r_uniform" -> "r_uniform " \o r.block
    [] r.k = "r_pair"  -> "r_pair " \o r.name
    [] r.k = "r_texmap" -> "r_texmap " \o r.name
    [] OTHER           -> "?"

\* ================================================================ SPIR-V
\* o = [be |-> "spv", ver |-> 10 * major + minor]

SpvClass(kind) == CASE kind = "uniform"                       -> "Uniform"
                    [] kind \in {"storage_ro", "storage_rw"}  -> "StorageBuffer"
                    [] kind = "workgroup"                     -> "Workgroup"
                    [] kind = "private"                       -> "Private"
                    [] OTHER                                  -> "UniformConstant"

\* naga emits no OpName for module-scope variables, so a variable is identified by the shape of its type: the test
\* modules give the i-th global, when it is a buffer, a workgroup or a private variable, an array of i + 1 elements
\* ("n<i+1>", unique); textures are identified by the OpTypeImage operands their WGSL type prescribes (sampled type,
\* Dim, Depth, Arrayed, MS, Sampled, Format), samplers only as "sampler".  Variables with the same signature are
\* compared as a multiset (field dup numbers identical records).
SpvSig(M, i) ==
  LET kind == M.globals[i].kind IN
  CASE Class(kind) \in {"buffer", "none"} -> "n" \o S(i + 1)
    [] kind = "tex2d"    -> "image float 2D depth0 arrayed0 ms0 sampled1 fmt0"
    [] kind = "tex2du"   -> "image uint 2D depth0 arrayed0 ms0 sampled1 fmt0"
    [] kind = "texdepth" -> "image float 2D depth1 arrayed0 ms0 sampled1 fmt0"
    [] kind = "texms"    -> "image float 2D depth0 arrayed0 ms1 sampled1 fmt0"
    [] kind = "stexw"    -> "image float 2D depth0 arrayed0 ms0 sampled2 fmt4"
    [] OTHER             -> "sampler"

\* every module-scope variable: storage class per address space; DescriptorSet = @group, Binding = @binding on
\* resources and on nothing else (-1 = decoration absent); NonWritable on read-only storage buffers, NonReadable on
\* write-only storage textures
SpvVarBase(M, i) ==
  LET g == M.globals[i] IN
  [k |-> "var", sig |-> SpvSig(M, i), uniq |-> Class(g.kind) \in {"buffer", "none"}, class |-> SpvClass(g.kind),
   set |-> IF IsRes(g) THEN g.group ELSE -1, binding |-> IF IsRes(g) THEN g.binding ELSE -1,
   nonwritable |-> g.kind = "storage_ro", nonreadable |-> g.kind = "stexw"]
SpvVar(M, i) == [kk \in {"k", "sig", "uniq", "class", "set", "binding", "nonwritable", "nonreadable", "dup"} |->
                   IF kk = "dup" THEN Cardinality({j \in 1 .. (i - 1) : SpvVarBase(M, j) = SpvVarBase(M, i)}) ELSE SpvVarBase(M, i)[kk]]

SpvModel(stage) == CASE stage = "vertex" -> "Vertex" [] stage = "fragment" -> "Fragment" [] OTHER -> "GLCompute"

SpvBuiltin(b, dir) ==
  CASE b = "position"               -> IF dir = "out" THEN "Position" ELSE "FragCoord"
    [] b = "vertex_index"           -> "VertexIndex"
    [] b = "instance_index"         -> "InstanceIndex"
    [] b = "front_facing"           -> "FrontFacing"
    [] b = "frag_depth"             -> "FragDepth"
    [] b = "sample_index"           -> "SampleId"
    [] b = "sample_mask"            -> "SampleMask"
    [] b = "local_invocation_id"    -> "LocalInvocationId"
    [] b = "local_invocation_index" -> "LocalInvocationIndex"
    [] b = "global_invocation_id"   -> "GlobalInvocationId"
    [] b = "workgroup_id"           -> "WorkgroupId"
    [] b = "num_workgroups"         -> "NumWorkgroups"
    [] OTHER                        -> "?"

\* the flattened relation (entry point, direction, builtin | location[, index]) -> decorations, whether naga
\* makes one variable per bare parameter / struct member or decorates struct members
SpvIOKey(io, dir) == IF io.b = "builtin" THEN SpvBuiltin(io.builtin, dir)
                     ELSE "Location" \o S(io.loc) \o (IF io.blend >= 0 THEN " Index" \o S(io.blend) ELSE "")

SpvIO(e, dir, io) ==
  LET ei == EffInterp(io)
      on == Interpolated(e.stage, dir) /\ io.b = "location"
  IN [k |-> "io", ep |-> e.name, dir |-> dir, key |-> SpvIOKey(io, dir),
      \* Vulkan VUID-StandaloneSpirv-Flat-04744: integer (and bool) fragment inputs are Flat, built-ins included
      flat |-> (on /\ ei.kind = "flat") \/ (io.b = "builtin" /\ e.stage = "fragment" /\ dir = "in" /\ ScalarKind(io.ty) # "float"),
      nopersp  |-> on /\ ei.kind = "linear",
      centroid |-> on /\ ei.sampling = "centroid",
      sample   |-> on /\ ei.sampling = "sample",
      invariant |-> io.b = "builtin" /\ io.invariant]

\* @invariant on a fragment INPUT position has no effect in Vulkan; the decoration may or may not be there
SpvIOAllowed(e, dir, io) ==
  {SpvIO(e, dir, io)} \cup
  (IF io.b = "builtin" /\ io.invariant /\ dir = "in" THEN {[SpvIO(e, dir, io) EXCEPT !.invariant = FALSE]} ELSE {})

SpvIOs(e) == UNION ({SpvIOAllowed(e, "in", io) : io \in Range(InIOs(e))} \cup {SpvIOAllowed(e, "out", io) : io \in Range(OutIOs(e))})

WritesFragDepth(e) == \E io \in Range(OutIOs(e)) : io.b = "builtin" /\ io.builtin = "frag_depth"

SpvModes(e) ==
  CASE e.stage = "fragment" -> {[k |-> "mode", ep |-> e.name, mode |-> "OriginUpperLeft", args |-> <<>>]}
                               \cup (IF WritesFragDepth(e) THEN {[k |-> "mode", ep |-> e.name, mode |-> "DepthReplacing", args |-> <<>>]} ELSE {})
    [] e.stage = "compute"  -> {[k |-> "mode", ep |-> e.name, mode |-> "LocalSize", args |-> WgSize(e)]}
    [] OTHER                -> {}

\* naga zero-initialises workgroup memory at the start of a compute entry point that uses workgroup variables; the
\* polyfill needs local_invocation_id and adds an Input variable for it when the entry point declares none
\* (backend.go emitWorkgroupInitPolyfill) - allowed, not required.
HasBuiltinIn(e, b) == \E io \in Range(InIOs(e)) : io.b = "builtin" /\ io.builtin = b
UsesWorkgroup(M, e) == \E i \in Reach(M, e) : M.globals[i].kind = "workgroup"
SpvPolyfill(M, e) ==
  IF e.stage = "compute" /\ UsesWorkgroup(M, e) /\ ~HasBuiltinIn(e, "local_invocation_id")
  THEN {[k |-> "io", ep |-> e.name, dir |-> "in", key |-> "LocalInvocationId", flat |-> FALSE, nopersp |-> FALSE,
         centroid |-> FALSE, sample |-> FALSE, invariant |-> FALSE]}
  ELSE {}

\* OpEntryPoint interface: exactly the Input/Output variables of the entry point; from 1.4 additionally exactly the
\* statically used module-scope variables of every storage class
SpvIfaceBase(M, e, i) == [k |-> "iface", ep |-> e.name, sig |-> SpvSig(M, i), class |-> SpvClass(M.globals[i].kind),
                          set |-> SpvVarBase(M, i).set, binding |-> SpvVarBase(M, i).binding]
SpvIface(M, e, ver) ==
  IF ver >= 14
  THEN {[kk \in {"k", "ep", "sig", "class", "set", "binding", "dup"} |->
           IF kk = "dup" THEN Cardinality({j \in Reach(M, e) : j < i /\ SpvIfaceBase(M, e, j) = SpvIfaceBase(M, e, i)})
           ELSE SpvIfaceBase(M, e, i)[kk]] : i \in Reach(M, e)}
  ELSE {}

SpvExp(M, o) ==
  LET req == {SpvVar(M, i) : i \in DOMAIN M.globals}
             \cup {[k |-> "entry", ep |-> e.name, model |-> SpvModel(e.stage)] : e \in EP(M)}
             \cup UNION {SpvModes(e) : e \in EP(M)}
             \cup UNION {SpvIOs(e) : e \in EP(M)}
             \cup UNION {SpvIface(M, e, o.ver) : e \in EP(M)}
  IN [allowed |-> req \cup UNION {SpvPolyfill(M, e) : e \in EP(M)},
      keys |-> {KeyOf(r) : r \in req}, ok |-> TRUE]

\* ================================================================ HLSL
\* o = [be |-> "hlsl", map |-> << [group, binding, space, reg] >>, sbuf |-> << [group, space, reg] >>, fake |-> BOOLEAN]
\* hlsl.Options: "BindingMap maps source resource bindings to HLSL register targets.  If a binding is not found in
\* the map and FakeMissingBindings is false, compilation will fail with ErrMissingBinding."; FakeMissingBindings
\* "generates automatic bindings for resources not found in BindingMap": register = binding, space = group.

MapHas(map, g)  == \E i \in DOMAIN map : map[i].group = g.group /\ map[i].binding = g.binding
MapGet(map, g)  == map[CHOOSE i \in DOMAIN map : map[i].group = g.group /\ map[i].binding = g.binding]

HlslTarget(o, g) == IF MapHas(o.map, g) THEN [space |-> MapGet(o.map, g).space, reg |-> MapGet(o.map, g).reg]
                    ELSE [space |-> g.group, reg |-> g.binding]

\* register class per resource kind: b constant buffers, t read-only views (read-only storage, sampled / depth /
\* multisampled textures), u unordered access (read-write storage, storage textures)
HlslRegClass(kind) == CASE kind = "uniform" -> "b"
                        [] kind \in {"storage_rw", "stexw"} -> "u"
                        [] OTHER -> "t"

HlslRes(o, g) == [k |-> "res", g |-> g.name, reg |-> HlslRegClass(g.kind), n |-> HlslTarget(o, g).reg, space |-> HlslTarget(o, g).space]

\* samplers: naga binds no s-register per sampler; it declares the two sampler heaps (SamplerHeapTargets: s0 space0 /
\* s0 space1 by default), one StructuredBuffer<uint> index array per bind group (t<group>, space255 when no
\* SamplerBufferBindingMap entry and FakeMissingBindings) and defines  name = heap[indexArray[<target register>]]
HlslSamp(o, g) == [k |-> "samp", g |-> g.name, heap |-> IF g.kind = "sampler_cmp" THEN "nagaComparisonSamplerHeap" ELSE "nagaSamplerHeap",
                   group |-> g.group, index |-> HlslTarget(o, g).reg]
Samplers(M) == {g \in Res(M) : Class(g.kind) = "sampler"}

HlslSemantic(e, dir, io) ==
  IF io.b = "builtin" THEN
    CASE io.builtin = "position"               -> "SV_Position"
      [] io.builtin = "vertex_index"           -> "SV_VertexID"
      [] io.builtin = "instance_index"         -> "SV_InstanceID"
      [] io.builtin = "front_facing"           -> "SV_IsFrontFace"
      [] io.builtin = "frag_depth"             -> "SV_Depth"
      [] io.builtin = "sample_index"           -> "SV_SampleIndex"
      [] io.builtin = "sample_mask"            -> "SV_Coverage"
      [] io.builtin = "global_invocation_id"   -> "SV_DispatchThreadID"
      [] io.builtin = "local_invocation_id"    -> "SV_GroupThreadID"
      [] io.builtin = "local_invocation_index" -> "SV_GroupIndex"
      [] io.builtin = "workgroup_id"           -> "SV_GroupID"
      [] OTHER                                 -> "?"
  \* writeSemantic: @blend_src(1) is SV_Target1; fragment outputs are SV_Target<location>; everything else LOC<location>
  ELSE IF io.blend = 1 THEN "SV_Target1"
  ELSE IF e.stage = "fragment" /\ dir = "out" THEN "SV_Target" \o S(io.loc)
  ELSE "LOC" \o S(io.loc)

\* num_workgroups has no HLSL system value (naga reads it from a constant buffer and writes a placeholder semantic):
\* left out of the relation
HlslIOs(e) ==
  LET mk(dir, io) ==
        LET ei == EffInterp(io)
            on == Interpolated(e.stage, dir) /\ io.b = "location"
        IN [k |-> "io", ep |-> e.name, dir |-> dir, key |-> HlslSemantic(e, dir, io),
            nointerp |-> on /\ ei.kind = "flat", nopersp |-> on /\ ei.kind = "linear",
            centroid |-> on /\ ei.sampling = "centroid", sample |-> on /\ ei.sampling = "sample"]
  IN {mk("in", io) : io \in {x \in Range(InIOs(e)) : ~(x.b = "builtin" /\ x.builtin = "num_workgroups")}}
     \cup {mk("out", io) : io \in Range(OutIOs(e))}

HlslMissing(M, o) == {g \in Res(M) : ~MapHas(o.map, g)}

HlslExp(M, o) ==
  LET res  == {HlslRes(o, g) : g \in {x \in Res(M) : Class(x.kind) # "sampler"}}
      smp  == {HlslSamp(o, g) : g \in Samplers(M)}
      heaps == IF Samplers(M) = {} THEN {}
               ELSE {[k |-> "heap", name |-> "nagaSamplerHeap", n |-> 0, space |-> 0],
                     [k |-> "heap", name |-> "nagaComparisonSamplerHeap", n |-> 0, space |-> 1]}
      \* index array of a bind group: the SamplerBufferBindingMap entry (o.sbuf) of the group, else (faked) t<group>, space255
      sb(grp) == IF \E i \in DOMAIN o.sbuf : o.sbuf[i].group = grp
                 THEN LET t == o.sbuf[CHOOSE i \in DOMAIN o.sbuf : o.sbuf[i].group = grp] IN [n |-> t.reg, space |-> t.space]
                 ELSE [n |-> grp, space |-> 255]
      idx  == {[k |-> "sampidx", group |-> g.group, reg |-> "t", n |-> sb(g.group).n, space |-> sb(g.group).space] : g \in Samplers(M)}
      ios  == UNION {HlslIOs(e) : e \in EP(M)}
      thr  == {[k |-> "threads", ep |-> e.name, x |-> WgSize(e)[1], y |-> WgSize(e)[2], z |-> WgSize(e)[3]] : e \in {x \in EP(M) : x.stage = "compute"}}
      \* reflection: EntryPointNames names an existing function of the right kind; RegisterBindings is truthful
      \* (same register as the declaration in the text) and complete (every resource declared with a register)
      names == {[k |-> "epname", ep |-> e.name, intext |-> TRUE] : e \in EP(M)}
      rb   == {[k |-> "regbind", g |-> r.g, reg |-> r.reg, n |-> r.n, space |-> r.space] : r \in res}
      req  == res \cup smp \cup heaps \cup idx \cup ios \cup thr \cup names \cup rb
      \* the interpolation modifiers HLSL allows on vertex inputs / pixel outputs carry no meaning there: any
      anyMods(r) == {[r EXCEPT !.nointerp = a, !.nopersp = b, !.centroid = c, !.sample = d] : a, b, c, d \in BOOLEAN}
      loose == UNION {anyMods(r) : r \in {x \in ios : \E e \in EP(M) : e.name = x.ep /\ ~Interpolated(e.stage, x.dir)}}
      \* allowed, not required: the SV_GroupThreadID parameter of the workgroup zero-initialisation, and the placeholder
      \* semantic (SV_GroupID) naga writes on a num_workgroups input
      plain(e, sem) == [k |-> "io", ep |-> e.name, dir |-> "in", key |-> sem, nointerp |-> FALSE, nopersp |-> FALSE, centroid |-> FALSE, sample |-> FALSE]
      \* (the HLSL backend zero-initialises every workgroup variable of the MODULE in every compute entry point)
      extra == {plain(e, "SV_GroupThreadID") : e \in {x \in EP(M) : x.stage = "compute" /\ \E g \in GL(M) : g.kind = "workgroup"}}
               \cup {plain(e, "SV_GroupID") : e \in {x \in EP(M) : HasBuiltinIn(x, "num_workgroups")}}
  IN [allowed |-> req \cup loose \cup extra, keys |-> {KeyOf(r) : r \in req},
      ok |-> o.fake \/ HlslMissing(M, o) = {}]

\* ================================================================ MSL
\* o = [be |-> "msl", fake |-> BOOLEAN, maps |-> << [ep, entries |-> << [group, binding, slot] >>] >>]
\* msl.Options.PerEntryPointMap "maps entry point names to their resource bindings.  If nil, bindings are
\* auto-generated"; FakeMissingBindings "generates placeholder bindings for resources that are referenced but not in
\* the PerEntryPointMap" ([[user(fake0)]]).  Only the resources an entry point statically uses become parameters.

MslHasEp(o, e) == \E i \in DOMAIN o.maps : o.maps[i].ep = e.name
MslEpMap(o, e) == o.maps[CHOOSE i \in DOMAIN o.maps : o.maps[i].ep = e.name].entries

\* automatic assignment (computeResourceMap): all module resources sorted by (group, binding), consecutive indices
\* per class; two resources with the same (group, binding) share the map key, either of their two indices may win
Before(a, b) == a.group < b.group \/ (a.group = b.group /\ a.binding < b.binding)
MslAuto(M, g) ==
  LET same == {x \in Res(M) : Class(x.kind) = Class(g.kind)}
      lo   == Cardinality({x \in same : Before(x, g)})
      tie  == Cardinality({x \in same : x.group = g.group /\ x.binding = g.binding})
      \* resources of ANOTHER class at the same (group, binding) overwrite the map entry: then the slot of the class
      \* is absent and the raw binding number is used (bindTargetIndex)
      other == \E x \in Res(M) : Class(x.kind) # Class(g.kind) /\ x.group = g.group /\ x.binding = g.binding
  IN {lo + d : d \in 0 .. (tie - 1)} \cup (IF other THEN {g.binding} ELSE {})

MslSlots(M, o, e, g) ==
  IF MslHasEp(o, e)
  THEN IF MapHas(MslEpMap(o, e), g) THEN {[slot |-> Class(g.kind), n |-> MapGet(MslEpMap(o, e), g).slot]}
       ELSE IF o.fake THEN {[slot |-> "fake", n |-> 0]}
       \* absent entry without FakeMissingBindings: undocumented in this port (upstream: error); any index accepted
       ELSE {[slot |-> Class(g.kind), n |-> n] : n \in 0 .. 255}
  ELSE IF o.fake THEN {[slot |-> "fake", n |-> 0]}
       ELSE {[slot |-> Class(g.kind), n |-> n] : n \in MslAuto(M, g)}

MslInterp(ei) == CASE ei.kind = "flat" -> "flat"
                   [] ei.kind = "linear" -> (IF ei.sampling = "centroid" THEN "centroid_no_perspective" ELSE IF ei.sampling = "sample" THEN "sample_no_perspective" ELSE "center_no_perspective")
                   [] OTHER -> (IF ei.sampling = "centroid" THEN "centroid_perspective" ELSE IF ei.sampling = "sample" THEN "sample_perspective" ELSE "center_perspective")

MslBuiltin(b) ==
  CASE b = "position" -> "position" [] b = "vertex_index" -> "vertex_id" [] b = "instance_index" -> "instance_id"
    [] b = "front_facing" -> "front_facing" [] b = "frag_depth" -> "depth(any)" [] b = "sample_index" -> "sample_id"
    [] b = "sample_mask" -> "sample_mask" [] b = "local_invocation_id" -> "thread_position_in_threadgroup"
    [] b = "local_invocation_index" -> "thread_index_in_threadgroup" [] b = "global_invocation_id" -> "thread_position_in_grid"
    [] b = "workgroup_id" -> "threadgroup_position_in_grid" [] b = "num_workgroups" -> "threadgroups_per_grid" [] OTHER -> "?"

\* [[attribute(n)]] vertex inputs, [[user(locN)]] varyings with the interpolation qualifier, [[color(n)]] fragment
\* outputs ([[color(n) index(i)]] for @blend_src), built-in attribute names; [[position, invariant]]
MslIO(e, dir, io) ==
  IF io.b = "builtin"
  THEN [k |-> "io", ep |-> e.name, dir |-> dir, key |-> MslBuiltin(io.builtin), interp |-> "",
        invariant |-> io.invariant /\ dir = "out"]
  ELSE [k |-> "io", ep |-> e.name, dir |-> dir,
        key |-> IF e.stage = "vertex" /\ dir = "in" THEN "attribute(" \o S(io.loc) \o ")"
                ELSE IF e.stage = "fragment" /\ dir = "out"
                     THEN "color(" \o S(io.loc) \o ")" \o (IF io.blend >= 0 THEN " index(" \o S(io.blend) \o ")" ELSE "")
                     ELSE "user(loc" \o S(io.loc) \o ")",
        interp |-> IF Interpolated(e.stage, dir) THEN MslInterp(EffInterp(io)) ELSE "",
        invariant |-> FALSE]

MslExp(M, o) ==
  LET args == UNION {UNION {{[k |-> "arg", ep |-> e.name, g |-> g.name, slot |-> s.slot, n |-> s.n] : s \in MslSlots(M, o, e, g)}
                            : g \in UsedRes(M, e)} : e \in EP(M)}
      ios  == UNION {{MslIO(e, "in", io) : io \in Range(InIOs(e))} \cup {MslIO(e, "out", io) : io \in Range(OutIOs(e))} : e \in EP(M)}
      names == {[k |-> "epname", ep |-> e.name, intext |-> TRUE, stage |-> e.stage] : e \in EP(M)}
      \* workgroup zero-initialisation adds a thread_position_in_threadgroup parameter when none is declared
      poly == {[k |-> "io", ep |-> e.name, dir |-> "in", key |-> "thread_position_in_threadgroup", interp |-> "", invariant |-> FALSE]
               : e \in {x \in EP(M) : x.stage = "compute" /\ UsesWorkgroup(M, x) /\ ~HasBuiltinIn(x, "local_invocation_id")}}
  IN [allowed |-> args \cup ios \cup names \cup poly,
      keys |-> {KeyOf(r) : r \in args \cup ios \cup names}, ok |-> TRUE]

\* ================================================================ GLSL (one entry point per compilation)
\* o = [be |-> "glsl", ep |-> name, ver |-> 330 .. 460 | 300 .. 320, es |-> BOOLEAN, hasmap |-> BOOLEAN,
\*      map |-> << [group, binding, slot] >>]
\* glsl.Options.BindingMap "maps resource bindings to flat GL binding indices.  When set, layout(binding = N)
\* qualifiers are emitted" (only where the version has explicit bindings: desktop >= 420, ES >= 310); only the
\* globals reachable from the selected entry point are declared.

GlslEp(M, o) == CHOOSE e \in EP(M) : e.name = o.ep
ExplicitLoc(o) == IF o.es THEN o.ver >= 310 ELSE o.ver >= 420
StageTag(stage)  == CASE stage = "vertex" -> "vs" [] stage = "fragment" -> "fs" [] OTHER -> "cs"
StageName(stage) == CASE stage = "vertex" -> "Vertex" [] stage = "fragment" -> "Fragment" [] OTHER -> "Compute"

GlslBinding(o, g) == IF o.hasmap /\ ExplicitLoc(o) /\ MapHas(o.map, g) THEN MapGet(o.map, g).slot ELSE -1
GlslInst(e, g) == "_group_" \o S(g.group) \o "_binding_" \o S(g.binding) \o "_" \o StageTag(e.stage)

\* blocks: std140 uniform / std430 buffer; block name <type>_block_<k><Stage> with k counting the blocks of this
\* compilation in declaration order; instance name _group_<G>_binding_<B>_<stage tag>
GlslBlocks(M, o) ==
  LET e  == GlslEp(M, o)
      bi == {i \in Reach(M, e) : Class(M.globals[i].kind) = "buffer"}
      blk(i) == LET g == M.globals[i] IN
                [k |-> "block", ty |-> "T" \o g.name, storage |-> IF g.kind = "uniform" THEN "uniform" ELSE "buffer",
                 layout |-> IF g.kind = "uniform" THEN "std140" ELSE "std430", binding |-> GlslBinding(o, g),
                 block |-> "T" \o g.name \o "_block_" \o S(Cardinality({j \in bi : j < i})) \o StageName(e.stage),
                 inst |-> GlslInst(e, g), readonly |-> g.kind = "storage_ro"]
  IN {blk(i) : i \in bi}

\* textures: one uniform per reachable texture, named like a block instance, layout(binding) from the map; a texture
\* sampled with a second, different sampler gets an additional combined uniform <texture>_<sampler> (no binding)
\* naga's GLSL backend (like upstream) keeps every function whose global uses are a subset of the entry point's
\* ("global use domination", reachability.go), called or not: the texture-sampler pairs of the emitted TEXT are those of
\* the entry point and of every such function
GlslKept(M, e) == {h \in DOMAIN M.helpers : Reach(M, M.helpers[h]) \subseteq Reach(M, e)}
GlslPairs(M, e) == Range(e.pairs) \cup UNION {Range(M.helpers[h].pairs) : h \in GlslKept(M, e)}
GlslPairsOf(M, e, t) == {p[2] : p \in {q \in GlslPairs(M, e) : q[1] = t}}
\* the primary sampler of a texture: the non-comparison one if both kinds are used, else the lowest index
GlslPrimary(M, e, t) ==
  LET ss == GlslPairsOf(M, e, t)
      nc == {s \in ss : M.globals[s].kind = "sampler"}
      pick(x) == CHOOSE s \in x : \A u \in x : s <= u
  IN IF nc # {} THEN pick(nc) ELSE pick(ss)

\* the additional samplers of texture i (every one but the primary) and the name of the combined uniform of each
GlslExtras(M, e, i) == IF GlslPairsOf(M, e, i) = {} THEN {} ELSE GlslPairsOf(M, e, i) \ {GlslPrimary(M, e, i)}
GlslExtraName(M, e, i, s) == GlslInst(e, M.globals[i]) \o "_" \o GlslInst(e, M.globals[s])
GlslTexIdx(M, e) == {i \in Reach(M, e) : Class(M.globals[i].kind) = "texture"}

GlslTexs(M, o) ==
  LET e  == GlslEp(M, o)
      main(i) == [k |-> "tex", name |-> GlslInst(e, M.globals[i]), binding |-> GlslBinding(o, M.globals[i]),
                  image |-> M.globals[i].kind = "stexw"]
  IN {main(i) : i \in GlslTexIdx(M, e)}
     \cup UNION {{[k |-> "tex", name |-> GlslExtraName(M, e, i, s), binding |-> -1, image |-> FALSE] : s \in GlslExtras(M, e, i)}
                 : i \in GlslTexIdx(M, e)}

\* varyings: layout(location = N) when the version has explicit locations or the variable is not interpolated;
\* interpolation qualifiers on vertex outputs and fragment inputs; @blend_src as layout(location, index)
IOLoc(o) == IF o.es THEN o.ver >= 300 ELSE o.ver >= 330
GlslVary(o, e, dir, io) ==
  LET ei == EffInterp(io)
      on == Interpolated(e.stage, dir)
  IN [k |-> "vary", dir |-> dir, loc |-> io.loc, index |-> io.blend,
      haslayout |-> io.blend >= 0 \/ ((ExplicitLoc(o) \/ ~on) /\ IOLoc(o)),
      flat |-> on /\ ei.kind = "flat", nopersp |-> on /\ ei.kind = "linear", smooth |-> on /\ ei.kind = "perspective",
      centroid |-> on /\ ei.sampling = "centroid", sample |-> on /\ ei.sampling = "sample"]

GlslExp(M, o) ==
  LET e    == GlslEp(M, o)
      blks == GlslBlocks(M, o)
      texs == GlslTexs(M, o)
      vary == {GlslVary(o, e, "in", io) : io \in {x \in Range(InIOs(e)) : x.b = "location"}}
              \cup {GlslVary(o, e, "out", io) : io \in {x \in Range(OutIOs(e)) : x.b = "location"}}
      thr  == IF e.stage = "compute" THEN {[k |-> "threads", ep |-> e.name, x |-> WgSize(e)[1], y |-> WgSize(e)[2], z |-> WgSize(e)[3]]} ELSE {}
      inv  == IF \E io \in Range(OutIOs(e)) : io.b = "builtin" /\ io.builtin = "position" /\ io.invariant
              THEN {[k |-> "io", ep |-> e.name, dir |-> "out", key |-> "invariant gl_Position"]} ELSE {}
      \* ---- reflection (glsl.TranslationInfo), truthful and complete:
      \* EntryPointNames: every listed entry point names a function of the text
      names == {[k |-> "epname", ep |-> e.name, intext |-> TRUE]}
      \* Uniforms: one entry per emitted block, with the block name of the text, the WGSL (group, binding), IsStorage
      runi == UNION {{[k |-> "r_uniform", block |-> b.block, group |-> g.group, binding |-> g.binding, isstorage |-> b.storage = "buffer", intext |-> TRUE]
                      : g \in {x \in GL(M) : "T" \o x.name = b.ty}} : b \in blks}
      \* TextureSamplerPairs: the names of the combined texture-sampler uniforms of the text
      ti   == GlslTexIdx(M, e)
      rpair == {[k |-> "r_pair", name |-> GlslInst(e, M.globals[i]), intext |-> TRUE] : i \in {j \in ti : GlslPairsOf(M, e, j) # {}}}
               \cup UNION {{[k |-> "r_pair", name |-> GlslExtraName(M, e, i, s), intext |-> TRUE] : s \in GlslExtras(M, e, i)} : i \in ti}
      \* TextureMappings: every texture uniform of the text -> (group, binding) of its texture and of its sampler
      \* (sg = sb = -1: no sampler - textures that are only loaded, multisampled textures, storage images)
      tm(i, s, nm) == [k |-> "r_texmap", name |-> nm, tg |-> M.globals[i].group, tb |-> M.globals[i].binding,
                       sg |-> IF s = 0 THEN -1 ELSE M.globals[s].group, sb |-> IF s = 0 THEN -1 ELSE M.globals[s].binding, intext |-> TRUE]
      rmap == {tm(i, IF GlslPairsOf(M, e, i) = {} THEN 0 ELSE GlslPrimary(M, e, i), GlslInst(e, M.globals[i])) : i \in ti}
              \cup UNION {{tm(i, s, GlslExtraName(M, e, i, s)) : s \in GlslExtras(M, e, i)} : i \in ti}
      req == blks \cup texs \cup vary \cup thr \cup inv \cup names \cup runi \cup rpair \cup rmap
  IN [allowed |-> req, keys |-> {KeyOf(r) : r \in req}, ok |-> TRUE]

\* ================================================================ dispatch and judgement
Exp(M, o) == CASE o.be = "spv"  -> SpvExp(M, o)
               [] o.be = "hlsl" -> HlslExp(M, o)
               [] o.be = "msl"  -> MslExp(M, o)
               [] o.be = "glsl" -> GlslExp(M, o)

\* fields of two records of the same kind that differ (as strings, for the report)
Diff(a, b) == {f \in (DOMAIN a) \cap (DOMAIN b) : a[f] # b[f]}
DiffText(a, b) == LET d == Diff(a, b) IN
                  IF d = {} THEN "shape" ELSE LET f == CHOOSE x \in d : TRUE IN f \o ": expected " \o ToString(a[f]) \o ", observed " \o ToString(b[f])

\* the verdicts on one compilation: a set of [rule, key, detail] records (empty = accepted)
Judge(exp, ok, obs) ==
  IF ok # exp.ok
  THEN {[rule |-> IF exp.ok THEN "the backend call fails" ELSE "the backend call succeeds although the options require an error",
         key |-> "outcome", detail |-> ""]}
  ELSE IF ~ok THEN {}
  ELSE
    LET n == Len(obs)
        keysSeen == {KeyOf(obs[i]) : i \in 1 .. n}
        wrong == {i \in 1 .. n : obs[i] \notin exp.allowed}
        verdictOf(i) ==
          LET same == {a \in exp.allowed : KeyOf(a) = KeyOf(obs[i])}
          IN IF same = {} THEN [rule |-> "unexpected artefact", key |-> KeyOf(obs[i]), detail |-> ToString(obs[i])]
             ELSE [rule |-> "artefact differs", key |-> KeyOf(obs[i]), detail |-> DiffText(CHOOSE a \in same : TRUE, obs[i])]
    IN {verdictOf(i) : i \in wrong}
       \cup {[rule |-> "missing artefact", key |-> kk, detail |-> ToString(CHOOSE a \in exp.allowed : KeyOf(a) = kk)] : kk \in exp.keys \ keysSeen}
       \cup {[rule |-> "artefact emitted twice", key |-> KeyOf(obs[i]), detail |-> ""]
             : i \in {j \in 1 .. n : \E h \in 1 .. (j - 1) : KeyOf(obs[h]) = KeyOf(obs[j])}}
=============================================================================
