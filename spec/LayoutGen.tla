----------------------------- MODULE LayoutGen -----------------------------
(***************************************************************************)
(* The struct builder as a state machine.  `cur` is the member list being  *)
(* built (the implementation's loop state is (offset, maxAlign, members);  *)
(* both are functions of `cur`), `pool` the finished struct types, which   *)
(* later structs may nest directly or inside arrays.  TLC checks the       *)
(* layout invariants of Layout.tla on every finished type and prints each  *)
(* finished type, annotated with the offsets / sizes / strides WGSL        *)
(* prescribes, as one JSON line; the harness replays every line into naga. *)
(***************************************************************************)
EXTENDS Layout, TLC, Json

CONSTANTS MaxMembers,   \* members per struct
          MaxPool,      \* nesting: number of struct types built one after another
          LeafSel,      \* "all" | "f32only"
          AlignAttrs,   \* candidate @align values (0 = none)
          SizeDeltas,   \* @size(SizeOf + d) for d in the set; 999 = no attribute
          ArrayCounts,  \* element counts for fixed arrays (empty: no arrays)
          WithRuntime   \* BOOLEAN: allow a trailing runtime-sized array

VARIABLES pool, cur
vars == <<pool, cur>>

F32 == [k |-> "f32"]  I32 == [k |-> "i32"]  U32 == [k |-> "u32"]  F16 == [k |-> "f16"]
MatT(c, r, e) == [k |-> "mat", c |-> c, r |-> r, e |-> e]
ArrT(e, n) == [k |-> "arr", e |-> e, n |-> n]

Leaves ==
  IF LeafSel = "f32only"
  THEN {F32, VecT(2, F32), VecT(3, F32), VecT(4, F32), MatT(2, 2, F32), MatT(3, 3, F32), MatT(4, 2, F32)}
  ELSE {F32, I32, [k |-> "atomic", e |-> U32], F16,
        VecT(2, F32), VecT(3, U32), VecT(4, I32), VecT(2, F16), VecT(3, F16), VecT(4, F16)}
       \cup {MatT(c, r, F32) : c \in 2 .. 4, r \in 2 .. 4}
       \cup {MatT(2, 2, F16), MatT(3, 3, F16), MatT(4, 3, F16), MatT(2, 4, F16)}

\* element types of arrays: a few leaves, pool structs, and arrays of leaves (array of array)
ArrayElems == {F32, VecT(2, F32), VecT(3, F32), MatT(2, 3, F32), MatT(3, 2, F32), F16, VecT(3, F16)} \cap (Leaves \cup {VecT(3, F32), MatT(2, 3, F32), MatT(3, 2, F32)})

PoolTypes == {pool[i] : i \in 1 .. Len(pool)}

MemberTypes ==
  Leaves \cup PoolTypes
  \cup {ArrT(e, n) : e \in ArrayElems \cup PoolTypes, n \in ArrayCounts}
  \cup {ArrT(ArrT(e, n), 2) : e \in {VecT(3, F32), F32} \cap ArrayElems, n \in ArrayCounts}

AlignChoices(ty) == {a \in AlignAttrs : AlignAttrOK(ty, a)}
SizeChoices(ty)  == {IF d = 999 THEN 0 ELSE SizeOf(ty) + d : d \in SizeDeltas}

Init == pool = <<>> /\ cur = <<>>

AppendMember(ty, a, s) ==
  /\ Len(cur) < MaxMembers
  /\ Len(pool) < MaxPool
  /\ cur' = Append(cur, [name |-> "m" \o ToString(Len(cur)), ty |-> ty, align |-> a, size |-> s])
  /\ UNCHANGED pool

Struct(ms) == [k |-> "struct", name |-> "S" \o ToString(Len(pool)), ms |-> ms]

Emit(t) == PrintT("@@" \o ToJson([t |-> Annot(t), uniform |-> UniformOK(t), runtime |-> HasRuntime(t),
                                  atomic |-> HasAtomic(t)]))

Finish ==
  /\ cur # <<>>
  /\ pool' = Append(pool, Struct(cur))
  /\ cur' = <<>>
  /\ Emit(Struct(cur))

\* a trailing runtime-sized array closes the struct (outermost struct only: such a struct cannot be nested)
FinishRuntime(e) ==
  /\ WithRuntime
  /\ Len(cur) < MaxMembers
  /\ LET ms == Append(cur, [name |-> "m" \o ToString(Len(cur)), ty |-> ArrT(e, 0), align |-> 0, size |-> 0])
     IN  /\ pool' = Append(pool, Struct(ms))
         /\ Emit(Struct(ms))
  /\ cur' = <<>>

Nestable(t) == ~HasRuntime(t)

Next ==
  \/ \E ty \in {t \in MemberTypes : Nestable(t)} :
       \E a \in AlignChoices(ty) : \E s \in SizeChoices(ty) : AppendMember(ty, a, s)
  \/ (Len(pool) < MaxPool /\ Finish)
  \/ (Len(pool) < MaxPool /\ \E e \in ArrayElems \cup {t \in PoolTypes : Nestable(t)} : FinishRuntime(e))

Spec == Init /\ [][Next]_vars

\* ---- invariants -------------------------------------------------------
LayoutInv == \A i \in 1 .. Len(pool) : TypeLayoutOK(pool[i])

\* the builder's running state, as the implementation keeps it, agrees with the closed forms
RunningOffset == IF cur = <<>> THEN 0 ELSE LET o == Offsets(cur) IN o[Len(cur)] + EffSize(cur[Len(cur)])
BuilderInv ==
  /\ RunningOffset >= 0
  /\ cur # <<>> => SizeOf(Struct(cur)) = RoundUp(MaxAlign(cur, 1), RunningOffset)

\* seeded fault for the self-test configuration: a layout function that forgets @align when nesting
\* (the invariant below is violated by such a function; used only by LayoutGen_selftest.cfg)
NaturalAlignOnly(t) == \A i \in 1 .. Len(t.ms) : t.ms[i].align = 0
SelfTestInv == \A i \in 1 .. Len(pool) : NaturalAlignOnly(pool[i])
=============================================================================
