------------------------------- MODULE Layout -------------------------------
(***************************************************************************)
(* WGSL memory layout (WGSL spec, "Memory Layout": AlignOf, SizeOf,        *)
(* OffsetOfMember, StrideOf) over the host-shareable type grammar, and the *)
(* struct builder as a state machine mirroring the member loop of the      *)
(* implementation (one action per appended member, one for finishing).     *)
(*                                                                         *)
(* Types are records:                                                      *)
(*   [k |-> "i32"|"u32"|"f32"|"f16"]                                      *)
(*   [k |-> "atomic", e |-> scalar]                                        *)
(*   [k |-> "vec", n |-> 2..4, e |-> scalar]                              *)
(*   [k |-> "mat", c |-> 2..4, r |-> 2..4, e |-> scalar]                  *)
(*   [k |-> "arr", e |-> type, n |-> count]        (n = 0: runtime-sized) *)
(*   [k |-> "struct", name |-> STRING, ms |-> <<member>>]                 *)
(*   member = [name |-> STRING, ty |-> type, align |-> 0|n, size |-> 0|n] *)
(*            (0 = attribute absent)                                       *)
(***************************************************************************)
EXTENDS Integers, Sequences, FiniteSets

Scalars == {"i32", "u32", "f32", "f16"}

RoundUp(a, n) == ((n + a - 1) \div a) * a
Max(a, b) == IF a < b THEN b ELSE a

ScalarSize(k) == IF k = "f16" THEN 2 ELSE 4

RECURSIVE AlignOf(_), SizeOf(_), MaxAlign(_, _), OffsetsFrom(_, _, _)

VecT(n, e) == [k |-> "vec", n |-> n, e |-> e]

EffAlign(m) == IF m.align # 0 THEN m.align ELSE AlignOf(m.ty)
EffSize(m)  == IF m.size  # 0 THEN m.size  ELSE SizeOf(m.ty)

\* offsets of the members ms[i..], the previous member ending at `end`
OffsetsFrom(ms, i, end) ==
  IF i > Len(ms) THEN <<>>
  ELSE LET off == RoundUp(EffAlign(ms[i]), end)
       IN  <<off>> \o OffsetsFrom(ms, i + 1, off + EffSize(ms[i]))
Offsets(ms) == OffsetsFrom(ms, 1, 0)

MaxAlign(ms, i) == IF i > Len(ms) THEN 1 ELSE Max(EffAlign(ms[i]), MaxAlign(ms, i + 1))

AlignOf(t) ==
  CASE t.k \in Scalars -> ScalarSize(t.k)
    [] t.k = "atomic"  -> 4
    [] t.k = "vec"     -> (IF t.n = 2 THEN 2 ELSE 4) * ScalarSize(t.e.k)
    [] t.k = "mat"     -> AlignOf(VecT(t.r, t.e))
    [] t.k = "arr"     -> AlignOf(t.e)
    [] t.k = "struct"  -> MaxAlign(t.ms, 1)

StrideOf(t) == RoundUp(AlignOf(t.e), SizeOf(t.e))            \* t an array type
ColStride(t) == RoundUp(AlignOf(VecT(t.r, t.e)), SizeOf(VecT(t.r, t.e)))  \* t a matrix type

SizeOf(t) ==
  CASE t.k \in Scalars -> ScalarSize(t.k)
    [] t.k = "atomic"  -> 4
    [] t.k = "vec"     -> t.n * ScalarSize(t.e.k)
    [] t.k = "mat"     -> t.c * ColStride(t)
    [] t.k = "arr"     -> (IF t.n = 0 THEN 1 ELSE t.n) * StrideOf(t)   \* runtime array: one element (minimum binding size)
    [] t.k = "struct"  -> LET offs == Offsets(t.ms)  n == Len(t.ms)
                          IN  RoundUp(AlignOf(t), offs[n] + EffSize(t.ms[n]))

(***************************************************************************)
(* The annotated tree the harness compares with what naga computed.        *)
(***************************************************************************)
RECURSIVE Annot(_)
AnnotMembers(ms) ==
  LET offs == Offsets(ms)
  IN  [i \in 1 .. Len(ms) |->
        [name |-> ms[i].name, ty |-> Annot(ms[i].ty), align |-> ms[i].align, size |-> ms[i].size,
         off |-> offs[i], esize |-> EffSize(ms[i]), ealign |-> EffAlign(ms[i])]]
Annot(t) ==
  CASE t.k = "arr"    -> [k |-> "arr", e |-> Annot(t.e), n |-> t.n, stride |-> StrideOf(t),
                          sz |-> SizeOf(t), al |-> AlignOf(t)]
    [] t.k = "mat"    -> [k |-> "mat", c |-> t.c, r |-> t.r, e |-> t.e, mstride |-> ColStride(t),
                          sz |-> SizeOf(t), al |-> AlignOf(t)]
    [] t.k = "struct" -> [k |-> "struct", name |-> t.name, ms |-> AnnotMembers(t.ms),
                          sz |-> SizeOf(t), al |-> AlignOf(t)]
    [] t.k = "vec"    -> [k |-> "vec", n |-> t.n, e |-> t.e, sz |-> SizeOf(t), al |-> AlignOf(t)]
    [] t.k = "atomic" -> [k |-> "atomic", e |-> t.e, sz |-> 4, al |-> 4]
    [] OTHER          -> [k |-> t.k, sz |-> SizeOf(t), al |-> AlignOf(t)]

(***************************************************************************)
(* Validity of attributes and address-space constraints (WGSL).            *)
(***************************************************************************)
IsPow2(n) == n \in {1, 2, 4, 8, 16, 32, 64, 128, 256}
AlignAttrOK(ty, a) == a = 0 \/ (IsPow2(a) /\ a % AlignOf(ty) = 0)
SizeAttrOK(ty, s)  == s = 0 \/ s >= SizeOf(ty)

RECURSIVE HasRuntime(_), UniformOK(_), HasAtomic(_)
HasRuntime(t) == CASE t.k = "arr" -> t.n = 0 \/ HasRuntime(t.e)
                   [] t.k = "struct" -> \E i \in 1 .. Len(t.ms) : HasRuntime(t.ms[i].ty)
                   [] OTHER -> FALSE
HasAtomic(t)  == CASE t.k = "atomic" -> TRUE
                   [] t.k = "arr" -> HasAtomic(t.e)
                   [] t.k = "struct" -> \E i \in 1 .. Len(t.ms) : HasAtomic(t.ms[i].ty)
                   [] OTHER -> FALSE
\* uniform address space: array strides and nested-struct offsets are multiples of 16, and a member following a
\* struct-typed member starts at least RoundUp(16, size) after it; no runtime arrays, no atomics
UniformOK(t) ==
  CASE t.k = "arr"    -> t.n # 0 /\ StrideOf(t) % 16 = 0 /\ UniformOK(t.e)
    [] t.k = "struct" -> LET offs == Offsets(t.ms) IN
                         \A i \in 1 .. Len(t.ms) :
                           /\ UniformOK(t.ms[i].ty)
                           /\ (t.ms[i].ty.k = "struct" => offs[i] % 16 = 0)
                           /\ (t.ms[i].ty.k = "arr"    => offs[i] % 16 = 0)
                           /\ (i > 1 /\ t.ms[i - 1].ty.k = "struct"
                                 => offs[i] - offs[i - 1] >= RoundUp(16, SizeOf(t.ms[i - 1].ty)))
    [] t.k = "atomic" -> FALSE
    [] OTHER          -> TRUE

(***************************************************************************)
(* Layout invariants (checked by TLC on every struct the builder reaches). *)
(***************************************************************************)
StructLayoutOK(t) ==
  LET offs == Offsets(t.ms)  n == Len(t.ms) IN
  /\ \A i \in 1 .. n : offs[i] % EffAlign(t.ms[i]) = 0                       \* aligned
  /\ \A i \in 1 .. n : offs[i] % AlignOf(t.ms[i].ty) = 0                     \* also to the natural alignment
  /\ \A i \in 1 .. n - 1 : offs[i] + EffSize(t.ms[i]) <= offs[i + 1]         \* ordered, no overlap
  /\ \A i \in 1 .. n : EffSize(t.ms[i]) >= SizeOf(t.ms[i].ty)
  /\ SizeOf(t) % AlignOf(t) = 0
  /\ SizeOf(t) >= offs[n] + EffSize(t.ms[n])
  /\ SizeOf(t) - (offs[n] + EffSize(t.ms[n])) < AlignOf(t)                   \* minimal
  /\ \A i \in 1 .. n : AlignOf(t) % EffAlign(t.ms[i]) = 0                    \* struct alignment covers every member's

RECURSIVE TypeLayoutOK(_)
TypeLayoutOK(t) ==
  CASE t.k = "arr"    -> /\ StrideOf(t) >= SizeOf(t.e) /\ StrideOf(t) % AlignOf(t.e) = 0
                         /\ StrideOf(t) - SizeOf(t.e) < AlignOf(t.e) /\ TypeLayoutOK(t.e)
    [] t.k = "struct" -> StructLayoutOK(t) /\ \A i \in 1 .. Len(t.ms) : TypeLayoutOK(t.ms[i].ty)
    [] t.k = "mat"    -> ColStride(t) >= t.r * ScalarSize(t.e.k) /\ SizeOf(t) = t.c * ColStride(t)
    [] OTHER          -> SizeOf(t) <= RoundUp(AlignOf(t), SizeOf(t))

=============================================================================
