------------------------------- MODULE Policy -------------------------------
(***************************************************************************)
(* C15 - "generated code has no reachable undefined behaviour on hostile   *)
(* data".  The HARDENED semantics of WGSL as total definitions, the        *)
(* bounds-check policies as a parameter of the access rule, and the rule   *)
(* set an execution of the emitted code is validated against.              *)
(*                                                                         *)
(* Part 1  hardened operators (total: a value for EVERY operand pair)      *)
(*   H1 a / b  (i32)   b = 0 -> a;  INT_MIN / -1 -> INT_MIN; else trunc    *)
(*   H2 a % b  (i32)   b = 0 -> 0;  INT_MIN % -1 -> 0; else a - trunc*b    *)
(*   H3 a / b, a % b (u32)  b = 0 -> a, 0                                  *)
(*   H4 -a  (i32)      -INT_MIN = INT_MIN   (wrap-around)                  *)
(*   H5 abs(a) (i32)   abs(INT_MIN) = INT_MIN                              *)
(*   H6 a << n, a >> n the count is taken modulo 32                        *)
(*   H7 i32(f), u32(f) truncation toward zero, saturating at the ends of   *)
(*      the target range; the VALUE is left unconstrained (any word) for   *)
(*      NaN, for +-infinity (WGSL lets an implementation assume they do    *)
(*      not occur) and, at the upper end, between the type's maximum and   *)
(*      the largest f32 below it - but the conversion is never undefined   *)
(*      behaviour: the only thing the specification forbids there is a     *)
(*      trap.                                                              *)
(*   (source: WGSL "Arithmetic expressions", "Value constructor built-in   *)
(*    functions", as transcribed in DESIGN.md appendix A.)  The evaluator  *)
(*   WgslSem uses Word32 / F32; `HardenedAgree` binds the two together on  *)
(*   the hostile grid (checked by TLC as an ASSUME on every run).          *)
(*                                                                         *)
(* Part 2  bounds-check policies (WgslSem, "Bounds-check policy"):         *)
(*   Restrict    every dynamic index is clamped into 0 .. len-1 of the     *)
(*               indexed object (array, vector, matrix column, run-time    *)
(*               sized array with its run-time length)                     *)
(*   RZSW        out-of-range read yields the zero value, out-of-range     *)
(*               write and atomic are skipped                              *)
(*   Binding     only WGSL's minimum: the access stays inside the          *)
(*               originating variable (or is dropped); value not pinned    *)
(*   Unchecked   out-of-range is outside the compared domain               *)
(*   plus, always: variables of workgroup / private / function space       *)
(*   without initialiser read as zero (WgslSem: ZeroOf at NewVar /         *)
(*   InitGlobals).  `PolTable` names the per-address-space combinations    *)
(*   and `OptPolicy` says which one a backend's protective option set      *)
(*   selects.                                                              *)
(*                                                                         *)
(* Part 3  rules evaluated on every execution of the emitted code (one     *)
(*   trace event per execution, carrying every buffer access it made):     *)
(*   R1 AccessInBuffer   0 <= off and off + size <= byte length of the     *)
(*                       bound buffer (except where the policy is          *)
(*                       "Binding" and the target drops the access)        *)
(*   R2 AccessInObject   the bytes lie within the object the program       *)
(*                       indexes: within the extent (by Layout.tla) of the *)
(*                       outermost dynamically indexed object of some      *)
(*                       access the specification's own run makes on that  *)
(*                       variable (for an access without dynamic index:    *)
(*                       the enclosing vector / matrix / leaf), or they    *)
(*                       are exactly one of the objects enclosing it (a    *)
(*                       whole-object load or copy, always in bounds).     *)
(*                       The rule is about accesses whose address depends  *)
(*                       on the indices: an access that occurs identically *)
(*                       in every execution of the same code (fix = 1) is  *)
(*                       index-independent and only subject to R1          *)
(*   R3 NoSkippedWrite   no write (or atomic) touches an object whose      *)
(*                       write the specification SKIPS: under RZSW no      *)
(*                       write happens for an out-of-range index           *)
(*   R4 NoTrap           the executor met no target-undefined operation    *)
(*                       (out-of-object access, read of a never written    *)
(*                       and not zero-initialised word, division by zero,  *)
(*                       out-of-range conversion or shift, ...)            *)
(*   R5 ResultWords      the final buffer words equal the hardened value   *)
(*                       (padding and unconstrained rows masked)           *)
(*   A run may satisfy the rules for ANY of the admissible outcomes        *)
(*   (`Alts`): a negative i32 index under Restrict may be clamped to 0 or, *)
(*   through the unsigned reinterpretation, to len-1.                      *)
(***************************************************************************)
EXTENDS WgslSem, Json

(***************************************************************************)
(* Part 1: hardened operators                                              *)
(***************************************************************************)
HardDivS(a, b) == IF b = 0 THEN a ELSE IF a = MinI /\ b = -1 THEN MinI ELSE DivS0(a, b)
HardRemS(a, b) == IF b = 0 THEN 0 ELSE IF a = MinI /\ b = -1 THEN 0 ELSE Sub32(a, Mul32(DivS0(a, b), b))
HardDivU(a, b) == IF b = 0 THEN a ELSE DivU0(a, b)
HardRemU(a, b) == IF b = 0 THEN 0 ELSE Sub32(a, Mul32(DivU0(a, b), b))
HardNeg(a)     == IF a = MinI THEN MinI ELSE 0 - a
HardAbs(a)     == IF a = MinI THEN MinI ELSE IF a < 0 THEN 0 - a ELSE a
HardCnt(n)     == Lo(n) % 32
HardShl(a, n)  == ShlK(a, HardCnt(n))
HardShrS(a, n) == ShrSK(a, HardCnt(n))
HardShrU(a, n) == ShrUK(a, HardCnt(n))

\* f32 -> integer: <<pinned, value>>; pinned = FALSE: any word is admissible, but no trap
MaxF32BelowI == 2147483520          \* 2^31 - 128, the largest f32 below 2^31
HardF2S(w) == IF FIsNaN(w) \/ FIsInf(w) THEN <<FALSE, 0>>
              ELSE IF FIsZero(w) \/ FIsSub(w) THEN <<TRUE, 0>>
              ELSE IF FExp(w) >= 8 THEN (IF w < 0 THEN <<TRUE, MinI>> ELSE <<FALSE, MaxI>>)   \* MaxI or MaxF32BelowI
              ELSE <<TRUE, FToS(w)>>
HardF2U(w) == IF FIsNaN(w) \/ FIsInf(w) THEN <<FALSE, 0>>
              ELSE IF FIsZero(w) \/ FIsSub(w) THEN <<TRUE, 0>>
              ELSE IF w < 0 THEN <<TRUE, 0>>
              ELSE IF FExp(w) >= 9 THEN <<FALSE, -1>>
              ELSE <<TRUE, FToU(w)>>

HostileInts == {0, 1, -1, 2, -2, 3, 7, -7, 31, 32, 33, 63, MaxI, MaxI - 1, MinI, MinI + 1, 1073741824, -1073741824, 65536}
\* 0, -0, 1.5, -1.5, 2^31-128, 2^31, -2^31, -2^31-256, 2^32-256, 2^32, 1e20, -1e20, inf, -inf, NaN, -NaN, subnormal, -0.5
HostileFloats == {0, MinI, 1069547520, -1077936128, 1325400063, 1325400064, -822083584, -822083583, 1333788671, 1333788672,
                  1621981420, -525502228, 2139095040, -8388608, 2143289344, -4194304, 1, -1090519040}

\* the evaluator's operators are the hardened ones (binding of WgslSem to Part 1)
HardenedAgree ==
  /\ \A a \in HostileInts : \A b \in HostileInts :
       /\ BinS("/", "i32", a, b) = HardDivS(a, b) /\ BinS("%", "i32", a, b) = HardRemS(a, b)
       /\ BinS("/", "u32", a, b) = HardDivU(a, b) /\ BinS("%", "u32", a, b) = HardRemU(a, b)
       /\ BinS("<<", "i32", a, b) = HardShl(a, b) /\ BinS(">>", "i32", a, b) = HardShrS(a, b)
       /\ BinS(">>", "u32", a, b) = HardShrU(a, b)
  /\ \A a \in HostileInts : UnS("-", "i32", a) = HardNeg(a) /\ Bi1("abs", "i32", a)[2] = HardAbs(a)
  /\ \A w \in HostileFloats :
       /\ LET c == ConvS("f32", "i32", w) h == HardF2S(w) IN (c[1] => h[1] /\ c[2] = h[2])
       /\ LET c == ConvS("f32", "u32", w) h == HardF2U(w) IN (c[1] => h[1] /\ c[2] = h[2])
\* the hostile cases themselves, spelled out (a typo in Part 1 cannot hide behind the agreement with Word32)
HardenedPoints ==
  /\ HardDivS(7, 0) = 7 /\ HardDivS(MinI, 0) = MinI /\ HardDivS(MinI, -1) = MinI /\ HardDivS(-7, 2) = -3 /\ HardDivS(MinI, 1) = MinI
  /\ HardRemS(7, 0) = 0 /\ HardRemS(MinI, -1) = 0 /\ HardRemS(-7, 2) = -1 /\ HardRemS(7, -2) = 1
  /\ HardDivU(-1, 0) = -1 /\ HardRemU(-1, 0) = 0 /\ HardDivU(-1, 2) = MaxI /\ HardRemU(-1, 2) = 1
  /\ HardNeg(MinI) = MinI /\ HardNeg(1) = -1 /\ HardAbs(MinI) = MinI /\ HardAbs(-5) = 5
  /\ HardShl(1, 32) = 1 /\ HardShl(1, 33) = 2 /\ HardShrS(MinI, 63) = -1 /\ HardShrU(MinI, 63) = 1
  /\ HardF2S(2143289344) = <<FALSE, 0>> /\ HardF2S(-822083584) = <<TRUE, MinI>> /\ HardF2S(-822083583) = <<TRUE, MinI>>
  /\ HardF2S(1325400064)[1] = FALSE /\ HardF2S(1325400063) = <<TRUE, MaxF32BelowI>> /\ HardF2S(-1077936128) = <<TRUE, -1>>
  /\ HardF2U(-1077936128) = <<TRUE, 0>> /\ HardF2U(1333788671) = <<TRUE, -256>> /\ HardF2U(1333788672)[1] = FALSE
  /\ HardF2U(1325400064) = <<TRUE, MinI>> /\ HardF2U(1) = <<TRUE, 0>>
ASSUME HardenedAgree
ASSUME HardenedPoints

(***************************************************************************)
(* Part 2: policy combinations per address space                           *)
(***************************************************************************)
Pol(buf, idx) == [storage |-> buf, uniform |-> buf, workgroup |-> idx, private |-> idx, function |-> idx, value |-> idx]
PolTable ==
  [ RR |-> Pol("Restrict", "Restrict"),  ZZ |-> Pol("RZSW", "RZSW"),
    RZ |-> Pol("Restrict", "RZSW"),      ZR |-> Pol("RZSW", "Restrict"),          \* <buffer policy><index policy>
    \* HLSL RestrictIndexing: clamps function / private / workgroup / value indexing and (per binding) uniform buffers;
    \* storage buffers are raw buffers whose accesses the backend leaves to D3D's own bounds check (reads beyond the
    \* buffer give 0, writes are dropped): the access stays inside the binding, nothing more is promised
    HR |-> [Pol("Restrict", "Restrict") EXCEPT !.storage = "Binding"],
    \* the same option set seen from a uniform matCx2: its columns are selected by a helper (`__get_col_of_matCx2`,
    \* `__set_col_..`, `__set_el_..`: a switch over the column) that yields zero / does nothing for a column out of range
    \* instead of clamping - confined as well, so for uniform buffers either result is admitted (see Alts)
    HZ |-> [Pol("Restrict", "Restrict") EXCEPT !.storage = "Binding", !.uniform = "RZSW"],
    UU |-> Pol("Unchecked", "Unchecked") ]
WithNeg(p, neg) == [storage |-> p.storage, uniform |-> p.uniform, workgroup |-> p.workgroup, private |-> p.private,
                    function |-> p.function, value |-> p.value, neg |-> neg]
\* which combination a backend's protective option set selects (harness/drive/c15opts.go builds exactly these)
OptPolicy(be, opt) ==
  CASE be = "msl"  /\ opt \in {"RR", "ZZ", "RZ", "ZR"} -> opt
    [] be = "hlsl" /\ opt = "HR" -> "HR"
    [] be = "spv"  /\ opt \in {"RR", "ZZ"} -> opt      \* spirv.Options.BoundsCheckPolicies.Index
    [] be \in {"spv", "glsl", "hlsl", "msl"} /\ opt = "UU" -> "UU"   \* no index policy selected: index confinement not claimed
    [] OTHER -> "?"

(***************************************************************************)
(* Byte extents by the WGSL layout.  lt: Layout type, bytes: length of the *)
(* bound buffer (for run-time sized arrays).                               *)
(***************************************************************************)
RECURSIVE ExtentOf(_, _, _, _)
ExtentOf(lt, path, off, bytes) ==     \* <<lo, hi>> of the object at `path` below the object of type lt at byte `off`
  IF path = <<>>
  THEN IF lt.k = "arr" /\ lt.n = 0 THEN <<off, bytes>>
       ELSE IF lt.k = "struct" /\ HasRuntime(lt) THEN <<off, bytes>>
       ELSE <<off, off + SizeOf(lt)>>
  ELSE LET i == Head(path) IN
       CASE lt.k = "struct" -> ExtentOf(lt.ms[i + 1].ty, Tail(path), off + Offsets(lt.ms)[i + 1], bytes)
         [] lt.k = "arr"    -> ExtentOf(lt.e, Tail(path), off + i * StrideOf(lt), bytes)
         [] lt.k = "mat"    -> ExtentOf(VecT(lt.r, lt.e), Tail(path), off + i * ColStride(lt), bytes)
         [] lt.k = "vec"    -> <<off + i * 4, off + i * 4 + 4>>
         [] OTHER           -> <<off, off + 4>>

\* length of the prefix of `path` that stops at the first vector / matrix (an access without dynamic index may be
\* carried out on the enclosing vector or matrix)
RECURSIVE StaticPrefix(_, _, _)
StaticPrefix(lt, path, n) ==
  IF path = <<>> \/ lt.k \in {"vec", "mat"} THEN n
  ELSE CASE lt.k = "struct" -> StaticPrefix(lt.ms[Head(path) + 1].ty, Tail(path), n + 1)
         [] lt.k = "arr"    -> StaticPrefix(lt.e, Tail(path), n + 1)
         [] OTHER           -> n

\* the specification's own accesses to buffers as byte extents of the indexed objects; encl: the extents of the
\* objects enclosing the indexed object (the variable itself, the member holding the array, ...)
Footprint(P, input, acc) ==
  { LET a == acc[k]
        lt == LT(P, P.globals[a.root].ty)
        n == IF a.dyn >= 0 THEN a.dyn ELSE StaticPrefix(lt, a.path, 0)
        bytes == 4 * Len(input[a.root])
        e == ExtentOf(lt, SubSeq(a.path, 1, n), 0, bytes)
    IN  [g |-> a.root, lo |-> e[1], hi |-> e[2], w |-> a.w, done |-> a.done,
         encl |-> {ExtentOf(lt, SubSeq(a.path, 1, m), 0, bytes) : m \in 0 .. n - 1}]
    : k \in {j \in 1 .. Len(acc) : acc[j].root <= Len(P.globals) /\ IsBuffer(P.globals[acc[j].root])} }

(***************************************************************************)
(* The admissible outcomes of one input row under a policy combination.    *)
(***************************************************************************)
OutcomeP(P, input, pol) ==
  LET st == RunStateP(P, input, pol)
      ok == ~Abandoned(st)
  IN  [ ok |-> ok, why |-> IF ok THEN "" ELSE st.sig,
        out |-> IF ok THEN [i \in 1 .. Len(P.globals) |->
                              IF IsBuffer(P.globals[i]) THEN FlatWords(LT(P, P.globals[i].ty), st.mem[i], input[i]) ELSE <<>>]
                ELSE <<>>,
        mask |-> IF ok THEN [i \in 1 .. Len(P.globals) |->
                              IF IsBuffer(P.globals[i]) THEN FlatMask(LT(P, P.globals[i].ty), st.mem[i], Len(input[i])) ELSE <<>>]
                 ELSE <<>>,
        foot |-> IF ok THEN Footprint(P, input, st.acc) ELSE {},
        negc |-> st.negc ]

\* the second alternative exists only when the run clamped a negative i32 index (WgslSem: MarkNeg)
AltsOf(P, input, p) ==
  LET hi == OutcomeP(P, input, WithNeg(p, "hi"))
  IN  IF ~hi.negc THEN <<hi>>
      ELSE LET lo == OutcomeP(P, input, WithNeg(p, "lo")) IN IF lo = hi THEN <<hi>> ELSE <<hi, lo>>
Alts(P, input, polname) ==
  LET a == AltsOf(P, input, PolTable[polname])
  IN  IF polname = "HR" /\ \E g \in 1 .. Len(P.globals) : P.globals[g].space = "uniform"
      THEN LET z == AltsOf(P, input, PolTable["HZ"]) IN IF z = a THEN a ELSE a \o z
      ELSE a

(***************************************************************************)
(* Part 3: trace validation.  cases.ndjson: one record [prog, inputs] per  *)
(* program; trace.ndjson: events                                           *)
(*   [ev: "case", k, r, pol]      row r of program k under a combination    *)
(*   [ev: "run", id, be, opt,     one execution of the code backend `be`    *)
(*        acc, trap, out]         emitted for it with option set `opt`:     *)
(*                                acc = <<g, off, size, w, fix>> per buffer *)
(*                                access in execution order (g: global 1..; *)
(*                                fix = 1: index-independent, see R2),      *)
(*                                trap = 1 if the executor met an undefined *)
(*                                operation, out = final words per buffer   *)
(* Every rule is evaluated for every access of every run.  A violated rule *)
(* never stops the validation: it goes to `bad` with the line, the run and *)
(* the rule; the whole file is always consumed.                            *)
(***************************************************************************)
Cases == ndJsonDeserialize("cases.ndjson")
Trace == ndJsonDeserialize("trace.ndjson")

VARIABLES l,      \* next line
          cur,    \* [alts, input, pol]: admissible outcomes of the current (program, row, policy combination)
          bad     \* verdicts
tvars == <<l, cur, bad>>

TInit == l = 1 /\ cur = [alts |-> <<>>, input |-> <<>>, pol |-> ""] /\ bad = <<>>

Ev == Trace[l]
IsEvent(e) == l <= Len(Trace) /\ Ev.ev = e /\ l' = l + 1

TraceCase ==
  /\ IsEvent("case")
  /\ cur' = [alts |-> Alts(Cases[Ev.k].prog, Cases[Ev.k].inputs[Ev.r], Ev.pol), input |-> Cases[Ev.k].inputs[Ev.r], pol |-> Ev.pol]
  /\ UNCHANGED bad

\* an access as a record
Acc(a) == [g |-> a[1], off |-> a[2], size |-> a[3], w |-> a[4], fix |-> a[5]]

AccessInBuffer(e) == e.off >= 0 /\ e.size > 0 /\ e.g >= 1 /\ e.g <= Len(cur.input) /\ e.off + e.size <= 4 * Len(cur.input[e.g])
\* Under "Binding" (value not pinned, row abandoned "unconstrained:oob") the access may also be DROPPED by the target:
\* the executors of targets with robust buffer access (D3D raw buffers) record the attempted address of a dropped access
Dropped(alt) == ~alt.ok /\ alt.why = "unconstrained:oob"
\* R2; an outcome the specification abandoned (value not pinned) has no complete footprint: only R1 applies.
\* e.fix = 1: the harness found this very access (same variable, bytes, direction) in EVERY completed execution of the
\* same emitted code, whatever the index values: its address does not depend on the indices (whole-object copies of
\* pass-by-value parameters, redundant loads of enclosing objects) and R1 is all that is asked of it
Within(f, e) == f.lo <= e.off /\ e.off + e.size <= f.hi
AccessInObject(alt, e) ==
  ~alt.ok \/ e.fix = 1 \/ \E f \in alt.foot : f.g = e.g /\ (Within(f, e) \/ <<e.off, e.off + e.size>> \in f.encl)
\* R3: the write falls into an object whose write the specification skips (and no performed write covers it)
WriteSkipped(alt, e) ==
  /\ alt.ok /\ e.w = 1 /\ e.fix = 0
  /\ \E f \in alt.foot : f.g = e.g /\ f.w = 1 /\ ~f.done /\ e.off < f.hi /\ f.lo < e.off + e.size
  /\ ~\E f \in alt.foot : f.g = e.g /\ f.w = 1 /\ f.done /\ Within(f, e)

WordEq(m, a, b) == m = 0 \/ a = b \/ (m = 2 /\ And32(a, MaxI) = 0 /\ And32(b, MaxI) = 0)    \* +0 = -0 for f32 words
WordsOk(alt, out) ==
  ~alt.ok \/ \A g \in 1 .. Len(alt.out) :
               /\ Len(out[g]) = Len(alt.out[g])
               /\ \A w \in 1 .. Len(alt.out[g]) : WordEq(alt.mask[g][w], alt.out[g][w], out[g][w])

\* the first rule (in the order R4, R1, R3, R2, R5) the execution e breaks with respect to outcome alt; "" = none
Verdict(alt, e) ==
  LET n == Len(e.acc) IN
  IF e.trap = 1 THEN "R4 NoTrap"
  ELSE IF \E i \in 1 .. n : ~AccessInBuffer(Acc(e.acc[i])) /\ ~Dropped(alt) THEN "R1 AccessInBuffer"
  ELSE IF \E i \in 1 .. n : AccessInBuffer(Acc(e.acc[i])) /\ WriteSkipped(alt, Acc(e.acc[i])) THEN "R3 NoSkippedWrite"
  ELSE IF \E i \in 1 .. n : AccessInBuffer(Acc(e.acc[i])) /\ ~AccessInObject(alt, Acc(e.acc[i])) THEN "R2 AccessInObject"
  ELSE IF ~WordsOk(alt, e.out) THEN "R5 ResultWords"
  ELSE ""

TraceRun ==
  /\ IsEvent("run")
  /\ LET okpol == OptPolicy(Ev.be, Ev.opt) = cur.pol
         \* rows the specification excludes (Unchecked out-of-range, fuel) must not be executed at all
         dom == \A a \in 1 .. Len(cur.alts) : cur.alts[a].ok \/ cur.alts[a].why \notin {"oob", "fuel"}
         accepted == \E a \in 1 .. Len(cur.alts) : Verdict(cur.alts[a], Ev) = ""
     IN  bad' = IF ~okpol THEN Append(bad, [l |-> l, id |-> Ev.id, rule |-> "harness: option set does not select this policy"])
                ELSE IF ~dom THEN Append(bad, [l |-> l, id |-> Ev.id, rule |-> "harness: row outside the compared domain"])
                ELSE IF accepted THEN bad
                ELSE Append(bad, [l |-> l, id |-> Ev.id, rule |-> Verdict(cur.alts[1], Ev),
                                  exp |-> IF cur.alts[1].ok THEN cur.alts[1].out ELSE <<>>,
                                  mask |-> IF cur.alts[1].ok THEN cur.alts[1].mask ELSE <<>>])
  /\ UNCHANGED cur

\* after the last line: print the verdicts
TraceDone ==
  /\ l = Len(Trace) + 1
  /\ l' = l + 1
  /\ PrintT("@@" \o ToJson([consumed |-> Len(Trace), bad |-> bad]))
  /\ UNCHANGED <<cur, bad>>

TNext == TraceCase \/ TraceRun \/ TraceDone
TSpec == TInit /\ [][TNext]_tvars

=============================================================================
