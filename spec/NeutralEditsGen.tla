--------------------------- MODULE NeutralEditsGen ---------------------------
(***************************************************************************)
(* Generator configuration of NeutralEdits.tla: the initial states are the *)
(* programs of progs.ndjson (token sequence with template flags, trivia    *)
(* pieces, full sub-expression spans, trailing-comma sites, candidate      *)
(* renamings - supplied by the harness's reader of the source text), TLC   *)
(* explores every edit script of at most MaxEdits edits (MaxEdits = 1:     *)
(* every single neutral edit at every token boundary), checks LexLemma and *)
(* StructLemma on every reachable text and prints each edited text as one  *)
(* JSON line; the harness replays every line into naga.  The initial state *)
(* must itself satisfy the lemma (the harness's split of the text into     *)
(* tokens and trivia is thereby checked against Lexer.tla).                *)
(***************************************************************************)
EXTENDS NeutralEdits

Progs == ndJsonDeserialize("progs.ndjson")

ProgToks(p) == [i \in 1 .. Len(p.toks) |-> [k |-> p.toks[i].k, lex |-> p.toks[i].lex, ts |-> p.toks[i].ts, te |-> p.toks[i].te, tag |-> "orig"]]

GInit ==
  /\ \E n \in 1 .. Len(Progs) :
       LET p == Progs[n] IN
       /\ pid = p.id
       /\ toks = ProgToks(p)
       /\ orig = ProgToks(p)
       /\ triv = p.triv
       /\ spans = ToSet(p.spans)
       /\ commas = ToSet(p.commas)
       /\ renames = ToSet(p.renames)
  /\ ren = <<>> /\ log = <<>>

Emit == PrintT("@@" \o ToJson([p |-> pid, e |-> log', text |-> Render(toks', triv').text]))

GNext == Edit /\ Emit
GSpec == GInit /\ [][GNext]_vars
=============================================================================
