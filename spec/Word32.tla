------------------------------ MODULE Word32 ------------------------------
(***************************************************************************)
(* 32-bit machine words inside TLC's integer range.                        *)
(*                                                                         *)
(* TLC integers are Java ints and overflow is an *error*, so a 32-bit word *)
(* is represented by the signed integer with the same bit pattern          *)
(* (-2^31 .. 2^31-1) and every operation works on 16-/8-bit limbs so that  *)
(* no intermediate result leaves that range.  Unsigned operations take and *)
(* return the same representation (the bit pattern), e.g. the u32 value    *)
(* 4294967295 is the word -1.                                              *)
(*                                                                         *)
(* Division, remainder and shifts implement WGSL's *run-time* rules        *)
(* (x/0 = x, x%0 = 0, INT_MIN/-1 = INT_MIN, INT_MIN%-1 = 0, shift count    *)
(* modulo 32).  The const-expression rules (those cases are errors) are    *)
(* the predicates at the end.                                              *)
(***************************************************************************)
EXTENDS Integers, Sequences, Bitwise

K16  == 65536
MaxI == 2147483647
MinI == -2147483647 - 1

IsWord(w) == w \in Int /\ w >= MinI /\ w <= MaxI

Lo(w)  == w % K16                 \* 0 .. 65535
Hi(w)  == w \div K16              \* -32768 .. 32767 (floor division)
UHi(w) == (w \div K16) % K16      \* 0 .. 65535
WrapHi(h) == ((h + 32768) % K16) - 32768
Mk(h, l)  == WrapHi(h) * K16 + l  \* h: any small integer (wrapped), l: 0 .. 65535

Add32(a, b) == LET l == Lo(a) + Lo(b) IN Mk(Hi(a) + Hi(b) + (l \div K16), l % K16)
Sub32(a, b) == LET l == Lo(a) - Lo(b) IN Mk(Hi(a) - Hi(b) + (l \div K16), l % K16)
Neg32(a)    == Sub32(0, a)

Mul32(a, b) ==
  LET la == Lo(a)  lb == Lo(b)  ha == UHi(a)  hb == UHi(b)
      b0 == lb % 256      b1 == lb \div 256
      p0 == la * b0       p1 == la * b1                 \* < 2^24 each
      s  == p0 + (p1 % 256) * 256                        \* < 2^25 : low product = s + (p1 \div 256) * 2^16
      \* (ha * lb + la * hb) mod 2^16, every product < 2^24
      cross == (ha * b0 + ((ha * b1) % 256) * 256
                 + la * (hb % 256) + ((la * (hb \div 256)) % 256) * 256) % K16
  IN Mk(((s \div K16) + (p1 \div 256) + cross) % K16, s % K16)

Not32(a)    == Mk(65535 - UHi(a), 65535 - Lo(a))
And32(a, b) == Mk(UHi(a) & UHi(b), Lo(a) & Lo(b))
Or32(a, b)  == Mk(UHi(a) | UHi(b), Lo(a) | Lo(b))
Xor32(a, b) == Mk(UHi(a) ^^ UHi(b), Lo(a) ^^ Lo(b))

LtU(a, b) == IF (a >= 0) = (b >= 0) THEN a < b ELSE a >= 0
LeU(a, b) == a = b \/ LtU(a, b)
GtU(a, b) == LtU(b, a)
GeU(a, b) == LeU(b, a)
MinU(a, b) == IF LtU(b, a) THEN b ELSE a
MaxU(a, b) == IF LtU(a, b) THEN b ELSE a
MinS(a, b) == IF b < a THEN b ELSE a
MaxS(a, b) == IF a < b THEN b ELSE a

Pow2(k) == 2 ^ k                                     \* k in 0 .. 30

\* shifts by a count already reduced to 0 .. 31
ShlK(a, k)  == IF k = 0 THEN a ELSE Mul32(a, IF k = 31 THEN MinI ELSE Pow2(k))
ShrSK(a, k) == IF k = 31 THEN (a \div Pow2(30)) \div 2 ELSE a \div Pow2(k)
ShrUK(a, k) == IF k = 0 THEN a
               ELSE LET h == IF a < 0 THEN ((a \div 2) + 1073741824) + 1073741824 ELSE a \div 2
                    IN  IF k = 1 THEN h ELSE h \div Pow2(k - 1)
\* WGSL run-time shifts: the count (a u32 word) is taken modulo 32
Cnt(n) == Lo(n) % 32
Shl32(a, n)  == ShlK(a, Cnt(n))
ShrS32(a, n) == ShrSK(a, Cnt(n))
ShrU32(a, n) == ShrUK(a, Cnt(n))

\* unsigned division on bit patterns (b # 0)
DivU0(a, b) ==
  IF b < 0 THEN (IF LtU(a, b) THEN 0 ELSE 1)
  ELSE IF a >= 0 THEN a \div b
  ELSE LET h == ShrUK(a, 1)  a0 == a % 2  q == h \div b  r == h % b
       IN  IF r >= b - r - a0 THEN Add32(Add32(q, q), 1) ELSE Add32(q, q)
DivU32(a, b) == IF b = 0 THEN a ELSE DivU0(a, b)
RemU32(a, b) == IF b = 0 THEN 0 ELSE Sub32(a, Mul32(DivU0(a, b), b))

Abs32(a) == IF a < 0 THEN Neg32(a) ELSE a            \* abs(INT_MIN) = INT_MIN
DivS0(a, b) == LET q == DivU0(Abs32(a), Abs32(b)) IN IF (a < 0) = (b < 0) THEN q ELSE Neg32(q)
DivS32(a, b) == IF b = 0 THEN a ELSE DivS0(a, b)     \* INT_MIN / -1 = INT_MIN by wrap-around
RemS32(a, b) == IF b = 0 THEN 0 ELSE Sub32(a, Mul32(DivS0(a, b), b))

\* bit counting (recursive on 32 positions)
Bit(a, i) == IF i = 31 THEN (IF a < 0 THEN 1 ELSE 0) ELSE (ShrUK(a, i)) % 2
RECURSIVE PopFrom(_, _)
PopFrom(a, i) == IF i = 32 THEN 0 ELSE Bit(a, i) + PopFrom(a, i + 1)
Popcount(a) == PopFrom(a, 0)
RECURSIVE ClzFrom(_, _)
ClzFrom(a, i) == IF i < 0 THEN 32 ELSE IF Bit(a, i) = 1 THEN 31 - i ELSE ClzFrom(a, i - 1)
Clz(a) == ClzFrom(a, 31)
RECURSIVE CtzFrom(_, _)
CtzFrom(a, i) == IF i = 32 THEN 32 ELSE IF Bit(a, i) = 1 THEN i ELSE CtzFrom(a, i + 1)
Ctz(a) == CtzFrom(a, 0)
RECURSIVE RevFrom(_, _, _)
RevFrom(a, i, acc) == IF i = 32 THEN acc
                      ELSE RevFrom(a, i + 1, IF Bit(a, i) = 1 THEN Or32(acc, ShlK(1, 31 - i)) ELSE acc)
ReverseBits(a) == RevFrom(a, 0, 0)

\* firstLeadingBit: u32: 0 -> -1 (0xFFFFFFFF) else index of the most significant 1;
\* i32: 0 or -1 -> -1 else index of the most significant bit that differs from the sign
FirstLeadingBitU(a) == IF a = 0 THEN -1 ELSE 31 - Clz(a)
FirstLeadingBitS(a) == IF a = 0 \/ a = -1 THEN -1 ELSE IF a < 0 THEN 31 - Clz(Not32(a)) ELSE 31 - Clz(a)
FirstTrailingBit(a) == IF a = 0 THEN -1 ELSE Ctz(a)

\* mask of the k low bits, k in 0 .. 32
MaskLow(k) == IF k = 0 THEN 0 ELSE IF k = 32 THEN -1 ELSE IF k = 31 THEN MaxI ELSE Pow2(k) - 1
\* WGSL extractBits / insertBits: o = min(offset, 32), c = min(count, 32 - o); operands offset/count are u32 words
ClampOff(off) == IF LtU(off, 32) THEN off ELSE 32
ClampCnt(off, cnt) == LET o == ClampOff(off) IN IF LtU(cnt, 32 - o) THEN cnt ELSE 32 - o
ExtractBitsU(e, off, cnt) ==
  LET o == ClampOff(off)  c == ClampCnt(off, cnt)
  IN  IF c = 0 THEN 0 ELSE And32(IF o = 32 THEN 0 ELSE ShrUK(e, o), MaskLow(c))
ExtractBitsS(e, off, cnt) ==
  LET o == ClampOff(off)  c == ClampCnt(off, cnt)
  IN  IF c = 0 THEN 0
      ELSE LET u == And32(IF o = 32 THEN 0 ELSE ShrUK(e, o), MaskLow(c))
           IN  IF c = 32 THEN u ELSE ShrSK(ShlK(u, 32 - c), 32 - c)
InsertBits(e, newbits, off, cnt) ==
  LET o == ClampOff(off)  c == ClampCnt(off, cnt)
  IN  IF c = 0 THEN e
      ELSE LET m == IF o = 32 THEN 0 ELSE ShlK(MaskLow(c), o)
           IN  Or32(And32(e, Not32(m)), And32(IF o = 32 THEN 0 ELSE ShlK(newbits, o), m))

Clamp32S(e, lo, hi) == MinS(MaxS(e, lo), hi)
Clamp32U(e, lo, hi) == MinU(MaxU(e, lo), hi)
Sign32(a) == IF a > 0 THEN 1 ELSE IF a < 0 THEN -1 ELSE 0

\* bytes <-> word (little endian), b0 least significant, each 0 .. 255
FromBytes(b0, b1, b2, b3) == Mk(b3 * 256 + b2, b1 * 256 + b0)
Byte(w, i) == CASE i = 0 -> Lo(w) % 256 [] i = 1 -> Lo(w) \div 256
                [] i = 2 -> UHi(w) % 256 [] OTHER -> UHi(w) \div 256

(***************************************************************************)
(* Const-expression rules: the cases WGSL makes shader-creation errors.    *)
(***************************************************************************)
ConstDivErrS(a, b) == b = 0 \/ (a = MinI /\ b = -1)
ConstDivErrU(a, b) == b = 0
ConstShiftErr(n)   == ~LtU(n, 32)
\* signed add/sub/mul overflow for concrete i32 const-expressions
AddOvfS(a, b) == LET r == Add32(a, b) IN (a >= 0) = (b >= 0) /\ (r >= 0) # (a >= 0)
SubOvfS(a, b) == LET r == Sub32(a, b) IN (a >= 0) # (b >= 0) /\ (r >= 0) # (a >= 0)

=============================================================================
