----------------------------- MODULE DxbcTrace -----------------------------
(***************************************************************************)
(* Trace validation for Dxbc.tla (C18).                                    *)
(*                                                                         *)
(* trace.ndjson holds the event streams of MANY containers (what the       *)
(* independent decoder harness/dxbc read from bytes returned by            *)
(* dxil.Compile, from DXC-built containers, or from deliberately corrupted *)
(* copies), each introduced by a `reset` event that carries the request    *)
(* (stage, shader model, hash mode, expected interface) and closed by a    *)
(* `fin` event.  Every event is one step of the automaton of Dxbc.tla;     *)
(* every rule is evaluated at every event.  A violated rule never stops    *)
(* the run: it is recorded once per container in `bad` as                  *)
(*    [c |-> container number, l |-> line of the event, rule |-> name]     *)
(* and the automaton keeps consuming, so each container gets its own       *)
(* verdict and the whole file is always consumed (the harness checks       *)
(* consumed = number of lines).                                            *)
(***************************************************************************)
EXTENDS Dxbc, Json, SequencesExt

Trace == ndJsonDeserialize("trace.ndjson")

VARIABLES l, st, bad
tvars == <<l, st, bad>>

TInit == l = 1 /\ st = Blank /\ bad = <<>>

TStep ==
  /\ l <= Len(Trace)
  /\ LET e   == Trace[l]
         r   == Step(st, e)
         new == r.v \ r.s.rep
     IN /\ st'  = [r.s EXCEPT !.rep = @ \cup new]
        /\ bad' = IF new = {} THEN bad
                  ELSE bad \o [i \in 1..Cardinality(new) |-> [c |-> r.s.c, l |-> l, rule |-> SetToSeq(new)[i]]]
  /\ l' = l + 1

\* after the last line: print the verdicts
TEnd ==
  /\ l = Len(Trace) + 1
  /\ l' = l + 1
  /\ PrintT("@@" \o ToJson([consumed |-> Len(Trace), bad |-> bad]))
  /\ UNCHANGED <<st, bad>>

TNext == TStep \/ TEnd
TSpec == TInit /\ [][TNext]_tvars
=============================================================================
