------------------------------ MODULE SpvDecl -------------------------------
(***************************************************************************)
(* Rules of the module-level declarations: types (SPIR-V 3.42.6), constants*)
(* (3.42.7), variables (3.42.8 OpVariable), annotations (3.42.5) and the   *)
(* Vulkan environment rules on them (Vulkan spec, appendix "Vulkan         *)
(* Environment for SPIR-V": VUID-StandaloneSpirv rules):                     *)
(*  - Uniform / StorageBuffer / PushConstant variables are (arrays of)     *)
(*    structs decorated Block (Uniform also BufferBlock), whose members    *)
(*    all carry Offset, whose arrays carry ArrayStride and whose matrices  *)
(*    carry MatrixStride and ColMajor/RowMajor;                            *)
(*  - UniformConstant variables are images, samplers, sampled images,      *)
(*    acceleration structures or arrays of them;                           *)
(*  - no such requirement exists for Workgroup, Private, Function, Input   *)
(*    and Output: nothing is demanded there.                               *)
(***************************************************************************)
EXTENDS SpvCfg

\* a fresh result id: inside the bound, not defined before (2.16.1: each <id> is defined exactly once; header: all ids < bound)
DefRules(r) == << <<r >= 1 /\ r < m.bound, "result id is not below the header's bound">>, <<~Defined(r), "id defined twice">> >>
ReqRules(r) == << <<CapOK(r), "required capability not declared">>, <<VerOK(r), "requires a later SPIR-V version or an extension that is not declared">> >>

\* ---- types ------------------------------------------------------------------------------------------------
UniqueTypeOps == {"OpTypeVoid", "OpTypeBool", "OpTypeInt", "OpTypeFloat", "OpTypeVector", "OpTypeMatrix", "OpTypeImage",
                  "OpTypeSampler", "OpTypeSampledImage", "OpTypeFunction", "OpTypeAccelerationStructureKHR", "OpTypeRayQueryKHR"}
TypeKey(e) == <<e.op, e.ids, e.lits>>

ConcreteType(t) == IsType(t) /\ TK(t) \notin {"void", "fn"}
DimReq(d) == CASE d = 0 -> Req({"Sampled1D"}, 0, {}) [] d = 3 -> Req({"Shader"}, 0, {}) [] d = 4 -> Req({"SampledRect"}, 0, {})
               [] d = 5 -> Req({"SampledBuffer"}, 0, {}) [] d = 6 -> Req({"InputAttachment"}, 0, {}) [] OTHER -> NoReq

TypeRules(e) ==
  LET op == e.op  a == Id(e, 1) IN
  CASE op \in {"OpTypeVoid", "OpTypeBool", "OpTypeSampler", "OpTypeAccelerationStructureKHR", "OpTypeRayQueryKHR"} ->
         << <<NIds(e) = 0 /\ NLits(e) = 0, "operand count">> >>
    [] op = "OpTypeInt" ->
         << <<NLits(e) = 2, "operand count">>, <<Lit(e, 1) \in {8, 16, 32, 64}, "integer width must be 8, 16, 32 or 64">>, <<Lit(e, 2) \in {0, 1}, "signedness must be 0 or 1">>,
            <<Lit(e, 1) # 8 \/ "Int8" \in m.capsC, "8-bit integers need the Int8 capability">>,
            <<Lit(e, 1) # 16 \/ "Int16" \in m.capsC, "16-bit integers need the Int16 capability">>,
            <<Lit(e, 1) # 64 \/ "Int64" \in m.capsC, "64-bit integers need the Int64 capability">> >>
    [] op = "OpTypeFloat" ->
         << <<NLits(e) = 1, "operand count">>, <<Lit(e, 1) \in {16, 32, 64}, "float width must be 16, 32 or 64">>,
            <<Lit(e, 1) # 16 \/ "Float16" \in m.capsC, "16-bit floats need the Float16 capability">>,
            <<Lit(e, 1) # 64 \/ "Float64" \in m.capsC, "64-bit floats need the Float64 capability">> >>
    [] op = "OpTypeVector" ->
         << <<NIds(e) = 1 /\ NLits(e) = 1, "operand count">>, <<IsScalar(a), "component type must be a scalar type">>,
            <<Lit(e, 1) \in 2..4, "component count must be 2, 3 or 4">> >>
    [] op = "OpTypeMatrix" ->
         << <<NIds(e) = 1 /\ NLits(e) = 1, "operand count">>, <<IsVec(a) /\ IsFloatS(Elem(a)), "column type must be a float vector type">>,
            <<Lit(e, 1) \in 2..4, "column count must be 2, 3 or 4">> >>
    [] op = "OpTypeImage" ->
         << <<NIds(e) = 1 /\ NLits(e) = 6, "operand count (an access qualifier needs the Kernel capability)">>,
            <<TK(a) = "void" \/ ((IsIntS(a) \/ IsFloatS(a)) /\ D(a).w \in {32, 64}), "sampled type must be void or a 32/64-bit numeric scalar">>,
            <<D(a).w # 64 \/ (IsIntS(a) /\ "Int64ImageEXT" \in m.capsC), "a 64-bit sampled type needs Int64ImageEXT">>,
            <<Lit(e, 1) \in 0..6 /\ Lit(e, 2) \in 0..2 /\ Lit(e, 3) \in 0..1 /\ Lit(e, 4) \in 0..1 /\ Lit(e, 5) \in 0..2, "image parameter out of range">>,
            <<Lit(e, 5) # 0, "Vulkan: Sampled must be 1 or 2">>,
            <<CapOK(DimReq(Lit(e, 1))), "image dimensionality needs a capability that is not declared">>,
            <<~(Lit(e, 4) = 1 /\ Lit(e, 5) = 2 /\ Lit(e, 1) # 6) \/ "StorageImageMultisample" \in m.capsC, "multisampled storage image needs StorageImageMultisample">>,
            <<CapOK(FormatReq(Lit(e, 6))), "image format needs a capability that is not declared">>,
            <<VerOK(FormatReq(Lit(e, 6))), "image format needs an extension that is not declared">> >>
    [] op = "OpTypeSampledImage" ->
         << <<NIds(e) = 1, "operand count">>, <<TK(a) = "image", "operand must be an image type">>,
            <<Img(a)[5] \in {0, 1} /\ Img(a)[1] \notin {5, 6}, "image type must have Sampled 0 or 1 and not be Buffer / SubpassData">> >>
    [] op = "OpTypeArray" ->
         LET len == D(Id(e, 2)) IN
         << <<NIds(e) = 2, "operand count">>, <<ConcreteType(a) /\ TK(a) # "rtarr", "element type must be a concrete, sized type">>,
            <<len.k = "const" /\ IsIntS(len.ty), "length must be a constant of an int scalar type">>,
            <<len.op # "OpConstant" \/ len.cv # 0, "length must be at least 1">> >>
    [] op = "OpTypeRuntimeArray" ->
         << <<NIds(e) = 1, "operand count">>, <<ConcreteType(a) /\ TK(a) # "rtarr", "element type must be a concrete, sized type">> >>
    [] op = "OpTypeStruct" ->
         << <<\A i \in DOMAIN e.ids : ConcreteType(e.ids[i]), "member must be a concrete type declared before the struct">>,
            <<\A i \in DOMAIN e.ids : TK(e.ids[i]) = "rtarr" => i = Len(e.ids), "a run-time array must be the last member">> >>
    [] op = "OpTypePointer" ->
         << <<NIds(e) = 1 /\ Len(e.en) = 1, "operand count">>, <<En(e, 1) \in KnownStorage, "spec: storage class not modelled">>,
            <<IsType(a), "pointee must be a type">> >> \o ReqRules(StorageReq(En(e, 1)))
    [] op = "OpTypeFunction" ->
         << <<NIds(e) >= 1, "operand count">>, <<IsType(a) /\ TK(a) # "fn", "return type must be a type">>,
            <<\A i \in DOMAIN e.ids : i = 1 \/ ConcreteType(e.ids[i]), "parameter type must be a concrete type">> >>
    [] OTHER -> << <<FALSE, "spec: unclassified type opcode">> >>

TypeDef(e) ==
  LET op == e.op  d == MkDef("type", op)  a == Id(e, 1) IN
  CASE op = "OpTypeVoid" -> [d EXCEPT !.tk = "void"]
    [] op = "OpTypeBool" -> [d EXCEPT !.tk = "bool", !.w = 1]
    [] op = "OpTypeInt" -> [d EXCEPT !.tk = "int", !.w = Lit(e, 1), !.sg = Lit(e, 2)]
    [] op = "OpTypeFloat" -> [d EXCEPT !.tk = "float", !.w = Lit(e, 1)]
    [] op = "OpTypeVector" -> [d EXCEPT !.tk = "vec", !.el = a, !.n = Lit(e, 1)]
    [] op = "OpTypeMatrix" -> [d EXCEPT !.tk = "mat", !.el = a, !.n = Lit(e, 1)]
    [] op = "OpTypeImage" -> [d EXCEPT !.tk = "image", !.el = a, !.im = SubSeq(e.lits, 1, 6)]
    [] op = "OpTypeSampler" -> [d EXCEPT !.tk = "sampler"]
    [] op = "OpTypeSampledImage" -> [d EXCEPT !.tk = "simg", !.el = a]
    [] op = "OpTypeArray" -> [d EXCEPT !.tk = "arr", !.el = a, !.n = IF D(Id(e, 2)).op = "OpConstant" /\ D(Id(e, 2)).cv > 0 THEN D(Id(e, 2)).cv ELSE 0]
    [] op = "OpTypeRuntimeArray" -> [d EXCEPT !.tk = "rtarr", !.el = a]
    [] op = "OpTypeStruct" -> [d EXCEPT !.tk = "struct", !.ms = e.ids]
    [] op = "OpTypePointer" -> [d EXCEPT !.tk = "ptr", !.el = a, !.sc = En(e, 1)]
    [] op = "OpTypeFunction" -> [d EXCEPT !.tk = "fn", !.el = a, !.ms = SubSeqFrom(e.ids, 2)]
    [] op = "OpTypeAccelerationStructureKHR" -> [d EXCEPT !.tk = "accel"]
    [] op = "OpTypeRayQueryKHR" -> [d EXCEPT !.tk = "rayq"]
    [] OTHER -> d

\* ---- constants ------------------------------------------------------------------------------------------
RECURSIVE Nullable(_)
Nullable(t) ==
  LET k == TK(t) IN
  IF k \in {"bool", "int", "float", "ptr"} THEN TRUE
  ELSE IF k \in {"vec", "mat", "arr"} THEN Nullable(Elem(t))
  ELSE IF k = "struct" THEN \A i \in DOMAIN Members(t) : Nullable(Members(t)[i])
  ELSE FALSE

ConstCompositeOK(rt, cs) ==
  LET k == TK(rt)  ts == [i \in DOMAIN cs |-> ValTy(cs[i])] IN
  IF k = "vec" THEN Len(cs) = Count(rt) /\ \A i \in DOMAIN ts : ts[i] = Elem(rt)
  ELSE IF k = "mat" THEN Len(cs) = Count(rt) /\ \A i \in DOMAIN ts : ts[i] = Elem(rt)
  ELSE IF k = "arr" THEN (Count(rt) = 0 \/ Len(cs) = Count(rt)) /\ \A i \in DOMAIN ts : ts[i] = Elem(rt)
  ELSE IF k = "struct" THEN ts = Members(rt)
  ELSE FALSE

ConstantRules(e) ==
  LET op == e.op  rt == e.t IN
  << <<IsType(rt), "result type is not a type">> >> \o
  (CASE op \in {"OpConstantTrue", "OpConstantFalse", "OpSpecConstantTrue", "OpSpecConstantFalse"} ->
          << <<IsBoolS(rt), "result type must be bool">>, <<NIds(e) = 0 /\ NLits(e) = 0, "operand count">> >>
     [] op \in {"OpConstant", "OpSpecConstant"} ->
          << <<IsIntS(rt) \/ IsFloatS(rt), "result type must be an int or float scalar">>,
             <<NLits(e) = (IF D(rt).w = 64 THEN 2 ELSE 1), "the literal must occupy exactly the words its type needs">> >>
     [] op \in {"OpConstantComposite", "OpSpecConstantComposite"} ->
          << <<\A i \in DOMAIN e.ids : D(e.ids[i]).k = "const", "constituents must be constants declared before">>,
             <<ConstCompositeOK(rt, e.ids), "constituents do not match the result type">> >>
     [] op = "OpConstantNull" -> << <<Nullable(rt), "type cannot have a null value">> >>
     [] op = "OpUndef" -> << <<ConcreteType(rt), "result type must be a concrete type">> >>
     [] OTHER -> << <<FALSE, "spec: unclassified constant opcode">> >>)

\* ---- block layout (Vulkan: explicit layout of Uniform / StorageBuffer / PushConstant) -------------------------
\* every array on the way carries ArrayStride; a struct's members all carry Offset; a member that is (an array of)
\* matrices carries MatrixStride and a majorness
RECURSIVE InnerOfArrays(_), LayoutOK(_)
InnerOfArrays(t) == IF TK(t) \in {"arr", "rtarr"} THEN InnerOfArrays(Elem(t)) ELSE t
LayoutOK(t) ==
  LET k == TK(t) IN
  IF k \in {"arr", "rtarr"} THEN HasDeco(t, -1, "ArrayStride") /\ LayoutOK(Elem(t))
  ELSE IF k = "struct" THEN
       \A i \in DOMAIN Members(t) :
          /\ HasDeco(t, i - 1, "Offset")
          /\ (IsMat(InnerOfArrays(Members(t)[i])) =>
                HasDeco(t, i - 1, "MatrixStride") /\ (HasDeco(t, i - 1, "ColMajor") \/ HasDeco(t, i - 1, "RowMajor")))
          /\ LayoutOK(Members(t)[i])
  ELSE TRUE

BuiltInShapeOK(b, t, sc) ==
  IF b \notin BuiltInShapeDomain THEN TRUE
  ELSE LET s == BuiltInShape[b]
           scalarOK(x) == CASE s[1] = "f32" -> IsFloatS(x) /\ D(x).w = 32 [] s[1] = "i32" -> IsIntS(x) /\ D(x).w = 32 [] OTHER -> IsBoolS(x)
       IN /\ sc \in s[3]
          /\ CASE s[2] = 0 -> TK(t) = "arr" /\ scalarOK(Elem(t))
               [] s[2] = 1 -> scalarOK(t)
               [] OTHER -> IsVec(t) /\ Count(t) = s[2] /\ scalarOK(Elem(t))

BuiltInsOf(id, mem) == {x[5] : x \in {y \in m.decos : y[1] = id /\ y[2] = mem /\ y[3] = "BuiltIn"}}

VariableRules(e) ==
  LET sc == En(e, 1)  pt == e.t  pointee == Pointee(pt)  inner == InnerOfArrays(pointee)  init == Id(e, 1)  infn == m.fn.id # 0 IN
  << <<IsPtr(pt), "result type must be a pointer type">>, <<PtrSC(pt) = sc, "storage class differs from the pointer type's storage class">>,
     <<NIds(e) <= 1, "operand count">>,
     <<infn = (sc = "Function"), "Function storage class exactly for variables inside a function">>,
     <<~infn \/ (m.fn.cur # 0 /\ m.fn.top), "OpVariable in a function must be at the top of the first block">>,
     <<NIds(e) = 0 \/ (D(init).k = "const" \/ (~infn /\ D(init).k = "gvar")), "initializer must be a constant or a module-scope variable">>,
     <<NIds(e) = 0 \/ ValTy(init) = pointee, "initializer type must be the pointee type">>,
     <<NIds(e) = 0 \/ sc \in {"Output", "Private", "Function", "Workgroup"}, "Vulkan: initializer only for Output, Private, Function and Workgroup variables">>,
     <<sc # "UniformConstant" \/ TK(inner) \in {"image", "sampler", "simg", "accel"},
       "Vulkan: a UniformConstant variable must be an image, sampler, sampled image or acceleration structure (or arrays of them)">>,
     <<sc \notin {"Uniform", "StorageBuffer", "PushConstant"} \/ TK(inner) = "struct",
       "Vulkan: a Uniform / StorageBuffer / PushConstant variable must be a struct or an array of structs">>,
     <<sc \notin {"StorageBuffer", "PushConstant"} \/ HasDeco(inner, -1, "Block"), "Vulkan: the struct of a StorageBuffer / PushConstant variable must be decorated Block">>,
     <<sc # "Uniform" \/ HasDeco(inner, -1, "Block") \/ HasDeco(inner, -1, "BufferBlock"), "Vulkan: the struct of a Uniform variable must be decorated Block or BufferBlock">>,
     <<sc \notin {"Uniform", "StorageBuffer", "PushConstant"} \/ LayoutOK(inner),
       "Vulkan: Block struct not fully laid out (Offset on every member, ArrayStride on arrays, MatrixStride and ColMajor/RowMajor on matrices)">>,
     <<\A b \in BuiltInsOf(e.r, -1) : BuiltInShapeOK(b, pointee, sc), "BuiltIn variable has the wrong type or storage class">> >>

\* ---- annotations --------------------------------------------------------------------------------------------
\* e.ids[1] target; OpMemberDecorate: lits[1] = member, the decoration's operands follow; en[1] decoration, en[2] builtin name
DecoMember(e) == IF e.op = "OpMemberDecorate" THEN Lit(e, 1) ELSE -1
DecoOperands(e) == IF e.op = "OpMemberDecorate" THEN SubSeqFrom(e.lits, 2) ELSE e.lits
DecoArity(d) == CASE d \in {"Location", "Binding", "DescriptorSet", "Offset", "ArrayStride", "MatrixStride", "BuiltIn", "Index", "Component", "SpecId"} -> 1
                  [] d \in {"Block", "BufferBlock", "ColMajor", "RowMajor", "Flat", "NoPerspective", "Centroid", "Sample", "NonWritable", "NonReadable",
                            "NonUniform", "Invariant", "RelaxedPrecision", "NoContraction", "Restrict", "Aliased", "Volatile", "Coherent"} -> 0
                  [] OTHER -> -1
DecorateRules(e) ==
  LET d == En(e, 1)  tgt == Id(e, 1)  mem == DecoMember(e)  ops == DecoOperands(e) IN
  << <<NIds(e) = 1 /\ Len(e.en) >= 1, "operand count">>, <<e.op # "OpMemberDecorate" \/ (NLits(e) >= 1 /\ mem >= 0), "member index missing">>,
     <<DecoArity(d) = -1 \/ Len(ops) = DecoArity(d), "wrong number of decoration operands">>,
     <<(d \in {"Offset", "MatrixStride", "ColMajor", "RowMajor"}) => e.op = "OpMemberDecorate", "decoration applies to structure members only">>,
     <<(d \in {"Block", "BufferBlock", "ArrayStride", "DescriptorSet", "Binding"}) => e.op = "OpDecorate", "decoration does not apply to structure members">>,
     <<\A x \in m.decos : (x[1] = tgt /\ x[2] = mem /\ x[3] = d) => x[4] = ops, "the same decoration is applied twice with different operands">> >>
  \o ReqRules(DecoReq(d)) \o (IF d = "BuiltIn" THEN ReqRules(BuiltInReq(En(e, 2))) ELSE <<>>)

\* where a decoration may sit, checked when its target gets defined (targets are forward references)
DecoTargetOK(id, def) ==
  \A x \in {y \in m.decos : y[1] = id} :
     LET d == x[3] IN
     /\ (d \in {"Block", "BufferBlock"}) => (def.k = "type" /\ def.tk = "struct")
     /\ (d = "ArrayStride") => (def.k = "type" /\ def.tk \in {"arr", "rtarr", "ptr"})
     /\ (d \in {"DescriptorSet", "Binding"}) => def.k = "gvar"
     /\ (d \in {"Location", "Flat", "NoPerspective", "Centroid", "Sample", "Index", "Component"} /\ x[2] = -1) => (def.k = "gvar" /\ def.sc \in {"Input", "Output"})
     /\ (x[2] # -1) => (def.k = "type" /\ def.tk = "struct" /\ x[2] < Len(def.ms))
     /\ (d = "BuiltIn" /\ x[2] = -1) => def.k \in {"gvar", "const"}
     /\ (d \in {"NonWritable", "NonReadable"} /\ x[2] = -1) => def.k \in {"gvar", "lvar", "param"}
=============================================================================
