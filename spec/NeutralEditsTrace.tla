-------------------------- MODULE NeutralEditsTrace --------------------------
(***************************************************************************)
(* Validation of edit scripts the harness generated itself (seeded scripts *)
(* of up to 8 edits on programs too large to enumerate).  Every step of a  *)
(* script is an action of NeutralEdits.tla only if its guard holds; the    *)
(* harness records, per step, the windows the guard looks at (previous     *)
(* token, slot text, next token, template flags) and, for renamings, the   *)
(* new name with the identifier spellings of the program.  One event per   *)
(* line of steps.ndjson:                                                   *)
(*   [ev |-> "win",   id, pk, prev, mid, nk, next, p1, n1]                 *)
(*   [ev |-> "fresh", id, from, to, idents]                                *)
(* A step whose guard is false is recorded in `bad` (the harness's mirror  *)
(* of the guard is then wrong, or the line is one of the seeded bad steps  *)
(* of the self-test); the whole file is always consumed.                   *)
(***************************************************************************)
EXTENDS NeutralEdits

Steps == ndJsonDeserialize("steps.ndjson")

VARIABLES l, bad
tvars == <<vars, l, bad>>

Ev == Steps[l]

WinOK(e) ==
  LET tk == (IF e.prev = <<>> THEN <<>> ELSE <<[k |-> e.pk, lex |-> e.prev, ts |-> e.p1, te |-> 0, tag |-> "orig"]>>)
            \o (IF e.next = <<>> THEN <<>> ELSE <<[k |-> e.nk, lex |-> e.next, ts |-> e.n1, te |-> 0, tag |-> "orig"]>>)
      j  == IF e.prev = <<>> THEN 0 ELSE 1
  IN  WindowOK(tk, j, e.mid)

FreshOK(e) ==
  /\ Renamable(e.from)
  /\ Fresh(e.to, [i \in 1 .. Len(e.idents) |-> [lex |-> e.idents[i]]])

TInit ==
  /\ toks = <<>> /\ triv = <<<<>>>> /\ orig = <<>> /\ ren = <<>> /\ spans = {} /\ commas = {} /\ renames = {} /\ log = <<>> /\ pid = 0
  /\ l = 1 /\ bad = <<>>

TStep ==
  /\ l <= Len(Steps)
  /\ l' = l + 1
  /\ LET ok == IF Ev.ev = "win" THEN WinOK(Ev) ELSE IF Ev.ev = "fresh" THEN FreshOK(Ev) ELSE FALSE
     IN  bad' = IF ok THEN bad ELSE Append(bad, [l |-> l, id |-> Ev.id, rule |-> IF Ev.ev = "win" THEN "WindowOK" ELSE "Fresh"])
  /\ UNCHANGED vars

TEnd ==
  /\ l = Len(Steps) + 1
  /\ l' = l + 1
  /\ PrintT("@@" \o ToJson([consumed |-> Len(Steps), bad |-> bad]))
  /\ UNCHANGED <<vars, bad>>

TNext == TStep \/ TEnd
TSpec == TInit /\ [][TNext]_tvars
=============================================================================
