------------------------------ MODULE IrValid ------------------------------
(***************************************************************************)
(* C09 - "Lowering yields a well-formed, fully typed, deduplicated IR".     *)
(*                                                                         *)
(* The structural contract of a naga IR module as a RULE AUTOMATON over    *)
(* the module's event stream (one event per arena entry and per statement, *)
(* in arena / program order; schema: harness/irev, DESIGN.md Appendix B).  *)
(* The automaton is a pure function                                        *)
(*                                                                         *)
(*        Apply(st, e, l)  ==  state after event e (line l)                *)
(*                                                                         *)
(* whose state records the arenas seen so far, the per-function emit       *)
(* state and, in st.bad, every rule an event violated ([l, rule, h]).  A   *)
(* violated rule never stops the automaton: all lookups are total, the     *)
(* event is applied anyway, so each module gets all its verdicts and the   *)
(* following modules of the batch are still judged.                        *)
(*                                                                         *)
(* Used by  IrTrace.tla  (trace validation of what the real lowering       *)
(* produced) and  IrLower.tla  (design level: an abstract lowerer with the *)
(* emitter start / finish / interrupt / pre-emit-flush protocol whose      *)
(* every output must be accepted, and whose seeded faults must not be).    *)
(*                                                                         *)
(* Sources of the rules (upstream = gfx-rs/naga, which gogpu/naga ports):  *)
(*  [H]  valid/handles.rs    arenas are appended in order, handles are in  *)
(*                           range and refer backwards                     *)
(*  [T]  valid/type.rs,      no abstract scalar in a type; UniqueArena:    *)
(*       arena/unique_arena  structurally equal anonymous types once       *)
(*  [Y]  proc/typifier.rs    the type of every expression kind (Infer)     *)
(*  [E]  valid/function.rs   validate_function: needs_pre_emit kinds are   *)
(*       + expression.rs     valid from the start; Emit: not a result      *)
(*                           kind, not already in scope; operands of a     *)
(*                           statement must be in scope; block scoping of  *)
(*                           emitted expressions; results enter the scope  *)
(*                           at their statement                            *)
(*  [C]  valid/function.rs   ControlFlowAbility (break in loop or switch,  *)
(*                           continue in loop body, nothing in continuing, *)
(*                           return outside continuing), switch rules      *)
(*  [S]  valid/function.rs   Store / Call / Atomic / Return / If typing    *)
(*  [I]  valid/interface.rs  entry-point bindings (VaryingContext),        *)
(*                           resource variables carry a binding            *)
(*  [P]  the property text   "every function with a result returns a value *)
(*                           of that type on all paths", "exactly one emit *)
(*                           range per evaluated expression"               *)
(*  [D]  ir/statement.go and upstream ir docs: Return and Kill are         *)
(*       forbidden in a continuing block                                   *)
(* Where upstream's validator is stricter than the property text (operand  *)
(* type compatibility of Binary / Math arguments, argument counts of Math, *)
(* instructions after return, const-ness of local initialisers, call       *)
(* order of functions, writability of the stored-to address space,         *)
(* uniformity, capabilities, layouts, Kill is NOT checked by upstream in a  *)
(* continuing block but documented as forbidden - kept, [D]) the rule is   *)
(* left out: the specification may be weaker than upstream, never stronger *)
(* than the property.  Two operand rules are kept because the inferred     *)
(* type depends on them: Select (accept and reject of one type) and        *)
(* Compose (components fit the composed type, valid/compose.rs).           *)
(*                                                                         *)
(* Consequences are not reported twice: when a rule about the TYPE of an   *)
(* expression fails (no recorded type, inference undefined, recorded #     *)
(* inferred, Compose misfit) the expression is given the unknown type, and *)
(* every typing rule is silent about expressions / statements that have an *)
(* operand of unknown type.  Structural rules (handles, emit discipline,   *)
(* control flow) never depend on types and are always evaluated.           *)
(***************************************************************************)
EXTENDS Integers, Sequences, FiniteSets, TLC

MaxBad == 200                     \* verdicts kept per module

None  == [k |-> "none"]
NoRes == [h |-> -1, v |-> None]                \* "no type"
Undef == [h |-> -1, v |-> [k |-> "undef"]]     \* inference undefined: operand types not admissible
Defer == [h |-> -1, v |-> [k |-> "defer"]]     \* the type is fixed by the statement that produces the result
H(h) == [h |-> h, v |-> None]                  \* TypeResolution::Handle
V(i) == [h |-> -1, v |-> i]                    \* TypeResolution::Value

Scalar(sk, w)          == [k |-> "scalar", sk |-> sk, w |-> w]
Vector(n, sk, w)       == [k |-> "vector", n |-> n, sk |-> sk, w |-> w]
Matrix(c, r, sk, w)    == [k |-> "matrix", c |-> c, r |-> r, sk |-> sk, w |-> w]
Pointer(base, space)   == [k |-> "pointer", base |-> base, space |-> space]
ValuePtr(n, sk, w, sp) == [k |-> "valueptr", n |-> n, sk |-> sk, w |-> w, space |-> sp]
Bool == Scalar("bool", 1)
U32  == Scalar("uint", 4)
I32  == Scalar("sint", 4)
F32  == Scalar("float", 4)

MinS(S) == CHOOSE m \in S : \A x \in S : m <= x
MaxS(S) == CHOOSE m \in S : \A x \in S : x <= m
MinI(a, b) == IF a < b THEN a ELSE b

\* one verdict: the violated rule, the handle it is about (-1: the event itself) and, for typing rules, the two types
NoX == [got |-> [k |-> "none"], want |-> [k |-> "none"]]
Chk(ok, rule, h) == IF ok THEN <<>> ELSE <<[rule |-> rule, h |-> h, x |-> NoX]>>
ChkT(ok, rule, h, got, want) == IF ok THEN <<>> ELSE <<[rule |-> rule, h |-> h, x |-> [got |-> got, want |-> want]]>>
\* a rule about a set of offending handles: reported once per event, for the smallest handle
ChkSet(S, rule) == IF S = {} THEN <<>> ELSE <<[rule |-> rule, h |-> MinS(S), x |-> NoX]>>
\* the same for 1-based arena positions, with the two types of the smallest offender
ChkSetT(S, rule, Got(_), Want(_)) ==
  IF S = {} THEN <<>> ELSE LET m == MinS(S) IN <<[rule |-> rule, h |-> m - 1, x |-> [got |-> Got(m), want |-> Want(m)]]>>

-----------------------------------------------------------------------------
(* Automaton state.  Handles are 0-based; arena h is sequence element h+1.  *)

NoFn == [f |-> -1, stage |-> "none", args |-> <<>>, res |-> [ty |-> -1, b |-> None]]

Init0 == [ types |-> <<>>, special |-> <<-1, -1, -1>>, consts |-> <<>>, overrides |-> <<>>, globals |-> <<>>,
           gexprs |-> <<>>, fsigs |-> <<>>,
           inbody |-> FALSE,            \* between fbegin and fend
           fn |-> NoFn, locals |-> <<>>,
           exprs |-> <<>>,              \* current expression arena: [k, ops, ty, x] (x: kind-specific handle)
           valid |-> {},                \* [E] expressions in scope
           emitted |-> {},              \* [P] expressions covered by an Emit so far
           stack |-> <<>>,              \* [C] control-flow context
           live |-> TRUE,               \* [P] can control reach this point
           nbad |-> 0, bad |-> <<>> ]

AddBad(st, l, vs) ==
  LET room == IF st.nbad >= MaxBad THEN 0 ELSE MaxBad - st.nbad
      n    == MinI(Len(vs), room)
  IN  IF n = 0 THEN st
      ELSE [st EXCEPT !.bad = @ \o [i \in 1..n |-> [l |-> l, rule |-> vs[i].rule, h |-> vs[i].h, x |-> vs[i].x]], !.nbad = @ + n]

-----------------------------------------------------------------------------
(* Types *)

TyIn(st, h) == h >= 0 /\ h < Len(st.types)
Ty(st, h)   == IF TyIn(st, h) THEN st.types[h + 1].inner ELSE None
In(st, r)   == IF r.h >= 0 THEN Ty(st, r.h) ELSE r.v            \* the inner a resolution denotes

ScalarCarriers == {"scalar", "vector", "matrix", "atomic", "valueptr"}
IsAbstract(i)  == i.k \in ScalarCarriers /\ i.sk \in {"aint", "afloat"}
KnownTypeKinds == {"scalar", "vector", "matrix", "atomic", "pointer", "array", "struct", "image", "sampler", "barray", "accel", "rayquery"}

InnerRefs(i) == CASE i.k \in {"pointer", "array", "barray"} -> {i.base}
                  [] i.k = "struct" -> {i.ms[j].ty : j \in 1..Len(i.ms)}
                  [] OTHER -> {}

\* [Y] two resolutions denote the same type: same inner; two structs only if they are the same arena entry
TypeEq(st, a, b) ==
  LET ia == In(st, a)  ib == In(st, b)
  IN  /\ ia.k \notin {"none", "undef", "defer"}
      /\ ia.k = ib.k
      /\ ia = ib
      /\ (ia.k = "struct" => a.h = b.h)

TypeStep(st, e, l) ==
  LET i  == e.inner
      vs == Chk(e.h = Len(st.types), "type arena not appended in order", -1)
         \o Chk(i.k \in KnownTypeKinds, "unknown type kind in the arena", -1)
         \o ChkSet({r \in InnerRefs(i) : ~(r >= 0 /\ r < e.h)}, "type refers to a later or missing type (handles must refer backwards)")
         \o Chk(~IsAbstract(i), "abstract scalar kind survives in the type arena", -1)
         \o Chk(e.named = 1 \/ \A j \in 1..Len(st.types) :
                   ~(st.types[j].named = 0 /\ st.types[j].inner.k = i.k /\ st.types[j].inner = i),
                "structurally equal anonymous type appears twice", -1)
  IN  AddBad([st EXCEPT !.types = Append(@, [named |-> e.named, name |-> e.name, inner |-> i])], l, vs)

SpecialStep(st, e, l) ==
  AddBad([st EXCEPT !.special = e.hs], l,
         ChkSet({e.hs[i] : i \in 1..Len(e.hs)} \ ({-1} \cup 0..(Len(st.types) - 1)), "special type handle out of range"))

-----------------------------------------------------------------------------
(* Module-scope declarations *)

ResourceSpaces == {"uniform", "storage", "handle"}

ConstStep(st, e, l) ==
  AddBad([st EXCEPT !.consts = Append(@, [ty |-> e.ty, init |-> e.init])], l,
         Chk(e.h = Len(st.consts), "constant arena not appended in order", -1)
      \o Chk(TyIn(st, e.ty), "constant: type handle out of range", -1))

OverrideStep(st, e, l) ==
  AddBad([st EXCEPT !.overrides = Append(@, [ty |-> e.ty, init |-> e.init])], l,
         Chk(e.h = Len(st.overrides), "override arena not appended in order", -1)
      \o Chk(TyIn(st, e.ty), "override: type handle out of range", -1)
      \o Chk(Ty(st, e.ty).k \in {"scalar", "none"}, "override: type is not a scalar", -1))

GlobalStep(st, e, l) ==
  AddBad([st EXCEPT !.globals = Append(@, [space |-> e.space, ty |-> e.ty, init |-> e.init])], l,
         Chk(e.h = Len(st.globals), "global variable arena not appended in order", -1)
      \o Chk(TyIn(st, e.ty), "global variable: type handle out of range", -1)
      \o Chk(e.space \in ResourceSpaces => (e.group >= 0 /\ e.binding >= 0),
             "resource variable (uniform / storage / handle) without @group/@binding", -1))

-----------------------------------------------------------------------------
(* Expressions: handles, emit class, type inference [Y] *)

PreEmit     == {"Literal", "Constant", "Override", "ZeroValue", "FunctionArgument", "GlobalVariable", "LocalVariable"}
ResultKinds == {"CallResult", "AtomicResult", "WorkGroupUniformLoadResult", "RayQueryProceedResult",
                "SubgroupBallotResult", "SubgroupOperationResult"}
\* kinds a lowered module can contain (Alias / Phi are private to the DXIL passes)
ModelledKinds == PreEmit \cup ResultKinds \cup
   {"Compose", "Access", "AccessIndex", "Splat", "Swizzle", "Load", "ImageSample", "ImageLoad", "ImageQuery", "Unary", "Binary",
    "Select", "Derivative", "Relational", "Math", "As", "ArrayLength", "RayQueryGetIntersection"}
\* kinds admitted in the module-scope (const / override) expression arena
GlobalKinds == {"Literal", "Constant", "Override", "ZeroValue", "Compose", "Access", "AccessIndex", "Splat", "Swizzle",
                "Unary", "Binary", "Select", "Relational", "Math", "As"}

ExIn(st, h)  == h >= 0 /\ h < Len(st.exprs)
ExTy(st, h)  == IF ExIn(st, h) THEN st.exprs[h + 1].ty ELSE NoRes
ExK(st, h)   == IF ExIn(st, h) THEN st.exprs[h + 1].k ELSE "none"
Kn(st, h)    == In(st, ExTy(st, h)).k # "none"     \* the expression has a type (if not, that has been reported already)
OpH(e, i)    == IF i <= Len(e.ops) THEN e.ops[i] ELSE -1
OpTy(st, e, i) == ExTy(st, OpH(e, i))
OpSet(e)     == {e.ops[i] : i \in 1..Len(e.ops)}

LitType(lit) ==
  CASE lit = "f32" -> F32 [] lit = "i32" -> I32 [] lit = "u32" -> U32 [] lit = "bool" -> Bool
    [] lit = "f64" -> Scalar("float", 8) [] lit = "f16" -> Scalar("float", 2)
    [] lit = "i64" -> Scalar("sint", 8)  [] lit = "u64" -> Scalar("uint", 8)
    [] lit = "aint" -> I32 [] lit = "afloat" -> F32      \* typed as the default concretisation; survival is a rule of its own
    [] OTHER -> [k |-> "undef"]

\* Access (dyn = TRUE) and AccessIndex (dyn = FALSE, constant index idx) on a base of inner b
InferAccess(st, b, dyn, idx) ==
  CASE b.k \in {"array", "barray"} -> H(b.base)
    [] b.k = "vector"   -> IF dyn \/ idx < b.n THEN V(Scalar(b.sk, b.w)) ELSE Undef
    [] b.k = "matrix"   -> IF dyn \/ idx < b.c THEN V(Vector(b.r, b.sk, b.w)) ELSE Undef
    [] b.k = "struct"   -> IF ~dyn /\ idx < Len(b.ms) THEN H(b.ms[idx + 1].ty) ELSE Undef
    [] b.k = "valueptr" -> IF b.n > 0 /\ (dyn \/ idx < b.n) THEN V(ValuePtr(0, b.sk, b.w, b.space)) ELSE Undef
    [] b.k = "pointer"  ->
         LET p == Ty(st, b.base) IN
         CASE p.k \in {"array", "barray"} -> V(Pointer(p.base, b.space))
           [] p.k = "vector" -> IF dyn \/ idx < p.n THEN V(ValuePtr(0, p.sk, p.w, b.space)) ELSE Undef
           [] p.k = "matrix" -> IF dyn \/ idx < p.c THEN V(ValuePtr(p.r, p.sk, p.w, b.space)) ELSE Undef
           [] p.k = "struct" -> IF ~dyn /\ idx < Len(p.ms) THEN V(Pointer(p.ms[idx + 1].ty, b.space)) ELSE Undef
           [] OTHER -> Undef
    [] OTHER -> Undef

Arith   == {"add", "sub", "div", "mod", "and", "xor", "or"}
Compare == {"eq", "ne", "lt", "le", "gt", "ge"}
Numeric == {"scalar", "vector", "matrix"}

InferBinary(op, ra, a, rb, b) ==
  CASE op \in Arith ->
         IF a.k = "scalar" /\ b.k = "vector" THEN rb
         ELSE IF a.k \in Numeric /\ b.k \in Numeric THEN ra ELSE Undef
    [] op \in {"shl", "shr"} -> IF a.k \in {"scalar", "vector"} THEN ra ELSE Undef
    [] op = "mul" ->
         CASE a.k = "matrix" /\ b.k = "matrix" -> V(Matrix(b.c, a.r, a.sk, a.w))
           [] a.k = "matrix" /\ b.k = "vector" -> V(Vector(a.r, a.sk, a.w))
           [] a.k = "vector" /\ b.k = "matrix" -> V(Vector(b.c, b.sk, b.w))
           [] a.k = "scalar" /\ b.k \in Numeric -> rb
           [] a.k \in Numeric /\ b.k = "scalar" -> ra
           [] a.k = "vector" /\ b.k = "vector" -> ra
           [] OTHER -> Undef
    [] op \in Compare \cup {"land", "lor"} ->
         CASE a.k = "vector" -> V(Vector(a.n, "bool", 1))
           [] a.k = "scalar" -> V(Bool)
           [] OTHER -> Undef
    [] OTHER -> Undef

MathSame == {"abs", "min", "max", "clamp", "saturate", "cos", "cosh", "sin", "sinh", "tan", "tanh", "acos", "asin", "atan",
             "atan2", "asinh", "acosh", "atanh", "radians", "degrees", "ceil", "floor", "round", "fract", "trunc", "ldexp",
             "exp", "exp2", "log", "log2", "pow", "cross", "normalize", "faceforward", "reflect", "refract", "sign", "fma",
             "mix", "step", "smoothstep", "sqrt", "inversesqrt", "inverse", "quantizef16", "counttrailingzeros",
             "countleadingzeros", "countonebits", "reversebits", "extractbits", "insertbits", "firsttrailingbit",
             "firstleadingbit"}
MathPack == {"pack4x8snorm", "pack4x8unorm", "pack2x16snorm", "pack2x16unorm", "pack2x16float", "pack4xi8", "pack4xu8",
             "pack4xi8clamp", "pack4xu8clamp"}

\* modf / frexp: a predeclared result struct {fract : T, whole : T} / {fract : T, exp : I}, T the argument type and
\* I the i32 scalar or vector of the same size.  (Upstream keeps them in special_types.predeclared_types; the type is
\* identified here by that shape and the reserved "__" name.)
IsModfResult(st, r, a) ==
  LET s == In(st, r) IN
  /\ r.h >= 0 /\ s.k = "struct" /\ Len(s.ms) = 2
  /\ Ty(st, s.ms[1].ty) = a /\ Ty(st, s.ms[2].ty) = a
IsFrexpResult(st, r, a) ==
  LET s == In(st, r) IN
  /\ r.h >= 0 /\ s.k = "struct" /\ Len(s.ms) = 2
  /\ Ty(st, s.ms[1].ty) = a
  /\ Ty(st, s.ms[2].ty) = IF a.k = "vector" THEN Vector(a.n, "sint", 4) ELSE I32

InferMath(st, e, ra, a, b) ==
  LET f == e.fun IN
  CASE f \in MathSame -> IF a.k \in Numeric THEN ra ELSE Undef
    [] f \in {"modf", "frexp"} -> IF a.k \in {"scalar", "vector"} THEN [h |-> -1, v |-> [k |-> f]] ELSE Undef
    [] f = "dot" -> IF a.k = "vector" THEN V(Scalar(a.sk, a.w)) ELSE Undef
    [] f = "dot4i8packed" -> V(I32)
    [] f = "dot4u8packed" -> V(U32)
    [] f = "outer" -> IF a.k = "vector" /\ b.k = "vector" THEN V(Matrix(b.n, a.n, a.sk, a.w)) ELSE Undef
    [] f \in {"distance", "length"} -> IF a.k \in {"scalar", "vector"} THEN V(Scalar(a.sk, a.w)) ELSE Undef
    [] f = "transpose" -> IF a.k = "matrix" THEN V(Matrix(a.r, a.c, a.sk, a.w)) ELSE Undef
    [] f = "determinant" -> IF a.k = "matrix" THEN V(Scalar(a.sk, a.w)) ELSE Undef
    [] f \in MathPack -> V(U32)
    [] f \in {"unpack4x8snorm", "unpack4x8unorm"} -> V(Vector(4, "float", 4))
    [] f \in {"unpack2x16snorm", "unpack2x16unorm", "unpack2x16float"} -> V(Vector(2, "float", 4))
    [] f = "unpack4xi8" -> V(Vector(4, "sint", 4))
    [] f = "unpack4xu8" -> V(Vector(4, "uint", 4))
    [] OTHER -> Undef

UintFormats == {"r8uint", "r16uint", "rg8uint", "r32uint", "rg16uint", "rgba8uint", "rgb10a2uint", "rg32uint", "rgba16uint",
                "rgba32uint", "r64uint"}
SintFormats == {"r8sint", "r16sint", "rg8sint", "r32sint", "rg16sint", "rgba8sint", "rg32sint", "rgba16sint", "rgba32sint", "r64sint"}
FormatScalar(f) == Scalar(IF f \in UintFormats THEN "uint" ELSE IF f \in SintFormats THEN "sint" ELSE "float",
                          IF f \in {"r64uint", "r64sint"} THEN 8 ELSE 4)

InferImageSample(e, img) ==
  IF img.k # "image" THEN Undef
  ELSE IF e.gather >= 0 THEN
         (CASE img.class = "sampled" -> V(Vector(4, img.sk, 4))
            [] img.class = "depth"   -> V(Vector(4, "float", 4))
            [] OTHER -> Undef)
  ELSE CASE img.class = "sampled"  -> V(Vector(4, img.sk, 4))
         [] img.class = "depth"    -> V(F32)
         [] img.class = "external" -> V(Vector(4, "float", 4))
         [] OTHER -> Undef

InferImageLoad(img) ==
  IF img.k # "image" THEN Undef
  ELSE CASE img.class = "sampled"  -> V(Vector(4, img.sk, 4))
         [] img.class = "depth"    -> V(F32)
         [] img.class = "external" -> V(Vector(4, "float", 4))
         [] img.class = "storage"  -> LET s == FormatScalar(img.fmt) IN V(Vector(4, s.sk, s.w))
         [] OTHER -> Undef

InferImageQuery(e, img) ==
  IF img.k # "image" THEN Undef
  ELSE IF e.q = "size" THEN
         (CASE img.dim = "1d" -> V(U32)
            [] img.dim \in {"2d", "cube"} -> V(Vector(2, "uint", 4))
            [] img.dim = "3d" -> V(Vector(3, "uint", 4))
            [] OTHER -> Undef)
  ELSE IF e.q \in {"levels", "layers", "samples"} THEN V(U32) ELSE Undef

InferAs(e, a) ==
  LET w == IF e.conv > 0 THEN e.conv ELSE IF a.k \in Numeric THEN a.w ELSE 0 IN
  CASE a.k = "scalar" -> V(Scalar(e.sk, w))
    [] a.k = "vector" -> V(Vector(a.n, e.sk, w))
    [] a.k = "matrix" -> V(Matrix(a.c, a.r, e.sk, w))
    [] OTHER -> Undef

\* global = TRUE: the module-scope arena (no function context)
Infer(st, e, global) ==
  LET k  == e.k
      ra == OpTy(st, e, 1)   a == In(st, ra)
      rb == OpTy(st, e, 2)   b == In(st, rb)
  IN
  CASE k = "Literal"   -> V(LitType(e.lit))
    [] k = "Constant"  -> IF e.c >= 0 /\ e.c < Len(st.consts) THEN H(st.consts[e.c + 1].ty) ELSE Undef
    [] k = "Override"  -> IF e.o >= 0 /\ e.o < Len(st.overrides) THEN H(st.overrides[e.o + 1].ty) ELSE Undef
    [] k \in {"ZeroValue", "Compose", "AtomicResult", "SubgroupOperationResult"} -> IF TyIn(st, e.ty) THEN H(e.ty) ELSE Undef
    [] k = "Access"      -> IF Len(e.ops) = 2 THEN InferAccess(st, a, TRUE, 0) ELSE Undef
    [] k = "AccessIndex" -> InferAccess(st, a, FALSE, e.idx)
    [] k = "Splat"   -> IF a.k = "scalar" /\ e.n \in 2..4 THEN V(Vector(e.n, a.sk, a.w)) ELSE Undef
    [] k = "Swizzle" -> IF a.k = "vector" /\ e.n \in 2..4 /\ Len(e.pat) = e.n /\ \A i \in 1..Len(e.pat) : e.pat[i] < a.n
                        THEN V(Vector(e.n, a.sk, a.w)) ELSE Undef
    [] k = "FunctionArgument" -> IF ~global /\ e.idx < Len(st.fn.args) THEN H(st.fn.args[e.idx + 1].ty) ELSE Undef
    [] k = "GlobalVariable" ->
         IF e.g >= 0 /\ e.g < Len(st.globals)
         THEN LET g == st.globals[e.g + 1] IN IF g.space = "handle" THEN H(g.ty) ELSE V(Pointer(g.ty, g.space))
         ELSE Undef
    [] k = "LocalVariable" -> IF ~global /\ e.v < Len(st.locals) THEN V(Pointer(st.locals[e.v + 1].ty, "function")) ELSE Undef
    [] k = "Load" ->
         CASE a.k = "pointer"  -> LET p == Ty(st, a.base) IN
                                  IF p.k = "atomic" THEN V(Scalar(p.sk, p.w)) ELSE IF p.k = "none" THEN Undef ELSE H(a.base)
           [] a.k = "valueptr" -> IF a.n > 0 THEN V(Vector(a.n, a.sk, a.w)) ELSE V(Scalar(a.sk, a.w))
           [] OTHER -> Undef
    [] k = "ImageSample" -> InferImageSample(e, a)
    [] k = "ImageLoad"   -> InferImageLoad(a)
    [] k = "ImageQuery"  -> InferImageQuery(e, a)
    [] k \in {"Unary", "Derivative"} -> IF a.k \in Numeric THEN ra ELSE Undef
    [] k = "Binary" -> IF Len(e.ops) = 2 THEN InferBinary(e.op, ra, a, rb, b) ELSE Undef
    [] k = "Select" -> \* accept and reject have the same type (valid/expression.rs: Select)
         IF Len(e.ops) = 3 /\ b.k # "none" /\ In(st, OpTy(st, e, 3)) = b THEN rb ELSE Undef
    [] k = "Relational" ->
         CASE e.fun \in {"all", "any"} -> IF a.k \in {"scalar", "vector"} THEN V(Bool) ELSE Undef
           [] e.fun \in {"isnan", "isinf"} ->
                (CASE a.k = "vector" -> V(Vector(a.n, "bool", 1)) [] a.k = "scalar" -> V(Bool) [] OTHER -> Undef)
           [] OTHER -> Undef
    [] k = "Math" -> InferMath(st, e, ra, a, b)
    [] k = "As"   -> InferAs(e, a)
    [] k = "CallResult" ->
         IF e.f >= 0 /\ e.f < Len(st.fsigs) /\ st.fsigs[e.f + 1].res >= 0 THEN H(st.fsigs[e.f + 1].res) ELSE Undef
    [] k = "ArrayLength" -> V(U32)
    [] k = "RayQueryProceedResult" -> V(Bool)
    [] k = "SubgroupBallotResult"  -> V(Vector(4, "uint", 4))
    [] k = "RayQueryGetIntersection" -> IF TyIn(st, st.special[3]) THEN H(st.special[3]) ELSE Undef
    [] k = "WorkGroupUniformLoadResult" -> Defer
    [] OTHER -> Undef

\* [S] valid/compose.rs: the components of a Compose fit the composed type
RECURSIVE CompWidth(_, _, _)
CompWidth(st, e, i) ==      \* scalar components a vector Compose is given by operands i..n
  IF i > Len(e.ops) THEN 0
  ELSE LET c == In(st, OpTy(st, e, i)) IN (IF c.k = "vector" THEN c.n ELSE 1) + CompWidth(st, e, i + 1)
ComposeFits(st, e) ==
  LET t == Ty(st, e.ty)
      n == Len(e.ops)
      C(i) == In(st, OpTy(st, e, i))
  IN  CASE t.k = "vector" -> /\ \A i \in 1..n : C(i).k \in {"scalar", "vector"} /\ C(i).sk = t.sk /\ C(i).w = t.w
                             /\ CompWidth(st, e, 1) = t.n
        [] t.k = "matrix" -> \/ (n = t.c /\ \A i \in 1..n : C(i) = Vector(t.r, t.sk, t.w))
                             \/ (n = t.c * t.r /\ \A i \in 1..n : C(i) = Scalar(t.sk, t.w))
        [] t.k = "array"  -> t.size = n /\ \A i \in 1..n : TypeEq(st, OpTy(st, e, i), H(t.base))
        [] t.k = "struct" -> n = Len(t.ms) /\ \A i \in 1..n : TypeEq(st, OpTy(st, e, i), H(t.ms[i].ty))
        [] OTHER -> FALSE

\* the handle a kind carries besides its operands, for the range rule [H]
KindHandleOk(st, e, global) ==
  CASE e.k = "Constant" -> e.c >= 0 /\ e.c < Len(st.consts)
    [] e.k = "Override" -> e.o >= 0 /\ e.o < Len(st.overrides)
    [] e.k \in {"ZeroValue", "Compose", "AtomicResult", "SubgroupOperationResult"} -> TyIn(st, e.ty)
    [] e.k = "GlobalVariable"   -> e.g >= 0 /\ e.g < Len(st.globals)
    [] e.k = "LocalVariable"    -> ~global /\ e.v < Len(st.locals)
    [] e.k = "FunctionArgument" -> ~global /\ e.idx < Len(st.fn.args)
    [] e.k = "CallResult"       -> e.f >= 0 /\ e.f < Len(st.fsigs)
    [] OTHER -> TRUE

\* what a later rule needs to know about an expression besides kind, operands and type
KindX(e) == CASE e.k = "CallResult" -> e.f [] e.k = "AtomicResult" -> e.cmp [] OTHER -> -1

\* recorded type against the inference
RecordedOk(st, e, inf) ==
  CASE inf.v.k = "defer" -> TRUE
    [] inf.v.k = "modf"  -> IsModfResult(st, e.rt, In(st, OpTy(st, e, 1)))
    [] inf.v.k = "frexp" -> IsFrexpResult(st, e.rt, In(st, OpTy(st, e, 1)))
    [] OTHER -> TypeEq(st, e.rt, inf)

ExprStep(st, e, l) ==
  LET h    == Len(st.exprs)
      inf  == Infer(st, e, FALSE)
      defd == inf.v.k # "undef"
      typed == e.rt.h >= 0 \/ e.rt.v.k # "none"
      \* an operand without a type has been reported already; what follows from it is not reported again
      opsKnown == \A o \in OpSet(e) : ~ExIn(st, o) \/ In(st, ExTy(st, o)).k # "none"
      misfit == e.k = "Compose" /\ TyIn(st, e.ty) /\ opsKnown /\ (\A o \in OpSet(e) : ExIn(st, o)) /\ ~ComposeFits(st, e)
      \* verdicts about the expression's own type
      tvs  == Chk(typed \/ ~opsKnown, "expression has no recorded type (empty ExpressionTypes entry)", e.h)
           \o ChkT(~(e.k \in ModelledKinds) \/ defd \/ ~opsKnown, "operand types not admissible for the expression kind (type inference undefined)", e.h,
                   In(st, OpTy(st, e, IF e.k = "Select" THEN 2 ELSE 1)), In(st, OpTy(st, e, IF e.k = "Select" THEN 3 ELSE 2)))
           \o ChkT(~typed \/ ~defd \/ ~opsKnown \/ RecordedOk(st, e, inf), "recorded type differs from the inferred type", e.h, In(st, e.rt), In(st, inf))
           \o ChkT(~misfit, "Compose components do not fit the composed type", e.h, In(st, OpTy(st, e, 1)), Ty(st, e.ty))
      \* the type later rules use: the inferred one; the recorded one only where inference has nothing to say; none
      \* ("unknown") when the type of this expression is itself in doubt, so that what follows from it is not reported again
      ty   == IF tvs # <<>> \/ ~opsKnown THEN NoRes
              ELSE IF defd /\ inf.v.k \notin {"defer", "modf", "frexp"} THEN inf ELSE e.rt
      vs   == Chk(e.h = h, "expression arena not appended in order", e.h)
           \o Chk(e.k \in ModelledKinds, "expression kind that must not occur in a lowered module", e.h)
           \o ChkSet({o \in OpSet(e) : ~(o >= 0 /\ o < e.h)} , "operand handle refers forward or out of range")
           \o Chk(KindHandleOk(st, e, FALSE), "handle carried by the expression is out of range", e.h)
           \o Chk(~(e.k = "Literal" /\ e.lit \in {"aint", "afloat"}), "abstract literal survives", e.h)
           \o Chk(~(e.k = "As" /\ e.sk \in {"aint", "afloat"}), "cast to an abstract scalar kind survives", e.h)
           \o Chk(~typed \/ (e.rt.h >= 0 => TyIn(st, e.rt.h)), "recorded type handle out of range", e.h)
           \o Chk(~typed \/ ~IsAbstract(In(st, e.rt)), "recorded type is abstract", e.h)
           \o tvs
      st1  == [st EXCEPT !.exprs = Append(@, [k |-> e.k, ops |-> e.ops, ty |-> ty, x |-> KindX(e)]),
                         !.valid = IF e.k \in PreEmit THEN @ \cup {h} ELSE @]          \* [E] needs_pre_emit
  IN  AddBad(st1, l, vs)

\* module-scope arena: same typing, restricted kinds, no recorded types; a Constant may only name a constant whose
\* initialiser is an earlier global expression [H]
GExprStep(st, e, l) ==
  LET h   == Len(st.exprs)
      inf == Infer(st, e, TRUE)
      vs  == Chk(e.h = h, "global expression arena not appended in order", e.h)
          \o Chk(e.k \in GlobalKinds, "expression kind not admitted in the global (const/override) arena", e.h)
          \o ChkSet({o \in OpSet(e) : ~(o >= 0 /\ o < e.h)}, "global expression: operand handle refers forward or out of range")
          \o Chk(KindHandleOk(st, e, TRUE), "global expression: carried handle out of range", e.h)
          \o Chk(~(e.k = "Constant" /\ e.c >= 0 /\ e.c < Len(st.consts)) \/ st.consts[e.c + 1].init < e.h,
                 "global expression names a constant whose initialiser is not an earlier expression", e.h)
          \o Chk(~(e.k = "Literal" /\ e.lit \in {"aint", "afloat"}), "abstract literal survives (global arena)", e.h)
          \o Chk(~(e.k \in GlobalKinds) \/ inf.v.k # "undef" \/ ~KindHandleOk(st, e, TRUE)
                 \/ \E o \in OpSet(e) : ExIn(st, o) /\ In(st, ExTy(st, o)).k \in {"none", "undef"},
                 "global expression: operand types not admissible (type inference undefined)", e.h)
          \o ChkT(~(e.k = "Compose" /\ TyIn(st, e.ty) /\ (\A o \in OpSet(e) : ExIn(st, o) /\ In(st, ExTy(st, o)).k \notin {"none", "undef"}))
                   \/ ComposeFits(st, e), "global expression: Compose components do not fit the composed type", e.h, In(st, OpTy(st, e, 1)), Ty(st, e.ty))
  IN  AddBad([st EXCEPT !.exprs = Append(@, [k |-> e.k, ops |-> e.ops, ty |-> inf, x |-> -1])], l, vs)

\* end of the global arena: initialisers are in range and of the declared type
GEndStep(st, e, l) ==
  LET n  == Len(st.exprs)
      cB == {c \in 1..Len(st.consts) : ~(st.consts[c].init >= 0 /\ st.consts[c].init < n)}
      cT == {c \in 1..Len(st.consts) \ cB : ~TypeEq(st, ExTy(st, st.consts[c].init), H(st.consts[c].ty))}
      oB == {o \in 1..Len(st.overrides) : ~(st.overrides[o].init >= -1 /\ st.overrides[o].init < n)}
      oT == {o \in 1..Len(st.overrides) \ oB : st.overrides[o].init >= 0 /\ ~TypeEq(st, ExTy(st, st.overrides[o].init), H(st.overrides[o].ty))}
      gB == {g \in 1..Len(st.globals) : ~(st.globals[g].init >= -1 /\ st.globals[g].init < n)}
      gT == {g \in 1..Len(st.globals) \ gB : st.globals[g].init >= 0 /\ ~TypeEq(st, ExTy(st, st.globals[g].init), H(st.globals[g].ty))}
      dec(S) == {x - 1 : x \in S}
      vs == ChkSet(dec(cB), "constant: initialiser handle out of range")
         \o ChkSetT(cT, "constant: initialiser type differs from the constant's type",
                    LAMBDA c : In(st, ExTy(st, st.consts[c].init)), LAMBDA c : Ty(st, st.consts[c].ty))
         \o ChkSet(dec(oB), "override: initialiser handle out of range")
         \o ChkSetT(oT, "override: initialiser type differs from the override's type",
                    LAMBDA o : In(st, ExTy(st, st.overrides[o].init)), LAMBDA o : Ty(st, st.overrides[o].ty))
         \o ChkSet(dec(gB), "global variable: initialiser handle out of range")
         \o ChkSetT(gT, "global variable: initialiser type differs from the variable's type",
                    LAMBDA g : In(st, ExTy(st, st.globals[g].init)), LAMBDA g : Ty(st, st.globals[g].ty))
  IN  AddBad([st EXCEPT !.gexprs = st.exprs, !.exprs = <<>>], l, vs)

FSigsStep(st, e, l) ==
  LET bad == {f \in 1..Len(e.sigs) : \/ \E i \in 1..Len(e.sigs[f].args) : ~TyIn(st, e.sigs[f].args[i])
                                     \/ ~(e.sigs[f].res = -1 \/ TyIn(st, e.sigs[f].res))}
  IN  AddBad([st EXCEPT !.fsigs = e.sigs], l, ChkSet({f - 1 : f \in bad}, "function signature: type handle out of range"))

-----------------------------------------------------------------------------
(* Functions and entry points [I] *)

\* the bindings of the leaves of one argument / result: itself if bound, else the members of its struct type
Leaves(st, ty, b) ==
  IF b.k # "none" THEN <<b>>
  ELSE LET i == Ty(st, ty) IN IF i.k = "struct" THEN [j \in 1..Len(i.ms) |-> i.ms[j].b] ELSE <<None>>
AllBound(ls) == \A i \in 1..Len(ls) : \A j \in 1..Len(ls[i]) : ls[i][j].k # "none"
Clash(x, y)  == /\ x.k = y.k
                /\ \/ (x.k = "location" /\ x.loc = y.loc /\ x.bs = y.bs)
                   \/ (x.k = "builtin" /\ x.b = y.b)
Positions(ls) == UNION {{<<i, j>> : j \in 1..Len(ls[i])} : i \in 1..Len(ls)}
NoClash(ls)  == \A p, q \in Positions(ls) : p # q => ~Clash(ls[p[1]][p[2]], ls[q[1]][q[2]])

Frame(kind, abil, saved, live0) ==
  [kind |-> kind, abil |-> abil, saved |-> saved, live0 |-> live0, acc |-> FALSE, brk |-> FALSE, cont |-> FALSE,
   selk |-> "", vals |-> {}, ndef |-> 0, ncase |-> 0, open |-> FALSE, ft |-> FALSE, ftlive |-> FALSE]

FBeginStep(st, e, l) ==
  LET ep   == e.stage # "none"
      inL  == [i \in 1..Len(e.args) |-> Leaves(st, e.args[i].ty, e.args[i].b)]
      outL == IF e.res.ty >= 0 THEN <<Leaves(st, e.res.ty, e.res.b)>> ELSE <<>>
      vs == Chk(~st.inbody, "harness: fbegin inside a function", -1)
         \o ChkSet({i - 1 : i \in {j \in 1..Len(e.args) : ~TyIn(st, e.args[j].ty)}}, "function argument: type handle out of range")
         \o Chk(e.res.ty = -1 \/ TyIn(st, e.res.ty), "function result: type handle out of range", -1)
         \o Chk(e.nexpr = e.ntypes, "ExpressionTypes is not parallel to Expressions", -1)
         \o Chk(e.f = -1 \/ (e.f >= 0 /\ e.f < Len(st.fsigs)), "harness: function index out of range", -1)
         \o Chk(~ep \/ AllBound(inL), "entry point argument (or a member of its struct) has no binding", -1)
         \o Chk(~ep \/ AllBound(outL), "entry point result (or a member of its struct) has no binding", -1)
         \o Chk(~ep \/ NoClash(inL), "entry point inputs: two leaves share a location / builtin", -1)
         \o Chk(~ep \/ NoClash(outL), "entry point outputs: two leaves share a location / builtin", -1)
  IN  AddBad([st EXCEPT !.inbody = TRUE, !.fn = [f |-> e.f, stage |-> e.stage, args |-> e.args, res |-> e.res],
                        !.locals = <<>>, !.exprs = <<>>, !.valid = {}, !.emitted = {},
                        !.stack = <<Frame("fn", {"return"}, {}, TRUE)>>, !.live = TRUE], l, vs)

LocalStep(st, e, l) ==
  AddBad([st EXCEPT !.locals = Append(@, [ty |-> e.ty, init |-> e.init])], l,
         Chk(e.i = Len(st.locals), "local variable arena not appended in order", -1)
      \o Chk(TyIn(st, e.ty), "local variable: type handle out of range", -1))

\* after the last expression: local initialisers and named expressions name expressions of the arena
NamedStep(st, e, l) ==
  LET n  == Len(st.exprs)
      lB == {v \in 1..Len(st.locals) : ~(st.locals[v].init >= -1 /\ st.locals[v].init < n)}
      lT == {v \in 1..Len(st.locals) \ lB : st.locals[v].init >= 0 /\ Kn(st, st.locals[v].init)
                                               /\ ~TypeEq(st, ExTy(st, st.locals[v].init), H(st.locals[v].ty))}
  IN  AddBad(st, l,
         ChkSet({x - 1 : x \in lB}, "local variable: initialiser handle out of range")
      \o (IF lT = {} THEN <<>>
          ELSE LET v == MinS(lT) IN          \* reported for the initialiser expression
               ChkT(FALSE, "local variable: initialiser type differs from the variable's type", st.locals[v].init,
                    In(st, ExTy(st, st.locals[v].init)), Ty(st, st.locals[v].ty)))
      \o ChkSet({e.hs[i] : i \in 1..Len(e.hs)} \ 0..(n - 1), "named expression handle out of range"))

-----------------------------------------------------------------------------
(* Statements: emit discipline [E], control-flow context [C], typing [S], reachability [P] *)

Depth(st) == Len(st.stack)
Top(st)   == IF Depth(st) > 0 THEN st.stack[Depth(st)] ELSE Frame("none", {}, {}, TRUE)
Abil(st)  == Top(st).abil
Nearest(st, kinds) == LET S == {i \in 1..Depth(st) : st.stack[i].kind \in kinds} IN IF S = {} THEN 0 ELSE MaxS(S)
Push(st, f) == [st EXCEPT !.stack = Append(@, f)]
Pop(st)     == [st EXCEPT !.stack = SubSeq(@, 1, Len(@) - 1)]
SetTop(st, f) == [st EXCEPT !.stack[Depth(st)] = f]

UseSet(e) == {e.use[i] : i \in 1..Len(e.use)}
\* [E] every expression a statement reads is in range and in scope at that point
NotInScope == "statement operand is not in scope here (never emitted, emitted later, or emitted in a block that has ended)"
UseViol(st, e) ==
     ChkSet({h \in UseSet(e) : ~ExIn(st, h)}, "statement operand handle out of range")
  \o ChkSet({h \in UseSet(e) : ExIn(st, h) /\ h \notin st.valid}, NotInScope)
\* the same, telling what the statement's pointer points to
UseViolT(st, e, pointee) ==
  LET S == {h \in UseSet(e) : ExIn(st, h) /\ h \notin st.valid} IN
     ChkSet({h \in UseSet(e) : ~ExIn(st, h)}, "statement operand handle out of range")
  \o (IF S = {} THEN <<>> ELSE ChkT(FALSE, NotInScope, MinS(S), pointee, None))

BoolScalar(st, h) == In(st, ExTy(st, h)).k = "none" \/ In(st, ExTy(st, h)) = Bool

\* [E] a result expression enters the scope at its statement
ResultViol(st, res, kind) ==
     Chk(ExIn(st, res), "result handle out of range", res)
  \o Chk(~ExIn(st, res) \/ ExK(st, res) = kind, "statement result is not the matching result expression kind", res)
  \o Chk(res \notin st.valid, "result expression already in scope (produced twice)", res)
AddValid(st, S) == [st EXCEPT !.valid = @ \cup {h \in S : ExIn(st, h)}]

EmitStep(st, e, l) ==
  LET n   == Len(st.exprs)
      okr == e.s >= 0 /\ e.s <= e.e /\ e.e <= n
      R   == IF okr THEN e.s..(e.e - 1) ELSE {}
      pre == {h \in R : st.exprs[h + 1].k \in PreEmit}
      res == {h \in R : st.exprs[h + 1].k \in ResultKinds}
      dbl == {h \in R : h \in st.emitted}
      opb == {h \in R \ (pre \cup res) :
                \E i \in 1..Len(st.exprs[h + 1].ops) :
                   LET o == st.exprs[h + 1].ops[i] IN o \notin st.valid /\ ~(o \in R /\ o < h /\ o \notin res)}
      vs == Chk(okr, "emit range outside the expression arena", -1)
         \o ChkSet(pre, "emit range covers a pre-emit expression (literal / constant / override / zero value / argument / variable)")
         \o ChkSet(res, "emit range covers a call / atomic / workgroup-load / ray-query / subgroup result")
         \o ChkSet(dbl, "expression emitted twice (covered by more than one emit range)")
         \o ChkSet(opb, "operand of an emitted expression is not in scope at the emit")
  IN  AddBad([st EXCEPT !.valid = @ \cup (R \ res), !.emitted = @ \cup R], l, vs)

\* pointee of a pointer-typed expression: <<ok, inner of the pointee, handle or -1, space>>
Pointee(st, h) ==
  LET p == In(st, ExTy(st, h)) IN
  CASE p.k = "pointer"  -> [ok |-> TRUE, inner |-> Ty(st, p.base), res |-> H(p.base), space |-> p.space]
    [] p.k = "valueptr" -> [ok |-> TRUE, inner |-> IF p.n > 0 THEN Vector(p.n, p.sk, p.w) ELSE Scalar(p.sk, p.w),
                            res |-> V(IF p.n > 0 THEN Vector(p.n, p.sk, p.w) ELSE Scalar(p.sk, p.w)), space |-> p.space]
    [] OTHER -> [ok |-> FALSE, inner |-> None, res |-> NoRes, space |-> "none"]

StoreStep(st, e, l) ==
  LET pt == Pointee(st, e.p)
      v  == In(st, ExTy(st, e.v))
      ok == IF pt.inner.k = "atomic" THEN v = Scalar(pt.inner.sk, pt.inner.w) ELSE TypeEq(st, ExTy(st, e.v), pt.res)
  IN  AddBad(st, l, UseViolT(st, e, pt.inner)
         \o Chk(~ExIn(st, e.p) \/ ~Kn(st, e.p) \/ pt.ok, "store through an expression that is not a pointer", e.p)
         \o ChkT(~pt.ok \/ ~ExIn(st, e.v) \/ ~Kn(st, e.v) \/ ok, "stored value type differs from the pointee type", e.v, v, pt.inner))

CallStep(st, e, l) ==
  LET fin == e.f >= 0 /\ e.f < Len(st.fsigs)
      sig == IF fin THEN st.fsigs[e.f + 1] ELSE [args |-> <<>>, res |-> -1]
      badArgs == IF fin /\ Len(e.args) = Len(sig.args)
                 THEN {i \in 1..Len(e.args) : ExIn(st, e.args[i]) /\ Kn(st, e.args[i]) /\ ~TypeEq(st, ExTy(st, e.args[i]), H(sig.args[i]))} ELSE {}
      vs == UseViol(st, e)
         \o Chk(fin, "call: function handle out of range", -1)
         \o Chk(~fin \/ Len(e.args) = Len(sig.args), "call: argument count differs from the callee's parameter count", -1)
         \o (IF badArgs = {} THEN <<>>
             ELSE LET i == MinS(badArgs) IN
                  ChkT(FALSE, "call: argument type differs from the parameter type", e.args[i], In(st, ExTy(st, e.args[i])), Ty(st, sig.args[i])))
         \o Chk(~fin \/ (e.res >= 0) = (sig.res >= 0), "call: result expression present iff the callee returns a value", -1)
         \o (IF e.res >= 0 THEN ResultViol(st, e.res, "CallResult")
                             \o Chk(~(ExK(st, e.res) = "CallResult") \/ st.exprs[e.res + 1].x = e.f,
                                    "call: result expression names a different function", e.res)
             ELSE <<>>)
  IN  AddBad(AddValid(st, IF e.res >= 0 THEN {e.res} ELSE {}), l, vs)

AtomicStep(st, e, l) ==
  LET pt   == Pointee(st, e.p)
      isAt == pt.ok /\ pt.inner.k = "atomic"
      sc   == IF isAt THEN Scalar(pt.inner.sk, pt.inner.w) ELSE None
      rty  == In(st, ExTy(st, e.res))
      resOk == IF e.cmp >= 0
               THEN rty.k = "struct" /\ Len(rty.ms) = 2 /\ Ty(st, rty.ms[1].ty) = sc /\ Ty(st, rty.ms[2].ty) = Bool
               ELSE rty = sc
      vs == UseViol(st, e)
         \o Chk(~ExIn(st, e.p) \/ ~Kn(st, e.p) \/ isAt, "atomic: pointer does not point to an atomic type", e.p)
         \o Chk(~isAt \/ e.fun = "load" \/ ~ExIn(st, e.v) \/ ~Kn(st, e.v) \/ In(st, ExTy(st, e.v)) = sc, "atomic: value type differs from the atomic's scalar type", e.v)
         \o Chk(~isAt \/ e.cmp < 0 \/ ~ExIn(st, e.cmp) \/ ~Kn(st, e.cmp) \/ In(st, ExTy(st, e.cmp)) = sc, "atomic: comparand type differs from the atomic's scalar type", e.cmp)
         \o Chk(~(e.fun = "store") \/ e.res < 0, "atomic store has a result", -1)
         \o Chk(~(e.fun \in {"load", "exchange"}) \/ e.res >= 0, "atomic load / exchange without a result expression", -1)
         \o (IF e.res >= 0 THEN ResultViol(st, e.res, "AtomicResult")
                             \o Chk(~isAt \/ ~(ExK(st, e.res) = "AtomicResult") \/ resOk, "atomic: result type differs from the atomic's scalar (or compare-exchange result struct)", e.res)
                             \o Chk(~(ExK(st, e.res) = "AtomicResult") \/ (st.exprs[e.res + 1].x = 1) = (e.cmp >= 0),
                                    "atomic: result 'comparison' flag does not match the operation", e.res)
             ELSE <<>>)
  IN  AddBad(AddValid(st, IF e.res >= 0 THEN {e.res} ELSE {}), l, vs)

WgLoadStep(st, e, l) ==
  LET pt == Pointee(st, e.p)
      vs == UseViol(st, e)
         \o Chk(~ExIn(st, e.p) \/ ~Kn(st, e.p) \/ (pt.ok /\ pt.space = "workgroup"), "workgroupUniformLoad: pointer is not a workgroup pointer", e.p)
         \o ResultViol(st, e.res, "WorkGroupUniformLoadResult")
         \o Chk(~pt.ok \/ ~ExIn(st, e.res) \/ TypeEq(st, ExTy(st, e.res), pt.res),
                "workgroupUniformLoad: recorded result type differs from the pointee type", e.res)
  IN  AddBad(AddValid(st, {e.res}), l, vs)

ImageStoreStep(st, e, l) ==
  LET img == In(st, ExTy(st, e.img))
      fs  == IF img.k = "image" /\ img.class = "storage" THEN FormatScalar(img.fmt) ELSE None
      vs == UseViol(st, e)
         \o Chk(~ExIn(st, e.img) \/ fs.k = "scalar", "image store: image is not a storage image", e.img)
         \o Chk(fs.k # "scalar" \/ ~ExIn(st, e.v) \/ ~Kn(st, e.v) \/ In(st, ExTy(st, e.v)) = Vector(4, fs.sk, fs.w),
                "image store: value is not a 4-vector of the texel format's scalar type", e.v)
  IN  AddBad(st, l, vs)

RayQueryStep(st, e, l) ==
  IF e.res >= 0
  THEN AddBad(AddValid(st, {e.res}), l, UseViol(st, e) \o ResultViol(st, e.res, "RayQueryProceedResult"))
  ELSE AddBad(st, l, UseViol(st, e))

SubgroupStep(st, e, l) ==
  LET kind == IF e.what = "ballot" THEN "SubgroupBallotResult" ELSE "SubgroupOperationResult"
      vs == UseViol(st, e) \o ResultViol(st, e.res, kind)
         \o Chk(e.what = "ballot" \/ ~ExIn(st, e.res) \/ ~ExIn(st, e.arg) \/ TypeEq(st, ExTy(st, e.res), ExTy(st, e.arg)),
                "subgroup operation: result type differs from the argument type", e.res)
  IN  AddBad(AddValid(st, {e.res}), l, vs)

ReturnStep(st, e, l) ==
  LET hasRes == st.fn.res.ty >= 0
      vs == UseViol(st, e)
         \o Chk("return" \in Abil(st), "return inside a continuing block", -1)
         \o Chk(e.v < 0 \/ hasRes, "return with a value in a function without result", e.v)
         \o ChkT(e.v < 0 \/ ~hasRes \/ ~ExIn(st, e.v) \/ ~Kn(st, e.v) \/ TypeEq(st, ExTy(st, e.v), H(st.fn.res.ty)),
                 "returned value type differs from the function result type", e.v, In(st, ExTy(st, e.v)), Ty(st, st.fn.res.ty))
         \o Chk(~(e.v < 0 /\ hasRes /\ st.live), "reachable return without a value in a function with a result", -1)
  IN  AddBad([st EXCEPT !.live = FALSE], l, vs)

KillStep(st, e, l) ==
  AddBad([st EXCEPT !.live = FALSE], l, Chk("return" \in Abil(st), "kill inside a continuing block", -1))

BreakStep(st, e, l) ==
  LET can == "break" \in Abil(st)
      t   == Nearest(st, {"loop_body", "switch"})
      st1 == IF can /\ t > 0 THEN [st EXCEPT !.stack[t].brk = @ \/ st.live] ELSE st
  IN  AddBad([st1 EXCEPT !.live = FALSE], l, Chk(can, "break outside of a loop body or switch case", -1))

ContinueStep(st, e, l) ==
  LET can == "continue" \in Abil(st)
      t   == Nearest(st, {"loop_body"})
      st1 == IF can /\ t > 0 THEN [st EXCEPT !.stack[t].cont = @ \/ st.live] ELSE st
  IN  AddBad([st1 EXCEPT !.live = FALSE], l, Chk(can, "continue outside of a loop body", -1))

\* structure events that do not match the open construct are a defect of the event extractor, not of naga
Mismatch(st, l, what) == AddBad(st, l, <<[rule |-> "harness: " \o what, h |-> -1, x |-> NoX]>>)

BlockStep(st, e, l) == Push(st, Frame("block", Abil(st), st.valid, st.live))
EndBlockStep(st, e, l) ==
  IF Top(st).kind # "block" THEN Mismatch(st, l, "end_block without block")
  ELSE Pop([st EXCEPT !.valid = Top(st).saved])                        \* [E] block scoping

IfStep(st, e, l) ==
  AddBad(Push(st, Frame("if_accept", Abil(st), st.valid, st.live)), l,
         UseViol(st, e) \o Chk(~ExIn(st, e.c) \/ BoolScalar(st, e.c), "if condition is not a bool scalar", e.c))
ElseStep(st, e, l) ==
  IF Top(st).kind # "if_accept" THEN Mismatch(st, l, "else without if")
  ELSE [SetTop(st, [Top(st) EXCEPT !.kind = "if_reject", !.acc = st.live]) EXCEPT !.valid = Top(st).saved, !.live = Top(st).live0]
EndIfStep(st, e, l) ==
  IF Top(st).kind # "if_reject" THEN Mismatch(st, l, "end_if without else")
  ELSE Pop([st EXCEPT !.valid = Top(st).saved, !.live = Top(st).acc \/ st.live])

LoopStep(st, e, l) == Push(st, Frame("loop_body", Abil(st) \cup {"break", "continue"}, st.valid, st.live))
ContinuingStep(st, e, l) ==
  IF Top(st).kind # "loop_body" THEN Mismatch(st, l, "continuing without loop")
  ELSE \* the continuing block inherits the body's scope and has no control-flow abilities
       [SetTop(st, [Top(st) EXCEPT !.kind = "loop_cont", !.abil = {}]) EXCEPT !.live = st.live \/ Top(st).cont]
EndLoopStep(st, e, l) ==
  IF Top(st).kind # "loop_cont" THEN Mismatch(st, l, "end_loop without continuing")
  ELSE AddBad(Pop([st EXCEPT !.valid = Top(st).saved, !.live = Top(st).brk \/ (e.bi >= 0 /\ st.live)]), l,
              UseViol(st, e) \o Chk(e.bi < 0 \/ ~ExIn(st, e.bi) \/ BoolScalar(st, e.bi), "break_if condition is not a bool scalar", e.bi))

SwitchStep(st, e, l) ==
  LET s  == In(st, ExTy(st, e.sel))
      ok == s.k = "none" \/ (s.k = "scalar" /\ s.sk \in {"sint", "uint"})
      f  == [Frame("switch", (Abil(st) \cap {"return", "continue"}) \cup {"break"}, st.valid, st.live)
               EXCEPT !.selk = IF ok /\ s.k = "scalar" THEN s.sk ELSE ""]
  IN  AddBad(Push(st, f), l, UseViol(st, e) \o Chk(~ExIn(st, e.sel) \/ ok, "switch selector is not an i32 / u32 scalar", e.sel))
CaseStep(st, e, l) ==
  LET t == Top(st) IN
  IF t.kind # "switch" \/ t.open THEN Mismatch(st, l, "case outside switch")
  ELSE LET val == <<e.vk, e.v>>
           vs  == Chk(e.vk \in {"default", "sint", "uint"}, "switch case value of unknown kind", -1)
               \o Chk(e.vk = "default" \/ t.selk = "" \/ e.vk = t.selk, "switch case value type differs from the selector type", -1)
               \o Chk(e.vk = "default" \/ val \notin t.vals, "switch case value appears twice", -1)
           t1  == [t EXCEPT !.open = TRUE, !.ft = (e.ft = 1), !.ncase = @ + 1,
                            !.ndef = IF e.vk = "default" THEN @ + 1 ELSE @,
                            !.vals = IF e.vk = "default" THEN @ ELSE @ \cup {val}]
       IN  AddBad([SetTop(st, t1) EXCEPT !.live = t.live0 \/ t.ftlive], l, vs)
EndCaseStep(st, e, l) ==
  LET t == Top(st) IN
  IF t.kind # "switch" \/ ~t.open THEN Mismatch(st, l, "end_case without case")
  ELSE [SetTop(st, [t EXCEPT !.open = FALSE, !.ftlive = t.ft /\ st.live, !.acc = @ \/ (~t.ft /\ st.live)]) EXCEPT !.valid = t.saved]
EndSwitchStep(st, e, l) ==
  LET t == Top(st) IN
  IF t.kind # "switch" \/ t.open THEN Mismatch(st, l, "end_switch without switch")
  ELSE AddBad(Pop([st EXCEPT !.valid = t.saved, !.live = t.acc \/ t.brk \/ t.ftlive \/ (t.ndef = 0 /\ t.live0)]), l,
              Chk(t.ndef = 1, "switch does not have exactly one default case", -1)
           \o Chk(~t.ft, "last switch case falls through", -1))

FEndStep(st, e, l) ==
  AddBad([st EXCEPT !.inbody = FALSE, !.stack = <<>>], l,
         Chk(Depth(st) = 1 /\ Top(st).kind = "fn", "harness: unbalanced statement structure at function end", -1)
      \o Chk(~(st.fn.res.ty >= 0 /\ st.live), "function with a result can reach its end without returning a value", -1))

ValidateStep(st, e, l) == AddBad(st, l, Chk(e.n = 0, "ir.Validate reports errors on the lowered module", -1))

-----------------------------------------------------------------------------
ResetStep(st, e, l) == [Init0 EXCEPT !.bad = st.bad]

Apply(st, e, l) ==
  LET v == e.ev IN
  CASE v = "reset"      -> ResetStep(st, e, l)
    [] v = "type"       -> TypeStep(st, e, l)
    [] v = "special"    -> SpecialStep(st, e, l)
    [] v = "const"      -> ConstStep(st, e, l)
    [] v = "override"   -> OverrideStep(st, e, l)
    [] v = "global"     -> GlobalStep(st, e, l)
    [] v = "gexpr"      -> GExprStep(st, e, l)
    [] v = "gend"       -> GEndStep(st, e, l)
    [] v = "fsigs"      -> FSigsStep(st, e, l)
    [] v = "fbegin"     -> FBeginStep(st, e, l)
    [] v = "local"      -> LocalStep(st, e, l)
    [] v = "expr"       -> ExprStep(st, e, l)
    [] v = "named"      -> NamedStep(st, e, l)
    [] v = "emit"       -> EmitStep(st, e, l)
    [] v = "block"      -> BlockStep(st, e, l)
    [] v = "end_block"  -> EndBlockStep(st, e, l)
    [] v = "if"         -> IfStep(st, e, l)
    [] v = "else"       -> ElseStep(st, e, l)
    [] v = "end_if"     -> EndIfStep(st, e, l)
    [] v = "loop"       -> LoopStep(st, e, l)
    [] v = "continuing" -> ContinuingStep(st, e, l)
    [] v = "end_loop"   -> EndLoopStep(st, e, l)
    [] v = "switch"     -> SwitchStep(st, e, l)
    [] v = "case"       -> CaseStep(st, e, l)
    [] v = "end_case"   -> EndCaseStep(st, e, l)
    [] v = "end_switch" -> EndSwitchStep(st, e, l)
    [] v = "break"      -> BreakStep(st, e, l)
    [] v = "continue"   -> ContinueStep(st, e, l)
    [] v = "return"     -> ReturnStep(st, e, l)
    [] v = "kill"       -> KillStep(st, e, l)
    [] v = "store"      -> StoreStep(st, e, l)
    [] v = "call"       -> CallStep(st, e, l)
    [] v = "atomic"     -> AtomicStep(st, e, l)
    [] v = "wgload"     -> WgLoadStep(st, e, l)
    [] v = "imagestore" -> ImageStoreStep(st, e, l)
    [] v = "rayquery"   -> RayQueryStep(st, e, l)
    [] v = "subgroup"   -> SubgroupStep(st, e, l)
    [] v \in {"barrier", "imageatomic"} -> AddBad(st, l, UseViol(st, e))
    [] v = "fend"       -> FEndStep(st, e, l)
    [] v = "validate"   -> ValidateStep(st, e, l)
    [] v = "mend"       -> st
    [] OTHER            -> Mismatch(st, l, "unknown event")

\* a whole event sequence (used by the design-level model)
RECURSIVE ApplyAll(_, _, _)
ApplyAll(st, evs, l) == IF evs = <<>> THEN st ELSE ApplyAll(Apply(st, Head(evs), l), Tail(evs), l + 1)
=============================================================================
