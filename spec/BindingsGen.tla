---------------------------- MODULE BindingsGen ----------------------------
(***************************************************************************)
(* The module builder as a state machine.  A behaviour declares globals,   *)
(* then helper functions, then entry points (parameters, result, the       *)
(* globals used directly, texture-sampler pairs, helpers called) and       *)
(* finishes by printing the module interface description as one JSON line. *)
(* TLC enumerates the machine exhaustively at small bounds and by seeded    *)
(* random walks (-simulate -seed VERIF_SEED) at larger ones.  The harness   *)
(* renders each printed description as WGSL text, compiles it with the     *)
(* real naga and lets TLC judge the observed artefacts against             *)
(* Bindings!Exp (BindingsTrace.tla).                                       *)
(*                                                                         *)
(* The ORDER in which the attributes of a declaration are written (@group /  *)
(* @binding; @builtin / @invariant; @location / @blend_src / @interpolate)  *)
(* is a generator choice too (field rev); no rule of Bindings.tla reads it. *)
(*                                                                         *)
(* Exactly one attribute argument per module (the oddAt-th one, counted in *)
(* declaration order) may be spelled in a form other than a plain decimal  *)
(* literal, so that a misreading of that form is attributable.             *)
(*                                                                         *)
(* Invariant checked by TLC on every reachable state: every finished       *)
(* module is WellFormed (Bindings.tla) - the generator itself is model-    *)
(* checked to produce only valid WGSL interfaces.                          *)
(***************************************************************************)
EXTENDS Bindings, Json

CONSTANTS Budgets,      \* set of [g, h, e, p, m, u]: upper bounds of one behaviour on the number of globals, helpers,
                        \* entry points, parameters per entry point, members per IO struct, uses+pairs+calls per function
          Kinds,        \* kinds of globals that may be declared
          Groups, Binds, \* @group / @binding values
          Stages,
          Builtins,     \* the @builtin values that may be used
          Locs,         \* @location values
          LocTys,       \* sequence of types of @location IO (location n of entry point k has type LocTys[(n + k) mod Len])
          Interps,      \* <<interp, sampling>> choices for interpolated float IO
          OddAts,       \* which attribute occurrence is spelled oddly (0 = none)
          Forms,        \* the odd spellings
          WgSizes,      \* workgroup sizes <<x, y, z, n>> (n = number of arguments written)
          Orders,       \* attribute orders that may be written (subset of BOOLEAN; FALSE = @group @binding, @builtin @invariant,
                        \* @location @blend_src @interpolate; TRUE = the reverse order) - WGSL gives the order no meaning
          Rand          \* FALSE: every choice is enumerated (exhaustive runs); TRUE: data choices (kind, group, binding, IO,
                        \* use) are drawn with RandomElement, seeded by -seed, and only the structure is branched on

VARIABLES globals, helpers, eps, cur, phase, attrN, oddAt, oddForm, budget
vars == <<globals, helpers, eps, cur, phase, attrN, oddAt, oddForm, budget>>

\* the candidates of a data choice
\* (TLC evaluates constant-level expressions once: the argument must mention a variable, hence Dyn)
Choose(X) == IF Rand /\ X # {} THEN {RandomElement(X)} ELSE X
Dyn(X) == {x \in X : attrN >= 0}
\* one of two classes of candidates with equal probability, then uniformly inside the class
Choose2(A, B) == IF ~Rand THEN A \cup B
                 ELSE IF A = {} THEN Choose(B) ELSE IF B = {} THEN Choose(A)
                 ELSE IF RandomElement({0, 1}) = 0 THEN Choose(A) ELSE Choose(B)

MaxGlobals == budget.g  MaxHelpers == budget.h  MaxEntries == budget.e
MaxParams == budget.p   MaxMembers == budget.m  MaxUses == budget.u

L == <<"A", "B", "C", "D", "E", "F", "G", "H", "I", "J", "K", "L", "M", "N", "O", "P", "Q", "R", "S", "T">>

NoParam == [kind |-> "none", sname |-> "", ios |-> <<>>]
NoEntry == [name |-> "", stage |-> "", wg |-> <<1, 1, 1>>, wgn |-> 1, wgforms |-> <<"plain", "plain", "plain">>,
            params |-> <<>>, result |-> NoParam, uses |-> <<>>, pairs |-> <<>>, calls |-> <<>>]

Init == /\ globals = <<>> /\ helpers = <<>> /\ eps = <<>> /\ cur = NoEntry /\ phase = "globals" /\ attrN = 0
        /\ budget \in Budgets
        /\ oddAt \in OddAts
        /\ oddForm \in (IF oddAt = 0 THEN {"plain"} ELSE Forms)

\* spelling of the i-th attribute argument written from now on
FormAt(i) == IF attrN + i = oddAt THEN oddForm ELSE "plain"

M == [globals |-> globals, helpers |-> helpers, eps |-> eps]

\* ---------------------------------------------------------------- globals
AddGlobal(kind, g, b, rv) ==
  /\ phase = "globals" /\ Len(globals) < MaxGlobals
  /\ LET res == kind \notin {"workgroup", "private"} IN
     /\ globals' = Append(globals, [name |-> "res" \o L[Len(globals) + 1], kind |-> kind,
                                    group |-> IF res THEN g ELSE 0, binding |-> IF res THEN b ELSE 0,
                                    gform |-> IF res THEN FormAt(1) ELSE "plain", bform |-> IF res THEN FormAt(2) ELSE "plain",
                                    rev |-> res /\ rv])
     /\ attrN' = IF res THEN attrN + 2 ELSE attrN
  /\ UNCHANGED <<helpers, eps, cur, phase, oddAt, oddForm, budget>>

EndGlobals == /\ phase = "globals" /\ Len(globals) >= MaxGlobals /\ phase' = "helpers" /\ UNCHANGED <<globals, helpers, eps, cur, attrN, oddAt, oddForm, budget>>

\* ---------------------------------------------------------------- function bodies (helpers and entry points)
\* a texture may be sampled with a plain sampler (tex2d, texdepth) or a comparison sampler (texdepth)
PairOK(t, s) == \/ (globals[t].kind \in {"tex2d", "texdepth"} /\ globals[s].kind = "sampler")
                \/ (globals[t].kind = "texdepth" /\ globals[s].kind = "sampler_cmp")

\* what a function with the given uses / pairs / calls reaches
ReachOf(f) == Reach([globals |-> globals, helpers |-> helpers, eps |-> <<>>], f)

\* validity of a body for a stage ("" = helper: checked again at each caller): resources reached have distinct
\* (group, binding); workgroup variables only in compute; samplers only as part of pairs
BodyOK(f, stage) ==
  LET r == ReachOf(f) IN
  /\ \A a, b \in r : (a # b /\ IsRes(globals[a]) /\ IsRes(globals[b])) =>
        ~(globals[a].group = globals[b].group /\ globals[a].binding = globals[b].binding)
  /\ (stage \in {"vertex", "fragment"} => \A a \in r : globals[a].kind # "workgroup")

Size(f) == Len(f.uses) + Len(f.pairs) + Len(f.calls)
Last(s, d) == IF s = <<>> THEN d ELSE s[Len(s)]

\* uses / pairs / calls are added in increasing order (one canonical order per set)
CanUse(f, g)     == (Rand \/ (f.pairs = <<>> /\ f.calls = <<>>)) /\ g > Last(f.uses, 0)
                    /\ Class(globals[g].kind) # "sampler"
CanPair(f, t, s) == (Rand \/ f.calls = <<>>) /\ PairOK(t, s)
                    /\ (f.pairs = <<>> \/ Last(f.pairs, <<0, 0>>)[1] < t \/ (Last(f.pairs, <<0, 0>>)[1] = t /\ Last(f.pairs, <<0, 0>>)[2] < s))
CanCall(f, h)    == h > Last(f.calls, 0)

NewHelper == [name |-> "help" \o L[Len(helpers) + 1], uses |-> <<>>, pairs |-> <<>>, calls |-> <<>>]

BeginHelper == /\ phase = "helpers" /\ Len(helpers) < MaxHelpers
               /\ cur' = [NoEntry EXCEPT !.name = NewHelper.name] /\ phase' = "hbody"
               /\ UNCHANGED <<globals, helpers, eps, attrN, oddAt, oddForm, budget>>

\* the bodies that extend the current one by one use, pair or call
BodyNext(stage) ==
  {b \in {[cur EXCEPT !.uses = Append(@, g)] : g \in {x \in DOMAIN globals : CanUse(cur, x)}}
         \cup {[cur EXCEPT !.pairs = Append(@, ts)] : ts \in {x \in (DOMAIN globals) \X (DOMAIN globals) : CanPair(cur, x[1], x[2])}}
         \cup {[cur EXCEPT !.calls = Append(@, h)] : h \in {x \in DOMAIN helpers : CanCall(cur, x)}}
     : BodyOK(b, stage)}
\* (random runs: the class - use, pair or call - is drawn first, so that pairs and calls are not crowded out)
BodyPick(X) == IF ~Rand THEN X
               ELSE LET c == RandomElement({n \in 1 .. 3 : \E b \in X : (n = 1 /\ b.uses # cur.uses) \/ (n = 2 /\ b.pairs # cur.pairs) \/ (n = 3 /\ b.calls # cur.calls)})
                    IN Choose({b \in X : (c = 1 /\ b.uses # cur.uses) \/ (c = 2 /\ b.pairs # cur.pairs) \/ (c = 3 /\ b.calls # cur.calls)})
BodyStep(stage) == /\ Size(cur) < MaxUses /\ BodyNext(stage) # {} /\ \E b \in BodyPick(BodyNext(stage)) : cur' = b
BodyDone(stage) == Size(cur) >= MaxUses \/ BodyNext(stage) = {}

HelperBody == /\ phase = "hbody" /\ BodyStep("") /\ UNCHANGED <<globals, helpers, eps, phase, attrN, oddAt, oddForm, budget>>

EndHelper == /\ phase = "hbody" /\ BodyDone("")
             /\ helpers' = Append(helpers, [name |-> cur.name, uses |-> cur.uses, pairs |-> cur.pairs, calls |-> cur.calls])
             /\ cur' = NoEntry /\ phase' = "helpers"
             /\ UNCHANGED <<globals, eps, attrN, oddAt, oddForm, budget>>

EndHelpers == /\ phase = "helpers" /\ Len(helpers) >= MaxHelpers /\ phase' = "entries" /\ UNCHANGED <<globals, helpers, eps, cur, attrN, oddAt, oddForm, budget>>

\* ---------------------------------------------------------------- entry points
BuiltinsFor(stage, dir) ==
  CASE stage = "vertex"   /\ dir = "in"  -> {"vertex_index", "instance_index"}
    [] stage = "vertex"   /\ dir = "out" -> {"position"}
    [] stage = "fragment" /\ dir = "in"  -> {"position", "front_facing", "sample_index", "sample_mask"}
    [] stage = "fragment" /\ dir = "out" -> {"frag_depth", "sample_mask"}
    [] stage = "compute"  /\ dir = "in"  -> {"local_invocation_id", "local_invocation_index", "global_invocation_id", "workgroup_id", "num_workgroups"}
    [] OTHER -> {}

BuiltinTy(b) == CASE b = "position" -> "vec4f" [] b = "front_facing" -> "bool" [] b = "frag_depth" -> "f32"
                  [] b \in {"local_invocation_id", "global_invocation_id", "workgroup_id", "num_workgroups"} -> "vec3u"
                  [] OTHER -> "u32"

\* IOs of the entry point under construction, per direction
CurIns  == InIOs(cur)
CurOuts == OutIOs(cur)
Taken(dir) == IF dir = "in" THEN Range(CurIns) ELSE Range(CurOuts)
NameOf(dir) == IF dir = "in" THEN "qin" \o L[Len(CurIns) + 1] ELSE "qout" \o L[Len(CurOuts) + 1]

MkBuiltin(dir, b, inv) ==
  [name |-> NameOf(dir), ty |-> BuiltinTy(b), b |-> "builtin", builtin |-> b, loc |-> 0, lform |-> "plain",
   interp |-> "none", sampling |-> "none", invariant |-> inv, blend |-> -1, blform |-> "plain", rev |-> FALSE]
MkLoc(dir, n, ty, ip, bl) ==
  [name |-> NameOf(dir), ty |-> ty, b |-> "location", builtin |-> "", loc |-> n, lform |-> FormAt(1),
   interp |-> ip[1], sampling |-> ip[2], invariant |-> FALSE, blend |-> bl, blform |-> IF bl >= 0 THEN FormAt(2) ELSE "plain", rev |-> FALSE]

\* the orders in which the attributes of an IO may be written: only an IO with a second attribute has two
OrdersOf(io) == IF io.invariant \/ io.blend >= 0 \/ io.interp # "none" THEN Orders ELSE {FALSE}
WithOrders(X) == UNION {{[io EXCEPT !.rev = r] : r \in OrdersOf(io)} : io \in X}

LocTy(n) == LocTys[((n + Len(eps)) % Len(LocTys)) + 1]

InterpsFor(stage, dir, ty) ==
  IF ~Interpolated(stage, dir) THEN {<<"none", "none">>}
  ELSE IF ScalarKind(ty) = "float" THEN Interps
  ELSE {<<"flat", "none">>, <<"none", "none">>} \cap (Interps \cup {<<"flat", "none">>})

\* the IOs that may be added in direction dir (no builtin twice, no location twice; fragment outputs: f32 / i32 / u32
\* based types at locations 0 .. 7; @blend_src members are added as a pair, see AddBlendPair)
HasBlend == \E io \in Range(CurOuts) : io.blend >= 0
IOChoices(dir) ==
  {MkBuiltin(dir, b, inv) : b \in {x \in BuiltinsFor(cur.stage, dir) \cap (Builtins \cup (IF cur.stage = "vertex" /\ dir = "out" THEN {"position"} ELSE {})) : ~\E io \in Taken(dir) : io.b = "builtin" /\ io.builtin = x},
                            inv \in BOOLEAN}
  \cup UNION {{MkLoc(dir, n, LocTy(n), ip, -1) : ip \in InterpsFor(cur.stage, dir, LocTy(n))}
              : n \in {x \in Locs : ~\E io \in Taken(dir) : io.b = "location" /\ io.loc = x}}

ValidIO(dir, io) ==
  /\ (io.invariant => io.builtin = "position")
  /\ (io.b = "location" => <<io.interp, io.sampling>> \in InterpsFor(cur.stage, dir, io.ty))
  /\ ((io.b = "location" /\ cur.stage = "fragment" /\ dir = "out") => (io.loc < 8 /\ ~HasBlend))
  /\ (cur.stage = "compute" => io.b = "builtin")

IOSet(dir) == WithOrders({io \in IOChoices(dir) : ValidIO(dir, io)})
IOPick(X) == Choose2({io \in X : io.b = "builtin"}, {io \in X : io.b = "location"})

AttrCount(io) == IF io.b = "location" THEN (IF io.blend >= 0 THEN 2 ELSE 1) ELSE 0

BeginEntry(stage, w) ==
  /\ phase = "entries" /\ Len(eps) < MaxEntries
  /\ cur' = [NoEntry EXCEPT !.name = "ent" \o L[Len(eps) + 1], !.stage = stage,
             !.wg = <<w[1], w[2], w[3]>>, !.wgn = IF stage = "compute" THEN w[4] ELSE 1,
             !.wgforms = IF stage = "compute" THEN [i \in 1 .. 3 |-> IF i <= w[4] THEN FormAt(i) ELSE "plain"] ELSE <<"plain", "plain", "plain">>]
  /\ attrN' = IF stage = "compute" THEN attrN + w[4] ELSE attrN
  /\ phase' = "params"
  /\ UNCHANGED <<globals, helpers, eps, oddAt, oddForm, budget>>

AddBare == /\ phase = "params" /\ Len(cur.params) < MaxParams
           /\ \E io \in IOPick(IOSet("in")) :
                 /\ cur' = [cur EXCEPT !.params = Append(@, [kind |-> "bare", sname |-> "", ios |-> <<io>>])]
                 /\ attrN' = attrN + AttrCount(io)
           /\ UNCHANGED <<globals, helpers, eps, phase, oddAt, oddForm, budget>>

BeginStruct == /\ phase = "params" /\ Len(cur.params) < MaxParams /\ MaxMembers > 0
               /\ cur' = [cur EXCEPT !.params = Append(@, [kind |-> "struct", sname |-> "StIn" \o L[Len(eps) + 1] \o L[Len(cur.params) + 1], ios |-> <<>>])]
               /\ phase' = "members"
               /\ UNCHANGED <<globals, helpers, eps, attrN, oddAt, oddForm, budget>>

AddMember == /\ phase = "members" /\ Len(Last(cur.params, NoParam).ios) < MaxMembers
             /\ \E io \in IOPick(IOSet("in")) :
                   /\ cur' = [cur EXCEPT !.params[Len(cur.params)].ios = Append(@, io)]
                   /\ attrN' = attrN + AttrCount(io)
             /\ UNCHANGED <<globals, helpers, eps, phase, oddAt, oddForm, budget>>

EndStruct == /\ phase = "members" /\ Last(cur.params, NoParam).ios # <<>>
             /\ (Len(Last(cur.params, NoParam).ios) >= MaxMembers \/ IOSet("in") = {})
             /\ phase' = "params"
             /\ UNCHANGED <<globals, helpers, eps, cur, attrN, oddAt, oddForm, budget>>

EndParams == /\ phase = "params" /\ (Len(cur.params) >= MaxParams \/ IOSet("in") = {}) /\ phase' = IF cur.stage = "compute" THEN "body" ELSE "result"
             /\ UNCHANGED <<globals, helpers, eps, cur, attrN, oddAt, oddForm, budget>>

\* result: none (fragment only), bare, or a struct
BareResult == /\ phase = "result" /\ cur.result.kind = "none"
              /\ \E io \in IOPick({x \in IOSet("out") : cur.stage = "vertex" => x.builtin = "position"}) :
                    /\ cur' = [cur EXCEPT !.result = [kind |-> "bare", sname |-> "", ios |-> <<io>>]]
                    /\ attrN' = attrN + AttrCount(io)
              /\ phase' = "body"
              /\ UNCHANGED <<globals, helpers, eps, oddAt, oddForm, budget>>

BeginStructResult == /\ phase = "result" /\ cur.result.kind = "none" /\ MaxMembers > 0
                     /\ cur' = [cur EXCEPT !.result = [kind |-> "struct", sname |-> "StOut" \o L[Len(eps) + 1], ios |-> <<>>]]
                     /\ phase' = "rmembers"
                     /\ UNCHANGED <<globals, helpers, eps, attrN, oddAt, oddForm, budget>>

AddResultMember == /\ phase = "rmembers" /\ Len(cur.result.ios) < MaxMembers
                   /\ \E io \in IOPick(IOSet("out")) :
                         /\ cur' = [cur EXCEPT !.result.ios = Append(@, io)]
                         /\ attrN' = attrN + AttrCount(io)
                   /\ UNCHANGED <<globals, helpers, eps, phase, oddAt, oddForm, budget>>

\* dual-source blending: @location(0) @blend_src(0) and @location(0) @blend_src(1), same type, no other locations
AddBlendPair == /\ phase = "rmembers" /\ cur.stage = "fragment" /\ Len(cur.result.ios) + 2 <= MaxMembers
                /\ ~\E io \in Range(CurOuts) : io.b = "location"
                /\ 0 \in Locs
                /\ LET a == MkLoc("out", 0, "vec4f", <<"none", "none">>, 0)
                       b == [MkLoc("out", 0, "vec4f", <<"none", "none">>, 1) EXCEPT !.name = "qout" \o L[Len(CurOuts) + 2],
                             !.lform = FormAt(3), !.blform = FormAt(4)]
                   IN \E ra \in Choose(Dyn(Orders)), rb \in Choose(Dyn(Orders)) :
                        cur' = [cur EXCEPT !.result.ios = @ \o <<[a EXCEPT !.rev = ra], [b EXCEPT !.rev = rb]>>]
                /\ attrN' = attrN + 4
                /\ UNCHANGED <<globals, helpers, eps, phase, oddAt, oddForm, budget>>

\* a vertex result must carry @builtin(position): appended here when the members chosen so far lack it
EndStructResult ==
  /\ phase = "rmembers"
  /\ (Len(cur.result.ios) >= MaxMembers \/ IOSet("out") = {} \/ (~Rand /\ cur.result.ios # <<>>))
  /\ LET needPos == cur.stage = "vertex" /\ ~\E io \in Range(CurOuts) : io.builtin = "position" IN
     IF needPos THEN \E inv \in Choose(Dyn(BOOLEAN)), rv \in Choose(Dyn(Orders)) :
                       cur' = [cur EXCEPT !.result.ios = Append(@, [MkBuiltin("out", "position", inv) EXCEPT !.rev = inv /\ rv])]
     ELSE cur.result.ios # <<>> /\ cur' = cur
  /\ phase' = "body"
  /\ UNCHANGED <<globals, helpers, eps, attrN, oddAt, oddForm, budget>>

NoResult == /\ phase = "result" /\ cur.stage = "fragment" /\ phase' = "body"
            /\ UNCHANGED <<globals, helpers, eps, cur, attrN, oddAt, oddForm, budget>>

EntryBody == /\ phase = "body" /\ BodyStep(cur.stage) /\ UNCHANGED <<globals, helpers, eps, phase, attrN, oddAt, oddForm, budget>>

EndEntry == /\ phase = "body" /\ BodyDone(cur.stage)
            /\ eps' = Append(eps, cur) /\ cur' = NoEntry /\ phase' = "entries"
            /\ UNCHANGED <<globals, helpers, attrN, oddAt, oddForm, budget>>

\* ---------------------------------------------------------------- finish
Finish == /\ phase = "entries" /\ Len(eps) >= MaxEntries
          /\ PrintT("@@" \o ToJson([m |-> M, odd |-> IF oddAt = 0 \/ oddAt > attrN THEN "plain" ELSE oddForm,
                                    nspv |-> Cardinality(SpvExp(M, [be |-> "spv", ver |-> 14]).keys)]))
          /\ phase' = "done"
          /\ UNCHANGED <<globals, helpers, eps, cur, attrN, oddAt, oddForm, budget>>

Next ==
  \/ \E k \in Choose(Dyn(Kinds)), g \in Choose(Dyn(Groups)), b \in Choose(Dyn(Binds)), rv \in Choose(Dyn(Orders)) : AddGlobal(k, g, b, rv)
  \/ EndGlobals
  \/ BeginHelper \/ HelperBody \/ EndHelper \/ EndHelpers
  \/ \E s \in Stages, w \in Choose(Dyn(WgSizes)) : BeginEntry(s, w)
  \/ AddBare \/ BeginStruct \/ AddMember \/ EndStruct \/ EndParams
  \/ BareResult \/ BeginStructResult \/ AddResultMember \/ AddBlendPair \/ EndStructResult \/ NoResult
  \/ EntryBody \/ EndEntry
  \/ Finish

Spec == Init /\ [][Next]_vars

\* ---------------------------------------------------------------- invariants
\* every finished prefix is a valid module interface
GenInv == (phase \in {"entries", "done"}) => WellFormed(M)

\* self-test of the invariant (BindingsGen_selftest): claims that no two resources share a (group, binding) -
\* must be violated, because the generator does build such modules
NoSharedSlot == \A i, j \in DOMAIN globals : (i # j /\ IsRes(globals[i]) /\ IsRes(globals[j])) =>
                   ~(globals[i].group = globals[j].group /\ globals[i].binding = globals[j].binding)
=============================================================================
