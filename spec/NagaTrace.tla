----------------------------- MODULE NagaTrace -----------------------------
(***************************************************************************)
(* Trace validation for Naga.tla (property C08).                           *)
(*                                                                         *)
(* The harness replays programs into the real gogpu/naga and records, per  *)
(* API call, one event; TLC checks that the recorded events are steps of   *)
(* the pipeline protocol and evaluates the property at every event.        *)
(*                                                                         *)
(*  {"ev":"prog","id":N,"wt":0|1,"claim":[groups],"feats":[features],      *)
(*   "eps":[{"n":name,"st":stage,"f":[features the entry point uses]}],    *)
(*   "sel":["backend/option set" the harness runs; empty = the catalogue]} *)
(*        a new program starts (the previous one is closed: every call the *)
(*        property quantifies over must have been recorded for it)         *)
(*  {"ev":"call","st":"tokenize"|"parse"|"lower"|"validate"|"onecall",     *)
(*   "out":"ok"|"err"}                                                     *)
(*  {"ev":"call","st":"backend","b":backend,"opt":name,"ov":version,       *)
(*   "oes":0|1,"opc":0|1,"ocaps":"all"|"basic","ep":entry point|"*",       *)
(*   "out":"ok"|"err"}                                                     *)
(*        one API call and its outcome (error <=> "err"); the option set's *)
(*        properties travel with the call and must equal the catalogue's   *)
(*        (only the corpus shader's own "ref" option set is free)          *)
(*                                                                         *)
(* Many programs are concatenated in one file.  A violated rule never      *)
(* stops the run: it is recorded in `bad` as [l, id, rule] and the file is *)
(* consumed to the end; rules whose name starts with "harness:" are the    *)
(* machinery's own obligations (schedule allowed by the protocol, every    *)
(* quantified call recorded), the others are verdicts about naga.          *)
(***************************************************************************)
EXTENDS Naga, Json, SequencesExt

Trace == ndJsonDeserialize("trace.ndjson")

VARIABLES l,        \* next line
          bad,      \* verdicts
          stats     \* [obl: calls the property covered, free: calls outside it, progs: programs]
tvars == <<vars, l, bad, stats>>

NoProg == [id |-> 0, wt |-> FALSE, claim |-> {}, feats |-> {}, eps |-> <<>>, sel |-> {}]
TInit == Start(NoProg) /\ l = 1 /\ bad = <<>> /\ stats = [obl |-> 0, free |-> 0, progs |-> 0]

Ev == Trace[l]
IsEvent(e) == l <= Len(Trace) /\ Ev.ev = e /\ l' = l + 1
B(rule) == <<[l |-> l, id |-> prog.id, rule |-> rule]>>

ProgOf(e) == [id |-> e.id, wt |-> e.wt = 1, claim |-> ToSet(e.claim), feats |-> ToSet(e.feats), sel |-> ToSet(e.sel),
              eps |-> [i \in 1 .. Len(e.eps) |-> [n |-> e.eps[i].n, st |-> e.eps[i].st, f |-> ToSet(e.eps[i].f)]]]
OptOf(e) == [name |-> e.opt, v |-> e.ov, es |-> e.oes = 1, pc |-> e.opc = 1, caps |-> e.ocaps]

\* the harness may announce that it runs only some option sets for a program ("sel": strings "backend/option set"; empty = all)
Selected(b, o) == prog.sel = {} \/ (b \o "/" \o o.name) \in prog.sel
\* closing a program: every call the property quantifies over must be in the record
MissingStages == {s \in FeStages : Claimed(GroupOf(s)) /\ fe[s] = "none" /\ Prev(s) = "ok"}
Close ==
  IF ~prog.wt THEN <<>>
  ELSE (IF MissingStages # {} THEN B("harness: a front-end stage of a claimed program was not run") ELSE <<>>)
    \o (IF (Claimed("front") /\ Claimed("validate") /\ Claimed("spv") /\ one = "none")
        THEN B("harness: the one-call API was not run") ELSE <<>>)
    \o (IF fe.lower = "ok" /\ \E b \in BackendNames : \E ep \in EntriesFor(prog, b) :
             \E o \in Catalogue[b] : /\ ClaimedCall(b, ep) /\ Selected(b, o) /\ CallExpressible(prog, b, o, ep)
                                      /\ ~Called(b, o.name, ep)
        THEN B("harness: an expressible (backend, option set, entry point) of a claimed program was not run") ELSE <<>>)

TraceProg ==
  /\ IsEvent("prog")
  /\ bad' = bad \o Close
  /\ prog' = ProgOf(Ev) /\ fe' = NoFe /\ one' = "none" /\ calls' = {}
  /\ stats' = [stats EXCEPT !.progs = @ + 1]

Count(covered) == stats' = IF covered THEN [stats EXCEPT !.obl = @ + 1] ELSE [stats EXCEPT !.free = @ + 1]

TraceStage ==
  /\ IsEvent("call") /\ Ev.st \in FeStages
  /\ IF MayStage(Ev.st)
     THEN /\ DoStage(Ev.st, Ev.out)
          /\ bad' = bad \o (IF StageViolates(Ev.st, Ev.out)
                            THEN B("Accepted: " \o Ev.st \o " rejects a well-typed program") ELSE <<>>)
          /\ Count(Claimed(GroupOf(Ev.st)))
     ELSE /\ bad' = bad \o B("harness: stage " \o Ev.st \o " recorded although the protocol does not allow it here")
          /\ UNCHANGED <<vars, stats>>

TraceOneCall ==
  /\ IsEvent("call") /\ Ev.st = "onecall"
  /\ IF MayOneCall /\ PartsObserved
     THEN /\ DoOneCall(Ev.out)
          /\ bad' = bad \o (IF OneCallViolates(Ev.out) THEN B("Accepted: the one-call API rejects a well-typed program") ELSE <<>>)
                        \o (IF (Ev.out = "ok") # (FeOK /\ \A c \in OneCallSpv : c[4] = "ok")
                            THEN B("Composed: the one-call API disagrees with the composition of its stages") ELSE <<>>)
          /\ Count(Claimed("front") /\ Claimed("validate") /\ Claimed("spv") /\ CallExpressible(prog, "spv", OneCallOpt, "*"))
     ELSE /\ bad' = bad \o B("harness: one-call outcome recorded before the stages it is composed of")
          /\ UNCHANGED <<vars, stats>>

TraceBackend ==
  /\ IsEvent("call") /\ Ev.st = "backend"
  /\ LET o == OptOf(Ev) IN
     IF /\ Ev.b \in BackendNames
        /\ (IsRef(o) \/ o \in Catalogue[Ev.b])
        /\ Ev.ep \in EntriesFor(prog, Ev.b)
        /\ MayBackend(Ev.b, o, Ev.ep)
     THEN /\ DoBackend(Ev.b, o, Ev.ep, Ev.out)
          /\ bad' = bad \o (IF BackendViolates(Ev.b, o, Ev.ep, Ev.out)
                            THEN B("Accepted: backend " \o Ev.b \o " rejects a well-typed program under an option set able to express it")
                            ELSE <<>>)
          /\ Count(ClaimedCall(Ev.b, Ev.ep) /\ CallExpressible(prog, Ev.b, o, Ev.ep))
     ELSE /\ bad' = bad \o B("harness: backend call not allowed by the protocol or option set not in the catalogue")
          /\ UNCHANGED <<vars, stats>>

\* after the last line: close the last program and print the verdicts
TraceEnd ==
  /\ l = Len(Trace) + 1
  /\ l' = l + 1
  /\ bad' = bad \o Close
  /\ PrintT("@@" \o ToJson([consumed |-> Len(Trace), bad |-> bad', stats |-> stats]))
  /\ UNCHANGED <<vars, stats>>

TNext == TraceProg \/ TraceStage \/ TraceOneCall \/ TraceBackend \/ TraceEnd
TSpec == TInit /\ [][TNext]_tvars

\* the machinery's own sanity condition: the whole file was consumed
Consumed == TLCGet("stats").diameter >= Len(Trace) + 2
=============================================================================
