------------------------------- MODULE Namer -------------------------------
(***************************************************************************)
(* Property C16, naming side: the (Rust-naga style) naming algorithm as    *)
(* the three text backends of gogpu/naga implement it                      *)
(*   hlsl/internal/codegen/namer.go  (sanitize, call, namespace, helper    *)
(*                                    names pre-registered in the table),  *)
(*   msl/internal/codegen/writer.go  (namer.call, sanitizeName; helper     *)
(*                                    names are in reservedWords),         *)
(*   glsl/internal/codegen/writer.go (namer.call, sanitizeName)            *)
(* as a state machine, model-checked over ALL sequences of at most         *)
(* MaxCalls labels of length <= MaxLen over a tiny alphabet, for every     *)
(* target in Targets (the target is chosen in the initial state).          *)
(*                                                                         *)
(* A label / spelling is a sequence of SYMBOLS:                            *)
(*   "a"       an ordinary letter                                          *)
(*   "1" "2".. digits                                                      *)
(*   "_"       underscore                                                  *)
(*   "k"       a letter such that the one-symbol word <<"k">> is a keyword *)
(*             of the target; "K" its upper-case form (HLSL matches a few  *)
(*             keywords without regard to case: <<"k">> is modelled as one)*)
(*   "h"       <<"h">> is the name of a helper function the backend        *)
(*             generates AND protects (HLSL: pre-registered in the table;  *)
(*             MSL: listed among the reserved words; GLSL protects none)   *)
(*   "n"       <<"n">> is the name of a helper the backend generates but   *)
(*             does NOT protect (read from the code: HLSL naga_neg,        *)
(*             NagaBufferLengthRW ..., MSL naga_neg, naga_abs ..., GLSL    *)
(*             naga_modf, _naga_div ...)                                   *)
(*   "g"       stands for the three characters gl_ (GLSL reserves every    *)
(*             identifier that starts with them)                           *)
(*   "e"       a non-ASCII letter; sanitize writes it as its escape        *)
(*             u<hex>_ (preceded by `_` unless the buffer is empty or ends *)
(*             in `_`), abstracted here to the symbols "u" "9" "_":        *)
(*             "u" stands for the letters-and-digits prefix of the escape, *)
(*             "9" for its last hex digit.  The escape ENDS in `_`, so a   *)
(*             following `_` is collapsed, a following non-ASCII letter    *)
(*             gets no second separator and a trailing one is trimmed:     *)
(*             e_a -> u9_a, ee -> u9_u9 (+ `_`: digit-ending), ae -> a_u9_ *)
(*   "u" "9"   also usable in labels: the label <<"u","9">> is the ASCII   *)
(*             identifier that spells an escape (u00e9 next to é)          *)
(*                                                                         *)
(* The algorithm (identical in the three backends up to the points noted): *)
(*   sanitize(label): drop leading digits; trim trailing underscores; keep *)
(*     ASCII letters, digits and `_`; collapse runs of `_`; a non-ASCII    *)
(*     character becomes [_]u<hex>_ ; trim trailing underscores again;     *)
(*     the empty result becomes "unnamed" (symbol sequence <<"a","a">>).   *)
(*   call(label): base := sanitize(label);                                 *)
(*     base in table  -> count := table[base] + 1; table[base] := count;   *)
(*                       spelling := base _ count                          *)
(*     otherwise      -> table[base] := 0; spelling := base, with a        *)
(*                       trailing `_` if base ends in a digit or is a      *)
(*                       keyword                                           *)
(*   namespace: struct members are named with a fresh table; the outer     *)
(*     table is restored afterwards.                                       *)
(*                                                                         *)
(* Invariants                                                              *)
(*   Injective    two calls in one name space never return one spelling    *)
(*   KeywordFree  no spelling is a keyword; in the module name space no    *)
(*                spelling is the name of a generated helper               *)
(*   Legal        a spelling is an identifier of the target: non-empty,    *)
(*                starts with a letter or `_`, only letters / digits / `_`,*)
(*                GLSL: not starting with gl_; GLSL and MSL: without `__`; *)
(*                MSL: not `_` followed by an upper-case letter            *)
(* hold for the alphabet {a, 1, _, k, h, e, u, 9} (h: HLSL and MSL only;   *)
(* K: HLSL only - in MSL the label _K is emitted unchanged).  With         *)
(* "n", "g" (and "h" for GLSL) in the alphabet the MODEL violates          *)
(* KeywordFree / Legal - that is what the code does; such label sequences  *)
(* are exported as SUSPECTS and only count as findings when the real       *)
(* backend's output clashes (replayed by the harness, judged by            *)
(* Scopes.tla).                                                            *)
(*                                                                         *)
(* Faults (self-test; {} in real runs).  SelfTest evaluates, for each      *)
(* named fault, whether some label sequence makes the faulty algorithm     *)
(* violate the invariant named with it while the correct algorithm does    *)
(* not; the harness requires every entry to be TRUE on every invocation    *)
(* and additionally runs the state machine itself with one seeded fault,   *)
(* which TLC must report as a violated invariant.                          *)
(*   "no_digit_suffix"   no `_` after a base that ends in a digit   -> Injective *)
(*   "no_keyword_suffix" no `_` after a keyword base                -> KeywordFree *)
(*   "no_trim"           trailing underscores are kept              -> Injective *)
(*   "counter_stuck"     the collision counter is not stored back   -> Injective *)
(*   "helper_unreserved" the protected helper name is not protected -> KeywordFree *)
(*   "no_collapse"       runs of `_` are kept                       -> Legal (GLSL) *)
(*   "stale_escape"      the ends-in-underscore state is not updated after  *)
(*                       an escape was written (e_a -> u9__a)        -> Legal (MSL) *)
(***************************************************************************)
EXTENDS Naturals, Sequences, FiniteSets, TLC, Json

CONSTANTS Targets,   \* subset of {"hlsl", "msl", "glsl"}
          Alphabet,  \* symbols labels are built from
          MaxLen,    \* maximal label length
          MaxCalls,  \* maximal number of namer calls in a behaviour
          MaxSpaces, \* maximal number of member name spaces entered in a behaviour
          Faults,    \* seeded faults of the state machine ({} in real runs)
          Export     \* TRUE: print nearly colliding label sequences and suspects

Digits  == {"1", "2", "3", "4", "5", "6", "7", "8", "9"}
Letters == {"a", "k", "K", "h", "n", "g", "u"}
Under   == "_"

DigitOf(n) == CASE n = 1 -> "1" [] n = 2 -> "2" [] n = 3 -> "3" [] n = 4 -> "4" [] n = 5 -> "5" [] OTHER -> "9"

\* what a WGSL author can write: XID_Start XID_Continue* | _ XID_Continue+ , not starting with two underscores
WgslIdent(l) ==
  /\ Len(l) >= 1
  /\ l[1] \notin Digits
  /\ l[1] = Under => (Len(l) >= 2 /\ l[2] # Under)
LabelsOf(alpha, maxlen) == {l \in UNION {[1..k -> alpha] : k \in 1..maxlen} : WgslIdent(l)}
Labels == LabelsOf(Alphabet, MaxLen)

---------------------------------------------------------------------------
\* sanitize (F = set of seeded faults)

RECURSIVE DropLeadingDigits(_)
DropLeadingDigits(s) == IF s # <<>> /\ s[1] \in Digits THEN DropLeadingDigits(Tail(s)) ELSE s

RECURSIVE TrimTrailing(_, _)
TrimTrailing(F, s) == IF s # <<>> /\ s[Len(s)] = Under /\ "no_trim" \notin F THEN TrimTrailing(F, SubSeq(s, 1, Len(s) - 1)) ELSE s

EndsUnder(s) == s # <<>> /\ s[Len(s)] = Under

\* the character filter: collapse underscores, expand non-ASCII.  eu = "the buffer ends in an underscore" as the
\* implementation tracks it (it equals EndsUnder(acc) unless the seeded fault "stale_escape" leaves it stale after an
\* escape was written).
RECURSIVE Filter(_, _, _, _)
Filter(F, s, acc, eu) ==
  IF s = <<>> THEN acc
  ELSE LET c == s[1] IN
       IF c = Under
         THEN IF eu /\ "no_collapse" \notin F THEN Filter(F, Tail(s), acc, eu) ELSE Filter(F, Tail(s), Append(acc, c), TRUE)
       ELSE IF c = "e"
         THEN Filter(F, Tail(s), (IF acc # <<>> /\ ~eu THEN Append(acc, Under) ELSE acc) \o <<"u", "9", Under>>,
                     IF "stale_escape" \in F THEN eu ELSE TRUE)
       ELSE Filter(F, Tail(s), Append(acc, c), FALSE)

Unnamed == <<"a", "a">>

Sanitize(F, label) ==
  LET s1 == TrimTrailing(F, DropLeadingDigits(label))
      s2 == TrimTrailing(F, Filter(F, s1, <<>>, FALSE))
  IN  IF s2 = <<>> THEN Unnamed ELSE s2

---------------------------------------------------------------------------
\* keywords and helpers of target T, in the model's alphabet
LowerSym(c) == IF c = "K" THEN "k" ELSE c
LowerSeq(s) == [i \in DOMAIN s |-> LowerSym(s[i])]

IsKeyword(T, F, b) ==
  \/ b = <<"k">>
  \/ T = "hlsl" /\ LowerSeq(b) = <<"k">>                            \* case-insensitive keywords (HLSL only)
  \/ T = "msl" /\ b = <<"h">> /\ "helper_unreserved" \notin F       \* MSL lists its protected helpers as reserved words

Helpers(T) == {<<"n">>, <<"h">>}      \* names the generated code may declare at module scope

\* HLSL pre-registers its protected helpers in the module table
InitTable(T, F) == IF T = "hlsl" /\ "helper_unreserved" \notin F THEN [b \in {<<"h">>} |-> 0] ELSE [b \in {} |-> 0]

EndsWithDigit(b) == b # <<>> /\ b[Len(b)] \in Digits

LegalSpelling(T, s) ==
  /\ s # <<>>
  /\ s[1] \in Letters \cup {Under}
  /\ \A i \in DOMAIN s : s[i] \in Letters \cup Digits \cup {Under}
  /\ T = "glsl" => s[1] # "g"
  /\ T \in {"glsl", "msl"} => \A i \in 1..(Len(s) - 1) : ~(s[i] = Under /\ s[i + 1] = Under)   \* GLSL 3.7; C++14 [lex.name]/3
  /\ T = "msl" => ~(Len(s) >= 2 /\ s[1] = Under /\ s[2] = "K")                                  \* C++14 [lex.name]/3: _ + upper case

ReservedSpelling(T, s, inner) ==
  \/ s = <<"k">>
  \/ T = "hlsl" /\ LowerSeq(s) = <<"k">>
  \/ ~inner /\ s \in Helpers(T)

\* one call of the namer: table -> <<table', spelling, base>>
CallF(T, F, tab, label) ==
  LET base  == Sanitize(F, label)
      seen  == base \in DOMAIN tab
      count == IF seen THEN tab[base] + 1 ELSE 0
      sp    == IF seen THEN base \o <<Under, DigitOf(count)>>
               ELSE IF (EndsWithDigit(base) /\ "no_digit_suffix" \notin F) \/ (IsKeyword(T, F, base) /\ "no_keyword_suffix" \notin F)
                    THEN Append(base, Under) ELSE base
      tab2  == IF seen /\ "counter_stuck" \in F THEN tab
               ELSE [b \in DOMAIN tab \cup {base} |-> IF b = base THEN count ELSE tab[b]]
  IN  <<tab2, sp, base>>

---------------------------------------------------------------------------
VARIABLES tgt,      \* the target (chosen initially)
          tab,      \* current table: base -> count
          saved,    \* <<>> in the module name space, <<outer table, outer issued>> inside a member name space
          issued,   \* spellings returned in the current name space
          nsn,      \* number of member name spaces entered so far
          n,        \* number of calls so far
          hist,     \* <<label, base, spelling, name space>> of every call, in order (name space 0 = the module's);
                    \* kept only when Export is set (without it, behaviours that differ in order only share states)
          dup,      \* a spelling was returned twice in one name space
          badkw,    \* a spelling is a keyword / a helper name
          illegal   \* a spelling is not an identifier of the target
vars == <<tgt, tab, saved, issued, nsn, n, hist, dup, badkw, illegal>>

Init == /\ tgt \in Targets
        /\ tab = InitTable(tgt, Faults) /\ saved = <<>> /\ issued = {} /\ nsn = 0 /\ n = 0 /\ hist = <<>>
        /\ dup = FALSE /\ badkw = FALSE /\ illegal = FALSE

Call(label) ==
  /\ n < MaxCalls /\ n' = n + 1
  /\ LET r     == CallF(tgt, Faults, tab, label)
         sp    == r[2]
         inner == saved # <<>>
     IN  /\ tab' = r[1]
         /\ issued' = issued \cup {sp}
         /\ dup' = (dup \/ sp \in issued)
         /\ badkw' = (badkw \/ ReservedSpelling(tgt, sp, inner))
         /\ illegal' = (illegal \/ ~LegalSpelling(tgt, sp))
         /\ hist' = IF Export THEN Append(hist, <<label, r[3], sp, IF inner THEN nsn ELSE 0>>) ELSE hist
  /\ UNCHANGED <<tgt, saved, nsn>>

\* struct members: a fresh table; the outer one comes back afterwards
Enter == /\ saved = <<>> /\ n < MaxCalls /\ nsn < MaxSpaces
         /\ saved' = <<tab, issued>> /\ nsn' = nsn + 1
         /\ tab' = [b \in {} |-> 0] /\ issued' = {}
         /\ UNCHANGED <<tgt, n, hist, dup, badkw, illegal>>
Leave == /\ saved # <<>>
         /\ tab' = saved[1] /\ issued' = saved[2] /\ saved' = <<>>
         /\ UNCHANGED <<tgt, nsn, n, hist, dup, badkw, illegal>>

\* export: the label sequences whose calls interact (same base for different labels, or a spelling that is itself
\* a label of the sequence), every sequence with a non-ASCII letter, and the sequences the model itself judges bad (suspects)
Interacts ==
  \E i, j \in DOMAIN hist : i # j /\ hist[i][4] = hist[j][4] /\
     \/ (hist[i][1] # hist[j][1] /\ hist[i][2] = hist[j][2])
     \/ hist[i][3] = hist[j][1]
Emit ==
  /\ Export /\ n = MaxCalls /\ saved = <<>>
  /\ (Interacts \/ dup \/ badkw \/ illegal \/ \E i \in DOMAIN hist : \E j \in DOMAIN hist[i][1] : hist[i][1][j] = "e")
  /\ PrintT("@@" \o ToJson([target |-> tgt, labels |-> [i \in DOMAIN hist |-> hist[i][1]], spellings |-> [i \in DOMAIN hist |-> hist[i][3]],
                            ns |-> [i \in DOMAIN hist |-> hist[i][4]], dup |-> dup, badkw |-> badkw, illegal |-> illegal]))
  /\ UNCHANGED vars

Next == (\E l \in Labels : Call(l)) \/ Enter \/ Leave \/ Emit
Spec == Init /\ [][Next]_vars

Injective   == ~dup
KeywordFree == ~badkw
Legal       == ~illegal

---------------------------------------------------------------------------
\* Self-test of the invariants: the namer folded over a label sequence (module name space only).
RECURSIVE Fold(_, _, _, _, _)
\* acc = <<table, issued, dup, badkw, illegal>>
Fold(T, F, seq, i, acc) ==
  IF i > Len(seq) THEN acc
  ELSE LET r == CallF(T, F, acc[1], seq[i]) IN
       Fold(T, F, seq, i + 1, <<r[1], acc[2] \cup {r[2]}, acc[3] \/ r[2] \in acc[2], acc[4] \/ ReservedSpelling(T, r[2], FALSE), acc[5] \/ ~LegalSpelling(T, r[2])>>)
Verdict(T, F, seq) == LET a == Fold(T, F, seq, 1, <<InitTable(T, F), {}, FALSE, FALSE, FALSE>>) IN [dup |-> a[3], badkw |-> a[4], illegal |-> a[5]]

SeqsOf(S, k) == UNION {[1..m -> S] : m \in 1..k}
\* fault f is detected on target T if some sequence over alphabet al violates `inv` with the fault and no invariant without it
Detects(T, f, inv, al, maxlen, calls) ==
  \E seq \in SeqsOf(LabelsOf(al, maxlen), calls) :
     /\ LET v == Verdict(T, {f}, seq) IN CASE inv = "Injective" -> v.dup [] inv = "KeywordFree" -> v.badkw [] OTHER -> v.illegal
     /\ LET v == Verdict(T, {}, seq) IN ~v.dup /\ ~v.badkw /\ ~v.illegal
SelfTest ==
  [no_digit_suffix   |-> Detects("msl", "no_digit_suffix", "Injective", {"a", "1", "_"}, 3, 3),
   no_keyword_suffix |-> Detects("glsl", "no_keyword_suffix", "KeywordFree", {"a", "k"}, 1, 1),
   no_trim           |-> Detects("hlsl", "no_trim", "Injective", {"a", "1", "_"}, 3, 2),
   counter_stuck     |-> Detects("glsl", "counter_stuck", "Injective", {"a"}, 1, 3),
   helper_hlsl       |-> Detects("hlsl", "helper_unreserved", "KeywordFree", {"a", "h"}, 1, 1),
   helper_msl        |-> Detects("msl", "helper_unreserved", "KeywordFree", {"a", "h"}, 1, 1),
   no_collapse       |-> Detects("glsl", "no_collapse", "Legal", {"a", "_"}, 4, 1),
   stale_escape      |-> Detects("msl", "stale_escape", "Legal", {"a", "_", "e"}, 3, 1)]
=============================================================================
