------------------------------ MODULE SpvBody -------------------------------
(***************************************************************************)
(* Operand-kind and result-type rules of the instructions that live in     *)
(* function bodies (SPIR-V 3.x instruction descriptions: "Result Type      *)
(* must be ...", "The type of Operand must be ...").  One operator per     *)
(* instruction class; each yields a rule list <<condition, name>>.         *)
(* A(e, i) is the type of the i-th id operand (0 if it is not a value).    *)
(* Where the official validator is known to be laxer than the prose of     *)
(* the specification, the laxer reading is transcribed.                    *)
(***************************************************************************)
EXTENDS SpvState

A(e, i) == ValTy(Id(e, i))
ArgTys(e, from) == [i \in 1..Max(0, NIds(e) - from + 1) |-> ValTy(e.ids[i + from - 1])]
SameDW(a, b) == Dim(a) = Dim(b) /\ Width(a) = Width(b)

\* ---- arithmetic (3.42.13) ---------------------------------------------------------
ArithRules(e) ==
  LET rt == e.t  a == A(e, 1)  b == A(e, 2)  op == e.op IN
  CASE op \in {"OpFAdd", "OpFSub", "OpFMul", "OpFDiv", "OpFRem", "OpFMod"} ->
         << <<NIds(e) = 2, "operand count">>, <<IsFloatSV(rt), "result type must be a float scalar or vector">>,
            <<a = rt /\ b = rt, "operands must have the result type">> >>
    [] op = "OpFNegate" ->
         << <<NIds(e) = 1, "operand count">>, <<IsFloatSV(rt), "result type must be a float scalar or vector">>,
            <<a = rt, "operands must have the result type">> >>
    [] op \in {"OpIAdd", "OpISub", "OpIMul", "OpSDiv", "OpSMod", "OpSRem"} ->
         << <<NIds(e) = 2, "operand count">>, <<IsIntSV(rt), "result type must be an int scalar or vector">>,
            <<IsIntSV(a) /\ IsIntSV(b), "operands must be int scalars or vectors">>,
            <<SameDW(a, rt) /\ SameDW(b, rt), "operands must have the dimension and bit width of the result type">> >>
    [] op = "OpSNegate" ->
         << <<NIds(e) = 1, "operand count">>, <<IsIntSV(rt), "result type must be an int scalar or vector">>,
            <<IsIntSV(a) /\ SameDW(a, rt), "operands must have the dimension and bit width of the result type">> >>
    [] op \in {"OpUDiv", "OpUMod"} ->
         << <<NIds(e) = 2, "operand count">>, <<IsUIntSV(rt), "result type must be an unsigned int scalar or vector">>,
            <<a = rt /\ b = rt, "operands must have the result type">> >>
    [] op = "OpDot" ->
         << <<NIds(e) = 2, "operand count">>, <<IsFloatS(rt), "result type must be a float scalar">>,
            <<IsVec(a) /\ IsFloatS(Elem(a)) /\ a = b, "operands must be float vectors of the same type">>,
            <<Elem(a) = rt, "result type must be the component type of the operands">> >>
    [] op = "OpVectorTimesScalar" ->
         << <<NIds(e) = 2, "operand count">>, <<IsVec(rt) /\ IsFloatS(Elem(rt)), "result type must be a float vector">>,
            <<a = rt, "vector operand must have the result type">>, <<b = Elem(rt), "scalar operand must have the component type">> >>
    [] op = "OpMatrixTimesScalar" ->
         << <<NIds(e) = 2, "operand count">>, <<IsFloatMat(rt), "result type must be a float matrix">>,
            <<a = rt, "matrix operand must have the result type">>, <<b = Comp(rt), "scalar operand must have the component type">> >>
    [] op = "OpVectorTimesMatrix" ->
         << <<NIds(e) = 2, "operand count">>, <<IsVec(rt) /\ IsFloatS(Elem(rt)), "result type must be a float vector">>,
            <<IsVec(a) /\ IsFloatMat(b) /\ Comp(a) = Comp(rt) /\ Comp(b) = Comp(rt), "operand types (vector, matrix) with the result component type">>,
            <<Count(rt) = Count(b) /\ Count(a) = Rows(b), "vector size / matrix shape mismatch">> >>
    [] op = "OpMatrixTimesVector" ->
         << <<NIds(e) = 2, "operand count">>, <<IsFloatMat(a), "left operand must be a float matrix">>,
            <<rt = Elem(a), "result type must be the column type of the matrix">>,
            <<IsVec(b) /\ Comp(b) = Comp(a) /\ Count(b) = Count(a), "vector size / matrix shape mismatch">> >>
    [] op = "OpMatrixTimesMatrix" ->
         << <<NIds(e) = 2, "operand count">>, <<IsFloatMat(rt) /\ IsFloatMat(a) /\ IsFloatMat(b), "result and operands must be float matrices">>,
            <<Comp(a) = Comp(rt) /\ Comp(b) = Comp(rt), "component types differ">>,
            <<Count(rt) = Count(b) /\ Rows(rt) = Rows(a) /\ Count(a) = Rows(b), "matrix shapes do not compose">> >>
    [] op = "OpOuterProduct" ->
         << <<NIds(e) = 2, "operand count">>, <<IsFloatMat(rt), "result type must be a float matrix">>,
            <<a = Elem(rt), "left operand must have the column type">>,
            <<IsVec(b) /\ Comp(b) = Comp(rt) /\ Count(b) = Count(rt), "right operand size must be the column count">> >>
    [] op = "OpTranspose" ->
         << <<NIds(e) = 1, "operand count">>, <<IsFloatMat(rt) /\ IsFloatMat(a), "result and operand must be float matrices">>,
            <<Comp(a) = Comp(rt) /\ Count(rt) = Rows(a) /\ Rows(rt) = Count(a), "result must be the transposed shape">> >>
    [] op \in {"OpSDot", "OpUDot", "OpSUDot"} ->
         << <<NIds(e) = 2, "operand count">>, <<IsIntS(rt), "result type must be an int scalar">>,
            <<IsIntSV(a) /\ IsIntSV(b) /\ Dim(a) = Dim(b), "operands must be int vectors of equal size or packed scalars">>,
            <<Dim(a) > 1 \/ (NLits(e) >= 1 /\ Width(a) = 32 /\ Width(b) = 32), "scalar operands need a packed vector format">> >>
    [] OTHER -> << <<FALSE, "spec: unclassified arithmetic opcode">> >>

\* ---- bit instructions (3.42.14) -------------------------------------------------------
BitRules(e) ==
  LET rt == e.t  a == A(e, 1)  b == A(e, 2)  op == e.op IN
  CASE op \in {"OpShiftRightLogical", "OpShiftRightArithmetic", "OpShiftLeftLogical"} ->
         << <<NIds(e) = 2, "operand count">>, <<IsIntSV(rt), "result type must be an int scalar or vector">>,
            <<IsIntSV(a) /\ SameDW(a, rt), "base must have the dimension and bit width of the result type">>,
            <<IsIntSV(b) /\ Dim(b) = Dim(rt), "shift must be an int of the result's dimension">> >>
    [] op \in {"OpBitwiseOr", "OpBitwiseXor", "OpBitwiseAnd"} ->
         << <<NIds(e) = 2, "operand count">>, <<IsIntSV(rt), "result type must be an int scalar or vector">>,
            <<IsIntSV(a) /\ IsIntSV(b) /\ SameDW(a, rt) /\ SameDW(b, rt), "operands must have the dimension and bit width of the result type">> >>
    [] op = "OpNot" ->
         << <<NIds(e) = 1, "operand count">>, <<IsIntSV(rt), "result type must be an int scalar or vector">>,
            <<IsIntSV(a) /\ SameDW(a, rt), "operands must have the dimension and bit width of the result type">> >>
    [] op = "OpBitFieldInsert" ->
         << <<NIds(e) = 4, "operand count">>, <<IsIntSV(rt), "result type must be an int scalar or vector">>,
            <<a = rt /\ b = rt, "base and insert must have the result type">>,
            <<IsIntS(A(e, 3)) /\ IsIntS(A(e, 4)), "offset and count must be int scalars">> >>
    [] op \in {"OpBitFieldSExtract", "OpBitFieldUExtract"} ->
         << <<NIds(e) = 3, "operand count">>, <<IsIntSV(rt), "result type must be an int scalar or vector">>,
            <<a = rt, "base must have the result type">>, <<IsIntS(b) /\ IsIntS(A(e, 3)), "offset and count must be int scalars">> >>
    [] op = "OpBitReverse" ->
         << <<NIds(e) = 1, "operand count">>, <<IsIntSV(rt), "result type must be an int scalar or vector">>, <<a = rt, "base must have the result type">> >>
    [] op = "OpBitCount" ->
         << <<NIds(e) = 1, "operand count">>, <<IsIntSV(rt), "result type must be an int scalar or vector">>,
            <<IsIntSV(a) /\ Dim(a) = Dim(rt), "base must be an int of the result's dimension">> >>
    [] OTHER -> << <<FALSE, "spec: unclassified bit opcode">> >>

\* ---- relational and logical (3.42.15) ---------------------------------------------------
IntCmp == {"OpIEqual", "OpINotEqual", "OpUGreaterThan", "OpSGreaterThan", "OpUGreaterThanEqual", "OpSGreaterThanEqual",
           "OpULessThan", "OpSLessThan", "OpULessThanEqual", "OpSLessThanEqual"}
RelationalRules(e) ==
  LET rt == e.t  a == A(e, 1)  b == A(e, 2)  c == A(e, 3)  op == e.op IN
  CASE op \in {"OpAny", "OpAll"} ->
         << <<NIds(e) = 1, "operand count">>, <<IsBoolS(rt), "result type must be a bool scalar">>,
            <<IsVec(a) /\ IsBoolS(Elem(a)), "operand must be a bool vector">> >>
    [] op \in {"OpIsNan", "OpIsInf"} ->
         << <<NIds(e) = 1, "operand count">>, <<IsBoolSV(rt), "result type must be a bool scalar or vector">>,
            <<IsFloatSV(a) /\ Dim(a) = Dim(rt), "operand must be a float of the result's dimension">> >>
    [] op \in {"OpLogicalEqual", "OpLogicalNotEqual", "OpLogicalOr", "OpLogicalAnd"} ->
         << <<NIds(e) = 2, "operand count">>, <<IsBoolSV(rt), "result type must be a bool scalar or vector">>,
            <<a = rt /\ b = rt, "operands must have the result type">> >>
    [] op = "OpLogicalNot" ->
         << <<NIds(e) = 1, "operand count">>, <<IsBoolSV(rt), "result type must be a bool scalar or vector">>, <<a = rt, "operands must have the result type">> >>
    [] op = "OpSelect" ->
         << <<NIds(e) = 3, "operand count">>,
            <<IsScalar(rt) \/ IsVec(rt) \/ IsPtr(rt) \/ (m.version >= 4 /\ TK(rt) \in {"arr", "struct", "mat"}),
              "result type must be a scalar, vector or pointer (a composite only from version 1.4)">>,
            <<IsBoolSV(a), "condition must be a bool scalar or vector">>,
            <<Dim(a) = Dim(rt) \/ (m.version >= 4 /\ IsBoolS(a)), "condition must have as many components as the result type (a scalar condition for a vector only from version 1.4)">>,
            <<b = rt /\ c = rt, "both objects must have the result type">> >>
    [] op \in IntCmp ->
         << <<NIds(e) = 2, "operand count">>, <<IsBoolSV(rt), "result type must be a bool scalar or vector">>,
            <<IsIntSV(a) /\ IsIntSV(b), "operands must be int scalars or vectors">>,
            <<Dim(a) = Dim(rt) /\ Dim(b) = Dim(rt), "operands must have the dimension of the result type">>,
            <<Width(a) = Width(b), "operands must have the same bit width">> >>
    [] op \in {"OpFOrdEqual", "OpFUnordEqual", "OpFOrdNotEqual", "OpFUnordNotEqual", "OpFOrdLessThan", "OpFUnordLessThan",
               "OpFOrdGreaterThan", "OpFUnordGreaterThan", "OpFOrdLessThanEqual", "OpFUnordLessThanEqual",
               "OpFOrdGreaterThanEqual", "OpFUnordGreaterThanEqual"} ->
         << <<NIds(e) = 2, "operand count">>, <<IsBoolSV(rt), "result type must be a bool scalar or vector">>,
            <<IsFloatSV(a) /\ Dim(a) = Dim(rt), "operands must be floats of the result's dimension">>, <<a = b, "operands must have the same type">> >>
    [] OTHER -> << <<FALSE, "spec: unclassified relational opcode">> >>

\* ---- conversions (3.42.11) -----------------------------------------------------------------
ConversionRules(e) ==
  LET rt == e.t  a == A(e, 1)  op == e.op IN
  << <<NIds(e) = 1, "operand count">> >> \o
  CASE op = "OpConvertFToU" -> << <<IsUIntSV(rt), "result type must be an unsigned int scalar or vector">>,
                                   <<IsFloatSV(a) /\ Dim(a) = Dim(rt), "operand must be a float of the result's dimension">> >>
    [] op = "OpConvertFToS" -> << <<IsIntSV(rt), "result type must be an int scalar or vector">>,
                                   <<IsFloatSV(a) /\ Dim(a) = Dim(rt), "operand must be a float of the result's dimension">> >>
    [] op \in {"OpConvertSToF", "OpConvertUToF"} -> << <<IsFloatSV(rt), "result type must be a float scalar or vector">>,
                                   <<IsIntSV(a) /\ Dim(a) = Dim(rt), "operand must be an int of the result's dimension">> >>
    [] op \in {"OpUConvert", "OpSConvert"} -> << <<IsIntSV(rt), "result type must be an int scalar or vector">>,
                                   <<IsIntSV(a) /\ Dim(a) = Dim(rt), "operand must be an int of the result's dimension">>,
                                   <<Width(a) # Width(rt), "operand and result must differ in bit width">> >>
    [] op = "OpFConvert" -> << <<IsFloatSV(rt), "result type must be a float scalar or vector">>,
                               <<IsFloatSV(a) /\ Dim(a) = Dim(rt), "operand must be a float of the result's dimension">>,
                               <<Width(a) # Width(rt), "operand and result must differ in bit width">> >>
    [] op = "OpQuantizeToF16" -> << <<IsFloatSV(rt) /\ Width(rt) = 32, "result type must be a 32-bit float scalar or vector">>,
                                    <<a = rt, "operands must have the result type">> >>
    [] op = "OpBitcast" -> << <<IsPtr(rt) \/ IsIntSV(rt) \/ IsFloatSV(rt), "result type must be a pointer or numeric scalar or vector">>,
                              <<IsPtr(a) \/ IsIntSV(a) \/ IsFloatSV(a), "operand must be a pointer or numeric scalar or vector">>,
                              <<IsPtr(a) \/ IsPtr(rt) \/ Bits(a) = Bits(rt), "operand and result must have the same total bit size">> >>
    [] OTHER -> << <<FALSE, "spec: unclassified conversion opcode">> >>

DerivativeRules(e) ==
  << <<NIds(e) = 1, "operand count">>, <<IsFloatSV(e.t), "result type must be a float scalar or vector">>,
     <<A(e, 1) = e.t, "operands must have the result type">> >>

\* ---- composites (3.42.12) -----------------------------------------------------------------------
RECURSIVE WalkLits(_, _), WalkIds(_, _)
\* type reached from t by literal indexes (0: an index is out of range or the type cannot be indexed)
WalkLits(t, ix) ==
  IF ix = <<>> THEN t
  ELSE LET i == Head(ix)  k == TK(t) IN
       IF k = "struct" THEN (IF i >= 0 /\ i < Len(Members(t)) THEN WalkLits(Members(t)[i + 1], Tail(ix)) ELSE 0)
       ELSE IF k \in {"vec", "mat"} THEN (IF i >= 0 /\ i < Count(t) THEN WalkLits(Elem(t), Tail(ix)) ELSE 0)
       ELSE IF k = "arr" THEN (IF i >= 0 /\ (Count(t) = 0 \/ i < Count(t)) THEN WalkLits(Elem(t), Tail(ix)) ELSE 0)
       ELSE 0
\* type reached from t by <id> indexes (OpAccessChain): indexes are int scalars, struct indexes are OpConstant in range
WalkIds(t, ix) ==
  IF ix = <<>> THEN t
  ELSE LET i == Head(ix)  k == TK(t)  d == D(i) IN
       IF ~IsIntS(ValTy(i)) THEN 0
       ELSE IF k = "struct" THEN (IF d.k = "const" /\ d.op = "OpConstant" /\ d.cv >= 0 /\ d.cv < Len(Members(t))
                                  THEN WalkIds(Members(t)[d.cv + 1], Tail(ix)) ELSE 0)
       ELSE IF k \in {"vec", "mat", "arr", "rtarr"} THEN WalkIds(Elem(t), Tail(ix))
       ELSE 0

RECURSIVE SumDims(_)
SumDims(ts) == IF ts = <<>> THEN 0 ELSE Dim(Head(ts)) + SumDims(Tail(ts))

ConstructOK(rt, ts) ==
  LET k == TK(rt) IN
  IF k = "vec" THEN Len(ts) >= 2 /\ (\A i \in DOMAIN ts : Comp(ts[i]) = Elem(rt) /\ (IsScalar(ts[i]) \/ IsVec(ts[i]))) /\ SumDims(ts) = Count(rt)
  ELSE IF k = "mat" THEN Len(ts) = Count(rt) /\ \A i \in DOMAIN ts : ts[i] = Elem(rt)
  ELSE IF k = "arr" THEN (Count(rt) = 0 \/ Len(ts) = Count(rt)) /\ \A i \in DOMAIN ts : ts[i] = Elem(rt)
  ELSE IF k = "struct" THEN ts = Members(rt)
  ELSE FALSE

\* OpCopyLogical: the two types "match logically" (2.2.x): same shape, scalars identical, decorations ignored
RECURSIVE LogicalMatch(_, _)
LogicalMatch(x, y) ==
  IF x = y THEN TRUE
  ELSE IF TK(x) = "arr" /\ TK(y) = "arr" THEN Count(x) = Count(y) /\ LogicalMatch(Elem(x), Elem(y))
  ELSE IF TK(x) = "struct" /\ TK(y) = "struct" THEN
       Len(Members(x)) = Len(Members(y)) /\ \A i \in DOMAIN Members(x) : LogicalMatch(Members(x)[i], Members(y)[i])
  ELSE FALSE

CompositeRules(e) ==
  LET rt == e.t  a == A(e, 1)  b == A(e, 2)  op == e.op IN
  CASE op = "OpVectorExtractDynamic" ->
         << <<NIds(e) = 2, "operand count">>, <<IsScalar(rt), "result type must be a scalar">>,
            <<IsVec(a) /\ Elem(a) = rt, "vector operand's component type must be the result type">>, <<IsIntS(b), "index must be an int scalar">> >>
    [] op = "OpVectorInsertDynamic" ->
         << <<NIds(e) = 3, "operand count">>, <<IsVec(rt) /\ a = rt, "vector operand must have the (vector) result type">>,
            <<b = Elem(rt), "component must have the component type">>, <<IsIntS(A(e, 3)), "index must be an int scalar">> >>
    [] op = "OpVectorShuffle" ->
         << <<NIds(e) = 2, "operand count">>, <<IsVec(rt), "result type must be a vector">>,
            <<IsVec(a) /\ IsVec(b) /\ Elem(a) = Elem(rt) /\ Elem(b) = Elem(rt), "operands must be vectors with the result's component type">>,
            <<NLits(e) = Count(rt), "one component literal per result component">>,
            <<\A i \in DOMAIN e.lits : e.lits[i] = -1 \/ (e.lits[i] >= 0 /\ e.lits[i] < Count(a) + Count(b)), "component literal out of range">> >>
    [] op = "OpCompositeConstruct" ->
         << <<ConstructOK(rt, ArgTys(e, 1)), "constituents do not match the result type">> >>
    [] op = "OpCompositeExtract" ->
         << <<NIds(e) = 1 /\ NLits(e) >= 1, "operand count">>, <<a # 0 /\ WalkLits(a, e.lits) # 0, "index out of range or composite not indexable">>,
            <<WalkLits(a, e.lits) = rt, "result type must be the type of the indexed part">> >>
    [] op = "OpCompositeInsert" ->
         << <<NIds(e) = 2 /\ NLits(e) >= 1, "operand count">>, <<b = rt, "composite operand must have the result type">>,
            <<WalkLits(rt, e.lits) # 0 /\ WalkLits(rt, e.lits) = a, "object type must be the type of the indexed part">> >>
    [] op = "OpCopyObject" ->
         << <<NIds(e) = 1, "operand count">>, <<a # 0 /\ a = rt, "operands must have the result type">> >>
    [] op = "OpCopyLogical" ->
         << <<NIds(e) = 1, "operand count">>, <<a # 0 /\ a # rt /\ LogicalMatch(a, rt), "operand and result types must be different types that match logically">> >>
    [] OTHER -> << <<FALSE, "spec: unclassified composite opcode">> >>

\* ---- memory (3.42.8) -----------------------------------------------------------------------------
\* memory-access mask: Volatile 1, Aligned 2 (one literal), Nontemporal 4; the Vulkan-memory-model bits carry ids
MemAccessOK(ls) == ls = <<>> \/ (ls[1] \in 0..7 /\ Len(ls) = 1 + (IF (ls[1] \div 2) % 2 = 1 THEN 1 ELSE 0))

MemoryRules(e) ==
  LET rt == e.t  a == A(e, 1)  b == A(e, 2)  op == e.op IN
  CASE op = "OpLoad" ->
         << <<NIds(e) = 1, "operand count">>, <<IsPtr(a), "pointer operand must have a pointer type">>,
            <<Pointee(a) = rt, "result type must be the pointee type">>, <<MemAccessOK(e.lits), "memory access operands">> >>
    [] op = "OpStore" ->
         << <<NIds(e) = 2, "operand count">>, <<IsPtr(a), "pointer operand must have a pointer type">>,
            <<b # 0 /\ Pointee(a) = b, "object type must be the pointee type">>,
            <<PtrSC(a) \notin {"UniformConstant", "Input", "PushConstant"}, "Vulkan: store through a pointer of a read-only storage class">>,
            <<MemAccessOK(e.lits), "memory access operands">> >>
    [] op = "OpCopyMemory" ->
         << <<NIds(e) = 2, "operand count">>, <<IsPtr(a) /\ IsPtr(b) /\ Pointee(a) = Pointee(b), "target and source must point to the same type">> >>
    [] op \in {"OpAccessChain", "OpInBoundsAccessChain"} ->
         << <<NIds(e) >= 1, "operand count">>, <<IsPtr(a), "base must have a pointer type">>, <<IsPtr(rt), "result type must be a pointer">>,
            <<PtrSC(rt) = PtrSC(a), "result storage class must be the base's storage class">>,
            <<WalkIds(Pointee(a), SubSeqFrom(e.ids, 2)) # 0, "index not an int scalar, struct index not a constant in range, or type not indexable">>,
            <<WalkIds(Pointee(a), SubSeqFrom(e.ids, 2)) = Pointee(rt), "result pointee must be the type reached by the indexes">> >>
    [] op = "OpArrayLength" ->
         LET st == Pointee(a) IN
         << <<NIds(e) = 1 /\ NLits(e) = 1, "operand count">>, <<IsIntS(rt) /\ D(rt).w = 32 /\ D(rt).sg = 0, "result type must be a 32-bit unsigned int">>,
            <<TK(st) = "struct", "operand must point to a struct">>,
            <<Len(Members(st)) >= 1 /\ Lit(e, 1) = Len(Members(st)) - 1, "the member must be the last member">>,
            <<Len(Members(st)) >= 1 /\ TK(Members(st)[Len(Members(st))]) = "rtarr", "the last member must be a run-time array">> >>
    [] OTHER -> << <<FALSE, "spec: unclassified memory opcode">> >>

\* ---- function call (3.42.9) -----------------------------------------------------------------------
VarPtrSB == ({"VariablePointersStorageBuffer", "VariablePointers"} \cap m.capsC) # {}
PtrArgOK(pt, arg) ==
  ~IsPtr(pt) \/
  ( /\ PtrSC(pt) \in {"UniformConstant", "Function", "Private", "Workgroup", "AtomicCounter"} \/ (PtrSC(pt) = "StorageBuffer" /\ VarPtrSB)
    /\ \/ D(arg).k \in {"gvar", "lvar", "param"}
       \/ PtrSC(pt) = "UniformConstant" \/ (PtrSC(pt) = "StorageBuffer" /\ VarPtrSB)
       \/ (PtrSC(pt) = "Workgroup" /\ "VariablePointers" \in m.capsC) )

\* callee known: full signature check; callee not yet defined (forward call): checked at module end
CallRules(e) ==
  LET f == Id(e, 1)  ft == D(f).ty  ps == IF TK(ft) = "fn" THEN D(ft).ms ELSE <<>>  args == SubSeqFrom(e.ids, 2) IN
  IF ~Defined(f) THEN << <<NIds(e) >= 1, "operand count">> >>
  ELSE << <<D(f).k = "fn", "callee is not a function">>, <<e.t = Elem(ft), "result type must be the callee's return type">>,
          <<Len(args) = Len(ps), "argument count differs from the callee's parameter count">>,
          <<Len(args) = Len(ps) /\ \A i \in DOMAIN ps : ValTy(args[i]) = ps[i], "argument type differs from the parameter type">>,
          <<Len(args) = Len(ps) /\ \A i \in DOMAIN ps : PtrArgOK(ps[i], args[i]),
            "pointer argument must be a memory object declaration of an allowed storage class (Logical addressing, no VariablePointers)">> >>

\* ---- atomics (3.42.18) and barriers (3.42.20) ---------------------------------------------------------
AtomicRules(e) ==
  LET op == e.op  p == A(e, 1)  pt == Pointee(p)
      nsem == IF op = "OpAtomicCompareExchange" THEN 2 ELSE 1
      nval == CASE op \in {"OpAtomicLoad", "OpAtomicIIncrement", "OpAtomicIDecrement"} -> 0 [] op = "OpAtomicCompareExchange" -> 2 [] OTHER -> 1
      v1 == A(e, 2 + nsem + 1)  v2 == A(e, 2 + nsem + 2)
      vt == IF op = "OpAtomicStore" THEN v1 ELSE e.t
      floatOK == op \in {"OpAtomicFAddEXT", "OpAtomicLoad", "OpAtomicStore", "OpAtomicExchange"} IN
  << <<NIds(e) = 2 + nsem + nval, "operand count">>, <<IsPtr(p), "pointer operand must have a pointer type">>,
     <<IsIntS(vt) \/ (floatOK /\ IsFloatS(vt)), "result (value) type must be an int scalar (float only for load/store/exchange/FAddEXT)">>,
     <<op # "OpAtomicFAddEXT" \/ IsFloatS(vt), "OpAtomicFAddEXT needs a float type">>,
     <<pt = vt, "pointee type must be the result (value) type">>,
     <<nval < 1 \/ v1 = vt, "value type must be the result type">>, <<nval < 2 \/ v2 = vt, "comparator type must be the result type">>,
     <<PtrSC(p) \in {"Uniform", "Workgroup", "Image", "StorageBuffer", "PhysicalStorageBuffer", "TaskPayloadWorkgroupEXT"},
       "Vulkan: atomic pointer storage class must be Uniform, Workgroup, Image or StorageBuffer">>,
     <<\A i \in 2..(1 + nsem + 1) : IsConstInt32(Id(e, i)), "scope and memory semantics must be 32-bit int constants">>,
     <<Width(vt) # 64 \/ ~IsIntS(vt) \/ "Int64Atomics" \in m.capsC, "64-bit integer atomics need the Int64Atomics capability">> >>

BarrierRules(e) ==
  << <<NIds(e) = (IF e.op = "OpControlBarrier" THEN 3 ELSE 2), "operand count">>,
     <<\A i \in DOMAIN e.ids : IsConstInt32(e.ids[i]), "scope and memory semantics must be 32-bit int constants">> >>

\* ---- phi (3.42.17) ---------------------------------------------------------------------------------
PhiRules(e) ==
  << <<NIds(e) % 2 = 0 /\ NIds(e) >= 2, "operand count">>,
     <<\A i \in DOMAIN e.ids : i % 2 = 0 \/ ~Defined(e.ids[i]) \/ ValTy(e.ids[i]) = e.t, "incoming value type must be the result type">>,
     <<\A i \in DOMAIN e.ids : i % 2 = 1 \/ ~Defined(e.ids[i]) \/ D(e.ids[i]).k = "label", "parent operand must be a label">> >>
=============================================================================
