------------------------------- MODULE SpvCfg -------------------------------
(***************************************************************************)
(* The analysis run once per function at OpFunctionEnd over the facts the  *)
(* automaton accumulated while the body streamed by (SPIR-V 2.11           *)
(* "Structured Control Flow", 2.16.1 universal validation rules, 2.4 block *)
(* order):                                                                 *)
(*   f.blocks   labels in stream order (f.blocks[1] is the entry block)    *)
(*   f.terms    one record per block, same order: [b, op, tgts, mk]        *)
(*              tgts = branch targets, mk = "" | "sel" | "loop" (the merge *)
(*              instruction that precedes the terminator)                  *)
(*   f.merges   [h, m, c, kind] per merge instruction (c = 0 for "sel")    *)
(*   f.uses     <<defining block, using block>> of every cross-block use   *)
(*   f.phis     [b, vals, parents]                                         *)
(* Dominators are computed over the ordinary CFG of the blocks reachable   *)
(* from the entry block.  The official validator uses the CFG augmented    *)
(* with header->merge and header->continue edges for the structural rules; *)
(* domination in the augmented graph implies domination in the ordinary    *)
(* graph, so every rule below is implied by (weaker than) the official one.*)
(***************************************************************************)
EXTENDS SpvImage

CfgOf(f) ==
  LET B == f.blocks
      BS == Range(B)
      Ix == [b \in BS |-> CHOOSE i \in DOMAIN B : B[i] = b]
      T(b) == f.terms[Ix[b]]
      Succ == [b \in BS |-> IF Ix[b] <= Len(f.terms) THEN Range(T(b).tgts) \cap BS ELSE {}]
      entry == IF B = <<>> THEN 0 ELSE B[1]
  IN [B |-> B, BS |-> BS, Ix |-> Ix, Succ |-> Succ, entry |-> entry]

RECURSIVE ReachFrom(_, _, _)
ReachFrom(S, frontier, Succ) ==
  IF frontier = {} THEN S
  ELSE LET N == (UNION {Succ[b] : b \in frontier}) \ S IN ReachFrom(S \cup N, N, Succ)

\* one Gauss-Seidel pass in stream order, repeated to the fix-point (stream order is close to reverse post-order,
\* so two or three passes suffice)
RECURSIVE DomPass(_, _, _, _, _), DomFix(_, _, _, _)
DomPass(Dm, i, ord, Pred, R) ==
  IF i > Len(ord) THEN Dm
  ELSE LET b == ord[i]
           nb == IF i = 1 THEN {b} ELSE {b} \cup {x \in R : \A p \in Pred[b] : x \in Dm[p]}
       IN DomPass([Dm EXCEPT ![b] = nb], i + 1, ord, Pred, R)
DomFix(Dm, ord, Pred, R) ==
  LET N == DomPass(Dm, 1, ord, Pred, R) IN IF N = Dm THEN Dm ELSE DomFix(N, ord, Pred, R)

\* The structured-selection rule.  The official validator walks the blocks in reverse post-order keeping a set of
\* "seen" labels (merge and continue targets of the merge instructions met so far, targets of the multi-way branches met so
\* far); a two-way branch without a selection merge of its own is an error when neither target has been seen.  A block that
\* B strictly dominates always comes after B in reverse post-order, so the labels B can have seen are at most those
\* contributed by blocks B does not strictly dominate (B's own loop merge included): with that superset the rule below is
\* implied by the official one.
UnmergedSel(f, R, Dom) ==
  LET Below(b) == {x \in R : x # b /\ b \in Dom[x]}                \* blocks b strictly dominates
      MS == Range(f.merges)
      Terms == Range(f.terms)
      Seen(b) == {x.m : x \in {y \in MS : y.h \notin Below(b)}} \cup {x.c : x \in {y \in MS : y.kind = "loop" /\ y.h \notin Below(b)}}
                 \cup UNION {Range(t.tgts) : t \in {u \in Terms : u.op \in {"OpBranchConditional", "OpSwitch"} /\ u.b # b /\ u.b \notin Below(b)}}
  IN {t.b : t \in {u \in Terms : u.b \in R /\ u.op = "OpBranchConditional" /\ u.mk # "sel" /\ u.tgts[1] # u.tgts[2]
                                  /\ u.tgts[1] \notin Seen(u.b) /\ u.tgts[2] \notin Seen(u.b)}}
\* the same, self-contained (used for the witness of a verdict)
UnmergedSelections(f) ==
  LET g == CfgOf(f)
      R == IF g.entry = 0 THEN {} ELSE ReachFrom({g.entry}, {g.entry}, g.Succ)
      Pred == [b \in R |-> {p \in R : b \in g.Succ[p]}]
      ord == SelectSeq(g.B, LAMBDA b : b \in R)
      Dom == IF R = {} THEN <<>> ELSE DomFix([b \in R |-> R], ord, Pred, R)
  IN UnmergedSel(f, R, Dom)

\* the rule list of OpFunctionEnd
FunctionEndRules(f) ==
  LET g == CfgOf(f)
      BS == g.BS  Succ == g.Succ  Ix == g.Ix  entry == g.entry
      R == IF entry = 0 THEN {} ELSE ReachFrom({entry}, {entry}, Succ)
      Pred == [b \in R |-> {p \in R : b \in Succ[p]}]
      ord == SelectSeq(g.B, LAMBDA b : b \in R)
      Dom == IF R = {} THEN <<>> ELSE DomFix([b \in R |-> R], ord, Pred, R)
      Dominates(a, b) == b \in R /\ a \in Dom[b]
      MS == Range(f.merges)
      Terms == Range(f.terms)
      MergeTargets == {x.m : x \in MS}
      ContTargets == {x.c : x \in {y \in MS : y.kind = "loop"}}
      LoopHeaders == {x.h : x \in {y \in MS : y.kind = "loop"}}
      SwitchTargets == UNION {Range(t.tgts) : t \in {u \in Terms : u.op = "OpSwitch"}}
      BackEdges == {be \in R \X R : be[2] \in Succ[be[1]] /\ be[2] \in Dom[be[1]]}
      AllowedExit == MergeTargets \cup ContTargets \cup LoopHeaders \cup SwitchTargets
      Construct(x) == {b \in R : x.h \in Dom[b] /\ x.m \notin Dom[b]}
  IN
  << <<f.cur = 0, "OpFunctionEnd inside an unterminated block">>,
     <<f.blocks # <<>> \/ "Linkage" \in m.capsC, "function without a body (needs an imported linkage)">>,
     <<Len(f.terms) = Len(f.blocks), "every block must end with exactly one terminator">>,
     <<\A t \in Terms : Range(t.tgts) \subseteq BS, "branch target is not a label of this function">>,
     <<\A x \in MS : x.m \in BS /\ (x.kind = "sel" \/ x.c \in BS), "merge block / continue target is not a label of this function">>,
     <<\A b \in BS : entry \notin Succ[b], "the entry block is the target of a branch">>,
     <<\A x, y \in MS : x.m = y.m => x = y, "a block is the merge block of more than one header">>,
     <<\A x \in MS : x.m # x.h, "a header is its own merge block">>,
     <<\A b \in R : \A d \in Dom[b] : Ix[d] <= Ix[b], "block order: a block appears before a block that dominates it">>,
     <<\A u \in f.uses : u[2] \in R => Dominates(u[1], u[2]), "definition does not dominate its use">>,
     <<\A p \in Range(f.phis) : p.b \in R =>
          /\ Range(p.parents) = Pred[p.b] /\ Len(p.parents) = Cardinality(Pred[p.b]),
       "OpPhi parents must be exactly the predecessors of its block, each once">>,
     <<\A p \in Range(f.phis) : \A i \in DOMAIN p.vals :
          LET d == D(p.vals[i]) IN
          (p.b \in R /\ p.parents[i] \in R /\ d.k \in {"val", "lvar"}) => (d.fn = f.id /\ Dominates(d.blk, p.parents[i])),
       "OpPhi incoming value does not dominate the corresponding parent block">>,
     <<\A x \in MS : (x.h \in R /\ x.m \in R) => Dominates(x.h, x.m), "header does not dominate its merge block">>,
     <<\A x \in MS : (x.kind = "loop" /\ x.h \in R /\ x.c \in R) => Dominates(x.h, x.c), "loop header does not dominate its continue target">>,
     <<\A be \in BackEdges : be[2] \in LoopHeaders, "back-edge to a block that is not a loop header">>,
     <<\A h \in LoopHeaders : Cardinality({be \in BackEdges : be[2] = h}) <= 1, "loop header is the target of more than one back-edge">>,
     <<\A be \in BackEdges : \A x \in MS : (x.kind = "loop" /\ x.h = be[2] /\ x.c \in R) => Dominates(x.c, be[1]),
       "back-edge block is not dominated by the continue target">>,
     <<\A t \in Terms : (t.b \in R /\ t.op = "OpSwitch") => t.mk = "sel", "OpSwitch must be preceded by OpSelectionMerge">>,
     <<Len(f.terms) # Len(f.blocks) \/ UnmergedSel(f, R, Dom) = {},
       "selection must be structured: two-way branch without OpSelectionMerge whose targets are no merge / continue targets">>,
     <<\A x \in MS : x.h \in R => \A b \in Construct(x) : \A t \in Succ[b] : t \in Construct(x) \/ t = x.m \/ t \in AllowedExit,
       "a block leaves its construct to a block that is no merge block, continue target, loop header or case label">> >>
=============================================================================
