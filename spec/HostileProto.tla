---------------------------- MODULE HostileProto ----------------------------
(***************************************************************************)
(* C10 - the CALL / OUTCOME PROTOCOL of the public entry points (the part  *)
(* of DESIGN.md's Naga.tla that property C10 speaks about).                *)
(*                                                                         *)
(* For one input (a byte string of at most 64 KiB) the monitor calls       *)
(*   tokenize  wgsl.NewLexer(src).Tokenize                                 *)
(*   parse     wgsl.NewParser(tokens).Parse          after tokenize = ok   *)
(*   lower     naga.LowerWithSource(ast, src)        after parse = ok      *)
(*   validate  naga.Validate(module)                 after lower = ok      *)
(*   spv hlsl msl glsl dxil  (glsl once per entry point; option sets)      *)
(*                                                   after lower = ok      *)
(*   compile   naga.Compile(src), the one-call API   always                *)
(* Rules (property C10):                                                   *)
(*   Outcome   every call returns a result ("ok") or an ordinary error     *)
(*             value ("err"); never "panic" (recovered Go panic), "fatal"  *)
(*             (runtime throw: stack overflow, ...), "timeout" (CPU limit) *)
(*             or "oom" (address-space / RSS limit).                       *)
(*   Order     a stage is called only after all its prerequisites returned *)
(*             "ok" for this input (a rule about the monitor itself).      *)
(*   Cost      CPU time (user+sys, ms), peak resident set (MiB), output    *)
(*             size (bytes) and total Go heap allocation (MiB; a load-     *)
(*             independent measure of work) of every call are below the    *)
(*             envelope Env(SizeClass(input bytes)) - deliberately         *)
(*             generous: only gross blow-ups ("small polynomial" in the    *)
(*             property) count.                                            *)
(*   Complete  if no call of the input died, every enabled stage was       *)
(*             called (a rule about the monitor).                          *)
(* The module is a small state machine generating all monitor behaviours   *)
(* for one input; HostileTrace.tla validates recorded traces against the   *)
(* same guards.  Faults (self-test) let the machine take forbidden steps;  *)
(* the invariants below must then fail.                                    *)
(***************************************************************************)
EXTENDS Integers, Sequences, FiniteSets, TLC

CONSTANTS Faults,      \* subset of {"PanicOutcome", "RunAfterErr", "OverEnvelope"}; {} in real runs
          MCStages     \* the stages the design-level model explores (a subset of Stages keeps the state space small)

Backends == {"spv", "hlsl", "msl", "glsl", "dxil"}
Stages   == {"tokenize", "parse", "lower", "validate", "compile"} \cup Backends
Good     == {"ok", "err"}
Died     == {"panic", "fatal", "timeout", "oom"}
Outcomes == Good \cup Died

Requires(st) ==
  CASE st = "tokenize" -> {}
    [] st = "parse"    -> {"tokenize"}
    [] st = "lower"    -> {"tokenize", "parse"}
    [] st = "compile"  -> {}
    [] OTHER           -> {"tokenize", "parse", "lower"}      \* validate and every backend

MaxBytes == 65536
SizeClass(bytes) == IF bytes <= 1024 THEN 0 ELSE IF bytes <= 8192 THEN 1 ELSE 2
\* the envelope: far above anything the unchanged tree needs on valid inputs of the class (docs/C10.md has the
\* calibration: the most expensive corpus shader below 64 KiB needs < 0.2 s and < 20 MiB in every stage; the cpu bound is
\* wide because CPU time on a loaded virtual machine was seen to vary by a factor of five for the same call)
Env(cls) == CASE cls = 0 -> [cpu |-> 3000,  rss |-> 512,  out |-> 4194304,  alloc |-> 1024]
              [] cls = 1 -> [cpu |-> 6000,  rss |-> 768,  out |-> 16777216, alloc |-> 2048]
              [] OTHER   -> [cpu |-> 20000, rss |-> 1024, out |-> 33554432, alloc |-> 4096]
WithinEnv(cls, cost) == LET e == Env(cls) IN cost.cpu <= e.cpu /\ cost.rss <= e.rss /\ cost.out <= e.out /\ cost.alloc <= e.alloc

\* ---- the monitor for one input ------------------------------------------------
VARIABLES cls,      \* size class of the input
          okset,    \* stages that returned ok
          ran,      \* stages called so far
          calls     \* history: <<stage, outcome, cost>>
pvars == <<cls, okset, ran, calls>>

CostGrid(c) == LET e == Env(c) IN
  {[cpu |-> 0, rss |-> 1, out |-> 0, alloc |-> 0], [cpu |-> e.cpu, rss |-> e.rss, out |-> e.out, alloc |-> e.alloc]}
  \cup (IF "OverEnvelope" \in Faults THEN {[cpu |-> e.cpu + 1, rss |-> 1, out |-> 0, alloc |-> 0], [cpu |-> 0, rss |-> e.rss + 1, out |-> 0, alloc |-> 0],
                                           [cpu |-> 0, rss |-> 1, out |-> e.out + 1, alloc |-> 0], [cpu |-> 0, rss |-> 1, out |-> 0, alloc |-> e.alloc + 1]} ELSE {})

PInit == cls \in 0 .. 2 /\ okset = {} /\ ran = {} /\ calls = <<>>

MayCall(st) == st \notin ran /\ (Requires(st) \subseteq okset \/ "RunAfterErr" \in Faults)

Call(st, out, cost) ==
  /\ MayCall(st)
  /\ out \in (IF "PanicOutcome" \in Faults THEN Outcomes ELSE Good)
  /\ ran' = ran \cup {st}
  /\ okset' = IF out = "ok" THEN okset \cup {st} ELSE okset
  /\ calls' = Append(calls, <<st, out, cost>>)
  /\ UNCHANGED cls

PNext == \E st \in MCStages : \E out \in Outcomes : \E cost \in CostGrid(cls) : Call(st, out, cost)
PSpec == PInit /\ [][PNext]_pvars

\* ---- the rules as invariants of the history ----------------------------------
OkBefore(h, n) == {h[i][1] : i \in {j \in 1 .. n - 1 : h[j][2] = "ok"}}
Outcome == \A i \in 1 .. Len(calls) : calls[i][2] \in Good
Order   == \A i \in 1 .. Len(calls) : Requires(calls[i][1]) \subseteq OkBefore(calls, i)
Cost    == \A i \in 1 .. Len(calls) : WithinEnv(cls, calls[i][3])
Once    == \A i, j \in 1 .. Len(calls) : i # j => calls[i][1] # calls[j][1]
\* progress of the monitor: when nothing is enabled any more, every stage whose prerequisites are ok has been called
Complete == (\A st \in MCStages : ~MayCall(st)) => \A st \in MCStages : Requires(st) \subseteq okset => st \in ran
=============================================================================
