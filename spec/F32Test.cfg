INIT Init
NEXT Next
