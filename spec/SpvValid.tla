------------------------------ MODULE SpvValid ------------------------------
(***************************************************************************)
(* SPIR-V validity as a rule automaton (property C02).                     *)
(*                                                                         *)
(* The automaton reads one module as a sequence of events - the header,    *)
(* one event per instruction, an end-of-module event - and keeps in `m`:   *)
(*   phase     logical-layout section reached (SPIR-V 2.4)                 *)
(*   version, bound, caps / capsC (declared / closed under implication),   *)
(*   exts, defs (id -> kind and type structure), typeKeys (declared        *)
(*   non-aggregate types, for uniqueness), decos, eps (entry points),      *)
(*   modes, fwd (forward-referenced ids), fn (the function being read:     *)
(*   blocks, current block, pending merge, terminators, merge table,       *)
(*   cross-block uses, phis, callees, globals referenced), fns (summaries  *)
(*   of finished functions).                                               *)
(* There is one action per instruction class (SpvTables!ClassTable).  Each *)
(* action evaluates the rule list of its class; if all rules hold it       *)
(* applies the effect, else it records [l, rule, op] in `bad` and marks    *)
(* the module dead (the rest of the module is consumed without judging).   *)
(*                                                                         *)
(* Rule sources: SPIR-V specification 1.6 rev 2 (2.3 header, 2.4 logical   *)
(* layout, 2.5 instructions, 2.8 types uniqueness, 2.11 structured control *)
(* flow, 2.16 validation rules, 2.17 universal limits are NOT modelled,    *)
(* 3.x enumerant tables), the Vulkan environment appendix, and the         *)
(* behaviour of the official validator where the prose is ambiguous; rules *)
(* whose enforcement by the official validator is uncertain are omitted    *)
(* (list in harness/docs/C02.md).                                          *)
(*                                                                         *)
(* Faults (a constant, {} in real runs) weakens or corrupts single rules / *)
(* effects; it is used by the self-test only (see SpvEmit.tla).            *)
(***************************************************************************)
EXTENDS SpvDecl

vars == <<m, bad, notes>>

Init == m = InitM /\ bad = <<>> /\ notes = {}

\* ---- judging ------------------------------------------------------------------------------------------------
RECURSIVE CallClosure(_, _)
FnRec(id, F) == IF \E x \in F : x.id = id THEN CHOOSE x \in F : x.id = id ELSE [id |-> id, calls |-> {}, globals |-> {}, frag |-> FALSE]
CallClosure(S, F) == LET N == S \cup UNION {FnRec(f, F).calls : f \in S} IN IF N = S THEN S ELSE CallClosure(N, F)

IOStorage == {"Input", "Output"}
\* the variables the interface rule misses (reported with the verdict)
MissingFromInterface ==
  LET F == Range(m.fns) IN
  UNION {{v \in UNION {FnRec(f, F).globals : f \in CallClosure({ep.fn}, F)} :
             D(v).sc \in (IF m.version >= 4 THEN KnownStorage \ {"Function"} ELSE IOStorage) /\ v \notin Range(ep.iface)} : ep \in Range(m.eps)}

\* ids that show where a rule of the per-function analysis failed (for the report only)
SetToSortedSeq(S) == LET RECURSIVE F(_) F(T) == IF T = {} THEN <<>> ELSE LET x == CHOOSE y \in T : \A z \in T : y <= z IN <<x>> \o F(T \ {x}) IN F(S)
Witness(e, r) ==
  IF e.ev = "inst" /\ e.op = "OpFunctionEnd" /\ m.fn.id # 0 /\ Len(m.fn.terms) = Len(m.fn.blocks)
     /\ r = "selection must be structured: two-way branch without OpSelectionMerge whose targets are no merge / continue targets"
  THEN SetToSortedSeq(UnmergedSelections(m.fn))
  ELSE IF e.ev = "end" /\ r = "a global variable referenced from the entry point's call tree is missing from its interface (Input / Output; from version 1.4 every storage class)"
  THEN SetToSortedSeq(MissingFromInterface) ELSE <<>>

\* rs: rule list; eff: the next module state if every rule holds; p: position of the event (for the verdict)
\* m.waive (set from the reset event, {} normally) names <<rule, opcode>> pairs that are already recorded as known findings
\* of the emitter: when only such rules fail the module is not abandoned - the failure is recorded (waived |-> TRUE) and the
\* effect applied, so that later instructions of the same module are still judged
Judge(e, p, rs, eff) ==
  LET opn == IF e.ev = "inst" THEN e.op ELSE e.ev
      failing == {i \in DOMAIN rs : ~rs[i][1]}
      hard == {i \in failing : <<rs[i][2], opn>> \notin m.waive}
      first(S) == CHOOSE i \in S : \A j \in S : i <= j
  IN IF failing = {} THEN m' = [eff EXCEPT !.ninst = m.ninst + 1] /\ bad' = bad
     ELSE IF hard = {} THEN
          /\ m' = [eff EXCEPT !.ninst = m.ninst + 1]
          /\ bad' = Append(bad, [l |-> p, rule |-> rs[first(failing)][2], op |-> opn, w |-> <<>>, waived |-> TRUE])
     ELSE /\ m' = [m EXCEPT !.dead = TRUE]
          /\ bad' = Append(bad, [l |-> p, rule |-> rs[first(hard)][2], op |-> opn, w |-> Witness(e, rs[first(hard)][2]), waived |-> FALSE])

\* section order (2.4): sections never go backwards; exactly one OpMemoryModel
SectionRules(e) ==
  LET cls == ClassOf(e.op)  sec == SectionOf(cls, e.op) IN
  << <<m.phase >= 1, "instruction before the header">>, <<m.fn.id = 0, "module-level instruction inside a function">>,
     <<sec >= m.phase, "logical layout: instruction belongs to an earlier section">>,
     <<sec <= 4 \/ m.nmem = 1, "logical layout: OpMemoryModel missing before this section">> >>
Sec(e) == [m EXCEPT !.phase = SectionOf(ClassOf(e.op), e.op)]

Define(st, id, def) == [st EXCEPT !.defs[id] = def, !.fwd = st.fwd \ {id}]
Forward(st, ids) == [st EXCEPT !.fwd = st.fwd \cup {i \in ids : ~(i >= 0 /\ i < st.nd /\ st.defs[i].k # "none")}]
TargetRule(id, def) == << <<DecoTargetOK(id, def), "a decoration sits on a target it does not apply to">> >>

\* ---- header ------------------------------------------------------------------------------------------------------
Header(e, p) ==
  Judge(e, p,
    << <<m.phase = 0, "second header">>, <<e.magic = 119734787, "magic number is not 0x07230203">>,
       <<e.vmajor = 1 /\ e.vminor \in 0..6 /\ e.vrest = 0, "version word is not 0x00010X00 with X in 0..6">>,
       <<e.bound >= 1, "bound must be positive">>, <<e.schema = 0, "instruction schema must be 0">> >>,
    [m EXCEPT !.phase = 1, !.version = e.vminor, !.bound = e.bound,
              !.nd = IF e.bound < MaxIds THEN e.bound ELSE MaxIds,
              !.defs = [i \in 0..((IF e.bound < MaxIds THEN e.bound ELSE MaxIds) - 1) |-> NoDef]])

\* ---- module-level classes ---------------------------------------------------------------------------------------------
Capability(e, p) ==
  Judge(e, p, SectionRules(e) \o << <<Len(e.en) = 1, "operand count">>, <<En(e, 1) \notin KernelOnlyCaps, "Vulkan: capability not allowed in a shader module">> >>,
        [Sec(e) EXCEPT !.caps = m.caps \cup {En(e, 1)}, !.capsC = CapClosure(m.caps \cup {En(e, 1)})])

Extension(e, p) == Judge(e, p, SectionRules(e), [Sec(e) EXCEPT !.exts = m.exts \cup {e.s}])

ExtImport(e, p) ==
  Judge(e, p, SectionRules(e) \o DefRules(e.r), Define(Sec(e), e.r, [MkDef("extset", e.op) EXCEPT !.sc = e.s]))

MemoryModel(e, p) ==
  Judge(e, p, SectionRules(e) \o
    << <<m.nmem = 0, "more than one OpMemoryModel">>, <<En(e, 1) \in {"Logical", "PhysicalStorageBuffer64"}, "Vulkan: addressing model must be Logical or PhysicalStorageBuffer64">>,
       <<En(e, 2) \in {"GLSL450", "Vulkan"}, "Vulkan: memory model must be GLSL450 or Vulkan">>,
       <<En(e, 2) # "Vulkan" \/ "VulkanMemoryModel" \in m.capsC, "the Vulkan memory model needs the VulkanMemoryModel capability">> >>,
    [Sec(e) EXCEPT !.nmem = 1])

EntryPoint(e, p) ==
  LET iface == SubSeqFrom(e.ids, 2) IN
  Judge(e, p, SectionRules(e) \o
    << <<NIds(e) >= 1 /\ Len(e.en) = 1, "operand count">>, <<En(e, 1) \in {"Vertex", "Fragment", "GLCompute"}, "spec: execution model not modelled">>,
       <<\A x \in Range(m.eps) : ~(x.model = En(e, 1) /\ x.name = e.s), "two entry points with the same execution model and name">>,
       <<m.version < 4 \/ Cardinality(Range(iface)) = Len(iface), "interface lists an id twice (not allowed from version 1.4)">> >>
    \o ReqRules(ModelReq(En(e, 1))),
    Forward([Sec(e) EXCEPT !.eps = Append(m.eps, [model |-> En(e, 1), fn |-> Id(e, 1), name |-> e.s, iface |-> iface])], Range(e.ids)))

ExecutionMode(e, p) ==
  LET f == Id(e, 1)  x == En(e, 1)  models == {y.model : y \in {z \in Range(m.eps) : z.fn = f}} IN
  Judge(e, p, SectionRules(e) \o
    << <<models # {}, "the target of OpExecutionMode is not the entry point of an OpEntryPoint">>,
       <<x \notin FragmentOnlyModes \/ models = {"Fragment"}, "execution mode is only valid with the Fragment execution model">>,
       <<x \notin {"LocalSize", "LocalSizeId"} \/ models = {"GLCompute"}, "LocalSize is only valid with the GLCompute execution model">>,
       <<x # "LocalSize" \/ (NLits(e) = 3 /\ \A i \in 1..3 : Lit(e, i) # 0), "LocalSize needs three non-zero literals">> >>
    \o ReqRules(ModeReq(x)),
    [Sec(e) EXCEPT !.modes = m.modes \cup {<<f, x>>}])

Debug(e, p) ==
  IF e.op = "OpString" THEN Judge(e, p, SectionRules(e) \o DefRules(e.r), Define(Sec(e), e.r, MkDef("string", e.op)))
  ELSE Judge(e, p, SectionRules(e), Forward(Sec(e), Range(e.ids)))

Decorate(e, p) ==
  Judge(e, p, SectionRules(e) \o DecorateRules(e),
        Forward([Sec(e) EXCEPT !.decos = m.decos \cup {<<Id(e, 1), DecoMember(e), En(e, 1), DecoOperands(e), En(e, 2)>>}], {Id(e, 1)}))

TypeDecl(e, p) ==
  Judge(e, p, SectionRules(e) \o DefRules(e.r) \o ReqRules(OpReq(e.op)) \o TypeRules(e)
              \o << <<e.op \notin UniqueTypeOps \/ TypeKey(e) \notin m.typeKeys, "duplicate declaration of a non-aggregate type">> >>
              \o TargetRule(e.r, TypeDef(e)),
        Define([Sec(e) EXCEPT !.typeKeys = IF e.op \in UniqueTypeOps THEN m.typeKeys \cup {TypeKey(e)} ELSE m.typeKeys], e.r, TypeDef(e)))

ConstDef(e) == [MkDef("const", e.op) EXCEPT !.ty = e.t, !.cv = IF e.op = "OpConstant" /\ IsIntS(e.t) THEN Lit(e, 1) ELSE 0]
ConstDecl(e, p) ==
  Judge(e, p, SectionRules(e) \o DefRules(e.r) \o ConstantRules(e) \o TargetRule(e.r, ConstDef(e)), Define(Sec(e), e.r, ConstDef(e)))

GVarDef(e) == [MkDef("gvar", e.op) EXCEPT !.ty = e.t, !.sc = En(e, 1)]
GlobalVariable(e, p) ==
  Judge(e, p, SectionRules(e) \o DefRules(e.r) \o VariableRules(e) \o TargetRule(e.r, GVarDef(e)), Define(Sec(e), e.r, GVarDef(e)))

\* ---- functions ----------------------------------------------------------------------------------------------------
Function(e, p) ==
  LET ft == Id(e, 1) IN
  Judge(e, p,
    << <<m.phase >= 1 /\ m.nmem = 1, "logical layout: OpMemoryModel missing before the first function">>, <<m.fn.id = 0, "OpFunction inside a function">>,
       <<NIds(e) = 1 /\ NLits(e) = 1, "operand count">> >> \o DefRules(e.r) \o
    << <<TK(ft) = "fn", "function type operand is not a function type">>, <<e.t = Elem(ft), "result type must be the function type's return type">> >>,
    Define([m EXCEPT !.phase = 12, !.fn = [NoFn EXCEPT !.id = e.r, !.ty = ft, !.ret = e.t]], e.r, [MkDef("fn", e.op) EXCEPT !.ty = ft]))

FunctionParameter(e, p) ==
  LET ps == D(m.fn.ty).ms IN
  Judge(e, p,
    << <<m.fn.id # 0, "OpFunctionParameter outside a function">>, <<m.fn.blocks = <<>>, "OpFunctionParameter after the first block">>,
       <<m.fn.np < Len(ps), "more OpFunctionParameter than the function type has parameters">>,
       <<m.fn.np < Len(ps) /\ e.t = ps[m.fn.np + 1], "parameter type differs from the function type">> >> \o DefRules(e.r),
    Define([m EXCEPT !.fn.np = m.fn.np + 1], e.r, [MkDef("param", e.op) EXCEPT !.ty = e.t, !.fn = m.fn.id]))

Label(e, p) ==
  Judge(e, p,
    << <<m.fn.id # 0, "OpLabel outside a function">>, <<m.fn.cur = 0, "OpLabel inside an unterminated block">>,
       <<m.fn.np = Len(D(m.fn.ty).ms), "fewer OpFunctionParameter than the function type has parameters">> >> \o DefRules(e.r),
    Define([m EXCEPT !.fn.blocks = Append(m.fn.blocks, e.r), !.fn.cur = e.r, !.fn.top = (m.fn.blocks = <<>>), !.fn.phiok = TRUE], e.r,
           [MkDef("label", e.op) EXCEPT !.fn = m.fn.id]))

\* value operands of an instruction in a block: defined values, of this function if local; an OpSampledImage result is
\* consumed in the block that computed it.  Effect: cross-block uses and referenced globals are recorded.
ValueUseRules(ids) ==
  << <<\A x \in ids : Defined(x), "operand id is used before it is defined">>,
     <<\A x \in ids : IsValue(x), "operand is not a value (a type, label, function or string id)">>,
     <<\A x \in ids : D(x).k \in LocalKinds => D(x).fn = m.fn.id, "operand is defined in another function">>,
     <<\A x \in ids : D(x).op = "OpSampledImage" => D(x).blk = m.fn.cur, "an OpSampledImage result must be consumed in the block that computes it">> >>
NoteUses(st, ids) ==
  [st EXCEPT !.fn.uses = st.fn.uses \cup {<<D(x).blk, m.fn.cur>> : x \in {y \in ids : D(y).k \in {"val", "lvar"} /\ D(y).blk # m.fn.cur}},
             !.fn.globals = st.fn.globals \cup {x \in ids : D(x).k = "gvar"}]
InBlockRules(e) ==
  << <<m.fn.id # 0 /\ m.fn.cur # 0, "instruction outside a block">>,
     <<m.fn.pend = "", "a merge instruction must be immediately followed by the block's terminator">> >>

LVarDef(e) == [MkDef("lvar", e.op) EXCEPT !.ty = e.t, !.sc = En(e, 1), !.fn = m.fn.id, !.blk = m.fn.cur]
LocalVariable(e, p) ==
  Judge(e, p, InBlockRules(e) \o DefRules(e.r) \o VariableRules(e) \o TargetRule(e.r, LVarDef(e)),
        Define([m EXCEPT !.fn.phiok = FALSE], e.r, LVarDef(e)))

Merge(e, p) ==
  LET loop == e.op = "OpLoopMerge" IN
  Judge(e, p, InBlockRules(e) \o
    << <<NIds(e) = (IF loop THEN 2 ELSE 1), "operand count">>,
       <<\A i \in DOMAIN e.ids : ~Defined(e.ids[i]) \/ (D(e.ids[i]).k = "label" /\ D(e.ids[i]).fn = m.fn.id), "merge / continue operand is not a label of this function">>,
       <<~loop \/ Id(e, 1) # Id(e, 2), "merge block and continue target must be different">> >>,
    Forward([m EXCEPT !.fn.pend = IF loop THEN "loop" ELSE "sel", !.fn.top = FALSE, !.fn.phiok = FALSE,
                      !.fn.merges = Append(m.fn.merges, [h |-> m.fn.cur, m |-> Id(e, 1), c |-> IF loop THEN Id(e, 2) ELSE 0,
                                                         kind |-> IF loop THEN "loop" ELSE "sel"])], Range(e.ids)))

Terminator(e, p) ==
  LET op == e.op
      tgts == CASE op = "OpBranch" -> e.ids [] op \in {"OpBranchConditional", "OpSwitch"} -> SubSeqFrom(e.ids, 2) [] OTHER -> <<>>
      vals == IF op \in {"OpBranchConditional", "OpSwitch", "OpReturnValue"} THEN {Id(e, 1)} ELSE {}
      selw == IF Width(A(e, 1)) = 64 THEN 2 ELSE 1 IN
  Judge(e, p,
    << <<m.fn.id # 0 /\ m.fn.cur # 0, "terminator outside a block">>,
       <<m.fn.pend # "loop" \/ op \in {"OpBranch", "OpBranchConditional"}, "OpLoopMerge must be followed by OpBranch or OpBranchConditional">>,
       <<m.fn.pend # "sel" \/ op \in {"OpBranchConditional", "OpSwitch"}, "OpSelectionMerge must be followed by OpBranchConditional or OpSwitch">>,
       <<\A i \in DOMAIN tgts : ~Defined(tgts[i]) \/ (D(tgts[i]).k = "label" /\ D(tgts[i]).fn = m.fn.id), "branch target is not a label of this function">> >>
    \o ValueUseRules(vals) \o
    (CASE op = "OpBranch" -> << <<NIds(e) = 1, "operand count">> >>
       [] op = "OpBranchConditional" -> << <<NIds(e) = 3 /\ NLits(e) \in {0, 2}, "operand count">>, <<IsBoolS(A(e, 1)), "condition must be a bool scalar">> >>
       [] op = "OpSwitch" -> << <<NIds(e) >= 2, "operand count">>, <<IsIntS(A(e, 1)), "selector must be an int scalar">>,
                                <<NLits(e) = (NIds(e) - 2) * selw, "one literal of the selector's width per case label">> >>
       [] op = "OpReturn" -> << <<TK(m.fn.ret) = "void", "OpReturn in a function whose return type is not void">> >>
       [] op = "OpReturnValue" -> << <<NIds(e) = 1, "operand count">>, <<TK(m.fn.ret) # "void" /\ A(e, 1) = m.fn.ret, "returned value must have the function's return type">> >>
       [] OTHER -> <<>>)
    \o ReqRules(OpReq(op)),
    Forward(NoteUses([m EXCEPT !.fn.terms = Append(m.fn.terms, [b |-> m.fn.cur, op |-> op, tgts |-> tgts, mk |-> m.fn.pend]),
                               !.fn.cur = 0, !.fn.pend = "", !.fn.top = FALSE, !.fn.frag = m.fn.frag \/ FragmentOnly(op)], vals), Range(tgts)))

Phi(e, p) ==
  LET n == NIds(e) \div 2
      vs == [i \in 1..n |-> e.ids[2 * i - 1]]  ps == [i \in 1..n |-> e.ids[2 * i]] IN
  Judge(e, p, InBlockRules(e) \o << <<m.fn.phiok, "OpPhi must come first in its block">>, <<IsType(e.t), "result type is not a type">> >> \o DefRules(e.r) \o PhiRules(e),
        Forward(Define([m EXCEPT !.fn.phis = Append(m.fn.phis, [b |-> m.fn.cur, vals |-> vs, parents |-> ps]), !.fn.top = FALSE], e.r,
                       [MkDef("val", e.op) EXCEPT !.ty = e.t, !.fn = m.fn.id, !.blk = m.fn.cur]), Range(e.ids)))

\* all other instructions of a block: the rule list of the class, then the common effect
ClassRules(e) ==
  LET cls == ClassOf(e.op) IN
  CASE cls = "arith" -> ArithRules(e) [] cls = "bit" -> BitRules(e) [] cls = "relational" -> RelationalRules(e)
    [] cls = "conversion" -> ConversionRules(e) [] cls = "derivative" -> DerivativeRules(e) [] cls = "composite" -> CompositeRules(e)
    [] cls = "memory" -> MemoryRules(e) [] cls = "call" -> CallRules(e) [] cls = "atomic" -> AtomicRules(e)
    [] cls = "barrier" -> BarrierRules(e) [] cls = "image" -> ImageRules(e) [] cls = "extinst" -> ExtInstRules(e)
    [] cls = "group" -> GroupRules(e) [] cls = "rayquery" -> RayQueryRules(e) [] OTHER -> <<>>
ValueOperands(e) ==
  LET cls == ClassOf(e.op) IN
  IF cls \in {"call", "extinst"} THEN Range(SubSeqFrom(e.ids, 2)) ELSE Range(e.ids)

BodyInst(e, p) ==
  LET cls == ClassOf(e.op)  vals == ValueOperands(e)
      callee == IF cls = "call" THEN {Id(e, 1)} ELSE {}
      ptrcall == cls = "call" /\ \E x \in vals : IsPtr(ValTy(x))
      base == [m EXCEPT !.fn.top = FALSE, !.fn.phiok = FALSE, !.fn.calls = m.fn.calls \cup callee,
                        !.fn.frag = m.fn.frag \/ FragmentOnly(e.op),
                        !.pcalls = IF cls = "call" /\ ~Defined(Id(e, 1)) THEN m.pcalls \cup {<<Id(e, 1), e.t, [i \in 1..(NIds(e) - 1) |-> ValTy(e.ids[i + 1])]>>} ELSE m.pcalls]
      st == Forward(NoteUses(base, vals), callee)
      def == [MkDef("val", e.op) EXCEPT !.ty = e.t, !.fn = m.fn.id, !.blk = m.fn.cur] IN
  Judge(e, p, InBlockRules(e)
              \o << <<(e.r = 0) = (e.t = 0), "spec: result id without result type">>, <<e.t = 0 \/ IsType(e.t), "result type is not a type">> >>
              \o (IF e.r # 0 THEN DefRules(e.r) ELSE <<>>) \o ValueUseRules(vals) \o ReqRules(OpReq(e.op)) \o ClassRules(e)
              \o (IF e.r # 0 THEN TargetRule(e.r, def) ELSE <<>>),
        IF e.r # 0 THEN Define(st, e.r, def) ELSE st)

FunctionEnd(e, p) ==
  Judge(e, p, << <<m.fn.id # 0, "OpFunctionEnd outside a function">> >> \o (IF m.fn.id # 0 THEN FunctionEndRules(m.fn) ELSE <<>>),
        [m EXCEPT !.fn = NoFn, !.fns = Append(m.fns, [id |-> m.fn.id, calls |-> m.fn.calls, globals |-> m.fn.globals, frag |-> m.fn.frag])])

Nop(e, p) == Judge(e, p, << <<m.phase >= 1, "instruction before the header">> >>, m)

\* an instruction the specification has no rules for: its result id is defined (so that later uses are judged) and the
\* opcode is noted; the harness counts the module as not fully judged
Unmodelled(e, p) ==
  /\ notes' = notes \cup {e.op}
  /\ Judge(e, p, << <<m.phase >= 1, "instruction before the header">> >> \o (IF e.r # 0 THEN DefRules(e.r) ELSE <<>>),
           IF e.r # 0 THEN Define(m, e.r, [MkDef(IF m.fn.id # 0 THEN "val" ELSE "const", e.op) EXCEPT !.ty = e.t, !.fn = m.fn.id, !.blk = m.fn.cur]) ELSE m)

\* ---- end of module ---------------------------------------------------------------------------------------------------
LocKey(v) == <<DecoVals(v, -1, "Location"), DecoVals(v, -1, "Index"), DecoVals(v, -1, "Component")>>
SimpleLoc(v) == LET t == Pointee(D(v).ty) IN (IsScalar(t) \/ IsVec(t)) /\ Width(t) <= 32
InterfaceDecorated(v) ==
  LET t == Pointee(D(v).ty) IN
  \/ HasDeco(v, -1, "BuiltIn") \/ HasDeco(v, -1, "Location")
  \/ (TK(t) = "struct" /\ \A i \in DOMAIN Members(t) : HasDeco(t, i - 1, "BuiltIn") \/ HasDeco(t, i - 1, "Location"))

ModuleEndRules ==
  LET F == Range(m.fns)
      EPs == Range(m.eps)
      Tree(ep) == CallClosure({ep.fn}, F)
      Used(ep) == UNION {FnRec(f, F).globals : f \in Tree(ep)}
      Called == UNION {x.calls : x \in F}
      IfaceSC(ep) == IF m.version >= 4 THEN KnownStorage \ {"Function"} ELSE IOStorage
      Resources(ep) == {v \in Used(ep) : D(v).sc \in {"UniformConstant", "Uniform", "StorageBuffer"}}
  IN
  << <<m.phase >= 1, "module without a header">>, <<m.fn.id = 0, "OpFunctionEnd missing">>, <<m.nmem = 1, "OpMemoryModel missing">>,
     <<"Shader" \in m.capsC, "Vulkan: the Shader capability must be declared">>,
     <<\A c \in m.caps : VerOK(CapNeed(c)), "a declared capability requires a later SPIR-V version or an extension that is not declared">>,
     <<\A i \in m.fwd : Defined(i), "a forward-referenced id is never defined">>,
     <<\A c \in m.pcalls : D(c[1]).k = "fn" /\ c[2] = Elem(D(c[1]).ty) /\ c[3] = D(D(c[1]).ty).ms, "forward call does not match the callee's type">>,
     <<\A x \in F : x.id \notin CallClosure(x.calls, F), "recursion in the static call graph">>,
     <<m.eps # <<>> \/ "Linkage" \in m.capsC, "module without an entry point (and without the Linkage capability)">>,
     <<\A ep \in EPs : D(ep.fn).k = "fn", "the entry point operand of OpEntryPoint is not a function">>,
     <<\A ep \in EPs : TK(Elem(D(ep.fn).ty)) = "void" /\ D(D(ep.fn).ty).ms = <<>>, "an entry point function must return void and take no parameters">>,
     <<\A ep \in EPs : ep.fn \notin Called, "an entry point is the target of an OpFunctionCall">>,
     <<\A ep \in EPs : \A v \in Range(ep.iface) : D(v).k = "gvar", "an interface id is not a module-scope variable">>,
     <<\A ep \in EPs : \A v \in Range(ep.iface) : D(v).sc \in IfaceSC(ep), "interface variable of a storage class that is not allowed (only Input / Output before version 1.4)">>,
     <<\A ep \in EPs : \A v \in Used(ep) : D(v).sc \in IfaceSC(ep) => v \in Range(ep.iface),
       "a global variable referenced from the entry point's call tree is missing from its interface (Input / Output; from version 1.4 every storage class)">>,
     <<\A ep \in EPs : \A v \in Range(ep.iface) : D(v).sc \in IOStorage => InterfaceDecorated(v), "Vulkan: Input / Output interface variable without BuiltIn or Location">>,
     <<\A ep \in EPs : \A v, w \in Range(ep.iface) :
          (v # w /\ D(v).sc = D(w).sc /\ D(v).sc \in IOStorage /\ HasDeco(v, -1, "Location") /\ HasDeco(w, -1, "Location") /\ SimpleLoc(v) /\ SimpleLoc(w)
           /\ DecoVals(v, -1, "Component") = {} /\ DecoVals(w, -1, "Component") = {}) => LocKey(v) # LocKey(w),
       "two interface variables of one entry point share a location">>,
     <<\A ep \in EPs : ep.model = "Fragment" => \A v \in Range(ep.iface) :
          (D(v).sc = "Input" /\ HasDeco(v, -1, "Location") /\ (IsIntSV(Pointee(D(v).ty)) \/ Width(Pointee(D(v).ty)) = 64)) => HasDeco(v, -1, "Flat"),
       "Vulkan: integer or 64-bit fragment input without the Flat decoration">>,
     <<\A ep \in EPs : ep.model = "Fragment" => (<<ep.fn, "OriginUpperLeft">> \in m.modes \/ <<ep.fn, "OriginLowerLeft">> \in m.modes),
       "a Fragment entry point needs the OriginUpperLeft or OriginLowerLeft execution mode">>,
     <<\A ep \in EPs : ep.model = "GLCompute" => (<<ep.fn, "LocalSize">> \in m.modes \/ <<ep.fn, "LocalSizeId">> \in m.modes
                                                     \/ \E x \in m.decos : x[3] = "BuiltIn" /\ x[5] = "WorkgroupSize"),
       "a GLCompute entry point needs the LocalSize execution mode">>,
     <<\A ep \in EPs : (ep.model = "Fragment" /\ \E v \in Range(ep.iface) : "FragDepth" \in BuiltInsOf(v, -1)) => <<ep.fn, "DepthReplacing">> \in m.modes,
       "Vulkan: writing FragDepth needs the DepthReplacing execution mode">>,
     <<\A ep \in EPs : ep.model # "Fragment" => \A f \in Tree(ep) : ~FnRec(f, F).frag,
       "an instruction that needs the Fragment execution model is reachable from another kind of entry point">>,
     <<\A ep \in EPs : \A v \in Resources(ep) : HasDeco(v, -1, "DescriptorSet") /\ HasDeco(v, -1, "Binding"),
       "Vulkan: resource variable used by an entry point without DescriptorSet and Binding">>,
     <<\A ep \in EPs : Cardinality({v \in Used(ep) : D(v).sc = "PushConstant"}) <= 1, "Vulkan: an entry point uses more than one PushConstant variable">> >>

ModuleEnd(e, p) == Judge(e, p, ModuleEndRules, [m EXCEPT !.phase = 99])

\* ---- one step of the automaton on event e at position p ------------------------------------------------------------------
Class(e) == IF e.ev = "header" THEN "header" ELSE IF e.ev = "end" THEN "end" ELSE ClassOf(e.op)

IsUnmodelled(e) ==
  LET cls == Class(e) IN
  cls = "unmodelled" \/ (cls = "extinst" /\ ~GlslKnown(e)) \/ (cls = "constant" /\ m.fn.id # 0)

Step(e, p) ==
  LET cls == Class(e) IN
  IF m.dead THEN UNCHANGED vars                                  \* the module was rejected: consume without judging
  ELSE IF e.ev = "inst" /\ e.short = 1 THEN
       notes' = notes /\ Judge(e, p, << <<FALSE, "instruction has fewer words than its operands need or runs past the end of the module">> >>, m)
  ELSE IF IsUnmodelled(e) THEN Unmodelled(e, p)
  ELSE /\ notes' = notes
       /\ CASE cls = "header" -> Header(e, p)
            [] cls = "end" -> ModuleEnd(e, p)
            [] cls = "capability" -> Capability(e, p)
            [] cls = "extension" -> Extension(e, p)
            [] cls = "extimport" -> ExtImport(e, p)
            [] cls = "memmodel" -> MemoryModel(e, p)
            [] cls = "entrypoint" -> EntryPoint(e, p)
            [] cls = "execmode" -> ExecutionMode(e, p)
            [] cls = "debug" -> Debug(e, p)
            [] cls = "decorate" -> Decorate(e, p)
            [] cls = "type" -> TypeDecl(e, p)
            [] cls = "constant" -> ConstDecl(e, p)
            [] cls = "variable" -> (IF m.fn.id # 0 THEN LocalVariable(e, p) ELSE GlobalVariable(e, p))
            [] cls = "function" -> Function(e, p)
            [] cls = "param" -> FunctionParameter(e, p)
            [] cls = "label" -> Label(e, p)
            [] cls = "merge" -> Merge(e, p)
            [] cls = "term" -> Terminator(e, p)
            [] cls = "phi" -> Phi(e, p)
            [] cls = "fend" -> FunctionEnd(e, p)
            [] cls = "nop" -> Nop(e, p)
            [] cls \in BodyClasses -> BodyInst(e, p)
=============================================================================
