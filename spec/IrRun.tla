------------------------------- MODULE IrRun -------------------------------
(* Evaluates the cases of ircases.ndjson with IrSem and prints, per case,   *)
(* the well-formedness errors of the module and the final buffer contents   *)
(* of every input row.  One state per case (the style of WgslRun.tla).      *)
(* A case: [id, m (module), ep (entry point name), bufs (<<group,binding>>  *)
(* per input buffer), rows (row -> buffer -> words)].                       *)
EXTENDS IrSem, Json, SequencesExt

Cases == ndJsonDeserialize("ircases.ndjson")

VARIABLE i
Init == i = 0
Next == /\ i < Len(Cases)
        /\ i' = i + 1
        /\ LET c == Cases[i + 1]
               P == Prep(c.m)
           IN  PrintT("@@" \o ToJson([id |-> c.id, wf |-> SetToSeq(WFErrors(P)),
                                      rows |-> [r \in 1 .. Len(c.rows) |-> RunI(P, c.ep, c.bufs, c.rows[r])]]))
Spec == Init /\ [][Next]_i
=============================================================================
