------------------------------ MODULE SpvEmit -------------------------------
(***************************************************************************)
(* Design-level model for SpvValid.tla: an abstract SPIR-V emitter.        *)
(*                                                                         *)
(* The emitter writes one compute module: preamble (capability, memory     *)
(* model, entry point, execution mode, a BuiltIn decoration), a handful of *)
(* types / constants / one Input variable, and up to MaxFns functions with *)
(* up to MaxBlocks blocks each.  It is nondeterministic in                 *)
(*   - the order in which functions are emitted (calls may be forward),    *)
(*   - the control-flow shape of every function: at each block it may      *)
(*     finish, open an if-then, an if-then-else or a loop (header, body    *)
(*     with a break-or-continue two-way branch that needs no merge of its  *)
(*     own, continue block with the back-edge),                            *)
(*   - the order in which pending blocks are written (any order in which   *)
(*     dominators come first),                                             *)
(*   - the values computed (an OpIAdd over any value that dominates).      *)
(* Every event goes through SpvValid!Step.  With Faults = {} the invariant *)
(* NoBad states that the automaton accepts every disciplined emission      *)
(* (the rules are satisfiable in all emission orders); Completed modules   *)
(* are printed so that the harness can see which shapes were reached.      *)
(* Every behaviour carries one fault em.fault from Faults \cup {"none"},    *)
(* chosen initially.  With fault f the emitter deviates in exactly the way *)
(* f names (with a block / function budget just large enough for f) and    *)
(* stops at the first rejection.  Properties: NoBad - a fault-free         *)
(* emission is never rejected; Caught - no deviating module reaches its    *)
(* end accepted; RejectPrint reports <<fault, rule>> of every rejection so *)
(* that the harness can require each fault to be rejected by the rule      *)
(* meant for it.  With Faults = {f} NoBadAtAll must be reported violated.  *)
(***************************************************************************)
EXTENDS SpvValid, Json

CONSTANTS MaxFns, MaxBlocks, Faults

VARIABLE em
evars == <<vars, em>>

Bound == 240
\* fixed ids
Void == 1  Bool == 2  U32 == 3  FnTy == 4  True == 5  One == 6  V3 == 7  PtrIn == 8  Gid == 9
FnTy1 == Bound - 3           \* void(u32): the type of every helper function
FnId(i) == 9 + i             \* function i (1 = the entry point "main"; i > 1: helpers with one u32 parameter)
K == IF MaxFns > 2 THEN MaxFns ELSE 2      \* id layout: room for at least two functions
FirstFree == 10 + K

Ins(op, t, r, ids, lits, en, s) == [ev |-> "inst", op |-> op, t |-> t, r |-> r, ids |-> ids, lits |-> lits, en |-> en, s |-> s, short |-> 0]

Preamble(F) ==
  LET hdr == [ev |-> "header", magic |-> 119734787, vmajor |-> 1, vminor |-> 3, vrest |-> 0,
              bound |-> IF "bad_bound" = F THEN 10 ELSE Bound, schema |-> 0]
      cap == IF "missing_capability" = F THEN <<>> ELSE <<Ins("OpCapability", 0, 0, <<>>, <<>>, <<"Shader">>, "")>>
      mm  == <<Ins("OpMemoryModel", 0, 0, <<>>, <<>>, <<"Logical", "GLSL450">>, "")>>
      ep  == Ins("OpEntryPoint", 0, 0, IF "missing_interface" = F THEN <<FnId(1)>> ELSE <<FnId(1), Gid>>, <<>>, <<"GLCompute">>, "main")
      xm  == Ins("OpExecutionMode", 0, 0, <<FnId(1)>>, <<1, 1, 1>>, <<"LocalSize">>, "")
      dec == IF "undecorated_input" = F THEN <<>> ELSE <<Ins("OpDecorate", 0, 0, <<Gid>>, <<28>>, <<"BuiltIn", "GlobalInvocationId">>, "")>>
      u32 == Ins("OpTypeInt", 0, U32, <<>>, <<32, 0>>, <<>>, "")
  IN <<hdr>> \o (IF "wrong_section" = F THEN mm \o cap ELSE cap \o mm) \o <<ep, xm>> \o dec \o
     << Ins("OpTypeVoid", 0, Void, <<>>, <<>>, <<>>, ""), Ins("OpTypeBool", 0, Bool, <<>>, <<>>, <<>>, ""), u32 >>
     \o (IF "dup_type" = F THEN <<[u32 EXCEPT !.r = Bound - 1]>> ELSE <<>>) \o
     << Ins("OpTypeFunction", 0, FnTy, <<Void>>, <<>>, <<>>, ""), Ins("OpTypeFunction", 0, FnTy1, <<Void, U32>>, <<>>, <<>>, "") >>
     \o (IF "dup_fn_type" = F THEN <<Ins("OpTypeFunction", 0, Bound - 4, <<Void, U32>>, <<>>, <<>>, "")>> ELSE <<>>) \o
     << Ins("OpConstantTrue", Bool, True, <<>>, <<>>, <<>>, ""),
        Ins("OpConstant", U32, One, <<>>, <<1>>, <<>>, ""), Ins("OpTypeVector", 0, V3, <<U32>>, <<3>>, <<>>, ""),
        Ins("OpTypePointer", 0, PtrIn, <<V3>>, <<>>, <<"Input">>, ""), Ins("OpVariable", PtrIn, Gid, <<>>, <<>>, <<"Input">>, "") >>

\* em: q = events still to be written; todo = functions not yet emitted; f = function in progress (0: none);
\* pend = blocks of f announced but not yet written; nb = blocks announced so far in f; nid = next fresh id;
\* inj = a fault was actually injected; done = "end" was written; shapes = constructs used (for the harness)
\* budgets: the full ones without a fault, just enough for the fault otherwise
FnFaults == {"param_type_mismatch", "missing_param", "extra_param", "call_arg_mismatch", "call_arg_count", "fn_ret_mismatch"}
FnBudget(F) == IF F = "none" THEN MaxFns ELSE IF F \in FnFaults \cup {"recursion"} THEN 2 ELSE 1
BlockBudget(F) == IF F = "none" THEN MaxBlocks ELSE IF F = "backedge_nonheader" THEN 5 ELSE IF F \in FnFaults THEN 1 ELSE 3
EInit == /\ Init
         /\ \E F \in Faults \cup {"none"} :
              em = [fault |-> F, q |-> Preamble(F), todo |-> 1..FnBudget(F), f |-> 0, pend |-> {}, nb |-> 0, nid |-> FirstFree, n |-> 1,
                    inj |-> F \in {"bad_bound", "missing_capability", "missing_interface", "undecorated_input", "wrong_section", "dup_type", "dup_fn_type"} \cup FnFaults,
                    done |-> FALSE, shapes |-> {}]

\* write the next queued event
Write == /\ em.q # <<>>
         /\ Step(Head(em.q), em.n)
         /\ em' = [em EXCEPT !.q = Tail(em.q), !.n = em.n + 1]

\* start a function: main calls every helper and reads the Input variable; helper i calls nobody
\* (fault "recursion": a helper calls itself)
\* helpers (i > 1) have the type void(u32) and one OpFunctionParameter; faults: the parameter declared with another type,
\* left out, or declared twice; the OpFunction's result type differing from the function type's return type
StartFn == /\ em.q = <<>> /\ em.f = 0 /\ em.todo # {}
           /\ \E i \in em.todo :
                LET helper == i # 1
                    np == IF ~helper \/ em.fault = "missing_param" THEN 0 ELSE IF em.fault = "extra_param" THEN 2 ELSE 1
                    ps == [j \in 1..np |-> Ins("OpFunctionParameter", IF em.fault = "param_type_mismatch" THEN Bool ELSE U32, em.nid + j - 1, <<>>, <<>>, <<>>, "")]
                    entry == em.nid + np
                    rt == IF em.fault = "fn_ret_mismatch" /\ helper THEN Bool ELSE Void IN
                em' = [em EXCEPT !.q = <<Ins("OpFunction", rt, FnId(i), <<IF helper THEN FnTy1 ELSE FnTy>>, <<0>>, <<>>, "")>> \o ps,
                                 !.f = i, !.todo = em.todo \ {i},
                                 !.pend = {[id |-> entry, kind |-> "plain", after |-> 0, avail |-> {One}, a |-> 0, b |-> 0, c |-> 0, entry |-> TRUE]},
                                 !.nb = 1, !.nid = entry + 1]
           /\ UNCHANGED vars

\* the straight-line part of a block: label, (entry block) calls / load, optionally one OpIAdd
BlockHead(blk, useVal, operand, vid) ==
  <<Ins("OpLabel", 0, blk.id, <<>>, <<>>, <<>>, "")>> \o
  (IF blk.entry /\ em.f = 1
   THEN [j \in 1..(FnBudget(em.fault) - 1) |->
           Ins("OpFunctionCall", Void, vid + j,
               <<FnId(j + 1)>> \o (IF em.fault = "call_arg_count" THEN <<>> ELSE <<IF em.fault = "call_arg_mismatch" THEN True ELSE One>>), <<>>, <<>>, "")]
        \o <<Ins("OpLoad", V3, vid + K, <<Gid>>, <<>>, <<>>, "")>>
   ELSE IF blk.entry /\ em.fault = "recursion" THEN <<Ins("OpFunctionCall", Void, vid + 1, <<FnId(em.f), One>>, <<>>, <<>>, "")>>
   ELSE <<>>) \o
  (IF useVal THEN <<Ins("OpIAdd", U32, IF em.fault = "dup_id" THEN One ELSE vid, <<operand, IF em.fault = "wrong_operand_type" THEN True ELSE operand>>, <<>>, <<>>, "")>> ELSE <<>>)

Br(t) == Ins("OpBranch", 0, 0, <<t>>, <<>>, <<>>, "")
CBr(t, f) == Ins("OpBranchConditional", 0, 0, <<True, t, f>>, <<>>, <<>>, "")
Finish(blk) == IF em.fault = "unterminated_block" THEN <<>>
               ELSE IF blk.after = 0 THEN <<Ins("OpReturn", 0, 0, <<>>, <<>>, <<>>, "")>> ELSE <<Br(blk.after)>>
P(id, kind, after, avail, a, b, c) == [id |-> id, kind |-> kind, after |-> after, avail |-> avail, a |-> a, b |-> b, c |-> c, entry |-> FALSE]

\* write one pending block (any of them: emission orders) and announce the blocks it leads to
WriteBlock ==
  /\ em.q = <<>> /\ em.f # 0 /\ em.pend # {}
  /\ \E blk \in em.pend : \E useVal \in BOOLEAN :
       \E operand \in (IF useVal THEN blk.avail \cup (IF em.fault = "use_before_def" THEN {Bound - 2} ELSE {}) ELSE {One}) :
       LET vid == em.nid                                  \* ids vid .. vid+K are reserved for this block's values
           base == em.nid + K + 1                    \* fresh labels start here
           av == IF useVal /\ em.fault # "dup_id" THEN blk.avail \cup {vid} ELSE blk.avail
           head == BlockHead(blk, useVal, operand, vid)
           rest == em.pend \ {blk}
           room == BlockBudget(em.fault) - em.nb
           inj == em.inj \/ (em.fault \in {"dup_id", "wrong_operand_type"} /\ useVal) \/ (em.fault = "use_before_def" /\ operand = Bound - 2)
                         \/ (em.fault = "recursion" /\ blk.entry /\ em.f # 1) \/ em.fault = "unterminated_block"
       IN
       \/ /\ blk.kind = "plain"                            \* finish: return or branch to the continuation
          \* fault nondominating_use: the continuation block (still pending) may use the value computed here,
          \* although this block does not dominate it
          /\ LET leak == em.fault = "nondominating_use" /\ useVal /\ blk.after # 0 /\ \E p \in rest : p.id = blk.after IN
             em' = [em EXCEPT !.q = head \o Finish(blk), !.nid = base, !.inj = inj,
                              !.pend = IF leak THEN {IF p.id = blk.after THEN [p EXCEPT !.avail = {vid}] ELSE p : p \in rest} ELSE rest]
       \/ /\ blk.kind = "plain" /\ room >= 2              \* if-then: T, M
          /\ LET T == base  M == base + 1
                 mAvail == av IN
             em' = [em EXCEPT !.q = head \o (IF em.fault = "missing_merge" THEN <<>> ELSE <<Ins("OpSelectionMerge", 0, 0, <<M>>, <<0>>, <<>>, "")>>) \o <<CBr(T, M)>>,
                              !.pend = rest \cup {P(T, "plain", M, av, 0, 0, 0), P(M, "plain", blk.after, mAvail, 0, 0, 0)},
                              !.nb = em.nb + 2, !.nid = base + 2, !.inj = inj \/ em.fault = "missing_merge", !.shapes = em.shapes \cup {"if"}]
       \/ /\ blk.kind = "plain" /\ room >= 3              \* if-then-else: T, E, M
          /\ LET T == base  E == base + 1  M == base + 2 IN
             em' = [em EXCEPT !.q = head \o <<Ins("OpSelectionMerge", 0, 0, <<M>>, <<0>>, <<>>, ""), CBr(T, E)>>,
                              !.pend = rest \cup {P(T, "plain", M, av, 0, 0, 0), P(E, "plain", M, av, 0, 0, 0), P(M, "plain", blk.after, av, 0, 0, 0)},
                              !.nb = em.nb + 3, !.nid = base + 3, !.inj = inj, !.shapes = em.shapes \cup {"ifelse"}]
       \/ /\ blk.kind = "plain" /\ room >= 4              \* loop: H (header), B (body), C (continue), M (merge)
          /\ LET H == base  B == base + 1  C == base + 2  M == base + 3 IN
             em' = [em EXCEPT !.q = head \o <<Br(H)>>, !.pend = rest \cup {P(H, "hdr", blk.after, av, B, C, M)},
                              !.nb = em.nb + 4, !.nid = base + 4, !.inj = inj, !.shapes = em.shapes \cup {"loop"}]
       \/ /\ blk.kind = "hdr"                              \* OpLoopMerge M C; OpBranch B
          /\ em' = [em EXCEPT !.q = head \o <<Ins("OpLoopMerge", 0, 0, <<blk.c, blk.b>>, <<0>>, <<>>, ""), Br(blk.a)>>,
                              !.pend = rest \cup {P(blk.a, "body", blk.after, av, blk.id, blk.b, blk.c)}, !.nid = base, !.inj = inj]
       \/ /\ blk.kind = "body"                             \* break or continue: a two-way branch that needs no merge of its own
          /\ em' = [em EXCEPT !.q = head \o <<CBr(blk.c, blk.b)>>,
                              !.pend = rest \cup {P(blk.b, "cont", 0, av, IF em.fault = "backedge_nonheader" THEN blk.id ELSE blk.a, 0, 0),
                                                  P(blk.c, "plain", blk.after, av, 0, 0, 0)},
                              !.nid = base, !.inj = inj \/ em.fault = "backedge_nonheader"]
       \/ /\ blk.kind = "cont"                             \* the back-edge
          /\ em' = [em EXCEPT !.q = head \o <<Br(blk.a)>>, !.pend = rest, !.nid = base, !.inj = inj]
  /\ UNCHANGED vars

EndFn == /\ em.q = <<>> /\ em.f # 0 /\ em.pend = {}
         /\ em' = [em EXCEPT !.q = <<Ins("OpFunctionEnd", 0, 0, <<>>, <<>>, <<>>, "")>>, !.f = 0]
         /\ UNCHANGED vars

EndModule == /\ em.q = <<>> /\ em.f = 0 /\ em.todo = {} /\ ~em.done
             /\ Step([ev |-> "end"], em.n)
             /\ em' = [em EXCEPT !.done = TRUE, !.n = em.n + 1]

\* a behaviour with a fault stops at the first rejection
ENext == (em.fault = "none" \/ bad = <<>>) /\ (Write \/ StartFn \/ WriteBlock \/ EndFn \/ EndModule)
ESpec == EInit /\ [][ENext]_evars

\* ---- properties ----------------------------------------------------------------------------------------------
NoBad  == em.fault = "none" => bad = <<>>                    \* every disciplined emission is accepted
Caught == ~(em.done /\ em.inj /\ bad = <<>>)                 \* no deviating module is accepted
NoBadAtAll == bad = <<>>                                     \* per-fault runs: TLC must report this violated
NoNotes == notes = {}
\* listed before NoBad in fault runs: names the rule that caught the fault
RejectPrint == bad # <<>> => PrintT("@@" \o ToJson([fault |-> em.fault, rejected |-> bad[1].rule, op |-> bad[1].op]))
\* completed modules, for the harness (shape coverage)
EmitDone == (em.done /\ em.fault = "none") => PrintT("@@" \o ToJson([shapes |-> em.shapes]))
=============================================================================
