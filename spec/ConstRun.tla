------------------------------ MODULE ConstRun ------------------------------
(* Evaluates the cases of cases.ndjson with ConstEval: per case the          *)
(* const-expression verdict (value / error / undecided, maybe-rule), the     *)
(* run-time value of the same tree, the lemma ConstValue = RunValue, the     *)
(* typing check, and - when the case carries an observation - the Judge      *)
(* verdict on what naga did.  One state per case.                            *)
EXTENDS ConstEval

Cases == ndJsonDeserialize("cases.ndjson")

Out(c) ==
  LET e == c.e  r == CV(e)  rv == RunValue(e) IN
  [id |-> c.id, s |-> r.s, why |-> r.why, m |-> r.m,
   v  |-> IF r.s = "ok" THEN Flat(e.t, r.v) ELSE <<>>,
   rs |-> rv.s, rv |-> IF rv.s = "ok" THEN Flat(e.t, rv.v) ELSE <<>>,
   lem |-> Lemma2(e, r, rv), ty |-> B(TypeOK(e)),
   j |-> IF "obs" \in DOMAIN c THEN Judge2(e, r, c.obs) ELSE ""]

VARIABLE i
Init == i = 0
Next == /\ i < Len(Cases)
        /\ i' = i + 1
        /\ PrintT("@@" \o ToJson(Out(Cases[i + 1])))
Spec == Init /\ [][Next]_i
=============================================================================
