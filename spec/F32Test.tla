------------------------------ MODULE F32Test ------------------------------
(* Self-test of F32: a table over a grid of bit patterns, recomputed natively (Go float32) by the harness. *)
EXTENDS F32, Json, SequencesExt, TLC

\* 0, -0, 1, -1, 0.5, 1.5, 2, 3, 0.1, 1/3, 2^23, 2^24-1, 2^24, 16777217 is not representable, 1e-3, 255.75, -7.25, 6.5, 2.5, 3.5,
\* 1e20, 1e-20, max normal, min normal, 2^31, -2^31, 4294967040 (largest f32 below 2^32), 1.00000012, 0.99999994, 100, 65536
Grid == { 0, MinI, 1065353216, FNegOne, 1056964608, 1069547520, 1073741824, 1077936128, 1036831949, 1051372203,
          1258291200, 1266679807, 1266679808, 981668463, 1132445696, 1088421888 + MinI, 1087373312, 1075838976, 1080033280,
          1621981420, 507307272, 2139095039, 8388608, 1325400064, 1325400064 + MinI, 1333788671, 1065353217, 1065353215,
          1120403456, 1199570944, 1082130432, 1091567616, 1048576000 }

B(x) == IF x THEN 1 ELSE 0
Row(a, b) ==
  [ a |-> a, b |-> b,
    addok |-> B(FAddOk(a, b)), add |-> IF FAddOk(a, b) THEN FAdd(a, b) ELSE 0,
    subok |-> B(FSubOk(a, b)), sub |-> IF FSubOk(a, b) THEN FSub(a, b) ELSE 0,
    mulok |-> B(FMulOk(a, b)), mul |-> IF FMulOk(a, b) THEN FMul(a, b) ELSE 0,
    mulex |-> B(FMulOk(a, b) /\ FMulExact(a, b)),
    divok |-> B(FDivOk(a, b)), div |-> IF FDivOk(a, b) THEN FDiv(a, b) ELSE 0,
    lt |-> B(FLt(a, b)), le |-> B(FLe(a, b)), eq |-> B(FEq(a, b)),
    floor |-> FFloor(a), ceil |-> FCeil(a), trunc |-> FTrunc(a), round |-> FRound(a),
    tos |-> FToS(a), tou |-> FToU(a),
    sqrtok |-> B(FSqrtOk(a)), sqrt |-> IF FSqrtOk(a) THEN FSqrt(a) ELSE 0 ]
IntGrid == { 0, 1, -1, 2, 3, 7, 255, 65535, 65536, 16777215, 16777216, 16777217, 16777218, 33554432, 33554434, MaxI, MinI, MinI + 1,
             -16777216, -16777217, 1073741824, -1073741824, 2147483520, -256, 4080, 123456789 }
IRow(n) == [ n |-> n, sok |-> B(SToFOk(n)), s |-> IF SToFOk(n) THEN SToF(n) ELSE 0,
             uok |-> B(UToFOk(n)), u |-> IF UToFOk(n) THEN UToF(n) ELSE 0 ]

ASSUME ndJsonSerialize("f32_table.ndjson", SetToSeq({ Row(a, b) : a \in Grid, b \in Grid }))
ASSUME ndJsonSerialize("f32_itable.ndjson", SetToSeq({ IRow(n) : n \in IntGrid }))
VARIABLE x
Init == x = 0
Next == UNCHANGED x
=============================================================================
