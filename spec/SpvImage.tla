------------------------------ MODULE SpvImage ------------------------------
(***************************************************************************)
(* Image instructions (SPIR-V 3.42.10, "Image Operands" 3.14), extended    *)
(* instructions of GLSL.std.450, non-uniform group instructions (3.42.24)  *)
(* and ray queries (SPV_KHR_ray_query).                                    *)
(* Image type parameters: Img(t) = <<Dim, Depth, Arrayed, MS, Sampled,     *)
(* Format>>;  Elem(t) of an image type is its Sampled Type, of a sampled   *)
(* image type the image type.                                              *)
(***************************************************************************)
EXTENDS SpvBody

\* number of <id>s an image-operands mask announces: Bias 1, Lod 2, Grad 4 (two ids), ConstOffset 8, Offset 16,
\* ConstOffsets 32, Sample 64, MinLod 128
Bit(v, b) == (v \div b) % 2
MaskIds(v) == Bit(v, 1) + Bit(v, 2) + 2 * Bit(v, 4) + Bit(v, 8) + Bit(v, 16) + Bit(v, 32) + Bit(v, 64) + Bit(v, 128)
\* position (1-based, among the ids after the fixed operands) of the id that belongs to mask bit b
MaskPos(v, b) == 1 + (IF b > 1 THEN Bit(v, 1) ELSE 0) + (IF b > 2 THEN Bit(v, 2) ELSE 0) + (IF b > 4 THEN 2 * Bit(v, 4) ELSE 0)
                   + (IF b > 8 THEN Bit(v, 8) ELSE 0) + (IF b > 16 THEN Bit(v, 16) ELSE 0) + (IF b > 32 THEN Bit(v, 32) ELSE 0)
                   + (IF b > 64 THEN Bit(v, 64) ELSE 0)

SizeDims(d) == CASE d = 0 -> 1 [] d = 1 -> 2 [] d = 2 -> 3 [] d = 3 -> 2 [] d = 4 -> 2 [] d = 5 -> 1 [] OTHER -> 0

\* rules shared by the instructions that take image operands; fixed = number of fixed id operands,
\* kind: "implicit" | "explicit" | "fetch" | "gather" | "rw"
ImageOperandRules(e, fixed, kind, im) ==
  LET has == NLits(e) >= 1  v == IF has THEN Lit(e, 1) ELSE 0
      opnd(b) == Id(e, fixed + MaskPos(v, b)) IN
  << <<v >= 0 /\ v < 256, "image operands: unknown mask bits">>,
     <<NIds(e) = fixed + MaskIds(v), "image operands: the number of ids does not match the mask">>,
     <<kind # "explicit" \/ Bit(v, 2) = 1 \/ Bit(v, 4) = 1, "explicit-lod sampling needs the Lod or Grad image operand">>,
     <<kind # "implicit" \/ (Bit(v, 2) = 0 /\ Bit(v, 4) = 0), "Lod / Grad are not allowed with implicit-lod sampling">>,
     <<Bit(v, 1) = 0 \/ kind = "implicit", "Bias is only allowed with implicit-lod sampling">>,
     <<Bit(v, 1) = 0 \/ IsFloatS(ValTy(opnd(1))), "Bias must be a float scalar">>,
     <<Bit(v, 2) = 0 \/ kind \in {"explicit", "fetch"}, "Lod is only allowed with explicit-lod sampling and fetch">>,
     <<Bit(v, 2) = 0 \/ (IF kind = "fetch" THEN IsIntS(ValTy(opnd(2))) ELSE IsFloatS(ValTy(opnd(2)))), "Lod must be a float scalar (an int scalar for fetch)">>,
     <<Bit(v, 2) = 0 \/ im[4] = 0, "Lod requires a single-sampled image">>,
     <<Bit(v, 8) = 0 \/ D(opnd(8)).k = "const", "ConstOffset must be a constant">>,
     <<Bit(v, 8) = 0 \/ IsIntSV(ValTy(opnd(8))), "ConstOffset must be an int scalar or vector">>,
     <<Bit(v, 16) = 0 \/ "ImageGatherExtended" \in m.capsC, "Offset needs the ImageGatherExtended capability">>,
     <<Bit(v, 8) + Bit(v, 16) + Bit(v, 32) <= 1, "at most one of ConstOffset, Offset, ConstOffsets">>,
     <<Bit(v, 64) = 0 \/ (kind \in {"fetch", "rw"} /\ im[4] = 1), "Sample is only allowed for fetch/read/write of a multisampled image">>,
     <<Bit(v, 64) = 0 \/ IsIntS(ValTy(opnd(64))), "Sample must be an int scalar">> >>

SampleOps == {"OpImageSampleImplicitLod", "OpImageSampleExplicitLod", "OpImageSampleDrefImplicitLod", "OpImageSampleDrefExplicitLod",
              "OpImageSampleProjImplicitLod", "OpImageSampleProjExplicitLod", "OpImageSampleProjDrefImplicitLod",
              "OpImageSampleProjDrefExplicitLod"}
IsDref(op) == op \in {"OpImageSampleDrefImplicitLod", "OpImageSampleDrefExplicitLod", "OpImageSampleProjDrefImplicitLod",
                      "OpImageSampleProjDrefExplicitLod", "OpImageDrefGather"}
IsProj(op) == op \in {"OpImageSampleProjImplicitLod", "OpImageSampleProjExplicitLod", "OpImageSampleProjDrefImplicitLod",
                      "OpImageSampleProjDrefExplicitLod"}
IsImplicit(op) == op \in {"OpImageSampleImplicitLod", "OpImageSampleDrefImplicitLod", "OpImageSampleProjImplicitLod",
                          "OpImageSampleProjDrefImplicitLod"}
\* instructions that are only valid in the Fragment execution model (implicit derivatives; 3.42.10 / 3.42.16, OpKill)
FragmentOnly(op) == IsImplicit(op) \/ op = "OpImageQueryLod" \/ ClassOf(op) = "derivative" \/ op \in {"OpKill", "OpTerminateInvocation"}

Texel4OK(rt, sampled) == IsVec(rt) /\ Count(rt) = 4 /\ (IsIntS(Elem(rt)) \/ IsFloatS(Elem(rt))) /\ (TK(sampled) = "void" \/ Elem(rt) = sampled)

ImageRules(e) ==
  LET op == e.op  rt == e.t  a == A(e, 1)  b == A(e, 2)  c == A(e, 3) IN
  CASE op = "OpSampledImage" ->
         << <<NIds(e) = 2, "operand count">>, <<TK(rt) = "simg", "result type must be a sampled-image type">>,
            <<TK(a) = "image" /\ a = Elem(rt), "image operand must have the image type of the result type">>,
            <<Img(a)[5] \in {0, 1}, "the image must have Sampled 0 or 1">>, <<TK(b) = "sampler", "sampler operand must have a sampler type">> >>
    [] op \in SampleOps ->
         LET it == Elem(a)  im == Img(it)  fixed == IF IsDref(op) THEN 3 ELSE 2
             need == DimCoords(im[1]) + im[3] + (IF IsProj(op) THEN 1 ELSE 0) IN
         << <<TK(a) = "simg", "first operand must be a sampled image">>,
            <<IF IsDref(op) THEN (IsIntS(rt) \/ IsFloatS(rt)) /\ rt = Elem(it) ELSE Texel4OK(rt, Elem(it)),
              "result type must be a 4-component vector of the sampled type (the scalar sampled type for Dref)">>,
            <<im[4] = 0, "sampling a multisampled image">>,
            <<IsFloatSV(b) /\ Dim(b) >= need, "coordinate must be a float with at least dim + arrayed components">>,
            <<~IsDref(op) \/ (IsFloatS(c) /\ D(c).w = 32), "Dref must be a 32-bit float scalar">> >>
         \o ImageOperandRules(e, fixed, IF IsImplicit(op) THEN "implicit" ELSE "explicit", im)
    [] op = "OpImageFetch" ->
         LET im == Img(a) IN
         << <<TK(a) = "image", "first operand must be an image">>, <<Texel4OK(rt, Elem(a)), "result type must be a 4-component vector of the sampled type">>,
            <<im[5] = 1, "fetch needs an image with Sampled 1">>, <<im[1] # 3, "fetch from a Cube image">>,
            <<IsIntSV(b) /\ Dim(b) >= DimCoords(im[1]) + im[3], "coordinate must be an int with at least dim + arrayed components">> >>
         \o ImageOperandRules(e, 2, "fetch", im)
    [] op \in {"OpImageGather", "OpImageDrefGather"} ->
         LET it == Elem(a)  im == Img(it) IN
         << <<TK(a) = "simg", "first operand must be a sampled image">>, <<Texel4OK(rt, Elem(it)), "result type must be a 4-component vector of the sampled type">>,
            <<im[1] \in {1, 3, 4}, "gather needs a 2D, Cube or Rect image">>, <<im[4] = 0, "gather from a multisampled image">>,
            <<IsFloatSV(b) /\ Dim(b) >= DimCoords(im[1]) + im[3], "coordinate must be a float with at least dim + arrayed components">>,
            <<IF op = "OpImageGather" THEN IsInt32S(c) ELSE IsFloatS(c) /\ D(c).w = 32, "component must be a 32-bit int scalar / Dref a 32-bit float scalar">> >>
         \o ImageOperandRules(e, 3, "gather", im)
    [] op = "OpImageRead" ->
         LET im == Img(a) IN
         << <<TK(a) = "image", "first operand must be an image">>,
            <<(IsIntSV(rt) \/ IsFloatSV(rt)) /\ (TK(Elem(a)) = "void" \/ Comp(rt) = Elem(a)), "result component type must be the sampled type">>,
            <<Dim(rt) = 4, "Vulkan: OpImageRead result type must have 4 components">>,
            <<im[5] \in {0, 2}, "read needs an image with Sampled 0 or 2">>,
            <<IsIntSV(b) /\ Dim(b) >= DimCoords(im[1]) + im[3], "coordinate must be an int with at least dim + arrayed components">>,
            <<im[6] # 0 \/ im[1] = 6 \/ "StorageImageReadWithoutFormat" \in m.capsC, "read of an Unknown-format image needs StorageImageReadWithoutFormat">> >>
         \o ImageOperandRules(e, 2, "rw", im)
    [] op = "OpImageWrite" ->
         LET im == Img(a) IN
         << <<TK(a) = "image", "first operand must be an image">>, <<im[5] \in {0, 2}, "write needs an image with Sampled 0 or 2">>,
            <<IsIntSV(b) /\ Dim(b) >= DimCoords(im[1]) + im[3], "coordinate must be an int with at least dim + arrayed components">>,
            <<(IsIntSV(c) \/ IsFloatSV(c)) /\ (TK(Elem(a)) = "void" \/ Comp(c) = Elem(a)), "texel component type must be the sampled type">>,
            <<im[6] # 0 \/ im[1] = 6 \/ "StorageImageWriteWithoutFormat" \in m.capsC, "write of an Unknown-format image needs StorageImageWriteWithoutFormat">> >>
         \o ImageOperandRules(e, 3, "rw", im)
    [] op = "OpImage" ->
         << <<NIds(e) = 1, "operand count">>, <<TK(a) = "simg" /\ rt = Elem(a), "result type must be the image type of the sampled image">> >>
    [] op = "OpImageQuerySizeLod" ->
         LET im == Img(a) IN
         << <<NIds(e) = 2, "operand count">>, <<TK(a) = "image", "first operand must be an image">>,
            <<IsIntSV(rt) /\ Dim(rt) = SizeDims(im[1]) + im[3], "result must be an int with dim + arrayed components">>,
            <<im[1] \in {0, 1, 2, 3}, "image must be 1D, 2D, 3D or Cube">>, <<im[4] = 0, "image must be single-sampled">>,
            <<im[5] = 1, "Vulkan: OpImageQuerySizeLod needs an image with Sampled 1">>, <<IsIntS(b), "level of detail must be an int scalar">> >>
    [] op = "OpImageQuerySize" ->
         LET im == Img(a) IN
         << <<NIds(e) = 1, "operand count">>, <<TK(a) = "image", "first operand must be an image">>,
            <<IsIntSV(rt) /\ Dim(rt) = SizeDims(im[1]) + im[3], "result must be an int with dim + arrayed components">>,
            <<im[1] \in {0, 1, 2, 3, 4, 5}, "image dimension not queryable">>,
            <<im[1] \in {4, 5} \/ im[4] = 1 \/ im[5] \in {0, 2}, "image must be multisampled or have Sampled 0 or 2">> >>
    [] op = "OpImageQueryLevels" ->
         LET im == Img(a) IN
         << <<NIds(e) = 1, "operand count">>, <<TK(a) = "image", "first operand must be an image">>, <<IsIntS(rt), "result type must be an int scalar">>,
            <<im[1] \in {0, 1, 2, 3}, "image must be 1D, 2D, 3D or Cube">>, <<im[5] = 1, "Vulkan: OpImageQueryLevels needs an image with Sampled 1">> >>
    [] op = "OpImageQuerySamples" ->
         LET im == Img(a) IN
         << <<NIds(e) = 1, "operand count">>, <<TK(a) = "image", "first operand must be an image">>, <<IsIntS(rt), "result type must be an int scalar">>,
            <<im[1] = 1 /\ im[4] = 1, "image must be 2D and multisampled">> >>
    [] op = "OpImageQueryLod" ->
         << <<NIds(e) = 2, "operand count">>, <<TK(a) = "simg", "first operand must be a sampled image">>,
            <<IsVec(rt) /\ Count(rt) = 2 /\ IsFloatS(Elem(rt)), "result type must be a 2-component float vector">>, <<IsFloatSV(b), "coordinate must be a float">> >>
    [] op = "OpImageTexelPointer" ->
         LET it == Pointee(a)  im == Img(it) IN
         << <<NIds(e) = 3, "operand count">>, <<IsPtr(rt) /\ PtrSC(rt) = "Image", "result type must be a pointer in the Image storage class">>,
            <<IsPtr(a) /\ TK(it) = "image", "image operand must be a pointer to an image">>,
            <<Pointee(rt) = Elem(it), "result pointee must be the image's sampled type">>,
            <<IsIntSV(b) /\ Dim(b) = DimCoords(im[1]) + im[3], "coordinate must be an int with exactly dim + arrayed components">>,
            <<IsIntS(c), "sample must be an int scalar">> >>
    [] OTHER -> << <<FALSE, "spec: unclassified image opcode">> >>

\* ---- GLSL.std.450 -------------------------------------------------------------------------------------
Mem(t, i) == IF i >= 1 /\ i <= Len(Members(t)) THEN Members(t)[i] ELSE 0
F32Vec(t, n) == IsVec(t) /\ Count(t) = n /\ IsFloatS(Elem(t)) /\ D(Elem(t)).w = 32
GlslKnown(e) == En(e, 1) \in GlslDomain
ExtInstRules(e) ==
  LET name == En(e, 1)  kind == GlslKind[name]  rt == e.t  args == ArgTys(e, 2)  x == A(e, 2)  y == A(e, 3)  z == A(e, 4) IN
  << <<D(Id(e, 1)).k = "extset", "first operand must be the result of OpExtInstImport">>,
     <<D(Id(e, 1)).sc = "GLSL.std.450", "spec: only the GLSL.std.450 set is modelled">>,
     <<Len(args) = GlslArity[name], "operand count">>, <<\A i \in DOMAIN args : args[i] # 0, "operands must be values">> >> \o
  CASE kind \in {"f", "f32"} -> << <<IsFloatSV(rt), "result type must be a float scalar or vector">>,
                                   <<kind = "f" \/ Width(rt) \in {16, 32}, "result type must be a 16- or 32-bit float">>,
                                   <<\A i \in DOMAIN args : args[i] = rt, "operands must have the result type">> >>
    [] kind = "i" -> << <<IsIntSV(rt), "result type must be an int scalar or vector">>,
                        <<\A i \in DOMAIN args : IsIntSV(args[i]) /\ SameDW(args[i], rt), "operands must have the dimension and bit width of the result type">> >>
    [] kind = "length" -> << <<IsFloatS(rt), "result type must be a float scalar">>,
                             <<\A i \in DOMAIN args : IsFloatSV(args[i]) /\ Comp(args[i]) = rt /\ args[i] = args[1], "operands must be floats with the result's component type">> >>
    [] kind = "cross" -> << <<IsVec(rt) /\ Count(rt) = 3 /\ IsFloatS(Elem(rt)), "result type must be a 3-component float vector">>,
                            <<x = rt /\ y = rt, "operands must have the result type">> >>
    [] kind = "refract" -> << <<IsFloatSV(rt), "result type must be a float scalar or vector">>, <<x = rt /\ y = rt, "I and N must have the result type">>,
                              <<IsFloatS(z), "eta must be a float scalar">> >>
    [] kind = "det" -> << <<IsFloatS(rt), "result type must be a float scalar">>, <<IsFloatMat(x) /\ Count(x) = Rows(x) /\ Comp(x) = rt, "operand must be a square matrix of the result type">> >>
    [] kind = "matinv" -> << <<IsFloatMat(rt) /\ Count(rt) = Rows(rt), "result type must be a square float matrix">>, <<x = rt, "operands must have the result type">> >>
    [] kind = "structf" -> << <<TK(rt) = "struct" /\ Len(Members(rt)) = 2, "result type must be a two-member struct">>,
                              <<IsFloatSV(x) /\ Members(rt) = <<x, x>>, "both members must have the operand's (float) type">> >>
    [] kind = "structfi" -> << <<TK(rt) = "struct" /\ Len(Members(rt)) = 2, "result type must be a two-member struct">>,
                               <<IsFloatSV(x) /\ Mem(rt, 1) = x, "first member must have the operand's (float) type">>,
                               <<IsIntSV(Mem(rt, 2)) /\ Dim(Mem(rt, 2)) = Dim(x), "second member must be an int of the operand's dimension">> >>
    [] kind = "ldexp" -> << <<IsFloatSV(rt) /\ x = rt, "x must have the (float) result type">>, <<IsIntSV(y) /\ Dim(y) = Dim(rt), "exp must be an int of the result's dimension">> >>
    [] kind = "pack4" -> << <<IsInt32S(rt), "result type must be a 32-bit int scalar">>, <<F32Vec(x, 4), "operand must be a 4-component 32-bit float vector">> >>
    [] kind = "pack2" -> << <<IsInt32S(rt), "result type must be a 32-bit int scalar">>, <<F32Vec(x, 2), "operand must be a 2-component 32-bit float vector">> >>
    [] kind = "unpack2" -> << <<F32Vec(rt, 2), "result type must be a 2-component 32-bit float vector">>, <<IsInt32S(x), "operand must be a 32-bit int scalar">> >>
    [] kind = "unpack4" -> << <<F32Vec(rt, 4), "result type must be a 4-component 32-bit float vector">>, <<IsInt32S(x), "operand must be a 32-bit int scalar">> >>
    [] OTHER -> << <<FALSE, "spec: unclassified GLSL.std.450 kind">> >>

\* ---- non-uniform group instructions -------------------------------------------------------------------
GroupRules(e) ==
  LET op == e.op  rt == e.t  v == A(e, 2)  x == A(e, 3) IN
  << <<IsConstInt32(Id(e, 1)), "execution scope must be a 32-bit int constant">> >> \o
  CASE op = "OpGroupNonUniformElect" -> << <<NIds(e) = 1 /\ IsBoolS(rt), "result type must be bool">> >>
    [] op \in {"OpGroupNonUniformAll", "OpGroupNonUniformAny"} -> << <<NIds(e) = 2 /\ IsBoolS(rt) /\ IsBoolS(v), "result and predicate must be bool">> >>
    [] op = "OpGroupNonUniformAllEqual" -> << <<NIds(e) = 2 /\ IsBoolS(rt) /\ v # 0, "result must be bool">> >>
    [] op = "OpGroupNonUniformBallot" ->
         << <<NIds(e) = 2 /\ IsVec(rt) /\ Count(rt) = 4 /\ IsInt32S(Elem(rt)) /\ D(Elem(rt)).sg = 0, "result type must be a 4-component 32-bit unsigned int vector">>,
            <<IsBoolS(v), "predicate must be bool">> >>
    [] op \in {"OpGroupNonUniformBroadcast", "OpGroupNonUniformShuffle", "OpGroupNonUniformShuffleXor", "OpGroupNonUniformShuffleUp",
               "OpGroupNonUniformShuffleDown", "OpGroupNonUniformQuadBroadcast", "OpGroupNonUniformQuadSwap"} ->
         << <<NIds(e) = 3, "operand count">>, <<v # 0 /\ v = rt, "value must have the result type">>,
            <<IsIntS(x) /\ D(x).sg = 0, "id / index / delta / mask / direction must be an unsigned int scalar">>,
            <<op \notin {"OpGroupNonUniformBroadcast", "OpGroupNonUniformQuadBroadcast"} \/ m.version >= 5 \/ D(Id(e, 3)).k = "const",
              "before version 1.5 the id / index of a broadcast must be a constant">>,
            <<op # "OpGroupNonUniformQuadSwap" \/ D(Id(e, 3)).k = "const", "direction must be a constant">> >>
    [] op = "OpGroupNonUniformBroadcastFirst" -> << <<NIds(e) = 2 /\ v # 0 /\ v = rt, "value must have the result type">> >>
    [] op \in GroupArith ->
         << <<NIds(e) \in {2, 3} /\ NLits(e) = 1, "operand count">>, <<v # 0 /\ v = rt, "value must have the result type">>,
            <<Lit(e, 1) \in 0..3, "unknown group operation">>, <<(Lit(e, 1) = 3) = (NIds(e) = 3), "ClusterSize is present exactly for ClusteredReduce">>,
            <<CASE op \in {"OpGroupNonUniformFAdd", "OpGroupNonUniformFMul", "OpGroupNonUniformFMin", "OpGroupNonUniformFMax"} -> IsFloatSV(rt)
                [] op \in {"OpGroupNonUniformLogicalAnd", "OpGroupNonUniformLogicalOr", "OpGroupNonUniformLogicalXor"} -> IsBoolSV(rt)
                [] OTHER -> IsIntSV(rt), "result type does not fit the operation (int / float / bool)">> >>
    [] OTHER -> << <<rt = 0 \/ IsType(rt), "result type">> >>

RayQueryRules(e) ==
  << <<TK(Pointee(A(e, 1))) = "rayq", "first operand must be a pointer to a ray query">>,
     <<\A i \in DOMAIN e.ids : IsValue(e.ids[i]), "operands must be values">> >>
=============================================================================
