----------------------------- MODULE LexerTrace -----------------------------
(***************************************************************************)
(* Trace validation of the REAL lexer against Lexer.tla.                   *)
(*                                                                         *)
(* For every text the harness gives to naga it records the token stream    *)
(* that naga's lexer produced (hook wgsl.VerifTokens) as events:           *)
(*   [ev |-> "text", id, cps]             the text, as code points         *)
(*   [ev |-> "tok",  k, lex, line, col]   one token: kind (naga's kind     *)
(*                                        mapped to the kinds of Lexer.tla)*)
(*                                        lexeme (code points), position   *)
(*   [ev |-> "end"]                       naga reached the end of the text *)
(* The lexer of Lexer.tla is run as a state machine next to it: state =    *)
(* position `pos` in the current text; a "tok" event must be the step      *)
(* Lexer!Step(text, pos, {}) - same kind, same lexeme (strictly) - and     *)
(* "end" is allowed only where Step says "eof".  Template-list             *)
(* disambiguation is not the lexer's business: single = {} (plain maximal  *)
(* munch), which is also what naga's lexer does.                           *)
(*                                                                         *)
(* Positions are checked under naga's own convention, modelled here:       *)
(*   line = 1 + number of U+000A before the token;                         *)
(*   col  = 1 + number of code points between the last U+000A and the      *)
(*          token (checked for tokens whose lexeme is ASCII: naga subtracts *)
(*          the BYTE length of the lexeme from a code-point counter).      *)
(* That convention is not WGSL's (any line break should count) - it is     *)
(* recorded as naga's, not judged.                                         *)
(*                                                                         *)
(* A mismatch does not stop the run: [l, id, rule, tok] goes to `bad`, the *)
(* rest of that text is skipped, the whole file is always consumed.        *)
(***************************************************************************)
EXTENDS Lexer, FiniteSets, TLC, Json

CONSTANT CheckPositions

Trace == ndJsonDeserialize("trace.ndjson")

VARIABLES l,       \* next line of the trace
          tl,      \* line of the current "text" event (0: none)
          pos,     \* lexer state: position in the current text
          ln, ls,  \* naga's line counter and the index of the last U+000A before pos
          nt,      \* tokens consumed of the current text
          skip,    \* the current text already has a verdict
          bad
tvars == <<l, tl, pos, ln, ls, nt, skip, bad>>

Ev == Trace[l]
Text == Trace[tl].cps

\* U+000A in text[a .. b-1]: how many, and the position of the last one (`last` if none)
LFs(text, a, b, last) ==
  LET at == {j \in a .. b - 1 : text[j] = 10}
  IN  <<Cardinality(at), IF at = {} THEN last ELSE CHOOSE j \in at : \A k \in at : k <= j>>

IsAscii(lex) == \A i \in 1 .. Len(lex) : lex[i] < 128

TInit == l = 1 /\ tl = 0 /\ pos = 1 /\ ln = 1 /\ ls = 0 /\ nt = 0 /\ skip = FALSE /\ bad = <<>>

Reject(rule) == bad' = Append(bad, [l |-> l, id |-> Trace[tl].id, rule |-> rule, tok |-> nt + 1]) /\ skip' = TRUE

TText ==
  /\ l <= Len(Trace) /\ Ev.ev = "text"
  /\ tl' = l /\ pos' = 1 /\ ln' = 1 /\ ls' = 0 /\ nt' = 0 /\ skip' = FALSE
  /\ bad' = IF tl # 0 /\ ~skip /\ Trace[l - 1].ev # "end"
            THEN Append(bad, [l |-> l, id |-> Trace[tl].id, rule |-> "harness: text without end event", tok |-> nt]) ELSE bad
  /\ l' = l + 1

TTok ==
  /\ l <= Len(Trace) /\ Ev.ev = "tok"
  /\ l' = l + 1
  /\ UNCHANGED tl
  /\ IF skip THEN UNCHANGED <<pos, ln, ls, nt, skip, bad>>
     ELSE LET st == Step(Text, pos, {})
              lf == LFs(Text, pos, st.a, ls)
              line == ln + lf[1]
              col  == st.a - lf[2]
          IN  IF st.k \in {"eof", "unterminated"}
              THEN Reject("token where the specification has " \o st.k) /\ UNCHANGED <<pos, ln, ls, nt>>
              ELSE IF SubSeq(Text, st.a, st.e - 1) # Ev.lex
              THEN Reject("lexeme") /\ UNCHANGED <<pos, ln, ls, nt>>
              ELSE IF st.k # Ev.k
              THEN Reject("kind: specification " \o st.k \o ", lexer " \o Ev.k) /\ UNCHANGED <<pos, ln, ls, nt>>
              ELSE IF CheckPositions /\ (Ev.line # line \/ (IsAscii(Ev.lex) /\ Ev.col # col))
              THEN Reject("position") /\ UNCHANGED <<pos, ln, ls, nt>>
              ELSE pos' = st.e /\ ln' = line /\ ls' = lf[2] /\ nt' = nt + 1 /\ UNCHANGED <<skip, bad>>

TEnd ==
  /\ l <= Len(Trace) /\ Ev.ev = "end"
  /\ l' = l + 1
  /\ UNCHANGED <<tl, pos, ln, ls, nt>>
  /\ IF skip THEN UNCHANGED <<skip, bad>>
     ELSE LET st == Step(Text, pos, {})
          IN  IF st.k = "eof" THEN UNCHANGED <<skip, bad>>
              ELSE Reject("end of tokens where the specification has a token of kind " \o st.k)

TDone ==
  /\ l = Len(Trace) + 1
  /\ l' = l + 1
  /\ PrintT("@@" \o ToJson([consumed |-> Len(Trace), bad |-> bad]))
  /\ UNCHANGED <<tl, pos, ln, ls, nt, skip, bad>>

TNext == TText \/ TTok \/ TEnd \/ TDone
TSpec == TInit /\ [][TNext]_tvars
=============================================================================
