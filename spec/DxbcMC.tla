------------------------------- MODULE DxbcMC -------------------------------
(***************************************************************************)
(* C18 - design-level model for Dxbc.tla.                                  *)
(*                                                                         *)
(* PRODUCERS written as state machines, whose complete output is fed to    *)
(* the reader automaton Dxbc!Step; the invariant `Accepted` says the       *)
(* reader finds no rule violated in anything a producer can emit.          *)
(*                                                                         *)
(*  kind = "bitstream": the abstract bit-level writer (the design of       *)
(*     dxil/internal/bitcode/writer.go): EnterBlock writes the abbreviation *)
(*     id with the width in force, the vbr8 block id, the vbr4 new width,  *)
(*     aligns to 32 bits and reserves the length word; ExitBlock writes    *)
(*     END_BLOCK, aligns, BACK-PATCHES the length (in 32-bit words) and    *)
(*     restores the outer width; DefineAbbrev (also inside BLOCKINFO after *)
(*     SETBID); EmitRecord (unabbreviated or with a defined abbreviation). *)
(*     TLC explores every nesting up to MaxDepth and every interleaving of *)
(*     up to MaxOps operations.  Writer invariants (BodyAligned,           *)
(*     WidthMatchesStack) hold in every state.                             *)
(*  kind = "container": an abstract container builder (header, offset      *)
(*     table, parts with their own headers, program header, hash parts)    *)
(*     over every choice of optional parts and bitcode size.               *)
(*  kind = "module": a small abstract module (types, declarations,         *)
(*     constants, metadata with a forward reference, one function body     *)
(*     with a call and a terminator).                                      *)
(*                                                                         *)
(* Faults: each named fault changes one producer decision the way a bug    *)
(* would (length off by one, length in bytes, width not restored on exit,  *)
(* missing END_BLOCK, no alignment, abbreviation used before definition,   *)
(* part size off by 4, total size wrong, unaligned offset, hash over the   *)
(* wrong range, size in bytes instead of dwords, PSV count not updated,    *)
(* wrong stage, type / value / metadata index out of range, missing        *)
(* terminator, wrong block count, call with the wrong parameter count).    *)
(* With Faults = {} `Accepted` must hold; with any single fault TLC must   *)
(* report `Accepted` violated - the harness runs both on every invocation. *)
(***************************************************************************)
EXTENDS Dxbc

CONSTANTS MaxDepth, MaxOps, Faults, Kinds

FaultList == <<"len_off_by_one", "len_in_bytes", "width_not_restored", "missing_end_block", "no_align_on_exit", "no_align_on_enter",
              "abbrev_before_define", "blockinfo_without_setbid",
              "part_size_off_by_4", "total_size_wrong", "offset_unaligned", "hash_wrong_range", "digest_wrong_range", "program_size_bytes",
              "psv_count_mismatch", "stage_mismatch",
              "type_ref_oob", "value_ref_oob", "md_ref_oob", "missing_terminator", "bb_count_mismatch", "call_param_mismatch",
              "call_target_not_function">>
KindOfFault(i) == IF i <= 8 THEN "bitstream" ELSE IF i <= 16 THEN "container" ELSE "module"

VARIABLES kind, w, out, opcount, phase, fault
vars == <<kind, w, out, opcount, phase, fault>>

\* `fault` is "none" or one member of Faults, fixed by the initial state
F(x) == x = fault

\* ------------------------------------------------------------ event builders
EvEnter(id, nw, bit, lenbit, ww) == [ev |-> "enter_block", id |-> id, width |-> nw, declared_words |-> -1, bit |-> bit,
                                     len_bit |-> lenbit, body_bit |-> lenbit + 32, w |-> ww]
EvExit(id, bit, endbit, decl, ww) == [ev |-> "exit_block", id |-> id, bit |-> bit, end_bit |-> endbit, declared_words |-> decl, w |-> ww]
EvAbbrev(aid, ww) == [ev |-> "define_abbrev", kinds |-> <<0, 2>>, vals |-> <<4, 6>>, abbrev_id |-> aid, w |-> ww]
EvRecord(ab, code, n, op0, bit, endbit, ww) == [ev |-> "record", abbrev |-> ab, code |-> code, nops |-> n, op0 |-> op0, bit |-> bit,
                                                 end_bit |-> endbit, w |-> ww]
EvMagic == [ev |-> "bc_magic", b0 |-> 66, b1 |-> 67, b2 |-> 192, b3 |-> 222, total_bits |-> -1]

\* ------------------------------------------------------------- the bit writer
W0 == [pos |-> 32, width |-> 2, stack |-> <<>>, binfo |-> {}, bid |-> -1, closedTop |-> 0]

WTop == w.stack[Len(w.stack)]
WDepth == Len(w.stack)

Enter(id, nw) ==
  /\ phase = "run" /\ opcount < MaxOps /\ WDepth < MaxDepth
  /\ IF WDepth = 0 THEN id = 8 /\ w.closedTop = 0 ELSE id # 8
  /\ (id = 0 => WTop.id = 8)                                  \* BLOCKINFO directly inside MODULE
  /\ LET after  == w.pos + w.width + VbrBits(id, 8) + VbrBits(nw, 4)
         lenbit == IF F("no_align_on_enter") THEN after ELSE Align32(after)
         inh    == IF id \in w.binfo THEN 1 ELSE 0
     IN /\ out' = Append(out, EvEnter(id, nw, w.pos, lenbit, w.width))
        /\ w' = [w EXCEPT !.pos = lenbit + 32, !.width = nw, !.bid = -1,
                          !.stack = Append(@, [id |-> id, outer |-> w.width, width |-> nw, body |-> lenbit + 32,
                                               idx |-> Len(out) + 1, nabbr |-> inh])]
  /\ opcount' = opcount + 1 /\ UNCHANGED <<kind, phase, fault>>

Exit ==
  /\ phase = "run" /\ WDepth > 0
  /\ LET t      == WTop
         endbit == IF F("no_align_on_exit") THEN w.pos + w.width ELSE Align32(w.pos + w.width)
         words  == (endbit - t.body) \div 32
         decl   == IF F("len_off_by_one") THEN words + 1 ELSE IF F("len_in_bytes") THEN words * 4 ELSE words
     IN /\ out' = Append([out EXCEPT ![t.idx].declared_words = decl], EvExit(t.id, w.pos, endbit, decl, w.width))
        /\ w' = [w EXCEPT !.pos = endbit, !.width = IF F("width_not_restored") THEN @ ELSE t.outer, !.bid = -1,
                          !.stack = SubSeq(@, 1, Len(@) - 1), !.closedTop = IF WDepth = 1 THEN @ + 1 ELSE @]
  /\ UNCHANGED <<kind, opcount, phase, fault>>

DefineAbbrev ==
  /\ phase = "run" /\ opcount < MaxOps /\ WDepth > 0
  /\ IF WTop.id = 0
     THEN /\ (w.bid >= 0 \/ F("blockinfo_without_setbid"))
          /\ w.bid \notin w.binfo
          /\ out' = Append(out, EvAbbrev(-1, w.width))
          /\ w' = [w EXCEPT !.pos = @ + w.width + 23, !.binfo = IF w.bid >= 0 THEN @ \cup {w.bid} ELSE @]
     ELSE /\ WTop.nabbr < 2
          /\ out' = Append(out, EvAbbrev(4 + WTop.nabbr, w.width))
          /\ w' = [w EXCEPT !.pos = @ + w.width + 23, !.stack[Len(w.stack)].nabbr = @ + 1]
  /\ opcount' = opcount + 1 /\ UNCHANGED <<kind, phase, fault>>

EmitRecord ==
  /\ phase = "run" /\ opcount < MaxOps /\ WDepth > 0
  /\ \/ \* unabbreviated; inside BLOCKINFO it is SETBID 12
        LET code == 1
            len  == w.width + 6 + 6 + 6
        IN /\ out' = Append(out, EvRecord(3, code, 1, 12, w.pos, w.pos + len, w.width))
           /\ w' = [w EXCEPT !.pos = @ + len, !.bid = IF WTop.id = 0 THEN 12 ELSE @]
     \/ \* abbreviated with the block's first abbreviation (or, as a fault, with one not defined yet)
        /\ WTop.id # 0
        /\ (WTop.nabbr >= 1 \/ F("abbrev_before_define"))
        /\ LET ab == IF WTop.nabbr >= 1 THEN 4 ELSE 4 + WTop.nabbr
           IN /\ ab < Pow2(w.width)
              /\ out' = Append(out, EvRecord(ab, 4, 1, 9, w.pos, w.pos + w.width + 6, w.width))
              /\ w' = [w EXCEPT !.pos = @ + w.width + 6]
  /\ opcount' = opcount + 1 /\ UNCHANGED <<kind, phase, fault>>

Finish ==
  /\ phase = "run"
  /\ (WDepth = 0 /\ w.closedTop = 1) \/ (F("missing_end_block") /\ WDepth > 0)
  /\ out' = Append([out EXCEPT ![1].total_bits = w.pos], [ev |-> "end", ok |-> WDepth = 0, consumed |-> w.pos, total |-> w.pos])
  /\ phase' = "done" /\ UNCHANGED <<kind, w, opcount, fault>>

\* writer invariants (hold in every reachable state of the fault-free writer)
BodyAligned       == kind = "bitstream" /\ fault = "none" => \A i \in DOMAIN w.stack : (w.stack[i].body % 32) = 0
WidthMatchesStack == kind = "bitstream" /\ fault = "none" => (IF WDepth = 0 THEN w.width = 2 ELSE w.width = WTop.width)

\* -------------------------------------------------------- container builder
Req(stage) == [ev |-> "reset", c |-> 1, stage |-> stage, major |-> 6, minor |-> 0, hash |-> "retail", entry |-> "main", iface |-> "check",
               exp_in |-> <<>>, exp_out |-> <<>>, res |-> "exact", exp_res |-> <<>>, threads |-> <<>>]

\* o: [sfi, hash : BOOLEAN, bc : bitcode bytes]
PartList(o) == (IF o.sfi THEN <<[cc |-> "SFI0", size |-> 8]>> ELSE <<>>)
            \o <<[cc |-> "ISG1", size |-> 8], [cc |-> "OSG1", size |-> 8], [cc |-> "PSV0", size |-> 52]>>
            \o (IF o.hash THEN <<[cc |-> "HASH", size |-> 20]>> ELSE <<>>)
            \o <<[cc |-> "DXIL", size |-> 24 + o.bc]>>

RECURSIVE OffsetsOf(_, _, _)
OffsetsOf(ps, i, at) == IF i > Len(ps) THEN <<>> ELSE <<at>> \o OffsetsOf(ps, i + 1, at + 8 + ps[i].size)
RECURSIVE SumOf(_, _)
SumOf(ps, i) == IF i > Len(ps) THEN 0 ELSE 8 + ps[i].size + SumOf(ps, i + 1)

MinimalBitstream(bits) ==
  << [EvMagic EXCEPT !.total_bits = bits],
     [EvEnter(8, 3, 32, 64, -1) EXCEPT !.declared_words = (bits - 96) \div 32],
     EvRecord(3, 1, 1, 1, 96, 117, -1),
     EvExit(8, MaxI(117, bits - 32), bits, (bits - 96) \div 32, -1),
     [ev |-> "end", ok |-> TRUE, consumed |-> bits, total |-> bits] >>

DxFacts(kindName) ==
  << [ev |-> "dx_version", which |-> "dx.version", major |-> 1, minor |-> 0],
     [ev |-> "dx_shader_model", kind |-> kindName, major |-> 6, minor |-> 0],
     [ev |-> "dx_entry", name |-> "main", fn |-> 0, fn_is_decl |-> FALSE, fn_name_matches |-> TRUE] >>

PartEvents(p, o) ==
  CASE p.cc = "SFI0" -> << [ev |-> "sfi", size |-> 8] >>
    [] p.cc \in {"ISG1", "OSG1"} -> << [ev |-> "sig", part |-> p.cc, count |-> 0, offset |-> 8, size |-> 8] >>
    [] p.cc = "PSV0" -> << [ev |-> "psv", size |-> 52, info_size |-> 36, stage |-> 1, sig_in_elems |-> IF F("psv_count_mismatch") THEN 1 ELSE 0,
                            sig_out_elems |-> 0, sig_pc_elems |-> 0, resource_count |-> 0, bind_size |-> -1, threads_x |-> 0,
                            threads_y |-> 0, threads_z |-> 0],
                           [ev |-> "psv_strtab", size |-> 0, entry_name |-> "", entry_name_in_bounds |-> FALSE, have_entry |-> FALSE],
                           [ev |-> "psv_end", pos |-> 52, size |-> 52] >>
    [] p.cc = "HASH" -> << [ev |-> "hash_part", size |-> 20, flags |-> 0, have_dxil |-> TRUE, md5_bitcode |-> <<7, 7, 7, 7>>,
                            digest |-> IF F("hash_wrong_range") THEN <<9, 9, 9, 9>> ELSE <<7, 7, 7, 7>>] >>
    [] p.cc = "DXIL" -> << [ev |-> "program_header", part |-> "DXIL", kind |-> IF F("stage_mismatch") THEN 0 ELSE 1, major |-> 6, minor |-> 0,
                            size_dwords |-> IF F("program_size_bytes") THEN 24 + o.bc ELSE (24 + o.bc) \div 4,
                            actual_bytes |-> 24 + o.bc, magic |-> DxilMagic, dxil_major |-> 1, dxil_minor |-> 0, bc_offset |-> 16, bc_size |-> o.bc] >>
                        \o MinimalBitstream(8 * o.bc) \o DxFacts("vs")
    [] OTHER -> <<>>

RECURSIVE PartsEvents(_, _, _, _, _)
PartsEvents(ps, offs, i, o, bump) ==
  IF i > Len(ps) THEN <<>>
  ELSE << [ev |-> "part", i |-> i - 1, header_ok |-> TRUE, fourcc |-> ps[i].cc, offset |-> offs[i],
           size |-> ps[i].size + (IF i = bump THEN 4 ELSE 0)] >>
       \o PartEvents(ps[i], o) \o PartsEvents(ps, offs, i + 1, o, bump)

ContainerEvents(o) ==
  LET ps    == PartList(o)
      n     == Len(ps)
      offs0 == OffsetsOf(ps, 1, 32 + 4 * n)
      offs  == IF F("offset_unaligned") THEN [offs0 EXCEPT ![2] = @ + 2] ELSE offs0
      total == 32 + 4 * n + SumOf(ps, 1)
      bump  == IF F("part_size_off_by_4") THEN o.bump ELSE 0
  IN << Req(1),
        [ev |-> "header", complete |-> TRUE, magic |-> "DXBC", digest |-> <<5, 5, 5, 5>>, ver_major |-> 1, ver_minor |-> 0,
         declared_size |-> IF F("total_size_wrong") THEN total + 4 ELSE total, actual_size |-> total, part_count |-> n, offsets_read |-> n],
        [ev |-> "digest_check", computed |-> IF F("digest_wrong_range") THEN <<6, 6, 6, 6>> ELSE <<5, 5, 5, 5>>, stored_kind |-> "other"] >>
     \o [i \in 1..n |-> [ev |-> "part_offset", i |-> i - 1, offset |-> offs[i]]]
     \o PartsEvents(ps, offs, 1, o, bump)
     \o << [ev |-> "parts_end"], [ev |-> "fin", same |-> TRUE] >>

ContainerChoices == [sfi : BOOLEAN, hash : BOOLEAN, bc : {16, 20}, bump : 1..4]

\* ------------------------------------------------------------- abstract module
ModuleEvents ==
  << [ev |-> "ir_type_numentry", n |-> 3],
     [ev |-> "ir_type", idx |-> 0, refs |-> <<>>, named_struct |-> FALSE, short |-> FALSE],
     [ev |-> "ir_type", idx |-> 1, refs |-> <<>>, named_struct |-> FALSE, short |-> FALSE],
     [ev |-> "ir_type", idx |-> 2, refs |-> IF F("type_ref_oob") THEN <<0, 7>> ELSE <<0, 1>>, named_struct |-> FALSE, short |-> FALSE],
     [ev |-> "ir_types_end", count |-> 3, numentry |-> 3, have_numentry |-> TRUE],
     [ev |-> "ir_function", value |-> 0, ty |-> 2, fn_ty |-> 2, is_decl |-> TRUE, nparams |-> 1, nops |-> 8],
     [ev |-> "ir_function", value |-> 1, ty |-> 2, fn_ty |-> 2, is_decl |-> FALSE, nparams |-> 1, nops |-> 8],
     [ev |-> "ir_settype", ty |-> 1],
     [ev |-> "ir_const", fn |-> -1, value |-> 2, ty |-> 1, ty_set |-> TRUE, refs |-> <<>>, type_refs |-> <<>>],
     [ev |-> "ir_consts_end", next_value |-> 3],
     [ev |-> "ir_md", idx |-> 0, kind |-> "node", fn |-> -1, ops |-> IF F("md_ref_oob") THEN <<5>> ELSE <<1>>, ty |-> -1, val |-> -1],
     [ev |-> "ir_md", idx |-> 1, kind |-> "value", fn |-> -1, ops |-> <<>>, ty |-> 1, val |-> 2],
     [ev |-> "ir_named_md", ops |-> <<0>>],
     [ev |-> "ir_md_end", count |-> 2],
     [ev |-> "ir_func_begin", fn |-> 1, nargs |-> 1, first_value |-> 3],
     [ev |-> "ir_declareblocks", n |-> IF F("bb_count_mismatch") THEN 2 ELSE 1, after_insts |-> 0],
     [ev |-> "ir_inst", op |-> "call", vn |-> 4, vals |-> <<IF F("call_target_not_function") THEN 2 ELSE 0, 3>>, types |-> <<2>>, targets |-> <<>>,
      term |-> FALSE, defines |-> TRUE, short |-> FALSE, trunc |-> FALSE, extra_ops |-> 0,
      fwd_type_conflict |-> FALSE, callee |-> IF F("call_target_not_function") THEN 2 ELSE 0,
      nparams |-> IF F("call_param_mismatch") THEN 2 ELSE 1, varargs |-> 0, tyfail |-> <<>>],
     [ev |-> "ir_inst", op |-> "ret", vn |-> 5, vals |-> IF F("value_ref_oob") THEN <<9>> ELSE <<4>>, types |-> <<>>, targets |-> <<>>,
      term |-> ~F("missing_terminator"), defines |-> FALSE, short |-> FALSE, trunc |-> FALSE, extra_ops |-> 0, fwd_type_conflict |-> FALSE,
      callee |-> -1, nparams |-> -1, varargs |-> 0, tyfail |-> <<>>],
     [ev |-> "ir_func_end", next_value |-> 5, max_value_used |-> IF F("value_ref_oob") THEN 9 ELSE 4, aborted |-> FALSE],
     [ev |-> "ir_module_end", bodies |-> 1, module_values |-> 3] >>

\* ---------------------------------------------------------------- behaviours
Init ==
  /\ kind \in Kinds
  /\ fault \in {"none"} \cup {FaultList[i] : i \in {j \in DOMAIN FaultList : FaultList[j] \in Faults /\ KindOfFault(j) = kind}}
  /\ opcount = 0
  /\ CASE kind = "bitstream" -> w = W0 /\ out = <<EvMagic>> /\ phase = "run"
       [] kind = "container" -> w = W0 /\ phase = "done" /\ \E o \in ContainerChoices : out = ContainerEvents(o)
       [] kind = "module"    -> w = W0 /\ phase = "done" /\ out = ModuleEvents

Next ==
  \/ \E id \in {0, 8, 12}, nw \in {2, 4} : Enter(id, nw)
  \/ Exit
  \/ DefineAbbrev
  \/ EmitRecord
  \/ Finish

Spec == Init /\ [][Next]_vars

\* the reader's verdict on a complete output
RECURSIVE Verdict(_, _, _)
Verdict(s, evs, i) == IF i > Len(evs) THEN {} ELSE LET r == Step(s, evs[i]) IN r.v \cup Verdict(r.s, evs, i + 1)

\* every fault-free output is accepted ...
Accepted == phase = "done" /\ fault = "none" => Verdict(Blank, out, 1) = {}
\* ... and a rejected faulty output marks its fault as detected (TLC register i = index in FaultList; run with one worker)
FaultIdx(f) == CHOOSE i \in DOMAIN FaultList : FaultList[i] = f
Detect == IF phase = "done" /\ fault # "none" /\ Verdict(Blank, out, 1) # {} THEN TLCSet(FaultIdx(fault), 1) ELSE TRUE
ASSUME \A i \in DOMAIN FaultList : TLCSet(i, 0)
\* POSTCONDITION: every seeded fault was rejected in at least one behaviour; the undetected ones are printed
AllDetected == LET missed == {FaultList[i] : i \in {j \in DOMAIN FaultList : FaultList[j] \in Faults /\ TLCGet(j) = 0}}
               IN  IF missed = {} THEN TRUE ELSE PrintT(<<"@@undetected", missed>>) /\ FALSE
=============================================================================
