------------------------------ MODULE Session ------------------------------
(***************************************************************************)
(* Histories and schedules of compiler calls (property C12, and the        *)
(* "does not alter the caller's module" clauses of C13/C14).               *)
(*                                                                         *)
(* A session owns modules (one per slot, lowered once from a source) and   *)
(* one reusable SPIR-V backend instance.  A call is two actions, Start and *)
(* Finish, so that TLC explores every overlap the property admits:         *)
(* concurrent calls on different modules, or on one module with different  *)
(* backends.  The abstract digest of a call is everything its output could *)
(* depend on: (kind, source) plus - if the implementation is faulty - the  *)
(* version of the module it read and the residue found in the reused       *)
(* instance.  The property says the digest is a function of (kind, source) *)
(* alone and that no call changes a module.                                *)
(*                                                                         *)
(* Faults is the set of seeded faults (empty in every real check); the     *)
(* self-test configuration shows each makes TLC report a violation, and    *)
(* TLC's counter-example is exactly the history that exposes it.           *)
(***************************************************************************)
EXTENDS Integers, Sequences, FiniteSets, TLC, Json

CONSTANTS Slots,      \* module slots, e.g. {1, 2}
          SrcOf,      \* slot -> source id (two slots may hold separately lowered modules of one source)
          Kinds,      \* call kinds <<family, optset>>, e.g. <<"spv", "v1.3">>, <<"inst", "default">>, <<"dxil", "default">>
          MaxCalls,
          MaxInFlight,
          Faults      \* subset of {"dxil_mutates", "reset_leaks", "overrides_mutate"}

VARIABLES mod,        \* mod[s]: number of times the module in slot s has been altered since lowering
          residue,    \* what the reused SPIR-V instance still holds from earlier compilations (set of source ids)
          flight,     \* calls in flight: set of records
          done,       \* finished calls, in order of finishing
          sched,      \* the schedule so far: sequence of <<"start"|"finish", id, kind, slot>>
          n           \* number of calls started
vars == <<mod, residue, flight, done, sched, n>>

\* a kind is a pair <<family, option set>>; families: "spv" (fresh backend), "inst" (the reused SPIR-V backend instance),
\* "hlsl", "msl", "glsl", "dxil", "validate", "overrides" (clone + override resolution)
Fam(k) == k[1]
BackendOf(k) == IF k[1] = "inst" THEN "spv" ELSE k[1]

Init == /\ mod = [s \in Slots |-> 0]
        /\ residue = {}
        /\ flight = {}
        /\ done = <<>>
        /\ sched = <<>>
        /\ n = 0

\* what the property allows to overlap
MayOverlap(k, s) ==
  /\ Cardinality(flight) < MaxInFlight
  /\ \A c \in flight : c.slot # s \/ BackendOf(c.kind) # BackendOf(k)   \* one module: different backends only
  /\ Fam(k) = "inst" => \A c \in flight : Fam(c.kind) # "inst"   \* one instance is used by one goroutine at a time

Start(k, s) ==
  /\ n < MaxCalls
  /\ MayOverlap(k, s)
  /\ n' = n + 1
  /\ flight' = flight \cup {[id |-> n + 1, kind |-> k, slot |-> s, sawVer |-> mod[s],
                             sawResidue |-> IF Fam(k) = "inst" THEN residue ELSE {}]}
  /\ sched' = Append(sched, <<"start", n + 1, k, s>>)
  /\ UNCHANGED <<mod, residue, done>>

\* the abstract digest: everything the output may depend on
Digest(c) == [kind |-> c.kind, src |-> SrcOf[c.slot], ver |-> c.sawVer, residue |-> c.sawResidue]
Ref(k, s) == [kind |-> k, src |-> SrcOf[s], ver |-> 0, residue |-> {}]

Finish(c) ==
  /\ c \in flight
  /\ flight' = flight \ {c}
  /\ done' = Append(done, [id |-> c.id, kind |-> c.kind, slot |-> c.slot, digest |-> Digest(c)])
  /\ sched' = Append(sched, <<"finish", c.id, c.kind, c.slot>>)
  /\ mod' = IF ("dxil_mutates" \in Faults /\ Fam(c.kind) = "dxil")
               \/ ("overrides_mutate" \in Faults /\ Fam(c.kind) = "overrides")
            THEN [mod EXCEPT ![c.slot] = @ + 1] ELSE mod
  /\ residue' = IF Fam(c.kind) = "inst"
                THEN (IF "reset_leaks" \in Faults THEN residue \cup {SrcOf[c.slot]} ELSE {})   \* Reset clears everything
                ELSE residue
  /\ UNCHANGED n

Next == (\E k \in Kinds, s \in Slots : Start(k, s)) \/ (\E c \in flight : Finish(c))
Spec == Init /\ [][Next]_vars

\* ---- the property ------------------------------------------------------
Deterministic == \A i \in 1 .. Len(done) : done[i].digest = Ref(done[i].kind, done[i].slot)
ModulesUntouched == \A s \in Slots : mod[s] = 0
InstanceClean == flight = {} => residue = {}
\* frame condition as an action property: no step changes a module
Frame == [][mod' = mod]_vars

\* ---- emission of schedules for replay ----------------------------------
Complete == n = MaxCalls /\ flight = {}
EmitSchedules == Complete => PrintT("@@" \o ToJson(sched))
=============================================================================
