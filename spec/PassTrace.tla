----------------------------- MODULE PassTrace -----------------------------
(***************************************************************************)
(* Trace validation of Passes.tla against the real naga.  The harness      *)
(* lowers a program, applies real passes along sequences TLC enumerated    *)
(* from Passes.tla and records:                                            *)
(*   reset(art, faults)         next artefact (one root module)            *)
(*   module(v, m)               the JSON transcription of version v        *)
(*   run(v, ep, bufs, rows, exp, obs)                                      *)
(*                              TLC runs IrSem on version v for every row; *)
(*                              exp: what WgslSem.tla prescribes for the   *)
(*                              source program (three-way), obs: what the  *)
(*                              SPIR-V executor observed on                *)
(*                              GenerateSPIRV(version v) (second observer) *)
(*   pass(name, from, to, dump1, dump2, idem, newval, err)                 *)
(*                              the real pass took version `from` to `to`; *)
(*                              dump1/dump2: canonical dump digests of     *)
(*                              p(m) and p(p(m)); newval: what ir.Validate *)
(*                              reports on `to` and not on `from`          *)
(* Each pass event must be a step Apply(name) of Passes and must satisfy   *)
(* the contract.  A violated rule does not stop the run: it is recorded in *)
(* `bad` (line, rule, versions, row, detail) and the whole file is always  *)
(* consumed.                                                               *)
(*                                                                         *)
(* Faults (self-test; the constant is {} in real runs, the self-test        *)
(* artefacts that ride along in every run name theirs in the reset event): *)
(* the named corruption is applied to every non-root module of the         *)
(* artefact before it is judged, and must be reported:                     *)
(*   "drop-store"     the last Store of each entry point body is dropped   *)
(*   "swap-operands"  the operands of every Subtract are swapped           *)
(*   "dangling"       the value handle of the last Store points past the   *)
(*                    expression arena                                     *)
(*   "bad-call-target"  every top-level Call of the entry point targets    *)
(*                    function handle = number of functions                *)
(*   "bad-call-arity" every top-level Call gets one argument too many      *)
(*                                                                         *)
(* Totality: WFErrors dereferences nothing it has not range-checked, the   *)
(* contract StaysWellFormed is judged first, and IrSem is not run on a     *)
(* version that has an ill-formed spot the root does not have (its rows    *)
(* are "stuck:module version is not well-formed"); IrSem itself never      *)
(* enters a function that has an ill-formed spot.  So no module a pass can *)
(* leave behind makes TLC fail.                                            *)
(***************************************************************************)
EXTENDS IrSem, Passes, SequencesExt

CONSTANT Faults

Trace == ndJsonDeserialize("trace.ndjson")

VARIABLES l, line, wf, res, seqs, bad, nrun, ndecided, flt, rootobs
tvars == <<pvars, l, line, wf, res, seqs, bad, nrun, ndecided, flt, rootobs>>

Evt == Trace[l]
IsEvent(e) == l <= Len(Trace) /\ Evt.ev = e /\ l' = l + 1

\* ---- seeded faults -------------------------------------------------------
LastStore(b) == LET s == {i \in 1 .. Len(b) : b[i].k = "Store"} IN IF s = {} THEN 0 ELSE CHOOSE i \in s : \A j \in s : j <= i
\* top-level Call statements of a body, rewritten by g
MapCalls(b, g(_)) == [k \in 1 .. Len(b) |-> IF b[k].k = "Call" THEN g(b[k]) ELSE b[k]]
CorruptFn(F, nfns) ==
  LET i == LastStore(F.body)
      b1 == IF "drop-store" \in flt /\ i > 0 THEN SubSeq(F.body, 1, i - 1) \o SubSeq(F.body, i + 1, Len(F.body)) ELSE F.body
      j == LastStore(b1)
      b2 == IF "dangling" \in flt /\ j > 0 THEN [b1 EXCEPT ![j].v = Len(F.exprs) + 7] ELSE b1
      ex == IF "swap-operands" \in flt
            THEN [k \in 1 .. Len(F.exprs) |-> IF F.exprs[k].k = "Binary" /\ F.exprs[k].op = "Subtract"
                                              THEN [F.exprs[k] EXCEPT !.l = F.exprs[k].r, !.r = F.exprs[k].l] ELSE F.exprs[k]]
            ELSE F.exprs
      b3 == IF "bad-call-target" \in flt THEN MapCalls(b2, LAMBDA c : [c EXCEPT !.f = nfns]) ELSE b2
      b4 == IF "bad-call-arity" \in flt THEN MapCalls(b3, LAMBDA c : [c EXCEPT !.args = Append(@, 0)]) ELSE b3
  IN  [F EXCEPT !.body = b4, !.exprs = ex]
Corrupt(v, M) == IF flt = {} \/ v = 0 THEN M
                 ELSE [M EXCEPT !.eps = [i \in 1 .. Len(M.eps) |-> [M.eps[i] EXCEPT !.fn = CorruptFn(M.eps[i].fn, Len(M.fns))]]]

ModuleOf(v) == Corrupt(v, Trace[line[v + 1]].m)

\* ---- comparisons ---------------------------------------------------------
ZeroF(w) == w = 0 \/ w = MinI
\* words that disagree where the mask says the word is decided (f32 words: the sign of zero is not compared)
MaskedDiff(out, mask, other) ==
  {<<b, w>> \in UNION {{<<b, w>> : w \in 1 .. Len(out[b])} : b \in 1 .. Len(out)} :
      /\ w <= Len(mask[b]) /\ mask[b][w] # 0
      /\ (w > Len(other[b]) \/ (out[b][w] # other[b][w] /\ ~(mask[b][w] = 2 /\ ZeroF(out[b][w]) /\ ZeroF(other[b][w]))))}

Entry(rule, v, from, name, row, detail, want, got) ==
  [l |-> l, rule |-> rule, v |-> v, from |-> from, name |-> name, row |-> row, detail |-> detail, want |-> want, got |-> got]

TInit == PInit /\ l = 1 /\ line = <<>> /\ wf = <<>> /\ res = <<>> /\ seqs = <<>> /\ bad = <<>> /\ nrun = 0 /\ ndecided = 0 /\ flt = Faults /\ rootobs = <<>>

TraceReset ==
  /\ IsEvent("reset")
  /\ line' = <<>> /\ wf' = <<>> /\ res' = <<>> /\ seqs' = <<>>
  /\ flt' = Faults \cup {Evt.faults[i] : i \in 1 .. Len(Evt.faults)}     \* the self-test artefacts name their faults
  /\ rootobs' = <<>>
  /\ UNCHANGED <<pvars, bad, nrun, ndecided>>

\* versions are numbered 0, 1, 2 ... in the order of their module events; sequences hold them at index v + 1
TraceModule ==
  /\ IsEvent("module")
  /\ line' = Append(line, l)
  /\ wf' = Append(wf, {})                                              \* judged when the version is run
  /\ bad' = IF Evt.v # Len(line) THEN Append(bad, Entry("harness: versions out of order", Evt.v, -1, "", 0, "", <<>>, <<>>)) ELSE bad
  /\ res' = Append(res, <<>>)
  /\ seqs' = Append(seqs, IF Evt.v = 0 THEN <<<<>>>> ELSE <<>>)        \* the sequences known to reach the version
  /\ UNCHANGED <<pvars, nrun, ndecided, flt, rootobs>>

TraceRun ==
  /\ IsEvent("run")
  /\ LET v == Evt.v
         P == Prep(ModuleOf(v))
         errs == WFErrors(P)
         runnable == v = 0 \/ errs \subseteq wf[1]        \* nothing ill-formed that the root did not have
         rs == IF runnable THEN Force([r \in 1 .. Len(Evt.rows) |-> RunI(P, Evt.ep, Evt.bufs, Evt.rows[r])])    \* each row is run once
               ELSE Force([r \in 1 .. Len(Evt.rows) |-> [ok |-> FALSE, why |-> "stuck:module version is not well-formed", out |-> <<>>, mask |-> <<>>]])
         expBad == IF Evt.exp = <<>> THEN <<>>
                   ELSE SelectSeq([r \in 1 .. Len(rs) |->
                          IF rs[r].ok /\ Evt.exp[r].ok = 1 /\ MaskedDiff(Evt.exp[r].out, Evt.exp[r].mask, rs[r].out) # {}
                          THEN Entry("three-way: IrSem differs from what WgslSem prescribes for the source program", v, -1, "", r,
                                     ToString(MaskedDiff(Evt.exp[r].out, Evt.exp[r].mask, rs[r].out)), Evt.exp[r].out, rs[r].out)
                          ELSE Entry("", v, -1, "", r, "", <<>>, <<>>)], LAMBDA x : x.rule # "")
         \* rows on which the second observer (the SPIR-V executor on GenerateSPIRV(version)) contradicts IrSem.  On the
         \* root that is the backend's or the observer's business (C01): recorded as "observer-root", and the row is not
         \* used for the later versions.  On a later version, with the root in agreement, the pass is the only suspect.
         obsDiff == IF Evt.obs = <<>> THEN {}
                    ELSE {r \in 1 .. Len(rs) : rs[r].ok /\ Evt.obs[r].ok = 1 /\ MaskedDiff(rs[r].out, rs[r].mask, Evt.obs[r].out) # {}}
         obsBad == SetToSeq({Entry(IF v = 0 THEN "observer-root: the SPIR-V executor on GenerateSPIRV(root) differs from IrSem"
                                   ELSE "observer: the SPIR-V executor on GenerateSPIRV(version) differs from IrSem, on the root it agreed",
                                   v, -1, "", r, ToString(MaskedDiff(rs[r].out, rs[r].mask, Evt.obs[r].out)), rs[r].out, Evt.obs[r].out)
                             : r \in {x \in obsDiff : v = 0 \/ x \notin rootobs}})
     IN  /\ res' = [res EXCEPT ![v + 1] = rs]
         /\ rootobs' = IF v = 0 THEN obsDiff ELSE rootobs
         /\ wf' = [wf EXCEPT ![v + 1] = errs]
         /\ bad' = bad \o (IF v = 0 /\ errs # {} THEN <<Entry("root-ill-formed", 0, -1, "", 0, ToString(errs), <<>>, <<>>)>> ELSE <<>>)
                       \o expBad \o obsBad
         /\ nrun' = nrun + Len(rs)
         /\ ndecided' = ndecided + Cardinality({r \in 1 .. Len(rs) : rs[r].ok})
  /\ UNCHANGED <<pvars, line, seqs, flt>>

\* one application of a real pass: a step of Passes from every sequence known to reach `from`
TracePass ==
  /\ IsEvent("pass")
  /\ LET f == Evt.from + 1  t == Evt.to + 1
         reach == {s \in {seqs[f][i] : i \in 1 .. Len(seqs[f])} : MayApply(s, Evt.name)}
         rb == res[f]  ra == res[t]
         behav == IF Evt.err # "" \/ rb = <<>> \/ ra = <<>> \/ Preserves(rb, ra) THEN <<>>
                  ELSE LET r == CHOOSE r \in DOMAIN rb : rb[r].ok /\ ~(ra[r].ok /\ ra[r].out = rb[r].out) IN
                       <<Entry("Preserves: the module computes something else after the pass", Evt.to, Evt.from, Evt.name, r,
                               IF ra[r].ok THEN "value" ELSE ra[r].why, rb[r].out, IF ra[r].ok THEN ra[r].out ELSE <<>>)>>
     IN  /\ seqs' = [seqs EXCEPT ![t] = @ \o SetToSeq({Append(s, Evt.name) : s \in reach} \ {@[i] : i \in 1 .. Len(@)})]
         /\ bad' = bad
              \o (IF reach = {} THEN <<Entry("harness: pass application is not a step of Passes", Evt.to, Evt.from, Evt.name, 0, "", <<>>, <<>>)>> ELSE <<>>)
              \o (IF Evt.err # "" THEN <<Entry("Total: the pass failed on a valid module", Evt.to, Evt.from, Evt.name, 0, Evt.err, <<>>, <<>>)>> ELSE <<>>)
              \o (IF Evt.err = "" /\ ~StaysWellFormed(wf[f], wf[t])
                  THEN <<Entry("StaysWellFormed: the pass made the module ill-formed", Evt.to, Evt.from, Evt.name, 0, ToString(wf[t] \ wf[f]), <<>>, <<>>)>> ELSE <<>>)
              \o (IF Evt.err = "" /\ Evt.newval # <<>>
                  THEN <<Entry("StaysWellFormed: ir.Validate reports something new after the pass", Evt.to, Evt.from, Evt.name, 0, ToString(Evt.newval), <<>>, <<>>)>> ELSE <<>>)
              \o (IF Evt.err = "" /\ ~Idempotent(Evt.dump1, Evt.dump2)
                  THEN <<Entry("Idempotent: applying the pass twice differs from applying it once", Evt.to, Evt.from, Evt.name, 0, Evt.idem, <<>>, <<>>)>> ELSE <<>>)
              \o behav
  /\ UNCHANGED <<pvars, line, wf, res, nrun, ndecided, flt, rootobs>>

TraceEnd ==
  /\ l = Len(Trace) + 1
  /\ l' = l + 1
  /\ PrintT("@@" \o ToJson([consumed |-> Len(Trace), bad |-> bad, nrun |-> nrun, ndecided |-> ndecided]))
  /\ UNCHANGED <<pvars, line, wf, res, seqs, bad, nrun, ndecided, flt, rootobs>>

TNext == TraceReset \/ TraceModule \/ TraceRun \/ TracePass \/ TraceEnd
TSpec == TInit /\ [][TNext]_tvars

Consumed == TLCGet("stats").diameter >= Len(Trace) + 2
=============================================================================
