------------------------------ MODULE WgslRun ------------------------------
(* Evaluates the cases of cases.ndjson with WgslSem and prints, per case, the  *)
(* prescribed final buffer contents for every input row.  One state per case. *)
EXTENDS WgslSem, Json

Cases == ndJsonDeserialize("cases.ndjson")

VARIABLE i
Init == i = 0
Next == /\ i < Len(Cases)
        /\ i' = i + 1
        /\ LET c == Cases[i + 1] IN
           PrintT("@@" \o ToJson([id |-> c.id, rows |-> [r \in 1 .. Len(c.inputs) |-> Run(c.prog, c.inputs[r])]]))
Spec == Init /\ [][Next]_i
=============================================================================
