------------------------------ MODULE IrTrace ------------------------------
(***************************************************************************)
(* Trace validation for IrValid.tla: the event streams of many lowered     *)
(* modules (harness/irev), concatenated, each starting with a "reset"      *)
(* event.  One TLC step per event: st' = Apply(st, Trace[l], l).  A        *)
(* violated rule never stops the run: it is recorded in st.bad with the    *)
(* line number, the rule and the expression handle it concerns, and the    *)
(* whole file is always consumed (the harness checks consumed = number of  *)
(* lines).  The verdicts of a module are printed as JSON at its "mend"     *)
(* event, what is left and the number of consumed lines after the last     *)
(* line.                                                                   *)
(***************************************************************************)
EXTENDS IrValid, Json

Trace == ndJsonDeserialize("trace.ndjson")

VARIABLES l, st
tvars == <<l, st>>

TInit == l = 1 /\ st = Init0

\* the verdicts of a module are printed when the module ends ("mend") and leave the state, so that the state stays small
TStep ==
  /\ l <= Len(Trace)
  /\ l' = l + 1
  /\ LET s1 == Apply(st, Trace[l], l) IN
     IF Trace[l].ev = "mend" /\ s1.bad # <<>>
     THEN PrintT("@@" \o ToJson([bad |-> s1.bad])) /\ st' = [s1 EXCEPT !.bad = <<>>]
     ELSE st' = s1

TEnd ==
  /\ l = Len(Trace) + 1
  /\ l' = l + 1
  /\ PrintT("@@" \o ToJson([consumed |-> Len(Trace), bad |-> st.bad]))
  /\ UNCHANGED st

TNext == TStep \/ TEnd
TSpec == TInit /\ [][TNext]_tvars

\* the machinery's own sanity condition: the whole file was consumed
Consumed == TLCGet("stats").diameter >= Len(Trace) + 2
=============================================================================
