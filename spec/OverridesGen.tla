---------------------------- MODULE OverridesGen ----------------------------
(***************************************************************************)
(* Generator of (declarations, value map) pairs for property C14, as a     *)
(* state machine explored by TLC (exhaustively at small bounds, by seeded  *)
(* simulation beyond):                                                     *)
(*                                                                         *)
(*   PickKind(T, hasId, family)   type, @id or not, shape family of the    *)
(*   AddOverride(init)            next declaration; then append            *)
(*                                [@id] override oN : T [= init];  init    *)
(*                                drawn from the family over literals,     *)
(*                                module constants and the overrides added *)
(*                                before (depth <= 2)                      *)
(*   EndDecls                                                              *)
(*   PickDerivedKind / AddDerived(e)  an override-expression used twice in *)
(*                                the probe program: initialiser of a      *)
(*                                var<private>, expression in the entry    *)
(*                                point's body                             *)
(*   ChooseK(cls, mode, use)      one per override: the class of the value *)
(*                                K supplies (or "absent"), how it is      *)
(*                                keyed ("key": by the identifier string;  *)
(*                                "name_on_id": by the name although the   *)
(*                                override has an @id; "both": id and name *)
(*                                with different values) and how the probe *)
(*                                program uses the override: "body" (the   *)
(*                                entry point stores it), "global" (only   *)
(*                                the initialiser of a var<private> names  *)
(*                                it; the entry point stores the variable),*)
(*                                "hidden" (no function and no variable    *)
(*                                names it: it is used only through        *)
(*                                another override's default, only as      *)
(*                                @workgroup_size, or not at all)          *)
(*   ChooseWg(w, extra)           which override sizes the workgroup, an   *)
(*                                extra key naming no override             *)
(*   Layout(perm)                 declaration order (a permutation: that   *)
(*                                is where forward references come from)   *)
(*                                                                         *)
(* Every final state is one case.  On it TLC checks the lemmas of          *)
(* Overrides.tla (L1-L4) and that the override-expression evaluator agrees *)
(* with the WGSL abstract machine (SemAgreeEmit), and prints the case with *)
(* the prediction: resolved value / ERROR per override, and the final      *)
(* words of the probe program's storage buffer Run(Subst(p, Resolve(..)))  *)
(* with the status of every word (pinned / left open).  The harness        *)
(* replays each printed case into the real code.                           *)
(***************************************************************************)
EXTENDS Overrides, Json, SequencesExt, FiniteSets

CONSTANTS MinN, MaxN,   \* number of overrides
          Types,        \* subset of {"bool", "i32", "u32", "f32"}
          Fams,         \* shape families of initialisers: none atom litf const un arith div rem bit shift logic cmp call cast deep
          DFams,        \* shape families of the derived expression ({} = no derived expression); "kprobe": one fixed shape
          LitN,         \* literals per type used as atoms (1 .. 3)
          ArithOps,     \* operators of the family "arith"
          IdRule,       \* "free": each override with/without @id;  "alt": odd ones have an @id;  "none"
          KClasses,     \* "none" | "ok" | "few" (absent, ok, 6th class) | "mix" (+ 3rd class) | "all"
          KModes,       \* subset of {"key", "name_on_id", "both"}
          Orders,       \* "id" | "rev" | "all"
          Uses,         \* subset of {"body", "global", "hidden"}: how the probe program uses each override (see ChooseK)
          WgModes,      \* subset of {0, 1}: 1 = an integer override is the x workgroup size
          Extras,       \* subset of {0, 1}: 1 = K has a key that names no override
          SameType,     \* all overrides have the type of the first
          NeedRef,      \* every initialiser after the first and the derived expression reference an override
          NShards, Shard

\* ---- syntax helpers ---------------------------------------------------------
Ty(T) == [k |-> T]
Lit(T, v) == [k |-> "lit", t |-> Ty(T), v |-> v]
IdE(n, T) == [k |-> "id", n |-> n, t |-> Ty(T)]
Bin(op, T, a, b) == [k |-> "bin", op |-> op, t |-> Ty(T), a |-> a, b |-> b]
Un(op, T, a) == [k |-> "un", op |-> op, t |-> Ty(T), a |-> a]
Call(f, T, args) == [k |-> "bi", f |-> f, t |-> Ty(T), args |-> args]
Cast(T, a) == [k |-> "cast", t |-> Ty(T), a |-> a]

\* f32 bit patterns: 1.5, -2.0, 0.25, 0.5
LitSeq(T) == CASE T = "i32" -> <<7, -3, 0>>
               [] T = "u32" -> <<6, 3, 40>>
               [] T = "f32" -> <<1069547520, -1073741824, 1048576000>>
               [] OTHER     -> <<1, 0>>
ConstName(T) == CASE T = "i32" -> "KI" [] T = "u32" -> "KU" [] T = "f32" -> "KF" [] OTHER -> "KB"
ConstVal(T)  == CASE T = "i32" -> 3 [] T = "u32" -> 2 [] T = "f32" -> 1056964608 [] OTHER -> 1
AllTypes == <<"bool", "i32", "u32", "f32">>
ModuleConsts == [i \in 1 .. 4 |-> [name |-> ConstName(AllTypes[i]), ty |-> Ty(AllTypes[i]), e |-> Lit(AllTypes[i], ConstVal(AllTypes[i]))]]
CE == [n \in {"KI", "KU", "KF", "KB"} |->
         CASE n = "KI" -> 3 [] n = "KU" -> 2 [] n = "KF" -> 1056964608 [] OTHER -> 1]

Min2(a, b) == IF a < b THEN a ELSE b
Lits(T) == {Lit(T, LitSeq(T)[i]) : i \in 1 .. Min2(LitN, Len(LitSeq(T)))}
Refs(T, ds) == {IdE(ds[i].name, T) : i \in {j \in 1 .. Len(ds) : ds[j].ty.k = T}}
A(T, ds) == Lits(T) \cup Refs(T, ds)
NumT == {"i32", "u32", "f32"}
IntT == {"i32", "u32"}

RECURSIVE HasRef(_)
HasRef(e) == CASE e.k = "id" -> e.n \notin {"KI", "KU", "KF", "KB"}
               [] e.k \in {"un", "cast"} -> HasRef(e.a)
               [] e.k = "bin" -> HasRef(e.a) \/ HasRef(e.b)
               [] e.k = "bi" -> \E i \in 1 .. Len(e.args) : HasRef(e.args[i])
               [] OTHER -> FALSE

DeepPairs == {<<"/", "*">>, <<"+", "*">>, <<"*", "-">>}

\* initialiser / derived-expression shapes of type T over the declarations ds
Shapes(T, ds, fams) ==
  (IF "none" \in fams THEN {None} ELSE {})
  \cup (IF "atom" \in fams THEN A(T, ds) ELSE {})
  \cup (IF "litf" \in fams /\ T = "f32" THEN {[k |-> "lit", t |-> Ty(T), v |-> l.v, sfx |-> 1] : l \in Lits(T)} ELSE {})
  \cup (IF "const" \in fams
        THEN {IdE(ConstName(T), T)}
             \cup (IF T \in NumT THEN {Bin(op, T, a, IdE(ConstName(T), T)) : op \in {"+", "*"}, a \in A(T, ds)} ELSE {})
        ELSE {})
  \cup (IF "un" \in fams
        THEN {Un(op, T, a) : op \in (CASE T = "i32" -> {"-", "~"} [] T = "u32" -> {"~"} [] T = "f32" -> {"-"} [] OTHER -> {"!"}),
                             a \in A(T, ds)}
        ELSE {})
  \cup (IF "arith" \in fams /\ T \in NumT THEN {Bin(op, T, a, b) : op \in ArithOps, a \in A(T, ds), b \in A(T, ds)} ELSE {})
  \cup (IF "div" \in fams /\ T \in NumT THEN {Bin("/", T, a, b) : a \in A(T, ds), b \in A(T, ds)} ELSE {})
  \cup (IF "rem" \in fams /\ T \in NumT THEN {Bin("%", T, a, b) : a \in A(T, ds), b \in A(T, ds)} ELSE {})
  \cup (IF "bit" \in fams /\ T \in IntT THEN {Bin(op, T, a, b) : op \in {"&", "|", "^"}, a \in A(T, ds), b \in A(T, ds)} ELSE {})
  \cup (IF "shift" \in fams /\ T \in IntT THEN {Bin(op, T, a, b) : op \in {"<<", ">>"}, a \in A(T, ds), b \in A("u32", ds)} ELSE {})
  \cup (IF "logic" \in fams /\ T = "bool"
        THEN {Bin(op, T, a, b) : op \in {"&&", "||", "&", "|"}, a \in A(T, ds), b \in A(T, ds)} ELSE {})
  \cup (IF "cmp" \in fams /\ T = "bool"
        THEN UNION {{Bin(op, T, a, b) : op \in {"==", "!=", "<", "<=", ">", ">="}, a \in A(S, ds), b \in A(S, ds)} : S \in NumT}
        ELSE {})
  \cup (IF "call" \in fams /\ T \in NumT
        THEN (IF T # "u32" THEN {Call("abs", T, <<a>>) : a \in A(T, ds)} ELSE {})
             \cup {Call(f, T, <<a, b>>) : f \in {"min", "max"}, a \in A(T, ds), b \in A(T, ds)}
             \cup {Call("clamp", T, <<a, Lit(T, LitSeq(T)[2]), Lit(T, LitSeq(T)[1])>>) : a \in A(T, ds)}
             \cup {Call("select", T, <<a, Lit(T, LitSeq(T)[1]), c>>) : a \in A(T, ds), c \in A("bool", ds)}
        ELSE {})
  \cup (IF "cast" \in fams
        THEN UNION {{Cast(T, a) : a \in A(S, ds)} :
                      S \in (CASE T = "i32" -> {"u32", "f32", "bool"} [] T = "u32" -> {"i32", "bool"}
                               [] T = "f32" -> {"i32", "u32"} [] OTHER -> {"i32"})}
        ELSE {})
  \cup (IF "deep" \in fams /\ T \in NumT
        THEN {Bin(pr[2], T, Bin(pr[1], T, x, y), z) : pr \in DeepPairs, x \in A(T, ds), y \in A(T, ds), z \in A(T, ds)}
        ELSE {})
  \cup (IF "kprobe" \in fams /\ Len(ds) > 0        \* one fixed expression over the last override: exposes what its dependants see
        THEN LET d == ds[Len(ds)]  o == IdE(d.name, d.ty.k) IN
             IF T # d.ty.k THEN {}
             ELSE IF T = "bool" THEN {Un("!", T, o)}
             ELSE {Bin("*", T, o, Lit(T, CASE T = "i32" -> 4 [] T = "u32" -> 4 [] OTHER -> 1073741824))}    \* * 4, * 2.0
        ELSE {})

\* ---- value-map classes -------------------------------------------------------
FinV(s, m, e, cls) == [c |-> "fin", s |-> s, m |-> m, e |-> e, cls |-> cls]
Spec0(c) == [c |-> c, s |-> 0, m |-> 0, e |-> 0, cls |-> c]
KVals(T) ==
  CASE T = "i32" -> <<FinV(0, 5, 0, "ok"), FinV(1, 3, 0, "neg"), FinV(0, 11, -2, "frac"), FinV(1, 11, -2, "negfrac"),
                      FinV(0, MaxI, 0, "max"), FinV(1, MinI, 0, "min"), FinV(0, -1, -1, "maxfrac"),
                      FinV(0, MinI, 0, "over"), FinV(1, MinI + 1, 0, "under"), FinV(0, 1, 40, "big"),
                      Spec0("nan"), Spec0("pinf"), Spec0("ninf")>>
    [] T = "u32" -> <<FinV(0, 5, 0, "ok"), FinV(0, 11, -2, "frac"), FinV(0, -1, 0, "max"), FinV(1, 1, -1, "negfrac"),
                      FinV(0, 1, 32, "over"), FinV(1, 1, 0, "neg"), FinV(0, 1, 40, "big"),
                      Spec0("nan"), Spec0("pinf"), Spec0("ninf")>>
    [] T = "f32" -> <<FinV(0, 3, 0, "ok"), FinV(0, 3, -1, "frac"), FinV(1, 3, -3, "negfrac"),
                      FinV(0, 16777217, 0, "tiedown"), FinV(0, 16777219, 0, "tieup"), FinV(0, 33554435, 0, "roundup"),
                      FinV(0, 16777215, 104, "maxf"), FinV(0, 1, -126, "minnorm"), FinV(0, 1, -149, "sub"),
                      FinV(0, 1, 128, "over"), FinV(0, 67108863, 102, "overround"),
                      Spec0("nan"), Spec0("pinf"), Spec0("ninf")>>
    [] OTHER     -> <<FinV(0, 0, 0, "ok"), FinV(0, 1, 0, "one"), FinV(0, 2, 0, "two"), FinV(1, 1, 0, "neg"), FinV(0, 1, -1, "frac"),
                      Spec0("nan"), Spec0("pinf")>>
\* the value of the decoy key of mode "both" (the override's name although it has an id)
Decoy(T) == IF T = "bool" THEN FinV(0, 1, 0, "decoy") ELSE FinV(0, 9, 0, "decoy")

ClassIdx(T) == CASE KClasses = "none" -> {0} [] KClasses = "ok" -> {0, 1} [] KClasses = "few" -> {0, 1, 6} [] KClasses = "mix" -> {0, 1, 3, 6} [] OTHER -> 0 .. Len(KVals(T))

\* ---- the state machine ----------------------------------------------------------
\* Choices are made in small steps (type and family first, then the shape inside the family; workgroup / extra key first,
\* then the declaration order) so that no state has more than a few hundred successors: simulation generates every
\* successor of every state it visits.
VARIABLES ds,      \* declarations in the order they were added (dependency order)
          pend,    \* <<type, hasId, family>> chosen for the next declaration / derived expression, or <<>>
          dv,      \* derived expression or None
          ks,      \* per override <<class index (0 = absent), mode, use>>
          lay,     \* <<permutation, wg override index or 0, extra>>
          phase,   \* "decl" | "derived" | "k" | "lay" | "ord" | "done"
          h        \* running hash of the choices (sharding)
vars == <<ds, pend, dv, ks, lay, phase, h>>

Mix(x, y) == (x * 131 + y + 7) % 1000003
OName(i) == CASE i = 1 -> "o1" [] i = 2 -> "o2" [] i = 3 -> "o3" [] OTHER -> "o4"
IdOf(i)  == CASE i = 1 -> 7 [] i = 2 -> 0 [] i = 3 -> 65535 [] OTHER -> 300
TIdx(T) == CHOOSE i \in 1 .. 4 : AllTypes[i] = T
FamSeq == <<"none", "atom", "litf", "const", "un", "arith", "div", "rem", "bit", "shift", "logic", "cmp", "call", "cast", "deep", "kprobe">>
FIdx(f) == CHOOSE i \in 1 .. Len(FamSeq) : FamSeq[i] = f

Init == ds = <<>> /\ pend = <<>> /\ dv = None /\ ks = <<>> /\ lay = <<>> /\ phase = "decl" /\ h = 0

IdChoices(i) == CASE IdRule = "free" -> {0, 1} [] IdRule = "alt" -> {i % 2} [] OTHER -> {0}

InitSet(T, fam) == LET all == Shapes(T, ds, {fam}) IN
                   IF NeedRef /\ ds # <<>> THEN {e \in all : e.k # "none" /\ HasRef(e)} ELSE all
DerivedSet(T, fam) == LET all == Shapes(T, ds, {fam}) IN IF NeedRef THEN {e \in all : HasRef(e)} ELSE all

PickKind(T, hasId, fam) ==
  /\ phase = "decl" /\ pend = <<>> /\ Len(ds) < MaxN
  /\ (SameType /\ ds # <<>>) => T = ds[1].ty.k
  /\ InitSet(T, fam) # {}
  /\ pend' = <<T, hasId, fam>>
  /\ h' = Mix(h, (TIdx(T) * 2 + hasId) * 32 + FIdx(fam))
  /\ UNCHANGED <<ds, dv, ks, lay, phase>>

AddOverride(si, init) ==
  /\ phase = "decl" /\ pend # <<>>
  /\ ds' = Append(ds, [name |-> OName(Len(ds) + 1), ty |-> Ty(pend[1]), id |-> IF pend[2] = 1 THEN IdOf(Len(ds) + 1) ELSE -1,
                       init |-> init])
  /\ pend' = <<>> /\ h' = Mix(h, si)
  /\ UNCHANGED <<dv, ks, lay, phase>>

EndDecls == phase = "decl" /\ pend = <<>> /\ Len(ds) >= MinN /\ phase' = "derived" /\ UNCHANGED <<ds, pend, dv, ks, lay, h>>

PickDerivedKind(T, fam) ==
  /\ phase = "derived" /\ pend = <<>> /\ DerivedSet(T, fam) # {}
  /\ pend' = <<T, 0, fam>> /\ h' = Mix(h, TIdx(T) * 32 + FIdx(fam))
  /\ UNCHANGED <<ds, dv, ks, lay, phase>>

AddDerived(si, e) ==
  /\ phase = "derived"
  /\ dv' = e /\ pend' = <<>> /\ phase' = "k" /\ h' = Mix(h, si)
  /\ UNCHANGED <<ds, ks, lay>>

ModesFor(d, ci) == IF ci = 0 THEN {"key"} ELSE IF d.id >= 0 THEN KModes ELSE {"key"}
ModeIdx(m) == CASE m = "key" -> 1 [] m = "name_on_id" -> 2 [] OTHER -> 3

UseIdx(u) == CASE u = "body" -> 0 [] u = "global" -> 1 [] OTHER -> 2

ChooseK(ci, mode, use) ==
  /\ phase = "k" /\ Len(ks) < Len(ds)
  /\ LET d == ds[Len(ks) + 1] IN ci \in ClassIdx(d.ty.k) /\ mode \in ModesFor(d, ci)
  /\ ks' = Append(ks, <<ci, mode, use>>)
  /\ phase' = IF Len(ks) + 1 = Len(ds) THEN "lay" ELSE "k"
  /\ h' = Mix(h, ci * 16 + ModeIdx(mode) * 4 + UseIdx(use))
  /\ UNCHANGED <<ds, pend, dv, lay>>

PermSeq(n) == SetToSeq(CASE Orders = "id" -> {[i \in 1 .. n |-> i]}
                         [] Orders = "rev" -> {[i \in 1 .. n |-> i], [i \in 1 .. n |-> n + 1 - i]}
                         [] OTHER -> PermsOf(n))
WgChoices == (IF 0 \in WgModes THEN {0} ELSE {})
             \cup (IF 1 \in WgModes THEN {i \in 1 .. Len(ds) : ds[i].ty.k \in IntT} ELSE {})

ChooseWg(w, x) ==
  /\ phase = "lay"
  /\ lay' = <<<<>>, w, x>> /\ phase' = "ord" /\ h' = Mix(h, w * 2 + x)
  /\ UNCHANGED <<ds, pend, dv, ks>>

Layout(pi, perm) ==
  /\ phase = "ord"
  /\ Mix(h, pi) % NShards = Shard
  /\ lay' = <<perm, lay[2], lay[3]>>
  /\ phase' = "done" /\ h' = Mix(h, pi)
  /\ UNCHANGED <<ds, pend, dv, ks>>

Next == \/ \E T \in Types, hasId \in IdChoices(Len(ds) + 1), fam \in Fams : PickKind(T, hasId, fam)
        \/ (phase = "decl" /\ pend # <<>> /\
            LET ss == SetToSeq(InitSet(pend[1], pend[3])) IN \E si \in 1 .. Len(ss) : AddOverride(si, ss[si]))
        \/ EndDecls
        \/ (phase = "derived" /\ DFams = {} /\ AddDerived(0, None))
        \/ \E T \in {"bool", "i32", "u32", "f32"}, fam \in DFams : PickDerivedKind(T, fam)
        \/ (phase = "derived" /\ pend # <<>> /\
            LET ss == SetToSeq(DerivedSet(pend[1], pend[3])) IN \E si \in 1 .. Len(ss) : AddDerived(si, ss[si]))
        \/ (phase = "k" /\ \E ci \in 0 .. 16, mode \in {"key", "name_on_id", "both"}, use \in Uses : ChooseK(ci, mode, use))
        \/ (phase = "lay" /\ \E w \in (IF WgChoices = {} THEN {0} ELSE WgChoices), x \in Extras : ChooseWg(w, x))
        \/ (phase = "ord" /\ LET ps == PermSeq(Len(ds)) IN \E pi \in 1 .. Len(ps) : Layout(pi, ps[pi]))
Spec == Init /\ [][Next]_vars

\* ---- the case of a final state -----------------------------------------------------
Done == phase = "done"
Perm == lay[1]
\* declarations in declaration (printed) order
PDs == [i \in 1 .. Len(ds) |-> ds[Perm[i]]]

RECURSIVE KFrom(_)
KFrom(i) ==
  IF i > Len(ds) THEN (IF lay[3] = 1 THEN <<[key |-> "zz", v |-> FinV(0, 1, 0, "extra")]>> ELSE <<>>)
  ELSE LET d == ds[i]  ci == ks[i][1]  mode == ks[i][2] IN
       (IF ci = 0 THEN <<>>
        ELSE LET v == KVals(d.ty.k)[ci] IN
             CASE mode = "key" -> <<[key |-> Key(d), v |-> v]>>
               [] mode = "name_on_id" -> <<[key |-> d.name, v |-> v]>>
               [] OTHER -> <<[key |-> d.name, v |-> Decoy(d.ty.k)], [key |-> Key(d), v |-> v]>>)
       \o KFrom(i + 1)
KMap == KFrom(1)

TU == Ty("u32")
NOut == 8
ArrT == [k |-> "arr", e |-> TU, n |-> NOut]
LitU(v) == Lit("u32", v)
Bits(T, x) == CASE T = "u32" -> x
                [] T = "i32" -> [k |-> "cast", t |-> TU, a |-> x]
                [] T = "f32" -> [k |-> "bitcast", t |-> TU, a |-> x]
                [] OTHER     -> [k |-> "bi", f |-> "select", t |-> TU, args |-> <<LitU(0), LitU(1), x>>]
OutRef(i) == [k |-> "ridx", t |-> TU, b |-> [k |-> "rvar", n |-> "out", t |-> ArrT], i |-> LitU(i)]
StoreOut(i, T, x) == [k |-> "asg", r |-> OutRef(i), e |-> Bits(T, x)]
GLoad(T) == [k |-> "load", t |-> Ty(T), r |-> [k |-> "rvar", n |-> "g", t |-> Ty(T)]]

\* how the i-th added override is used, and the variable that carries a "global" use
UseOf(i) == ks[i][3]
GName(i) == CASE i = 1 -> "g1" [] i = 2 -> "g2" [] i = 3 -> "g3" [] OTHER -> "g4"
\* initialiser of that variable: the override itself (bool) or a product with it, as in `var<private> g = gain * 10.0`
GExpr(i) == LET T == ds[i].ty.k  o == IdE(ds[i].name, T) IN
            IF T = "bool" THEN o ELSE Bin("*", T, o, Lit(T, CASE T = "f32" -> 1073741824 [] OTHER -> 4))     \* * 4, * 2.0
GLoadN(n, T) == [k |-> "load", t |-> Ty(T), r |-> [k |-> "rvar", n |-> n, t |-> Ty(T)]]
RECURSIVE FlatCat(_, _)
FlatCat(f, i) == IF i > Len(ds) THEN <<>> ELSE f[i] \o FlatCat(f, i + 1)

\* the probe program; dexp is the derived expression as it appears in the program, gx[i] the initialiser of the variable of a
\* "global" use
Prog(dexp, gx) ==
  LET n == Len(ds)
      ovStores == FlatCat([i \in 1 .. n |->
                    CASE UseOf(i) = "body"   -> <<StoreOut(i - 1, ds[i].ty.k, IdE(ds[i].name, ds[i].ty.k))>>
                      [] UseOf(i) = "global" -> <<StoreOut(i - 1, ds[i].ty.k, GLoadN(GName(i), ds[i].ty.k))>>
                      [] OTHER -> <<>>], 1)
      gVars == FlatCat([i \in 1 .. n |->
                    IF UseOf(i) = "global"
                    THEN <<[name |-> GName(i), space |-> "private", access |-> "", ty |-> ds[i].ty, group |-> 0, binding |-> 0, init |-> gx[i]]>>
                    ELSE <<>>], 1)
      dStores == IF dexp.k = "none" THEN <<>>
                 ELSE <<StoreOut(n, dexp.t.k, GLoad(dexp.t.k)), StoreOut(n + 1, dexp.t.k, dexp)>>
      wgx == IF lay[2] = 0 THEN None ELSE IdE(ds[lay[2]].name, ds[lay[2]].ty.k)
  IN  [structs |-> <<>>, consts |-> ModuleConsts, overrides |-> PDs,
       globals |-> <<[name |-> "out", space |-> "storage", access |-> "rw", ty |-> ArrT, group |-> 0, binding |-> 0, init |-> None]>>
                   \o (IF dexp.k = "none" THEN <<>>
                       ELSE <<[name |-> "g", space |-> "private", access |-> "", ty |-> dexp.t, group |-> 0, binding |-> 0, init |-> dexp]>>)
                   \o gVars,
       fns |-> <<[name |-> "main", params |-> <<>>, ret |-> [k |-> "void"], entry |-> 1, wg |-> <<1, 1, 1>>, wgx |-> wgx,
                  body |-> ovStores \o dStores]>>]
GInits == [i \in 1 .. Len(ds) |-> GExpr(i)]

\* Everything below is parameterised by the resolved values (r, in declaration order), the derived expression's value (dr),
\* the values of the initialisers of the "global" uses (gr) and the run of the abstract machine (rr): each is mentioned once at the bottom (TLC's level analysis walks a definition
\* once per textual mention).
RAof(r, i) == r[CHOOSE j \in 1 .. Len(ds) : Perm[j] = i]     \* of the i-th added override
WgOf(r) == IF lay[2] = 0 THEN V(1)
           ELSE LET x == RAof(r, lay[2]) IN
                IF Usable(x) /\ (x.v < 1 \/ x.v > 256) THEN U(x.tg \cup {"wgrange"}) ELSE x

\* the program given to the abstract machine: a derived expression the standards leave open is replaced by a zero (its words
\* are masked), so that the other words are still predicted
ZeroLit(T) == Lit(T, 0)
OracleProg(dr, gr) == Prog(IF dv.k = "none" THEN None ELSE IF Usable(dr) THEN dv ELSE ZeroLit(dv.t.k),
                           [i \in 1 .. Len(ds) |-> IF Usable(gr[i]) THEN GExpr(i) ELSE ZeroLit(ds[i].ty.k)])
NGlobalUses == Cardinality({i \in 1 .. Len(ds) : UseOf(i) = "global"})
Input == <<[i \in 1 .. NOut |-> 0]>> \o [i \in 1 .. (IF dv.k = "none" THEN 0 ELSE 1) + NGlobalUses |-> <<>>]

TagSeq(s) == SetToSeq(s)
SlotOf(ix, kind, name, ty, x) == [ix |-> ix, kind |-> kind, name |-> name, ty |-> ty, st |-> x.st, v |-> IF Usable(x) THEN x.v ELSE 0,
                                  tags |-> TagSeq(x.tg)]
SlotsOf(r, dr, gr) ==
  FlatCat([i \in 1 .. Len(ds) |->
              CASE UseOf(i) = "body"   -> <<SlotOf(i - 1, "override", ds[i].name, ds[i].ty.k, RAof(r, i))>>
                [] UseOf(i) = "global" -> <<SlotOf(i - 1, "global", GName(i), ds[i].ty.k, gr[i])>>
                [] OTHER -> <<>>], 1)
  \o (IF dv.k = "none" THEN <<>>
      ELSE <<SlotOf(Len(ds), "global", "g", dv.t.k, dr), SlotOf(Len(ds) + 1, "body", "", dv.t.k, dr)>>)

\* what the pipeline uses: the overrides a function names, the initialisers of the variables the entry point stores, the derived
\* expression, the workgroup size.  Evaluating them reaches, through the defaults, everything else that is used (Overrides.tla, R6).
RootsOf(r, dr, gr) ==
  {RAof(r, i) : i \in {j \in 1 .. Len(ds) : UseOf(j) = "body"}}
  \cup {gr[i] : i \in {j \in 1 .. Len(ds) : UseOf(j) = "global"}}
  \cup (IF dv.k = "none" THEN {} ELSE {dr})
  \cup (IF lay[2] = 0 THEN {} ELSE {RAof(r, lay[2])})
UseTags == {"use:" \o UseOf(i) : i \in 1 .. Len(ds)}

KeyTags == {IF ks[i][1] = 0 THEN "key:absent" ELSE "key:" \o ks[i][2] : i \in 1 .. Len(ds)} \cup (IF lay[3] = 1 THEN {"key:extra"} ELSE {})

CaseOf(r, dr, gr, rr) ==
  LET wgr == WgOf(r)
      roots == RootsOf(r, dr, gr)
  IN
  [h |-> h, prog |-> Prog(dv, GInits),
   K |-> [i \in 1 .. Len(KMap) |-> [key |-> KMap[i].key, c |-> KMap[i].v.c, s |-> KMap[i].v.s, m |-> KMap[i].v.m, e |-> KMap[i].v.e,
                                     cls |-> KMap[i].v.cls]],
   slots |-> SlotsOf(r, dr, gr),
   errreq |-> ErrRequiredOf(roots),
   errok |-> InvalidKeys(PDs, KMap) # {} \/ ErrAcceptableOf(roots \cup {r[i] : i \in 1 .. Len(ds)}),
   errtags |-> TagSeq(UNION {x.tg : x \in {y \in roots : y.st = "err"}}),
   alltags |-> TagSeq(UNION {r[i].tg : i \in 1 .. Len(ds)} \cup (IF dv.k = "none" THEN {} ELSE dr.tg) \cup KeyTags \cup UseTags),
   wg |-> [st |-> wgr.st, x |-> IF Usable(wgr) THEN wgr.v ELSE 0, tags |-> TagSeq(wgr.tg), used |-> IF lay[2] = 0 THEN 0 ELSE 1],
   ok |-> rr.ok, why |-> rr.why, out |-> IF rr.ok THEN rr.out[1] ELSE <<>>]

\* the override-expression evaluator and the WGSL abstract machine agree on every word the specification pins
AgreeOf(slots, rr) == rr.ok => \A i \in 1 .. Len(slots) : slots[i].st \in {"val", "valq"} => rr.out[1][slots[i].ix + 1] = slots[i].v

R == Resolve(PDs, CE, KMap)                       \* in declaration order
DRof == IF dv.k = "none" THEN V(0) ELSE Derived(PDs, CE, KMap, dv)
GRof == [i \in 1 .. Len(ds) |-> IF UseOf(i) = "global" THEN Derived(PDs, CE, KMap, GExpr(i)) ELSE V(0)]
RunOf(r, dr, gr) == Run(Subst(OracleProg(dr, gr), r), Input)
FinalOf(r, dr, gr) == LET rr == RunOf(r, dr, gr) IN <<AgreeOf(SlotsOf(r, dr, gr), rr), CaseOf(r, dr, gr, rr)>>
Final == FinalOf(R, DRof, GRof)

\* ---- what TLC checks on every case ------------------------------------------------------
L1 == Done => OrderIndependent(PDs, CE, KMap)
L2 == Done => OneAddress(PDs, CE, KMap)
L3 == Done => SuppliedWins(PDs, CE, KMap)
L4 == Done => ConvSound(PDs, CE, KMap)
\* SemAgree, and the emission of the case for replay
SemAgreeEmit == Done => LET f == Final IN f[1] /\ PrintT("@@" \o ToJson(f[2]))
=============================================================================
