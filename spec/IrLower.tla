------------------------------ MODULE IrLower ------------------------------
(***************************************************************************)
(* C09, design level: an ABSTRACT LOWERER with naga's emitter protocol     *)
(* (wgsl/internal/lower/lower.go: emitStart / emitFinish /                 *)
(* interruptEmitter / addExpression with the pre-emit flush / the flush    *)
(* before a call statement) translating every small program - statements   *)
(* over small expression trees - into the IR event stream, which the rule  *)
(* automaton of IrValid.tla must accept:                                   *)
(*                                                                         *)
(*   Accepted        no rule is violated by any stream the lowerer emits   *)
(*                   (the emit discipline is satisfiable, and the protocol *)
(*                   as transcribed satisfies it for every program)        *)
(*   Evaluated       when lowering is finished every computed expression   *)
(*                   has been emitted exactly once and everything a        *)
(*                   statement used was in scope                           *)
(*                                                                         *)
(* Faults (self-test, {} in the real check): each element is one realistic *)
(* defect of the lowerer; a behaviour runs with at most one of them        *)
(* switched on (variable fault) and reports, when the translation of its   *)
(* program is finished, whether the rule automaton noticed ("@@" line).    *)
(* The harness requires every fault to be noticed on some program - the    *)
(* rules are not vacuous.  (Equivalently: with Accepted stated without the *)
(* guard fault = "none", TLC reports it violated for every fault.)         *)
(*                                                                         *)
(* The program under translation is                                        *)
(*     fn f(a : i32) -> i32 { ... }              (helper, signature only)  *)
(*     fn g(a : i32) -> i32 { var x : i32; <prog>; return <e>; }           *)
(* with types #0 = i32, #1 = bool.                                         *)
(***************************************************************************)
EXTENDS IrValid, Json

CONSTANTS Faults,      \* subset of AllFaults: the seeded faults explored besides the faultless lowerer ({} in the real check)
          Depth2,      \* TRUE: expression trees of depth 2 and two statements (thorough)
          Probe        \* TRUE: only a handful of programs that reach every construct (the fault self-test)

AllFaults == {"emit_literal", "emit_call_result", "double_emit", "use_before_emit", "missing_emit", "forward_handle",
              "wrong_type", "untyped", "dup_type", "abstract_literal", "missing_return", "return_novalue", "break_outside",
              "scope_leak", "store_type", "call_arg_count", "continue_in_continuing", "forward_type"}
ASSUME Faults \subseteq AllFaults

VARIABLE fault          \* the fault switched on in this behaviour ("none": the lowerer as transcribed)
F(x) == fault = x

-----------------------------------------------------------------------------
(* Programs *)

Leaf == {[k |-> "lit"], [k |-> "arg"], [k |-> "var"]}
E1 == Leaf \cup {[k |-> "neg", a |-> a] : a \in Leaf}
           \cup {[k |-> "add", a |-> a, b |-> b] : a \in Leaf, b \in Leaf}
           \cup {[k |-> "call", a |-> a] : a \in Leaf}
E2 == E1 \cup {[k |-> "add", a |-> a, b |-> b] : a \in E1 \ Leaf, b \in Leaf}
         \cup {[k |-> "call", a |-> a] : a \in E1 \ Leaf}
Exprs == IF Depth2 THEN E2 ELSE E1
Conds == {[k |-> "lt", a |-> a, b |-> b] : a \in Leaf, b \in {[k |-> "lit"], [k |-> "call", a |-> [k |-> "arg"]]}}

Simple == {[k |-> "store", e |-> e] : e \in Exprs} \cup {[k |-> "callstmt", e |-> e] : e \in E1}
Stmts  == Simple
          \cup {[k |-> "if", c |-> c, body |-> s] : c \in Conds, s \in {[k |-> "store", e |-> e] : e \in E1}}
          \cup {[k |-> "loop", c |-> c, body |-> s] : c \in Conds, s \in {[k |-> "store", e |-> e] : e \in E1 \ Leaf}}
          \cup {[k |-> "switch", e |-> e, body |-> s] : e \in Leaf, s \in {[k |-> "store", e |-> x] : x \in {[k |-> "add", a |-> [k |-> "var"], b |-> [k |-> "lit"]]}}}
Rets   == {[k |-> "lit"], [k |-> "add", a |-> [k |-> "var"], b |-> [k |-> "call", a |-> [k |-> "arg"]]]}
Second == {[k |-> "store", e |-> [k |-> "add", a |-> [k |-> "var"], b |-> [k |-> "arg"]]],
           [k |-> "if", c |-> [k |-> "lt", a |-> [k |-> "var"], b |-> [k |-> "lit"]], body |-> [k |-> "store", e |-> [k |-> "call", a |-> [k |-> "var"]]]]}

ProbeE == [k |-> "add", a |-> [k |-> "var"], b |-> [k |-> "call", a |-> [k |-> "arg"]]]
ProbeC == [k |-> "lt", a |-> [k |-> "var"], b |-> [k |-> "lit"]]
ProbeS == [k |-> "store", e |-> ProbeE]
ProbePrograms == {<<ProbeS>>, <<[k |-> "callstmt", e |-> [k |-> "lit"]]>>, <<[k |-> "if", c |-> ProbeC, body |-> ProbeS]>>,
                  <<[k |-> "loop", c |-> ProbeC, body |-> ProbeS]>>,
                  <<[k |-> "switch", e |-> [k |-> "arg"], body |-> ProbeS], ProbeS>>}

Programs == IF Probe THEN ProbePrograms
            ELSE {<<s>> : s \in Stmts} \cup (IF Depth2 THEN {<<s, t>> : s \in Stmts, t \in Second} ELSE {})

-----------------------------------------------------------------------------
(* The lowerer: ls = [n: expressions so far, start: emit start or -1, tys: recorded types, evs: events produced] *)

TI32  == 0
TBool == 1
PtrX  == V(Pointer(TI32, "function"))

Ev(ls, e)   == [ls EXCEPT !.evs = Append(@, e)]
EmitEv(s, e) == [ev |-> "emit", s |-> s, e |-> e, use |-> <<>>]

\* flush the pending range [start, n)
Flush(ls) == IF ls.start >= 0 /\ ls.n > ls.start THEN Ev(ls, EmitEv(ls.start, ls.n)) ELSE ls

\* addExpressionRaw: append the expression with its resolved type
AddRaw(ls, x, ty) ==
  LET rt == IF F("untyped") /\ x.k = "Binary" THEN NoRes ELSE ty IN
  [ls EXCEPT !.evs = Append(@, x @@ [ev |-> "expr", h |-> ls.n, rt |-> rt]), !.n = @ + 1, !.tys = Append(@, ty)]

\* addExpression: pre-emit kinds interrupt a running emitter (flush, append outside, restart)
Add(ls, x, ty) ==
  IF ls.start >= 0 /\ x.k \in PreEmit /\ ~F("emit_literal")
  THEN LET l1 == AddRaw(Flush(ls), x, ty) IN [l1 EXCEPT !.start = l1.n]
  ELSE AddRaw(ls, x, ty)

\* interruptEmitter: results and other non-emittable expressions
Interrupt(ls, x, ty) ==
  LET l1 == AddRaw(Flush(ls), x, ty) IN IF ls.start >= 0 THEN [l1 EXCEPT !.start = l1.n] ELSE l1

EmitStart(ls)  == [ls EXCEPT !.start = ls.n]
EmitFinish(ls) ==
  IF F("missing_emit") THEN [ls EXCEPT !.start = -1]
  ELSE LET l1 == Flush(ls)
           l2 == IF F("double_emit") THEN Flush(l1) ELSE l1          \* a flush that does not advance the start
       IN  [l2 EXCEPT !.start = -1]

TyOf(ls, h) == ls.tys[h + 1]

RECURSIVE LowerE(_, _)
\* returns <<ls, handle>>
LowerE(ls, t) ==
  CASE t.k = "lit" ->
         LET lit == IF F("abstract_literal") THEN "aint" ELSE "i32"
             l1  == Add(ls, [k |-> "Literal", lit |-> lit, ops |-> <<>>], V(I32)) IN <<l1, l1.n - 1>>
    [] t.k = "arg" ->
         LET l1 == Add(ls, [k |-> "FunctionArgument", idx |-> 0, ops |-> <<>>], H(TI32)) IN <<l1, l1.n - 1>>
    [] t.k = "var" ->
         LET l1 == Add(ls, [k |-> "LocalVariable", v |-> 0, ops |-> <<>>], PtrX)
             l2 == Add(l1, [k |-> "Load", ops |-> <<l1.n - 1>>], H(TI32)) IN <<l2, l2.n - 1>>
    [] t.k = "neg" ->
         LET r  == LowerE(ls, t.a)
             l1 == Add(r[1], [k |-> "Unary", op |-> "negate", ops |-> <<r[2]>>], TyOf(r[1], r[2])) IN <<l1, l1.n - 1>>
    [] t.k \in {"add", "lt"} ->
         LET ra == LowerE(ls, t.a)
             rb == LowerE(ra[1], t.b)
             l0 == rb[1]
             ops == IF F("forward_handle") THEN <<ra[2], l0.n + 1>> ELSE <<ra[2], rb[2]>>
             ty == IF t.k = "add" \/ F("wrong_type") THEN TyOf(l0, ra[2]) ELSE V(Bool)
             l1 == Add(l0, [k |-> "Binary", op |-> (IF t.k = "add" THEN "add" ELSE "lt"), ops |-> ops], ty)
         IN  <<l1, l1.n - 1>>
    [] t.k = "call" ->
         \* lowerCall: arguments, flush what is pending, the result outside any emit range, the Call statement
         LET ra == LowerE(ls, t.a)
             l0 == ra[1]
             cr == [k |-> "CallResult", f |-> 0, ops |-> <<>>]
             l1 == IF F("emit_call_result") THEN AddRaw(l0, cr, H(TI32)) ELSE Interrupt(l0, cr, H(TI32))
             res == l1.n - 1
             args == IF F("call_arg_count") THEN <<ra[2], ra[2]>> ELSE <<ra[2]>>
             l2 == Ev(l1, [ev |-> "call", f |-> 0, args |-> args, res |-> res, use |-> args])
         IN  <<l2, res>>

Store(p, v) == [ev |-> "store", p |-> p, v |-> v, use |-> <<p, v>>]
Plain(name) == [ev |-> name, use |-> <<>>]

RECURSIVE LowerS(_, _)
LowerS(ls, s) ==
  CASE s.k = "store" ->
         LET l0 == EmitStart(ls)
             l1 == Add(l0, [k |-> "LocalVariable", v |-> 0, ops |-> <<>>], PtrX)
             p  == l1.n - 1
             r  == LowerE(l1, s.e)
             val == IF F("store_type")
                    THEN LET lb == Add(r[1], [k |-> "Literal", lit |-> "bool", ops |-> <<>>], V(Bool)) IN <<lb, lb.n - 1>>
                    ELSE r
         IN  IF F("use_before_emit") THEN EmitFinish(Ev(val[1], Store(p, val[2])))
             ELSE Ev(EmitFinish(val[1]), Store(p, val[2]))
    [] s.k = "callstmt" ->
         LET r == LowerE(EmitStart(ls), [k |-> "call", a |-> s.e]) IN EmitFinish(r[1])
    [] s.k = "if" ->
         LET r  == LowerE(EmitStart(ls), s.c)
             l1 == Ev(EmitFinish(r[1]), [ev |-> "if", c |-> r[2], use |-> <<r[2]>>])
             l2 == LowerS(l1, s.body)
             l3 == Ev(Ev(l2, Plain("else")), Plain("end_if"))
         IN  IF F("scope_leak")
             THEN \* a value computed inside the accept block is used after the if
                  LET pp == Add(l3, [k |-> "LocalVariable", v |-> 0, ops |-> <<>>], PtrX) IN Ev(pp, Store(pp.n - 1, l2.n - 1))
             ELSE l3
    [] s.k = "loop" ->
         \* loop { <body>; if c { break; } continuing { x = x + 1 } }
         LET l1 == LowerS(Ev(ls, Plain("loop")), s.body)
             r  == LowerE(EmitStart(l1), s.c)
             l2 == Ev(EmitFinish(r[1]), [ev |-> "if", c |-> r[2], use |-> <<r[2]>>])
             l3 == Ev(Ev(Ev(Ev(l2, Plain("break")), Plain("else")), Plain("end_if")), Plain("continuing"))
             l4 == LowerS(l3, [k |-> "store", e |-> [k |-> "add", a |-> [k |-> "var"], b |-> [k |-> "lit"]]])
             l5 == IF F("continue_in_continuing") THEN Ev(l4, Plain("continue")) ELSE l4
         IN  Ev(l5, [ev |-> "end_loop", bi |-> -1, use |-> <<>>])
    [] s.k = "switch" ->
         \* switch e { case 1: { <body> } default: { } }
         LET r  == LowerE(EmitStart(ls), s.e)
             l1 == Ev(EmitFinish(r[1]), [ev |-> "switch", sel |-> r[2], use |-> <<r[2]>>, n |-> 2])
             l2 == LowerS(Ev(l1, [ev |-> "case", vk |-> "sint", v |-> 1, ft |-> 0, use |-> <<>>]), s.body)
             l3 == Ev(Ev(l2, Plain("break")), Plain("end_case"))
             l4 == Ev(Ev(l3, [ev |-> "case", vk |-> "default", v |-> 0, ft |-> 0, use |-> <<>>]), Plain("end_case"))
         IN  Ev(l4, Plain("end_switch"))

Ret(ls, e) ==
  IF F("missing_return") THEN ls
  ELSE LET r == LowerE(EmitStart(ls), e)
           v == IF F("return_novalue") THEN -1 ELSE r[2]
       IN  Ev(EmitFinish(r[1]), [ev |-> "return", v |-> v, use |-> IF v >= 0 THEN <<v>> ELSE <<>>])

TypeEv(h, inner) == [ev |-> "type", h |-> h, named |-> 0, name |-> "", inner |-> inner]
Prologue ==
  <<[ev |-> "reset", name |-> "design"], TypeEv(0, I32), TypeEv(1, Bool)>>
  \o (IF F("dup_type") THEN <<TypeEv(2, I32)>> ELSE <<>>)
  \o (IF F("forward_type") THEN <<TypeEv(2, Pointer(3, "function"))>> ELSE <<>>)
  \o <<[ev |-> "special", hs |-> <<-1, -1, -1>>], [ev |-> "gend"],
       [ev |-> "fsigs", sigs |-> <<[args |-> <<TI32>>, res |-> TI32], [args |-> <<TI32>>, res |-> TI32]>>],
       [ev |-> "fbegin", f |-> 1, stage |-> "none", args |-> <<[ty |-> TI32, b |-> None]>>, res |-> [ty |-> TI32, b |-> None],
        wg |-> <<0, 0, 0>>, nexpr |-> 0, ntypes |-> 0],
       [ev |-> "local", i |-> 0, ty |-> TI32, init |-> -1]>>

-----------------------------------------------------------------------------
VARIABLES prog, ret, pc, ls, st
vars == <<fault, prog, ret, pc, ls, st>>

LS0 == [n |-> 0, start |-> -1, tys |-> <<>>, evs |-> <<>>]

Init == /\ fault \in Faults \cup {"none"}
        /\ prog = <<>>
        /\ ret = [k |-> "lit"]
        /\ pc = -1
        /\ ls = LS0
        /\ st = ApplyAll(Init0, Prologue, 1)

\* the program to translate
Choose ==
  /\ pc = -1
  /\ pc' = 0
  /\ prog' \in Programs
  /\ ret' \in Rets
  /\ UNCHANGED <<fault, ls, st>>

\* lower one statement, feed the events it produced to the rule automaton
Step(l1) == /\ ls' = [l1 EXCEPT !.evs = <<>>]
            /\ st' = ApplyAll(st, l1.evs, 100 * (pc + 1))

LowerNext ==
  /\ pc >= 0 /\ pc < Len(prog)
  /\ pc' = pc + 1
  /\ Step(LowerS(ls, prog[pc + 1]))
  /\ UNCHANGED <<fault, prog, ret>>

Finish ==
  /\ pc = Len(prog)
  /\ pc' = pc + 1
  /\ LET l1 == Ret(ls, ret)
         l2 == IF F("break_outside") THEN Ev(l1, Plain("break")) ELSE l1
     IN  Step(Ev(l2, [ev |-> "fend"]))
  \* self-test report: was the fault noticed by the rule automaton on this program
  /\ (fault = "none" \/ PrintT("@@" \o ToJson([fault |-> fault, detected |-> st'.bad # <<>>])))
  /\ UNCHANGED <<fault, prog, ret>>

Next == Choose \/ LowerNext \/ Finish
Spec == Init /\ [][Next]_vars

Done == pc >= 0 /\ pc = Len(prog) + 1

Accepted == fault = "none" => st.bad = <<>>

\* every computed (not pre-emit, not result) expression was emitted, and nothing was emitted twice is Accepted's job
Evaluated ==
  (fault = "none" /\ Done) => \A h \in 0..(Len(st.exprs) - 1) :
             LET k == st.exprs[h + 1].k IN
             /\ (k \notin PreEmit \cup ResultKinds) => h \in st.emitted
             /\ (k \in PreEmit \cup ResultKinds) => h \notin st.emitted
=============================================================================
