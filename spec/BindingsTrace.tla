--------------------------- MODULE BindingsTrace ---------------------------
(***************************************************************************)
(* Trace validation for Bindings.tla.  The harness renders each module     *)
(* description produced by BindingsGen.tla as WGSL, compiles it with the   *)
(* real naga under several option sets and records:                        *)
(*                                                                         *)
(*   {ev: "case", id, m}                 the module description            *)
(*   {ev: "dump", id, run, o}            (self-test) print an accepted     *)
(*        observation sequence for the current case under options o        *)
(*   {ev: "observe", id, run, o, ok, obs} one backend call: the option     *)
(*        record o, whether the call succeeded, and the artefact records   *)
(*        obs extracted from what it emitted and returned (declarations    *)
(*        with their slots, interface variables, reflection entries)       *)
(*                                                                         *)
(* Every observe event is judged against Bindings!Exp(m, o): each observed *)
(* record must be allowed, each expected key observed exactly once.  A     *)
(* violated rule does not stop the run: it is recorded in `bad` with the   *)
(* line number, and the whole file is always consumed.                     *)
(***************************************************************************)
EXTENDS Bindings, Json

Trace == ndJsonDeserialize("trace.ndjson")

VARIABLES l, cur, bad
tvars == <<l, cur, bad>>

NoCase == [id |-> -1]

TInit == l = 1 /\ cur = NoCase /\ bad = {}

Ev == Trace[l]
IsEvent(e) == l <= Len(Trace) /\ Ev.ev = e /\ l' = l + 1

TraceCase == /\ IsEvent("case")
             /\ cur' = [id |-> Ev.id, m |-> Ev.m]
             /\ UNCHANGED bad

TraceObserve ==
  /\ IsEvent("observe")
  /\ IF cur.id # Ev.id
     THEN bad' = bad \cup {[l |-> l, id |-> Ev.id, run |-> Ev.run, rule |-> "harness: observe without its case", key |-> "", detail |-> ""]}
     ELSE bad' = bad \cup {[l |-> l, id |-> Ev.id, run |-> Ev.run, rule |-> v.rule, key |-> v.key, detail |-> v.detail]
                           : v \in Judge(Exp(cur.m, Ev.o), Ev.ok, Ev.obs)}
  /\ UNCHANGED cur

\* self-test support: print one canonical (accepted) observation sequence for the current case under options o
TraceDump ==
  /\ IsEvent("dump")
  /\ LET x == Exp(cur.m, Ev.o) IN
     PrintT("@@" \o ToJson([dump |-> Ev.run, ok |-> x.ok, obs |-> {CHOOSE a \in x.allowed : KeyOf(a) = kk : kk \in x.keys}]))
  /\ UNCHANGED <<cur, bad>>

\* after the last line: print the verdicts
TraceEnd == /\ l = Len(Trace) + 1
            /\ l' = l + 1
            /\ PrintT("@@" \o ToJson([consumed |-> Len(Trace), bad |-> bad]))
            /\ UNCHANGED <<cur, bad>>

TNext == TraceCase \/ TraceObserve \/ TraceDump \/ TraceEnd
TSpec == TInit /\ [][TNext]_tvars

\* the machinery's own sanity condition: the whole file was consumed
Consumed == TLCGet("stats").diameter >= Len(Trace) + 2
=============================================================================
