INIT Init
NEXT Next
