------------------------------- MODULE Dxbc -------------------------------
(***************************************************************************)
(* C18 - the format automaton of a DXBC container that carries DXIL.       *)
(*                                                                         *)
(* The automaton consumes EVENTS (records): the facts an independent       *)
(* decoder (harness/dxbc) read from the bytes, in file order.  It is a     *)
(* pure function                                                           *)
(*        Step(s, e) = [s |-> next state, v |-> set of violated rules]     *)
(* so that the same text is used by                                        *)
(*   * DxbcTrace.tla - trace validation of real containers (naga's output, *)
(*     DXC-built containers, corrupted copies), and                        *)
(*   * DxbcMC.tla    - the design-level model: an abstract bitcode writer   *)
(*     / container builder whose every behaviour must be accepted, and     *)
(*     whose seeded `Faults` must each be rejected.                        *)
(*                                                                         *)
(* Integer convention of the events: a stored u32 is rendered as a signed  *)
(* 32-bit integer, so a NEGATIVE value means "stored value >= 2^31" (out   *)
(* of bounds for every size / offset / index of a real container); -1 also *)
(* stands for "absent".  Digests are 4-tuples of such words.  The digest   *)
(* VALUES (MD5, the DXBC MD5 variant) are computed by the decoder; the     *)
(* RULE "stored = computed over the right range" is stated here.           *)
(*                                                                         *)
(* Rules and their sources                                                 *)
(* ---------------------                                                   *)
(* (a) container   [DxilContainer.h: DxilContainerHeader, DxilPartHeader,  *)
(*     IsValidDxilContainer, GetDxilContainerSizeFromParts,                *)
(*     DxilProgramHeader/DxilBitcodeHeader, IsValidDxilProgramHeader,      *)
(*     DxilShaderHash; INF-0004 validator hashing]                         *)
(*   container.header_complete   the 32-byte header is present             *)
(*   container.magic             HeaderFourCC = "DXBC"                     *)
(*   container.version           version 1.0                               *)
(*   container.size_is_file_length   ContainerSizeInBytes = file length    *)
(*   container.offset_table_fits 32 + 4*PartCount <= size, all offsets read*)
(*   container.digest_matches_content  retail: header digest = DXBC-MD5 of *)
(*                               bytes [20, end); bypass: 16 x 0x01        *)
(*   container.size_is_sum_of_parts  size = 32 + 4n + SUM (8 + PartSize)   *)
(*   container.part_count        one `part` per table entry                *)
(*   offset.aligned4 / offset.after_table / offset.header_in_file /        *)
(*   offset.strictly_increasing                                            *)
(*   part.header_in_file / part.known_fourcc / part.at_most_one_of_each /  *)
(*   part.in_bounds (offset + 8 + size <= file) / part.no_overlap          *)
(*   parts.required.{DXIL,ISG1,OSG1,PSV0}  (validator: ContainerPartMissing)*)
(*   sfi.size (8)    hash.size (20)   hash.flags                            *)
(*   hash.digest_is_md5_of_bitcode   HASH digest = MD5 of the DXIL part's  *)
(*                               bitcode range [8+BitcodeOffset,+BitcodeSize)*)
(*   program.size_in_dwords      SizeInUint32 * 4 = part payload size      *)
(*   program.dxil_magic          0x4C495844                                *)
(*   program.bitcode_in_part     offset >= 16, size > 0, 8+off+size <= part*)
(*   program.bitcode_fills_part  nothing but < 4 bytes of padding follows  *)
(*   program.dxil_version        DXIL 1.N for shader model 6.N             *)
(*   program.stage_matches_request / program.model_matches_request         *)
(*                               kind = requested stage, major = requested,*)
(*                               minor >= requested (naga raises the minor *)
(*                               when a feature needs it - documented)     *)
(*   program.stat_equals_dxil    STAT and DXIL program versions agree      *)
(* (b) signatures  [DxilContainer.h: DxilProgramSignature(Element);        *)
(*     DxilPipelineStateValidation.h: PSVRuntimeInfo0..3,                  *)
(*     PSVResourceBindInfo0/1, PSVSignatureElement0; DxilSignatureAllocator*)
(*     (no two elements share a register component)]                       *)
(*   sig.elements_in_bounds  sig.all_elements_decoded  sig.name_in_part    *)
(*   sig.mask_4bit  sig.mask_nonempty  sig.register_in_range (0..31 | -1)  *)
(*   sig.stream_in_range  sig.no_register_overlap                          *)
(*   psv.info_size_known (24/36/48/52)  psv.struct_sizes_per_version       *)
(*   psv.resource_count_decoded  psv.resource_type  psv.resource_range     *)
(*   (lower <= upper, unsigned)  psv.string_table_aligned                  *)
(*   psv.entry_name_present  psv.sig_element_size (16)  psv.sig_name_in_   *)
(*   table  psv.sig_semantic_indexes_in_table  psv.sig_rows_cols           *)
(*   psv.sig_counts_decoded  psv.table_fits  psv.part_fully_consumed       *)
(*   cross.psv_stage  cross.psv_sig_counts (= ISG1/OSG1/PSG1 counts)       *)
(*   cross.psv_entry_name  cross.psv_resource_count / cross.psv_resource_  *)
(*   in_metadata (PSV0 vs !dx.resources)  cross.shader_model_metadata      *)
(*   cross.dxil_version_metadata  cross.numthreads  cross.entry_function   *)
(*   cross.sig_rows_metadata                                               *)
(*   iface.input_signature / iface.output_signature / iface.resources /    *)
(*   iface.entry_name / iface.numthreads : the parts describe the entry    *)
(*   point the harness compiled (expectation derived from the IR by the    *)
(*   harness and carried by the `reset` event)                             *)
(* (c) bitstream   [LLVM 3.7 BitCodeFormat: magic, ENTER_SUBBLOCK =        *)
(*     [1, vbr8 id, vbr4 newwidth, <align32>, 32-bit length], END_BLOCK =  *)
(*     [0, <align32>], DEFINE_ABBREV, UNABBREV_RECORD, BLOCKINFO]          *)
(*   bitstream.magic  bitstream.enter_aligned32 (length word position =    *)
(*   align32(after the vbr fields), body = +32)  bitstream.width_positive  *)
(*   bitstream.abbrev_width (the id was written with the width in force)   *)
(*   bitstream.exit_aligned32  bitstream.block_length (declared words =    *)
(*   (end - body)/32)  bitstream.item_inside_block  bitstream.nesting      *)
(*   (END_BLOCK only inside a block, ids match)  bitstream.abbrev_defined  *)
(*   (id 3 or 4 <= id < 4 + #defined incl. BLOCKINFO)  bitstream.abbrev_   *)
(*   wellformed  bitstream.record_matches_abbrev  bitstream.blockinfo_     *)
(*   setbid_first  bitstream.ends_at_top_level  bitstream.fully_consumed   *)
(*   bitstream.covers_bitcode_size  bitstream.one_module_block             *)
(* (d) module index spaces [LLVM 3.7 BitcodeReader.cpp / LLVMBitCodes.h]   *)
(*   ir.type_ref_in_range (< NUMENTRY; forward only to a named struct)     *)
(*   ir.type_count (= NUMENTRY)  ir.global_type_in_range                    *)
(*   ir.function_type  ir.settype_in_range  ir.const_has_type               *)
(*   ir.const_ref_defined (by the end of the constants block)               *)
(*   ir.global_init_defined  ir.md_ref_defined (by the end of the block)    *)
(*   ir.md_value_defined  ir.vst_entry_defined                              *)
(*   ir.body_has_declaration  ir.declareblocks_first  ir.operand_defined    *)
(*   (value id >= 0 and defined by the end of the function)                 *)
(*   ir.operand_type_in_range  ir.branch_target_in_range                    *)
(*   ir.record_operand_count (record neither short nor over-long for its    *)
(*   opcode)  ir.forward_ref_type (explicit type of a forward reference    *)
(*   agrees with the later definition)  ir.block_count (DECLAREBLOCKS =    *)
(*   #terminators)  ir.ends_with_terminator  ir.call_target_is_function    *)
(*   ir.call_param_count  ir.bodies_match_definitions                       *)
(*   ir.typed.* : the operand TYPE checks LLVM 3.7's reader performs while *)
(*   parsing (load/store/gep/cmpxchg/atomicrmw pointer operand is a pointer*)
(*   and the explicit type equals the pointee; call type equals the callee *)
(*   pointee; extract/insertvalue index inside the aggregate)               *)
(*   decode.<layer> : the decoder could not read a structure at all         *)
(* (e) determinism.identical_bytes : compiling the same (module, options)  *)
(*   twice, and a re-lowered module, gave the same bytes (observed by the   *)
(*   harness, carried by the `fin` event)                                   *)
(***************************************************************************)
EXTENDS Integers, Sequences, FiniteSets, TLC

\* ------------------------------------------------------------------ helpers
R(name, ok) == IF ok THEN {} ELSE {name}
LeU(a, b)   == IF (a >= 0) = (b >= 0) THEN a <= b ELSE a >= 0     \* unsigned <= on s32 renderings
Align32(b)  == ((b + 31) \div 32) * 32
Pow2(n)     == 2 ^ n
\* number of bits a VBR-n encoding of v (0 <= v < 2^30) takes
RECURSIVE VbrChunks(_, _)
VbrChunks(v, n) == IF v < Pow2(n - 1) THEN 1 ELSE 1 + VbrChunks(v \div Pow2(n - 1), n)
VbrBits(v, n)   == n * VbrChunks(v, n)
Bits4(m)    == {i \in 0..3 : ((m \div Pow2(i)) % 2) = 1}
RangeOf(s)  == {s[i] : i \in DOMAIN s}
MaxI(a, b)   == IF a >= b THEN a ELSE b
MaxOf(s, d) == IF s = <<>> THEN d ELSE LET S == RangeOf(s) IN CHOOSE x \in S : \A y \in S : y <= x
Bypass      == <<16843009, 16843009, 16843009, 16843009>>          \* 16 x 0x01 (INF-0004)
DxilMagic   == 1279875140                                          \* 'DXIL' little endian
KnownParts  == {"DXIL", "ILDB", "ILDN", "SFI0", "HASH", "ISG1", "OSG1", "PSG1", "PSV0", "RTS0", "STAT", "RDAT",
                "VERS", "SRCI", "PDBI", "PRIV", "XNAM", "XHSH", "SHDR", "SHEX", "ISGN", "OSGN", "PCSG", "RDEF", "COMP"}
SigParts    == {"ISG1", "OSG1", "PSG1"}
NoProg      == [have |-> FALSE, kind |-> -1, major |-> -1, minor |-> -1, dmajor |-> -1, dminor |-> -1, bcsize |-> -1]
NoFn        == [on |-> FALSE, fn |-> -1, vn |-> 0, first |-> 0, declared |-> -1, terms |-> 0, insts |-> 0, lastTerm |-> FALSE,
                fwdMax |-> -1, vstMax |-> -1, bbMax |-> -1, tgtMax |-> -1]

\* The request travels in the `reset` event that precedes every container:
\*   stage (program kind, -1 = any), major/minor (requested shader model, -1 = any), hash ("retail"|"bypass"|"any"),
\*   entry (name or ""), iface ("check"|"none"), exp_in / exp_out (tuples <<system value, semantic index, #components,
\*   component type>>), res ("exact"|"subset"|"none"), exp_res (tuples <<class, space, lower, upper>>),
\*   threads (<<x,y,z>> or <<>>)
S0(e) == [
  c |-> e.c, req |-> e, rep |-> {},
  \* ---- container
  hdr |-> FALSE, fsize |-> 0, nparts |-> 0, tableEnd |-> 32, digest |-> <<0, 0, 0, 0>>,
  offs |-> <<>>, prevEnd |-> 32, partsSeen |-> 0, sum |-> 0, seen |-> {}, cur |-> "",
  prog |-> NoProg, stat |-> NoProg,
  sigCount |-> [p \in SigParts |-> -1], sigElems |-> [p \in SigParts |-> <<>>],
  psv |-> [have |-> FALSE, info |-> 0, stage |-> -1, nin |-> 0, nout |-> 0, npc |-> 0, nres |-> 0, tx |-> 0, ty |-> 0, tz |-> 0,
           entry |-> "", haveEntry |-> FALSE],
  psvRes |-> <<>>, psvSig |-> [w \in {"in", "out", "pc"} |-> 0],
  \* ---- bitstream
  bsOn |-> FALSE, width |-> 2, stack |-> <<>>, binfo |-> <<>>, bid |-> -1, top |-> 0, modules |-> 0, bcbits |-> -1,
  \* ---- module
  numentry |-> -1, ntypes |-> 0, tyFwd |-> {}, nvals |-> 0, fnParams |-> <<>>, initMax |-> -1, mdCount |-> 0, mdRefMax |-> -1,
  mdValMax |-> -1, vstMax |-> -1, constRefMax |-> -1, f |-> NoFn, defined |-> 0,
  \* ---- DXIL metadata
  dxSM |-> <<>>, dxVer |-> <<>>, dxEntry |-> <<>>, dxRes |-> <<>>, dxResTotal |-> -1, dxThreads |-> <<>>,
  dxSigRows |-> [w \in {"in", "out", "pc"} |-> -1]
]
Blank == S0([c |-> 0, stage |-> -1, major |-> -1, minor |-> -1, hash |-> "any", entry |-> "", iface |-> "none",
             exp_in |-> <<>>, exp_out |-> <<>>, res |-> "none", exp_res |-> <<>>, threads |-> <<>>])

Ret(s, v) == [s |-> s, v |-> v]

\* ------------------------------------------------------------- (a) container
OnHeader(s, e) ==
  LET sane == e.complete /\ e.part_count >= 0 /\ e.part_count <= e.actual_size
      tend == IF sane THEN 32 + 4 * e.part_count ELSE 32
  IN Ret([s EXCEPT !.hdr = TRUE, !.fsize = e.actual_size, !.nparts = IF sane THEN e.part_count ELSE 0, !.tableEnd = tend,
                   !.prevEnd = tend, !.digest = e.digest],
         R("container.header_complete", e.complete)
         \cup (IF ~e.complete THEN {} ELSE
               R("container.magic", e.magic = "DXBC")
          \cup R("container.version", e.ver_major = 1 /\ e.ver_minor = 0)
          \cup R("container.size_is_file_length", e.declared_size = e.actual_size)
          \cup R("container.offset_table_fits", sane /\ tend <= e.actual_size /\ e.offsets_read = e.part_count)))

OnDigest(s, e) ==
  Ret(s, R("container.digest_matches_content",
           CASE s.req.hash = "retail" -> e.computed = s.digest
             [] s.req.hash = "bypass" -> s.digest = Bypass
             [] OTHER                 -> e.computed = s.digest \/ s.digest = Bypass))

OnPartOffset(s, e) ==
  LET n == Len(s.offs) IN
  Ret([s EXCEPT !.offs = Append(@, e.offset)],
         R("offset.aligned4", e.offset >= 0 /\ (e.offset % 4) = 0)
    \cup R("offset.after_table", e.offset >= s.tableEnd)
    \cup R("offset.header_in_file", e.offset >= 0 /\ e.offset <= s.fsize - 8)
    \cup R("offset.strictly_increasing", n = 0 \/ (e.offset >= 0 /\ s.offs[n] < e.offset)))

OnPart(s, e) ==
  LET fits == e.header_ok /\ e.offset >= 0 /\ e.size >= 0 /\ e.size <= s.fsize /\ e.offset <= s.fsize /\ e.offset + 8 + e.size <= s.fsize
      end  == IF fits THEN e.offset + 8 + e.size ELSE s.prevEnd
  IN Ret([s EXCEPT !.partsSeen = @ + 1, !.cur = e.fourcc, !.seen = @ \cup {e.fourcc}, !.prevEnd = MaxI(end, s.prevEnd),
                   !.sum = IF e.size >= 0 /\ e.size <= s.fsize THEN @ + 8 + e.size ELSE @],
         R("part.header_in_file", e.header_ok)
         \cup (IF ~e.header_ok THEN {} ELSE
               R("part.known_fourcc", e.fourcc \in KnownParts)
          \cup R("part.at_most_one_of_each", e.fourcc \notin s.seen)
          \cup R("part.in_bounds", fits)
          \cup R("part.no_overlap", e.offset >= s.prevEnd)))

OnPartsEnd(s, e) ==
  Ret(s, R("container.part_count", s.partsSeen = s.nparts)
    \cup R("container.size_is_sum_of_parts", s.tableEnd + s.sum = s.fsize)
    \cup UNION {R("parts.required." \o p, p \in s.seen) : p \in {"DXIL", "ISG1", "OSG1", "PSV0"}})

OnSfi(s, e) == Ret(s, R("sfi.size", e.size = 8))

OnHashPart(s, e) ==
  Ret(s, R("hash.size", e.size = 20)
    \cup R("hash.flags", e.flags \in {0, 1})
    \cup R("hash.digest_is_md5_of_bitcode", ~(e.flags = 0 /\ e.have_dxil) \/ e.digest = e.md5_bitcode))

OnProgramHeader(s, e) ==
  LET rec  == [have |-> TRUE, kind |-> e.kind, major |-> e.major, minor |-> e.minor, dmajor |-> e.dxil_major,
               dminor |-> e.dxil_minor, bcsize |-> e.bc_size]
      inb  == e.bc_offset >= 16 /\ e.bc_size > 0 /\ e.bc_offset <= e.actual_bytes /\ e.bc_size <= e.actual_bytes
              /\ 8 + e.bc_offset + e.bc_size <= e.actual_bytes
      s1   == IF e.part = "DXIL" THEN [s EXCEPT !.prog = rec] ELSE IF e.part = "STAT" THEN [s EXCEPT !.stat = rec] ELSE s
  IN Ret(s1,
         R("program.size_in_dwords", e.size_dwords >= 0 /\ e.size_dwords <= e.actual_bytes /\ e.size_dwords * 4 = e.actual_bytes)
    \cup R("program.dxil_magic", e.magic = DxilMagic)
    \cup R("program.bitcode_in_part", inb)
    \cup R("program.bitcode_fills_part", ~inb \/ e.actual_bytes - (8 + e.bc_offset + e.bc_size) \in 0..3)
    \cup R("program.dxil_version", e.dxil_major = 1 /\ (e.major # 6 \/ e.dxil_minor = e.minor))
    \cup R("program.stage_matches_request", s.req.stage = -1 \/ e.kind = s.req.stage)
    \cup R("program.model_matches_request", s.req.major = -1 \/ (e.major = s.req.major /\ e.minor >= s.req.minor)))

OnStat(s, e) == Ret(s, R("stat.bitstream_parses", e.ok /\ e.magic_ok))

\* ------------------------------------------------------------ (b) signatures
OnSig(s, e) ==
  Ret([s EXCEPT !.sigCount[e.part] = e.count],
      R("sig.elements_in_bounds", e.count >= 0 /\ e.count <= e.size /\ e.offset >= 8 /\ e.offset <= e.size
                                  /\ e.offset + 32 * e.count <= e.size))

OnSigElem(s, e) ==
  LET prior == s.sigElems[e.part]
      m4    == e.mask \in 0..15 /\ e.rw_mask \in 0..15
      clash == \E i \in DOMAIN prior : prior[i].register = e.register /\ prior[i].stream = e.stream
                                       /\ prior[i].mask \in 0..15 /\ Bits4(prior[i].mask) \cap Bits4(e.mask) # {}
  IN Ret([s EXCEPT !.sigElems[e.part] = Append(@, e)],
         R("sig.name_in_part", e.name_in_bounds)
    \cup R("sig.mask_4bit", m4)
    \cup R("sig.mask_nonempty", e.mask # 0)
    \cup R("sig.register_in_range", e.register = -1 \/ e.register \in 0..31)
    \cup R("sig.stream_in_range", e.stream \in 0..3)
    \cup R("sig.no_register_overlap", ~m4 \/ e.register = -1 \/ ~clash))

PsvSizes == {<<24, 16>>, <<36, 16>>, <<48, 24>>, <<52, 24>>}
OnPsv(s, e) ==
  Ret([s EXCEPT !.psv = [have |-> TRUE, info |-> e.info_size, stage |-> e.stage, nin |-> e.sig_in_elems, nout |-> e.sig_out_elems,
                         npc |-> e.sig_pc_elems, nres |-> e.resource_count, tx |-> e.threads_x, ty |-> e.threads_y,
                         tz |-> e.threads_z, entry |-> "", haveEntry |-> FALSE]],
         R("psv.info_size_known", e.info_size \in {24, 36, 48, 52})
    \cup R("psv.struct_sizes_per_version", e.resource_count <= 0 \/ <<e.info_size, e.bind_size>> \in PsvSizes)
    \cup R("psv.resource_count_decoded", e.resource_count >= 0))

OnPsvRes(s, e) ==
  Ret([s EXCEPT !.psvRes = Append(@, e)],
         R("psv.resource_type", e.type \in 1..9)
    \cup R("psv.resource_range", LeU(e.lower, e.upper)))

OnPsvStrtab(s, e) ==
  Ret([s EXCEPT !.psv.entry = e.entry_name, !.psv.haveEntry = e.have_entry],
         R("psv.string_table_aligned", e.size >= 0 /\ (e.size % 4) = 0)
    \cup R("psv.entry_name_present", ~e.have_entry \/ (e.entry_name_in_bounds /\ e.entry_name # "")))

OnPsvSigSize(s, e) == Ret(s, R("psv.sig_element_size", e.size = 16))

OnPsvSig(s, e) ==
  Ret([s EXCEPT !.psvSig[e.which] = @ + 1],
         R("psv.sig_name_in_table", e.name_in_bounds)
    \cup R("psv.sig_semantic_indexes_in_table", e.sem_indexes_in_bounds)
    \cup R("psv.sig_rows_cols", e.rows >= 1 /\ e.cols \in 1..4 /\ e.start_col + e.cols <= 4 /\ (e.allocated = 0 \/ e.start_row + e.rows <= 32)))

OnPsvTable(s, e) == Ret(s, R("psv.table_fits", e.fits))

OnPsvEnd(s, e) ==
  Ret(s, R("psv.part_fully_consumed", e.pos = e.size)
    \cup R("psv.resource_count_decoded", Len(s.psvRes) = s.psv.nres)
    \cup R("psv.sig_counts_decoded", s.psv.info < 36 \/ (s.psvSig["in"] = s.psv.nin /\ s.psvSig["out"] = s.psv.nout /\ s.psvSig["pc"] = s.psv.npc)))

\* ------------------------------------------------------------- (c) bitstream
\* An abbreviation is kept as [n |-> #operands, open |-> has array/blob, lit |-> literal code or -1, min |-> #scalar operands]
AbbrevShape(kinds, vals) ==
  LET n == Len(kinds) IN
  [n |-> n, open |-> \E i \in 1..n : kinds[i] \in {3, 5},
   lit |-> IF n >= 1 /\ kinds[1] = 0 THEN vals[1] ELSE -1,
   min |-> Cardinality({i \in 1..n : kinds[i] \notin {3, 5}}) - (IF \E i \in 1..n : kinds[i] = 3 THEN 1 ELSE 0)]
\* array: second to last, element is a scalar encoding; blob: last [BitCodeFormat "DEFINE_ABBREV Encoding"]
AbbrevWellFormed(kinds) ==
  LET n == Len(kinds) IN
  /\ n >= 1
  /\ \A i \in 1..n : kinds[i] \in 0..5
  /\ \A i \in 1..n : kinds[i] = 3 => (i = n - 1 /\ kinds[n] \in {1, 2, 4})
  /\ \A i \in 1..n : kinds[i] = 5 => i = n
InfoFor(s, id) == IF \E i \in DOMAIN s.binfo : s.binfo[i].id = id
                  THEN (CHOOSE i \in DOMAIN s.binfo : s.binfo[i].id = id) ELSE 0
InheritedAbbrevs(s, id) == IF InfoFor(s, id) = 0 THEN <<>> ELSE s.binfo[InfoFor(s, id)].abbrs

OnBcMagic(s, e) ==
  Ret([s EXCEPT !.bsOn = TRUE, !.width = 2, !.stack = <<>>, !.top = 0, !.modules = 0, !.bcbits = e.total_bits],
         R("bitstream.magic", <<e.b0, e.b1, e.b2, e.b3>> = <<66, 67, 192, 222>>)
    \cup R("bitstream.covers_bitcode_size", ~s.prog.have \/ s.prog.bcsize < 0 \/ s.prog.bcsize > 134217727 \/ e.total_bits = 8 * s.prog.bcsize))

Top(s)   == s.stack[Len(s.stack)]
Depth(s) == Len(s.stack)
\* an item occupying [from, to) must lie inside the enclosing block's declared extent
Inside(s, from, to) == Depth(s) = 0 \/ (from >= Top(s).body /\ (Top(s).declared < 0 \/ Top(s).declared > 67108863
                                                              \/ to <= Top(s).body + 32 * Top(s).declared))

OnEnterBlock(s, e) ==
  LET idok   == e.id >= 0 /\ e.id < 1073741824
      lenbit == IF idok /\ e.width >= 0 /\ e.width < 1073741824
                THEN Align32(e.bit + s.width + VbrBits(e.id, 8) + VbrBits(e.width, 4)) ELSE -1
      frame  == [id |-> e.id, outer |-> s.width, width |-> e.width, declared |-> e.declared_words, body |-> e.body_bit,
                 abbrs |-> InheritedAbbrevs(s, e.id)]
  IN Ret([s EXCEPT !.stack = Append(@, frame), !.width = e.width, !.bid = -1,
                   !.top = IF Depth(s) = 0 THEN @ + 1 ELSE @,
                   !.modules = IF Depth(s) = 0 /\ e.id = 8 THEN @ + 1 ELSE @],
         R("bitstream.enter_aligned32", e.len_bit = lenbit /\ e.body_bit = e.len_bit + 32)
    \cup R("bitstream.abbrev_width", e.w = -1 \/ e.w = s.width)
    \cup R("bitstream.width_positive", e.width >= 1 /\ e.width <= 32)
    \cup R("bitstream.item_inside_block", Inside(s, e.bit, e.body_bit)))

OnExitBlock(s, e) ==
  IF Depth(s) = 0 THEN Ret(s, {"bitstream.nesting"})
  ELSE LET t == Top(s) IN
       Ret([s EXCEPT !.stack = SubSeq(@, 1, Len(@) - 1), !.width = t.outer, !.bid = -1],
              R("bitstream.nesting", e.id = t.id)
         \cup R("bitstream.abbrev_width", e.w = -1 \/ e.w = t.width)
         \cup R("bitstream.exit_aligned32", (e.end_bit % 32) = 0 /\ e.end_bit = Align32(e.bit + t.width))
         \cup R("bitstream.block_length", t.declared >= 0 /\ e.declared_words = t.declared /\ t.declared <= 67108863
                                          /\ e.end_bit - t.body = 32 * t.declared)
         \cup R("bitstream.item_inside_block", e.bit >= t.body))

OnDefineAbbrev(s, e) ==
  LET shape == AbbrevShape(e.kinds, e.vals)
      wf    == R("bitstream.abbrev_wellformed", AbbrevWellFormed(e.kinds) /\ Len(e.vals) = Len(e.kinds))
  IN IF Depth(s) = 0 THEN Ret(s, {"bitstream.nesting"})
     ELSE IF Top(s).id = 0     \* inside BLOCKINFO: registers for the block named by the last SETBID
     THEN IF s.bid < 0 THEN Ret(s, wf \cup {"bitstream.blockinfo_setbid_first"})
          ELSE LET k == InfoFor(s, s.bid) IN
               Ret([s EXCEPT !.binfo = IF k = 0 THEN Append(@, [id |-> s.bid, abbrs |-> <<shape>>])
                                       ELSE [s.binfo EXCEPT ![k].abbrs = Append(@, shape)]],
                   wf \cup R("bitstream.abbrev_width", e.w = -1 \/ e.w = s.width))
     ELSE Ret([s EXCEPT !.stack[Len(s.stack)].abbrs = Append(@, shape)],
              wf \cup R("bitstream.abbrev_width", e.w = -1 \/ e.w = s.width)
                 \cup R("bitstream.abbrev_defined", e.abbrev_id = -1 \/ e.abbrev_id = 4 + Len(Top(s).abbrs)))

\* a record (also the records of BLOCKINFO, which carry blockinfo = TRUE)
OnRecord(s, e) ==
  IF Depth(s) = 0 THEN Ret(s, {"bitstream.nesting"})
  ELSE LET t    == Top(s)
           na   == Len(t.abbrs)
           defd == e.abbrev = 3 \/ (e.abbrev >= 4 /\ e.abbrev < 4 + na)
           sh   == IF e.abbrev >= 4 /\ e.abbrev < 4 + na THEN t.abbrs[e.abbrev - 3] ELSE [n |-> 0, open |-> TRUE, lit |-> -1, min |-> 0]
           s1   == IF t.id = 0 /\ e.code = 1 THEN [s EXCEPT !.bid = e.op0] ELSE s
       IN Ret(s1,
              R("bitstream.abbrev_defined", defd)
         \cup R("bitstream.abbrev_width", (e.w = -1 \/ e.w = s.width) /\ (s.width < 1 \/ s.width > 30 \/ e.abbrev < Pow2(s.width)))
         \cup R("bitstream.record_matches_abbrev",
                e.abbrev = 3 \/ ~defd \/ ((IF sh.open THEN e.nops + 1 >= sh.min ELSE e.nops + 1 = sh.n) /\ (sh.lit = -1 \/ e.code = sh.lit)))
         \cup R("bitstream.item_inside_block", e.end_bit > e.bit /\ Inside(s, e.bit, e.end_bit))
         \cup R("bitstream.blockinfo_setbid_first", t.id # 0 \/ e.code = 1 \/ s.bid >= 0))

OnEnd(s, e) ==
  Ret([s EXCEPT !.bsOn = FALSE],
         R("bitstream.ends_at_top_level", Depth(s) = 0 /\ e.ok)
    \cup R("bitstream.fully_consumed", e.consumed = e.total /\ (s.bcbits < 0 \/ e.total = s.bcbits))
    \cup R("bitstream.one_module_block", s.modules = 1 /\ s.top = 1))

\* ---------------------------------------------------------- (d) index spaces
OnNumEntry(s, e) == Ret([s EXCEPT !.numentry = e.n], {})

OnType(s, e) ==
  LET lim  == IF s.numentry >= 0 THEN s.numentry ELSE 1073741823
      fwds == {r \in RangeOf(e.refs) : r >= e.idx}
  IN Ret([s EXCEPT !.ntypes = e.idx + 1, !.tyFwd = (@ \cup fwds) \ {e.idx}],
         R("ir.type_ref_in_range", (\A r \in RangeOf(e.refs) : r >= 0 /\ r < lim)          \* inside the table
                                   /\ (e.idx \notin s.tyFwd \/ e.named_struct)           \* a forward reference resolves to a named struct only
                                   /\ e.idx \notin fwds)                                  \* no self reference
    \cup R("ir.record_operand_count", ~e.short))

OnTypesEnd(s, e) ==
  Ret([s EXCEPT !.ntypes = e.count],
         R("ir.type_count", e.have_numentry /\ e.numentry = e.count)
    \cup R("ir.type_ref_in_range", \A r \in s.tyFwd : r < e.count))

TyOK(s, t) == t >= 0 /\ t < s.ntypes

OnGlobal(s, e) ==
  Ret([s EXCEPT !.nvals = e.value + 1, !.initMax = MaxI(@, e.init)],
      R("ir.global_type_in_range", TyOK(s, e.ty)) \cup R("ir.record_operand_count", e.nops >= 6))

OnFunction(s, e) ==
  Ret([s EXCEPT !.nvals = e.value + 1, !.fnParams = Append(@, [v |-> e.value, n |-> e.nparams]),
                !.defined = IF e.is_decl THEN @ ELSE @ + 1],
         R("ir.global_type_in_range", TyOK(s, e.ty))
    \cup R("ir.function_type", e.fn_ty >= 0)
    \cup R("ir.record_operand_count", e.nops >= 8))

OnAlias(s, e) == Ret([s EXCEPT !.nvals = e.value + 1], R("ir.global_type_in_range", TyOK(s, e.ty)))

OnSetType(s, e) == Ret(s, R("ir.settype_in_range", TyOK(s, e.ty)))

OnConst(s, e) ==
  LET s1 == [s EXCEPT !.constRefMax = MaxI(@, MaxOf(e.refs, -1))]
      s2 == IF e.fn >= 0 /\ s.f.on THEN [s1 EXCEPT !.f.vn = e.value + 1] ELSE [s1 EXCEPT !.nvals = e.value + 1]
  IN Ret(s2,
         R("ir.const_has_type", e.ty_set /\ TyOK(s, e.ty))
    \cup R("ir.operand_type_in_range", \A t \in RangeOf(e.type_refs) : TyOK(s, t))
    \cup R("ir.const_ref_defined", \A r \in RangeOf(e.refs) : r >= 0))

OnConstsEnd(s, e) ==
  Ret([s EXCEPT !.constRefMax = -1], R("ir.const_ref_defined", s.constRefMax < e.next_value))

OnMd(s, e) ==
  Ret([s EXCEPT !.mdCount = e.idx + 1, !.mdRefMax = MaxI(@, MaxOf(e.ops, -1)),
                !.mdValMax = IF e.kind = "value" /\ e.fn < 0 THEN MaxI(@, e.val) ELSE @],
         R("ir.md_value_defined", e.kind # "value" \/ (TyOK(s, e.ty) /\ e.val >= 0))
    \cup R("ir.md_ref_defined", \A r \in RangeOf(e.ops) : r >= -1))

OnNamedMd(s, e) ==
  Ret([s EXCEPT !.mdRefMax = MaxI(@, MaxOf(e.ops, -1))], R("ir.md_ref_defined", \A r \in RangeOf(e.ops) : r >= 0))

OnMdEnd(s, e) ==
  Ret([s EXCEPT !.mdRefMax = -1], R("ir.md_ref_defined", s.mdRefMax < e.count))

OnVst(s, e) ==
  IF e.fn < 0 THEN Ret([s EXCEPT !.vstMax = IF e.kind = "entry" THEN MaxI(@, e.id) ELSE @], R("ir.vst_entry_defined", e.id >= 0))
  ELSE Ret([s EXCEPT !.f.vstMax = IF e.kind = "entry" THEN MaxI(@, e.id) ELSE @,
                     !.f.bbMax  = IF e.kind = "bbentry" THEN MaxI(@, e.id) ELSE @], R("ir.vst_entry_defined", e.id >= 0))

OnFuncBegin(s, e) ==
  Ret([s EXCEPT !.f = [NoFn EXCEPT !.on = TRUE, !.fn = e.fn, !.first = e.first_value, !.vn = e.first_value + e.nargs]],
      R("ir.body_has_declaration", e.fn >= 0))

OnDeclareBlocks(s, e) ==
  Ret([s EXCEPT !.f.declared = e.n], R("ir.declareblocks_first", e.after_insts = 0 /\ e.n >= 1 /\ s.f.declared = -1))

ParamsOf(s, v) == IF \E i \in DOMAIN s.fnParams : s.fnParams[i].v = v
                  THEN s.fnParams[CHOOSE i \in DOMAIN s.fnParams : s.fnParams[i].v = v].n ELSE -2

OnInst(s, e) ==
  LET vals == RangeOf(e.vals)
      f1   == [s.f EXCEPT !.insts = @ + 1, !.vn = IF e.defines THEN e.vn + 1 ELSE e.vn, !.terms = IF e.term THEN @ + 1 ELSE @,
                          !.lastTerm = e.term, !.fwdMax = MaxI(@, MaxOf(e.vals, -1)), !.tgtMax = MaxI(@, MaxOf(e.targets, -1))]
  IN Ret([s EXCEPT !.f = f1],
         R("ir.operand_defined", \A v \in vals : v >= 0)
    \cup R("ir.operand_type_in_range", \A t \in RangeOf(e.types) : TyOK(s, t))
    \cup R("ir.branch_target_in_range", \A t \in RangeOf(e.targets) : t >= 0)
    \cup R("ir.record_operand_count", ~e.short /\ e.extra_ops = 0)   \* (a relative id wider than 32 bits is truncated by LLVM's reader: accepted)
    \cup R("ir.forward_ref_type", ~e.fwd_type_conflict)
    \cup (IF e.op # "call" THEN {} ELSE
              R("ir.call_target_is_function", e.callee >= 0 /\ ParamsOf(s, e.callee) # -2)
         \cup R("ir.call_param_count", ParamsOf(s, e.callee) < 0 \/ (e.nparams = ParamsOf(s, e.callee) /\ e.varargs = 0)))
    \cup {"ir.typed." \o t : t \in RangeOf(e.tyfail)})

OnFuncEnd(s, e) ==
  Ret([s EXCEPT !.f = NoFn],
         R("ir.operand_defined", s.f.fwdMax < e.next_value /\ e.max_value_used < e.next_value)
    \cup R("ir.block_count", s.f.declared = s.f.terms)
    \cup R("ir.branch_target_in_range", s.f.declared < 0 \/ (s.f.tgtMax < s.f.declared /\ s.f.bbMax < s.f.declared))
    \cup R("ir.ends_with_terminator", s.f.insts > 0 /\ s.f.lastTerm)
    \cup R("ir.vst_entry_defined", s.f.vstMax < e.next_value)
    \cup R("ir.record_operand_count", ~e.aborted))

OnModuleEnd(s, e) ==
  Ret(s, R("ir.bodies_match_definitions", e.bodies = s.defined)
    \cup R("ir.global_init_defined", s.initMax < e.module_values)
    \cup R("ir.md_value_defined", s.mdValMax < e.module_values)
    \cup R("ir.vst_entry_defined", s.vstMax < e.module_values))

\* --------------------------------------------------------- DXIL metadata facts
OnDxVersion(s, e) == Ret(IF e.which = "dx.version" THEN [s EXCEPT !.dxVer = <<e.major, e.minor>>] ELSE s, {})
OnDxSM(s, e)      == Ret([s EXCEPT !.dxSM = <<e.kind, e.major, e.minor>>], {})
OnDxEntry(s, e)   == Ret([s EXCEPT !.dxEntry = Append(@, e)],
                         R("cross.entry_function", e.fn >= 0 /\ ~e.fn_is_decl /\ e.fn_name_matches))
OnDxResources(s, e) == Ret(IF e.scope = "module" THEN [s EXCEPT !.dxResTotal = e.total] ELSE s, {})
OnDxResource(s, e)  == Ret(IF e.scope = "module" THEN [s EXCEPT !.dxRes = Append(@, e)] ELSE s, {})
OnDxSigElem(s, e)   == Ret([s EXCEPT !.dxSigRows[e.which] = (IF @ < 0 THEN 0 ELSE @) + e.rows], {})
OnDxEntryProp(s, e) == Ret(IF e.tag = 4 THEN [s EXCEPT !.dxThreads = <<e.threads_x, e.threads_y, e.threads_z>>] ELSE s, {})

\* ------------------------------------------------ end of container: relations
KindName(k) == CASE k = 0 -> "ps" [] k = 1 -> "vs" [] k = 2 -> "gs" [] k = 3 -> "hs" [] k = 4 -> "ds" [] k = 5 -> "cs"
                 [] k = 6 -> "lib" [] k = 13 -> "ms" [] k = 14 -> "as" [] OTHER -> "?"
\* PSVResourceType -> DXIL resource class (0 SRV, 1 UAV, 2 CBV, 3 Sampler)
ClassOfPsvType(t) == CASE t = 1 -> 3 [] t = 2 -> 2 [] t \in 3..5 -> 0 [] t \in 6..9 -> 1 [] OTHER -> -1
\* multiset equality of two sequences (as bags of their elements)
SameBag(a, b) == Len(a) = Len(b) /\ \A x \in RangeOf(a) \cup RangeOf(b) :
                   Cardinality({i \in DOMAIN a : a[i] = x}) = Cardinality({i \in DOMAIN b : b[i] = x})
SigView(elems) == IF elems = <<>> THEN <<>> ELSE [i \in DOMAIN elems |-> <<elems[i].system_value, elems[i].sem_index,
                                             IF elems[i].mask \in 0..15 THEN Cardinality(Bits4(elems[i].mask)) ELSE -1,
                                             elems[i].comp_type>>]
ResView(rs)    == IF rs = <<>> THEN <<>> ELSE [i \in DOMAIN rs |-> <<ClassOfPsvType(rs[i].type), rs[i].space, rs[i].lower, rs[i].upper>>]

OnFin(s, e) ==
  LET cnt(p)  == IF s.sigCount[p] < 0 THEN 0 ELSE s.sigCount[p]
      psv1    == s.psv.have /\ s.psv.info >= 36
      oneEntry == Len(s.dxEntry) = 1
      inMd(r) == \E i \in DOMAIN s.dxRes : s.dxRes[i].space = r.space /\ s.dxRes[i].lower = r.lower /\ s.dxRes[i].upper = r.upper
                                          /\ s.dxRes[i].class = ClassOfPsvType(r.type)
      have    == s.prog.have
      rv      == ResView(s.psvRes)
  IN Ret(s,
         R("determinism.identical_bytes", e.same)
    \cup UNION {R("sig.all_elements_decoded", s.sigCount[p] < 0 \/ Len(s.sigElems[p]) = s.sigCount[p]) : p \in SigParts}
    \cup R("program.stat_equals_dxil", ~s.stat.have \/ ~have \/ (s.stat.kind = s.prog.kind /\ s.stat.major = s.prog.major /\ s.stat.minor = s.prog.minor))
    \cup R("cross.psv_stage", ~psv1 \/ ~have \/ s.psv.stage = s.prog.kind)
    \cup R("cross.psv_sig_counts", ~psv1 \/ (s.psv.nin = cnt("ISG1") /\ s.psv.nout = cnt("OSG1") /\ s.psv.npc = cnt("PSG1")))
    \cup R("cross.psv_entry_name", ~s.psv.haveEntry \/ ~oneEntry \/ s.psv.entry = s.dxEntry[1].name)
    \cup R("cross.psv_resource_count", ~s.psv.have \/ ~have \/ s.psv.nres = (IF s.dxResTotal < 0 THEN 0 ELSE s.dxResTotal))
    \cup R("cross.psv_resource_in_metadata", ~have \/ \A i \in DOMAIN s.psvRes : inMd(s.psvRes[i]))
    \cup R("cross.shader_model_metadata", ~have \/ s.dxSM = <<KindName(s.prog.kind), s.prog.major, s.prog.minor>>)
    \cup R("cross.dxil_version_metadata", ~have \/ s.dxVer = <<s.prog.dmajor, s.prog.dminor>>)
    \cup R("cross.numthreads", ~s.psv.have \/ s.psv.info < 48 \/ s.dxThreads = <<>> \/ s.dxThreads = <<s.psv.tx, s.psv.ty, s.psv.tz>>)
    \cup R("cross.sig_rows_metadata", ~have \/ ~oneEntry \/
             (   (s.dxSigRows["in"] < 0 \/ s.sigCount["ISG1"] < 0 \/ s.dxSigRows["in"] = s.sigCount["ISG1"])
              /\ (s.dxSigRows["out"] < 0 \/ s.sigCount["OSG1"] < 0 \/ s.dxSigRows["out"] = s.sigCount["OSG1"])))
    \cup (IF s.req.iface # "check" THEN {} ELSE
               R("iface.input_signature", SameBag(SigView(s.sigElems["ISG1"]), s.req.exp_in))
          \cup R("iface.output_signature", SameBag(SigView(s.sigElems["OSG1"]), s.req.exp_out)))
    \cup R("iface.entry_name", s.req.entry = "" \/ ~oneEntry \/ s.dxEntry[1].name = s.req.entry)
    \cup R("iface.numthreads", s.req.threads = <<>> \/ ~s.psv.have \/ s.psv.info < 48 \/ s.req.threads = <<s.psv.tx, s.psv.ty, s.psv.tz>>)
    \cup (CASE s.req.res = "exact"  -> R("iface.resources", SameBag(rv, s.req.exp_res))
            [] s.req.res = "subset" -> R("iface.resources", \A i \in DOMAIN rv : rv[i] \in RangeOf(s.req.exp_res))
            [] OTHER -> {}))

OnError(s, e) == Ret(s, {"decode." \o e.layer})

\* ------------------------------------------------------------------ dispatch
\* (most frequent events first: TLC tries the arms in order)
Step(s, e) ==
  CASE e.ev = "record"           -> OnRecord(s, e)
    [] e.ev = "ir_inst"          -> OnInst(s, e)
    [] e.ev = "ir_const"         -> OnConst(s, e)
    [] e.ev = "ir_md"            -> OnMd(s, e)
    [] e.ev = "ir_type"          -> OnType(s, e)
    [] e.ev = "ir_settype"       -> OnSetType(s, e)
    [] e.ev = "enter_block"      -> OnEnterBlock(s, e)
    [] e.ev = "exit_block"       -> OnExitBlock(s, e)
    [] e.ev = "define_abbrev"    -> OnDefineAbbrev(s, e)
    [] e.ev = "ir_vst"           -> OnVst(s, e)
    [] e.ev = "ir_function"      -> OnFunction(s, e)
    [] e.ev = "dx_resource"      -> OnDxResource(s, e)
    [] e.ev = "sig_elem"         -> OnSigElem(s, e)
    [] e.ev = "psv_sig"          -> OnPsvSig(s, e)
    [] e.ev = "header"           -> OnHeader(s, e)
    [] e.ev = "digest_check"     -> OnDigest(s, e)
    [] e.ev = "part_offset"      -> OnPartOffset(s, e)
    [] e.ev = "part"             -> OnPart(s, e)
    [] e.ev = "parts_end"        -> OnPartsEnd(s, e)
    [] e.ev = "sfi"              -> OnSfi(s, e)
    [] e.ev = "hash_part"        -> OnHashPart(s, e)
    [] e.ev = "program_header"   -> OnProgramHeader(s, e)
    [] e.ev = "stat_bitstream"   -> OnStat(s, e)
    [] e.ev = "sig"              -> OnSig(s, e)
    [] e.ev = "psv"              -> OnPsv(s, e)
    [] e.ev = "psv_res"          -> OnPsvRes(s, e)
    [] e.ev = "psv_strtab"       -> OnPsvStrtab(s, e)
    [] e.ev = "psv_sig_size"     -> OnPsvSigSize(s, e)
    [] e.ev = "psv_table"        -> OnPsvTable(s, e)
    [] e.ev = "psv_end"          -> OnPsvEnd(s, e)
    [] e.ev = "bc_magic"         -> OnBcMagic(s, e)
    [] e.ev = "end"              -> OnEnd(s, e)
    [] e.ev = "ir_type_numentry" -> OnNumEntry(s, e)
    [] e.ev = "ir_types_end"     -> OnTypesEnd(s, e)
    [] e.ev = "ir_global"        -> OnGlobal(s, e)
    [] e.ev = "ir_alias"         -> OnAlias(s, e)
    [] e.ev = "ir_consts_end"    -> OnConstsEnd(s, e)
    [] e.ev = "ir_named_md"      -> OnNamedMd(s, e)
    [] e.ev = "ir_md_end"        -> OnMdEnd(s, e)
    [] e.ev = "ir_func_begin"    -> OnFuncBegin(s, e)
    [] e.ev = "ir_declareblocks" -> OnDeclareBlocks(s, e)
    [] e.ev = "ir_func_end"      -> OnFuncEnd(s, e)
    [] e.ev = "ir_module_end"    -> OnModuleEnd(s, e)
    [] e.ev = "dx_version"       -> OnDxVersion(s, e)
    [] e.ev = "dx_shader_model"  -> OnDxSM(s, e)
    [] e.ev = "dx_entry"         -> OnDxEntry(s, e)
    [] e.ev = "dx_resources"     -> OnDxResources(s, e)
    [] e.ev = "dx_sig_elem"      -> OnDxSigElem(s, e)
    [] e.ev = "dx_entry_prop"    -> OnDxEntryProp(s, e)
    [] e.ev = "error"            -> OnError(s, e)
    [] e.ev = "fin"              -> OnFin(s, e)
    [] e.ev = "reset"            -> Ret(S0(e), {})
    [] OTHER                     -> Ret(s, {"harness.unknown_event"})
=============================================================================
