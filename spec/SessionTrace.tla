---------------------------- MODULE SessionTrace ----------------------------
(***************************************************************************)
(* Trace validation for Session.tla.  The harness replays TLC-generated    *)
(* schedules against the real naga and records, per call, the canonical    *)
(* fingerprint of the module before and after and the digest of the        *)
(* output; reference digests come from fresh processes.  Each recorded     *)
(* event must be a step of Session (Start / Finish with the same guards),  *)
(* with the abstract state computed from the observations:                 *)
(*   module version  = number of times its fingerprint was seen changed,   *)
(*   digest is "Ref" iff the recorded bytes equal the reference bytes.     *)
(* Many sessions are concatenated ("reset" events).  A violated rule does  *)
(* not stop the run: it is recorded in `bad` with the line number, and the *)
(* whole file is always consumed (`l` reaches Len(Trace) + 1).             *)
(***************************************************************************)
EXTENDS Session, SequencesExt

Trace == ndJsonDeserialize("trace.ndjson")

VARIABLES l, bad
tvars == <<vars, l, bad>>

TInit == Init /\ l = 1 /\ bad = <<>>

Ev == Trace[l]
IsEvent(e) == l <= Len(Trace) /\ Ev.ev = e /\ l' = l + 1

TraceReset ==
  /\ IsEvent("reset")
  /\ mod' = [s \in Slots |-> 0] /\ residue' = {} /\ flight' = {} /\ done' = <<>> /\ sched' = <<>> /\ n' = 0
  /\ bad' = IF flight # {} THEN Append(bad, [l |-> l, rule |-> "calls still in flight at end of session"]) ELSE bad

TraceStart ==
  /\ IsEvent("start")
  /\ LET k == <<Ev.fam, Ev.opt>> IN
     /\ n' = n + 1
     /\ flight' = flight \cup {[id |-> Ev.id, kind |-> k, slot |-> Ev.slot, sawVer |-> mod[Ev.slot],
                                sawResidue |-> IF Fam(k) = "inst" THEN residue ELSE {}]}
     /\ sched' = Append(sched, <<"start", Ev.id, k, Ev.slot>>)
     \* the schedule must be one the specification allows (guards of Start), else the harness is wrong
     /\ bad' = IF ~MayOverlap(k, Ev.slot) \/ Ev.slot \notin Slots
               THEN Append(bad, [l |-> l, rule |-> "harness: schedule not allowed by Session!Start"]) ELSE bad
  /\ UNCHANGED <<mod, residue, done>>

TraceFinish ==
  /\ IsEvent("finish")
  /\ \E c \in flight :
       /\ c.id = Ev.id
       /\ flight' = flight \ {c}
       /\ sched' = Append(sched, <<"finish", c.id, c.kind, c.slot>>)
       /\ LET changed == Ev.fp_after # Ev.fp_lowered
              okDigest == Ev.digest = Ev.ref
          IN  /\ mod' = [mod EXCEPT ![c.slot] = IF changed THEN @ + 1 ELSE @]
              /\ done' = Append(done, [id |-> c.id, kind |-> c.kind, slot |-> c.slot,
                                        digest |-> IF okDigest THEN Ref(c.kind, c.slot)
                                                   ELSE [kind |-> c.kind, src |-> SrcOf[c.slot], ver |-> -1, residue |-> {}]])
              /\ bad' = bad \o (IF changed /\ mod[c.slot] = 0 THEN <<[l |-> l, rule |-> "ModulesUntouched: the call changed the caller's module"]>> ELSE <<>>)
                            \o (IF ~okDigest THEN <<[l |-> l, rule |-> "Deterministic: output differs from the reference for the same (source, options)"]>> ELSE <<>>)
       /\ residue' = IF Fam(c.kind) = "inst" THEN {} ELSE residue
  /\ UNCHANGED n

\* after the last line: print the verdicts
TraceEnd ==
  /\ l = Len(Trace) + 1
  /\ l' = l + 1
  /\ PrintT("@@" \o ToJson([consumed |-> Len(Trace), bad |-> bad]))
  /\ UNCHANGED <<vars, bad>>

TNext == TraceReset \/ TraceStart \/ TraceFinish \/ TraceEnd
TSpec == TInit /\ [][TNext]_tvars

\* the machinery's own sanity condition: the whole file was consumed
Consumed == TLCGet("stats").diameter >= Len(Trace) + 2
=============================================================================
