------------------------------ MODULE Hostile ------------------------------
(***************************************************************************)
(* C10 - the INPUT-SPACE MODEL: hostile edit scripts over token sequences. *)
(*                                                                         *)
(* A document is a sequence of TOKEN TEXTS (elements).  The seed documents *)
(* are tokenised by the harness (own tokeniser: identifiers/numbers,       *)
(* longest-match punctuation, each comment one element, blankspace         *)
(* dropped); SeedLen[s] is the number of elements of seed s (seed 1 is the *)
(* empty document).  The state machine below edits the document; TLC only  *)
(* tracks its length `len` (the harness applies every action to the real   *)
(* element sequence and checks after each script that its length equals    *)
(* the `len` printed here - a disagreement is a machinery failure).        *)
(*                                                                         *)
(* RENDERING (harness/hostile.Render): elements are joined by one space; a *)
(* line break instead of the space after ";", "{", "}" and after a "//"    *)
(* comment; an element inserted with g = 1 (glue) has no separator on      *)
(* either side.  The rendered text is finally clipped to MaxBytes = 64 KiB *)
(* (the bound in the property's quantifier) - an implicit last Truncate.   *)
(*                                                                         *)
(* MACROS inside a token text (expanded by the harness, never by naga):    *)
(*   #I  the 1-based index of the repetition the token belongs to          *)
(*   #P  that index - 1           #K  the repetition count k               *)
(*   #N  the 1-based position of the action in the script (unique names)   *)
(*   #R{s,n}  the text s repeated n times       #X{hex}  raw bytes         *)
(*   #Z{hex,n}  raw bytes repeated n times                                 *)
(*   #B{n,r}  n pseudo-random bytes from the PRNG seeded (VERIF_SEED, r)   *)
(*                                                                         *)
(* ACTIONS (the classes named in the property's quantifier):               *)
(*   DeleteToken(i) DuplicateToken(i) SwapTokens(i,j) ReplaceToken(i,t)    *)
(*   InsertToken(i,t,g) TruncateTok(i)  - keep i elements                  *)
(*   TruncateIn(i,o) - keep i-1 elements and the first min(o, bytes-1)     *)
(*       (at least 1) bytes of element i: cuts comments, literals and      *)
(*       multi-byte code points in the middle                              *)
(*   RawBytes(i,t,g) - insert a raw byte run (invalid UTF-8, NUL, BOM,     *)
(*       surrogate encodings, random bytes);  RawFill(t) - the whole       *)
(*       document becomes one run (64 KiB of one byte, random bytes)       *)
(*   Build actions append (at = "end") or prepend (at = "start") a         *)
(*       self-contained group of declarations made of                      *)
(*         pre \o open_1 .. open_k \o core \o close_k .. close_1 \o post   *)
(*       (close only if closed = 1):                                       *)
(*     Nest          construct k deep (expression / type / statement /     *)
(*                   declaration nesting), optionally left unclosed        *)
(*     LongChain     k-fold repetition without nesting                     *)
(*     HugeLiteral   one huge numeric literal in a chosen context          *)
(*     HugeArray     array<E, N> with huge / zero / negative N in every    *)
(*                   address space, zero-value constructors                *)
(*     SelfReference cyclic struct / alias / const / override / function / *)
(*                   initialiser declarations                              *)
(*     HostileConstExpr  a constant expression with HOSTILE OPERAND VALUES *)
(*                   for the partial operators: a OP b for OP in / % << >> *)
(*                   + - * & | ^ comparisons, unary - ~ !, casts, builtins *)
(*                   (pow ldexp extractBits insertBits clamp ...), constant *)
(*                   array / vector indexing, with operands from the grid  *)
(*                   {0 -1 1 -2 31 32 33 63 64 INT_MAX INT_MIN 2^31 2^32   *)
(*                   2^63-1 huge floats 0.0 -0.0 ...} written directly,    *)
(*                   through named constants or as computed                *)
(*                   sub-expressions, placed at every constant-expression  *)
(*                   site: module const, function-scope const / let, array *)
(*                   size (global, struct member), case selector,          *)
(*                   const_assert, @workgroup_size @location @binding      *)
(*                   @group @align @size @id arguments, override and       *)
(*                   global initialisers, shift amounts, constant indices; *)
(*                   as a built group (like the others) or SUBSTITUTED for *)
(*                   a numeric literal token of the seed program itself    *)
(*                   (SeedLits[s] lists those positions; first action of a *)
(*                   script only, while positions still are the seed's).   *)
(* k is clamped so that the construct alone fits into MaxBytes.            *)
(*                                                                         *)
(* Mode "exhaustive": every position and every pool token is enumerated    *)
(* (all single edits of tiny seeds, BFS).  Mode "simulate": one successor  *)
(* per action class, its parameters drawn with RandomElement (TLC          *)
(* -simulate -seed VERIF_SEED; reproducible).  Every finished script is    *)
(* printed as one JSON line; the harness renders and replays it.           *)
(*                                                                         *)
(* Faults (self-test): "NoClamp" - depths are not clamped to the byte      *)
(* budget; the invariant WithinBudget must then be violated.               *)
(***************************************************************************)
EXTENDS Integers, Sequences, FiniteSets, TLC, Json

CONSTANTS SeedLen,    \* sequence of element counts, one per seed document
          SeedSet,    \* the seed ids offered in this run (subset of 1 .. Len(SeedLen))
          MaxEdits,   \* scripts have 1 .. MaxEdits actions
          Mode,       \* "exhaustive" | "simulate"
          Classes,    \* enabled action classes
          Depths,     \* nesting depths offered to Nest
          Lengths,    \* repetition counts offered to LongChain
          MaxOff,     \* TruncateIn offsets 1 .. MaxOff
          SeedLits,   \* sequence: SeedLits[s] = positions of the numeric literal elements of seed s
          CECtxSel,   \* HostileConstExpr: contexts offered ({} = all)
          CEForms,    \* HostileConstExpr: operand forms offered, subset of {"direct", "named", "computed"}
          CEShapes,   \* HostileConstExpr: expression shapes offered ({} = all)
          Faults

VARIABLES seed, len, script, left, est
vars == <<seed, len, script, left, est>>

MaxBytes == 65536
Slack    == 700      \* room for the wrapper declarations of a construct

Min(a, b) == IF a < b THEN a ELSE b
Max(a, b) == IF a > b THEN a ELSE b

\* ---------------------------------------------------------------- token pools
Punct == {"(", ")", "{", "}", "[", "]", "<", ">", ",", ";", ":", ".", "->", "@", "=", "==", "!=", "<=", ">=",
          "<<", ">>", "+", "-", "*", "/", "%", "&", "|", "^", "~", "!", "&&", "||", "++", "--", "+=", "-=", "*=",
          "/=", "%=", "&=", "|=", "^=", "<<=", ">>=", "_"}
Keywords == {"fn", "var", "let", "const", "override", "struct", "alias", "if", "else", "loop", "for", "while",
             "switch", "case", "default", "break", "continue", "continuing", "return", "discard", "true", "false",
             "enable", "requires", "diagnostic", "const_assert"}
TypeNames == {"i32", "u32", "f32", "f16", "bool", "vec2", "vec3", "vec4", "vec3f", "vec4<f32>", "mat2x2", "mat4x4",
              "mat3x3f", "array", "ptr", "atomic", "sampler", "sampler_comparison", "texture_2d",
              "texture_storage_2d", "texture_depth_2d", "texture_multisampled_2d", "texture_external"}
AttrNames == {"group", "binding", "location", "builtin", "vertex", "fragment", "compute", "workgroup_size", "align",
              "size", "interpolate", "invariant", "must_use", "id", "blend_src", "position", "vertex_index",
              "local_invocation_id", "flat", "perspective"}
SpaceNames == {"function", "private", "workgroup", "uniform", "storage", "read", "write", "read_write", "rgba8unorm"}
Literals == {"0", "1", "-1", "0u", "1i", "4", "4294967295", "4294967296", "2147483648", "-2147483648", "0x7fffffff",
             "0xffffffffu", "9223372036854775808", "1.0", "1e38", "1e39", "1e-50", "0x1p-149", "0x1p+128", "1.0h",
             "65505.0h", "0x", "1e", "1e+", ".5", "5.", "0b1", "00", "1u32", "1f", "0xg", "1_000"}
Idents == {"x", "main", "a", "o", "f", "S", "abs", "select", "arrayLength", "textureSample", "atomicAdd", "bitcast",
           "vec4f", "__x", "_x", "xyzw", "rgba", "x1"}
Trivia == {"/* c */", "/*", "*/", "// c", "//", "/* /* n */ */", "/**/", "/*/"}
Odd == {"'", "\"", "\"s\"", "#", "$", "\\", "`", "?", "\t", "\r", "\n", "\f", "#X{c3a9}", "#X{e5908d}",
        "#X{f09f9880}", "#X{ceb4}x", "#X{e280a8}", "#X{c285}", "#X{efbbbf}"}   \* e-acute, CJK, emoji, delta, LS, NEL, BOM
HugeToks == {"#R{9,60000}", "1e99999", "0x#R{f,5000}", "#R{a,60000}"}
Pool == Punct \cup Keywords \cup TypeNames \cup AttrNames \cup SpaceNames \cup Literals \cup Idents \cup Trivia
        \cup Odd \cup HugeToks

\* raw byte runs: invalid / unusual encodings
RawPool == {"#X{00}", "#X{ff}", "#X{fe}", "#X{80}", "#X{c328}", "#X{c080}", "#X{e282}", "#X{e28228}", "#X{f0288cbc}",
            "#X{eda080}", "#X{edb080}", "#X{eda080edb080}", "#X{f4908080}", "#X{f8888080}", "#X{efbbbf}", "#X{fffe}",
            "#X{efbfbe}", "#X{c2}", "#X{1b}", "#X{7f}", "#X{0d}", "#X{e2808f}", "#Z{00,1024}", "#Z{ff,4096}",
            "#Z{c3,999}", "#B{1,7}", "#B{16,7}", "#B{1024,7}", "#B{8000,7}"}
FillBytes == {"00", "61", "28", "29", "2f", "2a", "22", "ff", "80", "20", "0a", "7b", "30", "2d", "21", "40", "3c",
              "3e", "5b", "2e", "2b", "5f", "c3", "e2"}
Fills == {"#Z{" \o b \o ",65536}" : b \in FillBytes} \cup {"#Z{" \o b \o ",65535}x" : b \in {"2f", "28", "30"}}
         \cup {"#B{65536,7}", "#B{4096,7}", "#R{/*,32768}", "#R{*/,32768}", "#R{//,30000}", "#R{<<,32768}",
               "#R{0x,32768}", "#R{1e,32768}", "#R{@ ,32768}", "#R{-,65536}", "#R{a.,32768}", "#R{a[,32768}",
               "#R{a(,32768}", "#R{;,65536}", "#R{fn ,21000}", "#R{{},32768}", "#R{a<,32768}", "#R{a<b>,16384}",
               "#R{->,32768}", "#R{var<,16384}"}

\* ---------------------------------------------------------------- wrappers
EPo == <<"@", "compute", "@", "workgroup_size", "(", "1", ")", "fn", "hx#N_m", "(", ")", "{">>
EP(body) == EPo \o body \o <<"}">>

ExprCtxs == {"fn", "ret", "const", "global", "override", "arraysize", "attr", "cond", "index", "arg"}
ExprWrap(ctx) ==
  CASE ctx = "fn"        -> [pre |-> EPo \o <<"var", "v", "=">>, post |-> <<";", "}">>]
    [] ctx = "ret"       -> [pre |-> <<"fn", "hx#N_f", "(", ")", "->", "i32", "{", "return">>,
                             post |-> <<";", "}">> \o EP(<<"var", "v", "=", "hx#N_f", "(", ")", ";">>)]
    [] ctx = "const"     -> [pre |-> <<"const", "hx#N_c", "=">>, post |-> <<";">> \o EP(<<"var", "v", "=", "hx#N_c", ";">>)]
    [] ctx = "global"    -> [pre |-> <<"var", "<", "private", ">", "hx#N_g", "=">>,
                             post |-> <<";">> \o EP(<<"var", "v", "=", "hx#N_g", ";">>)]
    [] ctx = "override"  -> [pre |-> <<"override", "hx#N_o", "=">>, post |-> <<";">> \o EP(<<"var", "v", "=", "hx#N_o", ";">>)]
    [] ctx = "arraysize" -> [pre |-> <<"var", "<", "private", ">", "hx#N_g", ":", "array", "<", "i32", ",">>,
                             post |-> <<">", ";">> \o EP(<<"var", "v", "=", "hx#N_g", "[", "0", "]", ";">>)]
    [] ctx = "attr"      -> [pre |-> <<"@", "compute", "@", "workgroup_size", "(">>,
                             post |-> <<")", "fn", "hx#N_m", "(", ")", "{", "}">>]
    [] ctx = "cond"      -> [pre |-> EPo \o <<"if">>, post |-> <<"{", "}", "}">>]
    [] ctx = "index"     -> [pre |-> EPo \o <<"var", "a", ":", "array", "<", "i32", ",", "4", ">", ";", "a", "[">>,
                             post |-> <<"]", "=", "1", ";", "}">>]
    [] ctx = "arg"       -> [pre |-> EPo \o <<"var", "v", "=", "abs", "(">>, post |-> <<")", ";", "}">>]

TypeCtxs == {"private", "workgroup", "storage", "uniform", "param", "alias", "member", "local", "ctor", "letctor",
             "result", "ptrparam"}
Use == EP(<<"let", "p", "=", "&", "hx#N_g", ";">>)
TypeWrap(ctx) ==
  CASE ctx = "private"   -> [pre |-> <<"var", "<", "private", ">", "hx#N_g", ":">>, post |-> <<";">> \o Use]
    [] ctx = "workgroup" -> [pre |-> <<"var", "<", "workgroup", ">", "hx#N_g", ":">>, post |-> <<";">> \o Use]
    [] ctx = "storage"   -> [pre |-> <<"@", "group", "(", "3", ")", "@", "binding", "(", "#N", ")", "var", "<", "storage", ",",
                                        "read_write", ">", "hx#N_g", ":">>, post |-> <<";">> \o Use]
    [] ctx = "uniform"   -> [pre |-> <<"@", "group", "(", "3", ")", "@", "binding", "(", "#N", ")", "var", "<", "uniform", ">",
                                        "hx#N_g", ":">>, post |-> <<";">> \o Use]
    [] ctx = "param"     -> [pre |-> <<"fn", "hx#N_f", "(", "p", ":">>, post |-> <<")", "{", "}">> \o EP(<<>>)]
    [] ctx = "ptrparam"  -> [pre |-> <<"fn", "hx#N_f", "(", "p", ":", "ptr", "<", "function", ",">>,
                             post |-> <<">", ")", "{", "}">> \o EP(<<>>)]
    [] ctx = "alias"     -> [pre |-> <<"alias", "hx#N_a", "=">>,
                             post |-> <<";", "var", "<", "private", ">", "hx#N_g", ":", "hx#N_a", ";">> \o Use]
    [] ctx = "member"    -> [pre |-> <<"struct", "hx#N_s", "{", "m", ":">>,
                             post |-> <<"}", "var", "<", "private", ">", "hx#N_g", ":", "hx#N_s", ";">> \o Use]
    [] ctx = "local"     -> [pre |-> EPo \o <<"var", "v", ":">>, post |-> <<";", "}">>]
    [] ctx = "ctor"      -> [pre |-> EPo \o <<"var", "v", "=">>, post |-> <<"(", ")", ";", "}">>]
    [] ctx = "letctor"   -> [pre |-> EPo \o <<"let", "v", "=">>, post |-> <<"(", ")", ";", "}">>]
    [] ctx = "result"    -> [pre |-> <<"fn", "hx#N_f", "(", ")", "->">>,
                             post |-> <<"{", "var", "v", ":", "i32", ";", "}">> \o EP(<<>>)]

StmtCtxs == {"entry", "helper"}
StmtWrap(ctx) ==
  CASE ctx = "entry"  -> [pre |-> EPo \o <<"var", "a", "=", "1", ";", "let", "v0", "=", "1", ";">>, post |-> <<"}">>]
    [] ctx = "helper" -> [pre |-> <<"fn", "hx#N_f", "(", "p", ":", "i32", ")", "{", "var", "a", "=", "p", ";", "let", "v0", "=", "1", ";">>,
                          post |-> <<"}">> \o EP(<<"hx#N_f", "(", "1", ")", ";">>)]

DeclWrap == [pre |-> <<>>, post |-> <<>>]

\* ---------------------------------------------------------------- constructs
\* kind: which wrapper family applies;  ix: number of tokens per repetition that carry an index macro (byte estimate)
C(c, kind, open, core, close, ix) == [c |-> c, kind |-> kind, open |-> open, core |-> core, close |-> close, ix |-> ix]

NestCons == {
  C("paren",      "expr", <<"(">>, <<"1">>, <<")">>, 0),
  C("unaryminus", "expr", <<"-">>, <<"1">>, <<>>, 0),
  C("unarynot",   "expr", <<"!">>, <<"true">>, <<>>, 0),
  C("unarycompl", "expr", <<"~">>, <<"1">>, <<>>, 0),
  C("derefaddr",  "stmt", <<"*", "&">>, <<"a", "=", "2", ";">>, <<>>, 0),
  C("lhsparen",   "stmt", <<"(">>, <<"a">>, <<")">>, 0),         \* completed by Post "= 2 ;" below
  C("indexnest",  "stmt", <<"b", "[">>, <<"0">>, <<"]">>, 0),    \* b[b[b[..0..]]] = 2 ;  (Nest adds the declaration of b)
  C("callnest",   "expr", <<"abs", "(">>, <<"1">>, <<")">>, 0),
  C("selectnest", "expr", <<"select", "(", "1", ",", "2", ",", "true", "&&">>, <<"true">>, <<")">>, 0),
  C("ctornest",   "expr", <<"vec2", "<", "f32", ">", "(">>, <<"1.0">>, <<")">>, 0),
  C("binright",   "expr", <<"1", "+", "(">>, <<"1">>, <<")">>, 0),
  C("binleftpar", "expr", <<"(">>, <<"1">>, <<"+", "1", ")">>, 0),
  C("ternaryidx", "expr", <<"array", "(", "1", ",", "2", ")", "[">>, <<"0">>, <<"]">>, 0),
  C("arraytype",  "type", <<"array", "<">>, <<"i32">>, <<",", "2", ">">>, 0),
  C("arraytype1", "type", <<"array", "<">>, <<"i32">>, <<",", "1", ">">>, 0),
  C("ptrtype",    "type", <<"ptr", "<", "function", ",">>, <<"i32">>, <<">">>, 0),
  C("vectype",    "type", <<"vec2", "<">>, <<"f32">>, <<">">>, 0),
  C("atomictype", "type", <<"atomic", "<">>, <<"u32">>, <<">">>, 0),
  C("mattype",    "type", <<"mat2x2", "<">>, <<"f32">>, <<">">>, 0),
  C("block",      "stmt", <<"{">>, <<"a", "=", "2", ";">>, <<"}">>, 0),
  C("ifnest",     "stmt", <<"if", "a", "==", "1", "{">>, <<"a", "=", "2", ";">>, <<"}">>, 0),
  C("elseif",     "stmt", <<"if", "a", "==", "#I", "{", "}", "else">>, <<"{", "a", "=", "2", ";", "}">>, <<>>, 1),
  C("elsenest",   "stmt", <<"if", "a", "==", "1", "{", "}", "else", "{">>, <<"a", "=", "2", ";">>, <<"}">>, 0),
  C("loopnest",   "stmt", <<"loop", "{">>, <<"a", "=", "2", ";">>, <<"break", ";", "}">>, 0),
  C("loopcont",   "stmt", <<"loop", "{", "if", "a", ">", "3", "{", "break", ";", "}", "continuing", "{">>, <<"a", "+=", "1", ";">>, <<"}", "}">>, 0),
  C("fornest",    "stmt", <<"for", "(", "var", "i#I", "=", "0", ";", "i#I", "<", "2", ";", "i#I", "++", ")", "{">>,
                          <<"a", "=", "2", ";">>, <<"}">>, 3),
  C("whilenest",  "stmt", <<"while", "a", "<", "3", "{">>, <<"a", "+=", "1", ";">>, <<"}">>, 0),
  C("switchnest", "stmt", <<"switch", "a", "{", "case", "1", ":", "{">>, <<"a", "=", "2", ";">>,
                          <<"}", "default", ":", "{", "}", "}">>, 0),
  C("structnest", "decl", <<"struct", "hx#N_s#I", "{", "m", ":", "hx#N_s#P", "}">>,
                          <<"var", "<", "private", ">", "hx#N_g", ":", "hx#N_s#K", ";">> \o Use, <<>>, 2),
  C("structarr",  "decl", <<"struct", "hx#N_s#I", "{", "m", ":", "array", "<", "hx#N_s#P", ",", "1", ">", "}">>,
                          <<"var", "<", "private", ">", "hx#N_g", ":", "hx#N_s#K", ";">> \o Use, <<>>, 2),
  C("aliaschain", "decl", <<"alias", "hx#N_s#I", "=", "hx#N_s#P", ";">>,
                          <<"var", "<", "private", ">", "hx#N_g", ":", "hx#N_s#K", ";">> \o Use, <<>>, 2),
  C("constchain", "decl", <<"const", "hx#N_s#I", "=", "hx#N_s#P", "+", "1", ";">>,
                          EP(<<"var", "v", "=", "hx#N_s#K", ";">>), <<>>, 2),
  C("fnchain",    "decl", <<"fn", "hx#N_s#I", "(", ")", "->", "i32", "{", "return", "hx#N_s#P", "(", ")", "+", "1", ";", "}">>,
                          EP(<<"var", "v", "=", "hx#N_s#K", "(", ")", ";">>), <<>>, 2),
  C("comment",    "triv", <<"/*">>, <<"c">>, <<"*/">>, 0),
  C("templ",      "expr", <<"a", "<">>, <<"1">>, <<">">>, 0)        \* not valid WGSL: template-list disambiguation
}
\* "decl" chains need a base declaration named hx#N_s0
DeclBase(c) == CASE c \in {"structnest", "structarr"} -> <<"struct", "hx#N_s0", "{", "m", ":", "i32", "}">>
                 [] c = "aliaschain" -> <<"alias", "hx#N_s0", "=", "i32", ";">>
                 [] c = "constchain" -> <<"const", "hx#N_s0", "=", "1", ";">>
                 [] c = "fnchain"    -> <<"fn", "hx#N_s0", "(", ")", "->", "i32", "{", "return", "1", ";", "}">>
                 [] OTHER -> <<>>

ChainCons == {
  C("add",        "expr", <<"a#N", "+">>, <<"a#N">>, <<>>, 0),
  C("mul",        "expr", <<"a#N", "*">>, <<"a#N">>, <<>>, 0),
  C("sub",        "expr", <<"1", "-">>, <<"1">>, <<>>, 0),
  C("and",        "expr", <<"true", "&&">>, <<"true">>, <<>>, 0),
  C("or",         "expr", <<"false", "||">>, <<"true">>, <<>>, 0),
  C("bitor",      "expr", <<"1", "|">>, <<"1">>, <<>>, 0),
  C("cmp",        "expr", <<"1", "<">>, <<"1">>, <<>>, 0),
  C("shift",      "expr", <<"1", "<<">>, <<"1u">>, <<>>, 0),
  C("fadd",       "expr", <<"1.5", "+">>, <<"1.5">>, <<>>, 0),
  C("mixed",      "expr", <<"1", "+", "2", "*">>, <<"3">>, <<>>, 0),
  C("member",     "expr", <<>>, <<"vec4", "(", "1.0", ")">>, <<".", "xyzw">>, 0),      \* v.xyzw.xyzw...   (close is never reversed here)
  C("indexchain", "expr", <<>>, <<"array", "(", "1", ",", "2", ")">>, <<"[", "0", "]">>, 0),
  C("args",       "expr", <<"1", ",">>, <<"1">>, <<>>, 0),                      \* completed by ChainFrame
  C("arrayctor",  "expr", <<"1", ",">>, <<"1">>, <<>>, 0),
  C("vecargs",    "expr", <<"1.0", ",">>, <<"1.0">>, <<>>, 0),
  C("lets",       "stmt", <<"let", "v#I", "=", "a", "+", "#I", ";">>, <<>>, <<>>, 2),
  C("vars",       "stmt", <<"var", "v#I", "=", "a", "+", "#I", ";">>, <<>>, <<>>, 2),
  C("letchain",   "stmt", <<"let", "v#I", "=", "v#P", "+", "a", ";">>, <<"a", "=", "v#K", ";">>, <<>>, 2),
  C("assigns",    "stmt", <<"a", "=", "a", "+", "1", ";">>, <<>>, <<>>, 0),
  C("calls",      "stmt", <<"a", "=", "abs", "(", "a", ")", ";">>, <<>>, <<>>, 0),
  C("ifs",        "stmt", <<"if", "a", "==", "#I", "{", "a", "=", "2", ";", "}">>, <<>>, <<>>, 1),
  C("loops",      "stmt", <<"loop", "{", "break", ";", "}">>, <<>>, <<>>, 0),
  C("cases",      "stmt", <<"case", "#I", ":", "{", "a", "=", "#I", ";", "}">>, <<>>, <<>>, 2),
  C("selectors",  "stmt", <<"#I", ",">>, <<>>, <<>>, 1),
  C("semis",      "stmt", <<";">>, <<>>, <<>>, 0),
  C("returns",    "stmt", <<"return", ";">>, <<>>, <<>>, 0),
  C("fns",        "decl", <<"fn", "hx#N_f#I", "(", ")", "{", "}">>, EP(<<"hx#N_f1", "(", ")", ";">>), <<>>, 1),
  C("fncalls",    "decl", <<"fn", "hx#N_f#I", "(", ")", "{", "}">>, EP(<<>>), <<>>, 1),
  C("globals",    "decl", <<"var", "<", "private", ">", "hx#N_g#I", ":", "i32", ";">>, EP(<<"hx#N_g1", "=", "1", ";">>), <<>>, 1),
  C("consts",     "decl", <<"const", "hx#N_c#I", "=", "#I", ";">>, EP(<<"var", "v", "=", "hx#N_c1", ";">>), <<>>, 2),
  C("structs",    "decl", <<"struct", "hx#N_s#I", "{", "m", ":", "i32", "}">>, EP(<<"var", "v", ":", "hx#N_s1", ";">>), <<>>, 1),
  C("aliases",    "decl", <<"alias", "hx#N_a#I", "=", "i32", ";">>, EP(<<"var", "v", ":", "hx#N_a1", ";">>), <<>>, 1),
  C("entries",    "decl", <<"@", "compute", "@", "workgroup_size", "(", "1", ")", "fn", "hx#N_e#I", "(", ")", "{", "}">>, <<>>, <<>>, 1),
  C("members",    "decl", <<"m#I", ":", "i32", ",">>, <<>>, <<>>, 1),       \* completed by ChainFrame
  C("params",     "decl", <<"p#I", ":", "i32", ",">>, <<>>, <<>>, 1),
  C("attrs",      "decl", <<"@", "align", "(", "4", ")">>, <<>>, <<>>, 0),
  C("bindings",   "decl", <<"@", "group", "(", "2", ")", "@", "binding", "(", "#I", ")", "var", "<", "uniform", ">", "hx#N_u#I", ":", "vec4", "<", "f32", ">", ";">>,
                          EP(<<"var", "v", "=", "hx#N_u1", ";">>), <<>>, 2),
  C("idents",     "stmt", <<"a", "=", "zz#N_#I", ";">>, <<>>, <<>>, 1),
  C("enables",    "decl", <<"enable", "f16", ";">>, EP(<<>>), <<>>, 0),
  C("asserts",    "decl", <<"const_assert", "#I", ">", "0", ";">>, EP(<<>>), <<>>, 1)
}
\* frames around chains that are not a plain expression / statement / declaration list
ChainFrame(c) ==
  CASE c = "args"      -> [pre |-> <<"fn", "hx#N_f", "(", "p", ":", "i32", ")", "->", "i32", "{", "return", "p", ";", "}">>
                                   \o EPo \o <<"var", "v", "=", "hx#N_f", "(">>, post |-> <<")", ";", "}">>]
    [] c = "arrayctor" -> [pre |-> EPo \o <<"var", "v", "=", "array", "(">>, post |-> <<")", ";", "}">>]
    [] c = "vecargs"   -> [pre |-> EPo \o <<"var", "v", "=", "vec4", "<", "f32", ">", "(">>, post |-> <<")", ";", "}">>]
    [] c = "cases"     -> [pre |-> EPo \o <<"var", "a", "=", "1", ";", "switch", "a", "{">>,
                           post |-> <<"default", ":", "{", "}", "}", "}">>]
    [] c = "selectors" -> [pre |-> EPo \o <<"var", "a", "=", "1", ";", "switch", "a", "{", "case">>,
                           post |-> <<":", "{", "}", "default", ":", "{", "a", "=", "2", ";", "}", "}", "}">>]
    [] c = "members"   -> [pre |-> <<"struct", "hx#N_s", "{">>,
                           post |-> <<"}">> \o EP(<<"var", "v", "=", "hx#N_s", "(", ")", ";">>)]
    [] c = "params"    -> [pre |-> <<"fn", "hx#N_f", "(">>, post |-> <<")", "{", "}">> \o EP(<<>>)]
    [] c = "attrs"     -> [pre |-> <<"struct", "hx#N_s", "{">>,
                           post |-> <<"m", ":", "i32", "}">> \o EP(<<"var", "v", ":", "hx#N_s", ";">>)]
    [] OTHER -> [pre |-> <<>>, post |-> <<>>]
FramedChains == {"args", "arrayctor", "vecargs", "cases", "selectors", "members", "params", "attrs"}

\* huge numeric literals (one token each)
HugeLits == {"#R{9,60000}", "#R{9,60000}u", "1.#R{9,59990}", "0.#R{0,59000}1", "#R{9,30000}.#R{9,30000}f",
             "1e99999", "1e-99999", "1e#R{9,5000}", "1e2147483648", "0x#R{f,5000}", "0x#R{f,5000}u", "0x1p99999",
             "0x1p-99999", "0x1.#R{f,5000}p0", "0x#R{0,60000}1", "#R{0,60000}", "99999999999999999999u", "1e999f",
             "1e999h", "0x1p2147483648", "18446744073709551616", "340282366920938463463374607431768211456.0",
             "4294967296i", "0x80000000i", "1.7976931348623159e308", "4.9e-324", "-#R{9,40000}"}
\* contexts in which an integer-valued token is placed (besides the expression contexts)
IntCtxs == {"binding", "group", "location", "wgsize", "wgsize3", "align", "size", "id", "shift", "vecindex", "arrayindex",
            "caseval", "blendsrc"}
IntWrap(ctx) ==
  CASE ctx = "binding"  -> [pre |-> <<"@", "group", "(", "0", ")", "@", "binding", "(">>,
                            post |-> <<")", "var", "<", "uniform", ">", "hx#N_g", ":", "vec4", "<", "f32", ">", ";">> \o EP(<<"var", "v", "=", "hx#N_g", ";">>)]
    [] ctx = "group"    -> [pre |-> <<"@", "binding", "(", "0", ")", "@", "group", "(">>,
                            post |-> <<")", "var", "<", "uniform", ">", "hx#N_g", ":", "vec4", "<", "f32", ">", ";">> \o EP(<<"var", "v", "=", "hx#N_g", ";">>)]
    [] ctx = "location" -> [pre |-> <<"@", "fragment", "fn", "hx#N_m", "(", "@", "location", "(">>,
                            post |-> <<")", "p", ":", "f32", ")", "->", "@", "location", "(", "0", ")", "vec4", "<", "f32", ">", "{",
                                       "return", "vec4", "<", "f32", ">", "(", "p", ")", ";", "}">>]
    [] ctx = "wgsize"   -> [pre |-> <<"@", "compute", "@", "workgroup_size", "(">>, post |-> <<")", "fn", "hx#N_m", "(", ")", "{", "}">>]
    [] ctx = "wgsize3"  -> [pre |-> <<"@", "compute", "@", "workgroup_size", "(", "1", ",", "1", ",">>,
                            post |-> <<")", "fn", "hx#N_m", "(", ")", "{", "}">>]
    [] ctx = "align"    -> [pre |-> <<"struct", "hx#N_s", "{", "@", "align", "(">>,
                            post |-> <<")", "m", ":", "i32", "}">> \o EP(<<"var", "v", ":", "hx#N_s", ";">>)]
    [] ctx = "size"     -> [pre |-> <<"struct", "hx#N_s", "{", "@", "size", "(">>,
                            post |-> <<")", "m", ":", "i32", ",", "n", ":", "i32", "}">> \o EP(<<"var", "v", ":", "hx#N_s", ";">>)]
    [] ctx = "id"       -> [pre |-> <<"@", "id", "(">>, post |-> <<")", "override", "hx#N_o", ":", "i32", "=", "1", ";">> \o EP(<<"var", "v", "=", "hx#N_o", ";">>)]
    [] ctx = "shift"    -> [pre |-> EPo \o <<"var", "a", "=", "1u", ";", "a", "=", "a", "<<">>, post |-> <<";", "}">>]
    [] ctx = "vecindex" -> [pre |-> EPo \o <<"var", "a", "=", "vec4", "<", "f32", ">", "(", "1.0", ")", ";", "a", "[">>,
                            post |-> <<"]", "=", "2.0", ";", "}">>]
    [] ctx = "arrayindex" -> [pre |-> EPo \o <<"var", "a", "=", "array", "(", "1", ",", "2", ")", ";", "a", "[">>,
                              post |-> <<"]", "=", "2", ";", "}">>]
    [] ctx = "caseval"  -> [pre |-> EPo \o <<"var", "a", "=", "1", ";", "switch", "a", "{", "case">>,
                            post |-> <<":", "{", "}", "default", ":", "{", "}", "}", "}">>]
    [] ctx = "blendsrc" -> [pre |-> <<"struct", "hx#N_s", "{", "@", "location", "(", "0", ")", "@", "blend_src", "(">>,
                            post |-> <<")", "m", ":", "vec4", "<", "f32", ">", "}">> \o EP(<<>>)]

\* array element counts and element types
ArraySizes == {"0", "-1", "1", "65536", "1000000", "50000000", "2147483647", "2147483648", "4000000000", "4294967295",
               "4294967296", "4e9", "9223372036854775807", "9223372036854775808", "18446744073709551615", "0x7fffffffu", "1u"}
ArrayElems == {<<"i32">>, <<"vec4", "<", "f32", ">">>, <<"mat4x4", "<", "f32", ">">>, <<"atomic", "<", "u32", ">">>,
               <<"array", "<", "i32", ",", "50000", ">">>, <<"array", "<", "array", "<", "i32", ",", "1000", ">", ",", "1000", ">">>,
               <<"hx#N_e">>}
\* hx#N_e is a struct holding an array (declared in front when used)
ElemDecl(e) == IF e = <<"hx#N_e">> THEN <<"struct", "hx#N_e", "{", "m", ":", "array", "<", "vec4", "<", "f32", ">", ",", "1000", ">", ",", "n", ":", "i32", "}">> ELSE <<>>

\* self-referential declarations: each a complete token list
SelfRefs == {
  [c |-> "struct-direct",  t |-> <<"struct", "hx#N_s", "{", "m", ":", "hx#N_s", "}">>, use |-> "type"],
  [c |-> "struct-array",   t |-> <<"struct", "hx#N_s", "{", "m", ":", "array", "<", "hx#N_s", ",", "2", ">", "}">>, use |-> "type"],
  [c |-> "struct-rtarray", t |-> <<"struct", "hx#N_s", "{", "m", ":", "array", "<", "hx#N_s", ">", "}">>, use |-> "type"],
  [c |-> "struct-ptr",     t |-> <<"struct", "hx#N_s", "{", "m", ":", "ptr", "<", "function", ",", "hx#N_s", ">", "}">>, use |-> "type"],
  [c |-> "struct-atomic",  t |-> <<"struct", "hx#N_s", "{", "m", ":", "atomic", "<", "hx#N_s", ">", "}">>, use |-> "type"],
  [c |-> "struct-vec",     t |-> <<"struct", "hx#N_s", "{", "m", ":", "vec2", "<", "hx#N_s", ">", "}">>, use |-> "type"],
  [c |-> "struct-mutual",  t |-> <<"struct", "hx#N_s", "{", "m", ":", "hx#N_t", "}", "struct", "hx#N_t", "{", "m", ":", "hx#N_s", "}">>, use |-> "type"],
  [c |-> "struct-mutual3", t |-> <<"struct", "hx#N_s", "{", "m", ":", "hx#N_t", "}", "struct", "hx#N_t", "{", "m", ":", "array", "<", "hx#N_u", ",", "2", ">", "}",
                                    "struct", "hx#N_u", "{", "m", ":", "hx#N_s", "}">>, use |-> "type"],
  [c |-> "struct-size",    t |-> <<"struct", "hx#N_s", "{", "@", "size", "(", "hx#N_s", ")", "m", ":", "i32", "}">>, use |-> "type"],
  [c |-> "struct-alias",   t |-> <<"struct", "hx#N_s", "{", "m", ":", "hx#N_a", "}", "alias", "hx#N_a", "=", "hx#N_s", ";">>, use |-> "type"],
  [c |-> "struct-shadow",  t |-> <<"struct", "f32", "{", "x", ":", "f32", "}", "alias", "hx#N_s", "=", "f32", ";">>, use |-> "type"],
  [c |-> "alias-self",     t |-> <<"alias", "hx#N_s", "=", "hx#N_s", ";">>, use |-> "type"],
  [c |-> "alias-array",    t |-> <<"alias", "hx#N_s", "=", "array", "<", "hx#N_s", ",", "2", ">", ";">>, use |-> "type"],
  [c |-> "alias-ptr",      t |-> <<"alias", "hx#N_s", "=", "ptr", "<", "function", ",", "hx#N_s", ">", ";">>, use |-> "type"],
  [c |-> "alias-mutual",   t |-> <<"alias", "hx#N_s", "=", "hx#N_t", ";", "alias", "hx#N_t", "=", "hx#N_s", ";">>, use |-> "type"],
  [c |-> "alias-shadow",   t |-> <<"alias", "i32", "=", "i32", ";", "alias", "hx#N_s", "=", "i32", ";">>, use |-> "type"],
  [c |-> "alias-size",     t |-> <<"const", "hx#N_n", "=", "hx#N_n", ";", "alias", "hx#N_s", "=", "array", "<", "i32", ",", "hx#N_n", ">", ";">>, use |-> "type"],
  [c |-> "const-self",     t |-> <<"const", "hx#N_s", "=", "hx#N_s", "+", "1", ";">>, use |-> "value"],
  [c |-> "const-mutual",   t |-> <<"const", "hx#N_s", "=", "hx#N_t", ";", "const", "hx#N_t", "=", "hx#N_s", ";">>, use |-> "value"],
  [c |-> "const-typed",    t |-> <<"const", "hx#N_s", ":", "array", "<", "i32", ",", "hx#N_s", ">", "=", "array", "(", "1", ")", ";">>, use |-> "none"],
  [c |-> "const-fn",       t |-> <<"const", "hx#N_s", "=", "hx#N_f", "(", ")", ";", "fn", "hx#N_f", "(", ")", "->", "i32", "{", "return", "hx#N_s", ";", "}">>, use |-> "value"],
  [c |-> "override-self",  t |-> <<"override", "hx#N_s", "=", "hx#N_s", "+", "1", ";">>, use |-> "value"],
  [c |-> "override-self-t", t |-> <<"override", "hx#N_s", ":", "i32", "=", "hx#N_s", ";">>, use |-> "value"],
  [c |-> "override-mutual", t |-> <<"override", "hx#N_s", ":", "f32", "=", "hx#N_t", "*", "2.0", ";", "override", "hx#N_t", ":", "f32", "=", "hx#N_s", ";">>, use |-> "value"],
  [c |-> "override-wgsize", t |-> <<"override", "hx#N_s", ":", "u32", "=", "hx#N_s", ";", "@", "compute", "@", "workgroup_size", "(", "hx#N_s", ")", "fn", "hx#N_w", "(", ")", "{", "}">>, use |-> "none"],
  [c |-> "override-array", t |-> <<"override", "hx#N_s", ":", "u32", "=", "hx#N_s", ";", "var", "<", "workgroup", ">", "hx#N_w", ":", "array", "<", "i32", ",", "hx#N_s", ">", ";">>, use |-> "value"],
  [c |-> "global-self",    t |-> <<"var", "<", "private", ">", "hx#N_s", "=", "hx#N_s", ";">>, use |-> "value"],
  [c |-> "global-self-t",  t |-> <<"var", "<", "private", ">", "hx#N_s", ":", "i32", "=", "hx#N_s", "+", "1", ";">>, use |-> "value"],
  [c |-> "global-mutual",  t |-> <<"var", "<", "private", ">", "hx#N_s", ":", "i32", "=", "hx#N_t", ";", "var", "<", "private", ">", "hx#N_t", ":", "i32", "=", "hx#N_s", ";">>, use |-> "value"],
  [c |-> "global-size",    t |-> <<"var", "<", "private", ">", "hx#N_s", ":", "array", "<", "i32", ",", "hx#N_s", ">", ";">>, use |-> "none"],
  [c |-> "fn-direct",      t |-> <<"fn", "hx#N_s", "(", ")", "->", "i32", "{", "return", "hx#N_s", "(", ")", ";", "}">>, use |-> "call"],
  [c |-> "fn-direct-void", t |-> <<"fn", "hx#N_s", "(", ")", "{", "hx#N_s", "(", ")", ";", "}">>, use |-> "callstmt"],
  [c |-> "fn-mutual",      t |-> <<"fn", "hx#N_s", "(", ")", "->", "i32", "{", "return", "hx#N_t", "(", ")", ";", "}",
                                    "fn", "hx#N_t", "(", ")", "->", "i32", "{", "return", "hx#N_s", "(", ")", ";", "}">>, use |-> "call"],
  [c |-> "fn-mutual3",     t |-> <<"fn", "hx#N_s", "(", ")", "{", "hx#N_t", "(", ")", ";", "}", "fn", "hx#N_t", "(", ")", "{", "hx#N_u", "(", ")", ";", "}",
                                    "fn", "hx#N_u", "(", ")", "{", "hx#N_s", "(", ")", ";", "}">>, use |-> "callstmt"],
  [c |-> "fn-param",       t |-> <<"fn", "hx#N_s", "(", "hx#N_s", ":", "i32", ")", "->", "i32", "{", "return", "hx#N_s", ";", "}">>, use |-> "none"],
  [c |-> "fn-paramtype",   t |-> <<"fn", "hx#N_s", "(", "p", ":", "hx#N_s", ")", "{", "}">>, use |-> "none"],
  [c |-> "fn-result",      t |-> <<"fn", "hx#N_s", "(", ")", "->", "hx#N_s", "{", "}">>, use |-> "none"],
  [c |-> "fn-arg",         t |-> <<"fn", "hx#N_s", "(", "p", ":", "i32", ")", "->", "i32", "{", "return", "hx#N_s", "(", "hx#N_s", "(", "p", ")", ")", ";", "}">>, use |-> "none"],
  [c |-> "fn-const",       t |-> <<"fn", "hx#N_s", "(", ")", "->", "i32", "{", "const", "c", "=", "hx#N_s", "(", ")", ";", "return", "c", ";", "}">>, use |-> "call"],
  [c |-> "entry-self",     t |-> <<"@", "compute", "@", "workgroup_size", "(", "1", ")", "fn", "hx#N_s", "(", ")", "{", "hx#N_s", "(", ")", ";", "}">>, use |-> "none"],
  [c |-> "entry-called",   t |-> <<"@", "compute", "@", "workgroup_size", "(", "1", ")", "fn", "hx#N_s", "(", ")", "{", "}", "fn", "hx#N_t", "(", ")", "{", "hx#N_s", "(", ")", ";", "}">>, use |-> "none"],
  [c |-> "local-let",      t |-> EP(<<"let", "x", "=", "x", ";">>), use |-> "none"],
  [c |-> "local-var",      t |-> EP(<<"var", "x", "=", "x", "+", "1", ";">>), use |-> "none"],
  [c |-> "local-const",    t |-> EP(<<"const", "x", "=", "x", ";">>), use |-> "none"],
  [c |-> "local-type",     t |-> EP(<<"var", "x", ":", "array", "<", "i32", ",", "x", ">", ";">>), use |-> "none"],
  [c |-> "local-shadow",   t |-> EP(<<"var", "i32", ":", "i32", ";", "var", "y", ":", "i32", "=", "i32", ";">>), use |-> "none"],
  [c |-> "wgsize-const",   t |-> <<"const", "hx#N_s", "=", "hx#N_t", ";", "const", "hx#N_t", "=", "hx#N_s", ";",
                                    "@", "compute", "@", "workgroup_size", "(", "hx#N_s", ")", "fn", "hx#N_w", "(", ")", "{", "}">>, use |-> "none"],
  [c |-> "binding-const",  t |-> <<"const", "hx#N_s", "=", "hx#N_s", ";", "@", "group", "(", "hx#N_s", ")", "@", "binding", "(", "hx#N_s", ")",
                                    "var", "<", "uniform", ">", "hx#N_u", ":", "vec4", "<", "f32", ">", ";">>, use |-> "none"]
}
SelfUse(u) ==
  CASE u = "type"     -> EP(<<"var", "v", ":", "hx#N_s", ";">>)
    [] u = "value"    -> EP(<<"var", "v", "=", "hx#N_s", ";">>)
    [] u = "call"     -> EP(<<"var", "v", "=", "hx#N_s", "(", ")", ";">>)
    [] u = "callstmt" -> EP(<<"hx#N_s", "(", ")", ";">>)
    [] OTHER -> <<>>

\* ---------------------------------------------------------------- byte estimates and clamping
RECURSIVE SumBytes(_)
SumBytes(ts) == IF ts = <<>> THEN 0 ELSE Len(Head(ts)) + 1 + SumBytes(Tail(ts))
UnitBytes(con, closed) == SumBytes(con.open) + 4 * con.ix + (IF closed = 1 THEN SumBytes(con.close) ELSE 0)
KMax(con, closed) == (MaxBytes - Slack - SumBytes(con.core)) \div Max(1, UnitBytes(con, closed))
Clamp(con, k, closed) == IF "NoClamp" \in Faults THEN k ELSE Min(k, KMax(con, closed))
EstBytes(con, k, closed) == Slack + SumBytes(con.core) + k * UnitBytes(con, closed)

\* ---------------------------------------------------------------- the state machine
Pick(S) == IF Mode = "exhaustive" THEN S ELSE {RandomElement(S)}

Init == /\ seed \in SeedSet
        /\ len = SeedLen[seed]
        /\ script = <<>>
        /\ left \in 1 .. MaxEdits
        /\ est = 0

Do(act, newlen) == /\ left > 0
                   /\ script' = Append(script, act)
                   /\ len' = newlen
                   /\ left' = left - 1
                   /\ UNCHANGED <<seed, est>>

On(cl) == cl \in Classes /\ left > 0

DeleteToken    == On("DeleteToken") /\ len >= 1 /\ \E i \in Pick(1 .. len) : Do([a |-> "DeleteToken", i |-> i], len - 1)
DuplicateToken == On("DuplicateToken") /\ len >= 1 /\ \E i \in Pick(1 .. len) : Do([a |-> "DuplicateToken", i |-> i], len + 1)
SwapTokens     == On("SwapTokens") /\ len >= 2 /\
                  \E i \in Pick(1 .. len - 1) : \E j \in Pick(i + 1 .. len) : Do([a |-> "SwapTokens", i |-> i, j |-> j], len)
ReplaceToken   == On("ReplaceToken") /\ len >= 1 /\
                  \E i \in Pick(1 .. len) : \E t \in Pick(Pool) : Do([a |-> "ReplaceToken", i |-> i, t |-> t], len)
InsertToken    == On("InsertToken") /\
                  \E i \in Pick(1 .. len + 1) : \E t \in Pick(Pool) : \E g \in Pick({0, 1}) :
                     Do([a |-> "InsertToken", i |-> i, t |-> t, g |-> g], len + 1)
TruncateTok    == On("TruncateTok") /\ len >= 1 /\ \E i \in Pick(0 .. len - 1) : Do([a |-> "TruncateTok", i |-> i], i)
TruncateIn     == On("TruncateIn") /\ len >= 1 /\
                  \E i \in Pick(1 .. len) : \E o \in Pick(1 .. MaxOff) : Do([a |-> "TruncateIn", i |-> i, o |-> o], i)
RawBytes       == On("RawBytes") /\
                  \E i \in Pick(1 .. len + 1) : \E t \in Pick(RawPool) : \E g \in Pick({0, 1}) :
                     Do([a |-> "RawBytes", i |-> i, t |-> t, g |-> g], len + 1)
RawFill        == On("RawFill") /\ \E t \in Pick(Fills) : Do([a |-> "RawFill", t |-> t], 1)

\* a Build action: the group  pre \o open^k \o core \o close^k \o post
BuildLen(b) == Len(b.pre) + b.k * Len(b.open) + Len(b.core) + (IF b.closed = 1 THEN b.k * Len(b.close) ELSE 0) + Len(b.post)
Build(cl, con, ctx, pre, post, k, closed, at) ==
  LET b == [a |-> cl, c |-> con.c, ctx |-> ctx, k |-> k, closed |-> closed, at |-> at,
            pre |-> pre, open |-> con.open, core |-> con.core, close |-> con.close, post |-> post]
  IN /\ left > 0
     /\ script' = Append(script, b)
     /\ len' = len + BuildLen(b)
     /\ left' = left - 1
     /\ est' = Max(est, EstBytes(con, k, closed))
     /\ UNCHANGED seed

WrapOf(con, ctx) ==
  CASE con.kind = "expr" -> ExprWrap(ctx)
    [] con.kind = "type" -> TypeWrap(ctx)
    [] con.kind = "stmt" -> StmtWrap(ctx)
    [] OTHER -> DeclWrap
CtxsOf(con) ==
  CASE con.kind = "expr" -> ExprCtxs
    [] con.kind = "type" -> TypeCtxs
    [] con.kind = "stmt" -> StmtCtxs
    [] OTHER -> {"module"}

Nest ==
  On("Nest") /\
  \E con \in Pick(NestCons) : \E k0 \in Pick(Depths) : \E closed \in Pick({1, 1, 0}) : \E at \in Pick({"end", "start"}) :
  \E ctx \in Pick(CtxsOf(con)) :
    LET k == Clamp(con, k0, closed)
        w == WrapOf(con, ctx)
        post0 == IF con.c \in {"lhsparen", "indexnest"} THEN <<"=", "2", ";">> ELSE <<>>
        pre0  == IF con.c = "indexnest" THEN <<"var", "b", ":", "array", "<", "i32", ",", "4", ">", ";">> ELSE <<>>
    IN Build("Nest", con, ctx, DeclBase(con.c) \o w.pre \o pre0, post0 \o w.post, k, closed, at)

LongChain ==
  On("LongChain") /\
  \E con \in Pick(ChainCons) : \E k0 \in Pick(Lengths) : \E at \in Pick({"end", "start"}) :
  \E ctx \in Pick(IF con.c \in FramedChains THEN {"frame"} ELSE CtxsOf(con)) :
    LET k == Clamp(con, k0, 1)
        w == IF con.c \in FramedChains THEN ChainFrame(con.c) ELSE WrapOf(con, ctx)
        decl == IF con.c \in {"add", "mul"} THEN <<"const", "a#N", "=", "1", ";">> ELSE <<>>
    IN \* member / indexchain: the repeated unit follows the core, so it travels in `close` and is emitted k times after it
       Build("LongChain", con, ctx, decl \o w.pre, w.post, k, 1, at)

LitCon(t) == C("lit", "expr", <<>>, <<t>>, <<>>, 0)
HugeLiteral ==
  On("HugeLiteral") /\
  \E t \in Pick(HugeLits) : \E at \in Pick({"end", "start"}) : \E ctx \in Pick(ExprCtxs \cup IntCtxs) :
    LET w == IF ctx \in IntCtxs THEN IntWrap(ctx) ELSE ExprWrap(ctx)
    IN Build("HugeLiteral", LitCon(t), ctx, w.pre, w.post, 0, 1, at)


\* ---------------------------------------------------------------- hostile constant expressions
\* operand grid: boundary values of the partial operators (shift counts, divisors, conversions, indices, bit ranges)
Grid == {"0", "-1", "1", "-2", "2", "31", "32", "33", "63", "64", "-32", "2147483647", "-2147483648", "(-2147483647 - 1)",
         "2147483648", "4294967295", "4294967296", "9223372036854775807", "-9223372036854775807", "0u", "1u", "31u", "32u",
         "4294967295u", "1i", "-1i", "2147483647i", "3.4028234e38", "-3.4028234e38", "1e38", "1e-45", "0.0", "-0.0", "1.5", "-1.5",
         "0x7fffffff", "0x80000000", "0xffffffffu", "true"}
SmallGrid == {"0", "-1", "32", "33u"}
BinOps == {"/", "%", "<<", ">>", "+", "-", "*", "&", "|", "^", "==", "<", ">=", "&&", "||"}
UnOps  == {"-", "~", "!"}
Casts  == {"i32", "u32", "f32", "f16", "bool", "vec2<u32>"}
Calls2 == {"pow", "ldexp", "min", "max", "atan2", "step", "dot4I8Packed"}
Calls3 == {"clamp", "extractBits", "select", "mix", "smoothstep", "fma"}
AllShapes == {"bin", "un", "cast", "call2", "call3", "call4", "aindex", "vindex"}
Shapes == IF CEShapes = {} THEN AllShapes ELSE CEShapes
OpsOf(sh) == CASE sh = "bin" -> BinOps [] sh = "un" -> UnOps [] sh = "cast" -> Casts [] sh = "call2" -> Calls2
               [] sh = "call3" -> Calls3 [] sh = "call4" -> {"insertBits"} [] OTHER -> {"[]"}
\* an operand: written directly, through a named module constant, or computed
Opd(form, x, name) == CASE form = "named" -> <<name>>
                        [] form = "computed" -> <<"(", x, "+", "1", "-", "1", ")">>
                        [] OTHER -> <<x>>
CEDecls(form, a, b) == IF form = "named" THEN <<"const", "hx#N_a", "=", a, ";", "const", "hx#N_b", "=", b, ";">> ELSE <<>>
CExpr(sh, op, A, B, c, d) ==
  CASE sh = "bin"    -> <<"(">> \o A \o <<op>> \o B \o <<")">>
    [] sh = "un"     -> <<"(", op>> \o A \o <<")">>
    [] sh = "cast"   -> <<op, "(">> \o A \o <<")">>
    [] sh = "call2"  -> <<op, "(">> \o A \o <<",">> \o B \o <<")">>
    [] sh = "call3"  -> <<op, "(">> \o A \o <<",">> \o B \o <<",", c, ")">>
    [] sh = "call4"  -> <<op, "(">> \o A \o <<",">> \o B \o <<",", c, ",", d, ")">>
    [] sh = "aindex" -> <<"array", "(">> \o A \o <<",", c, ")", "[">> \o B \o <<"]">>
    [] OTHER         -> <<"vec4", "(">> \o A \o <<")", "[">> \o B \o <<"]">>
\* the sites: every expression / integer context of the other builders plus the function-scope and assertion sites
CEExtra == {"fnconst", "let", "assert", "memberarray", "localarray"}
CEWrapX(ctx) ==
  CASE ctx = "fnconst"     -> [pre |-> EPo \o <<"const", "c", "=">>, post |-> <<";", "var", "v", "=", "c", ";", "}">>]
    [] ctx = "let"         -> [pre |-> EPo \o <<"let", "c", "=">>, post |-> <<";", "var", "v", "=", "c", ";", "}">>]
    [] ctx = "assert"      -> [pre |-> <<"const_assert">>, post |-> <<"!=", "12345", ";">> \o EP(<<>>)]
    [] ctx = "memberarray" -> [pre |-> <<"struct", "hx#N_s", "{", "m", ":", "array", "<", "i32", ",">>,
                               post |-> <<">", "}">> \o EP(<<"var", "v", ":", "hx#N_s", ";">>)]
    [] ctx = "localarray"  -> [pre |-> EPo \o <<"var", "v", ":", "array", "<", "i32", ",">>, post |-> <<">", ";", "}">>]
CECtxs == IF CECtxSel = {} THEN ExprCtxs \cup IntCtxs \cup CEExtra ELSE CECtxSel
CEWrap(ctx) == IF ctx \in CEExtra THEN CEWrapX(ctx) ELSE IF ctx \in IntCtxs THEN IntWrap(ctx) ELSE ExprWrap(ctx)

HostileConstExpr ==
  On("HostileConstExpr") /\
  \E sh \in Pick(Shapes) : \E form \in Pick(CEForms) : \E a \in Pick(Grid) : \E b \in Pick(Grid) :
  \E c \in Pick(IF sh \in {"call3", "call4", "aindex"} THEN SmallGrid ELSE {"0"}) :
  \E d \in Pick(IF sh = "call4" THEN SmallGrid ELSE {"0"}) :
  \E op \in Pick(OpsOf(sh)) :
    LET e == CExpr(sh, op, Opd(form, a, "hx#N_a"), Opd(form, b, "hx#N_b"), c, d)
        con == C(sh \o ":" \o op \o ":" \o form, "expr", <<>>, e, <<>>, 0)
    IN \/ \* a built group at one of the constant-expression sites
          \E ctx \in Pick(CECtxs) : \E at \in Pick(IF len = 0 THEN {"end"} ELSE {"end", "start"}) :
            LET w == CEWrap(ctx) IN Build("HostileConstExpr", con, ctx, CEDecls(form, a, b) \o w.pre, w.post, 0, 1, at)
       \/ \* substituted for a numeric literal of the seed program (positions are the seed's: first action only)
          /\ script = <<>> /\ SeedLits[seed] # <<>> /\ CECtxSel = {}
          /\ \E n \in Pick(1 .. Len(SeedLits[seed])) :
               LET pre == CEDecls(form, a, b) IN
               /\ script' = Append(script, [a |-> "HostileConstExpr", c |-> con.c, ctx |-> "subst", i |-> SeedLits[seed][n],
                                            pre |-> pre, core |-> e])
               /\ len' = len - 1 + Len(e) + Len(pre)
               /\ left' = left - 1
               /\ UNCHANGED <<seed, est>>

HugeArray ==
  On("HugeArray") /\
  \E n \in Pick(ArraySizes) : \E e \in Pick(ArrayElems) : \E ctx \in Pick(TypeCtxs) : \E at \in Pick({"end", "start"}) :
    LET w == TypeWrap(ctx)
        con == C("array", "type", <<>>, <<"array", "<">> \o e \o <<",", n, ">">>, <<>>, 0)
    IN Build("HugeArray", con, ctx, ElemDecl(e) \o w.pre, w.post, 0, 1, at)

SelfReference ==
  On("SelfReference") /\
  \E r \in Pick(SelfRefs) : \E at \in Pick({"end", "start"}) :
    Build("SelfReference", C(r.c, "decl", <<>>, r.t, <<>>, 0), "module", <<>>, SelfUse(r.use), 0, 1, at)

Emit == /\ left = 0
        /\ left' = -1
        /\ PrintT("@@" \o ToJson([seed |-> seed, len |-> len, script |-> script]))
        /\ UNCHANGED <<seed, len, script, est>>

Next == \/ DeleteToken \/ DuplicateToken \/ SwapTokens \/ ReplaceToken \/ InsertToken \/ TruncateTok \/ TruncateIn
        \/ RawBytes \/ RawFill \/ Nest \/ LongChain \/ HugeLiteral \/ HugeArray \/ SelfReference \/ HostileConstExpr \/ Emit

Spec == Init /\ [][Next]_vars

\* ---------------------------------------------------------------- invariants
TypeOK == /\ seed \in SeedSet
          /\ len \in Nat
          /\ left \in -1 .. MaxEdits
          /\ Len(script) <= MaxEdits
\* every construct alone fits into the 64 KiB of the property's quantifier
WithinBudget == est <= MaxBytes
\* the length bookkeeping never goes negative and scripts of token edits change it by at most one per action
LenSane == len >= 0
=============================================================================
