------------------------------- MODULE Scopes -------------------------------
(***************************************************************************)
(* Property C16, target side: the scoping rules of the three text targets  *)
(* (HLSL, MSL = C++14 + Metal, GLSL) as a state machine over the stream of *)
(* scope events of ONE emitted translation unit:                           *)
(*                                                                         *)
(*   reset(lang, case)      a new emitted text starts                      *)
(*   open(k) / close        a scope opens / the innermost scope closes     *)
(*   decl(name, cs, ns, sig, id)                                           *)
(*        the token spelled `name` (code points `cs`) declares entity `id` *)
(*        in the innermost scope; ns = name-space class:                   *)
(*          "type"   struct tag            "alias"  typedef / using / template parameter *)
(*          "func"   function (sig = parameter type list)                  *)
(*          "var"    variable, parameter, constant, struct / block member  *)
(*          "block"  GLSL interface block name   "cbuffer"  HLSL cbuffer name *)
(*   ref(name, k, exp)      the token spelled `name` is used; exp is the   *)
(*        entity the AUTHOR of the text means: > 0 a declared entity,      *)
(*        0 = a name the language / its library supplies, -1 = unknown;    *)
(*        k = "var" | "call" | "func" | "type" | "member" | "nsq"          *)
(*        ("nsq": the name in front of `::`)                               *)
(*   ep(name)               TranslationInfo.EntryPointNames maps an entry  *)
(*                          point to `name`                                *)
(*   end                    the text ends                                  *)
(*                                                                         *)
(* The events are extracted from naga's output by the independent readers  *)
(* harness/glslx, hlslx, mslx (they say where scopes open and close and    *)
(* which token declares / uses a name); for a renamed program the entity a *)
(* use denotes (`exp`) is the one the use at the same token position       *)
(* denotes in the BASELINE output (same program under benign names), so    *)
(* "every reference resolves to the entity the author meant" is checked    *)
(* here, by the target language's own look-up rule, not by the reader.     *)
(*                                                                         *)
(* Rules (each violation is recorded in `bad` with the line, the case and  *)
(* the spelling; the run always consumes the whole file):                  *)
(*                                                                         *)
(*  legal     a declared spelling is an identifier of the language:        *)
(*            [A-Za-z_][A-Za-z0-9_]* (C++14 [lex.name] without universal   *)
(*            character names, HLSL reference "Grammar/Identifiers", GLSL  *)
(*            4.60 3.7); GLSL 3.7 in addition: no "gl_" prefix and no two  *)
(*            consecutive underscores (both are reserved).                 *)
(*  implres   MSL (C++14 [lex.name]/3): a declared spelling does not       *)
(*            contain a double underscore and does not begin with an       *)
(*            underscore followed by an upper-case letter (such identifiers*)
(*            are reserved to the implementation for any use).  Stated for *)
(*            MSL only; GLSL's double-underscore rule is part of `legal`;  *)
(*            HLSL's reference does not state such a rule.                 *)
(*  reserved  a declared spelling is not in Reserved(lang) - the           *)
(*            independent lists data/c16/reserved-<lang>.txt (keywords,    *)
(*            reserved words, built-in type names); HLSL: a few words      *)
(*            without regard to case; MSL: `main` for functions.           *)
(*  clash     no two declarations with one spelling in one scope, except   *)
(*            where the language lets them coexist: functions whose        *)
(*            parameter type lists differ (overloading, all three          *)
(*            languages); in C++/MSL a struct tag and a variable/function  *)
(*            ([basic.scope.hiding]/2: the tag is hidden); an HLSL cbuffer *)
(*            name clashes only with another cbuffer name.  A GLSL block   *)
(*            name shares the global name space (GLSL 4.60 4.3.9: "it is a *)
(*            compile-time error to use a block name at global scope for   *)
(*            anything other than as a block name").                       *)
(*  resolve   a use that denotes entity e > 0 finds, innermost scope       *)
(*            first, a scope that declares the spelling, and e is among    *)
(*            the entities it finds there (a set only for overloaded       *)
(*            functions; in MSL a variable/function hides a tag of the     *)
(*            same scope).  Finding another entity = CAPTURE by a user or  *)
(*            generated declaration.                                       *)
(*  capture   a use that denotes a built-in (exp = 0) finds NO declaration *)
(*            (a user variable called float3 / abs / metal / naga_div ...  *)
(*            must not hide what generated code refers to).  For "nsq"     *)
(*            only types/aliases are considered (C++ [basic.lookup.qual]). *)
(*  member    a member designator that denotes member e is spelled like    *)
(*            e's declaration in this text.                                *)
(*  entry     a reported entry-point name is a function of the unit scope. *)
(*  balance   scopes are closed in order and none is open at the end       *)
(*            (harness sanity; reported as "harness:").                    *)
(***************************************************************************)
EXTENDS Naturals, Integers, Sequences, FiniteSets, TLC, Json, SequencesExt

Trace    == ndJsonDeserialize("trace.ndjson")
ResLines == ndJsonDeserialize("reserved.ndjson")


ResOf(lg) == CHOOSE r \in Range(ResLines) : r.lang = lg
\* zero-arity definitions are evaluated once by TLC
WordsH == Range(ResOf("hlsl").words)
CIH    == Range(ResOf("hlsl").ci)
FnH    == Range(ResOf("hlsl").fn)
WordsM == Range(ResOf("msl").words)
CIM    == Range(ResOf("msl").ci)
FnM    == Range(ResOf("msl").fn)
WordsG == Range(ResOf("glsl").words)
CIG    == Range(ResOf("glsl").ci)
FnG    == Range(ResOf("glsl").fn)
Words(lg) == CASE lg = "hlsl" -> WordsH [] lg = "msl" -> WordsM [] lg = "glsl" -> WordsG [] OTHER -> {}
CIs(lg)   == CASE lg = "hlsl" -> CIH [] lg = "msl" -> CIM [] lg = "glsl" -> CIG [] OTHER -> {}
Fns(lg)   == CASE lg = "hlsl" -> FnH [] lg = "msl" -> FnM [] lg = "glsl" -> FnG [] OTHER -> {}

---------------------------------------------------------------------------
\* identifiers as sequences of code points
IsLetter(c) == (c >= 65 /\ c <= 90) \/ (c >= 97 /\ c <= 122)
IsDigit(c)  == c >= 48 /\ c <= 57
Lower(c)    == IF c >= 65 /\ c <= 90 THEN c + 32 ELSE c
LowerSeq(cs) == [i \in DOMAIN cs |-> Lower(cs[i])]

LegalIdent(lg, cs) ==
  /\ Len(cs) >= 1
  /\ IsLetter(cs[1]) \/ cs[1] = 95
  /\ \A i \in DOMAIN cs : IsLetter(cs[i]) \/ IsDigit(cs[i]) \/ cs[i] = 95
  /\ lg = "glsl" =>
        /\ ~(Len(cs) >= 3 /\ cs[1] = 103 /\ cs[2] = 108 /\ cs[3] = 95)            \* gl_
        /\ \A i \in 1..(Len(cs) - 1) : ~(cs[i] = 95 /\ cs[i + 1] = 95)            \* __

\* C++14 [lex.name]/3 (MSL is C++14 based): reserved to the implementation for any use
ImplReserved(lg, cs) ==
  /\ lg = "msl"
  /\ \/ \E i \in 1..(Len(cs) - 1) : cs[i] = 95 /\ cs[i + 1] = 95
     \/ Len(cs) >= 2 /\ cs[1] = 95 /\ cs[2] >= 65 /\ cs[2] <= 90

IsReserved(lg, name, cs, ns) ==
  \/ name \in Words(lg)
  \/ LowerSeq(cs) \in CIs(lg)
  \/ ns = "func" /\ name \in Fns(lg)

\* may two declarations with the same spelling share a scope?
Conflict(lg, a, b) ==
  IF a.ns = "cbuffer" \/ b.ns = "cbuffer" THEN a.ns = b.ns
  ELSE IF a.ns = "func" /\ b.ns = "func" THEN a.sig = b.sig
  ELSE IF lg = "msl" /\ ({a.ns, b.ns} = {"type", "var"} \/ {a.ns, b.ns} = {"type", "func"}) THEN FALSE
  ELSE TRUE

---------------------------------------------------------------------------
VARIABLES l,       \* next line of the trace
          bad,     \* verdicts: <<[l, c, rule, name]>>
          lang,    \* language of the current text
          cas,     \* case number of the current text
          stack,   \* sequence of scopes, innermost last; a scope is a set of [name, ns, sig, id]
          spell,   \* spelling of entity id (ids are 1, 2, 3 ... in declaration order)
          gfuncs   \* spellings of the functions of the unit scope
vars == <<l, bad, lang, cas, stack, spell, gfuncs>>

Init == l = 1 /\ bad = <<>> /\ lang = "" /\ cas = 0 /\ stack = <<>> /\ spell = <<>> /\ gfuncs = {}

Ev == Trace[l]
IsEvent(e) == l <= Len(Trace) /\ Ev.ev = e /\ l' = l + 1
Bad(rule, name) == [l |-> l, c |-> cas, rule |-> rule, name |-> name]

\* the declarations a use of `name` can see in one scope
Visible(d, k) == /\ d.ns \notin {"cbuffer", "block"}
                 /\ (k = "nsq" => d.ns \in {"type", "alias"})
Hits(sc, name, k) == {d \in sc : d.name = name /\ Visible(d, k)}
\* C++: a variable or function hides a class name declared in the same scope
Pick(h) == IF lang = "msl" /\ (\E d \in h : d.ns # "type") THEN {d \in h : d.ns # "type"} ELSE h

RECURSIVE Find(_, _, _)
Find(i, name, k) ==
  IF i = 0 THEN {}
  ELSE LET h == Hits(stack[i], name, k)
       IN  IF h # {} THEN {d.id : d \in Pick(h)} ELSE Find(i - 1, name, k)

Reset ==
  /\ IsEvent("reset")
  /\ lang' = Ev.lang /\ cas' = Ev.case
  /\ stack' = <<>> /\ spell' = <<>> /\ gfuncs' = {}
  /\ bad' = IF stack # <<>> THEN Append(bad, Bad("harness: balance: scopes still open at reset", "")) ELSE bad

Open ==
  /\ IsEvent("open")
  /\ stack' = Append(stack, {})
  /\ UNCHANGED <<bad, lang, cas, spell, gfuncs>>

Close ==
  /\ IsEvent("close")
  /\ IF stack = <<>>
       THEN stack' = stack /\ bad' = Append(bad, Bad("harness: balance: close without open", ""))
       ELSE stack' = SubSeq(stack, 1, Len(stack) - 1) /\ bad' = bad
  /\ UNCHANGED <<lang, cas, spell, gfuncs>>

Declare ==
  /\ IsEvent("decl")
  /\ LET d == [name |-> Ev.name, ns |-> Ev.ns, sig |-> Ev.sig, id |-> Ev.id]
         top == IF stack = <<>> THEN {} ELSE stack[Len(stack)]
         v1 == IF stack = <<>> \/ Ev.id # Len(spell) + 1
               THEN <<Bad("harness: declaration outside any scope or ids not sequential", Ev.name)>> ELSE <<>>
         v2 == IF ~LegalIdent(lang, Ev.cs) THEN <<Bad("legal", Ev.name)>> ELSE <<>>
         v3 == (IF IsReserved(lang, Ev.name, Ev.cs, Ev.ns) THEN <<Bad("reserved", Ev.name)>> ELSE <<>>)
               \o (IF ImplReserved(lang, Ev.cs) THEN <<Bad("implres", Ev.name)>> ELSE <<>>)
         v4 == IF \E o \in top : o.name = Ev.name /\ Conflict(lang, o, d) THEN <<Bad("clash", Ev.name)>> ELSE <<>>
     IN  /\ bad' = bad \o v1 \o v2 \o v3 \o v4
         /\ stack' = IF stack = <<>> THEN stack ELSE [stack EXCEPT ![Len(stack)] = @ \cup {d}]
         /\ spell' = Append(spell, Ev.name)
         /\ gfuncs' = IF Len(stack) = 1 /\ Ev.ns = "func" THEN gfuncs \cup {Ev.name} ELSE gfuncs
  /\ UNCHANGED <<lang, cas>>

Reference ==
  /\ IsEvent("ref")
  /\ LET f == Find(Len(stack), Ev.name, Ev.k)
         v == IF Ev.k = "member"
              THEN (IF Ev.exp > 0 /\ (Ev.exp > Len(spell) \/ spell[Ev.exp] # Ev.name)
                    THEN <<Bad("member", Ev.name)>> ELSE <<>>)
              ELSE IF Ev.exp > 0 /\ f = {} THEN <<Bad("resolve: no declaration of this spelling is in scope", Ev.name)>>
              ELSE IF Ev.exp > 0 /\ Ev.exp \notin f THEN <<Bad("resolve: captured by another declaration", Ev.name)>>
              ELSE IF Ev.exp = 0 /\ f # {} THEN <<Bad("capture: a built-in name is hidden by a declaration", Ev.name)>>
              ELSE <<>>
     IN  bad' = bad \o v
  /\ UNCHANGED <<lang, cas, stack, spell, gfuncs>>

EntryPoint ==
  /\ IsEvent("ep")
  /\ bad' = IF Ev.name \notin gfuncs THEN Append(bad, Bad("entry", Ev.name)) ELSE bad
  /\ UNCHANGED <<lang, cas, stack, spell, gfuncs>>

End ==
  /\ IsEvent("end")
  /\ bad' = IF stack # <<>> THEN Append(bad, Bad("harness: balance: scopes still open at the end", "")) ELSE bad
  /\ stack' = <<>>
  /\ UNCHANGED <<lang, cas, spell, gfuncs>>

\* after the last line: print the verdicts
Finish ==
  /\ l = Len(Trace) + 1
  /\ l' = l + 1
  /\ PrintT("@@" \o ToJson([consumed |-> Len(Trace), bad |-> bad]))
  /\ UNCHANGED <<bad, lang, cas, stack, spell, gfuncs>>

Next == Reset \/ Open \/ Close \/ Declare \/ Reference \/ EntryPoint \/ End \/ Finish
Spec == Init /\ [][Next]_vars

\* the machinery's own sanity condition: the whole file was consumed
Consumed == TLCGet("stats").diameter >= Len(Trace) + 2
=============================================================================
