#!/usr/bin/env python3
"""Prints the markdown table of seeded changes and the verdict of every check run against them (from seeded/*/meta.json)."""
import json, os, glob, re
ROOT = os.path.dirname(os.path.dirname(os.path.abspath(__file__)))
rows = []
def key(p):
    m = re.match(r'.*/C(\d+)-(\d+)$', p)
    return (int(m.group(1)), int(m.group(2)))
for d in sorted(glob.glob(os.path.join(ROOT, 'seeded', 'C*-*')), key=key):
    try:
        m = json.load(open(os.path.join(d, 'meta.json')))
    except Exception:
        continue
    sid = os.path.basename(d)
    title = (m.get('title') or '').replace('|', '/').strip()
    needs = (m.get('needs_to_manifest') or m.get('needs') or '')
    if isinstance(needs, list):
        needs = '; '.join(needs)
    needs = needs.replace('|', '/').replace('\n', ' ').strip()
    if len(needs) > 230:
        needs = needs[:227] + '...'
    verd = []
    for c, v in sorted((m.get('checks') or {}).items()):
        e = v.get('exit')
        verd.append('%s %s: %s' % (c, v.get('tier', 'quick'), {0: 'missed', 1: 'CAUGHT (%d reports)' % v.get('violations', 0), 2: 'machinery failure'}.get(e, str(e))))
    rows.append('| %s | %s | %s | %s | %s |' % (sid, m.get('property', ''), title[:150], needs, '; '.join(verd) or 'not run'))
print('| id | property | change | needs to manifest | verdicts |')
print('|---|---|---|---|---|')
print('\n'.join(rows))
