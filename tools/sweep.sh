#!/bin/sh
# tools/sweep.sh [tier]: runs every registered check once (sequentially) and prints exit code and wall time per check.
cd "$(dirname "$0")/.." || exit 2
tier="${1:-quick}"
for id in C01 C02 C03 C04 C05 C06 C07 C08 C09 C10 C11 C12 C13 C14 C15 C16 C17 C18 C19; do
  t0=$(date +%s)
  ./run $id $tier > .work/sweep_$id.log 2>&1
  rc=$?
  echo "$id $tier rc=$rc $(( $(date +%s) - t0 ))s $(grep -c '^KNOWN-FINDING' .work/sweep_$id.log) known $(grep -c '^VIOLATION' .work/sweep_$id.log) violations"
done
