#!/bin/sh
# tools/ingest.sh <PROP> [check ids...]: confirm the seeded changes a mutant agent left in /tmp/mut/<PROP>-out/{A,B}
# and run the given checks (default: the property's own check) against each, in isolation.
prop="$1"; shift
checks="${*:-$prop}"
cd "$(dirname "$0")/.." || exit 2
for x in A B; do
  src=/tmp/mut/$prop-out/$x
  [ -f "$src/patch.diff" ] || { echo "no $src/patch.diff"; continue; }
  n=1; while [ -d seeded/$prop-$n ]; do n=$((n+1)); done
  id=$prop-$n
  if python3 tools/mutant.py confirm "$src" "$id"; then
    python3 tools/mutant.py run "$id" $checks
  else
    echo "NOT CONFIRMED: $src"
  fi
done
