#!/bin/sh
# tools/mkwork.sh <ID>: private working copy of /verif for one check builder
set -e
id="$1"; mkdir -p /work
rsync -a --delete --exclude .git --exclude .work --exclude 'replays/*' /verif/ /work/$id/
mkdir -p /work/$id/known_findings.d /work/$id/replays
echo /work/$id
