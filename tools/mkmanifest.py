#!/usr/bin/env python3
"""Regenerates MANIFEST.json from tools/checks.json (single source of truth for the registered checks)."""
import json, os, subprocess
ROOT = os.path.dirname(os.path.dirname(os.path.abspath(__file__)))
props = [json.loads(l) for l in open(os.path.join(ROOT, 'properties.jsonl'))]
TAB = json.load(open(os.path.join(ROOT, 'tools', 'checks.json')))
CHECKS = TAB["checks"]
NA = TAB["not_applicable"]
DEFAULT_NA = "check not built yet (build in progress; see DESIGN.md section 11)"

hooks_commits = []
try:
    out = subprocess.check_output(['git', '-C', '/repo', 'log', '--format=%h %s'], text=True)
    hooks_commits = [l.split()[0] for l in out.splitlines() if l.split(' ', 1)[1].startswith('verif:')]
except Exception:
    pass

m = {
 "version": 1,
 "setup_cmd": "./setup.sh",
 "hooks": {"guard": "verif",
           "enable": "go build -tags verif (harness module /verif/harness, replace github.com/gogpu/naga => /repo); ./run rebuilds on every invocation",
           "baseline_off_cmd": "cd /repo && GOFLAGS=-mod=mod GOPROXY=off go test -json -vet=off -count=1 -timeout 25m ./...",
           "source_commits": hooks_commits, "add_only": True},
 "engines": [
  {"name": "tlc", "path": "/opt/veriftools/tla/tla2tools.jar", "serves_properties": sorted(CHECKS), "kind_free_text": "TLA+ specifications in /verif/spec model-checked / simulated with TLC; trace validation of events recorded from the real code"},
  {"name": "harness", "path": "/verif/harness", "serves_properties": sorted(CHECKS), "kind_free_text": "Go harness: drives gogpu/naga's public API (tag verif), replays TLC behaviours, extracts event traces, executors for emitted code"},
 ],
 "checks": [],
 "notes": "Model-based verification with an explicit TLA+ specification family (spec/), TLC, and two-way binding to the implementation; see DESIGN.md. ./run <ID> <quick|thorough> rebuilds the harness against /repo's working tree and runs the check; exit 0 ok, 1 violation, 2 machinery failure.",
 "not_applicable": [],
}
for p in props:
    c = CHECKS.get(p['id'])
    if not c:
        m["not_applicable"].append({"property_id": p['id'], "reason": NA.get(p['id'], DEFAULT_NA)})
        continue
    m["checks"].append({
      "property_id": p['id'],
      "quick_cmd": "./run %s quick" % p['id'],
      "thorough_cmd": "./run %s thorough" % p['id'],
      "evidence_file": "/verif/evidence/%s.json" % p['id'],
      "replay_cmd_template": "./run %s quick --replay {path}" % p['id'],
      "engine": "tlc",
      "level_claimed": {"category": c['category'], "text": c['text'], "design_ref": c['design_ref']},
      "level_note": c['note'],
      "technique": c['technique'],
    })
json.dump(m, open(os.path.join(ROOT, 'MANIFEST.json'), 'w'), indent=1)
print("checks:", [c['property_id'] for c in m['checks']])
