#!/usr/bin/env python3
"""Confirm a seeded defect and run checks against it.

  tools/mutant.py confirm <src-dir> <seeded-id>      # src-dir holds patch.diff, demo/run.sh, meta.json (from a sub-agent)
        confirms in a scratch worktree: patch applies, builds, the whole existing suite passes, demo passes on /repo and fails on the patched tree;
        on success copies it to /verif/seeded/<seeded-id>/
  tools/mutant.py run <seeded-id> <check> [<check> ...] [--tier quick|thorough]
        applies the patch to /repo, runs the checks, restores /repo (always), records the verdicts in seeded/<id>/meta.json
"""
import json, os, shutil, subprocess, sys, time

ROOT = os.path.dirname(os.path.dirname(os.path.abspath(__file__)))
ENV = dict(os.environ, GOFLAGS="-mod=mod", GOPROXY="off")


def sh(cmd, cwd=None, timeout=3600):
    p = subprocess.run(cmd, shell=True, cwd=cwd, env=ENV, stdout=subprocess.PIPE, stderr=subprocess.STDOUT, text=True, timeout=timeout)
    return p.returncode, p.stdout


def confirm(src, sid):
    wt = "/tmp/wtv/" + sid
    sh("git -C /repo worktree remove --force %s" % wt)
    rc, out = sh("git -C /repo worktree add --detach %s HEAD" % wt)
    if rc != 0:
        print(out); return 2
    res = {}
    try:
        rc, out = sh("git apply %s/patch.diff" % os.path.abspath(src), cwd=wt)
        res["applies"] = rc == 0
        if rc != 0:
            print("patch does not apply:", out); return 1
        rc, out = sh("go build ./...", cwd=wt)
        res["builds"] = rc == 0
        if rc != 0:
            print("does not build:", out[-2000:]); return 1
        rc, out = sh("go test -vet=off -count=1 -timeout 25m ./... 2>&1 | grep -v '^ok\\|no test files'", cwd=wt)
        res["suite_passes"] = "FAIL" not in out
        if not res["suite_passes"]:
            print("existing suite fails with the change:", out[-3000:]); return 1
        rc1, out1 = sh("sh %s/demo/run.sh /repo" % os.path.abspath(src), cwd=os.path.join(src, "demo"), timeout=1800)
        rc2, out2 = sh("sh %s/demo/run.sh %s" % (os.path.abspath(src), wt), cwd=os.path.join(src, "demo"), timeout=1800)
        res["demo_clean_exit"] = rc1
        res["demo_patched_exit"] = rc2
        if rc1 != 0 or rc2 == 0:
            print("demo does not discriminate: clean=%d patched=%d\n%s\n%s" % (rc1, rc2, out1[-1500:], out2[-1500:])); return 1
    finally:
        sh("git -C /repo worktree remove --force %s" % wt)
        shutil.rmtree(wt, ignore_errors=True)
    dst = os.path.join(ROOT, "seeded", sid)
    shutil.rmtree(dst, ignore_errors=True)
    os.makedirs(dst)
    shutil.copy(os.path.join(src, "patch.diff"), dst)
    shutil.copytree(os.path.join(src, "demo"), os.path.join(dst, "demo"))
    meta = {}
    try:
        meta = json.load(open(os.path.join(src, "meta.json")))
    except Exception:
        pass
    meta["confirmed"] = res
    meta["confirmed_at_repo_commit"] = sh("git -C /repo rev-parse --short HEAD")[1].strip()
    meta["ran"] = ["git apply patch.diff (scratch worktree)", "go build ./...", "go test -vet=off -count=1 ./... (all pass)", "demo/run.sh /repo (exit 0)", "demo/run.sh <patched> (non-zero)"]
    meta.setdefault("checks", {})
    json.dump(meta, open(os.path.join(dst, "meta.json"), "w"), indent=1)
    print("confirmed ->", dst)
    return 0


def run(sid, checks, tier):
    """Runs the checks against the seeded change without touching /repo: the patch is applied in a scratch worktree and a
    scratch copy of /verif (harness go.mod pointing at that worktree) runs the checks."""
    d = os.path.join(ROOT, "seeded", sid)
    wt = "/tmp/wtm/" + sid
    vr = "/tmp/vr/" + sid
    sh("git -C /repo worktree remove --force %s" % wt)
    shutil.rmtree(wt, ignore_errors=True)
    shutil.rmtree(vr, ignore_errors=True)
    rc, out = sh("git -C /repo worktree add --detach %s HEAD" % wt)
    if rc != 0:
        print(out); return 2
    verdicts = {}
    try:
        rc, out = sh("git apply %s/patch.diff" % d, cwd=wt)
        if rc != 0:
            print("patch does not apply:", out); return 2
        os.makedirs(vr)
        if os.environ.get("VERIF_FROM_HEAD") == "1":
            # committed state only (other people may be editing the working tree)
            sh("git -C %s archive HEAD | tar -x -C %s --exclude=seeded --exclude=evidence --exclude=replays" % (ROOT, vr))
        else:
            sh("rsync -a --exclude .git --exclude .work --exclude replays --exclude evidence --exclude seeded %s/ %s/" % (ROOT, vr))
        os.makedirs(os.path.join(vr, "evidence"), exist_ok=True)
        os.makedirs(os.path.join(vr, "replays"), exist_ok=True)
        gm = os.path.join(vr, "harness", "go.mod")
        txt = open(gm).read().replace("=> /repo", "=> " + wt)
        open(gm, "w").write(txt)
        env = dict(ENV, VERIF_REPO=wt, VERIF_ROOT=vr)
        for c in checks:
            t0 = time.time()
            p = subprocess.run("./run %s %s" % (c, tier), shell=True, cwd=vr, env=env, stdout=subprocess.PIPE, stderr=subprocess.STDOUT, text=True, timeout=7200)
            rc, out = p.returncode, p.stdout
            lines = out.splitlines()
            viol = [l for l in lines if l.startswith("VIOLATION")]
            first = ""
            for i, l in enumerate(lines):
                if l.startswith("VIOLATION"):
                    first = "\n".join(lines[i:i + 2])[:600]
                    break
            if rc == 2:
                first = "\n".join([l for l in lines if l.startswith("BROKEN")][:2])[:600]
            verdicts[c] = {"tier": tier, "exit": rc, "violations": len(viol), "first": first, "wall_s": round(time.time() - t0, 1)}
            print(sid, c, tier, "exit", rc, "violations", len(viol), first[:300].replace("\n", " | "))
    finally:
        sh("git -C /repo worktree remove --force %s" % wt)
        shutil.rmtree(wt, ignore_errors=True)
        shutil.rmtree(vr, ignore_errors=True)
    mp = os.path.join(d, "meta.json")
    meta = json.load(open(mp))
    meta.setdefault("checks", {}).update(verdicts)
    json.dump(meta, open(mp, "w"), indent=1)
    return 0


if __name__ == "__main__":
    if sys.argv[1] == "confirm":
        sys.exit(confirm(sys.argv[2], sys.argv[3]))
    if sys.argv[1] == "run":
        tier = "quick"
        args = sys.argv[3:]
        if "--tier" in args:
            i = args.index("--tier"); tier = args[i + 1]; args = args[:i] + args[i + 2:]
        sys.exit(run(sys.argv[2], args, tier))
