package glslx

import (
	"testing"

	"verif/harness/xrt"
)

// All expectations below are computed by hand from WGSL semantics.

const ioI32 = `
@group(0) @binding(0) var<storage, read> a: array<i32, 8>;
@group(0) @binding(1) var<storage, read_write> o: array<i32, 16>;
`
const ioU32 = `
@group(0) @binding(0) var<storage, read> a: array<u32, 8>;
@group(0) @binding(1) var<storage, read_write> o: array<u32, 16>;
`

func TestE2E_IntWrapAround(t *testing.T) {
	src := ioI32 + `
@compute @workgroup_size(1) fn main() {
  o[0] = a[0] + a[1];        // INT_MAX + 1 wraps to INT_MIN
  o[1] = a[2] - a[1];        // INT_MIN - 1 wraps to INT_MAX
  o[2] = a[3] * a[3];        // 65536*65536 = 2^32 -> 0
  o[3] = a[0] * a[4];        // INT_MAX * 2 = 0xFFFFFFFE = -2
  o[4] = -a[2];              // -INT_MIN = INT_MIN
  o[5] = a[5] + a[6];        // -1 + -1
}`
	e2e(t, src, xrt.Input{}, bufMap{
		"0.0": words(2147483647, 1, -2147483648, 65536, 2, -1, -1, 0),
		"0.1": zeros(16),
	}, map[string][]any{"0.1": {-2147483648, 2147483647, 0, -2, -2147483648, -2}})
}

func TestE2E_UintWrapAround(t *testing.T) {
	src := ioU32 + `
@compute @workgroup_size(1) fn main() {
  o[0] = a[0] + a[1];   // UINT_MAX + 1 = 0
  o[1] = a[2] - a[1];   // 0 - 1 = UINT_MAX
  o[2] = a[0] * a[0];   // (2^32-1)^2 mod 2^32 = 1
  o[3] = a[0] / a[3];   // 4294967295 / 2 = 2147483647
  o[4] = a[0] % a[4];   // 4294967295 % 10 = 5
  o[5] = a[3] * a[5];   // 2 * 0x80000000 = 0
}`
	e2e(t, src, xrt.Input{}, bufMap{
		"0.0": words(uint32(0xFFFFFFFF), 1, 0, 2, 10, uint32(0x80000000), 0, 0),
		"0.1": zeros(16),
	}, map[string][]any{"0.1": {0, uint32(0xFFFFFFFF), 1, 2147483647, 5, 0}})
}

func TestE2E_SignedDivision(t *testing.T) {
	src := ioI32 + `
@compute @workgroup_size(1) fn main() {
  o[0] = a[0] / a[1];   // -7 / 2  = -3 (truncation)
  o[1] = a[2] / a[3];   //  7 / -2 = -3
  o[2] = a[0] / a[3];   // -7 / -2 = 3
  o[3] = a[2] / a[1];   //  7 / 2  = 3
  o[4] = a[2] % a[1];   //  7 % 2  = 1
  o[5] = a[4] / a[1];   // INT_MIN / 2 = -1073741824
}`
	e2e(t, src, xrt.Input{}, bufMap{
		"0.0": words(-7, 2, 7, -2, -2147483648, 0, 0, 0),
		"0.1": zeros(16),
	}, map[string][]any{"0.1": {-3, -3, 3, 3, 1, -1073741824}})
}

func TestE2E_Shifts(t *testing.T) {
	src := ioI32 + `
@group(0) @binding(2) var<storage, read_write> ou: array<u32, 4>;
@compute @workgroup_size(1) fn main() {
  let s31 = u32(a[1]);
  o[0] = a[0] << s31;          // 1 << 31 = INT_MIN
  o[1] = a[2] >> 1u;           // -8 >> 1 = -4 (arithmetic)
  o[2] = a[2] >> s31;          // -8 >> 31 = -1
  o[3] = a[3] << 4u;           // 0x0FFFFFFF << 4 = 0xFFFFFFF0 = -16
  ou[0] = u32(a[2]) >> 1u;     // 0xFFFFFFF8 >> 1 = 0x7FFFFFFC (logical)
  ou[1] = u32(a[2]) >> s31;    // 1
  ou[2] = 1u << s31;           // 0x80000000
  ou[3] = u32(a[3]) << 0u;
}`
	e2e(t, src, xrt.Input{}, bufMap{
		"0.0": words(1, 31, -8, 0x0FFFFFFF, 0, 0, 0, 0),
		"0.1": zeros(16), "0.2": zeros(4),
	}, map[string][]any{
		"0.1": {-2147483648, -4, -1, -16},
		"0.2": {uint32(0x7FFFFFFC), 1, uint32(0x80000000), 0x0FFFFFFF},
	})
}

func TestE2E_Bitwise(t *testing.T) {
	src := ioU32 + `
@compute @workgroup_size(1) fn main() {
  o[0] = a[0] & a[1];    // 0xF0F0F0F0 & 0x0FF00FF0 = 0x00F000F0
  o[1] = a[0] | a[1];    // 0xFFF0FFF0
  o[2] = a[0] ^ a[1];    // 0xFF00FF00
  o[3] = ~a[0];          // 0x0F0F0F0F
  o[4] = ~a[2];          // ~0 = 0xFFFFFFFF
  let v = vec2<u32>(a[0], a[1]) & vec2<u32>(a[3]);   // & 0xFFFF
  o[5] = v.x; o[6] = v.y;
}`
	e2e(t, src, xrt.Input{}, bufMap{
		"0.0": words(uint32(0xF0F0F0F0), 0x0FF00FF0, 0, 0xFFFF, 0, 0, 0, 0),
		"0.1": zeros(16),
	}, map[string][]any{"0.1": {0x00F000F0, uint32(0xFFF0FFF0), uint32(0xFF00FF00), 0x0F0F0F0F, uint32(0xFFFFFFFF), 0xF0F0, 0x0FF0}})
}

func TestE2E_ComparisonsAndLogic(t *testing.T) {
	src := ioI32 + `
fn side(i: i32) -> bool { o[15] = o[15] + i; return true; }
@compute @workgroup_size(1) fn main() {
  let x = a[0]; let y = a[1];     // -5, 3
  o[0] = select(0, 1, x < y);                 // 1
  o[1] = select(0, 1, u32(x) < u32(y));       // 0xFFFFFFFB < 3 false -> 0
  o[2] = select(0, 1, x <= -5 && y >= 3);     // 1
  o[3] = select(0, 1, x == y || x != -5);     // 0
  o[4] = select(10, 20, !(x > y));            // 20
  // short circuit: side() must not run on the right of false&& / true||
  if (x > y && side(1)) { o[5] = 1; }
  if (x < y || side(2)) { o[6] = 1; }
  if (x < y && side(4)) { o[7] = 1; }         // runs: o[15] += 4
  if (x > y || side(8)) { o[8] = 1; }         // runs: o[15] += 8
}`
	e2e(t, src, xrt.Input{}, bufMap{
		"0.0": words(-5, 3, 0, 0, 0, 0, 0, 0),
		"0.1": zeros(16),
	}, map[string][]any{"0.1": {1, 0, 1, 0, 20, 0, 1, 1, 1, 0, 0, 0, 0, 0, 0, 12}})
}

func TestE2E_IntBuiltins(t *testing.T) {
	src := ioI32 + `
@compute @workgroup_size(1) fn main() {
  o[0] = abs(a[0]);              // abs(INT_MIN) = INT_MIN
  o[1] = abs(a[1]);              // abs(-9) = 9
  o[2] = min(a[1], a[2]);        // min(-9, 4) = -9
  o[3] = max(a[1], a[2]);        // 4
  o[4] = clamp(a[1], -3, 3);     // -3
  o[5] = clamp(a[2], -3, 3);     // 3
  o[6] = sign(a[1]);             // -1
  o[7] = sign(a[3]);             // 0
  o[8] = sign(a[2]);             // 1
  o[9] = i32(min(u32(a[1]), u32(a[2])));   // unsigned min(0xFFFFFFF7, 4) = 4
  o[10] = i32(max(u32(a[1]), u32(a[2])));  // 0xFFFFFFF7 = -9
}`
	e2e(t, src, xrt.Input{}, bufMap{
		"0.0": words(-2147483648, -9, 4, 0, 0, 0, 0, 0),
		"0.1": zeros(16),
	}, map[string][]any{"0.1": {-2147483648, 9, -9, 4, -3, 3, -1, 0, 1, 4, -9}})
}

func TestE2E_BitBuiltins(t *testing.T) {
	// naga's count-leading-zeros polyfill mixes int and uint ((31 - findMSB(x)) is int);
	// that is legal only with desktop GLSL's implicit int->uint conversion, so
	// countLeadingZeros is exercised separately below.
	src := ioU32 + `
@group(0) @binding(2) var<storage, read_write> oi: array<i32, 8>;
@compute @workgroup_size(1) fn main() {
  o[0] = countOneBits(a[0]);          // popcount(0xF0F00001) = 9
  o[1] = reverseBits(a[0]);           // 0x80000F0F
  o[2] = firstLeadingBit(a[0]);       // 31
  o[3] = firstTrailingBit(a[1]);      // 0x00010000 -> 16
  o[4] = firstLeadingBit(a[2]);       // 0 -> 0xFFFFFFFF
  o[5] = firstTrailingBit(a[2]);      // 0 -> 0xFFFFFFFF
  o[6] = extractBits(a[0], 4u, 8u);   // bits 4..11 of 0xF0F00001 = 0x00
  o[7] = extractBits(a[0], 20u, 12u); // 0xF0F
  o[8] = insertBits(a[2], a[3], 8u, 4u);   // insert low 4 bits of 0xAB (0xB) at 8 -> 0xB00
  o[9] = extractBits(a[0], 0u, 32u);  // whole word
  o[10] = extractBits(a[0], 7u, 0u);  // 0
  oi[0] = firstLeadingBit(bitcast<i32>(a[0]));   // negative: highest 0 bit: 0xF0F00001 -> bit 27
  oi[1] = firstLeadingBit(-1);                   // -1
  oi[2] = extractBits(bitcast<i32>(a[0]), 28u, 4u);  // 0xF sign extended = -1
  oi[3] = extractBits(bitcast<i32>(a[0]), 20u, 8u);  // 0x0F = 15
  oi[4] = countOneBits(-1);                      // 32
  oi[5] = firstTrailingBit(bitcast<i32>(a[1]));  // 16
}`
	e2e(t, src, xrt.Input{}, bufMap{
		"0.0": words(uint32(0xF0F00001), 0x00010000, 0, 0xAB, 0, 0, 0, 0),
		"0.1": zeros(16), "0.2": zeros(8),
	}, map[string][]any{
		"0.1": {9, uint32(0x80000F0F), 31, 16, uint32(0xFFFFFFFF), uint32(0xFFFFFFFF), 0, 0xF0F, 0xB00, uint32(0xF0F00001), 0},
		"0.2": {27, -1, -1, 15, 32, 16},
	})
}

func TestE2E_CountLeadingZeros(t *testing.T) {
	src := ioU32 + `
@compute @workgroup_size(1) fn main() {
  o[0] = countLeadingZeros(a[0]);   // 0x00010000 -> 15
  o[1] = countLeadingZeros(a[1]);   // 0 -> 32
  o[2] = countTrailingZeros(a[0]);  // 16
}`
	bufs := bufMap{"0.0": words(0x00010000, 0, 0, 0, 0, 0, 0, 0), "0.1": zeros(16)}
	// naga emits `uint x = (31 - findMSB(a))`: int -> uint needs the implicit
	// conversion of desktop GLSL >= 4.00 ...
	e2eVers(t, allVers[:2], src, xrt.Input{}, bufs, map[string][]any{"0.1": {15, 32, 16}})
	// ... and is a type error in ESSL, which has no implicit conversions.
	e2eOutcome(t, allVers[2:], src, xrt.Input{}, bufs, "skip", "invalid GLSL")
}
