package glslx

import (
	"fmt"
	"strings"

	"verif/harness/xrt"
)

type binding struct {
	ref lval
}

type scope struct {
	vars   map[string]*binding
	parent *scope
}

func (s *scope) lookup(name string) *binding {
	for c := s; c != nil; c = c.parent {
		if b, ok := c.vars[name]; ok {
			return b
		}
	}
	return nil
}

type ctl int

const (
	ctlNone ctl = iota
	ctlBreak
	ctlContinue
	ctlReturn
)

type machine struct {
	u            *Unit
	in           *xrt.Input
	static       bool // layout-only setup: do not evaluate non-const global initialisers
	structs      map[string]*Type
	funcs        map[string][]*FuncDecl
	blocks       []*blockInst
	globals      *scope
	cur          *scope
	steps        int
	maxSteps     int
	depth        int
	accesses     []xrt.Access
	retVal       Value
	hasRet       bool
	exprDepth    int
	lowPrecision string // set when a default precision below highp is declared (ES)
}

const maxCallDepth = 64
const maxExprDepth = 2000

func newMachine(u *Unit, in *xrt.Input, static bool) *machine {
	m := &machine{u: u, in: in, static: static, structs: map[string]*Type{}, funcs: map[string][]*FuncDecl{}}
	m.globals = &scope{vars: map[string]*binding{}}
	m.cur = m.globals
	m.maxSteps = in.MaxSteps
	if m.maxSteps <= 0 {
		m.maxSteps = 1_000_000
	}
	return m
}

func (m *machine) step(pos Pos) {
	m.steps++
	if m.steps > m.maxSteps {
		panic(&runErr{msg: "fuel"})
	}
}

// ---- types -----------------------------------------------------------------

func (m *machine) resolveTypeName(name string, pos Pos) *Type {
	switch name {
	case "void":
		return tVoid
	case "bool":
		return tBool
	case "int":
		return tInt
	case "uint":
		return tUint
	case "float":
		return tFloat
	}
	if vm, ok := parseVecMatName(name); ok {
		if vm.base == "double" {
			return &Type{Kind: KOpaque, Name: name}
		}
		if vm.n > 0 {
			switch vm.base {
			case "bool":
				return vecOf(tBool, vm.n)
			case "int":
				return vecOf(tInt, vm.n)
			case "uint":
				return vecOf(tUint, vm.n)
			default:
				return vecOf(tFloat, vm.n)
			}
		}
		return matOf(vm.cols, vm.rows)
	}
	if st, ok := m.structs[name]; ok {
		return st
	}
	if isBuiltinTypeName(name) {
		return &Type{Kind: KOpaque, Name: name}
	}
	m.invalidf(pos, "unknown type %s", name)
	return nil
}

// constInt evaluates an integral constant expression (array size, layout value).
func (m *machine) constInt(e Expr, what string) int {
	v := m.eval(e)
	if v.T.Kind != KInt && v.T.Kind != KUint {
		m.invalidf(e.exprPos(), "%s must be an integral constant expression, got %s", what, v.T)
	}
	if v.T.Kind == KInt {
		return int(int32(v.W[0]))
	}
	return int(v.W[0])
}

func (m *machine) resolveType(ts TypeSpec) *Type {
	t := m.resolveTypeName(ts.Name, ts.Pos)
	// dims are outermost first: build from the innermost
	for i := len(ts.Dims) - 1; i >= 0; i-- {
		d := ts.Dims[i]
		n := -1
		if d != nil {
			n = m.constInt(d, "array size")
			if n <= 0 {
				m.invalidf(d.exprPos(), "array size %d must be positive", n)
			}
			if t.words > 0 && n > (1<<22)/t.words {
				m.unsupportedf(d.exprPos(), "array of %d elements is too large", n)
			}
		}
		if t.Kind == KVoid {
			m.invalidf(ts.Pos, "array of void")
		}
		if t.Kind == KArray && t.N < 0 {
			m.invalidf(ts.Pos, "only the outermost array dimension may be unsized")
		}
		t = arrayOf(t, n)
	}
	return t
}

func (m *machine) declareStruct(sd *StructDecl) {
	if _, dup := m.structs[sd.Name]; dup {
		m.invalidf(sd.Pos, "redefinition of struct %s", sd.Name)
	}
	t := &Type{Kind: KStruct, Name: sd.Name}
	off := 0
	seen := map[string]bool{}
	for _, f := range sd.Fields {
		ft := m.resolveType(f.Type)
		if ft.hasUnsized() {
			m.invalidf(f.Pos, "unsized array member %s in struct %s", f.Name, sd.Name)
		}
		if seen[f.Name] {
			m.invalidf(f.Pos, "duplicate member %s in struct %s", f.Name, sd.Name)
		}
		seen[f.Name] = true
		t.Fields = append(t.Fields, Field{Name: f.Name, T: ft, woff: off})
		off += ft.words
	}
	t.words = off
	m.structs[sd.Name] = t
}

// ---- program setup ---------------------------------------------------------

func (m *machine) declare(name string, r lval, pos Pos) {
	if _, dup := m.cur.vars[name]; dup {
		m.invalidf(pos, "redeclaration of %s in the same scope", name)
	}
	m.cur.vars[name] = &binding{ref: r}
}

func (m *machine) builtinVar(name string, t *Type, w ...uint32) {
	c := newCell(name, t)
	copy(c.W, w)
	for i := range c.D {
		c.D[i] = true
	}
	c.Const = true
	m.globals.vars[name] = &binding{ref: lval{T: t, cell: c, ro: "built-in variable " + name}}
}

func (m *machine) setup() {
	u := m.u
	in := m.in
	ls := u.LocalSize
	uv3 := vecOf(tUint, 3)
	nw := in.NumWorkgroups
	if nw == [3]uint32{} {
		nw = [3]uint32{1, 1, 1}
	}
	m.builtinVar("gl_WorkGroupSize", uv3, ls[0], ls[1], ls[2])
	m.builtinVar("gl_NumWorkGroups", uv3, nw[0], nw[1], nw[2])
	m.builtinVar("gl_WorkGroupID", uv3, in.WorkgroupID[0], in.WorkgroupID[1], in.WorkgroupID[2])
	m.builtinVar("gl_LocalInvocationID", uv3, in.LocalID[0], in.LocalID[1], in.LocalID[2])
	m.builtinVar("gl_GlobalInvocationID", uv3,
		in.WorkgroupID[0]*ls[0]+in.LocalID[0], in.WorkgroupID[1]*ls[1]+in.LocalID[1], in.WorkgroupID[2]*ls[2]+in.LocalID[2])
	m.builtinVar("gl_LocalInvocationIndex", tUint, in.LocalID[2]*ls[0]*ls[1]+in.LocalID[1]*ls[0]+in.LocalID[0])

	for _, n := range u.Nodes {
		switch d := n.(type) {
		case *StructDecl:
			m.declareStruct(d)
		case *PrecisionDecl:
			m.precision(d)
		case *QualDecl:
			// layout(local_size) in; invariant x; early_fragment_tests: nothing to execute
		case *FuncDecl:
			m.declareFunc(d)
		case *BlockDecl:
			m.declareBlock(d)
		case *VarDecl:
			m.declareGlobal(d)
		}
	}
}

func (m *machine) precision(d *PrecisionDecl) {
	if !m.u.ES {
		return // precision qualifiers have no semantic effect in desktop GLSL
	}
	if d.Precision != "highp" && (d.Type == "float" || d.Type == "int") {
		m.lowPrecision = fmt.Sprintf("precision %s %s at %s", d.Precision, d.Type, d.Pos)
	}
}

func (m *machine) checkPrecision(q Quals, t *Type) {
	if !m.u.ES || q.Precision == "" || q.Precision == "highp" {
		return
	}
	if t.Kind != KOpaque {
		m.unsupportedf(q.Pos, "%s precision (results are not exact 32-bit)", q.Precision)
	}
}

func (m *machine) declareFunc(d *FuncDecl) {
	for _, o := range m.funcs[d.Name] {
		if len(o.Params) == len(d.Params) {
			if o.Body == nil {
				// prototype followed by definition: replace
				if d.Body != nil {
					*o = *d
				}
				return
			}
			if d.Body == nil {
				return
			}
			same := true
			for i := range o.Params {
				if !sameType(m.resolveType(o.Params[i].Type), m.resolveType(d.Params[i].Type)) {
					same = false
				}
			}
			if same {
				m.invalidf(d.Pos, "redefinition of function %s", d.Name)
			}
		}
	}
	m.funcs[d.Name] = append(m.funcs[d.Name], d)
}

func (m *machine) declareGlobal(d *VarDecl) {
	t := m.resolveType(d.Type)
	m.checkPrecision(d.Quals, t)
	if t.Kind == KVoid {
		m.invalidf(d.Pos, "variable %s of type void", d.Name)
	}
	st := d.Quals.Storage
	if t.hasOpaque() || st == "uniform" || st == "in" || st == "out" || st == "attribute" || st == "varying" || st == "buffer" {
		// declared but not executable: any use reports unsupported
		what := st + " variable"
		if t.hasOpaque() {
			what = "variable of type " + t.String()
		}
		m.declare(d.Name, lval{T: t, ro: "\x00unsupported: " + what + " " + d.Name}, d.Pos)
		return
	}
	if t.hasUnsized() {
		m.invalidf(d.Pos, "unsized array %s outside a buffer block", d.Name)
	}
	c := newCell(d.Name, t)
	switch st {
	case "shared":
		c.Shared = true
		if d.Init != nil {
			m.invalidf(d.Pos, "shared variable %s with an initialiser", d.Name)
		}
	case "const":
		if d.Init == nil {
			m.invalidf(d.Pos, "const variable %s without an initialiser", d.Name)
		}
	case "":
	default:
		m.unsupportedf(d.Pos, "storage qualifier %s", st)
	}
	ro := ""
	if st == "const" {
		c.Const = true
		ro = "const variable " + d.Name
	}
	if d.Init != nil && (!m.static || st == "const") {
		v := m.convertImplicit(m.eval(d.Init), t, d.Pos, "initialiser of "+d.Name)
		copy(c.W, v.W)
		for i := range c.D {
			c.D[i] = true
		}
	}
	m.declare(d.Name, lval{T: t, cell: c, ro: ro}, d.Pos)
}

func (m *machine) declareBlock(d *BlockDecl) {
	st := d.Quals.Storage
	info := Block{Name: d.Name, Instance: d.Instance, Storage: st, Binding: -1, Pos: d.Pos,
		ReadOnly: d.Quals.ReadOnly, WriteOnly: d.Quals.WriteOnly}
	if st != "buffer" && st != "uniform" {
		// in/out interface blocks (vertex/fragment I/O): record nothing, not executable
		if d.Instance != "" {
			m.declare(d.Instance, lval{T: tVoid, ro: "\x00unsupported: " + st + " interface block " + d.Name}, d.InstancePos)
		} else {
			for _, mem := range d.Members {
				m.declare(mem.Name, lval{T: tVoid, ro: "\x00unsupported: " + st + " interface block " + d.Name}, mem.Pos)
			}
		}
		return
	}
	pack := PackShared
	info.Packing = "shared"
	blockAlign := 0
	for _, l := range d.Quals.Layout {
		info.Layout = append(info.Layout, l.Name)
		switch l.Name {
		case "std140":
			pack, info.Packing = Std140, "std140"
		case "std430":
			pack, info.Packing = Std430, "std430"
		case "shared", "packed":
			pack, info.Packing = PackShared, l.Name
		case "binding":
			if !l.HasValue {
				m.invalidf(l.Pos, "layout(binding) needs a value")
			}
			info.Binding = m.constInt(l.Value, "binding")
		case "row_major":
			info.RowMajor = true
		case "column_major":
			info.RowMajor = false
		case "align":
			blockAlign = m.constInt(l.Value, "align")
		case "set", "push_constant", "location", "offset":
			m.unsupportedf(l.Pos, "layout(%s) on a block", l.Name)
		}
	}
	if pack == Std430 && st == "uniform" {
		m.invalidf(d.Pos, "std430 is not allowed on uniform block %s", d.Name)
	}
	bi := &blockInst{decl: d, uniform: st == "uniform"}
	bt := &Type{Kind: KStruct, Name: d.Name, IsBlock: true}
	root := &LNode{T: bt}
	off := 0
	woff := 0
	maxAlign := 1
	for i, mem := range d.Members {
		t := m.resolveType(mem.Type)
		m.checkPrecision(mem.Quals, t)
		if t.hasOpaque() || t.Kind == KVoid {
			m.invalidf(mem.Pos, "member %s of type %s in block %s", mem.Name, t, d.Name)
		}
		if t.hasUnsized() {
			if !(t.Kind == KArray && t.N < 0 && !t.Elem.hasUnsized()) || i != len(d.Members)-1 || st != "buffer" {
				m.invalidf(mem.Pos, "unsized array %s must be the last member of a buffer block", mem.Name)
			}
		}
		rowMajor := info.RowMajor
		explicitOff, explicitAlign := -1, blockAlign
		for _, l := range mem.Quals.Layout {
			switch l.Name {
			case "row_major":
				rowMajor = true
			case "column_major":
				rowMajor = false
			case "offset":
				explicitOff = m.constInt(l.Value, "offset")
			case "align":
				explicitAlign = m.constInt(l.Value, "align")
			default:
				m.unsupportedf(l.Pos, "layout(%s) on a block member", l.Name)
			}
		}
		ml := MemberLayout{Name: mem.Name, Type: t.String(), ArraySizes: typeDims(t)}
		if pack == PackShared {
			info.LayoutErr = "layout(" + info.Packing + ") is implementation defined"
			bt.Fields = append(bt.Fields, Field{Name: mem.Name, T: t, woff: woff})
			root.Members = append(root.Members, &LNode{T: t})
			info.Members = append(info.Members, ml)
			continue
		}
		ln, err := LayoutOf(t, pack, rowMajor)
		if err != nil {
			m.unsupportedf(mem.Pos, "%v", err)
		}
		// GLSL 4.60 section 4.4.5 (offset / align qualifiers)
		al := ln.Align
		if explicitOff >= 0 {
			if explicitOff%ln.Align != 0 {
				m.invalidf(mem.Pos, "layout(offset=%d) of %s is not a multiple of its base alignment %d", explicitOff, mem.Name, ln.Align)
			}
			if explicitOff < off {
				m.invalidf(mem.Pos, "layout(offset=%d) of %s overlaps the previous member (next free offset %d)", explicitOff, mem.Name, off)
			}
			off = explicitOff
		}
		if explicitAlign > 0 {
			if explicitAlign&(explicitAlign-1) != 0 {
				m.invalidf(mem.Pos, "layout(align=%d) is not a power of two", explicitAlign)
			}
			if explicitAlign > al {
				al = explicitAlign
			}
		}
		off = roundUp(off, al)
		ln.Offset = off
		off += ln.Size
		if t.Kind == KStruct || t.Kind == KArray {
			off = roundUp(off, ln.Align)
		}
		if al > maxAlign {
			maxAlign = al
		}
		bt.Fields = append(bt.Fields, Field{Name: mem.Name, T: t, woff: woff})
		if t.words > 0 {
			woff += t.words
		}
		root.Members = append(root.Members, ln)
		ml.Offset, ml.Size, ml.Align = ln.Offset, ln.Size, ln.Align
		ml.ArrayStride, ml.MatrixStride, ml.RowMajor = ln.ArrayStride, ln.MatrixStride, ln.RowMajor
		// for arrays of matrices report the matrix stride of the innermost element
		for e := ln; e != nil; e = e.Elem {
			if e.T.Kind == KMat {
				ml.MatrixStride, ml.RowMajor = e.MatrixStride, e.RowMajor
			}
		}
		ml.Layout = ln
		info.Members = append(info.Members, ml)
	}
	bt.words = woff
	info.Size = off
	root.Size = off
	root.Align = maxAlign
	// slot keys
	if k, ok := slotFromName(d.Instance); ok {
		info.SlotKeys = append(info.SlotKeys, k)
	} else {
		for _, mem := range d.Members {
			if k, ok := slotFromName(mem.Name); ok {
				info.SlotKeys = append(info.SlotKeys, k)
				break
			}
		}
	}
	if info.Binding >= 0 {
		info.SlotKeys = append(info.SlotKeys, fmt.Sprintf("binding=%d", info.Binding))
	}
	bi.info, bi.typ, bi.root = info, bt, root
	m.blocks = append(m.blocks, bi)

	ro := ""
	switch {
	case st == "uniform":
		ro = "uniform block " + d.Name
	case d.Quals.ReadOnly:
		ro = "readonly buffer block " + d.Name
	}
	if len(d.InstanceDims) > 0 {
		m.declare(d.Instance, lval{T: tVoid, ro: "\x00unsupported: array of block instances " + d.Instance}, d.InstancePos)
		return
	}
	if pack == PackShared {
		r := lval{T: tVoid, ro: "\x00unsupported: block " + d.Name + " with implementation-defined layout(" + info.Packing + ")"}
		if d.Instance != "" {
			m.declare(d.Instance, r, d.InstancePos)
		} else {
			for _, mem := range d.Members {
				m.declare(mem.Name, r, mem.Pos)
			}
		}
		return
	}
	if d.Instance != "" {
		m.declare(d.Instance, lval{T: bt, blk: bi, ln: root, ro: ro}, d.InstancePos)
		return
	}
	for i, mem := range d.Members {
		mro := ro
		if mro == "" && mem.Quals.ReadOnly {
			mro = "readonly member " + mem.Name
		}
		m.declare(mem.Name, lval{T: bt.Fields[i].T, blk: bi, boff: root.Members[i].Offset, ln: root.Members[i], ro: mro}, mem.Pos)
	}
}

// ---- statements ------------------------------------------------------------

func (m *machine) push() { m.cur = &scope{vars: map[string]*binding{}, parent: m.cur} }
func (m *machine) pop()  { m.cur = m.cur.parent }

func (m *machine) execBlock(b *BlockStmt, newScope bool) ctl {
	if newScope {
		m.push()
		defer m.pop()
	}
	for _, s := range b.List {
		if c := m.exec(s); c != ctlNone {
			return c
		}
	}
	return ctlNone
}

func (m *machine) declareLocal(d *VarDecl) {
	t := m.resolveType(d.Type)
	m.checkPrecision(d.Quals, t)
	if t.Kind == KVoid || t.hasOpaque() {
		m.invalidf(d.Pos, "local variable %s of type %s", d.Name, t)
	}
	if t.hasUnsized() {
		// `int a[] = int[](1,2)` takes its size from the initialiser
		if t.Kind == KArray && t.N < 0 && d.Init != nil && !t.Elem.hasUnsized() {
			v := m.eval(d.Init)
			if v.T.Kind == KArray && sameType(v.T.Elem, t.Elem) {
				t = v.T
				c := newCell(d.Name, t)
				copy(c.W, v.W)
				for i := range c.D {
					c.D[i] = true
				}
				m.declare(d.Name, lval{T: t, cell: c}, d.Pos)
				return
			}
		}
		m.invalidf(d.Pos, "unsized array %s outside a buffer block", d.Name)
	}
	switch d.Quals.Storage {
	case "", "const":
	default:
		m.invalidf(d.Pos, "storage qualifier %s on local variable %s", d.Quals.Storage, d.Name)
	}
	c := newCell(d.Name, t)
	ro := ""
	if d.Quals.Storage == "const" {
		if d.Init == nil {
			m.invalidf(d.Pos, "const variable %s without an initialiser", d.Name)
		}
		c.Const = true
		ro = "const variable " + d.Name
	}
	if d.Init != nil {
		// the initialiser is evaluated before the name comes into scope
		v := m.convertImplicit(m.eval(d.Init), t, d.Pos, "initialiser of "+d.Name)
		copy(c.W, v.W)
		for i := range c.D {
			c.D[i] = true
		}
	}
	m.declare(d.Name, lval{T: t, cell: c, ro: ro}, d.Pos)
}

func (m *machine) condBool(e Expr, what string) bool {
	v := m.eval(e)
	if v.T != tBool {
		m.invalidf(e.exprPos(), "%s condition must be a scalar bool, got %s", what, v.T)
	}
	return v.W[0] != 0
}

func (m *machine) loopCond(cond Expr, cd *VarDecl, what string) bool {
	if cd != nil {
		m.declareLocal(cd)
		b := m.cur.vars[cd.Name]
		v := m.load(b.ref, cd.Pos)
		if v.T != tBool {
			m.invalidf(cd.Pos, "%s condition must be a scalar bool, got %s", what, v.T)
		}
		return v.W[0] != 0
	}
	if cond == nil {
		return true
	}
	return m.condBool(cond, what)
}

func (m *machine) exec(s Stmt) ctl {
	m.step(s.stmtPos())
	switch s := s.(type) {
	case *EmptyStmt:
		return ctlNone
	case *BlockStmt:
		return m.execBlock(s, true)
	case *DeclStmt:
		if s.Struct != nil {
			m.declareStruct(s.Struct)
		}
		if s.Prec != nil {
			m.precision(s.Prec)
		}
		for _, v := range s.Vars {
			m.declareLocal(v)
		}
		return ctlNone
	case *ExprStmt:
		m.eval(s.X)
		return ctlNone
	case *IfStmt:
		if m.condBool(s.Cond, "if") {
			m.push()
			defer m.pop()
			return m.exec(s.Then)
		} else if s.Else != nil {
			m.push()
			defer m.pop()
			return m.exec(s.Else)
		}
		return ctlNone
	case *WhileStmt:
		for {
			m.push()
			if !m.loopCond(s.Cond, s.CondDecl, "while") {
				m.pop()
				return ctlNone
			}
			c := m.execBody(s.Body)
			m.pop()
			if c == ctlBreak {
				return ctlNone
			}
			if c == ctlReturn {
				return c
			}
			m.step(s.Pos)
		}
	case *DoStmt:
		for {
			m.push()
			c := m.execBody(s.Body)
			m.pop()
			if c == ctlBreak {
				return ctlNone
			}
			if c == ctlReturn {
				return c
			}
			if !m.condBool(s.Cond, "do-while") {
				return ctlNone
			}
			m.step(s.Pos)
		}
	case *ForStmt:
		m.push()
		defer m.pop()
		if s.Init != nil {
			if c := m.exec(s.Init); c != ctlNone {
				return c
			}
		}
		for {
			m.push()
			if !m.loopCond(s.Cond, s.CondDecl, "for") {
				m.pop()
				return ctlNone
			}
			c := m.execBody(s.Body)
			m.pop()
			if c == ctlBreak {
				return ctlNone
			}
			if c == ctlReturn {
				return c
			}
			if s.Post != nil {
				m.eval(s.Post)
			}
			m.step(s.Pos)
		}
	case *SwitchStmt:
		return m.execSwitch(s)
	case *CaseStmt:
		m.invalidf(s.Pos, "case label outside a switch")
	case *BreakStmt:
		return ctlBreak
	case *ContinueStmt:
		return ctlContinue
	case *DiscardStmt:
		m.unsupportedf(s.Pos, "discard")
	case *ReturnStmt:
		if s.X != nil {
			m.retVal = m.eval(s.X)
			m.hasRet = true
		} else {
			m.hasRet = false
		}
		return ctlReturn
	}
	m.skipf("internal: unknown statement %T", s)
	return ctlNone
}

// execBody runs a loop body; the body of a loop does not open a scope of its
// own beyond the loop's (GLSL 4.60 section 6.3), the caller pushed one.
func (m *machine) execBody(s Stmt) ctl {
	var c ctl
	if b, ok := s.(*BlockStmt); ok {
		m.step(b.Pos)
		c = m.execBlock(b, false)
	} else {
		c = m.exec(s)
	}
	if c == ctlContinue {
		return ctlNone
	}
	return c
}

func (m *machine) execSwitch(s *SwitchStmt) ctl {
	tag := m.eval(s.Tag)
	if tag.T != tInt && tag.T != tUint {
		m.invalidf(s.Tag.exprPos(), "switch selector must be a scalar integer, got %s", tag.T)
	}
	if len(s.Body) > 0 {
		if _, ok := s.Body[0].(*CaseStmt); !ok {
			m.invalidf(s.Body[0].stmtPos(), "statement before the first case label of a switch")
		}
	}
	start := -1
	def := -1
	seen := map[uint32]bool{}
	for i, st := range s.Body {
		cs, ok := st.(*CaseStmt)
		if !ok {
			continue
		}
		if cs.Default {
			if def >= 0 {
				m.invalidf(cs.Pos, "more than one default label")
			}
			def = i
			continue
		}
		lv := m.eval(cs.X)
		if lv.T != tInt && lv.T != tUint {
			m.invalidf(cs.Pos, "case label must be a scalar integer, got %s", lv.T)
		}
		if lv.T != tag.T {
			if m.u.ES || !(lv.T == tInt && tag.T == tUint || lv.T == tUint && tag.T == tInt) {
				m.invalidf(cs.Pos, "case label type %s does not match switch selector type %s", lv.T, tag.T)
			}
		}
		if seen[lv.W[0]] {
			m.invalidf(cs.Pos, "duplicate case label")
		}
		seen[lv.W[0]] = true
		if start < 0 && lv.W[0] == tag.W[0] {
			start = i
		}
	}
	if len(s.Body) > 0 {
		if _, ok := s.Body[len(s.Body)-1].(*CaseStmt); ok {
			m.invalidf(s.Body[len(s.Body)-1].stmtPos(), "case label at the end of a switch without a statement")
		}
	}
	if start < 0 {
		start = def
	}
	if start < 0 {
		return ctlNone
	}
	m.push()
	defer m.pop()
	for i := start; i < len(s.Body); i++ {
		if _, ok := s.Body[i].(*CaseStmt); ok {
			continue
		}
		c := m.exec(s.Body[i])
		switch c {
		case ctlBreak:
			return ctlNone
		case ctlContinue, ctlReturn:
			return c
		}
	}
	return ctlNone
}

// ---- running ---------------------------------------------------------------

// Run parses src and executes one invocation of main().
func Run(src string, in xrt.Input) (out xrt.Outcome) {
	u, err := Parse(src)
	if err != nil {
		return xrt.Outcome{Skip: err.Error()}
	}
	return u.Run(in)
}

// Run executes one invocation of main() of an already parsed unit.
func (u *Unit) Run(in xrt.Input) (out xrt.Outcome) {
	m := newMachine(u, &in, false)
	defer func() {
		out.Steps = m.steps
		if in.TraceAccesses {
			out.Accesses = m.accesses
		}
		if r := recover(); r != nil {
			out.Trap, out.Skip = "", ""
			if re, ok := r.(*runErr); ok {
				if re.trap {
					out.Trap = re.msg
				} else {
					out.Skip = re.msg
				}
				return
			}
			out.Skip = fmt.Sprintf("internal: %v", r)
		}
	}()
	// in.Entry is not consulted: a GLSL compilation unit has exactly one entry
	// point, main(); naga emits one unit per WGSL entry point.
	m.setup()
	if !u.HasLocalSize {
		m.skipf("unsupported: not a compute shader (no layout(local_size_*) in declaration)")
	}
	for i := 0; i < 3; i++ {
		if in.LocalID[i] >= u.LocalSize[i] {
			m.skipf("LocalID %v outside the work-group size %v", in.LocalID, u.LocalSize)
		}
	}
	var mainFn *FuncDecl
	for _, f := range m.funcs["main"] {
		if len(f.Params) == 0 && f.Body != nil {
			mainFn = f
		}
	}
	if mainFn == nil {
		m.skipf("invalid GLSL: no void main() definition")
	}
	if m.lowPrecision != "" {
		m.skipf("unsupported: %s (results are not exact 32-bit)", m.lowPrecision)
	}
	m.callUser(mainFn, nil, nil, mainFn.Pos)
	return out
}

func (m *machine) callUser(f *FuncDecl, args []Value, outRefs []*lval, pos Pos) Value {
	m.depth++
	if m.depth > maxCallDepth {
		m.skipf("invalid GLSL: call depth exceeds %d (recursion is not allowed) at %s", maxCallDepth, pos)
	}
	defer func() { m.depth-- }()
	m.step(pos)
	saved := m.cur
	savedExpr := m.exprDepth
	m.exprDepth = 0
	m.cur = &scope{vars: map[string]*binding{}, parent: m.globals}
	defer func() { m.cur = saved; m.exprDepth = savedExpr }()
	ret := m.resolveType(f.Ret)
	type outp struct {
		cell *Cell
		ref  *lval
	}
	var outs []outp
	for i, p := range f.Params {
		pt := m.resolveType(p.Type)
		c := newCell(p.Name, pt)
		if args[i].T != nil {
			copy(c.W, args[i].W)
			for k := range c.D {
				c.D[k] = true
			}
		}
		ro := ""
		if p.Quals.Storage == "const" {
			c.Const = true
			ro = "const parameter " + p.Name
		}
		if outRefs[i] != nil {
			outs = append(outs, outp{c, outRefs[i]})
		}
		if p.Name != "" {
			m.declare(p.Name, lval{T: pt, cell: c, ro: ro}, p.Pos)
		}
	}
	m.hasRet = false
	c := m.execBlock(f.Body, false)
	var rv Value
	if ret.Kind != KVoid {
		if c != ctlReturn || !m.hasRet {
			m.trapf(f.Pos, "function %s reached its end without returning a value", f.Name)
		}
		rv = m.convertImplicit(m.retVal, ret, f.Pos, "return value of "+f.Name)
	} else if c == ctlReturn && m.hasRet {
		m.invalidf(f.Pos, "void function %s returns a value", f.Name)
	}
	m.hasRet = false
	// copy out (in parameter order)
	for _, o := range outs {
		m.copyOut(o.cell, *o.ref, pos)
	}
	return rv
}

func unsupportedMarker(ro string) (string, bool) {
	if strings.HasPrefix(ro, "\x00") {
		return ro[1:], true
	}
	return "", false
}

// copyOut copies an out/inout parameter back to the argument.  A parameter the
// callee never wrote has an undefined value; copying it makes the argument
// undefined (no trap until the argument is read), except for buffer memory,
// where storing an undefined value traps.
func (m *machine) copyOut(c *Cell, dst lval, pos Pos) {
	all := true
	for _, d := range c.D {
		if !d {
			all = false
		}
	}
	if all || dst.cell == nil {
		m.store(dst, m.load(lval{T: c.T, cell: c}, pos), pos)
		return
	}
	m.checkWritable(dst, pos)
	if dst.swz != nil {
		for k := range dst.swz {
			cr := m.comp(dst, k)
			cr.cell.W[cr.woff] = c.W[k]
			cr.cell.D[cr.woff] = c.D[k]
		}
		return
	}
	copy(dst.cell.W[dst.woff:], c.W)
	copy(dst.cell.D[dst.woff:], c.D)
}
