package glslx

import (
	"encoding/binary"
	"fmt"
	"math"

	"verif/harness/xrt"
)

// Value is an r-value: a type and its flattened 32-bit words (bool = 0/1,
// matrices column-major, arrays and structs in declaration order).  R-values
// are always fully defined: loading an undefined word traps.
type Value struct {
	T *Type
	W []uint32
}

func f32(w uint32) float32   { return math.Float32frombits(w) }
func fbits(x float32) uint32 { return math.Float32bits(x) }

func scalarV(t *Type, w uint32) Value { return Value{T: t, W: []uint32{w}} }
func boolV(b bool) Value {
	if b {
		return Value{T: tBool, W: []uint32{1}}
	}
	return Value{T: tBool, W: []uint32{0}}
}
func intV(x int32) Value     { return Value{T: tInt, W: []uint32{uint32(x)}} }
func uintV(x uint32) Value   { return Value{T: tUint, W: []uint32{x}} }
func floatV(x float32) Value { return Value{T: tFloat, W: []uint32{fbits(x)}} }

// Cell is a variable in function, private (global) or shared memory with a
// per-word "defined" bit.
type Cell struct {
	Name   string
	T      *Type
	W      []uint32
	D      []bool
	Const  bool
	Shared bool
}

func newCell(name string, t *Type) *Cell {
	return &Cell{Name: name, T: t, W: make([]uint32, t.words), D: make([]bool, t.words)}
}

// blockInst is an interface block bound (lazily) to an input buffer.
type blockInst struct {
	decl    *BlockDecl
	info    Block
	typ     *Type  // pseudo struct (IsBlock) with one field per member
	root    *LNode // Members parallel to typ.Fields
	uniform bool
	looked  bool
	data    []byte
	slot    string
	missing bool
}

// lval is an l-value.
type lval struct {
	T *Type
	// variable memory
	cell *Cell
	woff int
	// buffer memory
	blk        *blockInst
	boff       int
	ln         *LNode
	compStride int // vectors in buffers: byte distance between components (4 unless a row of a row_major matrix... )
	// swizzle applied on top of the vector found at woff/boff (vt is that vector's type)
	swz []int
	vt  *Type
	// ro is non-empty when the object cannot be written; it names the reason
	ro string
}

type runErr struct {
	trap bool
	msg  string
}

func (m *machine) trapf(pos Pos, f string, a ...any) {
	panic(&runErr{trap: true, msg: fmt.Sprintf(f, a...) + " at " + pos.String()})
}
func (m *machine) unsupportedf(pos Pos, f string, a ...any) {
	panic(&runErr{msg: "unsupported: " + fmt.Sprintf(f, a...) + " at " + pos.String()})
}
func (m *machine) invalidf(pos Pos, f string, a ...any) {
	panic(&runErr{msg: "invalid GLSL: " + fmt.Sprintf(f, a...) + " at " + pos.String()})
}
func (m *machine) skipf(f string, a ...any) {
	panic(&runErr{msg: fmt.Sprintf(f, a...)})
}

// ---- loads and stores -------------------------------------------------------

func (m *machine) refName(r lval) string {
	if r.cell != nil {
		return r.cell.Name
	}
	if r.blk != nil {
		return r.blk.info.Name
	}
	return "?"
}

// comp returns the scalar reference to component i of a vector reference
// (honouring a swizzle).
func (m *machine) comp(r lval, i int) lval {
	if r.swz != nil {
		i = r.swz[i]
	}
	out := r
	out.swz, out.vt = nil, nil
	vt := r.T
	if r.vt != nil {
		vt = r.vt
	}
	out.T = vt.Elem
	if r.cell != nil {
		out.woff = r.woff + i
		return out
	}
	cs := r.compStride
	if cs == 0 {
		cs = 4
	}
	out.boff = r.boff + i*cs
	out.compStride = 0
	out.ln = nil
	return out
}

func (m *machine) load(r lval, pos Pos) Value {
	if r.swz != nil {
		out := Value{T: r.T, W: make([]uint32, len(r.swz))}
		for k := range r.swz {
			out.W[k] = m.load(m.comp(r, k), pos).W[0]
		}
		return out
	}
	if r.cell != nil {
		n := r.T.words
		if r.T.Kind == KArray && r.T.N < 0 {
			m.invalidf(pos, "use of an unsized array as a value")
		}
		c := r.cell
		for k := 0; k < n; k++ {
			if !c.D[r.woff+k] {
				kind := "variable"
				if c.Shared {
					kind = "shared variable"
				}
				if n == 1 && c.T.words == 1 {
					m.trapf(pos, "read of uninitialised %s %s", kind, c.Name)
				}
				m.trapf(pos, "read of uninitialised %s %s (word %d of %d)", kind, c.Name, r.woff+k, c.T.words)
			}
		}
		out := Value{T: r.T, W: make([]uint32, n)}
		copy(out.W, c.W[r.woff:r.woff+n])
		return out
	}
	if r.blk == nil {
		m.skipf("internal: load through an empty reference at %s", pos)
	}
	if r.T.hasUnsized() {
		m.invalidf(pos, "use of an unsized array as a value")
	}
	if r.blk.info.WriteOnly {
		m.invalidf(pos, "read of writeonly block %s", r.blk.info.Name)
	}
	out := Value{T: r.T, W: make([]uint32, 0, r.T.words)}
	m.loadBuf(r, &out.W, pos)
	return out
}

func (m *machine) blockData(b *blockInst, pos Pos) []byte {
	if !b.looked {
		b.looked = true
		b.missing = true
		for _, k := range b.info.SlotKeys {
			if d, ok := m.in.Buffers[k]; ok {
				b.data, b.slot, b.missing = d, k, false
				break
			}
		}
	}
	if b.missing {
		m.skipf("no buffer bound for block %s (slot keys %v) at %s", b.info.Name, b.info.SlotKeys, pos)
	}
	return b.data
}

func (m *machine) access(b *blockInst, off, size int, write bool, pos Pos) []byte {
	data := m.blockData(b, pos)
	if off < 0 || off+size > len(data) {
		what := "load"
		if write {
			what = "store"
		}
		m.trapf(pos, "out-of-bounds %s of %d bytes at byte offset %d of block %s (slot %s, buffer length %d)", what, size, off, b.info.Name, b.slot, len(data))
	}
	if m.in.TraceAccesses {
		m.accesses = append(m.accesses, xrt.Access{Slot: b.slot, Offset: off, Size: size, Write: write})
	}
	return data[off : off+size]
}

func (m *machine) loadBuf(r lval, out *[]uint32, pos Pos) {
	t := r.T
	switch t.Kind {
	case KBool, KInt, KUint, KFloat:
		w := binary.LittleEndian.Uint32(m.access(r.blk, r.boff, 4, false, pos))
		if t.Kind == KBool && w != 0 {
			w = 1
		}
		*out = append(*out, w)
	case KVec:
		cs := r.compStride
		if cs == 0 || cs == 4 {
			b := m.access(r.blk, r.boff, 4*t.N, false, pos)
			for i := 0; i < t.N; i++ {
				w := binary.LittleEndian.Uint32(b[4*i:])
				if t.Elem.Kind == KBool && w != 0 {
					w = 1
				}
				*out = append(*out, w)
			}
			return
		}
		for i := 0; i < t.N; i++ {
			m.loadBuf(m.comp(r, i), out, pos)
		}
	case KMat:
		for c := 0; c < t.Cols; c++ {
			m.loadBuf(m.index(r, c, pos), out, pos)
		}
	case KArray:
		for i := 0; i < t.N; i++ {
			m.loadBuf(m.index(r, i, pos), out, pos)
		}
	case KStruct:
		for i := range t.Fields {
			m.loadBuf(m.field(r, i), out, pos)
		}
	default:
		m.unsupportedf(pos, "load of type %s from a buffer", t)
	}
}

func (m *machine) checkWritable(r lval, pos Pos) {
	if r.ro != "" {
		m.invalidf(pos, "assignment to %s", r.ro)
	}
}

func (m *machine) store(r lval, v Value, pos Pos) {
	m.checkWritable(r, pos)
	if r.swz != nil {
		for a := 0; a < len(r.swz); a++ {
			for b := a + 1; b < len(r.swz); b++ {
				if r.swz[a] == r.swz[b] {
					m.invalidf(pos, "swizzle with repeated components used as an l-value")
				}
			}
		}
		for k := range r.swz {
			m.store(m.comp(r, k), Value{T: r.T.base(), W: v.W[k : k+1]}, pos)
		}
		return
	}
	if !sameType(r.T, v.T) {
		m.skipf("internal: store of %s into %s at %s", v.T, r.T, pos)
	}
	if r.cell != nil {
		c := r.cell
		copy(c.W[r.woff:], v.W)
		for k := range v.W {
			c.D[r.woff+k] = true
		}
		return
	}
	if r.blk == nil {
		m.skipf("internal: store through an empty reference at %s", pos)
	}
	if r.T.hasUnsized() {
		m.invalidf(pos, "assignment to an unsized array")
	}
	w := v.W
	m.storeBuf(r, &w, pos)
}

func (m *machine) storeBuf(r lval, in *[]uint32, pos Pos) {
	t := r.T
	switch t.Kind {
	case KBool, KInt, KUint, KFloat:
		binary.LittleEndian.PutUint32(m.access(r.blk, r.boff, 4, true, pos), (*in)[0])
		*in = (*in)[1:]
	case KVec:
		cs := r.compStride
		if cs == 0 || cs == 4 {
			b := m.access(r.blk, r.boff, 4*t.N, true, pos)
			for i := 0; i < t.N; i++ {
				binary.LittleEndian.PutUint32(b[4*i:], (*in)[i])
			}
			*in = (*in)[t.N:]
			return
		}
		for i := 0; i < t.N; i++ {
			m.storeBuf(m.comp(r, i), in, pos)
		}
	case KMat:
		for c := 0; c < t.Cols; c++ {
			m.storeBuf(m.index(r, c, pos), in, pos)
		}
	case KArray:
		for i := 0; i < t.N; i++ {
			m.storeBuf(m.index(r, i, pos), in, pos)
		}
	case KStruct:
		for i := range t.Fields {
			m.storeBuf(m.field(r, i), in, pos)
		}
	default:
		m.unsupportedf(pos, "store of type %s to a buffer", t)
	}
}

// runtimeLen returns the number of elements of an array reference; for an
// unsized buffer array it is derived from the bound buffer's length.
func (m *machine) runtimeLen(r lval, pos Pos) int {
	if r.T.N >= 0 {
		return r.T.N
	}
	if r.blk == nil {
		m.invalidf(pos, "unsized array outside a buffer block")
	}
	data := m.blockData(r.blk, pos)
	if r.ln == nil || r.ln.ArrayStride <= 0 {
		m.skipf("internal: unsized array without stride at %s", pos)
	}
	rest := len(data) - r.boff
	if rest < 0 {
		return 0
	}
	return rest / r.ln.ArrayStride
}

// index returns the reference to element i of an array, column i of a matrix
// or component i of a vector.  The caller has range-checked i unless it is a
// runtime array (checked here against the buffer length).
func (m *machine) index(r lval, i int, pos Pos) lval {
	t := r.T
	out := r
	out.swz, out.vt = nil, nil
	switch t.Kind {
	case KVec:
		return m.comp(r, i)
	case KMat:
		out.T = vecOf(tFloat, t.Rows)
		if r.cell != nil {
			out.woff = r.woff + i*t.Rows
			return out
		}
		out.ln = nil
		if r.ln != nil && r.ln.RowMajor {
			out.boff = r.boff + 4*i
			out.compStride = r.ln.MatrixStride
		} else {
			out.boff = r.boff + i*r.ln.MatrixStride
			out.compStride = 4
		}
		return out
	case KArray:
		out.T = t.Elem
		if r.cell != nil {
			out.woff = r.woff + i*t.Elem.words
			return out
		}
		out.boff = r.boff + i*r.ln.ArrayStride
		out.ln = r.ln.Elem
		return out
	}
	m.invalidf(pos, "indexing a value of type %s", t)
	return out
}

func (m *machine) field(r lval, i int) lval {
	out := r
	out.swz, out.vt = nil, nil
	f := r.T.Fields[i]
	out.T = f.T
	if r.cell != nil {
		out.woff = r.woff + f.woff
		return out
	}
	ml := r.ln.Members[i]
	out.boff = r.boff + ml.Offset
	out.ln = ml
	return out
}
