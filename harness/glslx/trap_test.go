package glslx

import (
	"strings"
	"testing"

	"verif/harness/xrt"
)

const ioBlock = `layout(std430) buffer B0 { int _group_0_binding_0_cs[8]; };
layout(std430) buffer B1 { float _group_0_binding_1_cs[8]; };
layout(std430) buffer B2 { uint _group_0_binding_2_cs[]; };
`

func stdBufs() bufMap {
	return bufMap{
		// a[0]=0 a[1]=-1 a[2]=INT_MIN a[3]=32 a[4]=7 a[5]=-7 a[6]=100 a[7]=3
		"0.0": words(0, -1, -2147483648, 32, 7, -7, 100, 3),
		// f[0]=NaN f[1]=+inf f[2]=3e9 f[3]=-1.0 f[4]=0.0 f[5]=-0.5 f[6]=5e9 f[7]=2.5
		"0.1": words(uint32(0x7FC00000), uint32(0x7F800000), 3e9, -1.0, 0.0, -0.5, 5e9, 2.5),
		"0.2": words(1, 2, 3, 4),
	}
}

// Every rule that turns GLSL's undefined behaviour into a trap, on hand-written GLSL.
func TestTraps(t *testing.T) {
	const A = "_group_0_binding_0_cs"
	const F = "_group_0_binding_1_cs"
	const U = "_group_0_binding_2_cs"
	cases := []struct {
		name, body, want string
	}{
		{"sdiv by zero", A + "[7] = " + A + "[4] / " + A + "[0];", "signed integer division by zero"},
		{"udiv by zero", U + "[0] = " + U + "[1] / uint(" + A + "[0]);", "unsigned integer division by zero"},
		{"smod by zero", A + "[7] = " + A + "[4] % " + A + "[0];", "modulus by zero"},
		{"umod by zero", U + "[0] = " + U + "[1] % uint(" + A + "[0]);", "modulus by zero"},
		{"INT_MIN / -1", A + "[7] = " + A + "[2] / " + A + "[1];", "division overflow"},
		{"INT_MIN % -1", A + "[7] = " + A + "[2] % " + A + "[1];", "negative operand"},
		{"negative lhs %", A + "[7] = " + A + "[5] % " + A + "[4];", "negative operand (-7 % 7)"},
		{"negative rhs %", A + "[7] = " + A + "[4] % " + A + "[5];", "negative operand (7 % -7)"},
		{"vector div by zero", "ivec2 v = ivec2(1, 2) / ivec2(1, " + A + "[0]); " + A + "[7] = v.x;", "division by zero"},
		{"shift by 32", A + "[7] = " + A + "[4] << " + A + "[3];", "shift count 32 >= 32"},
		{"shift by 32 unsigned count", U + "[0] = " + U + "[1] >> uint(" + A + "[3]);", "shift count 32 >= 32"},
		{"negative shift", A + "[7] = " + A + "[4] >> " + A + "[1];", "shift count -1 is negative"},
		{"compound shift", "int x = 1; x <<= " + A + "[6]; " + A + "[7] = x;", "shift count 100 >= 32"},
		{"int(NaN)", A + "[7] = int(" + F + "[0]);", "float-to-int conversion of NaN"},
		{"int(inf)", A + "[7] = int(" + F + "[1]);", "float-to-int conversion of +Inf"},
		{"int(3e9)", A + "[7] = int(" + F + "[2]);", "float-to-int conversion of out-of-range value 3e+09"},
		{"uint(-1.0)", U + "[0] = uint(" + F + "[3]);", "float-to-uint conversion of negative value -1"},
		{"uint(-0.5)", U + "[0] = uint(" + F + "[5]);", "float-to-uint conversion of negative value -0.5"},
		{"uint(5e9)", U + "[0] = uint(" + F + "[6]);", "float-to-uint conversion of out-of-range value 5e+09"},
		{"ivec2(vec2) NaN", "ivec2 v = ivec2(vec2(1.0, " + F + "[0])); " + A + "[7] = v.x;", "conversion of NaN"},
		{"array index high", A + "[7] = " + A + "[" + A + "[6]];", "index 100 out of range of array int[8] of length 8"},
		{"array index negative", A + "[7] = " + A + "[" + A + "[1]];", "index -1 out of range"},
		{"array store oob", A + "[" + A + "[3]] = 1;", "index 32 out of range"},
		{"local array oob", "int l[3] = int[3](1, 2, 3); " + A + "[7] = l[" + A + "[7]];", "index 3 out of range of array int[3] of length 3"},
		{"vector index oob", "vec3 v = vec3(1.0); " + F + "[0] = v[" + A + "[7]];", "index 3 out of range of vector vec3 of length 3"},
		{"vector store oob", "vec3 v = vec3(1.0); v[" + A + "[4]] = 2.0; " + F + "[0] = v.x;", "index 7 out of range of vector"},
		{"matrix index oob", "mat2x3 m = mat2x3(1.0); " + F + "[0] = m[" + A + "[7]].x;", "index 3 out of range of matrix mat2x3 of length 2"},
		{"matrix row oob", "mat2x3 m = mat2x3(1.0); " + F + "[0] = m[1][" + A + "[7]];", "index 3 out of range of vector vec3"},
		{"runtime array read oob", U + "[0] = " + U + "[" + A + "[4]];", "index 7 out of range of runtime-sized array uint[] of length 4"},
		{"runtime array write oob", U + "[uint(" + A + "[4]) - 3u] = 1u;", "index 4 out of range of runtime-sized array"},
		{"uninitialised local", "int x; " + A + "[7] = x;", "read of uninitialised variable x"},
		{"uninitialised element", "int l[3]; l[0] = 1; l[2] = 3; " + A + "[7] = l[1];", "read of uninitialised variable l (word 1 of 3)"},
		{"uninitialised component", "vec3 v; v.xz = vec2(1.0); " + F + "[0] = v.y;", "read of uninitialised variable v"},
		{"uninitialised whole vector", "vec3 v; v.xz = vec2(1.0); vec3 w = v; " + F + "[0] = w.x;", "read of uninitialised variable v"},
		{"uninitialised struct member", "S s; s.a = 1; " + A + "[7] = s.b;", "read of uninitialised variable s"},
		{"uninitialised global", A + "[7] = g_uninit;", "read of uninitialised variable g_uninit"},
		{"uninitialised shared", A + "[7] = sh[1];", "read of uninitialised shared variable sh"},
		{"out param never written", "int x; noWrite(x); " + A + "[7] = x;", "read of uninitialised variable x"},
		{"inout param uninitialised", "int x; incr(x); " + A + "[7] = x;", "read of uninitialised variable x"},
		{"missing return", A + "[7] = noReturn(" + A + "[4]);", "reached its end without returning a value"},
		{"clamp int min>max", A + "[7] = clamp(" + A + "[4], " + A + "[6], " + A + "[7]);", "clamp with minVal 100 > maxVal 3"},
		{"clamp float min>max", F + "[0] = clamp(" + F + "[7], 2.0, " + F + "[4]);", "clamp with minVal 2 > maxVal 0"},
		{"clamp uint min>max", U + "[0] = clamp(" + U + "[0], " + U + "[3], " + U + "[1]);", "clamp with minVal 4u > maxVal 2u"},
		{"pow negative base", F + "[0] = pow(" + F + "[3], 2.0);", "pow(-1, 2): undefined for x < 0"},
		{"pow zero base non-positive exponent", F + "[0] = pow(" + F + "[4], " + F + "[4]);", "pow(0, 0): undefined for x = 0 and y <= 0"},
		{"bitfieldExtract range", A + "[7] = bitfieldExtract(" + A + "[4], 30, " + A + "[7]);", "bitfieldExtract with offset 30 and bits 3"},
		{"bitfieldExtract negative", A + "[7] = bitfieldExtract(" + A + "[4], " + A + "[1], 1);", "bitfieldExtract with offset -1"},
		{"bitfieldInsert range", U + "[0] = bitfieldInsert(" + U + "[0], " + U + "[1], 16, 17);", "bitfieldInsert with offset 16 and bits 17"},
		{"buffer too short", "_group_1_binding_0_cs.tail = 1;", "out-of-bounds store of 4 bytes at byte offset 16 of block Short"},
	}
	for _, c := range cases {
		src := hdr + "struct S { int a; int b; };\nint g_uninit;\nshared int sh[4];\n" + ioBlock +
			"layout(std430) buffer Short { vec4 head; int tail; } _group_1_binding_0_cs;\n" +
			"void noWrite(out int p) { }\nvoid incr(inout int p) { p = p + 1; }\nint noReturn(int p) { if (p < 0) { return 1; } }\n" +
			"void main() {\n" + c.body + "\n}\n"
		b := stdBufs()
		b["1.0"] = zeros(4)
		o := runGLSL(src, b)
		if !strings.Contains(o.Trap, c.want) {
			t.Errorf("%s: want trap containing %q, got trap=%q skip=%q", c.name, c.want, o.Trap, o.Skip)
		}
	}
}

// Things GLSL defines must be computed, not trapped.
func TestDefinedNotTrapped(t *testing.T) {
	const A = "_group_0_binding_0_cs"
	const F = "_group_0_binding_1_cs"
	const U = "_group_0_binding_2_cs"
	src := hdr + ioBlock + `
void main() {
  int m1 = ` + A + `[1]; int mn = ` + A + `[2];
  ` + A + `[0] = mn - 1;                 // wraps to INT_MAX
  ` + A + `[1] = mn * m1;                // INT_MIN * -1 wraps to INT_MIN
  ` + A + `[3] = -mn;                    // INT_MIN
  ` + A + `[4] = abs(mn);                // INT_MIN
  ` + A + `[5] = ` + A + `[5] / 2;        // -7 / 2 = -3
  ` + A + `[6] = (` + A + `[6] << 31) >> 31;   // 100<<31 = 0 ; 0
  ` + A + `[7] = findMSB(0) + findLSB(0) + bitCount(-1) + bitfieldExtract(-1, 0, 0) + bitfieldExtract(-1, 31, 1);  // -1 + -1 + 32 + 0 + -1
  ` + U + `[0] = -` + U + `[0];           // -1u = 0xFFFFFFFF
  ` + U + `[1] = uint(m1);               // bits preserved
  ` + U + `[2] = bitfieldInsert(0u, 0xFFFFFFFFu, 0, 32);
  ` + U + `[3] = uint(-0.0);             // -0.0 is not negative: 0
  ` + F + `[0] = sqrt(` + F + `[3]);      // sqrt(-1): NaN, not a trap
  ` + F + `[1] = 1.0 / ` + F + `[4];      // +inf
  ` + F + `[2] = float(int(` + F + `[5])); // int(-0.5) = 0
  ` + F + `[3] = pow(` + F + `[4], 2.0);  // pow(0, 2) = 0
  ` + F + `[5] = mix(1.0, 3.0, 2.0);     // extrapolation is defined: 1*(1-2)+3*2 = 5
  ` + F + `[6] = smoothstep(0.0, 1.0, 7.0);   // 1
  ` + F + `[7] = true ? 1.0 : 1.0 / float(1 / ` + A + `[0]);   // unselected operand is not evaluated (a[0] is INT_MAX now, but also fine)
}`
	b := stdBufs()
	o := runGLSL(src, b)
	if !o.OK() {
		t.Fatalf("trap=%q skip=%q", o.Trap, o.Skip)
	}
	expectWords(t, "A", b["0.0"], 2147483647, -2147483648, -2147483648, -2147483648, -2147483648, -3, 0, 29)
	expectWords(t, "U", b["0.2"], uint32(0xFFFFFFFF), uint32(0xFFFFFFFF), uint32(0xFFFFFFFF), 0)
	expectWords(t, "F", b["0.1"], nil, uint32(0x7F800000), 0.0, 0.0, nil, 5.0, 1.0, 1.0)
}

func TestTernaryAndShortCircuitLaziness(t *testing.T) {
	src := hdr + ioBlock + `
int boom() { return 1 / _group_0_binding_0_cs[0]; }
void main() {
  int z = _group_0_binding_0_cs[0];
  _group_0_binding_0_cs[1] = (z == 0) ? 5 : boom();
  _group_0_binding_0_cs[2] = (z != 0 && boom() > 0) ? 1 : 2;
  _group_0_binding_0_cs[3] = (z == 0 || boom() > 0) ? 1 : 2;
}`
	b := stdBufs()
	o := runGLSL(src, b)
	if !o.OK() {
		t.Fatalf("trap=%q skip=%q", o.Trap, o.Skip)
	}
	expectWords(t, "A", b["0.0"], 0, 5, 2, 1)
	// and the other arm does trap
	o = runGLSL(hdr+ioBlock+"int boom() { return 1 / _group_0_binding_0_cs[0]; }\nvoid main() { _group_0_binding_0_cs[1] = (_group_0_binding_0_cs[0] != 0) ? 5 : boom(); }", stdBufs())
	if !strings.Contains(o.Trap, "division by zero") {
		t.Errorf("want trap, got %+v", o)
	}
}

func TestFuelAndRobustness(t *testing.T) {
	o := Run(hdr+"void main() { while (true) { } }", xrt.Input{MaxSteps: 1000})
	if o.Skip != "fuel" {
		t.Errorf("want fuel, got %+v", o)
	}
	if o.Steps < 1000 {
		t.Errorf("steps = %d", o.Steps)
	}
	o = Run(hdr+"int f(int x) { return f(x + 1); }\nvoid main() { f(0); }", xrt.Input{})
	if !strings.Contains(o.Skip, "recursion") {
		t.Errorf("want recursion skip, got %+v", o)
	}
	for _, bad := range []string{
		"", "#version 430 core\nvoid main() {", hdr + "void main() { int x = ; }", hdr + "void main() { x = 1; }",
		hdr + "void main() { float f = 1.0lf; }", hdr + "#define X 1\nvoid main() { }", hdr + "void main() { int a = 5000000000; }",
		hdr + "uniform sampler2D tex;\nvoid main() { vec4 c = texture(tex, vec2(0.0)); }",
		hdr + "void main() { @ }", "#version 450 core\nvoid main() { }",
	} {
		o := Run(bad, xrt.Input{})
		if o.Skip == "" || o.Trap != "" {
			t.Errorf("source %q: want a skip, got %+v", bad, o)
		}
		if strings.HasPrefix(o.Skip, "internal") {
			t.Errorf("source %q: internal error %q", bad, o.Skip)
		}
	}
	o = Run(hdr+"uniform sampler2D tex;\nvoid main() {\n  vec4 c = texture(tex, vec2(0.0));\n}", xrt.Input{})
	if o.Skip != "unsupported: variable of type sampler2D tex at 5:20" {
		t.Errorf("skip = %q", o.Skip)
	}
}
