package glslx

import (
	"fmt"
	"math"
	"math/bits"
	"strings"
)

func baseType(k Kind) *Type {
	switch k {
	case KBool:
		return tBool
	case KInt:
		return tInt
	case KUint:
		return tUint
	}
	return tFloat
}

var kindRank = map[Kind]int{KInt: 1, KUint: 2, KFloat: 3}

// gen unifies the arguments of a component-wise built-in function: every
// argument must be a scalar or vector, all vectors must have the same size,
// scalars are broadcast where bcast[i] allows it, and the base types are
// unified with the implicit conversions of the language version.  It returns
// the common base kind, the component count and one word column per argument.
func (m *machine) gen(e *CallExpr, args []Value, bcast []bool, kinds ...Kind) (Kind, int, [][]uint32) {
	n := 1
	for i, a := range args {
		if !(a.T.isScalar() || a.T.Kind == KVec) {
			m.invalidf(e.Args[i].exprPos(), "%s: argument %d has type %s", e.Name, i+1, a.T)
		}
		if a.T.Kind == KVec {
			if n != 1 && a.T.N != n {
				m.invalidf(e.Pos, "%s: vector arguments of different sizes", e.Name)
			}
			n = a.T.N
		}
	}
	k := args[0].T.base().Kind
	mixed := false
	for _, a := range args[1:] {
		ak := a.T.base().Kind
		if ak != k {
			mixed = true
			if kindRank[ak] > kindRank[k] {
				k = ak
			}
		}
	}
	allowed := func(k Kind) bool {
		for _, x := range kinds {
			if x == k {
				return true
			}
		}
		return false
	}
	if !allowed(k) {
		// e.g. sqrt(int): desktop GLSL converts to the float overload implicitly
		found := false
		for _, cand := range []Kind{KUint, KFloat} {
			if allowed(cand) && m.implicitOK(k, cand) {
				k, mixed, found = cand, true, true
				break
			}
		}
		if !found {
			m.invalidf(e.Pos, "no overload of %s accepts %s", e.Name, m.argTypes(args))
		}
	}
	cols := make([][]uint32, len(args))
	for i, a := range args {
		ak := a.T.base().Kind
		if ak != k {
			if !mixed || !m.implicitOK(ak, k) {
				m.invalidf(e.Pos, "no overload of %s accepts %s", e.Name, m.argTypes(args))
			}
		}
		if a.T.isScalar() && n > 1 {
			if i >= len(bcast) || !bcast[i] {
				// a scalar where a vector is required: only legal when all are scalar
				m.invalidf(e.Pos, "no overload of %s accepts %s", e.Name, m.argTypes(args))
			}
		}
		col := make([]uint32, n)
		for c := 0; c < n; c++ {
			w := a.W[0]
			if !a.T.isScalar() {
				w = a.W[c]
			}
			col[c] = convWord(w, ak, k)
		}
		cols[i] = col
	}
	return k, n, cols
}

func (m *machine) argTypes(args []Value) string {
	var s []string
	for _, a := range args {
		s = append(s, a.T.String())
	}
	return "(" + strings.Join(s, ", ") + ")"
}

func (m *machine) nargs(e *CallExpr, n int) {
	if len(e.Args) != n {
		m.invalidf(e.Pos, "%s takes %d arguments, got %d", e.Name, n, len(e.Args))
	}
}

func result(k Kind, n int, w []uint32) Value { return Value{T: vecOf(baseType(k), n), W: w} }

// float1 applies a float function component-wise.
func (m *machine) float1(e *CallExpr, args []Value, f func(x float32) float32) Value {
	m.nargs(e, 1)
	_, n, c := m.gen(e, args, nil, KFloat)
	out := make([]uint32, n)
	for i := range out {
		out[i] = fbits(f(f32(c[0][i])))
	}
	return result(KFloat, n, out)
}

func via64(f func(float64) float64) func(float32) float32 {
	return func(x float32) float32 { return float32(f(float64(x))) }
}

func roundEven32(x float32) float32 { return float32(math.RoundToEven(float64(x))) }

func fmin(x, y float32) float32 { // GLSL: y if y < x, else x
	if y < x {
		return y
	}
	return x
}
func fmax(x, y float32) float32 { // GLSL: y if x < y, else x
	if x < y {
		return y
	}
	return x
}

var voidV = Value{T: tVoid}

var knownUnsupported = []string{"texture", "texel", "image", "dFd", "fwidth", "interpolateAt", "EmitVertex", "EndPrimitive",
	"subgroup", "atomicCounter", "noise", "shadow", "uaddCarry", "usubBorrow", "umulExtended", "imulExtended",
	"packDouble", "unpackDouble", "allInvocations", "anyInvocation", "rayQuery", "traceRay"}

func (m *machine) callBuiltin(e *CallExpr) Value {
	name := e.Name
	pos := e.Pos
	// functions taking references
	switch name {
	case "modf", "frexp":
		return m.modfFrexp(e)
	case "atomicAdd", "atomicMin", "atomicMax", "atomicAnd", "atomicOr", "atomicXor", "atomicExchange", "atomicCompSwap":
		return m.atomic(e)
	case "barrier", "memoryBarrier", "memoryBarrierBuffer", "memoryBarrierShared", "memoryBarrierImage",
		"memoryBarrierAtomicCounter", "groupMemoryBarrier":
		m.nargs(e, 0)
		return voidV
	}
	args := make([]Value, len(e.Args))
	for i, a := range e.Args {
		args[i] = m.eval(a)
		if args[i].T.Kind == KVoid {
			m.invalidf(a.exprPos(), "void value used as an argument")
		}
	}
	if len(args) == 0 {
		m.unknownFunc(e)
	}
	switch name {
	// ---- angle and trigonometry
	case "radians":
		return m.float1(e, args, func(x float32) float32 { return x * float32(math.Pi/180) })
	case "degrees":
		return m.float1(e, args, func(x float32) float32 { return x * float32(180/math.Pi) })
	case "sin":
		return m.float1(e, args, via64(math.Sin))
	case "cos":
		return m.float1(e, args, via64(math.Cos))
	case "tan":
		return m.float1(e, args, via64(math.Tan))
	case "asin":
		return m.float1(e, args, via64(math.Asin))
	case "acos":
		return m.float1(e, args, via64(math.Acos))
	case "atan":
		if len(args) == 2 {
			_, n, c := m.gen(e, args, nil, KFloat)
			out := make([]uint32, n)
			for i := range out {
				out[i] = fbits(float32(math.Atan2(float64(f32(c[0][i])), float64(f32(c[1][i])))))
			}
			return result(KFloat, n, out)
		}
		return m.float1(e, args, via64(math.Atan))
	case "sinh":
		return m.float1(e, args, via64(math.Sinh))
	case "cosh":
		return m.float1(e, args, via64(math.Cosh))
	case "tanh":
		return m.float1(e, args, via64(math.Tanh))
	case "asinh":
		return m.float1(e, args, via64(math.Asinh))
	case "acosh":
		return m.float1(e, args, via64(math.Acosh))
	case "atanh":
		return m.float1(e, args, via64(math.Atanh))
	// ---- exponential
	case "pow":
		m.nargs(e, 2)
		_, n, c := m.gen(e, args, nil, KFloat)
		out := make([]uint32, n)
		for i := range out {
			x, y := f32(c[0][i]), f32(c[1][i])
			if x < 0 {
				m.trapf(pos, "pow(%v, %v): undefined for x < 0", x, y)
			}
			if x == 0 && y <= 0 {
				m.trapf(pos, "pow(%v, %v): undefined for x = 0 and y <= 0", x, y)
			}
			out[i] = fbits(float32(math.Pow(float64(x), float64(y))))
		}
		return result(KFloat, n, out)
	case "exp":
		return m.float1(e, args, via64(math.Exp))
	case "log":
		return m.float1(e, args, via64(math.Log))
	case "exp2":
		return m.float1(e, args, via64(math.Exp2))
	case "log2":
		return m.float1(e, args, via64(math.Log2))
	case "sqrt":
		return m.float1(e, args, via64(math.Sqrt))
	case "inversesqrt":
		return m.float1(e, args, func(x float32) float32 { return float32(1 / math.Sqrt(float64(x))) })
	// ---- common
	case "abs", "sign":
		m.nargs(e, 1)
		k, n, c := m.gen(e, args, nil, KFloat, KInt)
		out := make([]uint32, n)
		for i := range out {
			w := c[0][i]
			switch {
			case name == "abs" && k == KFloat:
				out[i] = w &^ 0x80000000
			case name == "abs":
				if int32(w) < 0 {
					w = -w // abs(INT_MIN) wraps to INT_MIN
				}
				out[i] = w
			case k == KFloat:
				x := f32(w)
				switch {
				case x > 0:
					out[i] = fbits(1)
				case x < 0:
					out[i] = fbits(-1)
				default:
					out[i] = 0
				}
			default:
				switch {
				case int32(w) > 0:
					out[i] = 1
				case int32(w) < 0:
					out[i] = 0xFFFFFFFF
				}
			}
		}
		return result(k, n, out)
	case "floor":
		return m.float1(e, args, via64(math.Floor))
	case "ceil":
		return m.float1(e, args, via64(math.Ceil))
	case "trunc":
		return m.float1(e, args, via64(math.Trunc))
	case "round", "roundEven":
		// round(): the direction for halfway cases is implementation defined; the
		// ubiquitous implementation (and WGSL's requirement) is round-half-to-even.
		return m.float1(e, args, roundEven32)
	case "fract":
		return m.float1(e, args, func(x float32) float32 { return x - float32(math.Floor(float64(x))) })
	case "mod":
		m.nargs(e, 2)
		_, n, c := m.gen(e, args, []bool{false, true}, KFloat)
		out := make([]uint32, n)
		for i := range out {
			x, y := f32(c[0][i]), f32(c[1][i])
			q := float32(math.Floor(float64(float32(x / y))))
			out[i] = fbits(x - float32(y*q))
		}
		return result(KFloat, n, out)
	case "min", "max":
		m.nargs(e, 2)
		k, n, c := m.gen(e, args, []bool{false, true}, KFloat, KInt, KUint)
		out := make([]uint32, n)
		for i := range out {
			out[i] = minmaxWord(name == "min", c[0][i], c[1][i], k)
		}
		return result(k, n, out)
	case "clamp":
		m.nargs(e, 3)
		if args[1].T.isScalar() != args[2].T.isScalar() {
			m.invalidf(pos, "no overload of clamp accepts %s", m.argTypes(args))
		}
		k, n, c := m.gen(e, args, []bool{false, true, true}, KFloat, KInt, KUint)
		out := make([]uint32, n)
		for i := range out {
			lo, hi := c[1][i], c[2][i]
			if cmpWords(">", lo, hi, k) {
				m.trapf(pos, "clamp with minVal %s > maxVal %s is undefined", fmtWord(lo, k), fmtWord(hi, k))
			}
			out[i] = minmaxWord(true, minmaxWord(false, c[0][i], lo, k), hi, k)
		}
		return result(k, n, out)
	case "mix":
		m.nargs(e, 3)
		if args[2].T.base().Kind == KBool {
			// mix(x, y, bvec): component selection
			if !sameType(args[0].T, args[1].T) || args[2].T.comps() != args[0].T.comps() || !(args[0].T.isScalar() || args[0].T.Kind == KVec) {
				m.invalidf(pos, "no overload of mix accepts %s", m.argTypes(args))
			}
			out := make([]uint32, len(args[0].W))
			for i := range out {
				if args[2].W[i] != 0 {
					out[i] = args[1].W[i]
				} else {
					out[i] = args[0].W[i]
				}
			}
			return Value{T: args[0].T, W: out}
		}
		_, n, c := m.gen(e, args, []bool{false, false, true}, KFloat)
		out := make([]uint32, n)
		for i := range out {
			x, y, a := f32(c[0][i]), f32(c[1][i]), f32(c[2][i])
			out[i] = fbits(float32(x*float32(1-a)) + float32(y*a))
		}
		return result(KFloat, n, out)
	case "step":
		m.nargs(e, 2)
		_, n, c := m.gen(e, args, []bool{true, false}, KFloat)
		out := make([]uint32, n)
		for i := range out {
			if f32(c[1][i]) < f32(c[0][i]) {
				out[i] = 0
			} else {
				out[i] = fbits(1)
			}
		}
		return result(KFloat, n, out)
	case "smoothstep":
		m.nargs(e, 3)
		if args[0].T.isScalar() != args[1].T.isScalar() {
			m.invalidf(pos, "no overload of smoothstep accepts %s", m.argTypes(args))
		}
		_, n, c := m.gen(e, args, []bool{true, true, false}, KFloat)
		out := make([]uint32, n)
		for i := range out {
			e0, e1, x := f32(c[0][i]), f32(c[1][i]), f32(c[2][i])
			t := float32(float32(x-e0) / float32(e1-e0))
			t = fmin(fmax(t, 0), 1)
			out[i] = fbits(float32(t*t) * float32(3-float32(2*t)))
		}
		return result(KFloat, n, out)
	case "isnan", "isinf":
		m.nargs(e, 1)
		_, n, c := m.gen(e, args, nil, KFloat)
		out := make([]uint32, n)
		for i := range out {
			x := f32(c[0][i])
			if (name == "isnan" && x != x) || (name == "isinf" && math.IsInf(float64(x), 0)) {
				out[i] = 1
			}
		}
		return result(KBool, n, out)
	case "floatBitsToInt", "floatBitsToUint":
		m.nargs(e, 1)
		if args[0].T.base().Kind != KFloat {
			m.invalidf(pos, "no overload of %s accepts %s", name, m.argTypes(args))
		}
		_, n, c := m.gen(e, args, nil, KFloat)
		if name == "floatBitsToInt" {
			return result(KInt, n, c[0])
		}
		return result(KUint, n, c[0])
	case "intBitsToFloat", "uintBitsToFloat":
		m.nargs(e, 1)
		want := KInt
		if name == "uintBitsToFloat" {
			want = KUint
		}
		_, n, c := m.gen(e, args, nil, want)
		return result(KFloat, n, c[0])
	case "fma":
		m.nargs(e, 3)
		if m.u.ES && m.u.Version < 320 || !m.u.ES && m.u.Version < 400 {
			m.invalidf(pos, "fma is not available in #version %d %s", m.u.Version, m.u.Profile)
		}
		_, n, c := m.gen(e, args, nil, KFloat)
		out := make([]uint32, n)
		for i := range out {
			out[i] = fbits(float32(math.FMA(float64(f32(c[0][i])), float64(f32(c[1][i])), float64(f32(c[2][i])))))
		}
		return result(KFloat, n, out)
	case "ldexp":
		m.nargs(e, 2)
		if args[0].T.base().Kind != KFloat || args[1].T.base().Kind != KInt || args[0].T.comps() != args[1].T.comps() ||
			!(args[0].T.isScalar() || args[0].T.Kind == KVec) || !(args[1].T.isScalar() || args[1].T.Kind == KVec) {
			m.invalidf(pos, "no overload of ldexp accepts %s", m.argTypes(args))
		}
		out := make([]uint32, len(args[0].W))
		for i := range out {
			out[i] = fbits(float32(math.Ldexp(float64(f32(args[0].W[i])), int(int32(args[1].W[i])))))
		}
		return Value{T: args[0].T, W: out}
	// ---- integer
	case "bitCount", "findLSB", "findMSB", "bitfieldReverse":
		m.nargs(e, 1)
		k, n, c := m.gen(e, args, nil, KInt, KUint)
		out := make([]uint32, n)
		for i := range out {
			w := c[0][i]
			switch name {
			case "bitCount":
				out[i] = uint32(bits.OnesCount32(w))
			case "bitfieldReverse":
				out[i] = bits.Reverse32(w)
			case "findLSB":
				if w == 0 {
					out[i] = 0xFFFFFFFF
				} else {
					out[i] = uint32(bits.TrailingZeros32(w))
				}
			case "findMSB":
				if k == KInt && int32(w) < 0 {
					w = ^w
				}
				if w == 0 {
					out[i] = 0xFFFFFFFF
				} else {
					out[i] = uint32(31 - bits.LeadingZeros32(w))
				}
			}
		}
		if name == "bitfieldReverse" {
			return result(k, n, out)
		}
		return result(KInt, n, out)
	case "bitfieldExtract":
		m.nargs(e, 3)
		off, cnt := m.offsetBits(e, args[1], args[2])
		k, n, c := m.gen(e, args[:1], nil, KInt, KUint)
		out := make([]uint32, n)
		for i := range out {
			w := c[0][i]
			switch {
			case cnt == 0:
				out[i] = 0
			case k == KInt:
				out[i] = uint32(int32(w<<(32-uint(off)-uint(cnt))) >> (32 - uint(cnt)))
			default:
				out[i] = (w << (32 - uint(off) - uint(cnt))) >> (32 - uint(cnt))
			}
		}
		return result(k, n, out)
	case "bitfieldInsert":
		m.nargs(e, 4)
		off, cnt := m.offsetBits(e, args[2], args[3])
		if !sameType(args[0].T, args[1].T) {
			m.invalidf(pos, "no overload of bitfieldInsert accepts %s", m.argTypes(args))
		}
		k, n, c := m.gen(e, args[:2], nil, KInt, KUint)
		out := make([]uint32, n)
		for i := range out {
			var mask uint32
			if cnt == 32 {
				mask = 0xFFFFFFFF
			} else {
				mask = ((uint32(1) << uint(cnt)) - 1) << uint(off)
			}
			out[i] = (c[0][i] &^ mask) | ((c[1][i] << uint(off)) & mask)
			if cnt == 0 {
				out[i] = c[0][i]
			}
		}
		return result(k, n, out)
	// ---- geometric
	case "length":
		m.nargs(e, 1)
		_, n, c := m.gen(e, args, nil, KFloat)
		if n == 1 {
			return floatV(f32(c[0][0] &^ 0x80000000))
		}
		return floatV(sqrt32(dot32(c[0], c[0])))
	case "distance":
		m.nargs(e, 2)
		_, n, c := m.gen(e, args, nil, KFloat)
		d := make([]uint32, n)
		for i := range d {
			d[i] = fbits(f32(c[0][i]) - f32(c[1][i]))
		}
		if n == 1 {
			return floatV(f32(d[0] &^ 0x80000000))
		}
		return floatV(sqrt32(dot32(d, d)))
	case "dot":
		m.nargs(e, 2)
		_, _, c := m.gen(e, args, nil, KFloat)
		return floatV(dot32(c[0], c[1]))
	case "cross":
		m.nargs(e, 2)
		if args[0].T != vecOf(tFloat, 3) || args[1].T != vecOf(tFloat, 3) {
			m.invalidf(pos, "no overload of cross accepts %s", m.argTypes(args))
		}
		x, y := args[0].W, args[1].W
		cr := func(a, b, c, d uint32) uint32 {
			return fbits(float32(f32(a)*f32(b)) - float32(f32(c)*f32(d)))
		}
		return Value{T: args[0].T, W: []uint32{cr(x[1], y[2], y[1], x[2]), cr(x[2], y[0], y[2], x[0]), cr(x[0], y[1], y[0], x[1])}}
	case "normalize":
		m.nargs(e, 1)
		_, n, c := m.gen(e, args, nil, KFloat)
		var l float32
		if n == 1 {
			l = f32(c[0][0] &^ 0x80000000)
		} else {
			l = sqrt32(dot32(c[0], c[0]))
		}
		out := make([]uint32, n)
		for i := range out {
			out[i] = fbits(f32(c[0][i]) / l)
		}
		return result(KFloat, n, out)
	case "faceforward":
		m.nargs(e, 3)
		_, n, c := m.gen(e, args, nil, KFloat)
		out := make([]uint32, n)
		neg := !(dot32(c[2], c[1]) < 0)
		for i := range out {
			out[i] = c[0][i]
			if neg {
				out[i] ^= 0x80000000
			}
		}
		return result(KFloat, n, out)
	case "reflect":
		m.nargs(e, 2)
		_, n, c := m.gen(e, args, nil, KFloat)
		d := float32(2 * dot32(c[1], c[0]))
		out := make([]uint32, n)
		for i := range out {
			out[i] = fbits(f32(c[0][i]) - float32(d*f32(c[1][i])))
		}
		return result(KFloat, n, out)
	case "refract":
		m.nargs(e, 3)
		if args[2].T != tFloat {
			m.invalidf(pos, "no overload of refract accepts %s", m.argTypes(args))
		}
		_, n, c := m.gen(e, args[:2], nil, KFloat)
		eta := f32(args[2].W[0])
		d := dot32(c[1], c[0])
		k := 1 - float32(float32(eta*eta)*float32(1-float32(d*d)))
		out := make([]uint32, n)
		if k < 0 {
			return result(KFloat, n, out)
		}
		s := float32(eta*d) + sqrt32(k)
		for i := range out {
			out[i] = fbits(float32(eta*f32(c[0][i])) - float32(s*f32(c[1][i])))
		}
		return result(KFloat, n, out)
	// ---- matrix
	case "matrixCompMult":
		m.nargs(e, 2)
		if args[0].T.Kind != KMat || !sameType(args[0].T, args[1].T) {
			m.invalidf(pos, "no overload of matrixCompMult accepts %s", m.argTypes(args))
		}
		out := make([]uint32, len(args[0].W))
		for i := range out {
			out[i] = fbits(f32(args[0].W[i]) * f32(args[1].W[i]))
		}
		return Value{T: args[0].T, W: out}
	case "outerProduct":
		m.nargs(e, 2)
		c, r := args[0], args[1]
		if c.T.Kind != KVec || r.T.Kind != KVec || c.T.Elem != tFloat || r.T.Elem != tFloat {
			m.invalidf(pos, "no overload of outerProduct accepts %s", m.argTypes(args))
		}
		rt := matOf(r.T.N, c.T.N)
		out := make([]uint32, rt.words)
		for i := 0; i < r.T.N; i++ {
			for j := 0; j < c.T.N; j++ {
				out[i*c.T.N+j] = fbits(f32(c.W[j]) * f32(r.W[i]))
			}
		}
		return Value{T: rt, W: out}
	case "transpose":
		m.nargs(e, 1)
		a := args[0]
		if a.T.Kind != KMat {
			m.invalidf(pos, "no overload of transpose accepts %s", m.argTypes(args))
		}
		rt := matOf(a.T.Rows, a.T.Cols)
		out := make([]uint32, rt.words)
		for c := 0; c < a.T.Cols; c++ {
			for r := 0; r < a.T.Rows; r++ {
				out[r*rt.Rows+c] = a.W[c*a.T.Rows+r]
			}
		}
		return Value{T: rt, W: out}
	case "determinant", "inverse":
		m.nargs(e, 1)
		a := args[0]
		if a.T.Kind != KMat || a.T.Cols != a.T.Rows {
			m.invalidf(pos, "no overload of %s accepts %s", name, m.argTypes(args))
		}
		n := a.T.Cols
		mat := make([][]float32, n) // mat[row][col]
		for r := 0; r < n; r++ {
			mat[r] = make([]float32, n)
			for c := 0; c < n; c++ {
				mat[r][c] = f32(a.W[c*n+r])
			}
		}
		if name == "determinant" {
			return floatV(det32(mat))
		}
		d := det32(mat)
		out := make([]uint32, n*n)
		for r := 0; r < n; r++ {
			for c := 0; c < n; c++ {
				// inverse[r][c] = cofactor(c, r) / det
				cf := det32(minor32(mat, c, r))
				if (r+c)%2 == 1 {
					cf = -cf
				}
				out[c*n+r] = fbits(cf / d)
			}
		}
		return Value{T: a.T, W: out}
	// ---- vector relational
	case "lessThan", "lessThanEqual", "greaterThan", "greaterThanEqual", "equal", "notEqual":
		m.nargs(e, 2)
		if args[0].T.Kind != KVec || args[1].T.Kind != KVec {
			m.invalidf(pos, "no overload of %s accepts %s", name, m.argTypes(args))
		}
		var k Kind
		var n int
		var c [][]uint32
		if name == "equal" || name == "notEqual" {
			k, n, c = m.gen(e, args, nil, KFloat, KInt, KUint, KBool)
		} else {
			k, n, c = m.gen(e, args, nil, KFloat, KInt, KUint)
		}
		op := map[string]string{"lessThan": "<", "lessThanEqual": "<=", "greaterThan": ">", "greaterThanEqual": ">=", "equal": "==", "notEqual": "!="}[name]
		out := make([]uint32, n)
		for i := range out {
			kk := k
			if kk == KBool {
				kk = KUint
			}
			if cmpWords(op, c[0][i], c[1][i], kk) {
				out[i] = 1
			}
		}
		return result(KBool, n, out)
	case "any", "all", "not":
		m.nargs(e, 1)
		a := args[0]
		if a.T.Kind != KVec || a.T.Elem != tBool {
			m.invalidf(pos, "no overload of %s accepts %s", name, m.argTypes(args))
		}
		switch name {
		case "not":
			out := make([]uint32, len(a.W))
			for i, w := range a.W {
				out[i] = 1 - w
			}
			return Value{T: a.T, W: out}
		case "any":
			for _, w := range a.W {
				if w != 0 {
					return boolV(true)
				}
			}
			return boolV(false)
		default:
			for _, w := range a.W {
				if w == 0 {
					return boolV(false)
				}
			}
			return boolV(true)
		}
	// ---- packing
	case "packSnorm4x8", "packUnorm4x8", "packSnorm2x16", "packUnorm2x16", "packHalf2x16":
		m.nargs(e, 1)
		want := 2
		if strings.HasSuffix(name, "4x8") {
			want = 4
		}
		if args[0].T != vecOf(tFloat, want) {
			m.invalidf(pos, "no overload of %s accepts %s", name, m.argTypes(args))
		}
		var r uint32
		for i, w := range args[0].W {
			x := f32(w)
			switch name {
			case "packSnorm4x8":
				r |= (uint32(int32(roundEven32(clampPack(x, -1, 1)*127))) & 0xFF) << (8 * uint(i))
			case "packUnorm4x8":
				r |= (uint32(roundEven32(clampPack(x, 0, 1)*255)) & 0xFF) << (8 * uint(i))
			case "packSnorm2x16":
				r |= (uint32(int32(roundEven32(clampPack(x, -1, 1)*32767))) & 0xFFFF) << (16 * uint(i))
			case "packUnorm2x16":
				r |= (uint32(roundEven32(clampPack(x, 0, 1)*65535)) & 0xFFFF) << (16 * uint(i))
			default:
				r |= uint32(f32ToF16(x)) << (16 * uint(i))
			}
		}
		return uintV(r)
	case "unpackSnorm4x8", "unpackUnorm4x8", "unpackSnorm2x16", "unpackUnorm2x16", "unpackHalf2x16":
		m.nargs(e, 1)
		if args[0].T != tUint {
			m.invalidf(pos, "no overload of %s accepts %s", name, m.argTypes(args))
		}
		p := args[0].W[0]
		n := 2
		if strings.HasSuffix(name, "4x8") {
			n = 4
		}
		out := make([]uint32, n)
		for i := range out {
			switch name {
			case "unpackSnorm4x8":
				out[i] = fbits(fmin(fmax(float32(int8(p>>(8*uint(i))))/127, -1), 1))
			case "unpackUnorm4x8":
				out[i] = fbits(float32(uint8(p>>(8*uint(i)))) / 255)
			case "unpackSnorm2x16":
				out[i] = fbits(fmin(fmax(float32(int16(p>>(16*uint(i))))/32767, -1), 1))
			case "unpackUnorm2x16":
				out[i] = fbits(float32(uint16(p>>(16*uint(i)))) / 65535)
			default:
				out[i] = fbits(f16ToF32(uint16(p >> (16 * uint(i)))))
			}
		}
		return result(KFloat, n, out)
	}
	m.unknownFunc(e)
	return Value{}
}

func (m *machine) unknownFunc(e *CallExpr) {
	for _, p := range knownUnsupported {
		if strings.HasPrefix(e.Name, p) {
			m.unsupportedf(e.Pos, "built-in function %s", e.Name)
		}
	}
	if _, isB := builtinNames[e.Name]; isB {
		m.invalidf(e.Pos, "wrong number of arguments for built-in function %s", e.Name)
	}
	m.invalidf(e.Pos, "call to undeclared function %s", e.Name)
}

// builtinNames lists the built-in functions implemented (used by the resolver
// to classify references and to word diagnostics).
var builtinNames = map[string]bool{}

func init() {
	for _, n := range strings.Fields(`radians degrees sin cos tan asin acos atan sinh cosh tanh asinh acosh atanh pow exp log exp2 log2
		sqrt inversesqrt abs sign floor ceil trunc round roundEven fract mod min max clamp mix step smoothstep isnan isinf
		floatBitsToInt floatBitsToUint intBitsToFloat uintBitsToFloat fma ldexp frexp modf bitCount findLSB findMSB bitfieldReverse
		bitfieldExtract bitfieldInsert length distance dot cross normalize faceforward reflect refract matrixCompMult outerProduct
		transpose determinant inverse lessThan lessThanEqual greaterThan greaterThanEqual equal notEqual any all not
		packSnorm4x8 packUnorm4x8 packSnorm2x16 packUnorm2x16 packHalf2x16 unpackSnorm4x8 unpackUnorm4x8 unpackSnorm2x16
		unpackUnorm2x16 unpackHalf2x16 atomicAdd atomicMin atomicMax atomicAnd atomicOr atomicXor atomicExchange atomicCompSwap
		barrier memoryBarrier memoryBarrierBuffer memoryBarrierShared memoryBarrierImage memoryBarrierAtomicCounter groupMemoryBarrier`) {
		builtinNames[n] = true
	}
}

func fmtWord(w uint32, k Kind) string {
	if k == KFloat {
		return fmtFloat(f32(w))
	}
	return fmtInt(w, k)
}

func fmtFloat(f float32) string { return fmt.Sprintf("%v", f) }

func minmaxWord(isMin bool, x, y uint32, k Kind) uint32 {
	switch k {
	case KFloat:
		if isMin {
			return fbits(fmin(f32(x), f32(y)))
		}
		return fbits(fmax(f32(x), f32(y)))
	case KInt:
		if (int32(y) < int32(x)) == isMin && x != y {
			return y
		}
		return x
	default:
		if (y < x) == isMin && x != y {
			return y
		}
		return x
	}
}

func clampPack(x, lo, hi float32) float32 {
	if x != x {
		return 0 // NaN: result undefined in GLSL; the common hardware result is 0
	}
	return fmin(fmax(x, lo), hi)
}

func sqrt32(x float32) float32 { return float32(math.Sqrt(float64(x))) }

func dot32(a, b []uint32) float32 {
	var acc float32
	for i := range a {
		p := float32(f32(a[i]) * f32(b[i]))
		if i == 0 {
			acc = p
		} else {
			acc = float32(acc + p)
		}
	}
	return acc
}

func minor32(mat [][]float32, dr, dc int) [][]float32 {
	n := len(mat)
	out := make([][]float32, 0, n-1)
	for r := 0; r < n; r++ {
		if r == dr {
			continue
		}
		row := make([]float32, 0, n-1)
		for c := 0; c < n; c++ {
			if c != dc {
				row = append(row, mat[r][c])
			}
		}
		out = append(out, row)
	}
	return out
}

// det32 is the Laplace expansion along the first row, every operation rounded to binary32.
func det32(mat [][]float32) float32 {
	n := len(mat)
	switch n {
	case 1:
		return mat[0][0]
	case 2:
		return float32(mat[0][0]*mat[1][1]) - float32(mat[0][1]*mat[1][0])
	}
	var acc float32
	for c := 0; c < n; c++ {
		t := float32(mat[0][c] * det32(minor32(mat, 0, c)))
		switch {
		case c == 0:
			acc = t
		case c%2 == 1:
			acc = float32(acc - t)
		default:
			acc = float32(acc + t)
		}
	}
	return acc
}

func (m *machine) offsetBits(e *CallExpr, o, b Value) (int, int) {
	if o.T != tInt || b.T != tInt {
		m.invalidf(e.Pos, "%s: offset and bits must be int, got %s and %s", e.Name, o.T, b.T)
	}
	off, cnt := int(int32(o.W[0])), int(int32(b.W[0]))
	if off < 0 || cnt < 0 || off+cnt > 32 {
		m.trapf(e.Pos, "%s with offset %d and bits %d is undefined (need offset >= 0, bits >= 0, offset+bits <= 32)", e.Name, off, cnt)
	}
	return off, cnt
}

func (m *machine) modfFrexp(e *CallExpr) Value {
	m.nargs(e, 2)
	x := m.eval(e.Args[0])
	r := m.lvalue(e.Args[1])
	m.checkWritable(r, e.Pos)
	if x.T.base().Kind != KFloat || !(x.T.isScalar() || x.T.Kind == KVec) {
		m.invalidf(e.Pos, "no overload of %s accepts a first argument of type %s", e.Name, x.T)
	}
	n := x.T.comps()
	out := Value{T: x.T, W: make([]uint32, n)}
	if e.Name == "modf" {
		if !sameType(r.T, x.T) {
			m.invalidf(e.Pos, "modf: out argument has type %s, expected %s", r.T, x.T)
		}
		ip := Value{T: x.T, W: make([]uint32, n)}
		for i := 0; i < n; i++ {
			v := f32(x.W[i])
			w := float32(math.Trunc(float64(v)))
			fr := v - w
			if math.IsInf(float64(v), 0) {
				fr = float32(math.Copysign(0, float64(v)))
			}
			ip.W[i] = fbits(w)
			out.W[i] = fbits(fr)
		}
		m.store(r, ip, e.Pos)
		return out
	}
	it := vecOf(tInt, n)
	if !sameType(r.T, it) {
		m.invalidf(e.Pos, "frexp: out argument has type %s, expected %s", r.T, it)
	}
	ex := Value{T: it, W: make([]uint32, n)}
	for i := 0; i < n; i++ {
		fr, ee := math.Frexp(float64(f32(x.W[i])))
		out.W[i] = fbits(float32(fr))
		ex.W[i] = uint32(int32(ee))
	}
	m.store(r, ex, e.Pos)
	return out
}

func (m *machine) atomic(e *CallExpr) Value {
	want := 2
	if e.Name == "atomicCompSwap" {
		want = 3
	}
	m.nargs(e, want)
	r := m.lvalue(e.Args[0])
	if r.T != tInt && r.T != tUint {
		m.invalidf(e.Pos, "%s: memory argument has type %s, expected int or uint", e.Name, r.T)
	}
	if r.blk == nil && !(r.cell != nil && r.cell.Shared) {
		m.invalidf(e.Pos, "%s: memory argument must be a buffer or shared variable", e.Name)
	}
	if r.swz != nil {
		m.invalidf(e.Pos, "%s: memory argument must not be a swizzle", e.Name)
	}
	if r.blk != nil && r.blk.uniform {
		m.invalidf(e.Pos, "%s on a uniform block member", e.Name)
	}
	m.checkWritable(r, e.Pos)
	vals := make([]Value, want-1)
	for i := range vals {
		vals[i] = m.convertImplicit(m.eval(e.Args[i+1]), r.T, e.Args[i+1].exprPos(), e.Name+" operand")
	}
	old := m.load(r, e.Pos)
	o, d := old.W[0], vals[len(vals)-1].W[0]
	var nv uint32
	switch e.Name {
	case "atomicAdd":
		nv = o + d
	case "atomicMin":
		nv = minmaxWord(true, o, d, r.T.Kind)
	case "atomicMax":
		nv = minmaxWord(false, o, d, r.T.Kind)
	case "atomicAnd":
		nv = o & d
	case "atomicOr":
		nv = o | d
	case "atomicXor":
		nv = o ^ d
	case "atomicExchange":
		nv = d
	case "atomicCompSwap":
		if o == vals[0].W[0] {
			nv = d
		} else {
			nv = o
		}
	}
	m.store(r, scalarV(r.T, nv), e.Pos)
	return old
}

// ---- half floats -----------------------------------------------------------

func f16ToF32(h uint16) float32 {
	sign := uint32(h>>15) << 31
	exp := uint32(h>>10) & 0x1F
	man := uint32(h) & 0x3FF
	switch {
	case exp == 0:
		if man == 0 {
			return f32(sign)
		}
		// subnormal
		f := float32(man) / (1 << 24)
		if sign != 0 {
			f = -f
		}
		return f
	case exp == 31:
		if man == 0 {
			return f32(sign | 0x7F800000)
		}
		return f32(sign | 0x7FC00000 | man<<13)
	}
	return f32(sign | (exp+112)<<23 | man<<13)
}

// f32ToF16 converts with round-to-nearest-even, overflow to infinity.
func f32ToF16(f float32) uint16 {
	b := fbits(f)
	sign := uint16(b>>16) & 0x8000
	exp := int(b>>23) & 0xFF
	man := b & 0x7FFFFF
	switch {
	case exp == 255:
		if man != 0 {
			return sign | 0x7E00
		}
		return sign | 0x7C00
	case exp == 0:
		return sign // float32 subnormals are far below half range
	}
	e := exp - 127 + 15
	if e >= 31 {
		return sign | 0x7C00
	}
	if e <= 0 {
		if e < -10 {
			return sign
		}
		man |= 0x800000
		shift := uint(14 - e)
		half := man >> shift
		rem := man & ((1 << shift) - 1)
		mid := uint32(1) << (shift - 1)
		if rem > mid || (rem == mid && half&1 == 1) {
			half++
		}
		return sign | uint16(half)
	}
	half := uint32(e)<<10 | man>>13
	rem := man & 0x1FFF
	if rem > 0x1000 || (rem == 0x1000 && half&1 == 1) {
		half++ // may carry into the exponent, which is the right result (up to infinity)
	}
	return sign | uint16(half)
}
