package glslx

import (
	"fmt"
	"os"
	"testing"

	"github.com/gogpu/naga"
	"github.com/gogpu/naga/glsl"
)

// compileWGSL runs real naga: WGSL -> IR -> GLSL for one entry point.
func compileWGSL(wgsl, entry string, ver glsl.Version) (string, error) {
	ast, err := naga.Parse(wgsl)
	if err != nil {
		return "", fmt.Errorf("parse: %w", err)
	}
	m, err := naga.LowerWithSource(ast, wgsl)
	if err != nil {
		return "", fmt.Errorf("lower: %w", err)
	}
	s, _, err := glsl.Compile(m, glsl.Options{LangVersion: ver, EntryPoint: entry})
	if err != nil {
		return "", fmt.Errorf("glsl: %w", err)
	}
	return s, nil
}

// TestDump is a development aid: GLSLX_DUMP=file.wgsl [GLSLX_VER=es310|430|450] go test -run TestDump -v
func TestDump(t *testing.T) {
	f := os.Getenv("GLSLX_DUMP")
	if f == "" {
		t.Skip("GLSLX_DUMP not set")
	}
	b, err := os.ReadFile(f)
	if err != nil {
		t.Fatal(err)
	}
	ver := glsl.Version430
	switch os.Getenv("GLSLX_VER") {
	case "es310":
		ver = glsl.VersionES310
	case "es320":
		ver = glsl.VersionES320
	case "450":
		ver = glsl.Version450
	case "460":
		ver = glsl.Version460
	}
	entry := os.Getenv("GLSLX_ENTRY")
	if entry == "" {
		entry = "main"
	}
	s, err := compileWGSL(string(b), entry, ver)
	if err != nil {
		t.Fatal(err)
	}
	fmt.Println(s)
}
