package glslx

import (
	"fmt"
	"strconv"
	"strings"
)

// Pos is a source position (1-based line and column).
type Pos struct {
	Line, Col int
}

func (p Pos) String() string { return fmt.Sprintf("%d:%d", p.Line, p.Col) }

type tokKind int

const (
	tokEOF tokKind = iota
	tokIdent
	tokInt   // integer literal; val holds the 32-bit pattern, unsigned tells the suffix
	tokFloat // float literal; fval holds the value rounded to binary32
	tokPunct // operator / punctuation; text holds it
)

type token struct {
	kind     tokKind
	text     string
	pos      Pos
	val      uint32
	unsigned bool
	fval     float32
}

// Directive is a recorded preprocessor line (#version, #extension, ...).
type Directive struct {
	Pos  Pos
	Name string // "version", "extension", ...
	Text string // rest of the line, trimmed
}

// syntaxError is a parse failure or an "outside the subset" report raised while
// reading the text; it carries the position.
type syntaxError struct {
	pos         Pos
	msg         string
	unsupported bool
}

func (e *syntaxError) Error() string {
	if e.unsupported {
		return fmt.Sprintf("unsupported: %s at %s", e.msg, e.pos)
	}
	return fmt.Sprintf("parse error: %s at %s", e.msg, e.pos)
}

type lexer struct {
	src        string
	i          int
	line, col  int
	toks       []token
	directives []Directive
	lineStart  bool // only whitespace seen so far on this line
}

var puncts3 = []string{"<<=", ">>="}
var puncts2 = []string{"++", "--", "<<", ">>", "<=", ">=", "==", "!=", "&&", "||", "^^", "+=", "-=", "*=", "/=", "%=", "&=", "|=", "^="}

func lexAll(src string) ([]token, []Directive, error) {
	lx := &lexer{src: src, line: 1, col: 1, lineStart: true}
	for {
		t, err := lx.next()
		if err != nil {
			return nil, nil, err
		}
		lx.toks = append(lx.toks, t)
		if t.kind == tokEOF {
			break
		}
	}
	return lx.toks, lx.directives, nil
}

func (lx *lexer) adv(n int) {
	for k := 0; k < n && lx.i < len(lx.src); k++ {
		if lx.src[lx.i] == '\n' {
			lx.line++
			lx.col = 1
			lx.lineStart = true
		} else {
			lx.col++
		}
		lx.i++
	}
}

func isIdentStart(c byte) bool {
	return c == '_' || (c >= 'a' && c <= 'z') || (c >= 'A' && c <= 'Z')
}
func isDigit(c byte) bool { return c >= '0' && c <= '9' }
func isHex(c byte) bool {
	return isDigit(c) || (c >= 'a' && c <= 'f') || (c >= 'A' && c <= 'F')
}

func (lx *lexer) next() (token, error) {
	// skip whitespace and comments
	for lx.i < len(lx.src) {
		c := lx.src[lx.i]
		switch {
		case c == ' ' || c == '\t' || c == '\r' || c == '\n' || c == '\f' || c == '\v':
			lx.adv(1)
		case c == '\\' && lx.i+1 < len(lx.src) && (lx.src[lx.i+1] == '\n' || lx.src[lx.i+1] == '\r'):
			ls := lx.lineStart
			lx.adv(2)
			lx.lineStart = ls
		case c == '/' && lx.i+1 < len(lx.src) && lx.src[lx.i+1] == '/':
			for lx.i < len(lx.src) && lx.src[lx.i] != '\n' {
				lx.adv(1)
			}
		case c == '/' && lx.i+1 < len(lx.src) && lx.src[lx.i+1] == '*':
			p := Pos{lx.line, lx.col}
			end := strings.Index(lx.src[lx.i+2:], "*/")
			if end < 0 {
				return token{}, &syntaxError{pos: p, msg: "unterminated comment"}
			}
			lx.adv(end + 4)
		default:
			goto tok
		}
	}
	return token{kind: tokEOF, pos: Pos{lx.line, lx.col}}, nil
tok:
	p := Pos{lx.line, lx.col}
	c := lx.src[lx.i]
	if c == '#' {
		if !lx.lineStart {
			return token{}, &syntaxError{pos: p, msg: "'#' not at the start of a line"}
		}
		j := lx.i
		for j < len(lx.src) && lx.src[j] != '\n' {
			j++
		}
		line := strings.TrimSpace(lx.src[lx.i+1 : j])
		name := line
		rest := ""
		if k := strings.IndexAny(line, " \t"); k >= 0 {
			name, rest = line[:k], strings.TrimSpace(line[k:])
		}
		lx.directives = append(lx.directives, Directive{Pos: p, Name: name, Text: rest})
		lx.adv(j - lx.i)
		switch name {
		case "version", "extension", "pragma", "line", "":
		default:
			return token{}, &syntaxError{pos: p, msg: "preprocessor directive #" + name, unsupported: true}
		}
		return lx.next()
	}
	lx.lineStart = false
	if isIdentStart(c) {
		j := lx.i
		for j < len(lx.src) && (isIdentStart(lx.src[j]) || isDigit(lx.src[j])) {
			j++
		}
		t := token{kind: tokIdent, text: lx.src[lx.i:j], pos: p}
		lx.adv(j - lx.i)
		return t, nil
	}
	if isDigit(c) || (c == '.' && lx.i+1 < len(lx.src) && isDigit(lx.src[lx.i+1])) {
		return lx.number(p)
	}
	for _, ps := range puncts3 {
		if strings.HasPrefix(lx.src[lx.i:], ps) {
			lx.adv(3)
			return token{kind: tokPunct, text: ps, pos: p}, nil
		}
	}
	for _, ps := range puncts2 {
		if strings.HasPrefix(lx.src[lx.i:], ps) {
			lx.adv(2)
			return token{kind: tokPunct, text: ps, pos: p}, nil
		}
	}
	if strings.IndexByte("+-*/%<>=!&|^~?:;,.(){}[]", c) >= 0 {
		lx.adv(1)
		return token{kind: tokPunct, text: string(c), pos: p}, nil
	}
	return token{}, &syntaxError{pos: p, msg: fmt.Sprintf("unexpected character %q", c)}
}

func (lx *lexer) number(p Pos) (token, error) {
	s := lx.src
	i := lx.i
	j := i
	isFloat := false
	if s[j] == '0' && j+1 < len(s) && (s[j+1] == 'x' || s[j+1] == 'X') {
		j += 2
		k := j
		for j < len(s) && isHex(s[j]) {
			j++
		}
		if j == k {
			return token{}, &syntaxError{pos: p, msg: "malformed hexadecimal literal"}
		}
	} else {
		for j < len(s) && isDigit(s[j]) {
			j++
		}
		if j < len(s) && s[j] == '.' {
			isFloat = true
			j++
			for j < len(s) && isDigit(s[j]) {
				j++
			}
		}
		if j < len(s) && (s[j] == 'e' || s[j] == 'E') {
			k := j + 1
			if k < len(s) && (s[k] == '+' || s[k] == '-') {
				k++
			}
			if k < len(s) && isDigit(s[k]) {
				isFloat = true
				for k < len(s) && isDigit(s[k]) {
					k++
				}
				j = k
			}
		}
	}
	body := s[i:j]
	// suffix
	k := j
	for k < len(s) && (isIdentStart(s[k]) || isDigit(s[k])) {
		k++
	}
	suffix := s[j:k]
	lx.adv(k - i)
	if isFloat {
		switch suffix {
		case "", "f", "F":
		case "lf", "LF":
			return token{}, &syntaxError{pos: p, msg: "double-precision literal " + body + suffix, unsupported: true}
		default:
			return token{}, &syntaxError{pos: p, msg: "malformed float literal " + body + suffix}
		}
		f, err := strconv.ParseFloat(body, 32)
		if err != nil {
			// out of range literals: ParseFloat returns ±Inf with ErrRange; GLSL 4.x
			// says an overflowing literal is +infinity.
			if ne, ok := err.(*strconv.NumError); !ok || ne.Err != strconv.ErrRange {
				return token{}, &syntaxError{pos: p, msg: "malformed float literal " + body}
			}
		}
		return token{kind: tokFloat, text: body + suffix, pos: p, fval: float32(f)}, nil
	}
	uns := false
	switch suffix {
	case "":
	case "u", "U":
		uns = true
	case "l", "L", "ul", "uL", "UL", "Ul", "lu", "LU":
		return token{}, &syntaxError{pos: p, msg: "64-bit integer literal " + body + suffix, unsupported: true}
	case "f", "F":
		// "1f" is not valid GLSL before 4.x? It is never valid: a float literal needs '.' or exponent.
		return token{}, &syntaxError{pos: p, msg: "malformed literal " + body + suffix}
	default:
		return token{}, &syntaxError{pos: p, msg: "malformed integer literal " + body + suffix}
	}
	var v uint64
	var err error
	switch {
	case strings.HasPrefix(body, "0x") || strings.HasPrefix(body, "0X"):
		v, err = strconv.ParseUint(body[2:], 16, 64)
	case len(body) > 1 && body[0] == '0':
		v, err = strconv.ParseUint(body[1:], 8, 64)
	default:
		v, err = strconv.ParseUint(body, 10, 64)
	}
	if err != nil || v > 0xFFFFFFFF {
		return token{}, &syntaxError{pos: p, msg: "integer literal " + body + " needs more than 32 bits"}
	}
	return token{kind: tokInt, text: body + suffix, pos: p, val: uint32(v), unsigned: uns}, nil
}
