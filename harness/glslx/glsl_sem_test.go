package glslx

import (
	"strings"
	"testing"
)

const outI = "layout(std430) buffer O { int _group_0_binding_0_cs[16]; };\n"
const outF = "layout(std430) buffer OF { float _group_0_binding_1_cs[16]; };\n"

func runInts(t *testing.T, head, src string, want ...any) {
	t.Helper()
	b := bufMap{"0.0": zeros(16), "0.1": zeros(16)}
	o := runGLSL(head+outI+outF+src, b)
	if !o.OK() {
		t.Fatalf("trap=%q skip=%q", o.Trap, o.Skip)
	}
	expectWords(t, "ints", b["0.0"], want...)
}

func TestGLSL_ParameterCopySemantics(t *testing.T) {
	// in/out/inout are copy-in / copy-out: aliasing the argument inside the callee
	// must not be visible until the function returns.
	runInts(t, hdr, `
int g = 1;
int f(inout int p, out int q, int r) {
  p = p + 10;          // g still 1 during the call
  q = g;               // reads the global: 1, not 11
  r = 99;              // plain in parameter: a private copy
  return g * 100;      // 100
}
void swapInto(inout ivec4 v) { v.xy = v.yx; }
void main() {
  int q; int r = 5;
  int res = f(g, q, r);
  _group_0_binding_0_cs[0] = g;     // 11 after copy-out
  _group_0_binding_0_cs[1] = q;     // 1
  _group_0_binding_0_cs[2] = r;     // 5
  _group_0_binding_0_cs[3] = res;   // 100
  ivec4 v = ivec4(1, 2, 3, 4);
  swapInto(v);
  _group_0_binding_0_cs[4] = v.x * 1000 + v.y * 100 + v.z * 10 + v.w;   // 2134
  // out argument that is a swizzle and a buffer element
  f(_group_0_binding_0_cs[5], v.z, 0);   // [5]: 0 -> 10 ; v.z = g = 11
  _group_0_binding_0_cs[6] = v.z;
}`, 11, 1, 5, 100, 2134, 10, 11)
}

func TestGLSL_SwizzlesAndConstructors(t *testing.T) {
	runInts(t, hdr, `
struct S { ivec2 a; int b[2]; };
void main() {
  ivec4 v = ivec4(1, 2, 3, 4);
  v.xz = ivec2(10, 30);             // (10, 2, 30, 4)
  v.wy += ivec2(1, 1);              // (10, 3, 30, 5)
  v.zyx.x = 7;                      // writes v.z
  _group_0_binding_0_cs[0] = v.x; _group_0_binding_0_cs[1] = v.y; _group_0_binding_0_cs[2] = v.z; _group_0_binding_0_cs[3] = v.w;
  ivec3 w = v.wwx;                  // (5, 5, 10)
  _group_0_binding_0_cs[4] = w.r + w.g + w.b;      // 20
  int arr[4] = int[4](1, 2, 3, 4);
  int two[2][3] = int[2][3](int[3](1, 2, 3), int[3](4, 5, 6));
  _group_0_binding_0_cs[5] = arr.length() * 10 + two.length() + two[1].length() * 100 + two[1][2];   // 40 + 2 + 300 + 6
  S s = S(ivec2(8, 9), int[2](20, 21));
  S t = s; t.b[1] = -1;
  _group_0_binding_0_cs[6] = s.b[1] + t.b[1] + s.a.y;     // 21 - 1 + 9 = 29
  _group_0_binding_0_cs[7] = (s == t) ? 1 : 0;            // 0
  t.b[1] = 21;
  _group_0_binding_0_cs[8] = (s == t) ? 1 : 0;            // 1
  mat2 m = mat2(2.0);               // diagonal
  mat3 m3 = mat3(m);                // upper-left copy, rest identity
  mat2x3 c = mat2x3(1.0, 2.0, 3.0, 4.0, 5.0, 6.0);   // columns (1,2,3), (4,5,6)
  _group_0_binding_0_cs[9] = int(m[0][0] + m[0][1] + m3[1][1] * 10.0 + m3[2][2] * 100.0 + m3[0][2]);   // 2 + 0 + 20 + 100 + 0
  _group_0_binding_0_cs[10] = int(c[1].y) * 10 + int(c[0][2]);    // 53
  vec4 f = vec4(vec2(1.5, 2.5), 3.5, 4.5);
  ivec3 tr = ivec3(f);              // (1, 2, 3): truncation, extra component dropped
  _group_0_binding_0_cs[11] = tr.x * 100 + tr.y * 10 + tr.z;      // 123
  bvec2 bb = bvec2(ivec2(0, -3));   // (false, true)
  _group_0_binding_0_cs[12] = int(bb.x) + int(bb.y) * 2 + int(uint(float(true)));   // 0 + 2 + 1
  _group_0_binding_0_cs[13] = int(uvec2(0xFFFFFFFFu, 7u).x);     // -1 (bits preserved)
  _group_0_binding_0_cs[14] = ( + v.x * v.x + v.y * v.y);        // unary plus: 100 + 9
}`, 10, 3, 7, 5, 20, 348, 29, 0, 1, 122, 53, 123, 3, -1, 109)
}

func TestGLSL_ControlFlowForms(t *testing.T) {
	runInts(t, hdr, `
void main() {
  // switch with fall-through and default in the middle
  int acc = 0;
  for (int i = 0; i < 5; i++) {
    switch (i) {
      case 0: acc += 1;             // falls through into case 1
      case 1: acc += 10; break;
      default: acc += 100;          // falls through into case 3
      case 3: acc += 1000; break;
    }
  }
  // i=0: 11, i=1: 10, i=2: 1100, i=3: 1000, i=4: 1100  => 3221
  _group_0_binding_0_cs[0] = acc;
  // do-while with continue: the condition is still evaluated after continue
  int n = 0; int k = 0;
  do { n++; if (n == 2) { continue; } k += n; } while (n < 4);    // k = 1+3+4 = 8
  _group_0_binding_0_cs[1] = k;
  // naga's continue forwarding: do { ... break; } while(false) inside a loop
  int s = 0; int j = 0;
  while (true) {
    if (j >= 4) { break; }
    j++;
    bool should_continue = false;
    do {
      if (j == 2) { should_continue = true; break; }
      s += j;
    } while (false);
    if (should_continue) { continue; }
    s += 100;
  }
  _group_0_binding_0_cs[2] = s;      // j=1: 101, j=2: skip, j=3: 103, j=4: 104 => 308
  // for without braces, comma-free, nested scopes shadowing
  int x = 1;
  { int x = 2; { int x = x + 5; _group_0_binding_0_cs[3] = x; } _group_0_binding_0_cs[4] = x; }   // 7, 2
  _group_0_binding_0_cs[5] = x;      // 1
  int total = 0;
  for (int i = 0; i < 3; ++i) for (int q = 0; q < 2; ++q) total += i * q;    // 0+0+0+1+0+2 = 3
  _group_0_binding_0_cs[6] = total;
  int y = 5;
  int z = y++ + ++y;                 // 5 + 7 = 12, y = 7
  _group_0_binding_0_cs[7] = z * 10 + y;   // 127
  _group_0_binding_0_cs[8] = 7 - 2 - 1 + 6 / 2 * 3 % 4 << 1 & 0xF | 0x10 ^ 0x11;
  // precedence: ((((7-2-1) + ((6/2*3)%4)) << 1) & 0xF) | (0x10 ^ 0x11) ; 6/2*3 = 9, 9%4 = 1, 4+1 = 5, 5<<1 = 10, 10&15 = 10, 0x10^0x11 = 1, 10|1 = 11
  _group_0_binding_0_cs[9] = (1 < 2 == true) ? 3 : 4;      // relational binds tighter than equality: 3
}`, 3221, 8, 308, 7, 2, 1, 3, 127, 11, 3)
}

func TestGLSL_ImplicitConversions(t *testing.T) {
	body := `
void main() {
  uint u = 3u;
  float f = 2;                 // int -> float
  _group_0_binding_0_cs[0] = int(f * 1.5);
  uint w = u + 1;              // int -> uint
  _group_0_binding_0_cs[1] = int(w);
  _group_0_binding_1_cs[0] = u;               // uint -> float
  _group_0_binding_1_cs[1] = max(f, 1);       // int -> float in a built-in call
  _group_0_binding_1_cs[2] = sqrt(16);        // 4
}`
	b := bufMap{"0.0": zeros(16), "0.1": zeros(16)}
	o := runGLSL(hdr+outI+outF+body, b)
	if !o.OK() {
		t.Fatalf("desktop: %+v", o)
	}
	expectWords(t, "i", b["0.0"], 3, 4)
	expectWords(t, "f", b["0.1"], 3.0, 2.0, 4.0)
	// ESSL has no implicit conversions: every one of these is a compile error
	o = runGLSL(hdrES+outI+outF+body, bufMap{"0.0": zeros(16), "0.1": zeros(16)})
	if !strings.Contains(o.Skip, "invalid GLSL") || !strings.Contains(o.Skip, "cannot convert int to float") {
		t.Errorf("es: %+v", o)
	}
	// never implicit: uint -> int, float -> int, comparison of int with uint in ES
	for _, s := range []string{"int i = 3u;", "int i = 1.0;", "uint u = 1u; int i = 2; i = i + u;", "bool b = 1;", "float f = true;"} {
		o = runGLSL(hdr+outI+"void main() { "+s+" }", bufMap{"0.0": zeros(16)})
		if !strings.Contains(o.Skip, "invalid GLSL") {
			t.Errorf("%q: want invalid GLSL, got %+v", s, o)
		}
	}
}

func TestGLSL_InvalidPrograms(t *testing.T) {
	cases := []struct{ body, want string }{
		{"const int c = 1; void main() { c = 2; }", "assignment to const variable c"},
		{"layout(std140) uniform U { int x; } u; void main() { u.x = 2; }", "assignment to uniform block U"},
		{"layout(std430) readonly buffer R { int x; } r; void main() { r.x = 2; }", "assignment to readonly buffer block R"},
		{"void main() { gl_LocalInvocationID.x = 2u; }", "assignment to built-in variable"},
		{"void main() { ivec2 v = ivec2(1); v.xx = ivec2(2); }", "repeated components"},
		{"void main() { int x; int x; }", "redeclaration of x"},
		{"void main() { int y = nope; }", "undeclared identifier nope"},
		{"void main() { int y = nope(1); }", "undeclared function nope"},
		{"void main() { vec3 v = vec3(1.0, 2.0); }", "not enough components"},
		{"void main() { vec2 v = vec2(1.0).xyz; }", "selects component 2"},
		{"void main() { bvec2 b = bvec2(true); int x = b ? 1 : 2; }", "condition of ?: must be a scalar bool"},
		{"void main() { if (1) { } }", "condition must be a scalar bool"},
		{"void main() { vec2 a = vec2(1.0); vec3 b = vec3(1.0); vec3 c = a + b; }", "shapes vec2 and vec3 do not match"},
		{"void main() { mat2 a = mat2(1.0); vec3 b = vec3(1.0); vec3 c = a * b; }", "dimension mismatch"},
		{"shared int s = 1; void main() { }", "shared variable s with an initialiser"},
		{"void main() { float f = fma(1.0, 2.0, 3.0) + lessThan(1.0, 2.0); }", "no overload of lessThan"},
	}
	for _, c := range cases {
		o := runGLSL(hdr+c.body, bufMap{})
		if !strings.Contains(o.Skip, "invalid GLSL") || !strings.Contains(o.Skip, c.want) {
			t.Errorf("%q: want invalid GLSL ... %q, got trap=%q skip=%q", c.body, c.want, o.Trap, o.Skip)
		}
	}
	// fma needs ES 3.20
	o := runGLSL(hdrES+outF+"void main() { _group_0_binding_1_cs[0] = fma(1.0, 2.0, 3.0); }", bufMap{"0.1": zeros(16)})
	if !strings.Contains(o.Skip, "fma is not available") {
		t.Errorf("fma on ES 3.10: %+v", o)
	}
	// mediump changes the arithmetic: refuse rather than compute in 32 bits
	o = runGLSL("#version 310 es\nprecision mediump float;\nlayout(local_size_x = 1) in;\nvoid main() { }", bufMap{})
	if !strings.Contains(o.Skip, "precision mediump float") {
		t.Errorf("mediump: %+v", o)
	}
}

func TestDeclsAndRefs(t *testing.T) {
	src := hdr + `struct S { int a; vec2 b; };
const int K = 3;
int g = K;
layout(std430) buffer Blk { S _group_0_binding_0_cs[]; };
layout(std140) uniform UB { vec4 col; } ub;
int helper(int p, inout S s) {
    int g = p;
    {
        int p = g + K;
        s.a = p;
    }
    for (int i = 0; i < p; i++) { int j = i; g += j; }
    return g;
}
void main() {
    S loc = S(1, vec2(0.0));
    int r = helper(g, loc);
    _group_0_binding_0_cs[0] = loc;
    float x = ub.col.x + float(r) + sin(1.0);
}
`
	u, err := Parse(src)
	if err != nil {
		t.Fatal(err)
	}
	if p := u.Problems(); len(p) != 0 {
		t.Errorf("problems: %v", p)
	}
	type dk struct {
		kind, name string
		scope      int
	}
	var got []dk
	for _, d := range u.Decls() {
		got = append(got, dk{d.Kind, d.Name, d.Scope})
	}
	want := []dk{
		{"struct", "S", 0}, {"struct member", "a", 1}, {"struct member", "b", 1},
		{"global", "K", 0}, {"global", "g", 0},
		{"block", "Blk", 0}, {"block member", "_group_0_binding_0_cs", 0},
		{"block", "UB", 0}, {"block member", "col", 1}, {"block instance", "ub", 0},
		{"function", "helper", 0}, {"parameter", "p", 1}, {"parameter", "s", 1},
		{"local", "g", 1}, {"local", "p", 2}, {"local", "i", 2}, {"local", "j", 2},
		{"function", "main", 0}, {"local", "loc", 1}, {"local", "r", 1}, {"local", "x", 1},
	}
	if len(got) != len(want) {
		t.Fatalf("decls: got %d %v, want %d", len(got), got, len(want))
	}
	for i := range want {
		if got[i] != want[i] {
			t.Errorf("decl %d: got %v, want %v", i, got[i], want[i])
		}
	}
	decls := u.Decls()
	// resolution: name@line -> (kind, scope) of the declaration it resolves to
	find := func(name string, line int, nth int) Ref {
		n := 0
		for _, r := range u.Refs() {
			if r.Name == name && r.Line == line && r.Kind != "type" {
				if n == nth {
					return r
				}
				n++
			}
		}
		t.Fatalf("ref %s at line %d (#%d) not found", name, line, nth)
		return Ref{}
	}
	check := func(name string, line, nth int, wantKind string, wantScope int) {
		t.Helper()
		r := find(name, line, nth)
		if r.Decl < 0 {
			t.Errorf("%s@%d: unresolved (builtin=%v)", name, line, r.Builtin)
			return
		}
		d := decls[r.Decl]
		if d.Kind != wantKind || d.Scope != wantScope || d.Name != name {
			t.Errorf("%s@%d: resolves to %s %s scope %d, want %s scope %d", name, line, d.Kind, d.Name, d.Scope, wantKind, wantScope)
		}
	}
	// line numbers: hdr is 2 lines, `struct S` is line 3
	check("K", 5, 0, "global", 0)    // int g = K;
	check("p", 9, 0, "parameter", 1) // int g = p;
	check("g", 11, 0, "local", 1)    // int p = g + K;  -> the local g of helper
	check("p", 12, 0, "local", 2)    // s.a = p;        -> the inner p
	check("s", 12, 0, "parameter", 1)
	check("p", 14, 0, "parameter", 1) // i < p  (inner p is out of scope again)
	check("g", 14, 0, "local", 1)
	check("g", 15, 0, "local", 1)  // return g
	check("g", 19, 0, "global", 0) // helper(g, loc) in main
	check("helper", 19, 0, "function", 0)
	check("_group_0_binding_0_cs", 20, 0, "block member", 0)
	check("ub", 21, 0, "block instance", 0)
	if r := find("sin", 21, 0); !r.Builtin || r.Decl != -1 || r.Kind != "call" {
		t.Errorf("sin: %+v", r)
	}
	// the struct constructor and the type uses resolve to the struct declaration
	n := 0
	for _, r := range u.Refs() {
		if r.Kind == "type" && r.Name == "S" {
			n++
			if r.Decl < 0 || decls[r.Decl].Kind != "struct" {
				t.Errorf("type ref S at %d:%d unresolved", r.Line, r.Col)
			}
		}
	}
	if n != 4 { // block member type, parameter type, local type, constructor
		t.Errorf("type refs to S: %d", n)
	}
	// problems are reported
	u2, _ := Parse(hdr + "int a;\nfloat a;\nvoid main() { int b; int b; for (int i = 0; i < 2; i++) { int i; } c = 1; }")
	if ps := strings.Join(u2.Problems(), "\n"); strings.Count(ps, "redeclaration") != 3 || !strings.Contains(ps, "c resolves to no declaration") {
		t.Errorf("problems:\n%s", ps)
	}
}
