package glslx

import (
	"math"
)

func (m *machine) eval(e Expr) Value {
	m.exprDepth++
	if m.exprDepth > maxExprDepth {
		m.unsupportedf(e.exprPos(), "expression nesting deeper than %d", maxExprDepth)
	}
	defer func() { m.exprDepth-- }()
	switch e := e.(type) {
	case *IntLit:
		if e.Unsigned {
			return uintV(e.Val)
		}
		return scalarV(tInt, e.Val)
	case *FloatLit:
		return floatV(e.Val)
	case *BoolLit:
		return boolV(e.Val)
	case *Ident, *IndexExpr, *FieldExpr:
		r, v, isRef := m.place(e)
		if isRef {
			return m.load(r, e.exprPos())
		}
		return v
	case *MethodExpr:
		return m.lengthOf(e)
	case *BinaryExpr:
		switch e.Op {
		case "&&", "||":
			l := m.eval(e.L)
			if l.T != tBool {
				m.invalidf(e.Pos, "operator %s needs scalar bool operands, got %s", e.Op, l.T)
			}
			if (e.Op == "&&") != (l.W[0] != 0) {
				return l // short circuit: && with false, || with true
			}
			r := m.eval(e.R)
			if r.T != tBool {
				m.invalidf(e.Pos, "operator %s needs scalar bool operands, got %s", e.Op, r.T)
			}
			return r
		}
		l := m.eval(e.L)
		r := m.eval(e.R)
		return m.binop(e.Op, l, r, e.Pos)
	case *UnaryExpr:
		if e.Op == "++" || e.Op == "--" {
			r := m.lvalue(e.X)
			old := m.load(r, e.Pos)
			nv := m.incdec(old, e.Op, e.Pos)
			m.store(r, nv, e.Pos)
			return nv
		}
		return m.unop(e.Op, m.eval(e.X), e.Pos)
	case *PostfixExpr:
		r := m.lvalue(e.X)
		old := m.load(r, e.Pos)
		m.store(r, m.incdec(old, e.Op, e.Pos), e.Pos)
		return old
	case *AssignExpr:
		r := m.lvalue(e.L)
		m.checkWritable(r, e.Pos)
		if r.T.Kind == KArray && r.T.N < 0 {
			m.invalidf(e.Pos, "assignment to an unsized array")
		}
		rhs := m.eval(e.R)
		if e.Op != "=" {
			cur := m.load(r, e.Pos)
			rhs = m.binop(e.Op[:len(e.Op)-1], cur, rhs, e.Pos)
			// the result must have the type of the left operand without conversion of it
			if !sameType(rhs.T, r.T) {
				m.invalidf(e.Pos, "operator %s: result type %s does not match left operand type %s", e.Op, rhs.T, r.T)
			}
		}
		rhs = m.convertImplicit(rhs, r.T, e.Pos, "assignment")
		m.store(r, rhs, e.Pos)
		return rhs
	case *CondExpr:
		c := m.eval(e.Cond)
		if c.T != tBool {
			m.invalidf(e.Pos, "condition of ?: must be a scalar bool, got %s", c.T)
		}
		// only the selected operand is evaluated
		if c.W[0] != 0 {
			return m.eval(e.A)
		}
		return m.eval(e.B)
	case *CommaExpr:
		m.eval(e.L)
		return m.eval(e.R)
	case *CallExpr:
		return m.call(e)
	}
	m.skipf("internal: unknown expression %T", e)
	return Value{}
}

// lvalue evaluates e to a reference; e must denote an object.
func (m *machine) lvalue(e Expr) lval {
	r, _, isRef := m.place(e)
	if !isRef {
		m.invalidf(e.exprPos(), "expression is not an l-value")
	}
	return r
}

func swizzleIndex(c byte) (set, idx int) {
	switch c {
	case 'x':
		return 0, 0
	case 'y':
		return 0, 1
	case 'z':
		return 0, 2
	case 'w':
		return 0, 3
	case 'r':
		return 1, 0
	case 'g':
		return 1, 1
	case 'b':
		return 1, 2
	case 'a':
		return 1, 3
	case 's':
		return 2, 0
	case 't':
		return 2, 1
	case 'p':
		return 2, 2
	case 'q':
		return 2, 3
	}
	return -1, -1
}

func (m *machine) parseSwizzle(name string, n int, pos Pos) []int {
	if len(name) == 0 || len(name) > 4 {
		m.invalidf(pos, "invalid swizzle .%s", name)
	}
	out := make([]int, len(name))
	set0 := -1
	for i := 0; i < len(name); i++ {
		set, idx := swizzleIndex(name[i])
		if set < 0 {
			m.invalidf(pos, "invalid swizzle .%s", name)
		}
		if set0 >= 0 && set != set0 {
			m.invalidf(pos, "swizzle .%s mixes component name sets", name)
		}
		set0 = set
		if idx >= n {
			m.invalidf(pos, "swizzle .%s selects component %d of a %d-component vector", name, idx, n)
		}
		out[i] = idx
	}
	return out
}

func (m *machine) indexValue(iv Value, pos Pos) int64 {
	switch iv.T {
	case tInt:
		return int64(int32(iv.W[0]))
	case tUint:
		return int64(iv.W[0])
	}
	m.invalidf(pos, "index must be a scalar integer, got %s", iv.T)
	return 0
}

// place evaluates an expression that may denote an object.  It returns either
// a reference (isRef) or a value.
func (m *machine) place(e Expr) (lval, Value, bool) {
	switch e := e.(type) {
	case *Ident:
		b := m.cur.lookup(e.Name)
		if b == nil {
			if len(e.Name) > 3 && e.Name[:3] == "gl_" {
				m.unsupportedf(e.Pos, "built-in variable %s", e.Name)
			}
			m.invalidf(e.Pos, "undeclared identifier %s", e.Name)
		}
		if why, bad := unsupportedMarker(b.ref.ro); bad {
			m.unsupportedf(e.Pos, "%s", why[len("unsupported: "):])
		}
		return b.ref, Value{}, true
	case *IndexExpr:
		br, bv, isRef := m.place(e.X)
		idx := m.indexValue(m.eval(e.I), e.I.exprPos())
		t := bv.T
		if isRef {
			t = br.T
		}
		var n int
		what := ""
		switch t.Kind {
		case KVec:
			n, what = t.N, "vector"
		case KMat:
			n, what = t.Cols, "matrix"
		case KArray:
			what = "array"
			if isRef {
				n = m.runtimeLen(br, e.Pos)
				if t.N < 0 {
					what = "runtime-sized array"
				}
			} else {
				n = t.N
			}
		default:
			m.invalidf(e.Pos, "indexing a value of type %s", t)
		}
		if idx < 0 || idx >= int64(n) {
			m.trapf(e.Pos, "index %d out of range of %s %s of length %d", idx, what, t, n)
		}
		if isRef {
			return m.index(br, int(idx), e.Pos), Value{}, true
		}
		// r-value indexing
		switch t.Kind {
		case KVec:
			return lval{}, Value{T: t.Elem, W: bv.W[idx : idx+1]}, false
		case KMat:
			return lval{}, Value{T: vecOf(tFloat, t.Rows), W: bv.W[int(idx)*t.Rows : (int(idx)+1)*t.Rows]}, false
		default:
			w := t.Elem.words
			return lval{}, Value{T: t.Elem, W: bv.W[int(idx)*w : (int(idx)+1)*w]}, false
		}
	case *FieldExpr:
		br, bv, isRef := m.place(e.X)
		t := bv.T
		if isRef {
			t = br.T
		}
		switch t.Kind {
		case KStruct:
			for i, f := range t.Fields {
				if f.Name == e.Name {
					if isRef {
						return m.field(br, i), Value{}, true
					}
					return lval{}, Value{T: f.T, W: bv.W[f.woff : f.woff+f.T.words]}, false
				}
			}
			m.invalidf(e.Pos, "%s has no member %s", t.Name, e.Name)
		case KVec:
			sw := m.parseSwizzle(e.Name, t.N, e.Pos)
			if isRef {
				if len(sw) == 1 {
					return m.comp(br, sw[0]), Value{}, true
				}
				out := br
				out.vt = t
				if br.swz != nil {
					// swizzle of a swizzle: compose
					out.vt = br.vt
					for i := range sw {
						sw[i] = br.swz[sw[i]]
					}
				}
				out.swz = sw
				out.T = vecOf(t.Elem, len(sw))
				return out, Value{}, true
			}
			out := Value{T: vecOf(t.Elem, len(sw)), W: make([]uint32, len(sw))}
			for i, s := range sw {
				out.W[i] = bv.W[s]
			}
			return lval{}, out, false
		case KBool, KInt, KUint, KFloat:
			// scalar swizzles (.x on a scalar, .xx ...) are legal since GLSL 4.20
			sw := m.parseSwizzle(e.Name, 1, e.Pos)
			if m.u.ES || m.u.Version < 420 {
				m.invalidf(e.Pos, "swizzle .%s applied to a scalar", e.Name)
			}
			var v Value
			if isRef {
				if len(sw) == 1 {
					return br, Value{}, true
				}
				v = m.load(br, e.Pos)
			} else {
				v = bv
			}
			out := Value{T: vecOf(t, len(sw)), W: make([]uint32, len(sw))}
			for i := range sw {
				out.W[i] = v.W[0]
			}
			return lval{}, out, false
		}
		m.invalidf(e.Pos, "member selection .%s on a value of type %s", e.Name, t)
	}
	return lval{}, m.eval(e), false
}

func (m *machine) lengthOf(e *MethodExpr) Value {
	r, v, isRef := m.place(e.X)
	t := v.T
	if isRef {
		t = r.T
	}
	switch t.Kind {
	case KArray:
		if isRef {
			return intV(int32(m.runtimeLen(r, e.Pos)))
		}
		return intV(int32(t.N))
	case KVec:
		if m.u.ES || m.u.Version < 420 {
			m.invalidf(e.Pos, ".length() on a vector")
		}
		return intV(int32(t.N))
	case KMat:
		if m.u.ES || m.u.Version < 420 {
			m.invalidf(e.Pos, ".length() on a matrix")
		}
		return intV(int32(t.Cols))
	}
	m.invalidf(e.Pos, ".length() on a value of type %s", t)
	return Value{}
}

// ---- conversions -----------------------------------------------------------

func sameShape(a, b *Type) bool {
	if a.isScalar() || b.isScalar() {
		return a.isScalar() && b.isScalar()
	}
	if a.Kind != b.Kind {
		return false
	}
	switch a.Kind {
	case KVec:
		return a.N == b.N
	case KMat:
		return a.Cols == b.Cols && a.Rows == b.Rows
	}
	return false
}

// implicitOK tells whether GLSL 4.x converts base type `from` to `to` implicitly
// (GLSL 4.60 section 4.1.10; ESSL has no implicit conversions).
func (m *machine) implicitOK(from, to Kind) bool {
	if m.u.ES {
		return false
	}
	switch {
	case from == KInt && to == KFloat, from == KUint && to == KFloat:
		return m.u.Version >= 120
	case from == KInt && to == KUint:
		return m.u.Version >= 400
	}
	return false
}

func convWord(w uint32, from, to Kind) uint32 {
	if from == to {
		return w
	}
	switch to {
	case KFloat:
		switch from {
		case KInt:
			return fbits(float32(int32(w)))
		case KUint:
			return fbits(float32(w))
		case KBool:
			if w != 0 {
				return fbits(1)
			}
			return 0
		}
	case KInt, KUint:
		switch from {
		case KInt, KUint:
			return w
		case KBool:
			if w != 0 {
				return 1
			}
			return 0
		}
	case KBool:
		switch from {
		case KInt, KUint:
			if w != 0 {
				return 1
			}
			return 0
		case KFloat:
			if f32(w) != 0 {
				return 1
			}
			return 0
		}
	}
	return w
}

func (m *machine) convertImplicit(v Value, to *Type, pos Pos, what string) Value {
	if sameType(v.T, to) {
		return v
	}
	if sameShape(v.T, to) && m.implicitOK(v.T.base().Kind, to.base().Kind) {
		out := Value{T: to, W: make([]uint32, len(v.W))}
		for i, w := range v.W {
			out.W[i] = convWord(w, v.T.base().Kind, to.base().Kind)
		}
		return out
	}
	m.invalidf(pos, "%s: cannot convert %s to %s", what, v.T, to)
	return v
}

// floatToInt implements the constructor conversions int(float) / uint(float):
// the fractional part is dropped; the result is undefined when the value does
// not fit the target type (GLSL 4.60 section 5.4.1) -> trap.
func (m *machine) floatToInt(w uint32, to Kind, pos Pos) uint32 {
	f := f32(w)
	name := "int"
	if to == KUint {
		name = "uint"
	}
	if f != f {
		m.trapf(pos, "float-to-%s conversion of NaN", name)
	}
	if math.IsInf(float64(f), 0) {
		m.trapf(pos, "float-to-%s conversion of %v", name, f)
	}
	t := math.Trunc(float64(f))
	if to == KUint {
		if f < 0 {
			m.trapf(pos, "float-to-uint conversion of negative value %v", f)
		}
		if t > 4294967295 {
			m.trapf(pos, "float-to-uint conversion of out-of-range value %v", f)
		}
		return uint32(t)
	}
	if t < -2147483648 || t > 2147483647 {
		m.trapf(pos, "float-to-int conversion of out-of-range value %v", f)
	}
	return uint32(int32(t))
}

func (m *machine) explicitWord(w uint32, from, to Kind, pos Pos) uint32 {
	if from == KFloat && (to == KInt || to == KUint) {
		return m.floatToInt(w, to, pos)
	}
	return convWord(w, from, to)
}

// ---- operators -------------------------------------------------------------

func (m *machine) unop(op string, v Value, pos Pos) Value {
	t := v.T
	switch op {
	case "!":
		if t != tBool {
			m.invalidf(pos, "operator ! needs a scalar bool, got %s", t)
		}
		return boolV(v.W[0] == 0)
	case "~":
		if !(t.isScalar() || t.Kind == KVec) || (t.base().Kind != KInt && t.base().Kind != KUint) {
			m.invalidf(pos, "operator ~ needs an integer scalar or vector, got %s", t)
		}
		out := Value{T: t, W: make([]uint32, len(v.W))}
		for i, w := range v.W {
			out.W[i] = ^w
		}
		return out
	case "+", "-":
		if !(t.isScalar() || t.Kind == KVec || t.Kind == KMat) || !t.base().isNumeric() {
			m.invalidf(pos, "unary %s needs a numeric operand, got %s", op, t)
		}
		if op == "+" {
			return v
		}
		out := Value{T: t, W: make([]uint32, len(v.W))}
		for i, w := range v.W {
			if t.base().Kind == KFloat {
				out.W[i] = w ^ 0x80000000
			} else {
				out.W[i] = -w // wraps: -INT_MIN == INT_MIN
			}
		}
		return out
	}
	m.invalidf(pos, "unknown unary operator %s", op)
	return v
}

func (m *machine) incdec(v Value, op string, pos Pos) Value {
	t := v.T
	if !(t.isScalar() || t.Kind == KVec || t.Kind == KMat) || !t.base().isNumeric() {
		m.invalidf(pos, "operator %s needs a numeric operand, got %s", op, t)
	}
	out := Value{T: t, W: make([]uint32, len(v.W))}
	for i, w := range v.W {
		if t.base().Kind == KFloat {
			if op == "++" {
				out.W[i] = fbits(f32(w) + 1)
			} else {
				out.W[i] = fbits(f32(w) - 1)
			}
		} else if op == "++" {
			out.W[i] = w + 1
		} else {
			out.W[i] = w - 1
		}
	}
	return out
}

// unifyBase applies the implicit conversions of binary operators so that both
// operands have the same base type.
func (m *machine) unifyBase(op string, a, b Value, pos Pos) (Value, Value) {
	ka, kb := a.T.base().Kind, b.T.base().Kind
	if ka == kb {
		return a, b
	}
	conv := func(v Value, to Kind) Value {
		var bt *Type
		switch to {
		case KFloat:
			bt = tFloat
		case KUint:
			bt = tUint
		default:
			bt = tInt
		}
		var nt *Type
		switch v.T.Kind {
		case KVec:
			nt = vecOf(bt, v.T.N)
		default:
			nt = bt
		}
		out := Value{T: nt, W: make([]uint32, len(v.W))}
		for i, w := range v.W {
			out.W[i] = convWord(w, v.T.base().Kind, to)
		}
		return out
	}
	if a.T.Kind != KMat && m.implicitOK(ka, kb) {
		return conv(a, kb), b
	}
	if b.T.Kind != KMat && m.implicitOK(kb, ka) {
		return a, conv(b, ka)
	}
	m.invalidf(pos, "operator %s: operand types %s and %s do not match (no implicit conversion)", op, a.T, b.T)
	return a, b
}

func arithShapeOK(t *Type) bool {
	return t.isScalar() || t.Kind == KVec || t.Kind == KMat
}

func (m *machine) binop(op string, a, b Value, pos Pos) Value {
	switch op {
	case "+", "-", "*", "/":
		return m.arith(op, a, b, pos)
	case "%", "&", "|", "^":
		return m.intop(op, a, b, pos)
	case "<<", ">>":
		return m.shift(op, a, b, pos)
	case "<", ">", "<=", ">=":
		if !a.T.isScalar() || !b.T.isScalar() || !a.T.isNumeric() || !b.T.isNumeric() {
			m.invalidf(pos, "operator %s needs scalar numeric operands, got %s and %s", op, a.T, b.T)
		}
		a, b = m.unifyBase(op, a, b, pos)
		return boolV(cmpWords(op, a.W[0], b.W[0], a.T.Kind))
	case "==", "!=":
		if !sameType(a.T, b.T) {
			if arithShapeOK(a.T) && arithShapeOK(b.T) && sameShape(a.T, b.T) && a.T.base().isNumeric() && b.T.base().isNumeric() {
				a, b = m.unifyBase(op, a, b, pos)
			} else {
				m.invalidf(pos, "operator %s: operand types %s and %s do not match", op, a.T, b.T)
			}
		}
		if a.T.hasOpaque() {
			m.invalidf(pos, "operator %s on opaque type %s", op, a.T)
		}
		eq := true
		i := 0
		equalWalk(a.T, a.W, b.W, &i, &eq)
		return boolV(eq == (op == "=="))
	case "^^":
		if a.T != tBool || b.T != tBool {
			m.invalidf(pos, "operator ^^ needs scalar bool operands, got %s and %s", a.T, b.T)
		}
		return boolV((a.W[0] != 0) != (b.W[0] != 0))
	}
	m.invalidf(pos, "unknown binary operator %s", op)
	return a
}

func cmpWords(op string, x, y uint32, k Kind) bool {
	switch k {
	case KFloat:
		fx, fy := f32(x), f32(y)
		switch op {
		case "<":
			return fx < fy
		case ">":
			return fx > fy
		case "<=":
			return fx <= fy
		case ">=":
			return fx >= fy
		case "==":
			return fx == fy
		default:
			return fx != fy
		}
	case KInt:
		ix, iy := int32(x), int32(y)
		switch op {
		case "<":
			return ix < iy
		case ">":
			return ix > iy
		case "<=":
			return ix <= iy
		case ">=":
			return ix >= iy
		case "==":
			return ix == iy
		default:
			return ix != iy
		}
	default:
		switch op {
		case "<":
			return x < y
		case ">":
			return x > y
		case "<=":
			return x <= y
		case ">=":
			return x >= y
		case "==":
			return x == y
		default:
			return x != y
		}
	}
}

func equalWalk(t *Type, a, b []uint32, i *int, eq *bool) {
	switch t.Kind {
	case KArray:
		for k := 0; k < t.N; k++ {
			equalWalk(t.Elem, a, b, i, eq)
		}
	case KStruct:
		for _, f := range t.Fields {
			equalWalk(f.T, a, b, i, eq)
		}
	default:
		n := t.comps()
		k := t.base().Kind
		for c := 0; c < n; c++ {
			if !cmpWords("==", a[*i], b[*i], k) {
				*eq = false
			}
			*i++
		}
	}
}

func (m *machine) arithWord(op string, x, y uint32, k Kind, pos Pos) uint32 {
	switch k {
	case KFloat:
		fx, fy := f32(x), f32(y)
		switch op {
		case "+":
			return fbits(fx + fy)
		case "-":
			return fbits(fx - fy)
		case "*":
			return fbits(fx * fy)
		default:
			return fbits(fx / fy)
		}
	case KInt:
		switch op {
		case "+":
			return x + y
		case "-":
			return x - y
		case "*":
			return x * y
		default:
			if y == 0 {
				m.trapf(pos, "signed integer division by zero (%d / 0)", int32(x))
			}
			if x == 0x80000000 && y == 0xFFFFFFFF {
				m.trapf(pos, "signed integer division overflow (-2147483648 / -1)")
			}
			return uint32(int32(x) / int32(y))
		}
	default:
		switch op {
		case "+":
			return x + y
		case "-":
			return x - y
		case "*":
			return x * y
		default:
			if y == 0 {
				m.trapf(pos, "unsigned integer division by zero (%d / 0)", x)
			}
			return x / y
		}
	}
}

func (m *machine) arith(op string, a, b Value, pos Pos) Value {
	if !arithShapeOK(a.T) || !arithShapeOK(b.T) || !a.T.base().isNumeric() || !b.T.base().isNumeric() {
		m.invalidf(pos, "operator %s needs numeric operands, got %s and %s", op, a.T, b.T)
	}
	a, b = m.unifyBase(op, a, b, pos)
	k := a.T.base().Kind
	ta, tb := a.T, b.T
	// linear-algebraic products
	if op == "*" && (ta.Kind == KMat || tb.Kind == KMat) && !ta.isScalar() && !tb.isScalar() {
		switch {
		case ta.Kind == KMat && tb.Kind == KMat:
			if ta.Cols != tb.Rows {
				m.invalidf(pos, "matrix product %s * %s: dimension mismatch", ta, tb)
			}
			rt := matOf(tb.Cols, ta.Rows)
			out := Value{T: rt, W: make([]uint32, rt.words)}
			for c := 0; c < tb.Cols; c++ {
				for r := 0; r < ta.Rows; r++ {
					var acc float32
					for i := 0; i < ta.Cols; i++ {
						p := float32(f32(a.W[i*ta.Rows+r]) * f32(b.W[c*tb.Rows+i]))
						if i == 0 {
							acc = p
						} else {
							acc = float32(acc + p)
						}
					}
					out.W[c*ta.Rows+r] = fbits(acc)
				}
			}
			return out
		case ta.Kind == KMat && tb.Kind == KVec:
			if tb.N != ta.Cols {
				m.invalidf(pos, "product %s * %s: dimension mismatch", ta, tb)
			}
			rt := vecOf(tFloat, ta.Rows)
			out := Value{T: rt, W: make([]uint32, rt.words)}
			for r := 0; r < ta.Rows; r++ {
				var acc float32
				for i := 0; i < ta.Cols; i++ {
					p := float32(f32(a.W[i*ta.Rows+r]) * f32(b.W[i]))
					if i == 0 {
						acc = p
					} else {
						acc = float32(acc + p)
					}
				}
				out.W[r] = fbits(acc)
			}
			return out
		case ta.Kind == KVec && tb.Kind == KMat:
			if ta.N != tb.Rows {
				m.invalidf(pos, "product %s * %s: dimension mismatch", ta, tb)
			}
			rt := vecOf(tFloat, tb.Cols)
			out := Value{T: rt, W: make([]uint32, rt.words)}
			for c := 0; c < tb.Cols; c++ {
				var acc float32
				for i := 0; i < tb.Rows; i++ {
					p := float32(f32(a.W[i]) * f32(b.W[c*tb.Rows+i]))
					if i == 0 {
						acc = p
					} else {
						acc = float32(acc + p)
					}
				}
				out.W[c] = fbits(acc)
			}
			return out
		}
	}
	var rt *Type
	switch {
	case ta.isScalar():
		rt = tb
	case tb.isScalar():
		rt = ta
	case sameShape(ta, tb):
		rt = ta
	default:
		m.invalidf(pos, "operator %s: operand shapes %s and %s do not match", op, ta, tb)
	}
	out := Value{T: rt, W: make([]uint32, rt.words)}
	for i := range out.W {
		x, y := a.W[0], b.W[0]
		if !ta.isScalar() {
			x = a.W[i]
		}
		if !tb.isScalar() {
			y = b.W[i]
		}
		out.W[i] = m.arithWord(op, x, y, k, pos)
	}
	return out
}

func intShapeOK(t *Type) bool {
	return (t.isScalar() || t.Kind == KVec) && (t.base().Kind == KInt || t.base().Kind == KUint)
}

func (m *machine) intop(op string, a, b Value, pos Pos) Value {
	if !intShapeOK(a.T) || !intShapeOK(b.T) {
		m.invalidf(pos, "operator %s needs integer operands, got %s and %s", op, a.T, b.T)
	}
	a, b = m.unifyBase(op, a, b, pos)
	k := a.T.base().Kind
	var rt *Type
	switch {
	case a.T.isScalar():
		rt = b.T
	case b.T.isScalar():
		rt = a.T
	case a.T.N == b.T.N:
		rt = a.T
	default:
		m.invalidf(pos, "operator %s: operand shapes %s and %s do not match", op, a.T, b.T)
	}
	out := Value{T: rt, W: make([]uint32, rt.words)}
	for i := range out.W {
		x, y := a.W[0], b.W[0]
		if !a.T.isScalar() {
			x = a.W[i]
		}
		if !b.T.isScalar() {
			y = b.W[i]
		}
		switch op {
		case "&":
			out.W[i] = x & y
		case "|":
			out.W[i] = x | y
		case "^":
			out.W[i] = x ^ y
		case "%":
			if y == 0 {
				m.trapf(pos, "integer modulus by zero (%s %% 0)", fmtInt(x, k))
			}
			if k == KInt {
				if int32(x) < 0 || int32(y) < 0 {
					m.trapf(pos, "operator %% with a negative operand (%d %% %d) is undefined", int32(x), int32(y))
				}
				out.W[i] = uint32(int32(x) % int32(y))
			} else {
				out.W[i] = x % y
			}
		}
	}
	return out
}

func (m *machine) shift(op string, a, b Value, pos Pos) Value {
	if !intShapeOK(a.T) || !intShapeOK(b.T) {
		m.invalidf(pos, "operator %s needs integer operands, got %s and %s", op, a.T, b.T)
	}
	if a.T.isScalar() && !b.T.isScalar() {
		m.invalidf(pos, "operator %s: scalar left operand with vector shift count", op)
	}
	if !a.T.isScalar() && !b.T.isScalar() && a.T.N != b.T.N {
		m.invalidf(pos, "operator %s: operand shapes %s and %s do not match", op, a.T, b.T)
	}
	out := Value{T: a.T, W: make([]uint32, len(a.W))}
	for i := range out.W {
		y := b.W[0]
		if !b.T.isScalar() {
			y = b.W[i]
		}
		if b.T.base().Kind == KInt && int32(y) < 0 {
			m.trapf(pos, "shift count %d is negative", int32(y))
		}
		if y >= 32 {
			m.trapf(pos, "shift count %d >= 32", y)
		}
		x := a.W[i]
		switch {
		case op == "<<":
			out.W[i] = x << y
		case a.T.base().Kind == KInt:
			out.W[i] = uint32(int32(x) >> y)
		default:
			out.W[i] = x >> y
		}
	}
	return out
}
