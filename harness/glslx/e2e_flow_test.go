package glslx

import (
	"testing"

	"verif/harness/xrt"
)

const ioFlow = `
@group(0) @binding(0) var<storage, read> a: array<i32, 8>;
@group(0) @binding(1) var<storage, read_write> o: array<i32, 16>;
`

func TestE2E_Loops(t *testing.T) {
	src := ioFlow + `
@compute @workgroup_size(1) fn main() {
  // for with continue and break: sum of odd i < 8, stop at i == 7 -> 1+3+5 = 9
  var s = 0;
  for (var i = 0; i < a[0]; i++) {
    if (i % 2 == 0) { continue; }
    if (i == 7) { break; }
    s += i;
  }
  o[0] = s;
  // while: Collatz steps of 6: 6 3 10 5 16 8 4 2 1 -> 8 steps
  var n = a[1]; var steps = 0;
  while (n != 1) {
    if (n % 2 == 0) { n = n / 2; } else { n = 3 * n + 1; }
    steps++;
  }
  o[1] = steps;
  // loop + continuing + break if: continuing runs after continue;  k: 0,1,2,3 ; acc adds k for k != 1 -> 0+2 = 2, exits when k == 3
  var k = 0; var acc = 0;
  loop {
    if (k == 1) { continue; }
    acc += k;
    continuing { k++; break if k == 3; }
  }
  o[2] = acc; o[3] = k;
  // nested loops with break of the inner one only: pairs (i,j) with j < i, i in 0..3 -> 0+1+2+3 = 6
  var cnt = 0;
  for (var i = 0; i < 4; i++) {
    for (var j = 0; j < 10; j++) {
      if (j >= i) { break; }
      cnt++;
    }
  }
  o[4] = cnt;
  // decrementing loop with u32 and compound ops: 5*4*3*2*1 = 120
  var f = 1u;
  for (var u = 5u; u > 0u; u--) { f *= u; }
  o[5] = i32(f);
}`
	e2e(t, src, xrt.Input{}, bufMap{"0.0": words(8, 6, 0, 0, 0, 0, 0, 0), "0.1": zeros(16)},
		map[string][]any{"0.1": {9, 8, 2, 3, 6, 120}})
}

func TestE2E_Switch(t *testing.T) {
	src := ioFlow + `
fn classify(x: i32) -> i32 {
  var r = 0;
  switch x {
    case 1, 2: { r = 10; }
    default: { r = -1; }
    case 3: { r = 30; }
    case -4: { r = 40; }
  }
  return r;
}
fn uclass(x: u32) -> i32 {
  switch x {
    case 0u: { return 100; }
    case 4294967295u: { return 200; }
    default: { }
  }
  return 300;
}
@compute @workgroup_size(1) fn main() {
  o[0] = classify(a[0]);    // 1 -> 10
  o[1] = classify(a[1]);    // 2 -> 10
  o[2] = classify(a[2]);    // 3 -> 30
  o[3] = classify(a[3]);    // -4 -> 40
  o[4] = classify(a[4]);    // 99 -> -1
  o[5] = uclass(u32(a[5])); // 0 -> 100
  o[6] = uclass(u32(a[6])); // -1 as u32 -> 200
  o[7] = uclass(7u);        // 300
  // switch inside a loop with continue and break-of-switch
  var sum = 0;
  for (var i = 0; i < 6; i++) {
    switch i {
      case 1: { continue; }           // skips the += below
      case 3: { sum += 100; }         // leaves the switch only
      case 5: { break; }              // WGSL: break leaves the switch, not the loop
      default: { sum += 1; }
    }
    sum += 1000;
  }
  // i=0: 1+1000; i=1: -; i=2: 1+1000; i=3: 100+1000; i=4: 1+1000; i=5: 1000  => 5103
  o[8] = sum;
}`
	e2e(t, src, xrt.Input{}, bufMap{"0.0": words(1, 2, 3, -4, 99, 0, -1, 0), "0.1": zeros(16)},
		map[string][]any{"0.1": {10, 10, 30, 40, -1, 100, 200, 300, 5103}})
}

func TestE2E_FunctionsAndPointers(t *testing.T) {
	src := ioFlow + `
struct Acc { total: i32, n: i32 }
fn add(p: ptr<function, Acc>, v: i32) { (*p).total += v; (*p).n++; }
fn twice(p: ptr<function, i32>) -> i32 { *p = *p * 2; return *p + 1; }
fn level3(x: i32) -> i32 { if (x > 10) { return x - 10; } return x * x; }
fn level2(x: i32, y: i32) -> i32 { return level3(x) + level3(y); }
fn level1(x: i32) -> i32 { var t = x; let r = twice(&t); return level2(t, r); }
fn firstNeg(limit: i32) -> i32 {
  for (var i = 0; i < limit; i++) {
    var j = 0;
    loop {
      if (j > 2) { break; }
      if (a[i] + j < 0) { return i * 10 + j; }   // return from a nested loop
      j++;
    }
  }
  return -1;
}
fn store3(p: ptr<storage, array<i32, 16>, read_write>, i: i32, v: i32) { (*p)[i] = v; (*p)[i + 1] = v + 1; }
fn mk(total: i32) -> Acc { return Acc(total, 0); }
@compute @workgroup_size(1) fn main() {
  var acc = mk(5);
  add(&acc, a[0]); add(&acc, a[1]); add(&acc, a[2]);   // 5 + 3 + 4 - 9 = 3 ; n = 3
  o[0] = acc.total; o[1] = acc.n;
  var x = a[0];                     // 3
  o[2] = twice(&x);                 // x = 6, returns 7
  o[3] = x;
  o[4] = level1(a[1]);              // t=8, r=9: level3(8)+level3(9) = 64+81 = 145
  o[5] = level1(a[3]);              // t=12, r=13: 2 + 3 = 5
  o[6] = firstNeg(4);               // a = 3,4,-9,6: a[2]+0 < 0 at i=2,j=0 -> 20
  o[7] = firstNeg(2);               // none -> -1
  store3(&o, 8, 70);                // o[8]=70, o[9]=71
  var arr = array<i32, 3>(1, 2, 3);
  let pa = &arr[1];
  *pa = *pa + 40;
  o[10] = arr[0] + arr[1] + arr[2]; // 46
}`
	e2e(t, src, xrt.Input{}, bufMap{"0.0": words(3, 4, -9, 6, 0, 0, 0, 0), "0.1": zeros(16)},
		map[string][]any{"0.1": {3, 3, 7, 6, 145, 5, 20, -1, 70, 71, 46}})
}

func TestE2E_LocalArraysAndStructs(t *testing.T) {
	src := ioFlow + `
struct Q { v: vec2<i32>, w: array<i32, 3> }
const K: i32 = 7;
const TAB = array<i32, 4>(2, 3, 5, 7);
@compute @workgroup_size(1) fn main() {
  var arr = array<i32, 4>(10, 20, 30, 40);
  let i = a[0];                 // 2
  arr[i] = arr[i - 1] + arr[3]; // 60
  arr[0] -= K;                  // 3
  o[0] = arr[0]; o[1] = arr[1]; o[2] = arr[2]; o[3] = arr[3];
  var q = Q(vec2<i32>(1, 2), array<i32, 3>(4, 5, 6));
  q.w[i] = q.v.y * 100;         // 200
  q.v.x = q.w[0] + q.w[1];      // 9
  var q2 = q;                   // copy
  q2.w[0] = -1;
  o[4] = q.v.x; o[5] = q.w[0]; o[6] = q.w[2]; o[7] = q2.w[0]; o[8] = q2.w[2];
  o[9] = TAB[i] + TAB[a[1]];    // 5 + 7 = 12
  var z: array<vec2<i32>, 2>;   // zero value
  z[1].y = 8;
  o[10] = z[0].x + z[1].x + z[1].y;   // 8
  var b = false;
  var e = o[15] == 0 && !b;
  o[11] = select(5, 6, e);
}`
	e2e(t, src, xrt.Input{}, bufMap{"0.0": words(2, 3, 0, 0, 0, 0, 0, 0), "0.1": zeros(16)},
		map[string][]any{"0.1": {3, 20, 60, 40, 9, 4, 200, -1, 200, 12, 8, 6}})
}

func TestE2E_IncDecCompound(t *testing.T) {
	src := ioFlow + `
@compute @workgroup_size(1) fn main() {
  var x = a[0];       // 10
  x += 5; x -= 2; x *= 3; x /= 4; x %= 7;    // 15, 13, 39, 9, 2
  o[0] = x;
  var u = u32(a[1]);  // 0xF0
  u |= 0x0Fu; u &= 0xFCu; u ^= 0xFFu; u <<= 4u; u >>= 2u;   // 0xFF, 0xFC, 0x03, 0x30, 0x0C
  o[1] = i32(u);
  var v = vec3<i32>(1, 2, 3);
  v *= 2; v += vec3<i32>(1, 0, -1); v.y -= 10;    // (2,4,6) -> (3,4,5) -> (3,-6,5)
  o[2] = v.x; o[3] = v.y; o[4] = v.z;
  o[5]++; o[5]++; o[6]--;                     // 2, -1
  var f = 1.5;
  f *= 4.0; f -= 0.25; f /= 0.5;              // 6, 5.75, 11.5
  o[7] = i32(f * 2.0);                        // 23
}`
	e2e(t, src, xrt.Input{}, bufMap{"0.0": words(10, 0xF0, 0, 0, 0, 0, 0, 0), "0.1": zeros(16)},
		map[string][]any{"0.1": {2, 0x0C, 3, -6, 5, 2, -1, 23}})
}
