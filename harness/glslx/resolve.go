package glslx

import (
	"fmt"

	"verif/harness/xrt"
)

// Decl is one declaration found in the unit.
//
// Kinds: "struct", "struct member", "function", "parameter", "global",
// "local", "block" (the block name), "block instance", "block member".
//
// Scope is the nesting depth of the scope the name is declared in: 0 is the
// global scope; a function's parameters and the outermost statements of its
// body share depth 1; every nested compound statement, if/else branch, switch
// body and loop adds one (the loop's init declaration, condition declaration
// and body share the loop's scope, as GLSL specifies).  Struct members and the
// members of a block that has an instance name live in the namespace of their
// struct/block and carry the depth of that declaration plus one.  Members of a
// block without an instance name are in the global scope (depth 0).
type Decl struct {
	Kind   string
	Name   string
	Type   string // type as written (with array suffix), "" for struct/block
	Line   int
	Col    int
	Scope  int
	Parent int // index of the enclosing struct/block/function declaration, -1 if none
}

// Ref is one identifier reference.  Decl is the index into Decls() of the
// declaration it resolves to (innermost scope first), or -1.  Builtin is set
// for gl_* variables, built-in functions and built-in type constructors.
// Kind tells how the identifier is used: "variable", "call", "type".
// Field selections (x.member, swizzles) are not identifier references and are
// not listed.
type Ref struct {
	Name    string
	Kind    string
	Line    int
	Col     int
	Decl    int
	Builtin bool
}

type rscope struct {
	names  map[string]int // variables and functions
	types  map[string]int // struct names
	parent *rscope
	depth  int
}

type resolver struct {
	u   *Unit
	cur *rscope
	sig string // parameter type list of the function being declared (scope events)
}

func (u *Unit) resolve() {
	if u.resolved {
		return
	}
	u.resolved = true
	r := &resolver{u: u}
	defer func() {
		if p := recover(); p != nil {
			u.problems = append(u.problems, fmt.Sprintf("internal: resolver panic: %v", p))
		}
	}()
	r.cur = &rscope{names: map[string]int{}, types: map[string]int{}}
	r.ev(xrt.ScopeEv{Op: "open", Kind: "unit"})
	for _, n := range u.Nodes {
		r.node(n)
	}
	r.ev(xrt.ScopeEv{Op: "close"})
}

// ScopeEvents is the declaration / reference event stream recorded by the
// resolver (consumed by spec/Scopes.tla, property C16).
func (u *Unit) ScopeEvents() []xrt.ScopeEv { u.resolve(); return u.sev }

func (r *resolver) ev(e xrt.ScopeEv) { r.u.sev = append(r.u.sev, e) }

// Decls lists every declaration in source order.
func (u *Unit) Decls() []Decl { u.resolve(); return u.decls }

// Refs lists every identifier reference in source order.
func (u *Unit) Refs() []Ref { u.resolve(); return u.refs }

// Problems lists scoping problems found by the resolver: redeclarations in
// the same scope and references that resolve to nothing.
func (u *Unit) Problems() []string { u.resolve(); return u.problems }

func (r *resolver) push() {
	r.cur = &rscope{names: map[string]int{}, types: map[string]int{}, parent: r.cur, depth: r.cur.depth + 1}
	r.ev(xrt.ScopeEv{Op: "open", Kind: "body"})
}
func (r *resolver) pop() { r.cur = r.cur.parent; r.ev(xrt.ScopeEv{Op: "close"}) }

func typeString(ts TypeSpec) string {
	s := ts.Name
	for _, d := range ts.Dims {
		if d == nil {
			s += "[]"
		} else if il, ok := d.(*IntLit); ok {
			s += fmt.Sprintf("[%d]", il.Val)
		} else {
			s += "[...]"
		}
	}
	return s
}

func (r *resolver) add(kind, name, typ string, pos Pos, parent int, scope int) int {
	r.u.decls = append(r.u.decls, Decl{Kind: kind, Name: name, Type: typ, Line: pos.Line, Col: pos.Col, Scope: scope, Parent: parent})
	r.ev(xrt.ScopeEv{Op: "decl", Kind: kind, Name: name, Sig: r.sig, Line: pos.Line, Col: pos.Col, Decl: len(r.u.decls) - 1})
	return len(r.u.decls) - 1
}

func (r *resolver) declareName(kind, name, typ string, pos Pos, parent int) int {
	idx := r.add(kind, name, typ, pos, parent, r.cur.depth)
	if name == "" {
		return idx
	}
	if prev, dup := r.cur.names[name]; dup {
		pd := r.u.decls[prev]
		// a function may be declared several times (prototype + definition, overloads)
		if !(kind == "function" && pd.Kind == "function") {
			r.u.problems = append(r.u.problems, fmt.Sprintf("%d:%d: redeclaration of %s in the same scope (previous %s at %d:%d)", pos.Line, pos.Col, name, pd.Kind, pd.Line, pd.Col))
		}
	}
	if _, dup := r.cur.types[name]; dup {
		r.u.problems = append(r.u.problems, fmt.Sprintf("%d:%d: %s %s has the same name as a struct in the same scope", pos.Line, pos.Col, kind, name))
	}
	r.cur.names[name] = idx
	return idx
}

func (r *resolver) lookupName(name string) int {
	for s := r.cur; s != nil; s = s.parent {
		if i, ok := s.names[name]; ok {
			return i
		}
		if _, ok := s.types[name]; ok {
			return -1 // hidden by a type name
		}
	}
	return -1
}

func (r *resolver) lookupType(name string) int {
	for s := r.cur; s != nil; s = s.parent {
		if i, ok := s.types[name]; ok {
			return i
		}
	}
	return -1
}

func (r *resolver) ref(kind, name string, pos Pos, decl int, builtin bool) {
	r.u.refs = append(r.u.refs, Ref{Name: name, Kind: kind, Line: pos.Line, Col: pos.Col, Decl: decl, Builtin: builtin})
	r.ev(xrt.ScopeEv{Op: "ref", Kind: kind, Name: name, Line: pos.Line, Col: pos.Col, Decl: decl, Builtin: builtin})
	if decl < 0 && !builtin {
		r.u.problems = append(r.u.problems, fmt.Sprintf("%d:%d: %s reference %s resolves to no declaration", pos.Line, pos.Col, kind, name))
	}
}

func (r *resolver) typeRef(ts TypeSpec) {
	if isBuiltinTypeName(ts.Name) {
		r.ref("type", ts.Name, ts.Pos, -1, true)
	} else {
		r.ref("type", ts.Name, ts.Pos, r.lookupType(ts.Name), false)
	}
	for _, d := range ts.Dims {
		if d != nil {
			r.expr(d)
		}
	}
}

func (r *resolver) quals(q Quals) {
	for _, l := range q.Layout {
		if l.Value != nil {
			r.expr(l.Value)
		}
	}
}

func (r *resolver) structDecl(d *StructDecl) {
	idx := r.add("struct", d.Name, "", d.Pos, -1, r.cur.depth)
	if prev, dup := r.cur.types[d.Name]; dup {
		pd := r.u.decls[prev]
		r.u.problems = append(r.u.problems, fmt.Sprintf("%d:%d: redeclaration of struct %s (previous at %d:%d)", d.Pos.Line, d.Pos.Col, d.Name, pd.Line, pd.Col))
	}
	if _, dup := r.cur.names[d.Name]; dup {
		r.u.problems = append(r.u.problems, fmt.Sprintf("%d:%d: struct %s has the same name as a variable or function in the same scope", d.Pos.Line, d.Pos.Col, d.Name))
	}
	seen := map[string]bool{}
	r.ev(xrt.ScopeEv{Op: "open", Kind: "struct"})
	for _, f := range d.Fields {
		r.typeRef(f.Type)
		r.add("struct member", f.Name, typeString(f.Type), f.Pos, idx, r.cur.depth+1)
		if seen[f.Name] {
			r.u.problems = append(r.u.problems, fmt.Sprintf("%d:%d: duplicate member %s in struct %s", f.Pos.Line, f.Pos.Col, f.Name, d.Name))
		}
		seen[f.Name] = true
	}
	r.ev(xrt.ScopeEv{Op: "close"})
	// the struct name is in scope after its definition
	r.cur.types[d.Name] = idx
}

func (r *resolver) varDecl(kind string, d *VarDecl) {
	r.quals(d.Quals)
	r.typeRef(d.Type)
	if d.Init != nil {
		r.expr(d.Init) // the initialiser cannot see the name being declared
	}
	r.declareName(kind, d.Name, typeString(d.Type), d.Pos, -1)
}

func (r *resolver) node(n Node) {
	switch d := n.(type) {
	case *StructDecl:
		r.structDecl(d)
	case *VarDecl:
		r.varDecl("global", d)
	case *QualDecl:
		r.quals(d.Quals)
		for _, nm := range d.Names {
			idx := r.lookupName(nm)
			r.ref("variable", nm, d.Pos, idx, idx < 0 && len(nm) > 3 && nm[:3] == "gl_")
		}
	case *BlockDecl:
		r.quals(d.Quals)
		bidx := r.add("block", d.Name, "", d.Pos, -1, r.cur.depth)
		seen := map[string]bool{}
		if d.Instance != "" {
			r.ev(xrt.ScopeEv{Op: "open", Kind: "block"})
		}
		for _, mem := range d.Members {
			r.quals(mem.Quals)
			r.typeRef(mem.Type)
			if d.Instance == "" {
				i := r.declareName("block member", mem.Name, typeString(mem.Type), mem.Pos, bidx)
				_ = i
			} else {
				r.add("block member", mem.Name, typeString(mem.Type), mem.Pos, bidx, r.cur.depth+1)
				if seen[mem.Name] {
					r.u.problems = append(r.u.problems, fmt.Sprintf("%d:%d: duplicate member %s in block %s", mem.Pos.Line, mem.Pos.Col, mem.Name, d.Name))
				}
				seen[mem.Name] = true
			}
		}
		if d.Instance != "" {
			r.ev(xrt.ScopeEv{Op: "close"})
			for _, dim := range d.InstanceDims {
				if dim != nil {
					r.expr(dim)
				}
			}
			r.declareName("block instance", d.Instance, d.Name, d.InstancePos, bidx)
		}
	case *FuncDecl:
		r.typeRef(d.Ret)
		r.sig = "("
		for i, p := range d.Params {
			if i > 0 {
				r.sig += ","
			}
			r.sig += typeString(p.Type)
		}
		r.sig += ")"
		fidx := r.declareName("function", d.Name, typeString(d.Ret), d.Pos, -1)
		r.sig = ""
		r.push()
		for _, p := range d.Params {
			r.quals(p.Quals)
			r.typeRef(p.Type)
			if p.Name != "" {
				r.declareName("parameter", p.Name, typeString(p.Type), p.Pos, fidx)
			}
		}
		if d.Body != nil {
			// the body's outermost statements share the parameters' scope
			for _, s := range d.Body.List {
				r.stmt(s)
			}
		}
		r.pop()
	}
}

func (r *resolver) scoped(s Stmt) {
	r.push()
	if b, ok := s.(*BlockStmt); ok {
		for _, x := range b.List {
			r.stmt(x)
		}
	} else {
		r.stmt(s)
	}
	r.pop()
}

func (r *resolver) stmt(s Stmt) {
	switch s := s.(type) {
	case *BlockStmt:
		r.scoped(s)
	case *DeclStmt:
		if s.Struct != nil {
			r.structDecl(s.Struct)
		}
		for _, v := range s.Vars {
			r.varDecl("local", v)
		}
	case *ExprStmt:
		r.expr(s.X)
	case *IfStmt:
		r.expr(s.Cond)
		r.scoped(s.Then)
		if s.Else != nil {
			r.scoped(s.Else)
		}
	case *SwitchStmt:
		r.expr(s.Tag)
		r.push()
		for _, x := range s.Body {
			r.stmt(x)
		}
		r.pop()
	case *CaseStmt:
		if s.X != nil {
			r.expr(s.X)
		}
	case *ForStmt:
		r.push()
		if s.Init != nil {
			r.stmt(s.Init)
		}
		if s.CondDecl != nil {
			r.varDecl("local", s.CondDecl)
		}
		if s.Cond != nil {
			r.expr(s.Cond)
		}
		if s.Post != nil {
			r.expr(s.Post)
		}
		r.loopBody(s.Body)
		r.pop()
	case *WhileStmt:
		r.push()
		if s.CondDecl != nil {
			r.varDecl("local", s.CondDecl)
		}
		if s.Cond != nil {
			r.expr(s.Cond)
		}
		r.loopBody(s.Body)
		r.pop()
	case *DoStmt:
		r.scoped(s.Body)
		r.expr(s.Cond)
	case *ReturnStmt:
		if s.X != nil {
			r.expr(s.X)
		}
	}
}

// loopBody: for `for` and `while` the sub-statement does not introduce a new
// scope of its own (GLSL 4.60 section 6.3).
func (r *resolver) loopBody(s Stmt) {
	if b, ok := s.(*BlockStmt); ok {
		for _, x := range b.List {
			r.stmt(x)
		}
		return
	}
	r.stmt(s)
}

func (r *resolver) expr(e Expr) {
	switch e := e.(type) {
	case *Ident:
		idx := r.lookupName(e.Name)
		r.ref("variable", e.Name, e.Pos, idx, idx < 0 && len(e.Name) > 3 && e.Name[:3] == "gl_")
	case *BinaryExpr:
		r.expr(e.L)
		r.expr(e.R)
	case *UnaryExpr:
		r.expr(e.X)
	case *PostfixExpr:
		r.expr(e.X)
	case *AssignExpr:
		r.expr(e.L)
		r.expr(e.R)
	case *CondExpr:
		r.expr(e.Cond)
		r.expr(e.A)
		r.expr(e.B)
	case *CommaExpr:
		r.expr(e.L)
		r.expr(e.R)
	case *CallExpr:
		if e.Ctor != nil {
			r.typeRef(*e.Ctor)
		} else {
			idx := r.lookupName(e.Name)
			if idx >= 0 && r.u.decls[idx].Kind != "function" {
				r.u.problems = append(r.u.problems, fmt.Sprintf("%d:%d: call of %s, which is a %s here", e.Pos.Line, e.Pos.Col, e.Name, r.u.decls[idx].Kind))
			}
			r.ref("call", e.Name, e.Pos, idx, idx < 0 && isKnownBuiltinFunc(e.Name))
		}
		for _, a := range e.Args {
			r.expr(a)
		}
	case *IndexExpr:
		r.expr(e.X)
		r.expr(e.I)
	case *FieldExpr:
		r.expr(e.X)
		r.ev(xrt.ScopeEv{Op: "field", Name: e.Name, Line: e.Pos.Line, Col: e.Pos.Col, Decl: -1})
	case *MethodExpr:
		r.expr(e.X)
	}
}

func isKnownBuiltinFunc(name string) bool {
	if builtinNames[name] {
		return true
	}
	for _, p := range knownUnsupported {
		if len(name) >= len(p) && name[:len(p)] == p {
			return true
		}
	}
	return false
}

// Blocks describes every buffer / uniform interface block with its computed
// std140 / std430 layout.  The error (if any) of the static analysis is
// reported through Block.LayoutErr of the affected block or, when the analysis
// could not reach the block, by its absence; use BlocksErr for the message.
func (u *Unit) Blocks() []Block {
	b, _ := u.BlocksErr()
	return b
}

// BlocksErr is Blocks plus the reason why the static analysis stopped early.
func (u *Unit) BlocksErr() (blocks []Block, err error) {
	in := xrt.Input{}
	m := newMachine(u, &in, true)
	defer func() {
		for _, b := range m.blocks {
			blocks = append(blocks, b.info)
		}
		if r := recover(); r != nil {
			if re, ok := r.(*runErr); ok {
				err = fmt.Errorf("%s", re.msg)
				return
			}
			err = fmt.Errorf("internal: %v", r)
		}
	}()
	m.setup()
	return nil, nil
}
