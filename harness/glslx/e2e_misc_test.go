package glslx

import (
	"fmt"
	"strings"
	"testing"

	"github.com/gogpu/naga"
	"github.com/gogpu/naga/glsl"

	"verif/harness/xrt"
)

func compileOpts(t *testing.T, wgsl string, opts glsl.Options) string {
	t.Helper()
	ast, err := naga.Parse(wgsl)
	if err != nil {
		t.Fatal(err)
	}
	m, err := naga.LowerWithSource(ast, wgsl)
	if err != nil {
		t.Fatal(err)
	}
	s, _, err := glsl.Compile(m, opts)
	if err != nil {
		t.Fatal(err)
	}
	return s
}

func TestE2E_AlignSizeAttributes(t *testing.T) {
	// WGSL layout: a@0, b@32 (@align(32)), c@36 (size 16 by @size), d@52.
	// The GLSL block naga emits carries no offset/align qualifiers, so std430 puts
	// b@4, c@8, d@12.  The executor follows the GLSL text: the stores land at the
	// std430 offsets, which is how the harness sees the layout mismatch.
	src := `
struct S { a: i32, @align(32) b: i32, @size(16) c: i32, d: i32 }
@group(0) @binding(0) var<storage, read_write> s: S;
@compute @workgroup_size(1) fn main() { s.a = 1; s.b = 2; s.c = 3; s.d = 4; }`
	for _, vc := range allVers {
		glslSrc, err := compileWGSL(src, "main", vc.v)
		if err != nil {
			t.Fatal(err)
		}
		u, err := Parse(glslSrc)
		if err != nil {
			t.Fatal(err)
		}
		blocks := u.Blocks()
		if len(blocks) != 1 {
			t.Fatalf("blocks: %d", len(blocks))
		}
		b := make([]byte, 64)
		o := u.Run(xrt.Input{Buffers: bufMap{"0.0": b}})
		if !o.OK() {
			t.Fatalf("[%s] %+v\n%s", vc.name, o, numbered(glslSrc))
		}
		ml := blocks[0].Members[0].Layout // the struct S inside the block
		if blocks[0].Members[0].Type != "S" || len(ml.Members) != 4 {
			t.Fatalf("unexpected block shape: %+v", blocks[0])
		}
		offs := fmt.Sprint(ml.Members[0].Offset, ml.Members[1].Offset, ml.Members[2].Offset, ml.Members[3].Offset)
		t.Logf("[%s] GLSL member offsets of S: %s (WGSL: 0 32 36 52)", vc.name, offs)
		switch offs {
		case "0 4 8 12": // what the emitted text means
			expectWords(t, vc.name, b, 1, 2, 3, 4)
		case "0 32 36 52": // naga emitted explicit offsets: then the bytes must be at the WGSL offsets
			expectWords(t, vc.name, b, 1, 0, 0, 0, 0, 0, 0, 0, 2, 3, 0, 0, 0, 4)
		default:
			t.Errorf("[%s] unexpected member offsets %s", vc.name, offs)
		}
	}
}

func TestE2E_BindingMapAndOptions(t *testing.T) {
	src := `
@group(2) @binding(1) var<storage, read_write> o: array<u32, 4>;
@group(0) @binding(0) var<uniform> u: vec4<u32>;
@compute @workgroup_size(1) fn main() { o[0] = u.x + u.w; o[3] = 7u; }`
	opts := glsl.Options{LangVersion: glsl.Version450, EntryPoint: "main",
		BindingMap:  map[glsl.BindingMapKey]uint8{{Group: 2, Binding: 1}: 4, {Group: 0, Binding: 0}: 9},
		WriterFlags: glsl.WriterFlagDebugInfo | glsl.WriterFlagExplicitTypes, ForceHighPrecision: true}
	text := compileOpts(t, src, opts)
	if !strings.Contains(text, "binding = 4") || !strings.Contains(text, "binding = 9") {
		t.Fatalf("binding map not applied:\n%s", text)
	}
	// bound by "binding=N" only
	ob := zeros(4)
	o := Run(text, xrt.Input{Buffers: bufMap{"binding=4": ob, "binding=9": words(5, 0, 0, 6)}})
	if !o.OK() {
		t.Fatalf("%+v\n%s", o, numbered(text))
	}
	expectWords(t, "o", ob, 11, 0, 0, 7)
	// "<G>.<B>" has priority over "binding=N"
	ob2, dummy := zeros(4), zeros(4)
	o = Run(text, xrt.Input{Buffers: bufMap{"2.1": ob2, "binding=4": dummy, "0.0": words(1, 0, 0, 1), "binding=9": words(5, 0, 0, 6)}})
	if !o.OK() {
		t.Fatalf("%+v", o)
	}
	expectWords(t, "o2", ob2, 2, 0, 0, 7)
	expectWords(t, "dummy", dummy, 0, 0, 0, 0)
	// ES 3.20 with minify flag
	text = compileOpts(t, src, glsl.Options{LangVersion: glsl.VersionES320, EntryPoint: "main", WriterFlags: glsl.WriterFlagMinify})
	ob3 := zeros(4)
	o = Run(text, xrt.Input{Buffers: bufMap{"2.1": ob3, "0.0": words(40, 0, 0, 2)}})
	if !o.OK() {
		t.Fatalf("%+v\n%s", o, numbered(text))
	}
	expectWords(t, "o3", ob3, 42, 0, 0, 7)
}

func TestE2E_LargeWorkgroupArrayZeroInit(t *testing.T) {
	// >= 256 elements: naga zero-initialises with a for loop instead of a constructor
	src := `
var<workgroup> big: array<u32, 300>;
var<workgroup> grid: array<array<vec2<f32>, 2>, 3>;
@group(0) @binding(0) var<storage, read_write> o: array<u32, 4>;
fn total(p: ptr<workgroup, array<u32, 300>>) -> u32 {
  var s = 0u;
  for (var i = 0u; i < 300u; i++) { s += (*p)[i]; }
  return s;
}
@compute @workgroup_size(1) fn main() {
  big[299] = 5u; big[0] = 6u;
  grid[2][1].y = 1.0;
  o[0] = total(&big);                          // 11
  o[1] = big[150];                             // 0 (zero-initialised)
  o[2] = u32(grid[2][1].y + grid[0][0].x);     // 1
}`
	e2e(t, src, xrt.Input{MaxSteps: 200000}, bufMap{"0.0": words(9, 9, 9, 9)}, map[string][]any{"0.0": {11, 0, 1, 9}})
	// an invocation other than (0,0,0) skips naga's zero-initialisation guard, so
	// (with one simulated invocation) shared memory it never wrote is undefined
	src2 := `
var<workgroup> w: array<u32, 4>;
@group(0) @binding(0) var<storage, read_write> o: array<u32, 4>;
@compute @workgroup_size(2) fn main(@builtin(local_invocation_id) lid: vec3<u32>) { o[lid.x] = w[lid.x] + 1u; }`
	e2e(t, src2, xrt.Input{}, bufMap{"0.0": zeros(4)}, map[string][]any{"0.0": {1, 0}})
	e2eOutcome(t, allVers, src2, xrt.Input{LocalID: [3]uint32{1, 0, 0}}, bufMap{"0.0": zeros(4)}, "trap", "read of uninitialised shared variable w")
}

func TestE2E_StructValuesThroughFunctions(t *testing.T) {
	src := `
struct V { p: vec3<f32>, id: u32 }
struct Pair { a: V, b: V }
@group(0) @binding(0) var<storage, read_write> vs: array<V, 3>;
@group(0) @binding(1) var<storage, read_write> o: array<f32, 8>;
fn mkV(x: f32, id: u32) -> V { return V(vec3<f32>(x, x + 1.0, x + 2.0), id); }
fn swap(p: Pair) -> Pair { return Pair(p.b, p.a); }
fn sum(v: V) -> f32 { return v.p.x + v.p.y + v.p.z + f32(v.id); }
@compute @workgroup_size(1) fn main() {
  let pr = swap(Pair(mkV(1.0, 7u), vs[0]));    // a = vs[0] = ((10,20,30), 3), b = mkV(1,7)
  vs[1] = pr.a;
  vs[2] = pr.b;
  o[0] = sum(pr.a);                            // 63
  o[1] = sum(pr.b);                            // 1+2+3+7 = 13
  var arr = array<V, 2>(pr.b, pr.a);
  arr[1].p.y = -20.0;
  o[2] = sum(arr[1]) + sum(arr[0]);            // (10-20+30+3) + 13 = 36
}`
	vb := zeros(12)
	copy(vb, words(10.0, 20.0, 30.0, 3))
	e2e(t, src, xrt.Input{}, bufMap{"0.0": vb, "0.1": zeros(8)}, map[string][]any{
		"0.0": {10.0, 20.0, 30.0, 3, 10.0, 20.0, 30.0, 3, 1.0, 2.0, 3.0, 7},
		"0.1": {63.0, 13.0, 36.0},
	})
}

func TestE2E_TrapsThroughNaga(t *testing.T) {
	pre := `
@group(0) @binding(0) var<storage, read> a: array<i32, 4>;
@group(0) @binding(1) var<storage, read_write> o: array<i32, 4>;
@compute @workgroup_size(1) fn main() {`
	bufs := bufMap{"0.0": words(0, -7, 33, -2147483648), "0.1": zeros(4)}
	// WGSL defines all of these (x/0 = x, shifts are masked or errors, ...), but naga's
	// GLSL backend emits the bare GLSL operator, whose behaviour GLSL leaves undefined.
	e2eOutcome(t, allVers, pre+" o[0] = 5 / a[0]; }", xrt.Input{}, bufs, "trap", "division by zero")
	e2eOutcome(t, allVers, pre+" o[0] = 5 % a[0]; }", xrt.Input{}, bufs, "trap", "modulus by zero")
	e2eOutcome(t, allVers, pre+" o[0] = a[1] % 2; }", xrt.Input{}, bufs, "trap", "negative operand")
	e2eOutcome(t, allVers, pre+" o[0] = a[3] / (a[0] - 1); }", xrt.Input{}, bufs, "trap", "division overflow")
	e2eOutcome(t, allVers, pre+" o[0] = 1 << u32(a[2]); }", xrt.Input{}, bufs, "trap", "shift count 33 >= 32")
	e2eOutcome(t, allVers, pre+" o[a[2]] = 1; }", xrt.Input{}, bufs, "trap", "index 33 out of range")
	e2eOutcome(t, allVers, pre+" var l = array<i32, 3>(1, 2, 3); o[0] = l[a[2]]; }", xrt.Input{}, bufs, "trap", "index 33 out of range of array int[3]")
	e2eOutcome(t, allVers, pre+" o[0] = i32(f32(a[3]) * -2.0); }", xrt.Input{}, bufs, "trap", "float-to-int conversion of out-of-range value")
	e2eOutcome(t, allVers, pre+" o[0] = i32(u32(f32(a[1]))); }", xrt.Input{}, bufs, "trap", "float-to-uint conversion of negative value -7")
}

func TestE2E_MultipleEntryPointsAndOverrides(t *testing.T) {
	src := `
override scale: u32 = 2u;
@id(7) override bias: i32;
@group(0) @binding(0) var<storage, read_write> v: vec4<i32>;
@group(0) @binding(1) var<storage, read_write> rt: array<vec3<u32>>;
@group(0) @binding(2) var<storage, read_write> only_b: u32;
@compute @workgroup_size(1) fn ep_a() {
  v = v.wzyx * i32(scale) + bias;                        // (4,3,2,1)*3 - 5 = (7,4,1,-2)
  let n = arrayLength(&rt);                              // 48 / 16 = 3 (vec3 stride 16)
  rt[n - 1u] = rt[0] + vec3<u32>(n);                     // (1,2,3)+3
}
@compute @workgroup_size(4) fn ep_b(@builtin(local_invocation_index) i: u32) { only_b = i * scale; }`
	ast, err := naga.Parse(src)
	if err != nil {
		t.Fatal(err)
	}
	m, err := naga.LowerWithSource(ast, src)
	if err != nil {
		t.Fatal(err)
	}
	for _, vc := range allVers {
		pc := map[string]float64{"scale": 3, "7": -5}
		ta, _, err := glsl.Compile(m, glsl.Options{LangVersion: vc.v, EntryPoint: "ep_a", PipelineConstants: pc})
		if err != nil {
			t.Fatalf("compile ep_a: %v", err)
		}
		vb := words(1, 2, 3, 4)
		rb := zeros(12)
		copy(rb, words(1, 2, 3, 77))
		o := Run(ta, xrt.Input{Entry: "ep_a", Buffers: bufMap{"0.0": vb, "0.1": rb}})
		if !o.OK() {
			t.Fatalf("[%s] ep_a: %+v\n%s", vc.name, o, numbered(ta))
		}
		expectWords(t, vc.name+" v", vb, 7, 4, 1, -2)
		expectWords(t, vc.name+" rt", rb, 1, 2, 3, 77, 0, 0, 0, 0, 4, 5, 6, 0)
		tb, _, err := glsl.Compile(m, glsl.Options{LangVersion: vc.v, EntryPoint: "ep_b", PipelineConstants: pc})
		if err != nil {
			t.Fatalf("compile ep_b: %v", err)
		}
		ob := zeros(1)
		o = Run(tb, xrt.Input{Entry: "ep_b", Buffers: bufMap{"0.2": ob}, LocalID: [3]uint32{3, 0, 0}})
		if !o.OK() {
			t.Fatalf("[%s] ep_b: %+v\n%s", vc.name, o, numbered(tb))
		}
		expectWords(t, vc.name+" only_b", ob, 9)
		// LocalID outside the work-group size is a harness error, not a result
		o = Run(tb, xrt.Input{Buffers: bufMap{"0.2": ob}, LocalID: [3]uint32{4, 0, 0}})
		if !strings.Contains(o.Skip, "outside the work-group size") {
			t.Errorf("LocalID check: %+v", o)
		}
	}
}
