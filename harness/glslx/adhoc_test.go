package glslx

import (
	"fmt"
	"os"
	"testing"

	"github.com/gogpu/naga/glsl"
	"verif/harness/xrt"
)

// TestAdhoc: GLSLX_RUN=file.wgsl [GLSLX_ENTRY=name] go test -run TestAdhoc -v  (development aid)
func TestAdhoc(t *testing.T) {
	f := os.Getenv("GLSLX_RUN")
	if f == "" {
		t.Skip("GLSLX_RUN not set")
	}
	b, _ := os.ReadFile(f)
	entry := os.Getenv("GLSLX_ENTRY")
	if entry == "" {
		entry = "main"
	}
	s, err := compileWGSL(string(b), entry, glsl.Version430)
	if err != nil {
		t.Fatal(err)
	}
	u, err := Parse(s)
	if err != nil {
		t.Fatal(err)
	}
	bufs := map[string][]byte{}
	for _, bl := range u.Blocks() {
		for _, k := range bl.SlotKeys {
			bufs[k] = make([]byte, 4096)
		}
	}
	o := Run(s, xrt.Input{Buffers: bufs, MaxSteps: 200000})
	fmt.Printf("trap=%q skip=%q steps=%d\n", o.Trap, o.Skip, o.Steps)
	if os.Getenv("GLSLX_SHOW") != "" {
		fmt.Println(s)
	}
}
